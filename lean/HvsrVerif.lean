-- Root of the `HvsrVerif` library: models, proofs, property theorems and bridges.
import HvsrVerif.Scalar
import HvsrVerif.Proto
import HvsrVerif.Model.Peaks
import HvsrVerif.Model.Sesame
import HvsrVerif.Generated.Tables
import HvsrVerif.Proofs.RealInst
import HvsrVerif.Proofs.ListLemmas
import HvsrVerif.Props.C16
import HvsrVerif.Bridge.C16
