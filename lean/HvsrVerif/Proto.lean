/-!
# Line protocol of the driver (import-free)

One request per line, whitespace separated tokens. Integers are decimal,
booleans `0/1`, absent values `none`, floats are 16-hex-digit IEEE-754 bit
patterns (never decimal text), vectors are length-prefixed.
-/
namespace HV.Proto

abbrev P := StateT (List String) (Except String)

def tok : P String := do
  match (← get) with
  | [] => throw "eof"
  | t :: ts => set ts; pure t

def peek? : P (Option String) := do
  match (← get) with
  | [] => pure none
  | t :: _ => pure (some t)

def nat : P Nat := do
  let t ← tok
  match t.toNat? with
  | some n => pure n
  | none => throw s!"nat:{t}"

def int : P Int := do
  let t ← tok
  match t.toInt? with
  | some n => pure n
  | none => throw s!"int:{t}"

def bool : P Bool := do
  let t ← tok
  if t == "1" then pure true else if t == "0" then pure false else throw s!"bool:{t}"

def hexDigit (c : Char) : Option Nat :=
  if '0' ≤ c ∧ c ≤ '9' then some (c.toNat - '0'.toNat)
  else if 'a' ≤ c ∧ c ≤ 'f' then some (c.toNat - 'a'.toNat + 10)
  else if 'A' ≤ c ∧ c ≤ 'F' then some (c.toNat - 'A'.toNat + 10)
  else none

def hexToNat (s : String) : Option Nat :=
  s.toList.foldl (fun acc c => match acc, hexDigit c with
    | some a, some d => some (a * 16 + d)
    | _, _ => none) (some 0)

def fltOfTok (t : String) : Except String Float :=
  match hexToNat t with
  | some n => .ok (Float.ofBits n.toUInt64)
  | none => .error s!"flt:{t}"

def flt : P Float := do
  let t ← tok
  match fltOfTok t with
  | .ok f => pure f
  | .error e => throw e

def optFlt : P (Option Float) := do
  let t ← tok
  if t == "none" then pure none else
  match fltOfTok t with
  | .ok f => pure (some f)
  | .error e => throw e

def rep {β} (n : Nat) (p : P β) : P (List β) := do
  let mut out : Array β := #[]
  for _ in [0:n] do
    out := out.push (← p)
  pure out.toList

def vec : P (List Float) := do rep (← nat) flt
def natVec : P (List Nat) := do rep (← nat) nat
def boolVec : P (List Bool) := do rep (← nat) bool
def optVec : P (List (Option Float)) := do rep (← nat) optFlt
def mat : P (List (List Float)) := do rep (← nat) vec

/-! output -/
def hexChar (n : Nat) : Char :=
  if n < 10 then Char.ofNat ('0'.toNat + n) else Char.ofNat ('a'.toNat + n - 10)

def natToHex16 (n : Nat) : String :=
  String.ofList ((List.range 16).reverse.map (fun i => hexChar ((n / 16^i) % 16)))

def fF (x : Float) : String := natToHex16 x.toBits.toNat
def fB (b : Bool) : String := if b then "1" else "0"
def fOF : Option Float → String
  | none => "none"
  | some x => fF x
def fVec (v : List Float) : String := " ".intercalate (toString v.length :: v.map fF)
def fOVec (v : List (Option Float)) : String := " ".intercalate (toString v.length :: v.map fOF)
def fBVec (v : List Bool) : String := " ".intercalate (toString v.length :: v.map fB)
def fNVec (v : List Nat) : String := " ".intercalate (toString v.length :: v.map toString)
def fMat (m : List (List Float)) : String := " ".intercalate (toString m.length :: m.map fVec)

def tokens (line : String) : List String :=
  (line.splitOn " ").filter (fun s => s ≠ "") |>.map (fun s => s.trimAscii.toString) |>.filter (· ≠ "")

end HV.Proto
