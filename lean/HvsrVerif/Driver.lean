import HvsrVerif.Drv.C02
import HvsrVerif.Drv.C08
import HvsrVerif.Drv.C13
import HvsrVerif.Drv.C16
import HvsrVerif.Drv.HV
import HvsrVerif.Drv.Loop
import HvsrVerif.Drv.Proc
/-!
# `hvsrdrv`: line-protocol driver executing the models at `Float`

Reads one request per line from stdin and answers with exactly one line on stdout.
Stateless commands are `P String`; the HVSR-object commands thread a store of objects.
-/
open HV.Proto HV.Drv

def dispatch (op : String) : Option (P String) :=
  match op with
  | "peak" => some peak
  | "smooth" => some smooth
  | "sesame.rel" => some sesameRel
  | "sesame.cla" => some sesameCla
  | "sesame.band" => some sesameBand
  | _ => match opsProc op with
    | some p => some p
    | none => opsC13 op

def handle (st : Store) (line : String) : Store × String :=
  match tokens line with
  | [] => (st, "err empty")
  | op :: args =>
    match hvCmd op st with
    | some p =>
      match runP p args with
      | .ok (st', out) => (st', out)
      | .error e => (st, e)
    | none =>
      match dispatch op with
      | none => (st, "err unknown-op " ++ op)
      | some p =>
        match runP p args with
        | .ok out => (st, out)
        | .error e => (st, e)

partial def loop (hin hout : IO.FS.Stream) (st : Store) : IO Unit := do
  let line ← hin.getLine
  if line.isEmpty then return ()
  let (st', out) := handle st line
  hout.putStrLn out
  loop hin hout st'

def main : IO Unit := do
  let hin ← IO.getStdin
  let hout ← IO.getStdout
  loop hin hout []
  hout.flush
