import HvsrVerif.Drv.C08
import HvsrVerif.Drv.C16
/-!
# `hvsrdrv`: line-protocol driver executing the models at `Float`

Reads one request per line from stdin and answers with exactly one line on stdout.
-/
open HV.Proto HV.Drv

def dispatch (op : String) : Option (P String) :=
  match op with
  | "peak" => some peak
  | "sesame.rel" => some sesameRel
  | "sesame.cla" => some sesameCla
  | "sesame.band" => some sesameBand
  | _ => none

def handle (line : String) : String :=
  match tokens line with
  | [] => "err empty"
  | op :: args =>
    match dispatch op with
    | none => "err unknown-op " ++ op
    | some p =>
      match p.run args with
      | .ok (out, []) => out
      | .ok (_, rest) => s!"err trailing {rest.length}"
      | .error e => "err parse " ++ e

partial def loop (hin hout : IO.FS.Stream) : IO Unit := do
  let line ← hin.getLine
  if line.isEmpty then return ()
  hout.putStrLn (handle line)
  loop hin hout

def main : IO Unit := do
  let hin ← IO.getStdin
  let hout ← IO.getStdout
  loop hin hout
  hout.flush
