import HvsrVerif.Proto
import HvsrVerif.Model.HvAz
import HvsrVerif.Model.ObjectIO
/-! driver commands for the HVSR-object state machine (C05 C06 C08 C11 C12 C13) -/
namespace HV.Drv
open HV.Proto

inductive HvObj
  | trad (s : HvTrad Float)
  | az (s : HvAz Float)

abbrev Store := List (Nat × HvObj)

def Store.get (st : Store) (id : Nat) : Option HvObj := st.lookup id
def Store.put (st : Store) (id : Nat) (o : HvObj) : Store := (id, o) :: st.filter (·.1 ≠ id)

def distOf (t : String) : Except String Dist :=
  match t with
  | "normal" => .ok .normal
  | "lognormal" => .ok .lognormal
  | _ => .error ("dist:" ++ t)

def pDist : P Dist := do
  match distOf (← tok) with
  | .ok d => pure d
  | .error e => throw e

def pRange : P (Range Float) := do
  let lo ← optFlt; let hi ← optFlt; pure (lo, hi)

def fRange (r : Option (Range Float)) : String :=
  match r with
  | none => "unset"
  | some (lo, hi) => s!"{fOF lo} {fOF hi}"

def fTrad (s : HvTrad Float) : String :=
  s!"T {fRange s.range} {fOVec (s.peaks.map (fun p => p.map (·.1)))} {fOVec (s.peaks.map (fun p => p.map (·.2)))} {fBVec s.vWin} {fBVec s.vPeak}"

def fObj : HvObj → String
  | .trad s => fTrad s
  | .az s => s!"A {s.hvsrs.length} " ++ " ".intercalate (s.hvsrs.map fTrad)

def fEO (x : Except String (Option Float)) : String :=
  match x with | .ok v => fOF v | .error e => "err:" ++ e
def fECurve (x : Except String (List (Option Float))) : String :=
  match x with | .ok v => "ok " ++ fOVec v | .error e => "err:" ++ e
def fEPeak (x : Except String (Float × Float)) : String :=
  match x with | .ok (f, a) => s!"ok {fF f} {fF a}" | .error e => "err:" ++ e
def fCov (x : Option (Float × Float × Float)) : String :=
  match x with | some (a, b, c) => s!"ok {fF a} {fF b} {fF c}" | none => "none"

def statsTrad (d : Dist) (s : HvTrad Float) : String :=
  let one : Float := 1.0
  " ".intercalate [
    "mf", fOF (s.meanFn d), "sf", fOF (s.stdFn d), "ma", fOF (s.meanAmp d), "sa", fOF (s.stdAmp d),
    "mc", fECurve (.ok (s.meanCurve d)), "sc", fECurve (s.stdCurve d), "mcp", fEPeak (s.meanCurvePeak d),
    "nf+", fOF (s.nthStdFn one d), "nf-", fOF (s.nthStdFn (-one) d),
    "na+", fOF (s.nthStdAmp one d), "na-", fOF (s.nthStdAmp (-one) d),
    "cov", fCov (s.covFn d)]

def statsAz (d : Dist) (s : HvAz Float) : String :=
  let one : Float := 1.0
  let nth := fun (n : Float) (m sd : Except String (Option Float)) =>
    match m, sd with
    | .ok m, .ok sd => fOF (nthStdO n d m sd)
    | _, _ => "err:zerodiv"
  " ".intercalate [
    "mf", fEO (s.meanFn d), "sf", fEO (s.stdFn d), "ma", fEO (s.meanAmp d), "sa", fEO (s.stdAmp d),
    "mc", fECurve (s.meanCurve d), "sc", fECurve (s.stdCurve d), "mcp", fEPeak (s.meanCurvePeak d),
    "nf+", nth one (s.meanFn d) (s.stdFn d), "nf-", nth (-one) (s.meanFn d) (s.stdFn d),
    "na+", nth one (s.meanAmp d) (s.stdAmp d), "na-", nth (-one) (s.meanAmp d) (s.stdAmp d),
    "cov", match s.covFn d with | .ok c => fCov c | .error e => "err:" ++ e]

def fTrace (t : FdwraTrace Float) : String :=
  s!"{fOF t.meanBefore} {fOF t.stdBefore} {fF t.mcBefore} {fOF t.lower} {fOF t.upper} {fOF t.meanAfter} {fOF t.stdAfter} {fF t.mcAfter}"

def pFdwra : P (FdwraParams Float) := do
  let n ← flt; let mi ← nat; let dfn ← pDist; let dmc ← pDist; let r ← pRange
  pure { n := n, maxIter := mi, dFn := dfn, dMc := dmc, range := r }

/-- stateful commands: `Store → P (Store × String)` -/
def hvCmd (op : String) (st : Store) : Option (P (Store × String)) :=
  let withObj := fun (k : Nat → HvObj → P (Store × String)) => (do
    let id ← nat
    match st.get id with
    | none => pure (st, "err noobj")
    | some o => k id o : P (Store × String))
  match op with
  | "hv.new" => some do
      let id ← nat; let f ← vec; let rows ← mat
      let o := HvObj.trad (HvTrad.init f rows)
      pure (st.put id o, "ok " ++ fObj o)
  | "hv.az" => some do
      let id ← nat; let azs ← vec; let ids ← natVec
      let hs := ids.filterMap (fun i => match st.get i with
        | some (.trad s) => some (HvTrad.init s.freq s.rows)
        | _ => none)
      let o := HvObj.az { hvsrs := hs, azimuths := azs }
      pure (st.put id o, "ok " ++ fObj o)
  | "hv.update" => some (withObj fun id o => do
      let r ← pRange; let kw ← bool
      let o' := match o with
        | .trad s => HvObj.trad (updatePeaks r kw s)
        | .az s => HvObj.az (s.updatePeaks r kw)
      pure (st.put id o', "ok " ++ fObj o'))
  | "hv.tmask" => some (withObj fun id o => do
      let m ← boolVec
      let o' := match o with
        | .trad s => HvObj.trad (timeMask m s)
        | .az s => HvObj.az (s.timeMask m)
      pure (st.put id o', "ok " ++ fObj o'))
  | "hv.setmasks" => some (withObj fun id o => do
      let az ← nat; let vw ← boolVec; let vp ← boolVec
      let o' := match o with
        | .trad s => HvObj.trad (setMasks vw vp s)
        | .az s =>
          let hs := (List.zip (List.range s.hvsrs.length) s.hvsrs).map (fun p => if p.1 = az then setMasks vw vp p.2 else p.2)
          HvObj.az { s with hvsrs := hs }
      pure (st.put id o', "ok " ++ fObj o'))
  | "hv.manual" => some (withObj fun id o => do
      let az ← nat; let idx ← natVec
      let o' := match o with
        | .trad s => HvObj.trad (manualReject idx s)
        | .az s =>
          let hs := (List.zip (List.range s.hvsrs.length) s.hvsrs).map (fun p => if p.1 = az then manualReject idx p.2 else p.2)
          HvObj.az { s with hvsrs := hs }
      pure (st.put id o', "ok " ++ fObj o'))
  | "hv.fdwra" => some (withObj fun id o => do
      let p ← pFdwra
      match o with
      | .trad s =>
        match fdwraTrad p s with
        | .error e => pure (st, "err " ++ e)
        | .ok (k, s', trs) =>
          let o' := HvObj.trad s'
          pure (st.put id o', s!"ok {k} {fObj o'} trace {trs.length} " ++ " ".intercalate (trs.map fTrace))
      | .az s =>
        match fdwraAz p s with
        | .error e => pure (st, "err " ++ e)
        | .ok (k, s') =>
          let o' := HvObj.az s'
          pure (st.put id o', s!"ok {k} {fObj o'}"))
  | "hv.fdwrakw" => some (withObj fun id o => do
      -- frequency_domain_window_rejection with find_peaks_kwargs given explicitly (kw = 1: {}), optionally on ONE azimuth of an azimuthal object (az ≥ 1: azimuth az-1)
      let p ← pFdwra; let kw ← bool; let az ← nat
      match o with
      | .trad s =>
        match fdwraTradKw p kw s with
        | .error e => pure (st, "err " ++ e)
        | .ok (k, s', trs) =>
          let o' := HvObj.trad s'
          pure (st.put id o', s!"ok {k} {fObj o'} trace {trs.length} " ++ " ".intercalate (trs.map fTrace))
      | .az s =>
        if az = 0 then
          match fdwraAzKw p kw s with
          | .error e => pure (st, "err " ++ e)
          | .ok (k, s') =>
            let o' := HvObj.az s'
            pure (st.put id o', s!"ok {k} {fObj o'}")
        else
          match s.hvsrs[az - 1]? with
          | none => pure (st, "err noaz")
          | some h =>
            match fdwraTradKw p kw h with
            | .error e => pure (st, "err " ++ e)
            | .ok (k, h', _) =>
              let hs := (List.zip (List.range s.hvsrs.length) s.hvsrs).map (fun q => if q.1 = az - 1 then h' else q.2)
              let o' := HvObj.az { s with hvsrs := hs }
              pure (st.put id o', s!"ok {k} {fObj o'}"))
  | "hv.subupdate" => some (withObj fun id o => do
      -- update_peaks_bounded on ONE azimuth of an azimuthal object
      let az ← nat; let r ← pRange; let kw ← bool
      let o' := match o with
        | .trad s => HvObj.trad (updatePeaks r kw s)
        | .az s =>
          let hs := (List.zip (List.range s.hvsrs.length) s.hvsrs).map (fun q => if q.1 = az then updatePeaks r kw q.2 else q.2)
          HvObj.az { s with hvsrs := hs }
      pure (st.put id o', "ok " ++ fObj o'))
  | "hv.roundtrip" => some (withObj fun id o => do
      -- write to the text format and read back (labels = bit patterns of the azimuths); the object is replaced
      let d ← pDist
      match o with
      | .trad s =>
        let f := writeTrad d s
        let o' := HvObj.trad (readTrad f)
        pure (st.put id o', s!"ok {fObj o'} derived {fECurve (.ok f.meanCol)} {fECurve f.stdCol}")
      | .az s =>
        let f := writeAz (fun a : Float => a.toBits.toNat) d s
        let o' := HvObj.az (readAz (fun n : Nat => Float.ofBits n.toUInt64) f)
        pure (st.put id o', s!"ok {fObj o'} derived {fECurve f.meanCol} {fECurve f.stdCol} runs {fNVec ((groupNumbered f.labels).map (·.2))}"))
  | "hv.state" => some (withObj fun _ o => pure (st, "ok " ++ fObj o))
  | "hv.stat" => some (withObj fun _ o => do
      let d ← pDist
      match o with
      | .trad s => pure (st, "ok " ++ statsTrad d s)
      | .az s => pure (st, "ok " ++ statsAz d s))
  | "hv.reset" => some (pure ([], "ok"))
  | _ => none

end HV.Drv
