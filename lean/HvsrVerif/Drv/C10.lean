import HvsrVerif.Drv.Loop
import HvsrVerif.Model.Rec
/-! driver commands of C10 and C18 (stateless: one request line in, one answer line out) -/
namespace HV.Drv
open HV.Proto HV.Split HV.RecM

namespace C10

def fErr {β} (f : β → String) : Except String β → String
  | .ok v => "ok " ++ f v
  | .error e => "err " ++ e

/-- `intervals Lnum Lden FSnum FSden` → exact `⌊L·fs⌋` -/
def cIntervals : P String := do
  let ln ← int; let ld ← nat; let fn ← int; let fd ← nat
  if ld = 0 ∨ fd = 0 then pure "err den" else
  pure s!"ok {intervalsExact (mkRat ln ld) (mkRat fn fd)}"

/-- `kcode L dt` → `int(n_intervals)` by the code's float recipe -/
def cKcode : P String := do
  let L ← flt; let dt ← flt
  pure s!"ok {intervalsCode L dt}"

def winDigest (w : List Nat) : String :=
  s!"{w.headD 0} {w.length} {w.getLastD 0} {w.foldl (· + ·) 0}"

/-- `split k n` on the ramp `0..n-1` → `ok nW tail (first len last sum)*` -/
def cSplit : P String := do
  let k ← int; let n ← nat
  pure (fErr (fun ws => " ".intercalate
      (toString ws.length :: toString (tailLen k.toNat n) :: ws.map winDigest))
    (splitInt k (List.range n)))

/-- `trim n dt t0 t1` → `ok s e` -/
def cTrim : P String := do
  let n ← nat; let dt ← flt; let t0 ← flt; let t1 ← flt
  pure (fErr (fun (p : Nat × Nat) => s!"{p.1} {p.2}") (trimIdx n dt t0 t1))

/-- `degnorm d` -/
def cDegnorm : P String := do
  let d ← flt
  pure s!"ok {fF (degNorm d)}"

/-- `detrend constant|linear xs*` -/
def cDetrend : P String := do
  let m ← tok; let xs ← vec
  match m with
  | "constant" => pure ("ok " ++ fVec (detrendConst xs))
  | "linear" => pure ("ok " ++ fVec (detrendLinear xs))
  | _ => pure "err mode"

def pOptInt : P (Option Int) := do
  match (← peek?) with
  | some "none" => let _ ← tok; pure none
  | _ => let k ← int; pure (some k)

def fTraceOp : TraceOp → String
  | .orient => "orient" | .filter => "filter" | .split => "split" | .detrend => "detrend"

/-- `splitL L dt n` → `ok k nW tail (first len last sum)*` with `k = intervalsCode L dt` -/
def cSplitL : P String := do
  let L ← flt; let dt ← flt; let n ← nat
  let k := intervalsCode L dt
  pure (fErr (fun ws => " ".intercalate
      (toString k :: toString ws.length :: toString (tailLen k.toNat n) :: ws.map winDigest))
    (splitInt k (List.range n)))

/-- `trace doOrient L|none dt doDetrend n` → `ok m (op n)*` -/
def cTrace : P String := do
  let o ← bool; let L ← optFlt; let dt ← flt; let d ← bool; let n ← nat
  let k := L.map (fun L => intervalsCode L dt)
  pure (fErr (fun tr => " ".intercalate (toString tr.length :: tr.map (fun p => s!"{fTraceOp p.1} {p.2}")))
    (expectedTrace o k d n))

/-! JSON on the wire (prefix notation): `N` | `T` | `F` | `n hex` | `s hexutf8` | `a len item*` | `o len (hexutf8 item)*` -/

def hexByte (b : UInt8) : String := String.ofList [hexChar (b.toNat / 16), hexChar (b.toNat % 16)]
def encStr (s : String) : String := "x" ++ String.join (s.toUTF8.toList.map hexByte)

def decStr (t : String) : Except String String :=
  match t.toList with
  | 'x' :: cs =>
    let rec go : List Char → List UInt8 → Option (List UInt8)
      | [], acc => some acc.reverse
      | [_], _ => none
      | a :: b :: rest, acc =>
        match hexDigit a, hexDigit b with
        | some x, some y => go rest ((x * 16 + y).toUInt8 :: acc)
        | _, _ => none
    match go cs [] with
    | some bs =>
      match String.fromUTF8? (ByteArray.mk bs.toArray) with
      | some s => .ok s
      | none => .error "utf8"
    | none => .error ("str:" ++ t)
  | _ => .error ("str:" ++ t)

def pStr : P String := do
  match decStr (← tok) with
  | .ok s => pure s
  | .error e => throw e

partial def pJson : P (Json Float) := do
  let t ← tok
  match t with
  | "N" => pure .null
  | "T" => pure (.bool true)
  | "F" => pure (.bool false)
  | "n" => pure (.num (← flt))
  | "s" => pure (.str (← pStr))
  | "a" =>
    let n ← nat
    let mut out : Array (Json Float) := #[]
    for _ in [0:n] do out := out.push (← pJson)
    pure (.arr out.toList)
  | "o" =>
    let n ← nat
    let mut out : Array (String × Json Float) := #[]
    for _ in [0:n] do
      let k ← pStr
      let v ← pJson
      out := out.push (k, v)
    pure (.obj out.toList)
  | _ => throw ("json:" ++ t)

partial def fJson : Json Float → String
  | .null => "N"
  | .bool true => "T"
  | .bool false => "F"
  | .num x => "n " ++ fF x
  | .str s => "s " ++ encStr s
  | .arr l => " ".intercalate ("a" :: toString l.length :: l.map fJson)
  | .obj kv => " ".intercalate ("o" :: toString kv.length :: kv.map (fun p => encStr p.1 ++ " " ++ fJson p.2))

def pDict : P (Dict Float) := do
  match (← pJson) with
  | .obj kv => pure kv
  | _ => throw "json:notobj"

def pOptNat : P (Option Nat) := do
  match (← peek?) with
  | some "none" => let _ ← tok; pure none
  | _ => let k ← nat; pure (some k)

/-- one history operation; opaque transformers arrive as `xf key val` followed by the samples the
implementation produced (`xform key val id` then `setSamples`) -/
def pOps : P (List (Op Float)) := do
  let t ← tok
  match t with
  | "trim" => let a ← flt; let b ← flt; pure [.trim a b]
  | "det" =>
    let m ← tok
    match m with
    | "constant" => pure [detrendOp m detrendConst]
    | "linear" => pure [detrendOp m detrendLinear]
    | _ => throw "detmode"
  | "xf" =>
    let k ← pStr; let v ← pJson
    let a ← vec; let b ← vec; let c ← vec
    pure [.xform k v (fun x => x), .setSamples a b c]
  | "set" => let a ← vec; let b ← vec; let c ← vec; pure [.setSamples a b c]
  | "orient" => let d ← flt; pure [.orient d]
  | "split" => let L ← flt; let j ← pOptNat; pure [.split L j]
  | "copy" => pure [.copy]
  | "sl" => pure [.saveLoad]
  | _ => throw ("op:" ++ t)

def fState (r : Rec Float) : String :=
  s!"{fVec r.ns} {fVec r.ew} {fVec r.vt} {fF r.dt} {fF r.deg} {fJson (.obj r.md)}"

/-- `rec.hist dt deg ns* ew* vt* meta nops op*` →
`ok nops (err|-  n  deg)*  ns* ew* vt* dt deg meta` -/
def cRecHist : P String := do
  let dt ← flt; let deg ← flt
  let ns ← vec; let ew ← vec; let vt ← vec
  let md ← pDict
  let nops ← nat
  match mkRec ns ew vt dt deg md with
  | .error e => pure ("err " ++ e)
  | .ok r0 =>
    let mut r := r0
    let mut out : Array String := #[]
    for _ in [0:nops] do
      let ops ← pOps
      let mut err : Option String := none
      for op in ops do
        let (r', e) := step op r
        r := r'
        if e.isSome then err := e
      out := out.push s!"{err.getD "-"} {r.ns.length} {fF r.deg}"
    pure (" ".intercalate (["ok", toString nops] ++ out.toList ++ [fState r]))

/-- `alias n k s e` → sharing predicted by the location model for a recording with `n` samples:
`ok ts ctor(3) copy(3) splitAny trimView  writeCopyVisible writeSrcVisible` (0/1 flags) -/
def cAlias : P String := do
  let n ← nat; let k ← nat; let s ← nat; let e ← nat
  let xs : List Float := (List.range n).map (fun i => Float.ofNat i)
  let h0 : Heap Float := ⟨[]⟩
  let (h1, a) := h0.alloc xs
  let (h2, b) := h1.alloc xs
  let (h3, c) := h2.alloc xs
  let src : Rec3Ref := ⟨a, b, c⟩
  let (h4, t) := tsCopy h3 a
  let (h5, r1) := ctor3 h4 src
  let (h6, r2) := copy3 h5 src
  let (h7, ws) := splitRefs h6 a (k + 1) (nWindows k n) 0
  let tv := trimRef a s e
  let sh := fun (x y : Arr) => fB (sharesMemory x y)
  let all3 := fun (r : Rec3Ref) =>
    fB ([src.ns, src.ew, src.vt].any (fun x => [r.ns, r.ew, r.vt].any (fun y => sharesMemory x y)))
  -- writes: through the copy, then through the source
  let hw := h7.write t 0 (-1.0)
  let vis1 := fB (hw.read a != h7.read a)
  let hw2 := h7.write a 0 (-1.0)
  let vis2 := fB (hw2.read t != h7.read t || ws.any (fun w => hw2.read w != h7.read w))
  pure (" ".intercalate ["ok", sh a t, all3 r1, all3 r2, fB (ws.any (fun w => sharesMemory a w)),
    toString ws.length, sh a tv, vis1, vis2])

end C10

def opsC10 (op : String) : Option (P String) :=
  match op with
  | "intervals" => some C10.cIntervals
  | "kcode" => some C10.cKcode
  | "split" => some C10.cSplit
  | "splitL" => some C10.cSplitL
  | "trim" => some C10.cTrim
  | "degnorm" => some C10.cDegnorm
  | "detrend" => some C10.cDetrend
  | "trace" => some C10.cTrace
  | "rec.hist" => some C10.cRecHist
  | "alias" => some C10.cAlias
  | _ => none

end HV.Drv
