import HvsrVerif.Drv.Loop
/-! driver commands of C10 (stateless: one request line in, one answer line out) -/
namespace HV.Drv
open HV.Proto

def opsC10 (op : String) : Option (P String) :=
  match op with
  | _ => none

end HV.Drv
