import HvsrVerif.Drv.C19
def main : IO Unit := HV.Drv.mainWith HV.Drv.opsC19
