import HvsrVerif.Drv.C10
def main : IO Unit := HV.Drv.mainWith HV.Drv.opsC10
