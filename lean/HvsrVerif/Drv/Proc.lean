import HvsrVerif.Proto
import HvsrVerif.Model.Process
import HvsrVerif.Model.PsdPre
/-! driver commands for the processing chains (C01 C03 C04 C09 C17) -/
namespace HV.Drv
open HV.Proto

def pFft : P FftState := do
  let t ← tok
  if t == "unset" then pure .unset
  else if t == "none" then pure .nNone
  else match t.toNat? with
    | some k => pure (.n k)
    | none => throw ("fft:" ++ t)

def fFft : FftState → String
  | .unset => "unset"
  | .nNone => "none"
  | .n k => toString k

def pPolicy : P Policy := do
  let t ← tok
  match Policy.ofString t with
  | some p => pure p
  | none => throw ("policy:" ++ t)

def pRec : P (Rec3 Float) := do
  let dt ← flt; let deg ← flt
  let ns ← vec; let ew ← vec; let vt ← vec
  pure { dt := dt, deg := deg, ns := ns, ew := ew, vt := vt }

def pRecs : P (List (Rec3 Float)) := do rep (← nat) pRec

def pCfg : P (ProcCfg Float) := do
  let op ← tok; let bw ← flt; let w ← flt; let fcs ← vec
  pure { op := op, bw := bw, width := w, fcs := fcs }

def fRes (r : Except String (ProcResult Float)) : String :=
  match r with
  | .error e => "err " ++ e
  | .ok r => s!"ok {fFft r.fft} {fNVec r.kept} {fMat r.rows}"

/-- `proc.trad NAME cfg fft policy recs` -/
def procTrad : P String := do
  let name ← tok
  let cfg ← pCfg; let fft ← pFft; let pol ← pPolicy; let recs ← pRecs
  match Combine.ofName name with
  | none => pure "err unknown-method"
  | some c => pure (fRes (processTraditional (.combine c) cfg fft pol recs))

/-- `proc.saz az cfg fft policy recs` -/
def procSaz : P String := do
  let az ← flt
  let cfg ← pCfg; let fft ← pFft; let pol ← pPolicy; let recs ← pRecs
  pure (fRes (processTraditional (.singleAz az) cfg fft pol recs))

/-- `proc.rot pct azs* cfg fft policy recs` -/
def procRot : P String := do
  let pct ← flt; let azs ← vec
  let cfg ← pCfg; let fft ← pFft; let pol ← pPolicy; let recs ← pRecs
  pure (fRes (processTraditional (.rotdpp pct azs) cfg fft pol recs))

/-- `proc.az azs* cfg fft policy recs` → `ok FFT naz (kept* matrix)*` -/
def procAz : P String := do
  let azs ← vec
  let cfg ← pCfg; let fft ← pFft; let pol ← pPolicy; let recs ← pRecs
  match processAzimuthal azs cfg fft pol recs with
  | .error e => pure ("err " ++ e)
  | .ok (st, rs) => pure (s!"ok {fFft st} {rs.length} " ++ " ".intercalate (rs.map (fun r => s!"{fNVec r.kept} {fMat r.rows}")))

/-- `proc.diff cfg fft policy recs` → `ok FFT kept* row` -/
def procDiff : P String := do
  let cfg ← pCfg; let fft ← pFft; let pol ← pPolicy; let recs ← pRecs
  match processDiffuse cfg fft pol recs with
  | .error e => pure ("err " ++ e)
  | .ok (st, kept, row) => pure s!"ok {fFft st} {fNVec kept} {fVec row}"

/-- `proc.psd smooth cfg fft recs` → `ok FFT matrix(3 rows)` -/
def procPsd : P String := do
  let sm ← bool
  let cfg ← pCfg; let fft ← pFft; let recs ← pRecs
  match processPsd sm cfg fft recs with
  | .error e => pure ("err " ++ e)
  | .ok (st, rows) => pure s!"ok {fFft st} {fMat rows}"

/-- seams -/
def tukeyCmd : P String := do
  let n ← nat; let a ← flt
  pure ("ok " ++ fVec (tukey n a))
def ampspecCmd : P String := do
  let n ← nat; let x ← vec
  pure ("ok " ++ fVec (ampSpec x n))
def combineCmd : P String := do
  let name ← tok; let ns ← vec; let ew ← vec
  match Combine.ofName name with
  | none => pure "err unknown-method"
  | some c => pure ("ok " ++ fVec ((List.zip ns ew).map (fun p => c.apply p.1 p.2)))
def prepfftCmd : P String := do
  let st ← pFft; let m ← nat
  pure ("ok " ++ fFft (prepareFft st m))
def pctCmd : P String := do
  let q ← flt; let v ← vec
  pure ("ok " ++ fF (percentile v q))
def rowsCmd : P String := do
  let pol ← pPolicy; let dts ← vec
  let kept := keptIndices pol dts
  let kd := kept.filterMap (fun i => dts[i]?)
  pure s!"ok {fNVec kept} {fNVec (processOrder kd)} {fNVec (indexMap kd)}"

/-- `orient cur new ns* ew*` → `ok ns'* ew'* degNorm(new)` -/
def orientCmd : P String := do
  let cur ← flt; let new ← flt; let ns ← vec; let ew ← vec
  let out := (List.zip ns ew).map (orientSample cur new)
  pure s!"ok {fVec (out.map (·.1))} {fVec (out.map (·.2))} {fF (degNorm new)}"

/-- `diffx n dt x*` / `flatresp n S x*` / `flatclosed n S x*` -/
def diffCmd : P String := do
  let n ← nat; let dt ← flt; let x ← vec
  pure ("ok " ++ fVec (differentiate x n dt))
def flatCmd : P String := do
  let n ← nat; let s ← flt; let x ← vec
  pure ("ok " ++ fVec (removeFlatResponse x n s))
def flatClosedCmd : P String := do
  let n ← nat; let s ← flt; let x ← vec
  pure ("ok " ++ fVec (flatResponseClosed x n s))

def opsProc (op : String) : Option (P String) :=
  match op with
  | "proc.trad" => some procTrad
  | "proc.saz" => some procSaz
  | "proc.rot" => some procRot
  | "proc.az" => some procAz
  | "proc.diff" => some procDiff
  | "proc.psd" => some procPsd
  | "tukey" => some tukeyCmd
  | "ampspec" => some ampspecCmd
  | "combine" => some combineCmd
  | "prepfft" => some prepfftCmd
  | "pct" => some pctCmd
  | "rows" => some rowsCmd
  | "orient" => some orientCmd
  | "diffx" => some diffCmd
  | "flatresp" => some flatCmd
  | "flatclosed" => some flatClosedCmd
  | _ => none

end HV.Drv
