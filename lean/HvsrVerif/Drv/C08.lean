import HvsrVerif.Proto
import HvsrVerif.Model.Peaks
namespace HV.Drv
open HV.Proto

/-- `peak freq* amp* lo hi` → `none` | `some f a` followed by the local maxima indices of the slice -/
def peak : P String := do
  let freq ← vec; let amp ← vec
  let lo ← optFlt; let hi ← optFlt
  let (a, b) := rangeToIdx freq (lo, hi)
  let lm := localMaxima (pySlice amp a b)
  let res := match findPeakBounded freq amp (lo, hi) with
    | none => "none"
    | some (f, v) => s!"some {fF f} {fF v}"
  pure s!"ok {res} {a} {b} {fNVec lm}"

end HV.Drv
