import HvsrVerif.Drv.Loop
import HvsrVerif.Generated.PyDrv
import HvsrVerif.Generated.PyVecDrv
/-! exe `drv_py`: evaluates the definitions that tools/py2lean.py (scalar kernels) and tools/py2lean_vec.py (array functions)
translated from the Python source (at Float) -/
def main : IO Unit := HV.Drv.mainWith (fun op => (HV.Drv.opsPy op).orElse (fun _ => HV.Drv.opsPyVec op))
