import HvsrVerif.Drv.Loop
import HvsrVerif.Generated.PyDrv
/-! exe `drv_py`: evaluates the definitions that tools/py2lean.py translated from the Python source (at Float) -/
def main : IO Unit := HV.Drv.mainWith HV.Drv.opsPy
