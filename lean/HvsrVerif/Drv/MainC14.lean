import HvsrVerif.Drv.C14
def main : IO Unit := HV.Drv.mainWith HV.Drv.opsC14
