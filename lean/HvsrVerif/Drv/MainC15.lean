import HvsrVerif.Drv.C15
def main : IO Unit := HV.Drv.mainWith HV.Drv.opsC15
