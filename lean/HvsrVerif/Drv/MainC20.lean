import HvsrVerif.Drv.C20
def main : IO Unit := HV.Drv.mainWith HV.Drv.opsC20
