import HvsrVerif.Proto
import HvsrVerif.Model.Sesame
namespace HV.Drv
open HV.Proto

def fVerdict : Except String (List Bool) → String
  | .ok bs => "ok " ++ fBVec bs
  | .error e => "err " ++ e

def range : P (Option Float × Option Float) := do
  let lo ← optFlt; let hi ← optFlt; pure (lo, hi)

/-- `sesame.rel lw nw freq* mc* sd* lo hi` -/
def sesameRel : P String := do
  let lw ← flt; let nw ← flt
  let freq ← vec; let mc ← vec; let sd ← vec
  let r ← range
  pure (fVerdict (reliability lw nw freq mc sd r))

/-- `sesame.cla freq* mc* sd* fnstd lo hi` -/
def sesameCla : P String := do
  let freq ← vec; let mc ← vec; let sd ← vec
  let s ← flt
  let r ← range
  pure (fVerdict (clarity freq mc sd s r))

/-- `sesame.band f0` → eps theta -/
def sesameBand : P String := do
  let f ← flt
  let (e, t) := thresholdBand f
  pure s!"ok {fF e} {fF t}"

end HV.Drv
