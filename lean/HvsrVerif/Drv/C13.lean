import HvsrVerif.Proto
import HvsrVerif.Model.TimeRej
namespace HV.Drv
open HV.Proto

def ratOfBits13 (n : Nat) : Option Rat :=
  let neg := n / 2 ^ 63 % 2 == 1
  let e : Nat := n / 2 ^ 52 % 2048
  let m : Nat := n % 2 ^ 52
  if e == 2047 then none else
  let mant : Nat := if e == 0 then m else m + 2 ^ 52
  let ex : Int := if e == 0 then -1074 else (e : Int) - 1075
  let v : Rat := if ex ≥ 0 then ((mant * 2 ^ ex.toNat : Nat) : Rat) else mkRat mant (2 ^ (-ex).toNat)
  some (if neg then -v else v)

def pRat : P Rat := do
  let t ← tok
  match hexToNat t with
  | some n => match ratOfBits13 n with
    | some r => pure r
    | none => throw s!"nonfinite:{t}"
  | none => throw s!"flt:{t}"

def pWins : P (List (List (List Float))) := do rep (← nat) mat

/-- `stalta sta_seconds lta_seconds dt lo hi wins` → `ok nsta nlta bits` | `err kind` -/
def staltaCmd : P String := do
  let sta ← pRat; let lta ← pRat; let dt ← pRat
  let lo ← flt; let hi ← flt
  let wins ← pWins
  let nsta := (nptsExact sta dt).toNat
  let nlta := (nptsExact lta dt).toNat
  match staLtaMask nsta nlta lo hi wins with
  | .ok m => pure s!"ok {nsta} {nlta} {fBVec m}"
  | .error e => pure s!"err {e} {nsta} {nlta}"

/-- `maxval thr normalized wins` → `ok bits` -/
def maxvalCmd : P String := do
  let thr ← flt; let norm ← bool
  let wins ← pWins
  pure ("ok " ++ fBVec (maxValueMask thr norm wins))

/-- `npts seconds dt` -/
def nptsCmd : P String := do
  let s ← pRat; let dt ← pRat
  pure s!"ok {nptsExact s dt}"

def opsC13 (op : String) : Option (P String) :=
  match op with
  | "stalta" => some staltaCmd
  | "maxval" => some maxvalCmd
  | "npts" => some nptsCmd
  | _ => none

end HV.Drv
