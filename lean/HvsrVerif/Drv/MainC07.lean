import HvsrVerif.Drv.C07
def main : IO Unit := HV.Drv.mainWith HV.Drv.opsC07
