import HvsrVerif.Proto
/-! generic request loop for stateless command tables -/
namespace HV.Drv
open HV.Proto

def runP {β} (p : P β) (args : List String) : Except String β :=
  match p.run args with
  | .ok (out, []) => .ok out
  | .ok (_, rest) => .error s!"err trailing {rest.length}"
  | .error e => .error ("err parse " ++ e)

def handleStateless (dispatch : String → Option (P String)) (line : String) : String :=
  match tokens line with
  | [] => "err empty"
  | op :: args =>
    match dispatch op with
    | none => "err unknown-op " ++ op
    | some p =>
      match runP p args with
      | .ok out => out
      | .error e => e

partial def loopStateless (dispatch : String → Option (P String)) (hin hout : IO.FS.Stream) : IO Unit := do
  let line ← hin.getLine
  if line.isEmpty then return ()
  hout.putStrLn (handleStateless dispatch line)
  loopStateless dispatch hin hout

def mainWith (dispatch : String → Option (P String)) : IO Unit := do
  let hin ← IO.getStdin
  let hout ← IO.getStdout
  loopStateless dispatch hin hout
  hout.flush

end HV.Drv
