import HvsrVerif.Drv.Loop
import HvsrVerif.Drv.HV
import HvsrVerif.Model.Plots
/-! driver commands of C20 (stateless: one request line in, one answer line out)

object encodings on a request line
* traditional: `freq* rows** (unset | lo hi) peakfrq?* peakamp?* vwin* vpeak*`
* azimuthal:   `naz trad^naz azimuths*`
* diffuse:     `freq* amp*`
* panel options: `dmc dfn b b b b b b b` (valid, invalid, mean, freqstd, peakmean, peakvalid, peakinvalid)

an artist is printed as `style nx x?* ny y?*`, a list of artists as `k artist^k`.
-/
namespace HV.Drv
open HV.Proto

def pRangeOpt : P (Option (Range Float)) := do
  match (← peek?) with
  | some "unset" => let _ ← tok; pure none
  | _ => let r ← pRange; pure (some r)

def pTradObj : P (HvTrad Float) := do
  let f ← vec; let rows ← mat
  let r ← pRangeOpt
  let pf ← optVec; let pa ← optVec
  let vw ← boolVec; let vp ← boolVec
  let peaks := List.zipWith (fun (f a : Option Float) => match f, a with
    | some f, some a => some (f, a)
    | _, _ => none) pf pa
  pure { freq := f, rows := rows, range := r, peaks := peaks, vWin := vw, vPeak := vp }

def pAzObj : P (HvAz Float) := do
  let n ← nat
  let hs ← rep n pTradObj
  let az ← vec
  pure { hvsrs := hs, azimuths := az }

def pOpts : P PanelOpts := do
  let dmc ← pDist; let dfn ← pDist
  let a ← bool; let b ← bool; let c ← bool; let d ← bool; let e ← bool; let f ← bool; let g ← bool
  pure { dMc := dmc, dFn := dfn, validCurves := a, invalidCurves := b, meanCurve := c, freqStd := d,
         peakMean := e, peakValid := f, peakInvalid := g }

def fLine (l : Line Float) : String := s!"{l.style.name} {fOVec l.x} {fOVec l.y}"
def fLines (ls : List (Line Float)) : String := " ".intercalate (toString ls.length :: ls.map fLine)
def fELines (r : Except String (List (Line Float))) : String :=
  match r with
  | .ok ls => "ok " ++ fLines ls
  | .error e => "err " ++ e

def fRows (rows : List (List (Option Float))) : String :=
  " ".intercalate (toString rows.length :: rows.map fOVec)

/-- `c20.panel (T trad | A az | D freq amp) opts` -/
def c20Panel : P String := do
  match (← tok) with
  | "T" => let s ← pTradObj; let o ← pOpts; pure (fELines (plotSinglePanel o s).2)
  | "A" => let s ← pAzObj; let o ← pOpts; pure (fELines (plotSinglePanelAz o s).2)
  | "D" => let f ← vec; let a ← vec; let o ← pOpts; pure (fELines (panelLinesDiffuse o f a))
  | k => throw ("kind:" ++ k)

/-- a panel that raises without touching the object (the injected failure of the harness) -/
def raisingPanel : Panel Float (List (Line Float)) := fun s => (s, .error "injected")

/-- `c20.prepost trad dmc dfn inject` (inject: 0 none, 1 first panel raises, 2 second panel raises, 3 = pinned
code without `finally` and first panel raises) → `ok <state> <exit> [pre-lines post-lines]` -/
def c20PrePost : P String := do
  let s ← pTradObj; let dmc ← pDist; let dfn ← pDist; let inj ← nat
  let p1 : Panel Float (List (Line Float)) := if inj = 1 ∨ inj = 3 then raisingPanel else plotSinglePanel (PanelOpts.pre dmc dfn)
  let p2 : Panel Float (List (Line Float)) := if inj = 2 then raisingPanel else plotSinglePanel (PanelOpts.post dmc dfn)
  let (s', ex) := if inj = 3 then prePostRejectionPinnedWith p1 p2 s else prePostRejectionWith p1 p2 s
  let tail := match ex with
    | .normal l1 l2 => s!"normal {fLines l1} {fLines l2}"
    | .raisedFirst e => "raisedFirst " ++ e
    | .raisedSecond e => "raisedSecond " ++ e
  pure s!"ok {fTrad s'} {tail}"

/-- `c20.summary (T trad | A az) dmc dfn` → `ok rows f a`; `c20.summary D freq amp` → `ok f a` -/
def c20Summary : P String := do
  let fin := fun (r : Except String (List (List (Option Float)) × (Float × Float))) =>
    match r with
    | .ok (rows, (f, a)) => s!"ok {fRows rows} {fF f} {fF a}"
    | .error e => "err " ++ e
  match (← tok) with
  | "T" => let s ← pTradObj; let dmc ← pDist; let dfn ← pDist; pure (fin (summarizeHvsrStatistics dmc dfn s).2)
  | "A" => let s ← pAzObj; let dmc ← pDist; let dfn ← pDist; pure (fin (summaryTableAz dmc dfn s))
  | "D" =>
    let f ← vec; let a ← vec
    match (diffuseStats f a).meanCurvePeak .lognormal with
    | .ok (pf, pa) => pure s!"ok {fF pf} {fF pa}"
    | .error e => pure ("err " ++ e)
  | k => throw ("kind:" ++ k)

def pRec3 : P (PlotRec3 Float) := do
  let dt ← flt; let ns ← vec; let ew ← vec; let vt ← vec
  pure { ns := ns, ew := ew, vt := vt, dt := dt }

/-- `c20.recs normalize hasmask mask* nrec (dt ns* ew* vt*)^nrec` → `ok 3 lines^3` -/
def c20Recs : P String := do
  let normalize ← bool; let hasMask ← bool; let mask ← boolVec
  let n ← nat; let recs ← rep n pRec3
  match recordingLines (if hasMask then some mask else none) recs normalize with
  | .ok panels => pure ("ok " ++ " ".intercalate (toString panels.length :: panels.map fLines))
  | .error e => pure ("err " ++ e)

/-- `c20.contour2d az dmc peaks` → `ok azimuths* nrows row?*… lines` -/
def c20Contour2d : P String := do
  let s ← pAzObj; let dmc ← pDist; let pk ← bool
  match contour2dLines dmc pk s with
  | .ok ((azs, rows), ls) => pure s!"ok {fVec azs} {fRows rows} {fLines ls}"
  | .error e => pure ("err " ++ e)

/-- `c20.contour3d az dmc peaks` → `ok azimuths* nrows row?*… npk (f a)*` -/
def c20Contour3d : P String := do
  let s ← pAzObj; let dmc ← pDist; let pk ← bool
  match contour3dData dmc pk s with
  | .ok ((azs, rows), pks) =>
    pure s!"ok {fVec azs} {fRows rows} {pks.length} {" ".intercalate (pks.map (fun p => fF p.1 ++ " " ++ fF p.2))}"
  | .error e => pure ("err " ++ e)

/-- `c20.azsummary az opts peakByAzimuth` → artists of panel (c) -/
def c20AzSummary : P String := do
  let s ← pAzObj; let o ← pOpts; let pk ← bool
  pure (fELines (plotAzimuthalSummary { panel := o, peakByAzimuth := pk } s).2)

/-- `c20.spatial dist mean std` → `ok 2 row row` -/
def c20Spatial : P String := do
  let d ← pDist; let m ← flt; let sd ← flt
  pure ("ok " ++ fRows (spatialRows d m sd))

def opsC20 (op : String) : Option (P String) :=
  match op with
  | "c20.panel" => some c20Panel
  | "c20.prepost" => some c20PrePost
  | "c20.summary" => some c20Summary
  | "c20.recs" => some c20Recs
  | "c20.contour2d" => some c20Contour2d
  | "c20.contour3d" => some c20Contour3d
  | "c20.azsummary" => some c20AzSummary
  | "c20.spatial" => some c20Spatial
  | _ => none

end HV.Drv
