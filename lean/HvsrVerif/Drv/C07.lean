import HvsrVerif.Drv.Loop
import HvsrVerif.Model.Readers
/-! driver commands of C07 (stateless: one request line in, one answer line out)

Rationals cross the protocol exactly as `num/den` (the harness sends `float.as_integer_ratio()`),
integers in decimal, absent values as `none`.

```
readers.obspy  deg k (channel npts dt)*                      → ok ins iew ivt n dt deg | err KIND
readers.saf    ver ndat fs vch nch ech rot deg nrows (a b c)*  → ok dt deg n ns* ew* vt* | err KIND
readers.mshark ndat fs conv gain deg nrows (a b c)*            → ok dt deg n ns* ew* vt*   (rationals) | err KIND
readers.peer   deg k (key npts dt nfound)*                     → ok ins iew ivt n dt deg | err KIND
readers.broadcast nf (none|scalar|list m) (none|scalar|list m) → ok cnt (kwtag degtag)*     tag = none | s | index
readers.dispatch b0 b1 b2 b3 b4 b5                             → ok index name | err KIND
readers.degnorm d                                              → ok d'
```
`ins iew ivt` are positions in the trace/file list given on the request line.
-/
namespace HV.Drv
open HV.Proto HV.Rd

def ratOfTok (t : String) : Except String Rat :=
  match t.splitOn "/" with
  | [a] => match a.toInt? with
    | some n => .ok (n : Rat)
    | none => .error s!"rat:{t}"
  | [a, b] => match a.toInt?, b.toNat? with
    | some n, some d => if d = 0 then .error s!"rat:{t}" else .ok ((n : Rat) / (d : Rat))
    | _, _ => .error s!"rat:{t}"
  | _ => .error s!"rat:{t}"

def ratP : P Rat := do
  match ratOfTok (← tok) with
  | .ok r => pure r
  | .error e => throw e

def optRatP : P (Option Rat) := do
  let t ← tok
  if t == "none" then pure none else
  match ratOfTok t with
  | .ok r => pure (some r)
  | .error e => throw e

def optNatP : P (Option Nat) := do
  let t ← tok
  if t == "none" then pure none else
  match t.toNat? with
  | some n => pure (some n)
  | none => throw s!"nat:{t}"

def fRat (r : Rat) : String := s!"{r.num}/{r.den}"

def fErr (e : RdErr) : String := "err " ++ e.tag

/-- position carried by a component whose samples are all equal to the position of its source -/
def srcOf (c : Comp Nat) : String :=
  match c.samples.head? with
  | some i => toString i
  | none => "-1"

def fRouting (r : Except RdErr (Rec3 Nat)) : String :=
  match r with
  | .error e => fErr e
  | .ok r => s!"ok {srcOf r.ns} {srcOf r.ew} {srcOf r.vt} {r.ns.samples.length} {fRat r.ns.dt} {fRat r.deg}"

def obspyCmd : P String := do
  let deg ← optRatP
  let k ← nat
  let mut trs : Array (String × Comp Nat) := #[]
  for i in [0:k] do
    let ch ← tok
    let n ← nat
    let dt ← ratP
    trs := trs.push ((if ch == "-" then "" else ch), ⟨List.replicate n i, dt⟩)
  pure (fRouting (readObspy trs.toList deg))

def rowsP (n : Nat) : P (List (Int × Int × Int)) :=
  rep n (do let a ← int; let b ← int; let c ← int; pure (a, b, c))

def fCols {σ : Type} (f : σ → String) (r : Except RdErr (Rec3 σ)) : String :=
  match r with
  | .error e => fErr e
  | .ok r =>
    " ".intercalate (["ok", fRat r.ns.dt, fRat r.deg, toString r.ns.samples.length]
      ++ r.ns.samples.map f ++ r.ew.samples.map f ++ r.vt.samples.map f)

def safCmd : P String := do
  let ver ← bool
  let ndat ← optNatP
  let fs ← optNatP
  let v ← optNatP
  let n ← optNatP
  let e ← optNatP
  let rot ← optNatP
  let deg ← optRatP
  let rows ← rowsP (← nat)
  let h : SafHeader := { version := ver, ndat := ndat, fs := fs, vCh := v, nCh := n, eCh := e, northRot := rot }
  pure (fCols (fun (x : Int) => toString x) (safAssemble h deg rows))

def msharkCmd : P String := do
  let ndat ← optNatP
  let fs ← optNatP
  let conv ← optNatP
  let gain ← optNatP
  let deg ← optRatP
  let rows ← rowsP (← nat)
  let h : MsharkHeader := { ndat := ndat, fs := fs, conv := conv, gain := gain }
  pure (fCols fRat (minisharkAssemble h deg rows))

def peerCmd : P String := do
  let deg ← optRatP
  let k ← nat
  let mut fs : Array (PeerFile Nat) := #[]
  for i in [0:k] do
    let key ← tok
    let npts ← optNatP
    let dt ← optRatP
    let found ← nat
    fs := fs.push { key := if key == "none" then none else some key, npts := npts, dt := dt, samples := List.replicate found i }
  pure (fRouting (peerAssemble fs.toList deg))

def argSpecP : P (Arg String) := do
  let t ← tok
  if t == "none" then pure (.scalar "none")
  else if t == "scalar" then pure (.scalar "s")
  else if t == "list" then
    let m ← nat
    pure (.many ((List.range m).map toString))
  else throw s!"argspec:{t}"

def broadcastCmd : P String := do
  let nf ← nat
  let kw ← argSpecP
  let dg ← argSpecP
  let calls := broadcastArgs ((List.range nf).map FArg.one) kw dg
  pure (" ".intercalate (["ok", toString calls.length] ++ calls.flatMap (fun c => [c.2.1, c.2.2])))

def dispatchCmd : P String := do
  let bs ← rep 6 bool
  let results : List (Except RdErr Nat) := (List.range 6).zip bs |>.map (fun (i, b) => if b then .ok i else .error .value)
  match readSingle results with
  | .ok i => pure s!"ok {i} {dispatchOrder.getD i "?"}"
  | .error e => pure (fErr e)

def degnormCmd : P String := do
  let d ← ratP
  pure s!"ok {fRat (degNorm d)}"

def opsC07 (op : String) : Option (P String) :=
  match op with
  | "readers.obspy" => some obspyCmd
  | "readers.saf" => some safCmd
  | "readers.mshark" => some msharkCmd
  | "readers.peer" => some peerCmd
  | "readers.broadcast" => some broadcastCmd
  | "readers.dispatch" => some dispatchCmd
  | "readers.degnorm" => some degnormCmd
  | _ => none

end HV.Drv
