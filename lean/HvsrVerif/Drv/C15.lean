import HvsrVerif.Drv.Loop
import HvsrVerif.Model.Settings
/-!
driver commands of C15 (stateless: one request line in, one answer line out)

`settings.hist <ndef> (<name> <val>)* <nops> <op>*` runs a whole history of the aliasing model
`Model/Settings.lean` on the class table `settingsParams`, starting from the default objects
given in the header, and answers with the groups whose rendering changed after each operation.

values   `N | T | F | i <int> | f <hex16> | s <str> | L n v* (list) | U n v* (tuple) | A n v* (ndarray) | D n (<key> v)*`
ops      `C <class> <nargs> (<param> (d | l <val> | v <var>))*`   construct
         `M <g> <attr> <npath> (i <n> | k <key>)* (i <n> | k <key>) <val>`   in-place write
         `A <g> <attr> <val>`   assignment of a new object      `V <g> <attr> <var>`  assignment of a caller variable
         `S <g>` save   `L <g> <file>` load   `R <file>` read_settings_object_from_file
answer   `ok <conforms> <tableOK> (<status> <ndelta> (<g> <attrDict|-> <typed fields>)*)*`, first block = initial state

`settings.dispatch <n> (<key> <val>)*` → class name chosen by the reader or `none`.
-/
namespace HV.Drv
open HV.Proto HV.Settings

partial def pVal : P Val := do
  let t ← tok
  match t with
  | "N" => pure (.sc .none)
  | "T" => pure (.sc (.bool true))
  | "F" => pure (.sc (.bool false))
  | "i" => do let i ← int; pure (.sc (.int i))
  | "f" => do
    let h ← tok
    match hexToNat h with
    | some n => pure (.sc (.flt n))
    | none => throw s!"flt:{h}"
  | "s" => do let s ← tok; pure (.sc (.str s))
  | "L" => do let n ← nat; let cs ← rep n pVal; pure (.node 0 .list cs)
  | "U" => do let n ← nat; let cs ← rep n pVal; pure (.node 0 .tuple cs)
  | "A" => do let n ← nat; let cs ← rep n pVal; pure (.node 0 .arr cs)
  | "D" => do
    let n ← nat
    let kvs ← rep n (do let k ← tok; let v ← pVal; pure (k, v))
    pure (.node 0 (.dict (kvs.map (·.1))) (kvs.map (·.2)))
  | _ => throw s!"val:{t}"

def pStep : P Step := do
  let t ← tok
  match t with
  | "i" => do let n ← nat; pure (.idx n)
  | "k" => do let k ← tok; pure (.key k)
  | _ => throw s!"step:{t}"

def pClass : P Class := do
  let t ← tok
  match Class.ofName t with
  | some c => pure c
  | none => throw s!"class:{t}"

def pSrc : P Src := do
  let t ← tok
  match t with
  | "d" => pure .dflt
  | "l" => do let v ← pVal; pure (.lit v)
  | "v" => do let x ← tok; pure (.var x)
  | _ => throw s!"src:{t}"

def pOp : P Op := do
  let t ← tok
  match t with
  | "C" => do
    let c ← pClass
    let n ← nat
    let args ← rep n (do let p ← tok; let s ← pSrc; pure (p, s))
    pure (.construct c args)
  | "M" => do
    let g ← nat; let a ← tok; let n ← nat
    let path ← rep n pStep
    let last ← pStep
    let v ← pVal
    pure (.mutate g a path last v)
  | "A" => do let g ← nat; let a ← tok; let v ← pVal; pure (.assign g a v)
  | "V" => do let g ← nat; let a ← tok; let x ← tok; pure (.assignVar g a x)
  | "S" => do let g ← nat; pure (.save g)
  | "L" => do let g ← nat; let f ← nat; pure (.load g f)
  | "R" => do let f ← nat; pure (.dispatchLoad f)
  | _ => throw s!"op:{t}"

def rScalar : Scalar → String
  | .none => "N"
  | .bool true => "T"
  | .bool false => "F"
  | .int i => "i" ++ toString i
  | .flt b => "f" ++ natToHex16 b
  | .str s => "'" ++ s ++ "'"

def rDict (ks : List String) (vs : List String) : String :=
  "{" ++ ",".intercalate ((ks.zip vs).map fun (k, v) => "'" ++ k ++ "':" ++ v) ++ "}"

partial def rVal : Val → String
  | .sc s => rScalar s
  | .node _ .list cs => "[" ++ ",".intercalate (cs.map rVal) ++ "]"
  | .node _ .tuple cs => "(" ++ ",".intercalate (cs.map rVal) ++ ")"
  | .node _ .arr cs => "<" ++ ",".intercalate (cs.map rVal) ++ ">"
  | .node _ (.dict ks) cs => rDict ks (cs.map rVal)

partial def rJson : Json → String
  | .sc s => rScalar s
  | .arr xs => "[" ++ ",".intercalate (xs.map rJson) ++ "]"
  | .obj ks xs => rDict ks (xs.map rJson)

def rFields (fs : List (String × String)) : String :=
  if fs.isEmpty then "." else ";".intercalate (fs.map fun (k, v) => k ++ "=" ++ v)

/-- typed rendering of a group: objects list `self.attrs` first, then the other instance attributes -/
def rGroup (t : Table) (g : Group) : String :=
  match g.cls with
  | none => "-|" ++ rFields (g.fields.map fun (k, v) => (k, rVal v))
  | some c =>
    let names := (t c).map (·.name)
    let a := names.filterMap fun n => (g.fields.lookup n).map fun v => (n, rVal v)
    let e := g.fields.filter fun kv => !names.contains kv.1
    c.name ++ "|" ++ rFields a ++ "|" ++ rFields (e.map fun (k, v) => (k, rVal v))

def rAttrDict (t : Table) (σ : State) (g : Nat) : String :=
  match attrDict t σ g with
  | some d => rFields (d.map fun (k, j) => (k, rJson j))
  | none => "-"

def snapshot (t : Table) (σ : State) : List (String × String) :=
  (List.range σ.groups.length).map fun g =>
    (rAttrDict t σ g, match σ.groups[g]? with | some grp => rGroup t grp | none => "?")

def delta (old new : List (String × String)) : String :=
  let ch := (List.range new.length).filterMap fun g =>
    match new[g]? with
    | some x => if old[g]? == some x then none else some s!"{g} {x.1} {x.2}"
    | none => none
  " ".intercalate (toString ch.length :: ch)

def mkInit (defs : List (String × Val)) : State :=
  let r := defs.foldl (fun (acc : List (String × Val) × Nat) (kv : String × Val) =>
    let w := kv.2.relabel acc.2; (acc.1 ++ [(kv.1, w.1)], w.2)) ([], 0)
  initState r.1 r.2

def settingsHist : P String := do
  let nd ← nat
  let defs ← rep nd (do let k ← tok; let v ← pVal; pure (k, v))
  let no ← nat
  let ops ← rep no pOp
  let t := settingsParams
  let σ0 := mkInit defs
  let s0 := snapshot t σ0
  let mut out : Array String := #["ok", fB (conforms t (σ0.groups.headD default).fields), fB (tableOK t), "ok", delta [] s0]
  let mut σ := σ0
  let mut prev := s0
  for op in ops do
    match step t σ op with
    | some σ' =>
      let s := snapshot t σ'
      out := out.push "ok" |>.push (delta prev s)
      σ := σ'
      prev := s
    | none => out := out.push "err" |>.push "0"
  pure (" ".intercalate out.toList)

partial def pJson : P Json := do
  let v ← pVal
  pure v.canon

def settingsDispatch : P String := do
  let n ← nat
  let kvs ← rep n (do let k ← tok; let v ← pJson; pure (k, v))
  pure (match dispatch kvs with | some c => c.name | none => "none")

def opsC15 (op : String) : Option (P String) :=
  match op with
  | "settings.hist" => some settingsHist
  | "settings.dispatch" => some settingsDispatch
  | _ => none

end HV.Drv
