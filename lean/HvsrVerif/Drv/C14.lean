import HvsrVerif.Drv.Loop
/-! driver commands of C14 (stateless: one request line in, one answer line out) -/
namespace HV.Drv
open HV.Proto

def opsC14 (op : String) : Option (P String) :=
  match op with
  | _ => none

end HV.Drv
