import HvsrVerif.Drv.Loop
import HvsrVerif.Model.Spatial
/-! driver commands of C14 (stateless: one request line in, one answer line out)

Geometry runs at `Rat`: the request carries IEEE bit patterns, every finite double is converted
to the rational it denotes, answers are exact `num/den` tokens. Statistics run at `Float`. -/
namespace HV.Drv
open HV.Proto

/-- the rational denoted by a finite IEEE-754 double given by its bit pattern -/
def ratOfBits (n : Nat) : Option Rat :=
  let neg := n / 2 ^ 63 % 2 == 1
  let e : Nat := n / 2 ^ 52 % 2048
  let m : Nat := n % 2 ^ 52
  if e == 2047 then none else
  let mant : Nat := if e == 0 then m else m + 2 ^ 52
  let ex : Int := if e == 0 then -1074 else (e : Int) - 1075
  let v : Rat := if ex ≥ 0 then ((mant * 2 ^ ex.toNat : Nat) : Rat) else mkRat mant (2 ^ (-ex).toNat)
  some (if neg then -v else v)

def rat : P Rat := do
  let t ← tok
  match hexToNat t with
  | some n => match ratOfBits n with
    | some r => pure r
    | none => throw s!"nonfinite:{t}"
  | none => throw s!"flt:{t}"

def ratPt : P (Pt Rat) := do
  let x ← rat; let y ← rat; pure (x, y)

def ratPts : P (List (Pt Rat)) := do rep (← nat) ratPt

def fR (r : Rat) : String := s!"{r.num}/{r.den}"
def fRVec (v : List Rat) : String := " ".intercalate (toString v.length :: v.map fR)
def fRPts (v : List (Pt Rat)) : String :=
  " ".intercalate (toString v.length :: v.map (fun p => fR p.1 ++ " " ++ fR p.2))

def dist : P SpDist := do
  let t ← tok
  if t == "normal" then pure .normal else if t == "lognormal" then pure .lognormal else throw s!"dist:{t}"

/-- `spatial.weights coords boundary` (`k x0 y0 x1 y1 …` each) →
`ok <indices> <weights> <sum==1> <all>=0> hull cells…` -/
def spatialWeights : P String := do
  let coords ← ratPts
  let boundary ← ratPts
  match voronoiWeights coords boundary with
  | .error e => pure ("err " ++ e)
  | .ok o =>
    let s : Rat := o.weights.foldl (· + ·) 0
    let sumOne := decide (s = 1)
    let nonneg := o.weights.all (fun w => decide (0 ≤ w))
    pure (" ".intercalate (["ok", fNVec o.indices, fRVec o.weights, fB sumOne, fB nonneg, fRPts o.hull,
      toString o.cells.length] ++ o.cells.map fRPts))

/-- `spatial.stats dist realisations weights` → `ok mean std` | `none` -/
def spatialStatsOp : P String := do
  let s ← dist
  let r ← mat
  let w ← vec
  match spatialStats s r w with
  | none => pure "none"
  | some (m, sd) => pure s!"ok {fF m} {fF sd}"

/-- `spatial.rawstats values weights` (`_statistics`) → `ok mean std` | `none` -/
def spatialRawStats : P String := do
  let r ← mat
  let w ← vec
  match statistics r w with
  | none => pure "none"
  | some (m, sd) => pure s!"ok {fF m} {fF sd}"

/-- `spatial.mc gen spatial draws weights` → `ok mean std realisations` | `none` -/
def spatialMc : P String := do
  let g ← dist
  let s ← dist
  let d ← mat
  let w ← vec
  match montecarlo g s d w with
  | none => pure "none"
  | some (m, sd, r) => pure s!"ok {fF m} {fF sd} {fMat r}"

def opsC14 (op : String) : Option (P String) :=
  match op with
  | "spatial.weights" => some spatialWeights
  | "spatial.stats" => some spatialStatsOp
  | "spatial.rawstats" => some spatialRawStats
  | "spatial.mc" => some spatialMc
  | _ => none

end HV.Drv
