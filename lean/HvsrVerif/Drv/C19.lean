import HvsrVerif.Drv.Loop
import HvsrVerif.Model.Cli
/-! driver commands of C19 (stateless: one request line in, one answer line out) -/
namespace HV.Drv
open HV.Proto HV.Cli

/-- `unset | nokey | nnone | <k>` -/
def fftState : P FftState := do
  let t ← tok
  if t == "unset" then pure .unset
  else if t == "nokey" then pure .noKey
  else if t == "nnone" then pure .nNone
  else match t.toNat? with
    | some k => pure (.n k)
    | none => throw s!"fftstate:{t}"

def fFftState : FftState → String
  | .unset => "unset"
  | .noKey => "nokey"
  | .nNone => "nnone"
  | .n k => toString k

def fONat : Option Nat → String
  | none => "none"
  | some k => toString k

def cliMode : P Mode := do
  let t ← tok
  if t == "fresh" then pure .fresh
  else if t == "shared" then pure .shared
  else throw s!"mode:{t}"

/-- `nextpow2 n min` → `ok r` | `err diverges` (non-positive start: the Python loop never ends) -/
def opNextpow2 : P String := do
  let n ← nat; let m ← nat
  if h : 0 < m then pure s!"ok {nextpow2 n m h}" else pure "err diverges"

/-- `prepfft STATE reps maxN` → the states after each of `reps` successive calls of
`prepare_fft_settings` with the same records -/
def opPrepFft : P String := do
  let s ← fftState; let reps ← nat; let m ← nat
  let states := (List.range reps).map (fun i => runTask (i + 1) s m)
  pure ("ok " ++ " ".intercalate (states.map fFftState))

/-- `cli.batch nproc MODE reps STATE nfiles samples*` →
`ok nfiles (fft n written for file i)* nchunks (chunk length)*` | `err ValueError` -/
def opCliBatch : P String := do
  let nproc ← nat; let mode ← cliMode; let reps ← nat; let s ← fftState
  let files ← natVec
  match cliBatch mode reps s (fun n _ => n) files nproc with
  | .error e => pure ("err " ++ e)
  | .ok res =>
    let ns := res.map (fun p => fONat p.2)
    let cl := (chunks files nproc).map List.length
    pure ("ok " ++ " ".intercalate (toString ns.length :: ns) ++ " " ++ fNVec cl)

/-- `cli.alone reps STATE samples` → fft n of the stand-alone pipeline -/
def opCliAlone : P String := do
  let reps ← nat; let s ← fftState; let file ← nat
  pure ("ok " ++ fONat (alone reps s (fun n _ => n) file))

def opsC19 (op : String) : Option (P String) :=
  match op with
  | "nextpow2" => some opNextpow2
  | "prepfft" => some opPrepFft
  | "cli.batch" => some opCliBatch
  | "cli.alone" => some opCliAlone
  | _ => none

end HV.Drv
