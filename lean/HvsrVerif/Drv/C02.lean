import HvsrVerif.Proto
import HvsrVerif.Model.Smoothing
namespace HV.Drv
open HV.Proto

/-- `smooth NAME bw freqs* rows** fcs*` → `ok matrix` | `err kind` -/
def smooth : P String := do
  let name ← tok; let bw ← flt
  let f ← vec; let rows ← mat; let fcs ← vec
  match smoothByName name bw f rows fcs with
  | .ok m => pure ("ok " ++ fMat m)
  | .error e => pure ("err " ++ e)

end HV.Drv
