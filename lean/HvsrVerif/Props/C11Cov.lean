import HvsrVerif.Props.C11Order
/-!
# C11 (continued) — the weighted covariance depends only on the multiset of (fn, amplitude, weight) triples

`cov2_perm`: numpy's `cov(x, y, aweights=w)` as mirrored by `cov2` is unchanged by any simultaneous permutation of the
two value lists and the weights; `azimuth_order_cov`: hence the covariance of the resonance of an azimuthal result does
not depend on the order of the azimuths (each azimuth keeping its windows and therefore its weights).
-/
namespace HV.C11
open HV Classical

/-- projections of a triple zip -/
theorem zip3_fst (xs ys ws : List ℝ) (h1 : xs.length = ys.length) (h2 : xs.length = ws.length) :
    List.zip xs ws = (List.zip (List.zip xs ys) ws).map (fun p => (p.1.1, p.2)) := by
  induction xs generalizing ys ws with
  | nil => simp
  | cons x xs ih =>
    cases ys with
    | nil => simp at h1
    | cons y ys =>
      cases ws with
      | nil => simp at h2
      | cons w ws =>
        simp only [List.zip_cons_cons, List.map_cons, List.cons.injEq, true_and]
        exact ih ys ws (by simpa using h1) (by simpa using h2)

theorem zip3_snd (xs ys ws : List ℝ) (h1 : xs.length = ys.length) (h2 : xs.length = ws.length) :
    List.zip ys ws = (List.zip (List.zip xs ys) ws).map (fun p => (p.1.2, p.2)) := by
  induction xs generalizing ys ws with
  | nil =>
    cases ys with
    | nil => simp
    | cons y ys => simp at h1
  | cons x xs ih =>
    cases ys with
    | nil => simp at h1
    | cons y ys =>
      cases ws with
      | nil => simp at h2
      | cons w ws =>
        simp only [List.zip_cons_cons, List.map_cons, List.cons.injEq, true_and]
        exact ih ys ws (by simpa using h1) (by simpa using h2)

/-- **The weighted covariance is invariant under a simultaneous permutation** of values and weights. -/
theorem cov2_perm (xs ys ws xs' ys' ws' : List ℝ)
    (h1 : xs.length = ys.length) (h2 : xs.length = ws.length) (h1' : xs'.length = ys'.length) (h2' : xs'.length = ws'.length)
    (hp : (List.zip (List.zip xs ys) ws).Perm (List.zip (List.zip xs' ys') ws')) :
    cov2 xs ys (some ws) = cov2 xs' ys' (some ws') := by
  have hws : ws = (List.zip (List.zip xs ys) ws).map Prod.snd :=
    (List.map_snd_zip (by rw [List.length_zip]; omega)).symm
  have hws' : ws' = (List.zip (List.zip xs' ys') ws').map Prod.snd :=
    (List.map_snd_zip (by rw [List.length_zip]; omega)).symm
  -- every sum that `cov2` forms is a sum of a function of the triples
  have sx : ∀ g : ℝ → ℝ → ℝ, ((List.zip xs ws).map (fun p => g p.1 p.2)).sum = ((List.zip xs' ws').map (fun p => g p.1 p.2)).sum := by
    intro g
    rw [zip3_fst xs ys ws h1 h2, zip3_fst xs' ys' ws' h1' h2', List.map_map, List.map_map]
    exact (hp.map _).sum_eq
  have sy : ∀ g : ℝ → ℝ → ℝ, ((List.zip ys ws).map (fun p => g p.1 p.2)).sum = ((List.zip ys' ws').map (fun p => g p.1 p.2)).sum := by
    intro g
    rw [zip3_snd xs ys ws h1 h2, zip3_snd xs' ys' ws' h1' h2', List.map_map, List.map_map]
    exact (hp.map _).sum_eq
  have sxy : ∀ g : ℝ → ℝ → ℝ → ℝ, ((List.zip (List.zip xs ys) ws).map (fun p => g p.1.1 p.1.2 p.2)).sum =
      ((List.zip (List.zip xs' ys') ws').map (fun p => g p.1.1 p.1.2 p.2)).sum := by
    intro g
    exact (hp.map _).sum_eq
  have wsum : ws.sum = ws'.sum := by rw [hws, hws']; exact (hp.map _).sum_eq
  have wsq : (ws.map (fun w => w * w)).sum = (ws'.map (fun w => w * w)).sum := by
    rw [hws, hws', List.map_map, List.map_map]; exact (hp.map _).sum_eq
  unfold cov2
  simp only [sumA_real, wsum, wsq, sx (fun x w => x * w), sy (fun y w => y * w)]
  cases divO (List.map (fun p => p.1 * p.2) (xs'.zip ws')).sum ws'.sum with
  | none => rfl
  | some mx =>
    cases divO (List.map (fun p => p.1 * p.2) (ys'.zip ws')).sum ws'.sum with
    | none => rfl
    | some my =>
      simp only [sx (fun x w => w * ((x - mx) * (x - mx))), sy (fun y w => w * ((y - my) * (y - my))),
        sxy (fun x y w => w * ((x - mx) * (y - my)))]

/-- the triples of an azimuthal object grouped by azimuth: `(fn, amplitude)` pairs with the Cheng weight of their azimuth -/
theorem zip_pair_groups (A : ℕ) (groups : List (List (ℝ × ℝ))) :
    List.zip (groups.flatMap (fun g => g)) (groupWeights A (groups.map (fun g => g.map Prod.fst)))
      = groups.flatMap (fun g => List.zip g (List.replicate g.length (1 / ((A * g.length : ℕ) : ℝ)))) := by
  unfold groupWeights
  induction groups with
  | nil => rfl
  | cons g gs ih =>
    simp only [List.flatMap_cons, List.map_cons, List.length_map]
    rw [List.zip_append (by simp), ih]

/-- **The covariance does not depend on the order of the azimuths.** `groups` holds, per azimuth, the (transformed)
`(fn frequency, fn amplitude)` pairs of its accepted windows. -/
theorem azimuth_order_cov (groups groups' : List (List (ℝ × ℝ))) (hp : groups.Perm groups') :
    cov2 ((groups.flatMap (fun g => g)).map Prod.fst) ((groups.flatMap (fun g => g)).map Prod.snd)
        (some (groupWeights groups.length (groups.map (fun g => g.map Prod.fst)))) =
      cov2 ((groups'.flatMap (fun g => g)).map Prod.fst) ((groups'.flatMap (fun g => g)).map Prod.snd)
        (some (groupWeights groups'.length (groups'.map (fun g => g.map Prod.fst)))) := by
  have hlen : ∀ (A : ℕ) (gs : List (List (ℝ × ℝ))),
      (groupWeights A (gs.map (fun g => g.map Prod.fst))).length = (gs.flatMap (fun g => g)).length := by
    intro A gs
    rw [groupWeights_length]
    induction gs with
    | nil => rfl
    | cons g gs ih => simp only [List.map_cons, List.flatMap_cons, List.length_append, List.length_map, ih]
  apply cov2_perm
  · rw [List.length_map, List.length_map]
  · rw [List.length_map, hlen]
  · rw [List.length_map, List.length_map]
  · rw [List.length_map, hlen]
  · have e : ∀ l : List (ℝ × ℝ), List.zip (l.map Prod.fst) (l.map Prod.snd) = l := by
      intro l; induction l with
      | nil => rfl
      | cons a t ih => simp [ih]
    rw [e, e, zip_pair_groups, zip_pair_groups, hp.length_eq]
    exact hp.flatMap_right _

end HV.C11
