import HvsrVerif.Props.C01
/-!
# C01 (continued) — the `a/b` scaling law and the proportional closed form, composed through the whole chain

`Props/C01.lean` proves invariance under one common factor. Here the two remaining consequences the property names
are proved for the composed chain `hvsrRow` (taper → |DFT| → combine → smooth → divide), for every registered
frequency-domain combination, every smoothing operator, taper width and FFT length:

* `hvsr_scale_ab` — horizontals × `a`, vertical × `b` (`a, b > 0`) multiplies the curve by `a / b`
  ("scales linearly with the horizontals and inversely with the vertical"), refusals included;
* `hvsr_proportional_flat` — for `ns = A·s`, `ew = B·s`, `vt = C·s` every returned value is
  `combine(|A|, |B|) / |C|` ("flat at the closed-form value").

Both rest on `smoothByName_rowwise`: each operator either refuses independently of the rows or applies one
homogeneous map to every row.
-/
namespace HV.C01
open HV Classical

/-- Every registered smoothing operator, for fixed bandwidth / grid / centre frequencies, either refuses whatever the
rows are, or applies one and the same homogeneous map `S` to every row. -/
theorem smoothByName_rowwise (op : String) (bw : ℝ) (freqs fcs : List ℝ) :
    (∃ e, ∀ rows, smoothByName op bw freqs rows fcs = .error e) ∨
    (∃ S : List ℝ → List ℝ, (∀ rows, smoothByName op bw freqs rows fcs = .ok (rows.map S)) ∧
      ∀ (c : ℝ) (row : List ℝ), S (row.map (c * ·)) = (S row).map (c * ·)) := by
  have kern : ∀ w : ℝ → ℝ → Option ℝ,
      ∃ S : List ℝ → List ℝ, (∀ rows, kernelSmooth w freqs rows fcs = rows.map S) ∧
        ∀ (c : ℝ) (row : List ℝ), S (row.map (c * ·)) = (S row).map (c * ·) := by
    intro w
    refine ⟨fun row => fcs.map (kernelSmoothRow w freqs row), fun rows => rfl, ?_⟩
    intro c row
    simp only [List.map_map]
    apply List.map_congr_left
    intro fc _
    simp only [Function.comp]
    exact smooth_homog w freqs row fc c
  unfold smoothByName
  split
  · obtain ⟨S, h1, h2⟩ := kern (koWeight bw); exact Or.inr ⟨S, fun rows => by rw [h1], h2⟩
  · obtain ⟨S, h1, h2⟩ := kern (parzenWeight bw); exact Or.inr ⟨S, fun rows => by rw [h1], h2⟩
  · obtain ⟨S, h1, h2⟩ := kern (linRectWeight bw); exact Or.inr ⟨S, fun rows => by rw [h1], h2⟩
  · obtain ⟨S, h1, h2⟩ := kern (logRectWeight bw); exact Or.inr ⟨S, fun rows => by rw [h1], h2⟩
  · obtain ⟨S, h1, h2⟩ := kern (linTriWeight bw); exact Or.inr ⟨S, fun rows => by rw [h1], h2⟩
  · obtain ⟨S, h1, h2⟩ := kern (logTriWeight bw); exact Or.inr ⟨S, fun rows => by rw [h1], h2⟩
  · unfold savitzkyGolay
    simp only
    split
    · exact Or.inl ⟨_, fun _ => rfl⟩
    · split
      · exact Or.inl ⟨_, fun _ => rfl⟩
      · split
        · exact Or.inl ⟨_, fun _ => rfl⟩
        · refine Or.inr ⟨_, fun rows => rfl, ?_⟩
          intro c row
          simp only [List.map_map]
          apply List.map_congr_left
          intro i _
          simp only [Function.comp]
          exact sgAt_homog _ row c _
  · exact Or.inl ⟨_, fun _ => rfl⟩

theorem mapM_cons_except {β γ : Type} (f : β → Except String γ) (x : β) (xs : List β) :
    List.mapM f (x :: xs) = (match f x with
      | .error e => .error e
      | .ok y => match List.mapM f xs with
        | .error e => .error e
        | .ok ys => .ok (y :: ys)) := by
  rw [List.mapM_cons]
  cases f x with
  | error e => rfl
  | ok y =>
    cases List.mapM f xs with
    | error e => rfl
    | ok ys => rfl

/-- one entry of `ratioRow` -/
noncomputable def ratio1 (p : ℝ × ℝ) : Except String ℝ :=
  if eqA p.2 (Arith.ofNat 0 : ℝ) then .error "div0"
  else if p.1 / p.2 < (Arith.ofNat 0 : ℝ) then .error "negative" else .ok (p.1 / p.2)

theorem ratioRow_eq (h v : List ℝ) : ratioRow h v = (List.zip h v).mapM ratio1 := rfl

theorem ratio1_spec (x y : ℝ) :
    ratio1 (x, y) = if y = 0 then .error "div0" else if x / y < 0 then .error "negative" else .ok (x / y) := by
  unfold ratio1
  simp only [ofNat_real, Nat.cast_zero]
  by_cases hy : y = 0
  · subst hy; simp [(eqA_real 0 0).mpr rfl]
  · have h1 : eqA y (0:ℝ) = false := by rw [Bool.eq_false_iff]; intro hh; exact hy ((eqA_real y 0).mp hh)
    simp [h1, hy]

/-- the ratio of a row scaled by `a > 0` over a row scaled by `b > 0`: same refusals, values × `a / b` -/
theorem ratioRow_scale_ab (a b : ℝ) (ha : 0 < a) (hb : 0 < b) (h v : List ℝ) :
    ratioRow (h.map (a * ·)) (v.map (b * ·)) = (ratioRow h v).map (fun row => row.map (a / b * ·)) := by
  simp only [ratioRow_eq]
  induction h generalizing v with
  | nil => simp [Except.map]; rfl
  | cons x xs ih =>
    cases v with
    | nil => simp [Except.map]; rfl
    | cons y ys =>
      simp only [List.map_cons, List.zip_cons_cons, mapM_cons_except, ih ys, ratio1_spec]
      have hab : 0 < a / b := div_pos ha hb
      by_cases hy : y = 0
      · subst hy; simp [Except.map]
      · have hby : b * y ≠ 0 := mul_ne_zero hb.ne' hy
        have hq : a * x / (b * y) = a / b * (x / y) := by field_simp
        simp only [hy, hby, if_false, hq]
        by_cases hn : x / y < 0
        · have : a / b * (x / y) < 0 := mul_neg_of_pos_of_neg hab hn
          simp [hn, this, Except.map]
        · have : ¬ a / b * (x / y) < 0 := by
            intro hh; exact absurd (mul_nonneg hab.le (not_lt.mp hn)) (not_le.mpr hh)
          simp only [hn, this, if_false]
          cases List.mapM ratio1 (xs.zip ys) with
          | error e => rfl
          | ok q => rfl

theorem zip_map_combine_homog (m : Combine) (a : ℝ) (ha : 0 ≤ a) (X Y : List ℝ) :
    (List.zip (X.map (a * ·)) (Y.map (a * ·))).map (fun p => m.apply p.1 p.2)
      = ((List.zip X Y).map (fun p => m.apply p.1 p.2)).map (a * ·) := by
  induction X generalizing Y with
  | nil => simp
  | cons x xs ih =>
    cases Y with
    | nil => simp
    | cons y ys => simp [ih ys, combine_homog m a x y ha]

/-- **Linear in the horizontals, inverse in the vertical.** Multiplying both horizontals by `a > 0` and the vertical
by `b > 0` multiplies every value of the HVSR curve by `a / b` and changes no refusal — for every frequency-domain
combination, smoothing operator, taper width and FFT length. (`a = b` is `hvsr_scale_invariant`.) -/
theorem hvsr_scale_ab (m : Combine) (cfg : ProcCfg ℝ) (n : ℕ) (r : Rec3 ℝ) (a b : ℝ) (ha : 0 < a) (hb : 0 < b) :
    hvsrRow (.combine m) cfg n { r with ns := r.ns.map (a * ·), ew := r.ew.map (a * ·), vt := r.vt.map (b * ·) }
      = (hvsrRow (.combine m) cfg n r).map (fun row => row.map (a / b * ·)) := by
  unfold hvsrRow
  simp only [taper_homog, ampSpec_homog, abs_of_pos ha, abs_of_pos hb]
  rw [zip_map_combine_homog m a ha.le]
  unfold smoothRows
  rcases smoothByName_rowwise cfg.op cfg.bw (rfftfreq n r.dt) cfg.fcs with ⟨e, he⟩ | ⟨S, hS, hlin⟩
  · simp only [he]; rfl
  · simp only [hS, List.map_cons, List.map_nil, hlin]
    exact ratioRow_scale_ab a b ha hb _ _

/-- amplitude spectra are non-negative -/
theorem ampSpec_nonneg (x : List ℝ) (n : ℕ) : ∀ y ∈ ampSpec x n, 0 ≤ y := by
  intro y hy
  unfold ampSpec at hy
  simp only [List.mem_map] at hy
  obtain ⟨p, _, rfl⟩ := hy
  simp only [sqrt_real]
  exact Real.sqrt_nonneg _

theorem zip_map_combine_closed (m : Combine) (A B : ℝ) (X : List ℝ) (hX : ∀ y ∈ X, 0 ≤ y) :
    (List.zip (X.map (A * ·)) (X.map (B * ·))).map (fun p => m.apply p.1 p.2) = X.map (m.apply A B * ·) := by
  induction X with
  | nil => simp
  | cons x xs ih =>
    have hx : 0 ≤ x := hX x (by simp)
    have := ih (fun y hy => hX y (by simp [hy]))
    simp only [List.map_cons, List.zip_cons_cons, this, List.cons.injEq, and_true]
    have h := combine_homog m x A B hx
    rw [mul_comm A x, mul_comm B x, h, mul_comm]

/-- every value of a ratio of one row scaled by `K` over the same row scaled by `c > 0` is `K / c` -/
theorem ratioRow_same (K c : ℝ) (hc : 0 < c) (s : List ℝ) (row : List ℝ)
    (h : ratioRow (s.map (K * ·)) (s.map (c * ·)) = .ok row) : row.length = s.length ∧ ∀ q ∈ row, q = K / c := by
  simp only [ratioRow_eq] at h
  induction s generalizing row with
  | nil => simp at h; cases h; simp
  | cons y ys ih =>
    simp only [List.map_cons, List.zip_cons_cons, mapM_cons_except, ratio1_spec] at h
    by_cases hy : y = 0
    · subst hy; simp at h
    · have hcy : c * y ≠ 0 := mul_ne_zero hc.ne' hy
      have hq : K * y / (c * y) = K / c := by field_simp
      simp only [hcy, if_false, hq] at h
      by_cases hneg : K / c < 0
      · simp [hneg] at h
      · simp only [hneg, if_false] at h
        cases hrest : List.mapM ratio1 ((ys.map (K * ·)).zip (ys.map (c * ·))) with
        | error e => rw [hrest] at h; cases h
        | ok rest =>
          rw [hrest] at h
          injection h with h
          obtain ⟨l1, l2⟩ := ih rest hrest
          subst h
          constructor
          · simp [l1]
          · intro q hq
            rcases List.mem_cons.mp hq with rfl | hq
            · rfl
            · exact l2 q hq

/-- **Proportional components give a flat curve at the closed-form value.** With `ns = A·s`, `ew = B·s`, `vt = C·s`
(`C ≠ 0`), whenever a curve is returned it has one value per centre frequency and every value equals
`combine(|A|, |B|) / |C|` — see `combine_closed_form` for the value of `combine` per method — for every smoothing
operator, taper width and FFT length. -/
theorem hvsr_proportional_flat (m : Combine) (cfg : ProcCfg ℝ) (n : ℕ) (dt deg : ℝ) (s : List ℝ) (A B C : ℝ)
    (hC : C ≠ 0) (row : List ℝ)
    (h : hvsrRow (.combine m) cfg n
      { dt := dt, deg := deg, ns := s.map (A * ·), ew := s.map (B * ·), vt := s.map (C * ·) } = .ok row) :
    ∀ q ∈ row, q = m.apply |A| |B| / |C| := by
  unfold hvsrRow at h
  simp only [taper_homog, ampSpec_homog] at h
  rw [zip_map_combine_closed m |A| |B| _ (ampSpec_nonneg _ n)] at h
  unfold smoothRows at h
  rcases smoothByName_rowwise cfg.op cfg.bw (rfftfreq n dt) cfg.fcs with ⟨e, he⟩ | ⟨S, hS, hlin⟩
  · simp only [he] at h; cases h
  · simp only [hS, List.map_cons, List.map_nil, hlin] at h
    exact (ratioRow_same _ _ (abs_pos.mpr hC) _ row h).2

/-- the closed-form values, spelled out per method -/
theorem closed_form_values (A B : ℝ) :
    Combine.arithmeticMean.apply A B = (A + B) / 2 ∧
    Combine.squaredAverage.apply A B = Real.sqrt ((A ^ 2 + B ^ 2) / 2) ∧
    Combine.geometricMean.apply A B = Real.sqrt (A * B) ∧
    Combine.totalHorizontalEnergy.apply A B = Real.sqrt (A ^ 2 + B ^ 2) ∧
    Combine.maximumHorizontalValue.apply A B = max A B := by
  have h := fun m => combine_closed_form m A B 1 zero_le_one
  simp only [mul_one] at h
  exact ⟨h .arithmeticMean, h .squaredAverage, h .geometricMean, h .totalHorizontalEnergy, h .maximumHorizontalValue⟩

end HV.C01
