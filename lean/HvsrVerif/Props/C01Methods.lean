import HvsrVerif.Props.C01Laws
import HvsrVerif.Proofs.Percentile
/-!
# C01 (continued) — the single-azimuth and RotDpp methods

`hvsr_scale_invariant_all`: invariance under a common factor for **every** `Method` of `hvsrRow`
(frequency-domain combinations, single azimuth, RotDpp), through the whole chain.
`hvsr_proportional_singleAz`: for proportional components the single-azimuth curve is flat at
`|A cos a + B sin a| / |C|` (a = azimuth relative to the sensor).
-/
namespace HV.C01
open HV Classical

/-! ### percentile is positively homogeneous -/

theorem insertSorted_scale (c : ℝ) (hc : 0 < c) (x : ℝ) (l : List ℝ) :
    insertSorted (c * x) (l.map (c * ·)) = (insertSorted x l).map (c * ·) := by
  induction l with
  | nil => rfl
  | cons y ys ih =>
    simp only [List.map_cons, insertSorted]
    have : (c * x < c * y) ↔ x < y := by
      constructor
      · intro h; exact lt_of_mul_lt_mul_left h hc.le
      · intro h; exact mul_lt_mul_of_pos_left h hc
    by_cases hxy : x < y
    · simp [hxy, this.mpr hxy]
    · have : ¬ c * x < c * y := fun h => hxy (this.mp h)
      simp [hxy, this, ih]

theorem sortA_scale (c : ℝ) (hc : 0 < c) (l : List ℝ) : sortA (l.map (c * ·)) = (sortA l).map (c * ·) := by
  unfold sortA
  induction l with
  | nil => rfl
  | cons x xs ih =>
    simp only [List.map_cons, List.foldr_cons]
    rw [ih, insertSorted_scale c hc]

theorem percentile_scale (c : ℝ) (hc : 0 < c) (vals : List ℝ) (q : ℝ) :
    percentile (vals.map (c * ·)) q = c * percentile vals q := by
  unfold percentile
  simp only [sortA_scale c hc, List.length_map, ofNat_real, Nat.cast_zero]
  rw [getD_map_mul, getD_map_mul]
  ring

/-! ### scaling a record -/

/-- all three components multiplied by `a` -/
def scaleRec (a : ℝ) (r : Rec3 ℝ) : Rec3 ℝ :=
  { r with ns := r.ns.map (a * ·), ew := r.ew.map (a * ·), vt := r.vt.map (a * ·) }

theorem singleAzSeries_scale (deg a : ℝ) (ns ew : List ℝ) :
    singleAzimuthSeries deg (ns.map (a * ·)) (ew.map (a * ·)) = (singleAzimuthSeries deg ns ew).map (a * ·) := by
  unfold singleAzimuthSeries
  induction ns generalizing ew with
  | nil => simp
  | cons x xs ih =>
    cases ew with
    | nil => simp
    | cons y ys =>
      simp only [List.map_cons, List.zip_cons_cons, List.cons.injEq]
      refine ⟨?_, ih ys⟩
      unfold singleAzimuth; ring

theorem columnsOf_scale (c : ℝ) (rows : List (List ℝ)) (ncol : ℕ) :
    columnsOf (rows.map (fun r => r.map (c * ·))) ncol = (columnsOf rows ncol).map (fun col => col.map (c * ·)) := by
  unfold columnsOf
  simp only [List.map_map]
  apply List.map_congr_left
  intro j _
  simp only [Function.comp, List.filterMap_map]
  rw [List.map_filterMap]
  congr 1
  funext r
  simp [List.getElem?_map]

theorem getLastD_map {β γ : Type} (f : β → γ) (l : List β) (d : β) : (l.map f).getLastD (f d) = f (l.getLastD d) := by
  induction l generalizing d with
  | nil => rfl
  | cons x xs ih => simp only [List.map_cons, List.getLastD_cons]; exact ih x

/-- **Unchanged under a common factor, every method.** -/
theorem hvsr_scale_invariant_all (m : Method ℝ) (cfg : ProcCfg ℝ) (n : ℕ) (r : Rec3 ℝ) (a : ℝ) (ha : 0 < a) :
    hvsrRow m cfg n (scaleRec a r) = hvsrRow m cfg n r := by
  cases m with
  | combine c => exact hvsr_scale_invariant c cfg n r a ha
  | singleAz az =>
    unfold hvsrRow scaleRec
    simp only [singleAzSeries_scale, taper_homog, ampSpec_homog, abs_of_pos ha]
    unfold smoothRows
    rcases smoothByName_rowwise cfg.op cfg.bw (rfftfreq n r.dt) cfg.fcs with ⟨e, he⟩ | ⟨S, hS, hlin⟩
    · simp only [he]
    · simp only [hS, List.map_cons, List.map_nil, hlin]
      exact ratioRow_scale a ha _ _
  | rotdpp pct azs =>
    unfold hvsrRow scaleRec
    simp only [singleAzSeries_scale, taper_homog, ampSpec_homog, abs_of_pos ha]
    unfold smoothRows
    rcases smoothByName_rowwise cfg.op cfg.bw (rfftfreq n r.dt) cfg.fcs with ⟨e, he⟩ | ⟨S, hS, hlin⟩
    · simp only [he]
    · simp only [hS]
      -- all rows (the azimuth spectra and the vertical) are scaled by `a`
      have hrows : (azs.map (fun az => (ampSpec (taper cfg.width (singleAzimuthSeries (az - r.deg) r.ns r.ew)) n).map (a * ·))
            ++ [(ampSpec (taper cfg.width r.vt) n).map (a * ·)]).map S
          = ((azs.map (fun az => ampSpec (taper cfg.width (singleAzimuthSeries (az - r.deg) r.ns r.ew)) n)
            ++ [ampSpec (taper cfg.width r.vt) n]).map S).map (fun row => row.map (a * ·)) := by
        simp only [List.map_append, List.map_map, List.map_cons, List.map_nil, hlin]
        congr 1
        apply List.map_congr_left
        intro az _
        simp only [Function.comp, hlin]
      rw [hrows]
      generalize ((azs.map (fun az => ampSpec (taper cfg.width (singleAzimuthSeries (az - r.deg) r.ns r.ew)) n)
            ++ [ampSpec (taper cfg.width r.vt) n]).map S) = sm
      have h1 : (sm.map (fun row => row.map (a * ·))).getLastD [] = (sm.getLastD []).map (a * ·) := by
        have := getLastD_map (fun row : List ℝ => row.map (a * ·)) sm []
        simpa using this
      have h2 : (sm.map (fun row => row.map (a * ·))).dropLast = sm.dropLast.map (fun row => row.map (a * ·)) := by
        simp [List.dropLast_eq_take, List.map_take]
      simp only [h1, h2, columnsOf_scale, List.map_map]
      have h3 : (List.map ((fun col => percentile col pct) ∘ fun col => List.map (fun x => a * x) col) (columnsOf sm.dropLast cfg.fcs.length))
          = ((columnsOf sm.dropLast cfg.fcs.length).map (fun col => percentile col pct)).map (a * ·) := by
        rw [List.map_map]
        apply List.map_congr_left
        intro col _
        simp only [Function.comp]
        exact percentile_scale a ha col pct
      rw [h3]
      exact ratioRow_scale a ha _ _

/-! ### proportional components, single azimuth -/

theorem singleAzSeries_proportional (deg A B : ℝ) (s : List ℝ) :
    singleAzimuthSeries deg (s.map (A * ·)) (s.map (B * ·))
      = s.map ((A * Real.cos (radians deg) + B * Real.sin (radians deg)) * ·) := by
  unfold singleAzimuthSeries
  induction s with
  | nil => rfl
  | cons x xs ih =>
    simp only [List.map_cons, List.zip_cons_cons, List.cons.injEq]
    refine ⟨?_, ih⟩
    unfold singleAzimuth
    simp only [cos_real, sin_real]
    ring

/-- **Proportional components, single azimuth**: whenever a curve is returned every value is
`|A cos a + B sin a| / |C|`, `a` = the requested azimuth relative to the sensor's orientation. -/
theorem hvsr_proportional_singleAz (az : ℝ) (cfg : ProcCfg ℝ) (n : ℕ) (dt deg : ℝ) (s : List ℝ) (A B C : ℝ)
    (hC : C ≠ 0) (row : List ℝ)
    (h : hvsrRow (.singleAz az) cfg n
      { dt := dt, deg := deg, ns := s.map (A * ·), ew := s.map (B * ·), vt := s.map (C * ·) } = .ok row) :
    ∀ q ∈ row, q = |A * Real.cos (radians (az - deg)) + B * Real.sin (radians (az - deg))| / |C| := by
  unfold hvsrRow at h
  simp only [singleAzSeries_proportional, taper_homog, ampSpec_homog] at h
  unfold smoothRows at h
  rcases smoothByName_rowwise cfg.op cfg.bw (rfftfreq n dt) cfg.fcs with ⟨e, he⟩ | ⟨S, hS, hlin⟩
  · simp only [he] at h; cases h
  · simp only [hS, List.map_cons, List.map_nil, hlin] at h
    exact (ratioRow_same _ _ (abs_pos.mpr hC) _ row h).2

end HV.C01
