import HvsrVerif.Props.C05
/-!
# C05 (continued) — the covariance of the resonance is the textbook estimator

`cov_unweighted_eq`: for `N ≥ 2` paired values, `cov2 xs ys none` (the model of `np.cov(..., ddof=1)` as used by
`cov_fn`) is the sample covariance matrix with the `N − 1` denominator, in the space the caller transformed the values to
(log space for lognormal: `HvTrad.covFn` applies `d.pre` first); `cov_pairs_only` shows that windows without a peak
never enter it; `cov_diag_is_var`: the diagonal entry is the square of the `N − 1` standard deviation of the same values.
-/
namespace HV.C05
open HV Classical

theorem zip_ones_map (xs : List ℝ) (g : ℝ → ℝ → ℝ) :
    (List.zip xs (xs.map (fun _ => (1:ℝ)))).map (fun p => g p.1 p.2) = xs.map (fun x => g x 1) := by
  induction xs with
  | nil => rfl
  | cons a t ih => simp only [List.map_cons, List.zip_cons_cons, ih]

theorem zip_zip_ones_map (xs ys : List ℝ) (g : ℝ → ℝ → ℝ → ℝ) :
    (List.zip (List.zip xs ys) (xs.map (fun _ => (1:ℝ)))).map (fun p => g p.1.1 p.1.2 p.2)
      = (List.zip xs ys).map (fun p => g p.1 p.2 1) := by
  induction xs generalizing ys with
  | nil => rfl
  | cons a t ih =>
    cases ys with
    | nil => simp
    | cons b u => simp only [List.map_cons, List.zip_cons_cons, ih u]

theorem zip_ones_right (xs ys : List ℝ) (h : xs.length = ys.length) (g : ℝ → ℝ → ℝ) :
    (List.zip ys (xs.map (fun _ => (1:ℝ)))).map (fun p => g p.1 p.2) = ys.map (fun y => g y 1) := by
  induction xs generalizing ys with
  | nil => cases ys with
    | nil => rfl
    | cons b u => simp at h
  | cons a t ih =>
    cases ys with
    | nil => simp at h
    | cons b u =>
      simp only [List.length_cons, Nat.add_right_cancel_iff] at h
      simp only [List.map_cons, List.zip_cons_cons, ih u h]

/-- **`cov_fn` is the sample covariance** (`N − 1` denominator) of the paired values. -/
theorem cov_unweighted_eq (xs ys : List ℝ) (hlen : xs.length = ys.length) (h2 : 2 ≤ xs.length) :
    cov2 xs ys none =
      let N : ℝ := xs.length
      let mx := xs.sum / N
      let my := ys.sum / N
      some ((xs.map (fun x => (x - mx) * (x - mx))).sum / (N - 1),
            ((List.zip xs ys).map (fun p => (p.1 - mx) * (p.2 - my))).sum / (N - 1),
            (ys.map (fun y => (y - my) * (y - my))).sum / (N - 1)) := by
  have hN : (xs.length : ℝ) ≠ 0 := by
    have : xs.length ≠ 0 := by omega
    exact_mod_cast this
  have hN1 : ((xs.length - 1 : ℕ) : ℝ) = (xs.length : ℝ) - 1 := by
    rw [Nat.cast_sub (by omega)]; simp
  have hN1' : (xs.length : ℝ) - 1 ≠ 0 := by
    have : (2 : ℝ) ≤ (xs.length : ℝ) := by exact_mod_cast h2
    intro h; linarith
  unfold cov2
  simp only [ofNat_real, Nat.cast_one, sumA_real, divO_real]
  have hv1 : (xs.map (fun _ => (1:ℝ))).sum = (xs.length : ℝ) := by
    simp [List.sum_replicate, List.map_const']
  rw [hv1, zip_ones_map xs (fun a b => a * b), zip_ones_right xs ys hlen (fun a b => a * b)]
  simp only [mul_one, List.map_id', hN, if_false]
  rw [hN1]
  simp only [hN1', if_false]
  rw [zip_ones_map xs (fun x w => w * ((x - xs.sum / (xs.length : ℝ)) * (x - xs.sum / (xs.length : ℝ)))),
    zip_ones_right xs ys hlen (fun y w => w * ((y - ys.sum / (xs.length : ℝ)) * (y - ys.sum / (xs.length : ℝ)))),
    zip_zip_ones_map xs ys (fun x y w => w * ((x - xs.sum / (xs.length : ℝ)) * (y - ys.sum / (xs.length : ℝ))))]
  simp only [one_mul]

/-- the diagonal of the covariance is the square of the `N − 1` standard deviation (normal distribution; for the
lognormal case apply it to the logarithms, which is what `covFn` passes) -/
theorem cov_diag_is_var (xs ys : List ℝ) (hlen : xs.length = ys.length) (h2 : 2 ≤ xs.length) (a b c s : ℝ)
    (hcov : cov2 xs ys none = some (a, b, c))
    (hstd : nanstdW .normal (xs.map some) none .nist = some s) : a = s ^ 2 := by
  rw [cov_unweighted_eq xs ys hlen h2] at hcov
  simp only [Option.some.injEq, Prod.mk.injEq] at hcov
  rw [nanstdW_unweighted .normal _ (by rw [somes_map_some]; exact h2), somes_map_some] at hstd
  simp only [pre_normal, List.map_id', Option.some.injEq] at hstd
  rw [← hstd, ← hcov.1, Real.sq_sqrt]
  · congr 2
    apply List.map_congr_left
    intro x _
    ring
  · apply div_nonneg
    · apply List.sum_nonneg
      intro y hy
      simp only [List.mem_map] at hy
      obtain ⟨x, _, rfl⟩ := hy
      positivity
    · have : (2 : ℝ) ≤ (xs.length : ℝ) := by exact_mod_cast h2
      linarith

/-- the (transformed) pairs of the windows that have a peak -/
noncomputable def peakPairs (s : HvTrad ℝ) (d : Dist) : List (ℝ × ℝ) :=
  (List.zip s.peakFreqs s.peakAmps).filterMap (fun p => p.1.bind (fun f => p.2.map (fun a => (d.pre f, d.pre a))))

/-- **Windows without a peak never enter the covariance**: `covFn` pairs only the windows whose peak exists, after
the transformation of the chosen distribution. -/
theorem cov_pairs_only (s : HvTrad ℝ) (d : Dist) :
    s.covFn d = cov2 ((peakPairs s d).map (·.1)) ((peakPairs s d).map (·.2)) none := by
  unfold HvTrad.covFn peakPairs
  simp only
  congr 2 <;>
  · apply List.filterMap_congr
    intro p _
    obtain ⟨p1, p2⟩ := p
    cases p1 <;> cases p2 <;> rfl

/-- together: the covariance of the resonance is the `N − 1` sample covariance of the accepted windows that have a
peak (`N ≥ 2` of them) -/
theorem covFn_is_sample_cov (s : HvTrad ℝ) (d : Dist) (h2 : 2 ≤ (peakPairs s d).length) :
    s.covFn d =
      let xs := (peakPairs s d).map (·.1)
      let ys := (peakPairs s d).map (·.2)
      let N : ℝ := xs.length
      let mx := xs.sum / N
      let my := ys.sum / N
      some ((xs.map (fun x => (x - mx) * (x - mx))).sum / (N - 1),
            ((List.zip xs ys).map (fun p => (p.1 - mx) * (p.2 - my))).sum / (N - 1),
            (ys.map (fun y => (y - my) * (y - my))).sum / (N - 1)) := by
  rw [cov_pairs_only, cov_unweighted_eq _ _ (by simp) (by simpa using h2)]

end HV.C05
