import HvsrVerif.Props.C01Methods
/-!
# C01 (continued) — closed form for proportional components under RotDpp

`hvsr_proportional_rotdpp`: with `ns = A·s`, `ew = B·s`, `vt = C·s` every value of the RotDpp curve is the
`p`-th percentile over the azimuths of `|A cos a + B sin a|` (the single-azimuth closed forms) divided by `|C|`,
for every smoothing operator whose smoothed spectrum of `s` is positive at the centre frequencies (for Savitzky–Golay
a negative smoothed value reverses the order of the azimuth column, and the value returned is the `(100 − p)`-th
percentile; the hypothesis `hpos` excludes exactly that case — see `rotdpp_negative_column` for the counterexample shape).
-/
namespace HV.C01
open HV Classical

/-- if every entry that `f` accepts maps to the same value `c`, an accepted `mapM` consists of `c`s -/
theorem mapM_all_eq {β : Type} (f : β → Except String ℝ) (c : ℝ) :
    ∀ (l : List β) (row : List ℝ), (∀ p ∈ l, ∀ q, f p = .ok q → q = c) → List.mapM f l = .ok row → ∀ q ∈ row, q = c
  | [], row, _, h => by
    simp at h; cases h; simp
  | x :: xs, row, hall, h => by
    rw [mapM_cons_except] at h
    cases hx : f x with
    | error e => rw [hx] at h; cases h
    | ok y =>
      rw [hx] at h
      cases hxs : List.mapM f xs with
      | error e => rw [hxs] at h; cases h
      | ok ys =>
        rw [hxs] at h
        injection h with h
        subst h
        intro q hq
        rcases List.mem_cons.mp hq with rfl | hq
        · exact hall x (List.mem_cons_self) _ hx
        · exact mapM_all_eq f c xs ys (fun p hp => hall p (List.mem_cons_of_mem _ hp)) hxs q hq

/-- column `j` of the rows `k · SX` (one row per `k`) is `SX[j] · ks` -/
theorem column_of_scaled (ks SX : List ℝ) (j : ℕ) (y : ℝ) (hy : SX[j]? = some y) :
    (ks.map (fun k => SX.map (k * ·))).filterMap (fun r => r[j]?) = ks.map (y * ·) := by
  induction ks with
  | nil => rfl
  | cons k ks ih =>
    simp only [List.map_cons, List.filterMap_cons, List.getElem?_map, hy, Option.map_some]
    rw [ih, mul_comm]

/-- **Proportional components, RotDpp.** -/
theorem hvsr_proportional_rotdpp (pct : ℝ) (azs : List ℝ) (cfg : ProcCfg ℝ) (n : ℕ) (dt deg : ℝ) (s : List ℝ) (A B C : ℝ)
    (hC : C ≠ 0) (row : List ℝ)
    (h : hvsrRow (.rotdpp pct azs) cfg n
      { dt := dt, deg := deg, ns := s.map (A * ·), ew := s.map (B * ·), vt := s.map (C * ·) } = .ok row)
    (SX : List ℝ) (hSX : smoothRows cfg n dt [ampSpec (taper cfg.width s) n] = .ok [SX]) (hpos : ∀ y ∈ SX, 0 < y) :
    ∀ q ∈ row, q =
      percentile (azs.map (fun az => |A * Real.cos (radians (az - deg)) + B * Real.sin (radians (az - deg))|)) pct / |C| := by
  unfold hvsrRow at h
  simp only [singleAzSeries_proportional, taper_homog, ampSpec_homog] at h
  unfold smoothRows at h hSX
  rcases smoothByName_rowwise cfg.op cfg.bw (rfftfreq n dt) cfg.fcs with ⟨e, he⟩ | ⟨S, hS, hlin⟩
  · rw [he] at hSX; cases hSX
  · rw [hS] at hSX
    simp only [List.map_cons, List.map_nil] at hSX
    injection hSX with hSX
    have hSX' : S (ampSpec (taper cfg.width s) n) = SX := by
      injection hSX
    simp only [hS, List.map_append, List.map_map, List.map_cons, List.map_nil, hlin, hSX',
      List.getLastD_concat, List.dropLast_concat] at h
    have hrows : ∀ K : ℝ → ℝ,
        List.map (S ∘ fun az => List.map (fun x => K az * x) (ampSpec (taper cfg.width s) n)) azs =
          (azs.map K).map (fun k => SX.map (k * ·)) := by
      intro K
      rw [List.map_map]
      apply List.map_congr_left
      intro az _
      simp only [Function.comp, hlin, hSX']
    rw [hrows (fun az => |A * Real.cos (radians (az - deg)) + B * Real.sin (radians (az - deg))|)] at h
    generalize hks : azs.map (fun az => |A * Real.cos (radians (az - deg)) + B * Real.sin (radians (az - deg))|) = ks at h ⊢
    have hcols : columnsOf (ks.map (fun k => SX.map (k * ·))) cfg.fcs.length =
        (List.range cfg.fcs.length).map (fun j => (ks.map (fun k => SX.map (k * ·))).filterMap (fun r => r[j]?)) := rfl
    rw [ratioRow_eq] at h
    refine mapM_all_eq ratio1 _ _ row ?_ h
    rintro ⟨x, y⟩ hp q hq
    obtain ⟨j, hj⟩ := List.mem_iff_getElem?.mp hp
    rw [List.getElem?_zip_eq_some] at hj
    obtain ⟨hx, hy⟩ := hj
    rw [List.getElem?_map] at hy
    cases hsx : SX[j]? with
    | none => rw [hsx] at hy; cases hy
    | some yj =>
      rw [hsx] at hy
      simp only [Option.map_some, Option.some.injEq] at hy
      have hyj : 0 < yj := hpos yj (List.mem_of_getElem? hsx)
      rw [hcols, List.getElem?_map, List.getElem?_map] at hx
      cases hr : (List.range cfg.fcs.length)[j]? with
      | none => rw [hr] at hx; cases hx
      | some j' =>
        have hjj : j' = j := by
          rcases List.getElem?_eq_some_iff.mp hr with ⟨hlt, hv⟩
          simpa using hv.symm
        subst hjj
        rw [hr] at hx
        simp only [Option.map_some, Option.some.injEq] at hx
        have hcol := column_of_scaled ks SX j' yj hsx
        rw [hcol, percentile_scale yj hyj] at hx
        rw [ratio1_spec] at hq
        subst hx hy
        have hne : |C| * yj ≠ 0 := mul_ne_zero (abs_ne_zero.mpr hC) hyj.ne'
        simp only [hne, if_false] at hq
        have hval : yj * percentile ks pct / (|C| * yj) = percentile ks pct / |C| := by
          field_simp
        rw [hval] at hq
        split at hq
        · cases hq
        · injection hq with hq; exact hq.symm

end HV.C01
