import HvsrVerif.Proofs.DFTInverse
import HvsrVerif.Props.C17
/-!
# C17 (continued) — removing a flat instrument response returns the analytically expected series

`flat_response_closed_form`: for an even FFT length `n = 2h ≥ len(x)` (every length the code chooses by itself is a
power of two) and a flat response `S ≠ 0`, `rfft → zero the DC bin, divide by S → irfft → crop` returns exactly
`(x_j − (Σx)/n) / S`: the series with its (zero-padded) mean removed, divided by the sensitivity. The proof is Fourier
inversion from the half spectrum (`Proofs/DFTInverse.lean`, from root-of-unity orthogonality), i.e. it also shows that
`irfftAt` inverts `rfft`.
-/
namespace HV.C17
open HV Classical Finset

theorem list_range_map_sum (m : ℕ) (f : ℕ → ℝ) : ((List.range m).map f).sum = ∑ i ∈ Finset.range m, f i := by
  induction m with
  | zero => simp
  | succ m ih => rw [List.range_succ, List.map_append, List.sum_append, ih, Finset.sum_range_succ]; simp

theorem zipRange_map_getD {β γ : Type} (l : List β) (g : ℕ × β → γ) (k : ℕ) (hk : k < l.length) (d : γ) :
    ((List.zip (List.range l.length) l).map g).getD k d = g (k, l[k]) := by
  have h1 : k < ((List.zip (List.range l.length) l).map g).length := by simp [hk]
  rw [List.getD_eq_getElem?_getD, List.getElem?_eq_getElem h1]
  simp

theorem rfft_getElem (x : List ℝ) (n k : ℕ) (hlen : x.length ≤ n) (hk : k < (rfft x n).length) :
    (rfft x n)[k] = (dftRe x n k, dftIm x n k) := by
  unfold rfft
  simp [List.take_of_length_le hlen]

theorem rfft_length (x : List ℝ) (n : ℕ) : (rfft x n).length = n / 2 + 1 := by
  unfold rfft; simp

theorem T_zero (x : List ℝ) (n j : ℕ) (hn : n ≠ 0) : T x n 0 j = x.sum := by
  unfold T
  rw [dftRe_sum x n 0 hn]
  simp only [Nat.zero_mul, Nat.cast_zero, mul_zero, zero_div, Real.cos_zero, Real.sin_zero, mul_one, sub_zero]
  have := zip_range_sum x (fun _ v => v)
  show ∑ i ∈ Finset.range x.length, x.getD i 0 = x.sum
  rw [← this]
  congr 1
  clear this
  induction x with
  | nil => rfl
  | cons a t ih =>
    rw [List.length_cons, List.range_succ_eq_map, List.zip_cons_cons, List.map_cons, List.zip_map_left, List.map_map]
    congr 1

theorem T_nyquist (x : List ℝ) (h j : ℕ) (hh : 1 ≤ h) :
    T x (2 * h) h j = dftRe x (2 * h) h * Real.cos (2 * Real.pi * ((h * j : ℕ) : ℝ) / ((2 * h : ℕ) : ℝ)) := by
  unfold T
  have hh' : (h : ℝ) ≠ 0 := by
    have : h ≠ 0 := by omega
    exact_mod_cast this
  have : Real.sin (2 * Real.pi * ((h * j : ℕ) : ℝ) / ((2 * h : ℕ) : ℝ)) = 0 := by
    have e : 2 * Real.pi * ((h * j : ℕ) : ℝ) / ((2 * h : ℕ) : ℝ) = j * Real.pi := by
      push_cast; field_simp
    rw [e, Real.sin_nat_mul_pi]
  rw [this]; ring

/-- the value of `irfftAt` on a half spectrum that is `g₀·X₀, g·X_k (k ≥ 1)` -/
theorem flat_response_at (x : List ℝ) (h : ℕ) (hh : 1 ≤ h) (hlen : x.length ≤ 2 * h) (S : ℝ) (hS : S ≠ 0)
    (j : ℕ) (hj : j < 2 * h) :
    irfftAt ((List.zip (List.range (rfft x (2 * h)).length) (rfft x (2 * h))).map (fun p : ℕ × (ℝ × ℝ) =>
        if p.1 = 0 then ((Arith.ofNat 0 : ℝ), (Arith.ofNat 0 : ℝ)) else (p.2.1 / S, p.2.2 / S))) (2 * h) j
      = (padR x j - x.sum / ((2 * h : ℕ) : ℝ)) / S := by
  have hn : 2 * h ≠ 0 := by omega
  have hn' : ((2 * h : ℕ) : ℝ) ≠ 0 := by exact_mod_cast hn
  have hXlen : (rfft x (2 * h)).length = h + 1 := by rw [rfft_length]; omega
  have key := half_inversion x h hh hlen j hj
  rw [T_zero x (2 * h) j hn, T_nyquist x h j hh] at key
  unfold irfftAt
  have hmod : 2 * h % 2 = 0 := by omega
  have hhalf : 2 * h / 2 = h := by omega
  simp only [hmod, hhalf, if_true, true_and, show 0 < 2 * h by omega]
  -- the three parts
  have hdc : ((List.zip (List.range (rfft x (2 * h)).length) (rfft x (2 * h))).map (fun p : ℕ × (ℝ × ℝ) =>
        if p.1 = 0 then ((Arith.ofNat 0 : ℝ), (Arith.ofNat 0 : ℝ)) else (p.2.1 / S, p.2.2 / S))).getD 0
        ((Arith.ofNat 0 : ℝ), (Arith.ofNat 0 : ℝ)) = (0, 0) := by
    rw [zipRange_map_getD _ _ 0 (by rw [hXlen]; omega)]
    simp
  have hk : ∀ k, 1 ≤ k → k ≤ h →
      ((List.zip (List.range (rfft x (2 * h)).length) (rfft x (2 * h))).map (fun p : ℕ × (ℝ × ℝ) =>
        if p.1 = 0 then ((Arith.ofNat 0 : ℝ), (Arith.ofNat 0 : ℝ)) else (p.2.1 / S, p.2.2 / S))).getD k
        ((Arith.ofNat 0 : ℝ), (Arith.ofNat 0 : ℝ)) = (dftRe x (2 * h) k / S, dftIm x (2 * h) k / S) := by
    intro k h1 h2
    rw [zipRange_map_getD _ _ k (by rw [hXlen]; omega), rfft_getElem x (2 * h) k hlen (by rw [hXlen]; omega)]
    have : k ≠ 0 := by omega
    simp [this]
  rw [hdc, hk h hh le_rfl, sumA_real, list_range_map_sum]
  have hmid : ∑ i ∈ Finset.range (h - 1),
      (Arith.ofNat 2 : ℝ) * ((((List.zip (List.range (rfft x (2 * h)).length) (rfft x (2 * h))).map (fun p : ℕ × (ℝ × ℝ) =>
        if p.1 = 0 then ((Arith.ofNat 0 : ℝ), (Arith.ofNat 0 : ℝ)) else (p.2.1 / S, p.2.2 / S))).getD (i + 1)
        ((Arith.ofNat 0 : ℝ), (Arith.ofNat 0 : ℝ))).1 * Transc.cos (dftAngle (2 * h) j (i + 1) : ℝ)
        - (((List.zip (List.range (rfft x (2 * h)).length) (rfft x (2 * h))).map (fun p : ℕ × (ℝ × ℝ) =>
        if p.1 = 0 then ((Arith.ofNat 0 : ℝ), (Arith.ofNat 0 : ℝ)) else (p.2.1 / S, p.2.2 / S))).getD (i + 1)
        ((Arith.ofNat 0 : ℝ), (Arith.ofNat 0 : ℝ))).2 * Transc.sin (dftAngle (2 * h) j (i + 1) : ℝ))
      = (2 / S) * ∑ k ∈ Finset.Ico 1 h, T x (2 * h) k j := by
    rw [Finset.sum_Ico_eq_sum_range, Finset.mul_sum]
    apply Finset.sum_congr rfl
    intro i hi
    rw [Finset.mem_range] at hi
    rw [hk (i + 1) (by omega) (by omega)]
    simp only [ofNat_real, cos_real, sin_real, Nat.cast_ofNat]
    rw [cos_dftAngle (2 * h) j (i + 1) hn, sin_dftAngle (2 * h) j (i + 1) hn]
    unfold T
    rw [Nat.mul_comm j (i + 1), Nat.add_comm 1 i]
    field_simp
  rw [hmid]
  simp only [ofNat_real, cos_real]
  rw [cos_dftAngle (2 * h) j h hn, Nat.mul_comm j h]
  have key' : 2 * ∑ k ∈ Finset.Ico 1 h, T x (2 * h) k j
      = ((2 * h : ℕ) : ℝ) * padR x j - x.sum - dftRe x (2 * h) h * Real.cos (2 * Real.pi * ((h * j : ℕ) : ℝ) / ((2 * h : ℕ) : ℝ)) := by
    linarith
  field_simp
  linear_combination key'

/-- **Flat instrument response.** Removing a flat response `S` returns the series with the mean (over the padded
length) removed, divided by the sensitivity. -/
theorem flat_response_closed_form (x : List ℝ) (h : ℕ) (hh : 1 ≤ h) (hlen : x.length ≤ 2 * h) (S : ℝ) (hS : S ≠ 0) :
    removeFlatResponse x (2 * h) S = flatResponseClosed x (2 * h) S := by
  unfold removeFlatResponse flatResponseClosed
  apply List.ext_getElem
  · simp
  · intro j h1 h2
    simp only [List.length_map, List.length_range] at h1
    simp only [List.getElem_map, List.getElem_range]
    rw [flat_response_at x h hh hlen S hS j (by omega)]
    have hx : padR x j = x[j] := by
      unfold padR; rw [List.getD_eq_getElem?_getD, List.getElem?_eq_getElem h1]; rfl
    rw [hx]
    simp only [sumA_real, ofNat_real]

end HV.C17
