import HvsrVerif.Proofs.DFTInverseOdd
import HvsrVerif.Props.C17Deriv
/-!
# C17 (continued) — the PSD preprocessing transforms for an ODD FFT length `n = 2h + 1`

`C17Inv`/`C17Deriv` treat the even lengths `n = 2h` (every length the code chooses by itself is a power of two); a caller
may however pass any `n ≥ len(x)`. For an odd length there is no Nyquist bin: `rfft` returns the bins `0 … h`, and
`irfft` sums the DC bin and twice the real part of every bin `1 … h` (`irfftAt`, branch `n % 2 ≠ 0`).
* `flat_response_closed_form_odd`: removing a flat response `S ≠ 0` returns exactly `(x_j − (Σx)/n) / S`;
* `interpolantOdd_interpolates`: the band-limited interpolant `p(t) = (X₀ + 2 Σ_{1≤k≤h} Re(X_k e^{2πi f_k t})) / n`,
  `f_k = k/(n·dt)`, passes through the samples with NO correction term, `p(j·dt) = x_j`;
* `differentiate_is_derivative_odd`: sample `j` of `differentiate x n dt` is the derivative of `p` at `t = j·dt`
  (here nothing is dropped: for odd `n` the returned series is the exact derivative of the full interpolant).
The inversion lemma is `half_inversion_odd` (`Proofs/DFTInverseOdd.lean`).
-/
namespace HV.C17
open HV Classical Finset

/-! ## flat instrument response -/

/-- the value of `irfftAt` (odd length) on the half spectrum `0, X_k / S (k ≥ 1)` -/
theorem flat_response_at_odd (x : List ℝ) (h : ℕ) (hlen : x.length ≤ 2 * h + 1) (S : ℝ) (hS : S ≠ 0)
    (j : ℕ) (hj : j < 2 * h + 1) :
    irfftAt ((List.zip (List.range (rfft x (2 * h + 1)).length) (rfft x (2 * h + 1))).map (fun p : ℕ × (ℝ × ℝ) =>
        if p.1 = 0 then ((Arith.ofNat 0 : ℝ), (Arith.ofNat 0 : ℝ)) else (p.2.1 / S, p.2.2 / S))) (2 * h + 1) j
      = (padR x j - x.sum / ((2 * h + 1 : ℕ) : ℝ)) / S := by
  have hn : 2 * h + 1 ≠ 0 := by omega
  have hn' : ((2 * h + 1 : ℕ) : ℝ) ≠ 0 := by exact_mod_cast hn
  have hXlen : (rfft x (2 * h + 1)).length = h + 1 := by rw [rfft_length]; omega
  have key := half_inversion_odd_mul x h hlen j hj
  rw [T_zero x (2 * h + 1) j hn] at key
  unfold irfftAt
  have hmod : (2 * h + 1) % 2 = 1 := by omega
  have hhalf : (2 * h + 1) / 2 = h := by omega
  simp only [hmod, hhalf, one_ne_zero, if_false, false_and]
  have hdc : ((List.zip (List.range (rfft x (2 * h + 1)).length) (rfft x (2 * h + 1))).map (fun p : ℕ × (ℝ × ℝ) =>
        if p.1 = 0 then ((Arith.ofNat 0 : ℝ), (Arith.ofNat 0 : ℝ)) else (p.2.1 / S, p.2.2 / S))).getD 0
        ((Arith.ofNat 0 : ℝ), (Arith.ofNat 0 : ℝ)) = (0, 0) := by
    rw [zipRange_map_getD _ _ 0 (by rw [hXlen]; omega)]
    simp
  have hk : ∀ k, 1 ≤ k → k ≤ h →
      ((List.zip (List.range (rfft x (2 * h + 1)).length) (rfft x (2 * h + 1))).map (fun p : ℕ × (ℝ × ℝ) =>
        if p.1 = 0 then ((Arith.ofNat 0 : ℝ), (Arith.ofNat 0 : ℝ)) else (p.2.1 / S, p.2.2 / S))).getD k
        ((Arith.ofNat 0 : ℝ), (Arith.ofNat 0 : ℝ)) = (dftRe x (2 * h + 1) k / S, dftIm x (2 * h + 1) k / S) := by
    intro k h1 h2
    rw [zipRange_map_getD _ _ k (by rw [hXlen]; omega), rfft_getElem x (2 * h + 1) k hlen (by rw [hXlen]; omega)]
    have : k ≠ 0 := by omega
    simp [this]
  rw [hdc, sumA_real, list_range_map_sum]
  have hmid : ∑ i ∈ Finset.range h,
      (Arith.ofNat 2 : ℝ) * ((((List.zip (List.range (rfft x (2 * h + 1)).length) (rfft x (2 * h + 1))).map
        (fun p : ℕ × (ℝ × ℝ) =>
        if p.1 = 0 then ((Arith.ofNat 0 : ℝ), (Arith.ofNat 0 : ℝ)) else (p.2.1 / S, p.2.2 / S))).getD (i + 1)
        ((Arith.ofNat 0 : ℝ), (Arith.ofNat 0 : ℝ))).1 * Transc.cos (dftAngle (2 * h + 1) j (i + 1) : ℝ)
        - (((List.zip (List.range (rfft x (2 * h + 1)).length) (rfft x (2 * h + 1))).map (fun p : ℕ × (ℝ × ℝ) =>
        if p.1 = 0 then ((Arith.ofNat 0 : ℝ), (Arith.ofNat 0 : ℝ)) else (p.2.1 / S, p.2.2 / S))).getD (i + 1)
        ((Arith.ofNat 0 : ℝ), (Arith.ofNat 0 : ℝ))).2 * Transc.sin (dftAngle (2 * h + 1) j (i + 1) : ℝ))
      = (2 / S) * ∑ k ∈ Finset.Ico 1 (h + 1), T x (2 * h + 1) k j := by
    rw [Finset.sum_Ico_eq_sum_range, Finset.mul_sum, Nat.add_sub_cancel]
    apply Finset.sum_congr rfl
    intro i hi
    rw [Finset.mem_range] at hi
    rw [hk (i + 1) (by omega) (by omega)]
    simp only [ofNat_real, cos_real, sin_real, Nat.cast_ofNat]
    rw [cos_dftAngle (2 * h + 1) j (i + 1) hn, sin_dftAngle (2 * h + 1) j (i + 1) hn]
    unfold T
    rw [Nat.mul_comm j (i + 1), Nat.add_comm 1 i]
    field_simp
  rw [hmid]
  simp only [ofNat_real, Nat.cast_zero, add_zero, zero_add]
  have key' : 2 * ∑ k ∈ Finset.Ico 1 (h + 1), T x (2 * h + 1) k j
      = ((2 * h + 1 : ℕ) : ℝ) * padR x j - x.sum := by
    linarith
  field_simp
  linear_combination key'

/-- **Flat instrument response, odd FFT length.** Removing a flat response `S` returns the series with the mean (over
the padded length `n = 2h + 1`) removed, divided by the sensitivity. -/
theorem flat_response_closed_form_odd (x : List ℝ) (h : ℕ) (hlen : x.length ≤ 2 * h + 1) (S : ℝ) (hS : S ≠ 0) :
    removeFlatResponse x (2 * h + 1) S = flatResponseClosed x (2 * h + 1) S := by
  unfold removeFlatResponse flatResponseClosed
  apply List.ext_getElem
  · simp
  · intro j h1 h2
    simp only [List.length_map, List.length_range] at h1
    simp only [List.getElem_map, List.getElem_range]
    rw [flat_response_at_odd x h hlen S hS j (by omega)]
    have hx : padR x j = x[j] := by
      unfold padR; rw [List.getD_eq_getElem?_getD, List.getElem?_eq_getElem h1]; rfl
    rw [hx]
    simp only [sumA_real, ofNat_real]

/-! ## spectral derivative -/

/-- the band-limited interpolant for an odd length `n = 2h + 1`: all bins `1 … h`, no Nyquist term -/
noncomputable def interpolantOdd (x : List ℝ) (h : ℕ) (dt : ℝ) (t : ℝ) : ℝ :=
  (dftRe x (2 * h + 1) 0 + ∑ k ∈ Finset.Ico 1 (h + 1),
    2 * (dftRe x (2 * h + 1) k * Real.cos (omega (2 * h + 1) dt k * t)
      - dftIm x (2 * h + 1) k * Real.sin (omega (2 * h + 1) dt k * t)))
    / ((2 * h + 1 : ℕ) : ℝ)

/-- the exact derivative of the odd-length interpolant -/
noncomputable def interpolantOddDeriv (x : List ℝ) (h : ℕ) (dt : ℝ) (t : ℝ) : ℝ :=
  (∑ k ∈ Finset.Ico 1 (h + 1),
    2 * (dftRe x (2 * h + 1) k * (-(Real.sin (omega (2 * h + 1) dt k * t) * omega (2 * h + 1) dt k))
      - dftIm x (2 * h + 1) k * (Real.cos (omega (2 * h + 1) dt k * t) * omega (2 * h + 1) dt k)))
    / ((2 * h + 1 : ℕ) : ℝ)

theorem interpolantOdd_hasDerivAt (x : List ℝ) (h : ℕ) (dt t : ℝ) :
    HasDerivAt (interpolantOdd x h dt) (interpolantOddDeriv x h dt t) t := by
  unfold interpolantOdd interpolantOddDeriv
  apply HasDerivAt.div_const
  have hsum : HasDerivAt (fun t => ∑ k ∈ Finset.Ico 1 (h + 1),
      2 * (dftRe x (2 * h + 1) k * Real.cos (omega (2 * h + 1) dt k * t)
        - dftIm x (2 * h + 1) k * Real.sin (omega (2 * h + 1) dt k * t)))
      (∑ k ∈ Finset.Ico 1 (h + 1),
        2 * (dftRe x (2 * h + 1) k * (-(Real.sin (omega (2 * h + 1) dt k * t) * omega (2 * h + 1) dt k))
          - dftIm x (2 * h + 1) k * (Real.cos (omega (2 * h + 1) dt k * t) * omega (2 * h + 1) dt k))) t := by
    apply HasDerivAt.fun_sum
    intro k _
    have hlin : HasDerivAt (fun t => omega (2 * h + 1) dt k * t) (omega (2 * h + 1) dt k) t := by
      simpa using (hasDerivAt_id t).const_mul (omega (2 * h + 1) dt k)
    have hd := ((hlin.cos.const_mul (dftRe x (2 * h + 1) k)).sub
      (hlin.sin.const_mul (dftIm x (2 * h + 1) k))).const_mul 2
    simp only [Pi.sub_apply] at hd
    exact hd.congr_deriv (by ring)
  have := hsum.const_add (dftRe x (2 * h + 1) 0)
  simpa using this

theorem omega_at_sample_odd (h : ℕ) (dt : ℝ) (hdt : dt ≠ 0) (k j : ℕ) :
    omega (2 * h + 1) dt k * ((j : ℝ) * dt) = 2 * Real.pi * ((k * j : ℕ) : ℝ) / ((2 * h + 1 : ℕ) : ℝ) := by
  unfold omega
  have : ((2 * h + 1 : ℕ) : ℝ) ≠ 0 := by
    have : 2 * h + 1 ≠ 0 := by omega
    exact_mod_cast this
  push_cast at this ⊢
  field_simp

/-- the odd-length interpolant passes through the samples (no Nyquist correction) -/
theorem interpolantOdd_interpolates (x : List ℝ) (h : ℕ) (hlen : x.length ≤ 2 * h + 1) (dt : ℝ) (hdt : dt ≠ 0)
    (j : ℕ) (hj : j < 2 * h + 1) :
    interpolantOdd x h dt ((j : ℝ) * dt) = padR x j := by
  rw [half_inversion_odd x h hlen j hj]
  unfold interpolantOdd
  have e : ∑ k ∈ Finset.Ico 1 (h + 1), 2 * (dftRe x (2 * h + 1) k * Real.cos (omega (2 * h + 1) dt k * ((j : ℝ) * dt))
        - dftIm x (2 * h + 1) k * Real.sin (omega (2 * h + 1) dt k * ((j : ℝ) * dt)))
      = 2 * ∑ k ∈ Finset.Ico 1 (h + 1), T x (2 * h + 1) k j := by
    rw [Finset.mul_sum]
    apply Finset.sum_congr rfl
    intro k _
    rw [omega_at_sample_odd h dt hdt k j]
    rfl
  have e0 : T x (2 * h + 1) 0 j = dftRe x (2 * h + 1) 0 := by
    unfold T; simp
  rw [e, ← e0]

/-- **Differentiation returns the spectral derivative, odd FFT length**: sample `j` of the returned series is the
derivative, at `t = j·dt`, of the band-limited interpolant of the (zero-padded) input — which for an odd length is the
full trigonometric interpolant through all `n` samples (`interpolantOdd_interpolates`). -/
theorem differentiate_is_derivative_odd (x : List ℝ) (h : ℕ) (hlen : x.length ≤ 2 * h + 1) (dt : ℝ) (hdt : dt ≠ 0)
    (j : ℕ) (hj : j < x.length) :
    (differentiate x (2 * h + 1) dt)[j]? = some (interpolantOddDeriv x h dt ((j : ℝ) * dt)) ∧
    HasDerivAt (interpolantOdd x h dt) (interpolantOddDeriv x h dt ((j : ℝ) * dt)) ((j : ℝ) * dt) ∧
    interpolantOdd x h dt ((j : ℝ) * dt) = x[j] := by
  refine ⟨?_, interpolantOdd_hasDerivAt x h dt _, ?_⟩
  · have hn : 2 * h + 1 ≠ 0 := by omega
    have hn' : ((2 * h + 1 : ℕ) : ℝ) ≠ 0 := by exact_mod_cast hn
    have hXlen : (rfft x (2 * h + 1)).length = h + 1 := by rw [rfft_length]; omega
    unfold differentiate
    simp only [List.getElem?_map, List.getElem?_range hj, Option.map_some, Option.some.injEq]
    unfold irfftAt
    have hmod : (2 * h + 1) % 2 = 1 := by omega
    have hhalf : (2 * h + 1) / 2 = h := by omega
    simp only [hmod, hhalf, one_ne_zero, if_false, false_and]
    have hk : ∀ k, k ≤ h →
        ((List.zip (List.range (rfft x (2 * h + 1)).length) (rfft x (2 * h + 1))).map (fun p : ℕ × (ℝ × ℝ) =>
          (-((Arith.ofNat 2 : ℝ) * Transc.pi * ((Arith.ofNat p.1 : ℝ) / ((Arith.ofNat (2 * h + 1) : ℝ) * dt)) * p.2.2),
            (Arith.ofNat 2 : ℝ) * Transc.pi * ((Arith.ofNat p.1 : ℝ) / ((Arith.ofNat (2 * h + 1) : ℝ) * dt))
              * p.2.1))).getD k
          ((Arith.ofNat 0 : ℝ), (Arith.ofNat 0 : ℝ))
        = (-(omega (2 * h + 1) dt k * dftIm x (2 * h + 1) k), omega (2 * h + 1) dt k * dftRe x (2 * h + 1) k) := by
      intro k h2
      rw [zipRange_map_getD _ _ k (by rw [hXlen]; omega), rfft_getElem x (2 * h + 1) k hlen (by rw [hXlen]; omega)]
      simp only [ofNat_real, pi_real, Nat.cast_ofNat]
      unfold omega
      push_cast
      rfl
    rw [hk 0 (by omega), sumA_real, list_range_map_sum]
    have hmid : ∑ i ∈ Finset.range h,
        (Arith.ofNat 2 : ℝ) * ((((List.zip (List.range (rfft x (2 * h + 1)).length) (rfft x (2 * h + 1))).map
          (fun p : ℕ × (ℝ × ℝ) =>
          (-((Arith.ofNat 2 : ℝ) * Transc.pi * ((Arith.ofNat p.1 : ℝ) / ((Arith.ofNat (2 * h + 1) : ℝ) * dt)) * p.2.2),
            (Arith.ofNat 2 : ℝ) * Transc.pi * ((Arith.ofNat p.1 : ℝ) / ((Arith.ofNat (2 * h + 1) : ℝ) * dt))
              * p.2.1))).getD (i + 1)
          ((Arith.ofNat 0 : ℝ), (Arith.ofNat 0 : ℝ))).1 * Transc.cos (dftAngle (2 * h + 1) j (i + 1) : ℝ)
          - (((List.zip (List.range (rfft x (2 * h + 1)).length) (rfft x (2 * h + 1))).map (fun p : ℕ × (ℝ × ℝ) =>
          (-((Arith.ofNat 2 : ℝ) * Transc.pi * ((Arith.ofNat p.1 : ℝ) / ((Arith.ofNat (2 * h + 1) : ℝ) * dt)) * p.2.2),
            (Arith.ofNat 2 : ℝ) * Transc.pi * ((Arith.ofNat p.1 : ℝ) / ((Arith.ofNat (2 * h + 1) : ℝ) * dt))
              * p.2.1))).getD (i + 1)
          ((Arith.ofNat 0 : ℝ), (Arith.ofNat 0 : ℝ))).2 * Transc.sin (dftAngle (2 * h + 1) j (i + 1) : ℝ))
        = ∑ k ∈ Finset.Ico 1 (h + 1),
          2 * (dftRe x (2 * h + 1) k * (-(Real.sin (omega (2 * h + 1) dt k * ((j : ℝ) * dt)) * omega (2 * h + 1) dt k))
            - dftIm x (2 * h + 1) k * (Real.cos (omega (2 * h + 1) dt k * ((j : ℝ) * dt)) * omega (2 * h + 1) dt k)) := by
      rw [Finset.sum_Ico_eq_sum_range, Nat.add_sub_cancel]
      apply Finset.sum_congr rfl
      intro i hi
      rw [Finset.mem_range] at hi
      rw [hk (i + 1) (by omega)]
      simp only [ofNat_real, cos_real, sin_real, Nat.cast_ofNat]
      rw [cos_dftAngle (2 * h + 1) j (i + 1) hn, sin_dftAngle (2 * h + 1) j (i + 1) hn, Nat.add_comm 1 i,
        omega_at_sample_odd h dt hdt (i + 1) j, Nat.mul_comm j (i + 1)]
      ring
    rw [hmid]
    unfold interpolantOddDeriv
    have h0 : omega (2 * h + 1) dt 0 = 0 := by unfold omega; simp
    rw [h0]
    simp only [ofNat_real]
    ring
  · rw [interpolantOdd_interpolates x h hlen dt hdt j (by omega)]
    unfold padR
    rw [List.getD_eq_getElem?_getD, List.getElem?_eq_getElem hj]
    rfl

/-! ## non-vacuity: the hypotheses are satisfiable on concrete data (`n = 3`, `n = 5 > len`, and the degenerate `n = 1`) -/

example : removeFlatResponse [(1 : ℝ), 2, 4] 3 2 = flatResponseClosed [(1 : ℝ), 2, 4] 3 2 :=
  flat_response_closed_form_odd [1, 2, 4] 1 (by simp) 2 (by norm_num)

example : removeFlatResponse [(1 : ℝ), 2, 4] 5 (-3) = flatResponseClosed [(1 : ℝ), 2, 4] 5 (-3) :=
  flat_response_closed_form_odd [1, 2, 4] 2 (by simp) (-3) (by norm_num)

example : removeFlatResponse [(7 : ℝ)] 1 2 = [0] := by
  rw [flat_response_closed_form_odd [7] 0 (by simp) 2 (by norm_num)]
  simp [flatResponseClosed, sumA_real, ofNat_real]

example : (differentiate [(1 : ℝ), 2, 4] 3 (1 / 100))[1]?
    = some (interpolantOddDeriv [1, 2, 4] 1 (1 / 100) (((1 : ℕ) : ℝ) * (1 / 100))) :=
  (differentiate_is_derivative_odd [1, 2, 4] 1 (by simp) (1 / 100) (by norm_num) 1 (by simp)).1

example : interpolantOdd [(1 : ℝ), 2, 4] 1 (1 / 100) (((2 : ℕ) : ℝ) * (1 / 100)) = 4 :=
  (differentiate_is_derivative_odd [1, 2, 4] 1 (by simp) (1 / 100) (by norm_num) 2 (by simp)).2.2

end HV.C17
