import HvsrVerif.Proofs.ListLemmas
import Mathlib.Tactic.NormNum
import Mathlib.Tactic.Positivity
/-!
# C16 — SESAME reliability and clarity verdicts match the 2004 guideline

Property theorems only. The model (`Model/Sesame.lean`) mirrors `hvsrpy/sesame.py`;
the statements below are written from the guideline text.
-/
namespace HV.C16
open HV Classical

/-- Table of the guideline (threshold values for σ_f and σ_A), band edges included:
`f0 < 0.2 : (0.25, 3.0)`, `[0.2,0.5) : (0.20, 2.5)`, `[0.5,1) : (0.15, 2.0)`,
`[1,2) : (0.10, 1.78)`, `≥ 2 : (0.05, 1.58)`. -/
theorem threshold_table (f0 : ℝ) :
    thresholdBand f0 =
      if f0 < 0.2 then (0.25, 3.0) else if f0 < 0.5 then (0.20, 2.5)
      else if f0 < 1 then (0.15, 2.0) else if f0 < 2 then (0.10, 1.78) else (0.05, 1.58) := by
  unfold thresholdBand sesameBands sesameLastBand
  simp only [bandLookup, lit_real]
  norm_num

/-- the band edges themselves belong to the upper band (`<` is strict) -/
theorem threshold_edges :
    thresholdBand (0.2 : ℝ) = (0.20, 2.5) ∧ thresholdBand (0.5 : ℝ) = (0.15, 2.0) ∧
    thresholdBand (1 : ℝ) = (0.10, 1.78) ∧ thresholdBand (2 : ℝ) = (0.05, 1.58) := by
  refine ⟨?_, ?_, ?_, ?_⟩ <;> rw [threshold_table] <;> norm_num

/-- `σ_A(f) = exp(log A + σ)/A` is `exp σ` (the lognormal standard-deviation factor) for `A > 0` -/
theorem sigmaA_eq_exp (m s : ℝ) (hm : 0 < m) : sigmaA m s = Real.exp s := by
  unfold sigmaA
  simp only [exp_real, log_real]
  rw [Real.exp_add, Real.exp_log hm]
  field_simp

/-- Reliability criteria of the guideline evaluated at the peak `f0` of the (trimmed) mean curve. -/
structure RelSpec (lw nw f0 : ℝ) (freq mc sd : List ℝ) (c : List Bool) : Prop where
  len : c.length = 3
  /-- i) f0 > 10 / lw -/
  i : c[0]? = some true ↔ f0 > 10 / lw
  /-- ii) nc = lw · nw · f0 > 200 -/
  ii : c[1]? = some true ↔ lw * nw * f0 > 200
  /-- iii) σ_A(f) < 2 for 0.5 f0 < f < 2 f0 when f0 > 0.5 Hz, < 3 otherwise -/
  iii : c[2]? = some true ↔
    ∀ fms ∈ List.zip freq (List.zip mc sd), 0.5 * f0 < fms.1 ∧ fms.1 < 2 * f0 →
      sigmaA fms.2.1 fms.2.2 < (if f0 > 0.5 then 2 else 3)

theorem reliability_eq_spec (lw nw : ℝ) (freq mc sd : List ℝ) (r : Option ℝ × Option ℝ) (c : List Bool)
    (h : reliability lw nw freq mc sd r = .ok c) :
    ∃ freq' mc' sd' pi f0, sesameTrim freq mc sd r = some (freq', mc', sd') ∧
      peakIndex mc' = some pi ∧ freq'[pi]? = some f0 ∧ RelSpec lw nw f0 freq' mc' sd' c := by
  unfold reliability at h
  split at h
  · cases h
  · rename_i freq' mc' sd' htrim
    split at h
    · cases h
    · rename_i pi hpi
      split at h
      · cases h
      · rename_i f0 hf0
        simp only at h
        split at h
        · cases h
        · rename_i smax hmax
          refine ⟨freq', mc', sd', pi, f0, htrim, hpi, hf0, ?_⟩
          injection h with h
          subst h
          constructor
          · simp
          · simp [sesameConsts]
          · simp [sesameConsts]
          · have key := fun t => maxL_lt_iff hmax t
            simp only [List.getElem?_cons_succ, List.getElem?_cons_zero, Option.some.injEq]
            rw [apply_ite (fun b : Bool => b = true)]
            simp only [decide_eq_true_eq, key]
            simp only [sesameConsts, lit_real]
            by_cases hsplit : f0 > 0.5
            · have h5 : ((5:ℕ):ℝ) / 10 ^ 1 < f0 := by norm_num at hsplit ⊢; linarith
              simp only [hsplit, h5, if_true]
              simp only [List.mem_filterMap]
              constructor
              · intro H fms hmem hband
                apply lt_of_lt_of_le (H _ ⟨fms, hmem, ?_⟩) (by norm_num)
                obtain ⟨f, m, s⟩ := fms
                simp only
                rw [if_pos]
                norm_num at hband ⊢
                exact hband
              · rintro H y ⟨⟨f, m, s⟩, hmem, hy⟩
                simp only at hy
                split at hy
                · rename_i hb
                  cases hy
                  have := H (f, m, s) hmem (by norm_num at hb ⊢; exact hb)
                  norm_num at this ⊢
                  exact this
                · cases hy
            · have h5 : ¬ ((5:ℕ):ℝ) / 10 ^ 1 < f0 := by norm_num at hsplit ⊢; linarith
              simp only [hsplit, h5, if_false]
              simp only [List.mem_filterMap]
              constructor
              · intro H fms hmem hband
                apply lt_of_lt_of_le (H _ ⟨fms, hmem, ?_⟩) (by norm_num)
                obtain ⟨f, m, s⟩ := fms
                simp only
                rw [if_pos]
                norm_num at hband ⊢
                exact hband
              · rintro H y ⟨⟨f, m, s⟩, hmem, hy⟩
                simp only at hy
                split at hy
                · rename_i hb
                  cases hy
                  have := H (f, m, s) hmem (by norm_num at hb ⊢; exact hb)
                  norm_num at this ⊢
                  exact this
                · cases hy


/-- Clarity criteria of the guideline at the peak `(f0, a0)` of the (trimmed) mean curve; `fp`, `fm`
are the peak frequencies of the curves `A·exp(±σ)`; `(ε, θ)` come from the threshold table. -/
structure ClaSpec (f0 a0 s0 fnStd fp fm : ℝ) (freq mc : List ℝ) (c : List Bool) : Prop where
  len : c.length = 6
  /-- i) ∃ f⁻ ∈ (f0/4, f0) with A(f⁻) < A0/2 -/
  i : c[0]? = some true ↔ ∃ x ∈ List.zip freq mc, x.1 < f0 ∧ f0 / 4 < x.1 ∧ x.2 < a0 / 2
  /-- ii) ∃ f⁺ ∈ (f0, 4 f0) with A(f⁺) < A0/2 -/
  ii : c[1]? = some true ↔ ∃ x ∈ List.zip freq mc, f0 < x.1 ∧ x.1 < 4 * f0 ∧ x.2 < a0 / 2
  /-- iii) A0 > 2 -/
  iii : c[2]? = some true ↔ a0 > 2
  /-- iv) the peaks of the ±σ curves lie within ±5 % of f0 -/
  iv : c[3]? = some true ↔ (f0 * 0.95 < fp ∧ fp < f0 * 1.05) ∧ (f0 * 0.95 < fm ∧ fm < f0 * 1.05)
  /-- v) σ_f < ε(f0) · f0 -/
  v : c[4]? = some true ↔ fnStd < (thresholdBand f0).1 * f0
  /-- vi) σ_A(f0) < θ(f0) -/
  vi : c[5]? = some true ↔ sigmaA a0 s0 < (thresholdBand f0).2

theorem clarity_eq_spec (freq mc sd : List ℝ) (fnStd : ℝ) (r : Option ℝ × Option ℝ) (c : List Bool)
    (h : clarity freq mc sd fnStd r = .ok c) :
    ∃ freq' mc' sd' pi f0 a0 s0 iu il fp fm, sesameTrim freq mc sd r = some (freq', mc', sd') ∧
      peakIndex mc' = some pi ∧ freq'[pi]? = some f0 ∧ mc'[pi]? = some a0 ∧ sd'[pi]? = some s0 ∧
      peakIndex ((List.zip mc' sd').map (fun ms => Real.exp (Real.log ms.1 + ms.2))) = some iu ∧
      peakIndex ((List.zip mc' sd').map (fun ms => Real.exp (Real.log ms.1 - ms.2))) = some il ∧
      freq'[iu]? = some fp ∧ freq'[il]? = some fm ∧
      ClaSpec f0 a0 s0 fnStd fp fm freq' mc' c := by
  unfold clarity at h
  split at h
  · cases h
  · rename_i freq' mc' sd' htrim
    split at h
    · cases h
    · rename_i pi hpi
      split at h
      · rename_i f0 a0 s0 hf0 ha0 hs0
        simp only at h
        split at h
        · rename_i iu il hiu hil
          split at h
          · rename_i fp fm hfp hfm
            refine ⟨freq', mc', sd', pi, f0, a0, s0, iu, il, fp, fm, htrim, hpi, hf0, ha0, hs0, ?_, ?_, hfp, hfm, ?_⟩
            · simpa using hiu
            · simpa using hil
            · injection h with h
              subst h
              constructor
              · simp
              · simp only [List.getElem?_cons_zero, Option.some.injEq, List.any_eq_true, Bool.and_eq_true,
                  decide_eq_true_eq]
                simp only [sesameConsts, lit_real]
                norm_num
                constructor
                · rintro ⟨a, b, hm, ⟨h1, h2⟩, h3⟩; exact ⟨a, b, hm, h1, h2, h3⟩
                · rintro ⟨a, b, hm, h1, h2, h3⟩; exact ⟨a, b, hm, ⟨h1, h2⟩, h3⟩
              · simp only [List.getElem?_cons_succ, List.getElem?_cons_zero, Option.some.injEq, List.any_eq_true,
                  Bool.and_eq_true, decide_eq_true_eq]
                simp only [sesameConsts, lit_real]
                norm_num
                constructor
                · rintro ⟨a, b, hm, ⟨h1, h2⟩, h3⟩; exact ⟨a, b, hm, h1, h2, h3⟩
                · rintro ⟨a, b, hm, h1, h2, h3⟩; exact ⟨a, b, hm, ⟨h1, h2⟩, h3⟩
              · simp only [List.getElem?_cons_succ, List.getElem?_cons_zero, Option.some.injEq, decide_eq_true_eq]
                simp only [sesameConsts, lit_real]
                norm_num
              · simp only [List.getElem?_cons_succ, List.getElem?_cons_zero, Option.some.injEq,
                  Bool.and_eq_true, decide_eq_true_eq]
                simp only [sesameConsts, lit_real]
                norm_num
              · simp only [List.getElem?_cons_succ, List.getElem?_cons_zero, Option.some.injEq, decide_eq_true_eq]
              · simp only [List.getElem?_cons_succ, List.getElem?_cons_zero, Option.some.injEq, decide_eq_true_eq]
          · cases h
        · cases h
      · cases h

/-- Criterion ii is monotone: more or longer windows never turn a pass into a fail. -/
theorem critII_mono (lw nw lw' nw' : ℝ) (freq mc sd : List ℝ) (r : Option ℝ × Option ℝ) (c c' : List Bool)
    (hlw : 0 ≤ lw) (hnw : 0 ≤ nw) (h1 : lw ≤ lw') (h2 : nw ≤ nw') (hf : ∀ f ∈ freq, 0 ≤ f)
    (h : reliability lw nw freq mc sd r = .ok c) (h' : reliability lw' nw' freq mc sd r = .ok c') :
    c[1]? = some true → c'[1]? = some true := by
  obtain ⟨fr, m, s, pi, f0, ht, hp, hf0, sp⟩ := reliability_eq_spec _ _ _ _ _ _ _ h
  obtain ⟨fr', m', s', pi', f0', ht', hp', hf0', sp'⟩ := reliability_eq_spec _ _ _ _ _ _ _ h'
  rw [ht] at ht'
  injection ht' with e
  injection e with e1 e2
  injection e2 with e2 e3
  subst e1 e2 e3
  rw [hp] at hp'
  injection hp' with e
  subst e
  rw [hf0] at hf0'
  injection hf0' with e
  subst e
  rw [sp.ii, sp'.ii]
  intro hgt
  have hf0nn : 0 ≤ f0 := by
    have hmem : f0 ∈ fr := List.mem_of_getElem? hf0
    -- the trimmed frequencies are a slice of the original ones
    have hsub : ∀ x ∈ fr, x ∈ freq := by
      intro x hx
      unfold sesameTrim at ht
      split at ht
      · injection ht with e; injection e with e1 _; subst e1; exact hx
      · split at ht
        · simp only [Option.some.injEq, Prod.mk.injEq] at ht
          obtain ⟨e1, _, _⟩ := ht
          subst e1
          unfold pySlice at hx
          exact List.mem_of_mem_take (List.mem_of_mem_drop hx)
        · cases ht
    exact hf _ (hsub _ hmem)
  have : lw * nw * f0 ≤ lw' * nw' * f0 := by
    apply mul_le_mul_of_nonneg_right _ hf0nn
    exact mul_le_mul h1 h2 hnw (le_trans hlw h1)
  linarith

/-- Criterion v is monotone: a smaller standard deviation of fn never turns a pass into a fail. -/
theorem critV_mono (freq mc sd : List ℝ) (σ σ' : ℝ) (r : Option ℝ × Option ℝ) (c c' : List Bool)
    (hσ : σ' ≤ σ)
    (h : clarity freq mc sd σ r = .ok c) (h' : clarity freq mc sd σ' r = .ok c') :
    c[4]? = some true → c'[4]? = some true := by
  obtain ⟨fr, m, s, pi, f0, a0, s0, iu, il, fp, fm, ht, hp, hf0, _, _, _, _, _, _, sp⟩ := clarity_eq_spec _ _ _ _ _ _ h
  obtain ⟨fr', m', s', pi', f0', a0', s0', iu', il', fp', fm', ht', hp', hf0', _, _, _, _, _, _, sp'⟩ :=
    clarity_eq_spec _ _ _ _ _ _ h'
  rw [ht] at ht'
  injection ht' with e
  injection e with e1 e2
  injection e2 with e2 e3
  subst e1 e2 e3
  rw [hp] at hp'
  injection hp' with e
  subst e
  rw [hf0] at hf0'
  injection hf0' with e
  subst e
  rw [sp.v, sp'.v]
  intro hlt
  linarith

/-! ### Non-vacuity: concrete curves on which the hypotheses hold and every branch is taken -/

/-- a curve with one interior peak at index 2 (f0 = 1 Hz) -/
example : peakIndex ([1, 2, 5, 2, 1] : List Rat) = some 2 := by decide
example : peakIndex ([1, 3, 3, 3, 1] : List Rat) = some 2 := by decide
example : peakIndex ([1, 2, 3, 4, 5] : List Rat) = none := by decide
example : thresholdBand (1.5 : ℝ) = (0.10, 1.78) := by rw [threshold_table]; norm_num

end HV.C16
