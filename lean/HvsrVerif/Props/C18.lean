import HvsrVerif.Proofs.Rec
/-!
# C18 — Recordings persist exactly; copies are independent; trim keeps the right samples

Model: `Model/Rec.lean` (recording state machine `step`/`run`, `toDict/fromDict`, location model
`Heap`) and `Model/Split.lean` (`trimIdx`, `trim`). Theorems over `ℝ`; the Butterworth filter,
the taper and scipy's detrend are an ARBITRARY length-preserving `f` inside `Op.xform`.
-/
namespace HV.C18
open HV HV.Split HV.RecM Classical

/-! ## persistence -/

/-- what every recording built by the constructor satisfies, and every operation preserves -/
structure Inv (r : Rec ℝ) : Prop where
  len_ew : r.ns.length = r.ew.length
  len_vt : r.ns.length = r.vt.length
  deg_lo : 0 ≤ r.deg
  deg_hi : r.deg < 360
  md_wf : MetaWF r.md

/-- operations whose payload is well-formed: transformers keep the number of samples,
assigned arrays have one common length -/
def ValidOp : Op ℝ → Prop
  | .xform _ _ f => ∀ l, (f l).length = l.length
  | .setSamples a b c => a.length = b.length ∧ a.length = c.length
  | _ => True

theorem mkRec_ok (ns ew vt : List ℝ) (dt deg : ℝ) (md : Dict ℝ) (r : Rec ℝ)
    (h : mkRec ns ew vt dt deg md = .ok r) :
    ns.length = ew.length ∧ ns.length = vt.length ∧
    r = { ns := ns, ew := ew, vt := vt, dt := dt, deg := degNorm deg,
          md := dictMerge (defaultMeta (degNorm deg)) md } := by
  unfold mkRec at h
  split at h
  · cases h
  · rename_i hl
    injection h with h
    rw [not_or, not_not, not_not] at hl
    exact ⟨hl.1, hl.2, h.symm⟩

/-- the constructor establishes the invariant (whatever orientation and meta it is given) -/
theorem mkRec_inv (ns ew vt : List ℝ) (dt deg : ℝ) (md : Dict ℝ) (r : Rec ℝ)
    (h : mkRec ns ew vt dt deg md = .ok r) : Inv r := by
  obtain ⟨h1, h2, rfl⟩ := mkRec_ok ns ew vt dt deg md r h
  exact ⟨h1, h2, (degNorm_range deg).1, (degNorm_range deg).2,
    metaWF_dictMerge _ _ (metaWF_default _ _ _)⟩

/-- the constructor applied to the fields of a valid recording gives that recording back
(`from_seismic_recording_3c` is an exact copy) -/
theorem mkRec_self (r : Rec ℝ) (h : Inv r) : mkRec r.ns r.ew r.vt r.dt r.deg r.md = .ok r := by
  unfold mkRec
  rw [if_neg (by rw [not_or, not_not, not_not]; exact ⟨h.len_ew, h.len_vt⟩)]
  rw [degNorm_id r.deg h.deg_lo h.deg_hi]
  unfold defaultMeta
  dsimp only
  rw [dictMerge_default_id _ _ _ r.md h.md_wf]

theorem saveLoad_eq_mkRec (r : Rec ℝ) : saveLoad r = mkRec r.ns r.ew r.vt r.dt r.deg r.md := by
  simp only [saveLoad, toDict, fromDict, dictGet_cons, String.reduceEq, ↓reduceIte, Option.bind,
    asNum, asNumList, asObj, mapM_asNum]

/-- a valid recording is a fixed point of save → load -/
theorem load_save_fixed (r : Rec ℝ) (h : Inv r) : saveLoad r = .ok r := by
  rw [saveLoad_eq_mkRec]; exact mkRec_self r h

theorem slice_length {β : Type} (xs : List β) (a b : Nat) :
    (slice xs a b).length = min (b - a) (xs.length - a) := by
  unfold slice; rw [List.length_take, List.length_drop]

theorem trim_length_eq {β : Type} (xs ys a b : List β) (dt t0 t1 : ℝ) (hl : xs.length = ys.length)
    (ha : trim xs dt t0 t1 = .ok a) (hb : trim ys dt t0 t1 = .ok b) : a.length = b.length := by
  unfold trim at ha hb
  rw [← hl] at hb
  cases hti : trimIdx xs.length dt t0 t1 with
  | error e => rw [hti] at ha; cases ha
  | ok p =>
    obtain ⟨s, e⟩ := p
    rw [hti] at ha hb
    injection ha with ha
    injection hb with hb
    rw [← ha, ← hb, slice_length, slice_length, hl]

/-- every operation preserves the invariant -/
theorem step_inv (op : Op ℝ) (r : Rec ℝ) (h : Inv r) (hv : ValidOp op) : Inv (step op r).1 := by
  cases op with
  | trim t0 t1 =>
    simp only [step]
    have hwf := metaWF_dictSet r.md "trim" (.arr [.num t0, .num t1]) h.md_wf
    split
    · rename_i a b c ha hb hc
      exact ⟨trim_length_eq _ _ _ _ _ _ _ h.len_ew ha hb, trim_length_eq _ _ _ _ _ _ _ h.len_vt ha hc,
        h.deg_lo, h.deg_hi, hwf⟩
    all_goals exact ⟨h.len_ew, h.len_vt, h.deg_lo, h.deg_hi, hwf⟩
  | xform key val f =>
    simp only [step]
    have hf : ∀ l, (f l).length = l.length := hv
    exact ⟨by simp only [hf]; exact h.len_ew, by simp only [hf]; exact h.len_vt, h.deg_lo, h.deg_hi,
      metaWF_dictSet _ _ _ h.md_wf⟩
  | setSamples a b c =>
    simp only [step]
    have hv' : a.length = b.length ∧ a.length = c.length := hv
    exact ⟨hv'.1, hv'.2, h.deg_lo, h.deg_hi, h.md_wf⟩
  | orient d =>
    simp only [step]
    refine ⟨?_, ?_, (degNorm_range d).1, (degNorm_range d).2, metaWF_dictSet _ _ _ h.md_wf⟩
    · simp
    · simp only [List.length_map, List.length_zip]
      have := h.len_ew; have := h.len_vt
      omega
  | split L j =>
    simp only [step]
    have hwf := metaWF_dictSet r.md "split" (.num L) h.md_wf
    have hr1 : Inv { r with md := dictSet r.md "split" (.num L) } :=
      ⟨h.len_ew, h.len_vt, h.deg_lo, h.deg_hi, hwf⟩
    split
    · exact hr1
    · split
      · exact hr1
      · split
        · exact hr1
        · split
          · rename_i r2 hr2
            exact mkRec_inv _ _ _ _ _ _ _ hr2
          · exact hr1
  | copy =>
    simp only [step]
    split
    · rename_i r2 hr2
      exact mkRec_inv _ _ _ _ _ _ _ hr2
    · exact h
  | saveLoad =>
    simp only [step]
    split
    · rename_i r2 hr2
      rw [saveLoad_eq_mkRec] at hr2
      exact mkRec_inv _ _ _ _ _ _ _ hr2
    · exact h

/-- the invariant holds after ANY history -/
theorem run_inv (ops : List (Op ℝ)) (r : Rec ℝ) (h : Inv r) (hv : ∀ op ∈ ops, ValidOp op) :
    Inv (run ops r) := by
  unfold run
  induction ops generalizing r with
  | nil => exact h
  | cons op ops ih =>
    rw [List.foldl_cons]
    exact ih _ (step_inv op r h (hv op List.mem_cons_self))
      (fun o ho => hv o (List.mem_cons_of_mem _ ho))

/-- **orientation stays normalised** over all histories: `0 ≤ degrees_from_north < 360` -/
theorem orientation_normalised (ns ew vt : List ℝ) (dt deg : ℝ) (md : Dict ℝ) (r0 : Rec ℝ)
    (h0 : mkRec ns ew vt dt deg md = .ok r0) (ops : List (Op ℝ)) (hv : ∀ op ∈ ops, ValidOp op) :
    0 ≤ (run ops r0).deg ∧ (run ops r0).deg < 360 :=
  let h := run_inv ops r0 (mkRec_inv _ _ _ _ _ _ _ h0) hv
  ⟨h.deg_lo, h.deg_hi⟩

/-- **load ∘ save = id after any history**: starting from any constructed recording and after any
sequence of trim / detrend / taper / filter (arbitrary `f`) / re-orientation / split / copy /
save-load / sample assignment, loading the saved recording restores every sample, the time step,
the orientation and the meta dict -/
theorem load_save_id (ns ew vt : List ℝ) (dt deg : ℝ) (md : Dict ℝ) (r0 : Rec ℝ)
    (h0 : mkRec ns ew vt dt deg md = .ok r0) (ops : List (Op ℝ)) (hv : ∀ op ∈ ops, ValidOp op) :
    ∃ r', saveLoad (run ops r0) = .ok r' ∧ r'.ns = (run ops r0).ns ∧ r'.ew = (run ops r0).ew ∧
      r'.vt = (run ops r0).vt ∧ r'.dt = (run ops r0).dt ∧ r'.deg = (run ops r0).deg ∧
      r'.md = (run ops r0).md :=
  ⟨run ops r0, load_save_fixed _ (run_inv ops r0 (mkRec_inv _ _ _ _ _ _ _ h0) hv), rfl, rfl, rfl, rfl, rfl, rfl⟩

/-- the copy constructor returns an equal recording after any history -/
theorem copy_id (r0 : Rec ℝ) (h0 : Inv r0) (ops : List (Op ℝ)) (hv : ∀ op ∈ ops, ValidOp op) :
    copyRec (run ops r0) = .ok (run ops r0) :=
  mkRec_self _ (run_inv ops r0 h0 hv)

/-- why the normalisation matters: a recording whose orientation is 400 (not normalised, as
`orient_sensor_to(400)` left it before the repair) is NOT restored — it comes back as 40 -/
theorem load_save_needs_normalised (r : Rec ℝ) (hd : r.deg = 400) (hl : r.ns.length = r.ew.length ∧ r.ns.length = r.vt.length) :
    ∃ r', saveLoad r = .ok r' ∧ r'.deg = 40 ∧ r'.deg ≠ r.deg := by
  rw [saveLoad_eq_mkRec]
  unfold mkRec
  rw [if_neg (by rw [not_or, not_not, not_not]; exact hl)]
  refine ⟨_, rfl, ?_, ?_⟩
  · simp only [hd, degNorm_real]
    have : ⌊(400 : ℝ) / 360⌋ = 1 := by
      rw [Int.floor_eq_iff]; norm_num
    rw [this]; norm_num
  · simp only [hd, degNorm_real]
    have : ⌊(400 : ℝ) / 360⌋ = 1 := by
      rw [Int.floor_eq_iff]; norm_num
    rw [this]; norm_num

/-! ## trim -/

/-- `i` is the first sample of an `n`-sample record nearest to time `t` -/
structure IsNearest (dt t : ℝ) (n i : Nat) : Prop where
  lt : i < n
  le : ∀ j, j < n → sdist dt t i ≤ sdist dt t j
  first : ∀ j, j < i → sdist dt t i < sdist dt t j

theorem argminAbs_nearest (dt t : ℝ) (n : Nat) (hn : 0 < n) : IsNearest dt t n (argminAbs dt t n) := by
  obtain ⟨h1, h2, h3⟩ := argminAbs_fold dt t n
  refine ⟨?_, h2, h3⟩
  rcases h1 with h | ⟨h, _⟩
  · exact h
  · omega

theorem trimIdx_ok {n : Nat} {dt t0 t1 : ℝ} {s e : Nat} (h : trimIdx n dt t0 t1 = .ok (s, e)) :
    0 < n ∧ 0 ≤ t0 ∧ t0 < t1 ∧ t1 ≤ ((n - 1 : Nat) : ℝ) * dt ∧
    s = argminAbs dt t0 n ∧ e = argminAbs dt t1 n := by
  unfold trimIdx at h
  split at h
  · cases h
  · rename_i hn
    split at h
    · cases h
    · rename_i h0
      split at h
      · cases h
      · rename_i h1
        split at h
        · cases h
        · rename_i h2
          injection h with h
          injection h with hs he
          simp only [ofNat_real, Nat.cast_zero, not_lt, timeAt, not_le] at h0 h1 h2
          exact ⟨by omega, h0, h1, h2, hs.symm, he.symm⟩

/-- **trim keeps the nearest samples**: the kept samples are exactly the record's samples
`s … e` where `s` is the sample nearest to `start` and `e` the sample nearest to `end`
(first one on an exact tie, as `np.argmin`) -/
theorem trim_nearest {β : Type} (xs ys : List β) (dt t0 t1 : ℝ) (h : trim xs dt t0 t1 = .ok ys) :
    ∃ s e, IsNearest dt t0 xs.length s ∧ IsNearest dt t1 xs.length e ∧
      ys = slice xs s (e + 1) ∧ ∀ i, ys[i]? = if s + i ≤ e then xs[s + i]? else none := by
  unfold trim at h
  cases hti : trimIdx xs.length dt t0 t1 with
  | error e => rw [hti] at h; cases h
  | ok p =>
    obtain ⟨s, e⟩ := p
    rw [hti] at h
    injection h with h
    obtain ⟨hn, _, _, _, hs, he⟩ := trimIdx_ok hti
    refine ⟨s, e, hs ▸ argminAbs_nearest dt t0 _ hn, he ▸ argminAbs_nearest dt t1 _ hn, h.symm, ?_⟩
    intro i
    rw [← h]
    unfold slice
    rw [List.getElem?_take, List.getElem?_drop]
    by_cases hi : s + i ≤ e
    · rw [if_pos (by omega), if_pos hi]
    · rw [if_neg (by omega), if_neg hi]

/-- with a positive time step the kept range is not empty: `s ≤ e` -/
theorem trim_ordered (dt t0 t1 : ℝ) (n s e : Nat) (hdt : 0 < dt) (ht : t0 < t1)
    (hs : IsNearest dt t0 n s) (he : IsNearest dt t1 n e) : s ≤ e := by
  by_contra hlt
  rw [not_le] at hlt
  have h1 := hs.first e hlt          -- |s dt - t0| < |e dt - t0|
  have h2 := he.le s hs.lt           -- |e dt - t1| ≤ |s dt - t1|
  unfold sdist at h1 h2
  have hpos : (e : ℝ) * dt < (s : ℝ) * dt := by
    apply mul_lt_mul_of_pos_right _ hdt
    exact_mod_cast hlt
  rcases abs_cases ((s : ℝ) * dt - t0) with ⟨e1, _⟩ | ⟨e1, _⟩ <;>
  rcases abs_cases ((e : ℝ) * dt - t0) with ⟨e2, _⟩ | ⟨e2, _⟩ <;>
  rcases abs_cases ((e : ℝ) * dt - t1) with ⟨e3, _⟩ | ⟨e3, _⟩ <;>
  rcases abs_cases ((s : ℝ) * dt - t1) with ⟨e4, _⟩ | ⟨e4, _⟩ <;>
  rw [e1, e2] at h1 <;> rw [e3, e4] at h2 <;> linarith

/-- **trim refuses** a start before the record, a start not before the end, and an end after
the last sample -/
theorem trim_refuses {β : Type} (xs : List β) (dt t0 t1 : ℝ)
    (h : t0 < 0 ∨ t1 ≤ t0 ∨ ((xs.length - 1 : Nat) : ℝ) * dt < t1) :
    trim xs dt t0 t1 = .error "index" := by
  unfold trim
  cases hti : trimIdx xs.length dt t0 t1 with
  | ok p =>
    obtain ⟨s, e⟩ := p
    obtain ⟨_, h0, h1, h2, _⟩ := trimIdx_ok hti
    rcases h with h | h | h <;> linarith
  | error er =>
    have : er = "index" := by
      unfold trimIdx at hti
      split at hti
      · injection hti with hti; exact hti.symm
      · split at hti
        · injection hti with hti; exact hti.symm
        · split at hti
          · injection hti with hti; exact hti.symm
          · split at hti
            · injection hti with hti; exact hti.symm
            · cases hti
    rw [this]

/-- and accepts every other interval of a non-empty record -/
theorem trim_accepts {β : Type} (xs : List β) (dt t0 t1 : ℝ) (hn : 0 < xs.length)
    (h0 : 0 ≤ t0) (h1 : t0 < t1) (h2 : t1 ≤ ((xs.length - 1 : Nat) : ℝ) * dt) :
    ∃ ys, trim xs dt t0 t1 = .ok ys := by
  unfold trim trimIdx
  rw [if_neg (by omega)]
  rw [if_neg (by simp only [ofNat_real, Nat.cast_zero, not_lt]; exact h0)]
  rw [if_neg (by rw [not_le]; exact h1)]
  rw [if_neg (by simp only [timeAt, ofNat_real, not_lt]; exact h2)]
  exact ⟨_, rfl⟩

/-! ## copies share no sample storage -/

variable {α : Type}

/-- arrays in different buffers never share memory -/
theorem sharesMemory_of_base_ne (a b : Arr) (h : a.base ≠ b.base) : sharesMemory a b = false := by
  unfold sharesMemory
  simp [h]

/-- **non-interference**: a write through an array in another buffer is invisible -/
theorem write_invisible (h : Heap α) (a c : Arr) (i : Nat) (v : α) (hne : a.base ≠ c.base) :
    (h.write c i v).read a = h.read a := Heap.read_write_other h a c i v hne

/-- `TimeSeries(amplitude, dt)` / `from_timeseries`: a fresh buffer with the same samples;
existing arrays read as before -/
theorem tsCopy_spec (h : Heap α) (a : Arr) :
    (tsCopy h a).2.base = h.cells.length ∧ (tsCopy h a).1.cells.length = h.cells.length + 1 ∧
    (tsCopy h a).1.read (tsCopy h a).2 = h.read a ∧
    ∀ b, h.valid b → (tsCopy h a).1.read b = h.read b := by
  unfold tsCopy
  refine ⟨rfl, by simp [Heap.alloc], Heap.read_alloc_new h _, fun b hb => Heap.read_alloc_old h _ b hb⟩

/-- **copy constructor of `TimeSeries`**: the copy is in a buffer no existing array lives in;
writes through the copy are invisible to every existing array (the source included), writes
through the source are invisible to the copy -/
theorem copies_fresh_ts (h : Heap α) (a : Arr) (src : Arr) (hv : h.valid src) :
    sharesMemory src (tsCopy h a).2 = false ∧
    (∀ i v, ((tsCopy h a).1.write (tsCopy h a).2 i v).read src = h.read src) ∧
    (∀ i v, ((tsCopy h a).1.write src i v).read (tsCopy h a).2 = h.read a) := by
  obtain ⟨hb, _, hr, hold⟩ := tsCopy_spec h a
  have hne : src.base ≠ (tsCopy h a).2.base := by rw [hb]; exact Nat.ne_of_lt hv
  refine ⟨sharesMemory_of_base_ne _ _ hne, ?_, ?_⟩
  · intro i v; rw [write_invisible _ _ _ _ _ hne, hold src hv]
  · intro i v; rw [write_invisible _ _ _ _ _ (Ne.symm hne), hr]

theorem ctor3_spec (h : Heap α) (r : Rec3Ref) (hv : h.valid r.ns ∧ h.valid r.ew ∧ h.valid r.vt) :
    (ctor3 h r).2.ns.base = h.cells.length ∧ (ctor3 h r).2.ew.base = h.cells.length + 1 ∧
    (ctor3 h r).2.vt.base = h.cells.length + 2 ∧ (ctor3 h r).1.cells.length = h.cells.length + 3 ∧
    (ctor3 h r).1.read (ctor3 h r).2.ns = h.read r.ns ∧ (ctor3 h r).1.read (ctor3 h r).2.ew = h.read r.ew ∧
    (ctor3 h r).1.read (ctor3 h r).2.vt = h.read r.vt ∧
    ∀ b, h.valid b → (ctor3 h r).1.read b = h.read b := by
  obtain ⟨a1, a2, a3, a4⟩ := tsCopy_spec h r.ns
  have hv1 : ∀ b, h.valid b → (tsCopy h r.ns).1.valid b := fun b hb => by
    unfold Heap.valid at *; omega
  obtain ⟨b1, b2, b3, b4⟩ := tsCopy_spec (tsCopy h r.ns).1 r.ew
  have hv2 : ∀ b, (tsCopy h r.ns).1.valid b → (tsCopy (tsCopy h r.ns).1 r.ew).1.valid b := fun b hb => by
    unfold Heap.valid at *; omega
  obtain ⟨c1, c2, c3, c4⟩ := tsCopy_spec (tsCopy (tsCopy h r.ns).1 r.ew).1 r.vt
  have vns : (tsCopy h r.ns).1.valid (tsCopy h r.ns).2 := by unfold Heap.valid; omega
  have vew : (tsCopy (tsCopy h r.ns).1 r.ew).1.valid (tsCopy (tsCopy h r.ns).1 r.ew).2 := by
    unfold Heap.valid; omega
  refine ⟨a1, by rw [show (ctor3 h r).2.ew = (tsCopy (tsCopy h r.ns).1 r.ew).2 from rfl, b1, a2],
    by rw [show (ctor3 h r).2.vt = (tsCopy (tsCopy (tsCopy h r.ns).1 r.ew).1 r.vt).2 from rfl, c1, b2, a2],
    by rw [show (ctor3 h r).1 = (tsCopy (tsCopy (tsCopy h r.ns).1 r.ew).1 r.vt).1 from rfl, c2, b2, a2],
    ?_, ?_, ?_, ?_⟩
  · show (tsCopy (tsCopy (tsCopy h r.ns).1 r.ew).1 r.vt).1.read (tsCopy h r.ns).2 = _
    rw [c4 _ (hv2 _ vns), b4 _ vns, a3]
  · show (tsCopy (tsCopy (tsCopy h r.ns).1 r.ew).1 r.vt).1.read (tsCopy (tsCopy h r.ns).1 r.ew).2 = _
    rw [c4 _ vew, b3, a4 _ hv.2.1]
  · show (tsCopy (tsCopy (tsCopy h r.ns).1 r.ew).1 r.vt).1.read (tsCopy (tsCopy (tsCopy h r.ns).1 r.ew).1 r.vt).2 = _
    rw [c3, b4 _ (hv1 _ hv.2.2), a4 _ hv.2.2]
  · intro b hb
    show (tsCopy (tsCopy (tsCopy h r.ns).1 r.ew).1 r.vt).1.read b = _
    rw [c4 _ (hv2 _ (hv1 _ hb)), b4 _ (hv1 _ hb), a4 _ hb]

/-- the three component arrays of a recording -/
def arrs3 (r : Rec3Ref) : List Arr := [r.ns, r.ew, r.vt]

/-- **components stored by the constructor**: each stored component lives in a new buffer
holding the argument's samples; no existing array (the arguments included) shares memory with
them, and writes on either side are invisible to the other -/
theorem copies_fresh_ctor (h : Heap α) (r : Rec3Ref) (hv : h.valid r.ns ∧ h.valid r.ew ∧ h.valid r.vt)
    (src : Arr) (hs : h.valid src) :
    ∀ c ∈ arrs3 (ctor3 h r).2, sharesMemory src c = false ∧
      (∀ i v, ((ctor3 h r).1.write c i v).read src = h.read src) ∧
      (∀ i v, ((ctor3 h r).1.write src i v).read c = (ctor3 h r).1.read c) := by
  obtain ⟨b1, b2, b3, _, _, _, _, hold⟩ := ctor3_spec h r hv
  intro c hc
  have hne : src.base ≠ c.base := by
    unfold Heap.valid at hs
    simp only [arrs3, List.mem_cons, List.not_mem_nil, or_false] at hc
    rcases hc with rfl | rfl | rfl <;> omega
  refine ⟨sharesMemory_of_base_ne _ _ hne, ?_, ?_⟩
  · intro i v; rw [write_invisible _ _ _ _ _ hne, hold src hs]
  · intro i v; rw [write_invisible _ _ _ _ _ (Ne.symm hne)]

/-- **`from_seismic_recording_3c`** (component copies, then the constructor): the same freshness -/
theorem copies_fresh_copy (h : Heap α) (r : Rec3Ref) (hv : h.valid r.ns ∧ h.valid r.ew ∧ h.valid r.vt)
    (src : Arr) (hs : h.valid src) :
    (copy3 h r).1.read (copy3 h r).2.ns = h.read r.ns ∧ (copy3 h r).1.read (copy3 h r).2.ew = h.read r.ew ∧
    (copy3 h r).1.read (copy3 h r).2.vt = h.read r.vt ∧
    ∀ c ∈ arrs3 (copy3 h r).2, sharesMemory src c = false ∧
      (∀ i v, ((copy3 h r).1.write c i v).read src = h.read src) ∧
      (∀ i v, ((copy3 h r).1.write src i v).read c = (copy3 h r).1.read c) := by
  obtain ⟨b1, b2, b3, b4, r1, r2, r3, hold⟩ := ctor3_spec h r hv
  have hv' : (ctor3 h r).1.valid (ctor3 h r).2.ns ∧ (ctor3 h r).1.valid (ctor3 h r).2.ew ∧
      (ctor3 h r).1.valid (ctor3 h r).2.vt := by
    unfold Heap.valid; omega
  have hs' : (ctor3 h r).1.valid src := by unfold Heap.valid at *; omega
  have e : copy3 h r = ctor3 (ctor3 h r).1 (ctor3 h r).2 := rfl
  obtain ⟨_, _, _, _, q1, q2, q3, hold2⟩ := ctor3_spec (ctor3 h r).1 (ctor3 h r).2 hv'
  rw [e]
  refine ⟨by rw [q1, r1], by rw [q2, r2], by rw [q3, r3], ?_⟩
  intro c hc
  obtain ⟨s1, s2, s3⟩ := copies_fresh_ctor (ctor3 h r).1 (ctor3 h r).2 hv' src hs' c hc
  refine ⟨s1, ?_, s3⟩
  intro i v
  rw [s2 i v, hold src hs]

theorem splitRefs_spec (a : Arr) (spw : Nat) (m : Nat) : ∀ (h : Heap α) (start : Nat),
    (splitRefs h a spw m start).1.cells.length = h.cells.length + m ∧
    (splitRefs h a spw m start).2.map Arr.base = List.range' h.cells.length m ∧
    ∀ b, h.valid b → (splitRefs h a spw m start).1.read b = h.read b := by
  induction m with
  | zero => intro h start; simp [splitRefs]
  | succ m ih =>
    intro h start
    obtain ⟨t1, t2, _, t4⟩ := tsCopy_spec h (Heap.view a start (start + spw))
    obtain ⟨i1, i2, i3⟩ := ih (tsCopy h (Heap.view a start (start + spw))).1 (start + spw - 1)
    have e1 : (splitRefs h a spw (m + 1) start).1
        = (splitRefs (tsCopy h (Heap.view a start (start + spw))).1 a spw m (start + spw - 1)).1 := rfl
    have e2 : (splitRefs h a spw (m + 1) start).2
        = (tsCopy h (Heap.view a start (start + spw))).2 ::
          (splitRefs (tsCopy h (Heap.view a start (start + spw))).1 a spw m (start + spw - 1)).2 := rfl
    rw [e1, e2]
    refine ⟨by rw [i1, t2]; omega, ?_, ?_⟩
    · rw [List.map_cons, i2, t1, t2, List.range'_succ]
    · intro b hb
      rw [i3 b (by unfold Heap.valid at *; omega), t4 b hb]

/-- **split windows**: every window lives in its own new buffer — it shares memory neither with
the source (or any other existing array) nor with another window; writes on either side are
invisible to the other -/
theorem copies_fresh_split (h : Heap α) (a : Arr) (spw m start : Nat) (src : Arr) (hs : h.valid src) :
    ((splitRefs h a spw m start).2.map Arr.base).Nodup ∧
    ∀ w ∈ (splitRefs h a spw m start).2, sharesMemory src w = false ∧
      (∀ i v, ((splitRefs h a spw m start).1.write w i v).read src = h.read src) ∧
      (∀ i v, ((splitRefs h a spw m start).1.write src i v).read w = (splitRefs h a spw m start).1.read w) := by
  obtain ⟨_, s2, s3⟩ := splitRefs_spec a spw m h start
  refine ⟨by rw [s2]; exact List.nodup_range', ?_⟩
  intro w hw
  have hb : w.base ∈ List.range' h.cells.length m := by
    rw [← s2]; exact List.mem_map_of_mem hw
  rw [List.mem_range'_1] at hb
  have hne : src.base ≠ w.base := by unfold Heap.valid at hs; omega
  refine ⟨sharesMemory_of_base_ne _ _ hne, ?_, ?_⟩
  · intro i v; rw [write_invisible _ _ _ _ _ hne, s3 src hs]
  · intro i v; rw [write_invisible _ _ _ _ _ (Ne.symm hne)]

/-- **copies are independent** (the four copy paths of the property in one statement): for any
existing array `src` — in particular the source's own component arrays — the `TimeSeries` copy
constructor, the components stored by the `SeismicRecording3C` constructor, `from_seismic_recording_3c`
and every `split` window share no memory with `src`; a write through the copy leaves `src` as it was,
and a write through `src` leaves the copy as it was -/
theorem copies_fresh (h : Heap α) (r : Rec3Ref) (hv : h.valid r.ns ∧ h.valid r.ew ∧ h.valid r.vt)
    (src : Arr) (hs : h.valid src) (spw m start : Nat) :
    (sharesMemory src (tsCopy h src).2 = false ∧
      (∀ i v, ((tsCopy h src).1.write (tsCopy h src).2 i v).read src = h.read src) ∧
      (∀ i v, ((tsCopy h src).1.write src i v).read (tsCopy h src).2 = h.read src)) ∧
    (∀ c ∈ arrs3 (ctor3 h r).2, sharesMemory src c = false ∧
      (∀ i v, ((ctor3 h r).1.write c i v).read src = h.read src) ∧
      (∀ i v, ((ctor3 h r).1.write src i v).read c = (ctor3 h r).1.read c)) ∧
    (∀ c ∈ arrs3 (copy3 h r).2, sharesMemory src c = false ∧
      (∀ i v, ((copy3 h r).1.write c i v).read src = h.read src) ∧
      (∀ i v, ((copy3 h r).1.write src i v).read c = (copy3 h r).1.read c)) ∧
    (∀ w ∈ (splitRefs h src spw m start).2, sharesMemory src w = false ∧
      (∀ i v, ((splitRefs h src spw m start).1.write w i v).read src = h.read src) ∧
      (∀ i v, ((splitRefs h src spw m start).1.write src i v).read w = (splitRefs h src spw m start).1.read w)) :=
  ⟨copies_fresh_ts h src src hs, copies_fresh_ctor h r hv src hs, (copies_fresh_copy h r hv src hs).2.2.2,
   (copies_fresh_split h src spw m start src hs).2⟩

/-- positive control of the location model: `trim` keeps a VIEW — the trimmed array shares
memory with the array it was cut from (so the model does not call everything fresh) -/
theorem trim_view_shares (a : Arr) (s e : Nat) (hse : s ≤ e) (he : e < a.len) :
    sharesMemory a (trimRef a s e) = true := by
  unfold sharesMemory trimRef Heap.view
  simp only [beq_self_eq_true, Bool.true_and, Bool.and_eq_true, decide_eq_true_eq]
  have h1 : min s a.len = s := by omega
  have h2 : min (e + 1) a.len = e + 1 := by omega
  rw [h1, h2]
  constructor <;> omega

/-! ## non-vacuity -/

/-- a constructed recording exists (orientation 400 is normalised to 40 by the constructor) -/
example : ∃ r0, mkRec [1, 2, 3] [4, 5, 6] [7, 8, 9] (1/2 : ℝ) 400 [("site", .str "A")] = .ok r0 ∧ Inv r0 := by
  have : ∃ r0, mkRec [1, 2, 3] [4, 5, 6] [7, 8, 9] (1/2 : ℝ) 400 [("site", .str "A")] = .ok r0 := by
    unfold mkRec; simp
  obtain ⟨r0, h⟩ := this
  exact ⟨r0, h, mkRec_inv _ _ _ _ _ _ _ h⟩

/-- valid histories exist: reverse is a length-preserving transformer -/
example : ∀ op ∈ [Op.trim (0 : ℝ) 1, Op.xform "butterworth_filter" .null List.reverse, Op.orient 400,
    Op.split 1 (some 0), Op.copy, Op.saveLoad], ValidOp op := by
  intro op h
  simp only [List.mem_cons, List.not_mem_nil, or_false] at h
  rcases h with rfl | rfl | rfl | rfl | rfl | rfl <;> simp [ValidOp]

/-- the refusals are reachable and so is an accepted trim (`dt = 1`, four samples) -/
example : trim [10, 20, 30, 40] (1 : ℝ) (-1) 2 = Except.error "index" :=
  trim_refuses _ _ _ _ (Or.inl (by norm_num))
example : trim [10, 20, 30, 40] (1 : ℝ) 1 4 = Except.error "index" :=
  trim_refuses _ _ _ _ (Or.inr (Or.inr (by norm_num)))
example : ∃ ys, trim [10, 20, 30, 40] (1 : ℝ) 1 3 = Except.ok ys :=
  trim_accepts _ _ _ _ (by simp) (by norm_num) (by norm_num) (by norm_num)
/-- the same model run on integers: samples 1…2 are kept for `[0.9·, 2.2·]`-like times (dt = 10) -/
example : trim [10, 20, 30, 40] (10 : Int) 9 22 = Except.ok [20, 30] := by decide
/-- exact tie (midpoint): the first of the two nearest samples is chosen -/
example : trim [10, 20, 30, 40] (10 : Int) 5 25 = Except.ok [10, 20, 30] := by decide
example : sharesMemory (tsCopy (⟨[[1, 2, 3]]⟩ : Heap Nat) ⟨0, 0, 3⟩).2 ⟨0, 0, 3⟩ = false := by decide
example : sharesMemory (trimRef ⟨0, 0, 3⟩ 1 2) ⟨0, 0, 3⟩ = true := by decide

end HV.C18
