import HvsrVerif.Props.C08
import HvsrVerif.Model.ObjectIO
/-!
# C12 — HVSR results survive a write/read round trip after any history

Model: `Model/ObjectIO.lean`. The reader's peak search reproduces the stored peaks because of the invariant
`C08.PeaksOk` (peaks track the range), which holds for every reachable object (`C08.peaks_track_range`).
-/
namespace HV.C12
open HV Classical

/-! ### label run-length round trip (the reader BEFORE the repair of C12-d: groups by label change alone) -/

/-- well-formed label runs: every run is non-empty and adjacent runs carry different labels -/
def WF {L : Type} : List (L × Nat) → Prop
  | [] => True
  | [(_, n)] => 0 < n
  | (a, n) :: (b, m) :: t => 0 < n ∧ a ≠ b ∧ WF ((b, m) :: t)

theorem group_replicate_append {L : Type} [DecidableEq L] (a : L) (n : Nat) (hn : 0 < n) (rest : List L)
    (hrest : ∀ b r, groupLabels rest = b :: r → b.1 ≠ a) :
    groupLabels (List.replicate n a ++ rest) = (a, n) :: groupLabels rest := by
  induction n with
  | zero => omega
  | succ k ih =>
    cases k with
    | zero =>
      simp only [List.replicate, List.cons_append, List.nil_append, groupLabels]
      cases hg : groupLabels rest with
      | nil => rfl
      | cons b r =>
        obtain ⟨b1, b2⟩ := b
        have := hrest _ _ hg
        simp only at this
        simp [Ne.symm this]
    | succ j =>
      have h := ih (by omega)
      show groupLabels (a :: (List.replicate (j+1) a ++ rest)) = _
      simp only [groupLabels, h]
      simp

/-- The OLD reader's grouping inverts the writer's labelling whenever every azimuth has at least one curve and
adjacent azimuths differ (both hypotheses are necessary -- the second one was defect C12-d; see `group_expand_numbered` for the repaired reader). -/
theorem group_expand {L : Type} [DecidableEq L] (l : List (L × Nat)) (h : WF l) : groupLabels (expandLabels l) = l := by
  induction l with
  | nil => rfl
  | cons p t ih =>
    obtain ⟨a, n⟩ := p
    cases t with
    | nil =>
      simp only [WF] at h
      simpa [expandLabels, groupLabels] using group_replicate_append a n h [] (by simp [groupLabels])
    | cons q t' =>
      obtain ⟨b, m⟩ := q
      simp only [WF] at h
      obtain ⟨hn, hab, hw⟩ := h
      have iht := ih hw
      simp only [expandLabels] at iht ⊢
      rw [group_replicate_append a n hn _ ?_, iht]
      intro c r hc
      rw [iht] at hc
      cases hc
      exact Ne.symm hab

/-- both hypotheses are needed: an empty run disappears, equal neighbours merge -/
theorem group_expand_needs_wf :
    groupLabels (expandLabels [((1 : Nat), 0), (2, 1)]) ≠ [(1, 0), (2, 1)] ∧
    groupLabels (expandLabels [((1 : Nat), 1), (1, 2)]) ≠ [(1, 1), (1, 2)] := by decide

/-! ### numbered labels (the reader after the repair of C12-d) -/

theorem groupNumbered_ne_nil {L : Type} [DecidableEq L] (x : L × Nat) (t : List (L × Nat)) : groupNumbered (x :: t) ≠ [] := by
  induction t generalizing x with
  | nil => obtain ⟨a, i⟩ := x; simp [groupNumbered]
  | cons y t ih =>
    obtain ⟨a, i⟩ := x; obtain ⟨b, j⟩ := y
    simp only [groupNumbered]
    split
    · split <;> simp
    · simp

/-- a run of `m ≥ 1` columns of one azimuth, numbered `k+1 … k+m`, in front of nothing or of a column numbered 1, is read as one group of `m` -/
theorem group_labelRun_append {L : Type} [DecidableEq L] (a : L) (m : Nat) (hm : 0 < m) (rest : List (L × Nat))
    (hrest : ∀ b j t, rest = (b, j) :: t → j = 1) :
    ∀ k, groupNumbered (labelRun a k m ++ rest) = (a, m) :: groupNumbered rest := by
  induction m with
  | zero => omega
  | succ n ih =>
    intro k
    cases n with
    | zero =>
      simp only [labelRun, List.cons_append, List.nil_append]
      cases rest with
      | nil => simp [groupNumbered]
      | cons y t =>
        obtain ⟨b, j⟩ := y
        have hj : j = 1 := hrest b j t rfl
        subst hj
        simp only [groupNumbered]
        cases hg : groupNumbered ((b, 1) :: t) with
        | nil => exact absurd hg (groupNumbered_ne_nil _ _)
        | cons c r => obtain ⟨c1, c2⟩ := c; simp
    | succ n' =>
      have h := ih (by omega) (k + 1)
      show groupNumbered ((a, k + 1) :: (labelRun a (k + 1) (n' + 1) ++ rest)) = _
      simp only [labelRun, List.cons_append] at h ⊢
      simp only [groupNumbered, h]
      simp

theorem expandNumbered_head {L : Type} (l : List (L × Nat)) (h : ∀ p ∈ l, 0 < p.2) :
    ∀ b j t, expandNumbered l = (b, j) :: t → j = 1 := by
  intro b j t e
  cases l with
  | nil => simp [expandNumbered] at e
  | cons p l' =>
    obtain ⟨a, n⟩ := p
    have hn : 0 < n := h (a, n) List.mem_cons_self
    obtain ⟨n', rfl⟩ : ∃ n', n = n' + 1 := ⟨n - 1, by omega⟩
    simp only [expandNumbered, labelRun, List.cons_append, List.cons.injEq, Prod.mk.injEq] at e
    omega

/-- **After the repair the reader's grouping inverts the writer's labelling for EVERY azimuth list** in which each azimuth has at least one curve --
equal neighbours included (no hypothesis on the labels). -/
theorem group_expand_numbered {L : Type} [DecidableEq L] (l : List (L × Nat)) (h : ∀ p ∈ l, 0 < p.2) :
    groupNumbered (expandNumbered l) = l := by
  induction l with
  | nil => rfl
  | cons p t ih =>
    obtain ⟨a, n⟩ := p
    have ht : ∀ p ∈ t, 0 < p.2 := fun p hp => h p (List.mem_cons_of_mem _ hp)
    simp only [expandNumbered]
    rw [group_labelRun_append a n (h (a, n) List.mem_cons_self) _ (expandNumbered_head t ht) 0, ih ht]

/-- the two cases the old criterion got wrong are read back correctly: equal neighbours, and equal neighbours holding one curve each -/
example : groupNumbered (expandNumbered [((15 : Nat), 3), (15, 3)]) = [(15, 3), (15, 3)] := by decide
example : groupNumbered (expandNumbered [((5 : Nat), 1), (5, 1), (5, 1), (7, 2)]) = [(5, 1), (5, 1), (5, 1), (7, 2)] := by decide
/-- an empty run still disappears: "at least one curve per azimuth" is necessary -/
theorem group_expand_numbered_needs_nonempty :
    groupNumbered (expandNumbered [((1 : Nat), 0), (2, 1)]) ≠ [(1, 0), (2, 1)] := by decide

theorem splitBy_flatMap {β : Type} (rows : List (List β)) :
    splitBy (rows.map List.length) (rows.flatMap (fun r => r)) = rows := by
  induction rows with
  | nil => rfl
  | cons r rs ih =>
    simp only [List.map_cons, List.flatMap_cons, splitBy, List.take_left', List.drop_left']
    rw [ih]

/-! ### traditional results -/

theorem updatePeaks_false_eq (r : Range ℝ) (s : HvTrad ℝ) : updatePeaks r false s = recomputePeaks r s := by
  unfold updatePeaks
  split
  · simp
  · rfl

/-- **Round trip, traditional.** For every object whose peaks are those of its stored range (every reachable
object) with well-shaped masks, reading what was written gives back the same frequencies, curves, range, peaks
and masks — hence the same value of every statistic. -/
theorem read_write_id_trad (d : Dist) (s : HvTrad ℝ) (r : Range ℝ) (hr : s.range = some r)
    (hp : s.peaks = s.rows.map (fun row => findPeakBounded s.freq row r)) :
    readTrad (writeTrad d s) = s := by
  unfold readTrad writeTrad
  simp only [hr, Option.getD_some, updatePeaks_false_eq]
  unfold recomputePeaks HvTrad.init
  simp only [recomputePeaks]
  cases s
  simp only at hr hp ⊢
  subst hr
  simp [hp]

/-- every reachable traditional object round-trips -/
theorem read_write_id_reachable (d : Dist) (freq : List ℝ) (rows : List (List ℝ)) (s : HvTrad ℝ)
    (h : C08.Reach (HvTrad.init freq rows) s) : readTrad (writeTrad d s) = s := by
  obtain ⟨⟨r, hr, hp⟩, _, _⟩ := C08.peaks_track_range freq rows s h
  exact read_write_id_trad d s r hr hp

/-- **Derived columns.** The two last columns of the file are the mean curve and its standard deviation of the
object that was written, for the distribution requested at write time. -/
theorem derived_columns_trad (d : Dist) (s : HvTrad ℝ) :
    (writeTrad d s).meanCol = s.meanCurve d ∧ (writeTrad d s).stdCol = s.stdCurve d := ⟨rfl, rfl⟩

theorem derived_columns_az {L : Type} (label : ℝ → L) (d : Dist) (s : HvAz ℝ) :
    (writeAz label d s).meanCol = s.meanCurve d ∧ (writeAz label d s).stdCol = s.stdCurve d := ⟨rfl, rfl⟩

/-! ### azimuthal results -/

/-- the object is what an `HvsrAzimuthal` can be: every azimuth holds the same frequencies and range, its peaks are
those of that range, every azimuth has at least one curve (nothing is asked of the azimuth list: after the repair of C12-d equal
neighbours are fine) -/
structure AzOk {L : Type} (label : ℝ → L) (s : HvAz ℝ) (freq : List ℝ) (r : Range ℝ) : Prop where
  len : s.azimuths.length = s.hvsrs.length
  nonempty : s.hvsrs ≠ []
  freqs : ∀ h ∈ s.hvsrs, h.freq = freq
  ranges : ∀ h ∈ s.hvsrs, h.range = some r
  peaks : ∀ h ∈ s.hvsrs, h.peaks = h.rows.map (fun row => findPeakBounded h.freq row r)
  curves : ∀ h ∈ s.hvsrs, h.rows ≠ []

theorem zip_map_fst {β γ : Type} (l : List β) (m : List γ) (h : l.length = m.length) : (List.zip l m).map (·.1) = l := by
  induction l generalizing m with
  | nil => simp
  | cons a t ih =>
    cases m with
    | nil => simp at h
    | cons b bs => simp [ih bs (by simpa using h)]

theorem zip_map_snd {β γ : Type} (l : List β) (m : List γ) (h : l.length = m.length) : (List.zip l m).map (·.2) = m := by
  induction l generalizing m with
  | nil => cases m <;> simp at h ⊢
  | cons a t ih =>
    cases m with
    | nil => simp at h
    | cons b bs => simp [ih bs (by simpa using h)]

/-- **Round trip, azimuthal**, for labels that parse back to the azimuth they were printed from. -/
theorem read_write_id_az {L : Type} [DecidableEq L] (label : ℝ → L) (parse : L → ℝ) (hlp : ∀ a, parse (label a) = a)
    (d : Dist) (s : HvAz ℝ) (freq : List ℝ) (r : Range ℝ) (ok : AzOk label s freq r) :
    readAz parse (writeAz label d s) = s := by
  obtain ⟨hlen, hne, hfreq, hrange, hpeaks, hcurves⟩ := ok
  have hwf : ∀ p ∈ (List.zip s.azimuths s.hvsrs).map (fun p => (label p.1, p.2.rows.length)), 0 < p.2 := by
    intro p hp
    obtain ⟨q, hq, rfl⟩ := List.mem_map.mp hp
    have hmem : q.2 ∈ s.hvsrs := (List.of_mem_zip hq).2
    exact List.length_pos_iff.mpr (hcurves _ hmem)
  unfold readAz writeAz
  simp only
  rw [group_expand_numbered _ hwf]
  have hcounts : (List.map (fun g : L × Nat => g.2) ((List.zip s.azimuths s.hvsrs).map (fun p => (label p.1, p.2.rows.length))))
      = s.hvsrs.map (fun h => h.rows.length) := by
    rw [List.map_map]
    have := zip_map_snd s.azimuths s.hvsrs hlen
    conv_rhs => rw [← this]
    rw [List.map_map]; rfl
  have hazs : (List.map (fun g : L × Nat => parse g.1) ((List.zip s.azimuths s.hvsrs).map (fun p => (label p.1, p.2.rows.length))))
      = s.azimuths := by
    rw [List.map_map]
    have := zip_map_fst s.azimuths s.hvsrs hlen
    conv_rhs => rw [← this]
    apply List.map_congr_left
    intro p _
    simp [hlp]
  rw [hcounts, hazs]
  have hsplit : splitBy (s.hvsrs.map (fun h => h.rows.length)) (s.hvsrs.flatMap (·.rows)) = s.hvsrs.map (·.rows) := by
    have := splitBy_flatMap (s.hvsrs.map (·.rows))
    rw [List.map_map, List.flatMap_map] at this
    exact this
  rw [hsplit]
  cases hs : s.hvsrs with
  | nil => exact absurd hs hne
  | cons h0 hrest =>
    have hf0 : h0.freq = freq := hfreq h0 (by rw [hs]; exact List.mem_cons_self)
    have hr0 : h0.range = some r := hrange h0 (by rw [hs]; exact List.mem_cons_self)
    simp only [List.head?_cons, Option.map_some, Option.getD_some, Option.bind_some, hr0, hf0]
    cases s with
    | mk hv az =>
      simp only at hs hlen hfreq hrange hpeaks ⊢
      subst hs
      congr 1
      -- every rebuilt azimuth equals the original one
      rw [List.map_map]
      apply List.ext_getElem
      · simp
      · intro i h1 h2
        simp only [List.getElem_map, List.getElem_zip, Function.comp, updatePeaks_false_eq]
        have hi : i < (h0 :: hrest).length := by simpa using h2
        have hmem : (h0 :: hrest)[i] ∈ (h0 :: hrest) := List.getElem_mem hi
        have e1 := hfreq _ hmem
        have e2 := hrange _ hmem
        have e3 := hpeaks _ hmem
        generalize (h0 :: hrest)[i] = h at e1 e2 e3
        cases h
        simp only at e1 e2 e3
        subst e1 e2
        simp [recomputePeaks, HvTrad.init, e3]

/-! ### Non-vacuity -/
example : groupLabels (expandLabels [((0 : Nat), 2), (45, 1), (90, 3)]) = [(0, 2), (45, 1), (90, 3)] := by decide
example : WF [((0 : Nat), 2), (45, 1), (90, 3)] := by simp [WF]
example : splitBy [2, 1] [10, 20, 30] = [[10, 20], [30]] := by decide

end HV.C12
