import HvsrVerif.Props.C06
import Mathlib.Algebra.BigOperators.Group.List.Basic
/-!
# C06 (continued) — the decisions do not depend on the order of the windows

`fdwra_order_independent`: presenting the windows of a (well-formed) object in any other order — rows, peaks and both
accept masks permuted together by an arbitrary permutation `idx` of `0 … n-1` — makes the algorithm perform the same
number of iterations with the same trace (means, standard deviations, mean-curve peaks, bounds) and end with exactly
the permuted masks. Proved over `ℝ` (where sums are commutative) for every distribution pair, `n`, search range and
iteration limit, refusals included.
-/
namespace HV.C06
open HV Classical

/-! ### permuting a list by an index list -/

/-- `l[idx[0]], l[idx[1]], …` (numpy fancy indexing `l[idx]`) -/
def permL {β : Type} (idx : List Nat) (l : List β) : List β := idx.filterMap (fun i => l[i]?)

theorem permL_map {β γ : Type} (f : β → γ) (idx : List Nat) (l : List β) :
    permL idx (l.map f) = (permL idx l).map f := by
  unfold permL
  rw [List.map_filterMap]
  simp only [List.getElem?_map]

theorem permL_zip {β γ : Type} (idx : List Nat) (a : List β) (b : List γ) (h : a.length = b.length) :
    permL idx (List.zip a b) = List.zip (permL idx a) (permL idx b) := by
  unfold permL
  induction idx with
  | nil => rfl
  | cons i is ih =>
    simp only [List.filterMap_cons]
    by_cases hi : i < a.length
    · have hb : i < b.length := h ▸ hi
      have e1 : (List.zip a b)[i]? = some (a[i], b[i]) := by
        rw [List.getElem?_eq_getElem (by simp [hi, hb])]; simp
      rw [e1, List.getElem?_eq_getElem hi, List.getElem?_eq_getElem hb]
      simp [ih]
    · have hb : ¬ i < b.length := h ▸ hi
      have e1 : (List.zip a b)[i]? = none := by
        rw [List.getElem?_eq_none]; simp; omega
      rw [e1, List.getElem?_eq_none (by omega), List.getElem?_eq_none (by omega)]
      simpa using ih

theorem permL_range {β : Type} (l : List β) : permL (List.range l.length) l = l := by
  unfold permL
  induction l with
  | nil => rfl
  | cons x t ih =>
    rw [List.length_cons, List.range_succ_eq_map, List.filterMap_cons]
    simp only [List.getElem?_cons_zero, List.filterMap_map]
    congr 1

theorem permL_perm {β : Type} (idx : List Nat) (l : List β) (h : idx.Perm (List.range l.length)) :
    (permL idx l).Perm l := by
  have := h.filterMap (fun i => l[i]?)
  unfold permL
  rw [show List.filterMap (fun i => l[i]?) (List.range l.length) = l from permL_range l] at this
  exact this

theorem permL_length {β : Type} (idx : List Nat) (l : List β) (h : idx.Perm (List.range l.length)) :
    (permL idx l).length = l.length := (permL_perm idx l h).length_eq

/-! ### statistics are permutation invariant -/

theorem somes_perm {β : Type} {a b : List (Option β)} (h : a.Perm b) : (somes a).Perm (somes b) :=
  h.filterMap _

theorem nanmeanW_perm (d : Dist) {a b : List (Option ℝ)} (h : a.Perm b) : nanmeanW d a none = nanmeanW d b none := by
  rw [nanmeanW_unweighted, nanmeanW_unweighted, (somes_perm h).length_eq, ((somes_perm h).map d.pre).sum_eq]

theorem nanstdW_perm (d : Dist) {a b : List (Option ℝ)} (h : a.Perm b) :
    nanstdW d a none .nist = nanstdW d b none .nist := by
  unfold nanstdW
  rw [nanmeanW_perm d h]
  cases nanmeanW d b none with
  | none => rfl
  | some m0 =>
    have hp : (somes (a.map (fun v => v.map d.pre))).Perm (somes (b.map (fun v => v.map d.pre))) :=
      somes_perm (h.map _)
    simp only [nansumProd_somes, nansumW_default, defaultWeights_somes_length, hp.length_eq]
    rw [(hp.map _).sum_eq]

/-! ### the permuted object -/

/-- the same windows presented in the order `idx` -/
def permState (idx : List Nat) (s : HvTrad ℝ) : HvTrad ℝ :=
  { s with rows := permL idx s.rows, peaks := permL idx s.peaks, vWin := permL idx s.vWin, vPeak := permL idx s.vPeak }

/-- rows, peaks and both masks describe the same `n` windows -/
structure WF (n : Nat) (s : HvTrad ℝ) : Prop where
  rows : s.rows.length = n
  peaks : s.peaks.length = n
  vWin : s.vWin.length = n
  vPeak : s.vPeak.length = n

theorem maskSel_perm {β : Type} (idx : List Nat) (l : List β) (m : List Bool) (h : l.length = m.length)
    (hidx : idx.Perm (List.range l.length)) : (maskSel (permL idx l) (permL idx m)).Perm (maskSel l m) := by
  unfold maskSel
  rw [← permL_zip idx l m h]
  apply List.Perm.filterMap
  apply permL_perm
  simpa [← h] using hidx

variable {n : Nat} {idx : List Nat}

theorem peakFreqs_perm (s : HvTrad ℝ) (hwf : WF n s) (hidx : idx.Perm (List.range n)) :
    (permState idx s).peakFreqs.Perm s.peakFreqs := by
  unfold HvTrad.peakFreqs permState
  simp only [← permL_map]
  apply maskSel_perm
  · simp [hwf.peaks, hwf.vPeak]
  · simpa [hwf.peaks] using hidx

theorem validRows_perm (s : HvTrad ℝ) (hwf : WF n s) (hidx : idx.Perm (List.range n)) :
    (permState idx s).validRows.Perm s.validRows := by
  unfold HvTrad.validRows permState
  apply maskSel_perm
  · simp [hwf.rows, hwf.vWin]
  · simpa [hwf.rows] using hidx

theorem meanFn_perm (d : Dist) (s : HvTrad ℝ) (hwf : WF n s) (hidx : idx.Perm (List.range n)) :
    (permState idx s).meanFn d = s.meanFn d := nanmeanW_perm d (peakFreqs_perm s hwf hidx)

theorem stdFn_perm (d : Dist) (s : HvTrad ℝ) (hwf : WF n s) (hidx : idx.Perm (List.range n)) :
    (permState idx s).stdFn d = s.stdFn d := nanstdW_perm d (peakFreqs_perm s hwf hidx)

theorem nthStdFn_perm (k : ℝ) (d : Dist) (s : HvTrad ℝ) (hwf : WF n s) (hidx : idx.Perm (List.range n)) :
    (permState idx s).nthStdFn k d = s.nthStdFn k d := by
  unfold HvTrad.nthStdFn
  rw [meanFn_perm d s hwf hidx, stdFn_perm d s hwf hidx]

theorem meanCurve_of_perm (d : Dist) (s t : HvTrad ℝ) (hf : t.freq = s.freq) (hp : t.validRows.Perm s.validRows) :
    t.meanCurve d = s.meanCurve d := by
  unfold HvTrad.meanCurve
  rw [hf]
  generalize t.validRows = R' at hp
  generalize s.validRows = R at hp
  have hcol : ∀ j, nanmeanW d ((column R' j).map some) none = nanmeanW d ((column R j).map some) none := by
    intro j
    apply nanmeanW_perm
    apply List.Perm.map
    unfold column
    exact hp.filterMap _
  match R, R', hp with
  | [], R', hp => have := hp.eq_nil; subst this; rfl
  | [r], R', hp => have := hp.eq_singleton; subst this; rfl
  | r1 :: r2 :: tl, [], hp => exact absurd hp.length_eq (by simp)
  | r1 :: r2 :: tl, [x], hp => exact absurd hp.length_eq (by simp)
  | r1 :: r2 :: tl, x1 :: x2 :: xl, hp =>
    simp only
    apply List.map_congr_left
    intro j _
    exact hcol j

theorem meanCurvePeak_perm (d : Dist) (s : HvTrad ℝ) (hwf : WF n s) (hidx : idx.Perm (List.range n)) :
    (permState idx s).meanCurvePeak d = s.meanCurvePeak d := by
  unfold HvTrad.meanCurvePeak
  rw [meanCurve_of_perm d s (permState idx s) rfl (validRows_perm s hwf hidx)]
  rfl

theorem fdwraKeep_perm (lo up : Option ℝ) (s : HvTrad ℝ) (hwf : WF n s) :
    fdwraKeep lo up (permState idx s) = permL idx (fdwraKeep lo up s) := by
  unfold fdwraKeep permState
  simp only
  rw [← permL_zip idx _ _ (by rw [hwf.vPeak, hwf.peaks]), permL_map]

theorem fdwraKeep_length (lo up : Option ℝ) (s : HvTrad ℝ) (hwf : WF n s) : (fdwraKeep lo up s).length = n := by
  unfold fdwraKeep
  simp [hwf.vPeak, hwf.peaks]

theorem fdwraApply_perm (lo up : Option ℝ) (s : HvTrad ℝ) (hwf : WF n s) :
    fdwraApply lo up (permState idx s) = permState idx (fdwraApply lo up s) := by
  have hk := fdwraKeep_perm (idx := idx) lo up s hwf
  have hl := fdwraKeep_length lo up s hwf
  unfold fdwraApply
  simp only [hk]
  have e : List.map (fun p : (Bool × Bool) × Bool => if p.1.1 = true then p.1.2 else p.2)
        (((permState idx s).vPeak.zip (permL idx (fdwraKeep lo up s))).zip (permState idx s).vWin)
      = permL idx (List.map (fun p : (Bool × Bool) × Bool => if p.1.1 = true then p.1.2 else p.2)
        ((s.vPeak.zip (fdwraKeep lo up s)).zip s.vWin)) := by
    show List.map _ (((permL idx s.vPeak).zip (permL idx (fdwraKeep lo up s))).zip (permL idx s.vWin)) = _
    rw [← permL_zip idx s.vPeak _ (by rw [hwf.vPeak, hl]),
      ← permL_zip idx _ s.vWin (by simp [hwf.vPeak, hl, hwf.vWin]), permL_map]
  rw [e]
  rfl

theorem fdwraApply_wf (lo up : Option ℝ) (s : HvTrad ℝ) (hwf : WF n s) : WF n (fdwraApply lo up s) := by
  have hl := fdwraKeep_length lo up s hwf
  unfold fdwraApply
  exact ⟨hwf.rows, hwf.peaks, by simp [hwf.vPeak, hl, hwf.vWin], hl⟩

/-- one iteration commutes with the permutation; the stop flag and the trace are identical -/
theorem fdwraIter_perm (p : FdwraParams ℝ) (s : HvTrad ℝ) (hwf : WF n s) (hidx : idx.Perm (List.range n)) :
    fdwraIter p (permState idx s) = (fdwraIter p s).map (fun r => (permState idx r.1, r.2.1, r.2.2)) := by
  unfold fdwraIter
  simp only [meanFn_perm _ s hwf hidx, stdFn_perm _ s hwf hidx, nthStdFn_perm _ _ s hwf hidx,
    meanCurvePeak_perm _ s hwf hidx, fdwraApply_perm _ _ s hwf]
  cases s.meanCurvePeak p.dMc with
  | error e => rfl
  | ok pk =>
    obtain ⟨mcB, ampB⟩ := pk
    simp only
    have hwf' := fdwraApply_wf (s.nthStdFn (-p.n) p.dFn) (s.nthStdFn p.n p.dFn) s hwf
    simp only [meanFn_perm _ _ hwf' hidx, stdFn_perm _ _ hwf' hidx, meanCurvePeak_perm _ _ hwf' hidx]
    cases (fdwraApply (s.nthStdFn (-p.n) p.dFn) (s.nthStdFn p.n p.dFn) s).meanCurvePeak p.dMc with
    | error e => rfl
    | ok pk2 =>
      obtain ⟨mcA, ampA⟩ := pk2
      simp only
      split <;> rfl

theorem fdwraIter_wf (p : FdwraParams ℝ) (s s' : HvTrad ℝ) (b : Bool) (tr : FdwraTrace ℝ) (hwf : WF n s)
    (h : fdwraIter p s = .ok (s', b, tr)) : WF n s' := by
  unfold fdwraIter at h
  cases h1 : s.meanCurvePeak p.dMc with
  | error e => rw [h1] at h; cases h
  | ok pk =>
    rw [h1] at h
    simp only at h
    cases h2 : (fdwraApply (s.nthStdFn (-p.n) p.dFn) (s.nthStdFn p.n p.dFn) s).meanCurvePeak p.dMc with
    | error e => rw [h2] at h; cases h
    | ok pk2 =>
      rw [h2] at h
      simp only at h
      have hwf' := fdwraApply_wf (s.nthStdFn (-p.n) p.dFn) (s.nthStdFn p.n p.dFn) s hwf
      split at h <;> (injection h with h; injection h with h _; subst h; exact hwf')

theorem fdwraLoop_perm (p : FdwraParams ℝ) (hidx : idx.Perm (List.range n)) :
    ∀ (fuel done : Nat) (s : HvTrad ℝ), WF n s →
      fdwraLoop p fuel done (permState idx s) =
        (fdwraLoop p fuel done s).map (fun r => (r.1, permState idx r.2.1, r.2.2)) := by
  intro fuel
  induction fuel with
  | zero => intro done s _; rfl
  | succ fuel ih =>
    intro done s hwf
    unfold fdwraLoop
    rw [fdwraIter_perm p s hwf hidx]
    cases hit : fdwraIter p s with
    | error e => rfl
    | ok r =>
      obtain ⟨s', stop, tr⟩ := r
      simp only [Except.map]
      cases stop with
      | true => rfl
      | false =>
        simp only [Bool.false_eq_true, if_false]
        rw [ih (done + 1) s' (fdwraIter_wf p s s' false tr hwf hit)]
        cases fdwraLoop p fuel (done + 1) s' with
        | error e => rfl
        | ok r2 => rfl

/-! ### `update_peaks_bounded` commutes with the permutation -/

theorem recomputePeaks_perm (r : Range ℝ) (s : HvTrad ℝ) (hwf : WF n s) (hidx : idx.Perm (List.range n)) :
    recomputePeaks r (permState idx s) = permState idx (recomputePeaks r s) := by
  have hall : (List.map Option.isSome (List.map (fun row => findPeakBounded s.freq row r) (permL idx s.rows))).all (fun b => !b)
      = (List.map Option.isSome (List.map (fun row => findPeakBounded s.freq row r) s.rows)).all (fun b => !b) := by
    apply List.Perm.all_eq
    apply List.Perm.map
    apply List.Perm.map
    apply permL_perm
    simpa [hwf.rows] using hidx
  unfold recomputePeaks permState
  simp only [hall]
  by_cases hc : (List.map Option.isSome (List.map (fun row => findPeakBounded s.freq row r) s.rows)).all (fun b => !b) = true
  · simp only [hc, if_true, permL_map]
  · simp only [hc, Bool.false_eq_true, if_false, permL_map]

theorem recomputePeaks_wf (r : Range ℝ) (s : HvTrad ℝ) (hrows : s.rows.length = n) : WF n (recomputePeaks r s) := by
  unfold recomputePeaks
  refine ⟨hrows, by simp [hrows], ?_, by simp [hrows]⟩
  simp only
  split <;> simp [hrows]

theorem updatePeaks_perm (r : Range ℝ) (kw : Bool) (s : HvTrad ℝ) (hwf : WF n s) (hidx : idx.Perm (List.range n)) :
    updatePeaks r kw (permState idx s) = permState idx (updatePeaks r kw s) := by
  unfold updatePeaks
  have hr : (permState idx s).range = s.range := rfl
  rw [hr]
  cases s.range with
  | none => exact recomputePeaks_perm r s hwf hidx
  | some r0 =>
    simp only
    split
    · rfl
    · exact recomputePeaks_perm r s hwf hidx

theorem updatePeaks_wf (r : Range ℝ) (kw : Bool) (s : HvTrad ℝ) (hwf : WF n s) : WF n (updatePeaks r kw s) := by
  unfold updatePeaks
  cases s.range with
  | none => exact recomputePeaks_wf r s hwf.rows
  | some r0 =>
    simp only
    split
    · exact hwf
    · exact recomputePeaks_wf r s hwf.rows

/-- **Order independence.** For a well-formed object and any permutation `idx` of its `n` windows, the rejection run on
the permuted object performs the same number of iterations, produces the same trace, refuses in the same cases, and
ends with the permuted masks: window `idx[i]` of the original is accepted iff window `i` of the permuted object is. -/
theorem fdwra_order_independent (p : FdwraParams ℝ) (s : HvTrad ℝ) (n : Nat) (hwf : WF n s) (idx : List Nat)
    (hidx : idx.Perm (List.range n)) :
    fdwraTrad p (permState idx s) = (fdwraTrad p s).map (fun r => (r.1, permState idx r.2.1, r.2.2)) := by
  unfold fdwraTrad
  rw [updatePeaks_perm p.range false s hwf hidx]
  exact fdwraLoop_perm p hidx p.maxIter 0 _ (updatePeaks_wf p.range false s hwf)

/-- the constructor produces well-formed objects (so the theorem applies to every object the library can build) -/
theorem init_wf (freq : List ℝ) (rows : List (List ℝ)) : WF rows.length (HvTrad.init freq rows) := by
  unfold HvTrad.init
  apply recomputePeaks_wf
  rfl

/-! ### Non-vacuity -/
example : permL [2, 0, 1] ['a', 'b', 'c'] = ['c', 'a', 'b'] := by decide
example : [2, 0, 1].Perm (List.range 3) := by decide

end HV.C06
