import HvsrVerif.Proofs.StatsLemmas
/-!
# C05 — Statistics are the stated estimators over exactly the accepted windows

Model: `Model/Stats.lean`, `Model/HvState.lean`.
-/
namespace HV.C05
open HV Classical

/-- normal mean = arithmetic mean of the defined values -/
theorem mean_normal_eq (vals : List ℝ) (h : vals ≠ []) :
    nanmeanW .normal (vals.map some) none = some (vals.sum / (vals.length : ℝ)) := by
  rw [nanmeanW_unweighted, somes_map_some]
  have : vals.length ≠ 0 := by simpa using h
  simp [this, Dist.postMean, pre_normal]

/-- lognormal "mean" = median = exp of the mean of the logs -/
theorem mean_lognormal_eq (vals : List ℝ) (h : vals ≠ []) :
    nanmeanW .lognormal (vals.map some) none = some (Real.exp ((vals.map Real.log).sum / (vals.length : ℝ))) := by
  rw [nanmeanW_unweighted, somes_map_some]
  have : vals.length ≠ 0 := by simpa using h
  simp only [this, if_false, Dist.postMean, exp_real, pre_lognormal]

/-- sample standard deviation with the `n − 1` denominator (normal) -/
theorem std_normal_eq (vals : List ℝ) (h : 2 ≤ vals.length) :
    nanstdW .normal (vals.map some) none .nist =
      some (Real.sqrt ((vals.map (fun x => (x - vals.sum / (vals.length : ℝ)) ^ 2)).sum / ((vals.length : ℝ) - 1))) := by
  rw [nanstdW_unweighted _ _ (by rw [somes_map_some]; exact h), somes_map_some]
  simp [pre_normal]

/-- lognormal standard deviation = sample standard deviation of the logs (`n − 1`) -/
theorem std_lognormal_eq (vals : List ℝ) (h : 2 ≤ vals.length) :
    nanstdW .lognormal (vals.map some) none .nist =
      let ls := vals.map Real.log
      some (Real.sqrt ((ls.map (fun x => (x - ls.sum / (ls.length : ℝ)) ^ 2)).sum / ((ls.length : ℝ) - 1))) := by
  rw [nanstdW_unweighted _ _ (by rw [somes_map_some]; exact h), somes_map_some]
  simp only [pre_lognormal]

/-- windows without a peak (`none`) never enter the mean -/
theorem nopeak_excluded_mean (d : Dist) (vals : List (Option ℝ)) :
    nanmeanW d vals none = nanmeanW d ((somes vals).map some) none := by
  rw [nanmeanW_unweighted, nanmeanW_unweighted, somes_map_some]

/-- windows without a peak never enter the standard deviation -/
theorem nopeak_excluded_std (d : Dist) (vals : List (Option ℝ)) (h : 2 ≤ (somes vals).length) :
    nanstdW d vals none .nist = nanstdW d ((somes vals).map some) none .nist := by
  rw [nanstdW_unweighted _ _ h, nanstdW_unweighted _ _ (by rw [somes_map_some]; exact h), somes_map_some]

/-- **Frame property.** Two objects that agree on the frequencies, the search range, the accepted curves and
the peaks of the windows with a valid peak have the same value of every statistic — whatever the rejected rows,
their peaks and the mask layout are. -/
theorem stats_frame (s t : HvTrad ℝ) (d : Dist) (n : ℝ)
    (hf : s.freq = t.freq) (hr : s.range = t.range) (hrows : s.validRows = t.validRows)
    (hpf : s.peakFreqs = t.peakFreqs) (hpa : s.peakAmps = t.peakAmps) :
    s.meanFn d = t.meanFn d ∧ s.stdFn d = t.stdFn d ∧ s.meanAmp d = t.meanAmp d ∧ s.stdAmp d = t.stdAmp d ∧
    s.meanCurve d = t.meanCurve d ∧ s.stdCurve d = t.stdCurve d ∧ s.meanCurvePeak d = t.meanCurvePeak d ∧
    s.nthStdFn n d = t.nthStdFn n d ∧ s.nthStdAmp n d = t.nthStdAmp n d ∧ s.covFn d = t.covFn d := by
  have hmc : s.meanCurve d = t.meanCurve d := by unfold HvTrad.meanCurve; rw [hrows, hf]
  refine ⟨?_, ?_, ?_, ?_, hmc, ?_, ?_, ?_, ?_, ?_⟩
  · unfold HvTrad.meanFn; rw [hpf]
  · unfold HvTrad.stdFn; rw [hpf]
  · unfold HvTrad.meanAmp; rw [hpa]
  · unfold HvTrad.stdAmp; rw [hpa]
  · unfold HvTrad.stdCurve; rw [hrows, hf]
  · unfold HvTrad.meanCurvePeak; rw [hmc, hf, hr]
  · unfold HvTrad.nthStdFn HvTrad.meanFn HvTrad.stdFn; rw [hpf]
  · unfold HvTrad.nthStdAmp HvTrad.meanAmp HvTrad.stdAmp; rw [hpa]
  · unfold HvTrad.covFn; rw [hpf, hpa]

theorem maskSel_all_true {β : Type} (l : List β) (m : List Bool) (hm : ∀ b ∈ m, b = true) (hl : m.length = l.length) :
    maskSel l m = l := by
  unfold maskSel
  induction l generalizing m with
  | nil => simp
  | cons a t ih =>
    cases m with
    | nil => simp at hl
    | cons b bs =>
      have hb : b = true := hm b List.mem_cons_self
      subst hb
      simp only [List.zip_cons_cons, List.filterMap_cons, if_true]
      rw [ih bs (fun c hc => hm c (List.mem_cons_of_mem _ hc)) (by simpa using hl)]

/-- the object built from the accepted windows alone -/
def restrict (s : HvTrad ℝ) : HvTrad ℝ :=
  { freq := s.freq, rows := maskSel s.rows s.vWin, range := s.range, peaks := maskSel s.peaks s.vPeak,
    vWin := (maskSel s.rows s.vWin).map (fun _ => true), vPeak := (maskSel s.peaks s.vPeak).map (fun _ => true) }

theorem maskSel_map {β γ : Type} (f : β → γ) (l : List β) (m : List Bool) :
    maskSel (l.map f) m = (maskSel l m).map f := by
  unfold maskSel
  induction l generalizing m with
  | nil => simp
  | cons a t ih =>
    cases m with
    | nil => simp
    | cons b bs => cases b <;> simp [ih]

/-- **Restriction.** Every statistic equals that of the object that holds the accepted windows only:
rejected windows never influence any statistic. -/
theorem stats_restrict (s : HvTrad ℝ) (d : Dist) (n : ℝ) :
    s.meanFn d = (restrict s).meanFn d ∧ s.stdFn d = (restrict s).stdFn d ∧
    s.meanAmp d = (restrict s).meanAmp d ∧ s.stdAmp d = (restrict s).stdAmp d ∧
    s.meanCurve d = (restrict s).meanCurve d ∧ s.stdCurve d = (restrict s).stdCurve d ∧
    s.meanCurvePeak d = (restrict s).meanCurvePeak d ∧
    s.nthStdFn n d = (restrict s).nthStdFn n d ∧ s.nthStdAmp n d = (restrict s).nthStdAmp n d ∧
    s.covFn d = (restrict s).covFn d := by
  apply stats_frame
  · rfl
  · rfl
  · unfold HvTrad.validRows restrict
    simp only
    exact (maskSel_all_true _ _ (by simp) (by simp)).symm
  · unfold HvTrad.peakFreqs restrict
    simp only
    rw [maskSel_map]
    exact (maskSel_all_true _ _ (by simp) (by simp)).symm
  · unfold HvTrad.peakAmps restrict
    simp only
    rw [maskSel_map]
    exact (maskSel_all_true _ _ (by simp) (by simp)).symm

/-! ### Frequency / period consistency of the lognormal statistics -/

theorem sum_map_neg (l : List ℝ) : (l.map (fun x => -x)).sum = -l.sum := by
  induction l with
  | nil => simp
  | cons a t ih => simp [ih]; ring

/-- the lognormal median of the periods `1/f` is the reciprocal of the median of `f` -/
theorem reciprocal_median (vals : List ℝ) (h : vals ≠ []) :
    nanmeanW .lognormal ((vals.map (fun v => 1 / v)).map some) none =
      (nanmeanW .lognormal (vals.map some) none).map (fun m => 1 / m) := by
  rw [mean_lognormal_eq _ h, mean_lognormal_eq _ (by simpa using h)]
  simp only [List.map_map, List.length_map, Option.map_some, Option.some.injEq]
  have : (vals.map (Real.log ∘ fun v => 1 / v)) = (vals.map Real.log).map (fun x => -x) := by
    rw [List.map_map]
    apply List.map_congr_left
    intro v hv
    simp [Function.comp, Real.log_inv]
  rw [this, sum_map_neg, neg_div, Real.exp_neg]
  simp

/-- … with the same log-standard deviation -/
theorem reciprocal_sigma (vals : List ℝ) (h : 2 ≤ vals.length) :
    nanstdW .lognormal ((vals.map (fun v => 1 / v)).map some) none .nist =
      nanstdW .lognormal (vals.map some) none .nist := by
  rw [std_lognormal_eq _ h, std_lognormal_eq _ (by simpa using h)]
  simp only [List.map_map, List.length_map]
  have e : (vals.map (Real.log ∘ fun v => 1 / v)) = (vals.map Real.log).map (fun x => -x) := by
    rw [List.map_map]
    apply List.map_congr_left
    intro v hv
    simp [Function.comp, Real.log_inv]
  rw [e, sum_map_neg]
  congr 4
  apply List.map_congr_left
  intro v _
  simp only [Function.comp, one_div, Real.log_inv]
  ring

/-- the `+n` and `−n` values are symmetric about the median in log space -/
theorem nth_symmetric (n mean std : ℝ) (hm : 0 < mean) :
    nthStd n .lognormal mean std * nthStd (-n) .lognormal mean std = mean ^ 2 := by
  unfold nthStd
  simp only [exp_real, log_real]
  rw [← Real.exp_add]
  have : Real.log mean + n * std + (Real.log mean + -n * std) = 2 * Real.log mean := by ring
  rw [this, two_mul, Real.exp_add, Real.exp_log hm]
  ring

/-- `nthStd` for the normal distribution is `mean + n·std` -/
theorem nth_normal (n mean std : ℝ) : nthStd n .normal mean std = mean + n * std := rfl

/-- every alias of `DISTRIBUTION_MAP` selects the estimator of its canonical name -/
theorem distribution_alias :
    Dist.ofString "log-normal" = some .lognormal ∧ Dist.ofString "lognormal" = some .lognormal ∧
    Dist.ofString "normal" = some .normal := by decide

/-! ### Non-vacuity -/
example : (2 : ℕ) ≤ ([1.5, 2.5, 2.0] : List ℝ).length := by simp
example : maskSel [10, 20, 30, 40] [true, false, true, false] = [10, 30] := by decide

end HV.C05
