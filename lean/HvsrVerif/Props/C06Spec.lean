import HvsrVerif.Props.C06
/-!
# C06 (continued) — the iteration is the published one (Cox et al. 2020), stated in textbook terms

`Props/C06.lean::iter_keeps_iff` says which windows an iteration keeps, given the bounds. Here the two remaining pieces
of "follows the published algorithm" are spelled out over `ℝ`:
* `bounds_lognormal` / `bounds_normal` — the bounds of an iteration are `exp(μ_ln ± n·σ_ln)` resp. `μ ± n·σ`, where `μ`, `σ`
  are the mean and the `N − 1` sample standard deviation (of the logarithms, for lognormal) of the peak frequencies of the
  currently valid windows that have a peak;
* `iter_stop_rule` — the loop stops after an iteration iff one of the zero guards fires or both
  `| |μ' − f_mc'| − |μ − f_mc| | / |μ − f_mc| < 0.01` and `|σ' − σ| < 0.01` hold.
-/
namespace HV.C06
open HV Classical

/-- the valid peak frequencies that exist (windows without a peak never enter) -/
noncomputable def validFreqs (s : HvTrad ℝ) : List ℝ := somes s.peakFreqs

theorem bounds_normal (k : ℝ) (s : HvTrad ℝ) (h2 : 2 ≤ (validFreqs s).length) :
    s.nthStdFn k .normal =
      let F := validFreqs s
      let μ := F.sum / (F.length : ℝ)
      let σ := Real.sqrt ((F.map (fun x => (x - μ) ^ 2)).sum / ((F.length : ℝ) - 1))
      some (μ + k * σ) := by
  unfold HvTrad.nthStdFn HvTrad.meanFn HvTrad.stdFn validFreqs at *
  have hne : (somes s.peakFreqs).length ≠ 0 := by omega
  rw [nanmeanW_unweighted, nanstdW_unweighted .normal _ h2]
  simp only [hne, if_false, pre_normal, List.map_id', nthStdO, nthStd, Dist.postMean]

theorem bounds_lognormal (k : ℝ) (s : HvTrad ℝ) (h2 : 2 ≤ (validFreqs s).length) :
    s.nthStdFn k .lognormal =
      let L := (validFreqs s).map Real.log
      let μ := L.sum / (L.length : ℝ)
      let σ := Real.sqrt ((L.map (fun x => (x - μ) ^ 2)).sum / ((L.length : ℝ) - 1))
      some (Real.exp (μ + k * σ)) := by
  unfold HvTrad.nthStdFn HvTrad.meanFn HvTrad.stdFn validFreqs at *
  have hne : (somes s.peakFreqs).length ≠ 0 := by omega
  rw [nanmeanW_unweighted, nanstdW_unweighted .lognormal _ h2]
  simp only [hne, if_false, pre_lognormal, nthStdO, nthStd, Dist.postMean, exp_real, log_real, Real.log_exp, List.length_map]

/-- **The published stopping rule.** -/
theorem iter_stop_rule (p : FdwraParams ℝ) (s s' : HvTrad ℝ) (stop : Bool) (tr : FdwraTrace ℝ)
    (h : fdwraIter p s = .ok (s', stop, tr)) (mB sB mA sA : ℝ)
    (hmB : tr.meanBefore = some mB) (hsB : tr.stdBefore = some sB) (hmA : tr.meanAfter = some mA) (hsA : tr.stdAfter = some sA) :
    stop = true ↔
      (|mB - tr.mcBefore| = 0 ∨ sB = 0 ∨ sA = 0 ∨
        (abs (|mA - tr.mcAfter| - |mB - tr.mcBefore|) / |mB - tr.mcBefore| < 0.01 ∧ |sA - sB| < 0.01)) := by
  unfold fdwraIter at h
  cases h1 : s.meanCurvePeak p.dMc with
  | error e => rw [h1] at h; cases h
  | ok pk =>
    obtain ⟨mcB, aB⟩ := pk
    rw [h1] at h
    simp only at h
    cases h2 : (fdwraApply (s.nthStdFn (-p.n) p.dFn) (s.nthStdFn p.n p.dFn) s).meanCurvePeak p.dMc with
    | error e => rw [h2] at h; cases h
    | ok pk2 =>
      obtain ⟨mcA, aA⟩ := pk2
      rw [h2] at h
      simp only at h
      have lim := limits_value
      by_cases hz : (optIsZero (Option.map (fun m => absA (m - mcB)) (s.meanFn p.dFn)) || optIsZero (s.stdFn p.dFn)
          || optIsZero ((fdwraApply (s.nthStdFn (-p.n) p.dFn) (s.nthStdFn p.n p.dFn) s).stdFn p.dFn)) = true
      · rw [if_pos hz] at h
        injection h with h
        obtain ⟨_, h⟩ := Prod.mk.inj h
        obtain ⟨hstop, htr⟩ := Prod.mk.inj h
        subst htr
        simp only at hmB hsB hmA hsA
        rw [hmB, hsB, hsA] at hz
        simp only [Option.map_some, optIsZero, Bool.or_eq_true, eqA_real, absA_real, ofNat_real, Nat.cast_zero] at hz
        rw [← hstop]
        simp only [true_iff]
        rcases hz with (hz | hz) | hz
        · exact Or.inl hz
        · exact Or.inr (Or.inl hz)
        · exact Or.inr (Or.inr (Or.inl hz))
      · rw [if_neg hz] at h
        injection h with h
        obtain ⟨_, h⟩ := Prod.mk.inj h
        obtain ⟨hstop, htr⟩ := Prod.mk.inj h
        subst htr
        simp only at hmB hsB hmA hsA
        rw [hmB, hsB, hsA] at hz
        rw [hmB, hsB, hsA, hmA] at hstop
        simp only [Option.map_some, optIsZero, Bool.or_eq_true, eqA_real, absA_real, ofNat_real, Nat.cast_zero, not_or] at hz
        obtain ⟨⟨hz1, hz2⟩, hz3⟩ := hz
        simp only [Option.map_some, absA_real] at hstop
        rw [← hstop]
        simp only [optLt, Bool.and_eq_true, decide_eq_true_eq, lim.1, lim.2]
        constructor
        · intro hc; exact Or.inr (Or.inr (Or.inr hc))
        · rintro (h0 | h0 | h0 | hc)
          · exact absurd h0 hz1
          · exact absurd h0 hz2
          · exact absurd h0 hz3
          · exact hc

end HV.C06
