import HvsrVerif.Props.C01Laws
import HvsrVerif.Props.C17
/-!
# C01 (continued) — closed form for proportional components under the diffuse-field method

`psdComponent_scale`: the Welch-averaged one-sided PSD of any number of windows scales with the square of a common
amplitude factor (the single-window case is `C17.psd_scale_single`).
`hvsr_proportional_diffuse`: with `ns = A·sᵢ`, `ew = B·sᵢ`, `vt = C·sᵢ` for every window `i` (each window its own
signal `sᵢ`), whenever a diffuse-field curve is returned every value equals `√((A² + B²)/C²) = √(A² + B²)/|C|` — the value
of the total-horizontal-energy combination — for every smoothing operator, taper and FFT length.
-/
namespace HV.C01
open HV Classical

theorem zip_add_scale (f : ℝ) (a b : List ℝ) :
    (List.zip (a.map (f * ·)) (b.map (f * ·))).map (fun p => p.1 + p.2) = ((List.zip a b).map (fun p => p.1 + p.2)).map (f * ·) := by
  induction a generalizing b with
  | nil => simp
  | cons x xs ih =>
    cases b with
    | nil => simp
    | cons y ys => simp only [List.map_cons, List.zip_cons_cons, ih ys, List.cons.injEq, and_true]; ring

theorem zip_add_two (a b : ℝ) (P : List ℝ) :
    (List.zip (P.map (a * ·)) (P.map (b * ·))).map (fun p => p.1 + p.2) = P.map ((a + b) * ·) := by
  induction P with
  | nil => rfl
  | cons x xs ih =>
    simp only [List.map_cons, List.zip_cons_cons, ih, List.cons.injEq, and_true]
    ring

/-- the accumulation loop of `_rpds_single_component` commutes with a common factor -/
theorem psd_fold_scale (width c : ℝ) (n : ℕ) (wins : List (List ℝ)) (acc : List ℝ) :
    (wins.map (fun x => x.map (c * ·))).foldl
        (fun acc x => (List.zip acc (powSpec (taper width x) n)).map (fun p => p.1 + p.2)) (acc.map (c ^ 2 * ·)) =
      (wins.foldl (fun acc x => (List.zip acc (powSpec (taper width x) n)).map (fun p => p.1 + p.2)) acc).map (c ^ 2 * ·) := by
  induction wins generalizing acc with
  | nil => rfl
  | cons x xs ih =>
    simp only [List.map_cons, List.foldl_cons, taper_homog, C17.powSpec_scale, zip_add_scale]
    exact ih _

/-- **The PSD of any number of windows scales with the square of the amplitude.** -/
theorem psdComponent_scale (width dt c : ℝ) (n : ℕ) (wins : List (List ℝ)) :
    psdComponent width n dt (wins.map (fun x => x.map (c * ·))) = (psdComponent width n dt wins).map (c ^ 2 * ·) := by
  unfold psdComponent
  have hrep : List.replicate (n / 2 + 1) (Arith.ofNat 0 : ℝ) = (List.replicate (n / 2 + 1) (Arith.ofNat 0 : ℝ)).map (c ^ 2 * ·) := by
    simp
  have hlast : ((wins.map (fun x => x.map (c * ·))).getLastD []).length = (wins.getLastD []).length := by
    cases wins using List.reverseRecOn with
    | nil => rfl
    | append_singleton l a => simp
  simp only [hlast, List.length_map]
  have hfold := psd_fold_scale width c n wins (List.replicate (n / 2 + 1) (Arith.ofNat 0 : ℝ))
  rw [← hrep] at hfold
  rw [hfold, List.map_map, List.map_map]
  apply List.map_congr_left
  intro p _
  simp only [Function.comp]
  ring

/-- a proportional three-component window -/
def propRec (A B C : ℝ) (w : ℝ × ℝ × List ℝ) : Rec3 ℝ :=
  { dt := w.1, deg := w.2.1, ns := w.2.2.map (A * ·), ew := w.2.2.map (B * ·), vt := w.2.2.map (C * ·) }

theorem filterMap_getElem_map {β γ : Type} (f : β → γ) (l : List β) (idx : List ℕ) :
    idx.filterMap (fun i => (l.map f)[i]?) = (idx.filterMap (fun i => l[i]?)).map f := by
  induction idx with
  | nil => rfl
  | cons i is ih =>
    simp only [List.getElem?_map] at ih ⊢
    simp only [List.filterMap_cons]
    cases l[i]? <;> simp [ih]

/-- **Proportional components, diffuse field.** -/
theorem hvsr_proportional_diffuse (cfg : ProcCfg ℝ) (fft : FftState) (pol : Policy) (wins : List (ℝ × ℝ × List ℝ))
    (A B C : ℝ) (hC : C ≠ 0) (st : FftState) (kept : List ℕ) (row : List ℝ)
    (h : processDiffuse cfg fft pol (wins.map (propRec A B C)) = .ok (st, kept, row)) :
    ∀ q ∈ row, q = Real.sqrt ((A ^ 2 + B ^ 2) / C ^ 2) := by
  obtain ⟨n, r0, rest, sh, sv, q, -, -, hk, hs, hq, hrow⟩ := C17.diffuse_def cfg fft pol _ st kept row h
  rw [filterMap_getElem_map] at hk
  generalize hkw : kept.filterMap (fun i => wins[i]?) = kw at hk
  have hns : (r0 :: rest).map (·.ns) = (kw.map (·.2.2)).map (fun x => x.map (A * ·)) := by
    rw [← hk]; simp [propRec, Function.comp]
  have hew : (r0 :: rest).map (·.ew) = (kw.map (·.2.2)).map (fun x => x.map (B * ·)) := by
    rw [← hk]; simp [propRec, Function.comp]
  have hvt : (r0 :: rest).map (·.vt) = (kw.map (·.2.2)).map (fun x => x.map (C * ·)) := by
    rw [← hk]; simp [propRec, Function.comp]
  rw [hns, hew, hvt, psdComponent_scale, psdComponent_scale, psdComponent_scale] at hs
  generalize psdComponent cfg.width n r0.dt (kw.map (·.2.2)) = P at hs
  have hhor := zip_add_two (A ^ 2) (B ^ 2) P
  rw [hhor] at hs
  unfold smoothRows at hs
  rcases smoothByName_rowwise cfg.op cfg.bw (rfftfreq n r0.dt) cfg.fcs with ⟨e, he⟩ | ⟨S, hS, hlin⟩
  · rw [he] at hs; cases hs
  · rw [hS] at hs
    simp only [List.map_cons, List.map_nil, hlin] at hs
    injection hs with hs
    simp only [List.cons.injEq, and_true] at hs
    obtain ⟨h1, h2⟩ := hs
    subst h1 h2
    have hC2 : 0 < C ^ 2 := by positivity
    have := (ratioRow_same (A ^ 2 + B ^ 2) (C ^ 2) hC2 (S P) q hq).2
    subst hrow
    intro y hy
    obtain ⟨x, hx, rfl⟩ := List.mem_map.mp hy
    rw [this x hx]

/-- the value in the usual form: `√(A² + B²)/|C|`, i.e. the total-horizontal-energy combination of `|A|, |B|` over `|C|` -/
theorem diffuse_closed_form_value (A B C : ℝ) :
    Real.sqrt ((A ^ 2 + B ^ 2) / C ^ 2) = Real.sqrt (A ^ 2 + B ^ 2) / |C| := by
  rw [Real.sqrt_div' _ (by positivity), Real.sqrt_sq_eq_abs]

end HV.C01
