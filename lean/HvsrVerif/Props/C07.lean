import HvsrVerif.Proofs.Readers
import Mathlib.Tactic.FieldSimp
/-!
# C07 — Readers put the stored samples on the right components for every format

Property theorems only, about the token-level model `Model/Readers.lean` (which mirrors
`hvsrpy/data_wrangler.py`; decoding by obspy / `re` is external and tied by the correspondence harness).
Sample values are an arbitrary type `σ`, sample lists are arbitrary lists.
-/
set_option linter.unusedSimpArgs false
namespace HV.C07
open HV HV.Rd
variable {σ τ φ κ δ ρ : Type}

/-! ## obspy based readers: `_arrange_traces` -/

/-- **All 6 orders.** For every permutation of three traces whose channel names end in `N`, `E`, `Z` the routed
`(ns, ew, vt)` is the same: the `N` trace, the `E` trace, the `Z` trace. -/
theorem arrange_perm (a b c : String × τ)
    (ha : lastChar a.1 = some 'N') (hb : lastChar b.1 = some 'E') (hc : lastChar c.1 = some 'Z')
    (l : List (String × τ)) (hl : l.Perm [a, b, c]) :
    arrangeTraces l = .ok (a.2, b.2, c.2) := by
  rcases perm3_cases hl with h | h | h | h | h | h <;> subst h <;>
    simp [arrangeTraces, arrangeLoop, arrangeStep, endsWithC_of_last ha, endsWithC_of_last hb, endsWithC_of_last hc]

/-- **Soundness of the routing, any list.** Whenever `_arrange_traces` returns `(ns, ew, vt)`, the list holds exactly one
trace whose channel ends in `N`, one in `E`, one in `Z`, no trace with another suffix, and the returned components are
those traces. -/
theorem arrange_sound (l : List (String × τ)) (n e z : τ) (h : arrangeTraces l = .ok (n, e, z)) :
    (∃ t ∈ l, lastChar t.1 = some 'N' ∧ t.2 = n) ∧ (∃ t ∈ l, lastChar t.1 = some 'E' ∧ t.2 = e) ∧
    (∃ t ∈ l, lastChar t.1 = some 'Z' ∧ t.2 = z) ∧
    suffixCount 'N' l = 1 ∧ suffixCount 'E' l = 1 ∧ suffixCount 'Z' l = 1 ∧
    (∀ t ∈ l, lastChar t.1 = some 'N' ∨ lastChar t.1 = some 'E' ∨ lastChar t.1 = some 'Z') := by
  unfold arrangeTraces at h
  split at h
  · cases h
  · rename_i st hloop
    split at h
    · rename_i n' e' z' hn he hz
      injection h with h
      simp only [Prod.mk.injEq] at h
      obtain ⟨rfl, rfl, rfl⟩ := h
      have c := arrangeLoop_counts l _ _ hloop
      simp only [slotN, hn, he, hz] at c
      refine ⟨?_, ?_, ?_, ?_, ?_, ?_, arrangeLoop_suffixes l _ _ hloop⟩
      · rcases arrangeLoop_ns l _ _ hloop _ hn with h' | h'
        · cases h'
        · exact h'
      · rcases arrangeLoop_ew l _ _ hloop _ he with h' | h'
        · cases h'
        · exact h'
      · rcases arrangeLoop_vt l _ _ hloop _ hz with h' | h'
        · cases h'
        · exact h'
      · simpa using c.1.symm
      · simpa using c.2.1.symm
      · simpa using c.2.2.symm
    · cases h

/-- **Missing, duplicated or misnamed component ⇒ error** (any list, any position): if some suffix among `N`, `E`, `Z` does not
occur exactly once, or some trace carries another suffix, no triple is returned. -/
theorem arrange_errors (l : List (String × τ))
    (h : suffixCount 'N' l ≠ 1 ∨ suffixCount 'E' l ≠ 1 ∨ suffixCount 'Z' l ≠ 1 ∨
      ∃ t ∈ l, lastChar t.1 ≠ some 'N' ∧ lastChar t.1 ≠ some 'E' ∧ lastChar t.1 ≠ some 'Z') :
    ∃ err, arrangeTraces l = .error err := by
  cases hres : arrangeTraces l with
  | error err => exact ⟨err, rfl⟩
  | ok r =>
    obtain ⟨n, e, z⟩ := r
    obtain ⟨_, _, _, cN, cE, cZ, hall⟩ := arrange_sound l n e z hres
    rcases h with h | h | h | ⟨t, ht, h1, h2, h3⟩
    · exact absurd cN h
    · exact absurd cE h
    · exact absurd cZ h
    · rcases hall t ht with h' | h' | h'
      · exact absurd h' h1
      · exact absurd h' h2
      · exact absurd h' h3

/-- the obspy based readers (`_read_mseed`, `_read_sac`, `_read_gcf` after decoding): for all 6 orders of three equally long
traces with the same time step, the recording holds the `N`, `E`, `Z` samples; an explicit `degrees_from_north` is used,
otherwise 0 -/
theorem obspy_read_perm (kn ke kz : String) (sn se sz : List σ) (dt : Rat) (deg : Option Rat)
    (hn : lastChar kn = some 'N') (he : lastChar ke = some 'E') (hz : lastChar kz = some 'Z')
    (hle : se.length = sn.length) (hlz : sz.length = sn.length)
    (l : List (String × Comp σ)) (hl : l.Perm [(kn, ⟨sn, dt⟩), (ke, ⟨se, dt⟩), (kz, ⟨sz, dt⟩)]) :
    readObspy l deg = .ok { ns := ⟨sn, dt⟩, ew := ⟨se, dt⟩, vt := ⟨sz, dt⟩, deg := degNorm (deg.getD 0) } := by
  have h3 : l.length = 3 := by simpa using hl.length_eq
  unfold readObspy
  rw [if_neg (by simp [h3]), arrange_perm _ _ _ hn he hz l hl]
  exact mkRec_ok _ rfl rfl hle hlz

/-- more or fewer than three traces, or a missing/duplicated/misnamed component, or components of unequal length:
the obspy based readers raise -/
theorem obspy_read_errors (l : List (String × Comp σ)) (deg : Option Rat)
    (h : l.length ≠ 3 ∨ suffixCount 'N' l ≠ 1 ∨ suffixCount 'E' l ≠ 1 ∨ suffixCount 'Z' l ≠ 1 ∨
      ∃ t ∈ l, lastChar t.1 ≠ some 'N' ∧ lastChar t.1 ≠ some 'E' ∧ lastChar t.1 ≠ some 'Z') :
    ∃ err, readObspy l deg = .error err := by
  unfold readObspy
  rcases h with h | h
  · exact ⟨_, if_pos h⟩
  · split
    · exact ⟨_, rfl⟩
    · obtain ⟨err, he⟩ := arrange_errors l h
      rw [he]
      exact ⟨_, rfl⟩

/-! ## SAF -/

/-- **The returned components are the columns so labelled** (any rows, any header): whenever `_read_saf` returns a recording,
`vt`/`ns`/`ew` are columns `CHv`/`CHn`/`CHe` of the rows where `v`, `n`, `e` are the channel numbers labelled `V`, `N`, `E`;
the time step is `1/SAMP_FREQ` and `NDAT` equals the number of rows. -/
theorem saf_columns (h : SafHeader) (deg : Option Rat) (rows : List (σ × σ × σ)) (r : Rec3 σ)
    (hr : safAssemble h deg rows = .ok r) :
    ∃ v n e fs, h.vCh = some v ∧ h.nCh = some n ∧ h.eCh = some e ∧ h.fs = some fs ∧ h.ndat = some rows.length ∧
      r.vt.samples.map some = rows.map (rowGet · v) ∧
      r.ns.samples.map some = rows.map (rowGet · n) ∧
      r.ew.samples.map some = rows.map (rowGet · e) ∧
      r.ns.dt = 1 / (fs : Rat) ∧ r.ew.dt = 1 / (fs : Rat) ∧ r.vt.dt = 1 / (fs : Rat) := by
  obtain ⟨npts, fs, v, n, e, d, vt, ns, ew, _, hnd, hfs, _, hv, hn, he, _, hl, hm⟩ := saf_unfold hr
  obtain ⟨hcount, c0, c1, c2⟩ := rowLoop_ok _ _ _ _ _ _ _ _ _ _ hl
  obtain ⟨rfl, _, _⟩ := mkRec_inv hm
  refine ⟨v, n, e, fs, hv, hn, he, hfs, ?_, c0, c1, c2, rfl, rfl, rfl⟩
  rw [hnd, hcount]; simp

/-- **For every assignment of V/N/E to the three channel columns** (`v`, `n`, `e` any of 0, 1, 2 — in particular the 6
permutations), a complete header whose `NDAT` equals the number of rows, and an orientation the rule accepts, `_read_saf`
returns a recording — whose components are then the labelled columns by `saf_columns`. -/
theorem saf_columns_total (v n e fs : Nat) (rot : Option Nat) (deg : Option Rat) (rows : List (σ × σ × σ)) (d : Rat)
    (hv : v < 3) (hn : n < 3) (he : e < 3) (hfs : fs ≠ 0)
    (hd : safDegrees deg rot n e = .ok d) :
    ∃ r, safAssemble { version := true, ndat := some rows.length, fs := some fs, vCh := some v, nCh := some n,
                       eCh := some e, northRot := rot } deg rows = .ok r ∧ r.deg = degNorm d := by
  obtain ⟨vt, ns, ew, hl⟩ := rowLoop_total rows.length v n e hv hn he rows 0 (by omega)
  simp only [Nat.zero_add] at hl
  obtain ⟨_, c0, c1, c2⟩ := rowLoop_ok _ _ _ _ _ _ _ _ _ _ hl
  have l0 : vt.length = rows.length := by simpa using congrArg List.length c0
  have l1 : ns.length = rows.length := by simpa using congrArg List.length c1
  have l2 : ew.length = rows.length := by simpa using congrArg List.length c2
  refine ⟨{ ns := ⟨ns, 1 / (fs : Rat)⟩, ew := ⟨ew, 1 / (fs : Rat)⟩, vt := ⟨vt, 1 / (fs : Rat)⟩, deg := degNorm d }, ?_, rfl⟩
  simp only [safAssemble, Bool.not_true, Bool.false_eq_true, if_false, hfs, hd, hl, checkNpts, ne_eq, not_true_eq_false]
  exact mkRec_ok _ rfl rfl (by simp [l1, l2]) (by simp [l0, l1])

/-! ## MiniShark -/

/-- **Header scaling.** Whenever `_read_minishark` returns a recording, the columns are vertical, north, east in that order and
every stored count is divided by the gain and by the conversion factor; time step `1/sample rate`; `Sample number` equals the
number of rows. -/
theorem minishark_scale (h : MsharkHeader) (deg : Option Rat) (rows : List (Int × Int × Int)) (r : Rec3 Rat)
    (hr : minisharkAssemble h deg rows = .ok r) :
    ∃ gain conv fs, h.gain = some gain ∧ h.conv = some conv ∧ h.fs = some fs ∧ h.ndat = some rows.length ∧
      r.vt.samples = rows.map (fun x => (x.1 : Rat) / ((gain : Rat) * (conv : Rat))) ∧
      r.ns.samples = rows.map (fun x => (x.2.1 : Rat) / ((gain : Rat) * (conv : Rat))) ∧
      r.ew.samples = rows.map (fun x => (x.2.2 : Rat) / ((gain : Rat) * (conv : Rat))) ∧
      r.ns.dt = 1 / (fs : Rat) ∧ r.deg = degNorm (deg.getD 0) := by
  obtain ⟨npts, fs, conv, gain, vt, ns, ew, hnd, hfs, _, hcv, hg, hl, hm⟩ := mshark_unfold hr
  obtain ⟨hcount, c0, c1, c2⟩ := rowLoop_ok _ _ _ _ _ _ _ _ _ _ hl
  obtain ⟨rfl, _, _⟩ := mkRec_inv hm
  have e0 : vt = rows.map (·.1) := map_some_inj (by rw [c0, List.map_map]; rfl)
  have e1 : ns = rows.map (·.2.1) := map_some_inj (by rw [c1, List.map_map]; rfl)
  have e2 : ew = rows.map (·.2.2) := map_some_inj (by rw [c2, List.map_map]; rfl)
  refine ⟨gain, conv, fs, hg, hcv, hfs, by rw [hnd, hcount]; simp, ?_, ?_, ?_, rfl, rfl⟩
  · simp [e0, msharkScale, div_div]
  · simp [e1, msharkScale, div_div]
  · simp [e2, msharkScale, div_div]

/-- scaling is undone by multiplying with gain × conversion (non-zero factors): the stored count is recovered exactly -/
theorem minishark_scale_inverse (gain conv : Nat) (x : Int) (hg : gain ≠ 0) (hc : conv ≠ 0) :
    msharkScale gain conv x * ((gain : Rat) * (conv : Rat)) = (x : Rat) := by
  have h1 : (gain : Rat) ≠ 0 := by exact_mod_cast hg
  have h2 : (conv : Rat) ≠ 0 := by exact_mod_cast hc
  unfold msharkScale
  field_simp

/-! ## PEER -/

/-- **Numeric azimuth codes, all 6 file orders.** Three consistent files — a vertical coded `UP` or `VER` and two horizontals
with azimuth codes `a`, `b`, `a` strictly closer to north than `b` — in any order: the file coded `a` becomes `ns`, the one
coded `b` becomes `ew`, the `UP`/`VER` file `vt`; all are trimmed to the shortest; `degrees_from_north` is the explicit value
if given and `a mod 360` otherwise (then normalised by the constructor). -/
theorem peer_routing (kU ka kb : String) (a b : Nat) (d : Rat) (sU sa sb : List σ) (deg : Option Rat)
    (hU : kU = "UP" ∨ kU = "VER") (ha : parseNat ka = some a) (hb : parseNat kb = some b)
    (ha1 : ka ≠ "UP") (ha2 : ka ≠ "VER") (hb1 : kb ≠ "UP") (hb2 : kb ≠ "VER")
    (hlt : (relAz a).natAbs < (relAz b).natAbs)
    (l : List (String × List σ)) (hl : l.Perm [(kU, sU), (ka, sa), (kb, sb)]) :
    peerAssemble (l.map (peerOf d)) deg =
      .ok { ns := ⟨sa.take (min (min sa.length sb.length) sU.length), d⟩,
            ew := ⟨sb.take (min (min sa.length sb.length) sU.length), d⟩,
            vt := ⟨sU.take (min (min sa.length sb.length) sU.length), d⟩,
            deg := degNorm (deg.getD (((a : Int) % 360 : Int) : Rat)) } := by
  have hne : l ≠ [] := by
    intro h; subst h; simpa using hl.length_eq
  apply peerAssemble_of_route d l hne deg sa sb sU (a : Int)
  exact peerRoute_numeric kU ka kb a b _ _ _ hU ha hb ha1 ha2 hb1 hb2 hlt _ (by simpa [compOf] using hl.map (compOf d))

/-- **Letter codes, all 6 file orders**: vertical = the key ending in `Z`/`z`, north = `..N`, east = `..E`, orientation 0 unless
given explicitly -/
theorem peer_routing_letters (kZ kN kE : String) (d : Rat) (sZ sN sE : List σ) (deg : Option Rat)
    (hZ : lastChar kZ = some 'Z' ∨ lastChar kZ = some 'z') (hN : lastChar kN = some 'N') (hE : lastChar kE = some 'E')
    (l : List (String × List σ)) (hl : l.Perm [(kZ, sZ), (kN, sN), (kE, sE)]) :
    peerAssemble (l.map (peerOf d)) deg =
      .ok { ns := ⟨sN.take (min (min sN.length sE.length) sZ.length), d⟩,
            ew := ⟨sE.take (min (min sN.length sE.length) sZ.length), d⟩,
            vt := ⟨sZ.take (min (min sN.length sE.length) sZ.length), d⟩,
            deg := degNorm (deg.getD 0) } := by
  have hne : l ≠ [] := by
    intro h; subst h; simpa using hl.length_eq
  have := peerAssemble_of_route d l hne deg sN sE sZ 0
    (peerRoute_letters kZ kN kE _ _ _ hZ hN hE _ (by simpa [compOf] using hl.map (compOf d)))
  simpa using this

/-- equal lengths: nothing is trimmed -/
theorem peer_no_trim (s1 s2 s3 : List σ) (h2 : s2.length = s1.length) (h3 : s3.length = s1.length) :
    s1.take (min (min s1.length s2.length) s3.length) = s1 ∧ s2.take (min (min s1.length s2.length) s3.length) = s2 ∧
    s3.take (min (min s1.length s2.length) s3.length) = s3 := by
  simp [h2, h3]

/-! ## sample count against the header -/

/-- **A sample count that disagrees with the header raises**, in each of the three text formats, whatever else the file holds. -/
theorem npts_mismatch_errors :
    (∀ (h : SafHeader) (deg : Option Rat) (rows : List (σ × σ × σ)),
        h.ndat ≠ some rows.length → ∃ err, safAssemble h deg rows = .error err) ∧
    (∀ (h : MsharkHeader) (deg : Option Rat) (rows : List (Int × Int × Int)),
        h.ndat ≠ some rows.length → ∃ err, minisharkAssemble h deg rows = .error err) ∧
    (∀ (files : List (PeerFile σ)) (deg : Option Rat),
        (∃ f ∈ files, f.npts ≠ some f.samples.length) → ∃ err, peerAssemble files deg = .error err) := by
  refine ⟨?_, ?_, ?_⟩
  · intro h deg rows hne
    cases hres : safAssemble h deg rows with
    | error err => exact ⟨err, rfl⟩
    | ok r =>
      obtain ⟨_, _, _, _, _, _, _, _, hnd, _⟩ := saf_columns h deg rows r hres
      exact absurd hnd hne
  · intro h deg rows hne
    cases hres : minisharkAssemble h deg rows with
    | error err => exact ⟨err, rfl⟩
    | ok r =>
      obtain ⟨_, _, _, _, _, _, hnd, _⟩ := minishark_scale h deg rows r hres
      exact absurd hnd hne
  · rintro files deg ⟨f, hf, hne⟩
    unfold peerAssemble
    cases hres : peerFiles files with
    | error err => exact ⟨err, rfl⟩
    | ok comps => exact absurd (peerFiles_ok files comps hres f hf) hne

/-- the check itself: `_check_npts` raises exactly when the counts differ -/
theorem checkNpts_spec (hdr found : Nat) : checkNpts hdr found = .ok () ↔ hdr = found := by
  unfold checkNpts
  split <;> simp_all

/-! ## orientation -/

/-- `float(d - 360*(d // 360))`: the stored orientation lies in `[0, 360)` and differs from the given one by a multiple of 360 -/
theorem degNorm_spec (d : Rat) : 0 ≤ degNorm d ∧ degNorm d < 360 ∧ ∃ k : Int, d = degNorm d + 360 * k :=
  degNorm_range d

/-- **Explicit `degrees_from_north` overrides file metadata in every reader; otherwise the file's rule applies.**
(PEER: see `peer_routing`, `peer_routing_letters`, which carry `deg.getD (a mod 360)` / `deg.getD 0`.) -/
theorem orientation_rules :
    -- obspy based readers: explicit value, else 0
    (∀ (l : List (String × Comp σ)) (deg : Option Rat) (r : Rec3 σ), readObspy l deg = .ok r → r.deg = degNorm (deg.getD 0)) ∧
    -- SAF with an explicit value: NORTH_ROT and the channel layout are not consulted
    (∀ (h : SafHeader) (d : Rat) (rows : List (σ × σ × σ)) (r : Rec3 σ), safAssemble h (some d) rows = .ok r → r.deg = degNorm d) ∧
    -- SAF without: keyword missing ⇒ 0; CH1 north ⇒ NORTH_ROT; CH1 east ⇒ NORTH_ROT + 90; otherwise an error
    (∀ (h : SafHeader) (rows : List (σ × σ × σ)) (r : Rec3 σ), safAssemble h none rows = .ok r →
        (h.northRot = none ∧ r.deg = 0) ∨
        (∃ rot, h.northRot = some rot ∧ h.nCh = some 1 ∧ r.deg = degNorm (rot : Rat)) ∨
        (∃ rot, h.northRot = some rot ∧ h.nCh ≠ some 1 ∧ h.eCh = some 1 ∧ r.deg = degNorm ((rot : Rat) + 90))) ∧
    -- MiniShark: explicit value, else 0
    (∀ (h : MsharkHeader) (deg : Option Rat) (rows : List (Int × Int × Int)) (r : Rec3 Rat),
        minisharkAssemble h deg rows = .ok r → r.deg = degNorm (deg.getD 0)) := by
  refine ⟨?_, ?_, ?_, ?_⟩
  · intro l deg r hr
    unfold readObspy at hr
    split at hr
    · cases hr
    · split at hr
      · cases hr
      · obtain ⟨rfl, _, _⟩ := mkRec_inv hr
        rfl
  · intro h d rows r hr
    obtain ⟨_, _, _, n, e, d', _, _, _, _, _, _, _, _, _, _, hd, _, hm⟩ := saf_unfold hr
    obtain ⟨rfl, _, _⟩ := mkRec_inv hm
    simp only [safDegrees] at hd
    injection hd with hd
    subst hd
    rfl
  · intro h rows r hr
    obtain ⟨_, _, _, n, e, d', _, _, _, _, _, _, _, _, hn, he, hd, _, hm⟩ := saf_unfold hr
    obtain ⟨rfl, _, _⟩ := mkRec_inv hm
    simp only [safDegrees] at hd
    split at hd
    · rename_i hrot
      injection hd with hd
      subst hd
      exact Or.inl ⟨hrot, degNorm_zero⟩
    · rename_i rot hrot
      split at hd
      · rename_i h1
        injection hd with hd
        subst hd
        refine Or.inr (Or.inl ⟨rot, hrot, ?_, rfl⟩)
        rw [hn, h1]; rfl
      · rename_i h1
        split at hd
        · rename_i h2
          injection hd with hd
          subst hd
          refine Or.inr (Or.inr ⟨rot, hrot, ?_, ?_, by simp [readerConsts]⟩)
          · rw [hn]; intro hc; injection hc with hc; exact h1 (by simpa [readerConsts] using hc)
          · rw [he, h2]; rfl
        · cases hd
  · intro h deg rows r hr
    obtain ⟨_, _, _, _, _, _, _, _, _, _, _, _, _, hm⟩ := mshark_unfold hr
    obtain ⟨rfl, _, _⟩ := mkRec_inv hm
    rfl

/-- the SAF rule refuses a file whose CH1 is the vertical when it has to use NORTH_ROT (the code's own precondition) -/
theorem saf_rule_needs_horizontal_ch1 (h : SafHeader) (rows : List (σ × σ × σ)) (rot : Nat)
    (hrot : h.northRot = some rot) (hn : h.nCh ≠ some 1) (he : h.eCh ≠ some 1) :
    ∃ err, safAssemble h none rows = .error err := by
  cases hres : safAssemble h none rows with
  | error err => exact ⟨err, rfl⟩
  | ok r =>
    obtain ⟨h0, _⟩ | ⟨_, _, h1, _⟩ | ⟨_, _, _, h1, _⟩ := (orientation_rules (σ := σ)).2.2.1 h rows r hres
    · rw [hrot] at h0; cases h0
    · exact absurd h1 hn
    · exact absurd h1 he

/-! ## `read`: argument broadcasting -/

/-- **Recording `i` receives `kwargs_i` and `deg_i`, whether each argument is scalar or per-recording, independently of the
other argument.** With one entry per recording in every collection argument, `read` calls `read_single` once per entry of
`fnames`, in order, and call `i` gets the (unwrapped) `i`-th entry together with `kw.get? i` and `dg.get? i` — for a scalar
that is the scalar, for a collection its `i`-th element. Each of the two lookups mentions its own argument only. -/
theorem broadcast_spec (fnames : List (FArg φ)) (kw : Arg κ) (dg : Arg δ)
    (hk : ∀ l, kw = .many l → l.length = fnames.length) (hd : ∀ l, dg = .many l → l.length = fnames.length) :
    (broadcastArgs fnames kw dg).length = fnames.length ∧
    ∀ i (hi : i < fnames.length), ∃ k d, kw.get? i = some k ∧ dg.get? i = some d ∧
      (broadcastArgs fnames kw dg)[i]? = some (unwrapSingle fnames[i], k, d) := by
  have hlen := broadcast_length fnames kw dg hk hd
  refine ⟨hlen, ?_⟩
  intro i hi
  obtain ⟨f, k, d, h1, h2, h3, h4⟩ := broadcast_get fnames kw dg i (by omega)
  rw [List.getElem?_eq_getElem hi] at h1
  injection h1 with h1
  subst h1
  exact ⟨k, d, h2, h3, h4⟩

/-- without the length hypothesis (`zip` semantics): every call that is made is still the right one -/
theorem broadcast_prefix (fnames : List (FArg φ)) (kw : Arg κ) (dg : Arg δ) (i : Nat)
    (hi : i < (broadcastArgs fnames kw dg).length) :
    ∃ f k d, fnames[i]? = some f ∧ kw.get? i = some k ∧ dg.get? i = some d ∧
      (broadcastArgs fnames kw dg)[i]? = some (unwrapSingle f, k, d) :=
  broadcast_get fnames kw dg i hi

/-- scalar means "the same for every recording", a collection means "its own element" -/
theorem arg_get (a : κ) (l : List κ) (i : Nat) : (Arg.scalar a).get? i = some a ∧ (Arg.many l).get? i = l[i]? :=
  ⟨rfl, rfl⟩

/-- "if entry is a list with only a single entry, remove the list" — and nothing else is changed -/
theorem unwrap_spec (f : φ) (l : List φ) (hl : l.length ≠ 1) :
    unwrapSingle (.many [f]) = .one f ∧ unwrapSingle (.one f) = .one f ∧ unwrapSingle (.many l) = .many l := by
  refine ⟨rfl, rfl, ?_⟩
  match l, hl with
  | [], _ => rfl
  | [x], h => exact absurd rfl h
  | _ :: _ :: _, _ => rfl

/-! ## `read_single`: reader dispatch -/

/-- the first reader (in dictionary order `mseed, saf, minishark, sac, gcf, peer`) that succeeds provides the recording -/
theorem read_single_first_success (results : List (Except RdErr ρ)) (i : Nat) (r : ρ) (hi : i < 6)
    (hr : results[i]? = some (.ok r)) (hpre : ∀ j, j < i → ∃ e, results[j]? = some (.error e)) :
    readSingle results = .ok r := by
  unfold readSingle
  have hlen : i < results.length := by
    by_contra h
    rw [List.getElem?_eq_none (by omega)] at hr
    cases hr
  have hsplit : results = results.take i ++ (.ok r) :: results.drop (i + 1) := by
    have h1 : results[i] = .ok r := by
      rw [List.getElem?_eq_getElem hlen] at hr
      exact Option.some.inj hr
    rw [← h1, List.getElem_cons_drop, List.take_append_drop]
  have hd : dispatchOrder = dispatchOrder.take i ++
      dispatchOrder[i]'(by simp [dispatchOrder, dispatchTable]; omega) :: dispatchOrder.drop (i + 1) := by
    rw [List.getElem_cons_drop, List.take_append_drop]
  rw [hsplit, hd, List.zip_append (by simp [dispatchOrder, dispatchTable]; omega), List.zip_cons_cons]
  apply trial_first_ok
  intro x hx
  obtain ⟨nm, res⟩ := x
  obtain ⟨k, hk, hk'⟩ := List.mem_iff_getElem.mp hx
  simp only [List.length_zip, List.length_take] at hk
  simp only [List.getElem_zip, List.getElem_take, Prod.mk.injEq] at hk'
  have hki : k < i := by omega
  constructor
  · obtain ⟨e, he⟩ := hpre k hki
    refine ⟨e, ?_⟩
    rw [List.getElem?_eq_getElem (by omega)] at he
    simp only [← hk'.2]
    exact Option.some.inj he
  · have key : ∀ k, k < 5 → dispatchOrder[k]? ≠ some reraiseName := by decide
    intro hnm
    apply key k (by omega)
    rw [List.getElem?_eq_getElem (by omega), hk'.1]
    exact congrArg some hnm

/-- **An unrecognised file raises**: when every reader fails `read_single` raises (the PEER reader's exception) -/
theorem read_single_all_fail (e0 e1 e2 e3 e4 e5 : RdErr) :
    readSingle (ρ := ρ) [.error e0, .error e1, .error e2, .error e3, .error e4, .error e5] = .error e5 := by
  simp [readSingle, dispatchOrder, dispatchTable, trial, reraiseName]

/-! ## non-vacuity: the hypotheses are satisfiable, the error branches are reachable -/

/-- all 6 orders really occur and give the same routing (channel names of three naming conventions) -/
example : [[("BHN", 1), ("BHE", 2), ("BHZ", 3)], [("BHN", 1), ("BHZ", 3), ("BHE", 2)], [("BHE", 2), ("BHN", 1), ("BHZ", 3)],
           [("BHE", 2), ("BHZ", 3), ("BHN", 1)], [("BHZ", 3), ("BHN", 1), ("BHE", 2)], [("BHZ", 3), ("BHE", 2), ("BHN", 1)]].map
          (arrangeTraces (τ := Nat)) = List.replicate 6 (.ok (1, 2, 3)) := by decide
example : arrangeTraces [("HNE", 2), ("N", 1), ("EHZ", 3)] = .ok (1, 2, 3) := by decide
/-- duplicate, missing, other suffix, lower case: errors -/
example : arrangeTraces [("BHN", 1), ("BHN", 2), ("BHZ", 3)] = .error .value := by decide
example : arrangeTraces [("BHN", 1), ("BHZ", 3)] = .error .unbound := by decide
example : arrangeTraces [("BH1", 1), ("BH2", 2), ("BHZ", 3)] = .error .value := by decide
example : arrangeTraces [("bhn", 1), ("bhe", 2), ("bhz", 3)] = .error .value := by decide
example : lastChar "BHN" = some 'N' ∧ lastChar "HNE" = some 'E' ∧ lastChar "Z" = some 'Z' := by decide
example : suffixCount 'N' [("BHN", 1), ("BHN", 2), ("BHZ", 3)] = 2 := by decide

/-- SAF row loop on concrete rows, columns V=2, N=0, E=1 -/
example : rowLoop 2 2 0 1 [((1 : Int), (2 : Int), (3 : Int)), (4, 5, 6)] 0 = .ok ([3, 6], [1, 4], [2, 5], 2) := by decide
/-- one row too many: IndexError; a row short: the count check -/
example : rowLoop 1 0 1 2 [((1 : Int), (2 : Int), (3 : Int)), (4, 5, 6)] 0 = .error .index := by decide
example : checkNpts 3 2 = .error .value ∧ checkNpts 2 2 = .ok () := by decide
/-- the NORTH_ROT rule -/
example : safDegrees none (some 30) 1 2 = .ok 30 ∧ safDegrees none (some 30) 2 1 = .ok (30 + 90) ∧
    safDegrees none (some 30) 0 2 = .error .value ∧ safDegrees none none 0 2 = .ok 0 ∧
    safDegrees (some 15) (some 30) 0 2 = .ok 15 := by
  simp [safDegrees, readerConsts]

/-- PEER routing hypotheses on concrete codes: 360 is closer to north than 090; 307 closer than 217 -/
example : (relAz 360).natAbs < (relAz 90).natAbs ∧ (relAz 307).natAbs < (relAz 217).natAbs ∧
    parseNat "090" = some 90 ∧ parseNat "360" = some 360 ∧ parseNat "5" = some 5 ∧ parseNat "UP" = none ∧ parseNat "HNE" = none := by
  decide
/-- the equal-distance case excluded by `hlt` (finding C07-b): 135 and 225 are equally far from north, and both `argmin`
and `argmax` pick the first file -/
example : (relAz 135).natAbs = (relAz 225).natAbs ∧ rdArgmin [135, 135] = some (0, 135) ∧ rdArgmax [135, 135] = some (0, 135) := by
  decide
example : peerVertical ["090", "UP", "360"] = .ok (1, true) ∧ peerVertical ["HNE", "HNZ", "HNN"] = .ok (1, false) ∧
    peerVertical ["090", "360", "180"] = .error .value := by decide

/-- broadcasting: scalar kwargs with per-recording degrees, and the converse -/
example : broadcastArgs [FArg.one "a", FArg.many ["b"], FArg.many ["c", "d", "e"]] (Arg.scalar (0 : Nat)) (Arg.many [10, 20, 30]) =
    [(FArg.one "a", 0, 10), (FArg.one "b", 0, 20), (FArg.many ["c", "d", "e"], 0, 30)] := by decide
example : broadcastArgs [FArg.one "a", FArg.one "b"] (Arg.many [(1 : Nat), 2]) (Arg.scalar (15 : Nat)) =
    [(FArg.one "a", 1, 15), (FArg.one "b", 2, 15)] := by decide

/-- dispatch: SAF wins over MiniShark when both accept the text; nothing accepts ⇒ error -/
example : readSingle [.error .value, .ok "saf", .ok "minishark", .error .value, .error .value, .error .value] = .ok "saf" := by decide
example : readSingle (ρ := Nat) [.error .value, .error .attr, .error .attr, .error .value, .error .value, .error .index]
    = .error .index := by decide

/-- `peer_routing` instantiated: files given as (090, UP, 360) with unequal lengths — 360 is north, 090 east, all trimmed to 2 -/
example : peerAssemble ([("090", [1, 2]), ("UP", [3, 4]), ("360", [5, 6, 7])].map (peerOf (σ := Nat) (1 / 50))) none =
    .ok { ns := ⟨[5, 6], 1 / 50⟩, ew := ⟨[1, 2], 1 / 50⟩, vt := ⟨[3, 4], 1 / 50⟩, deg := degNorm (((360 : Nat) % 360 : Int) : Rat) } :=
  peer_routing "UP" "360" "090" 360 90 (1 / 50) [3, 4] [5, 6, 7] [1, 2] none (Or.inl rfl) (by decide) (by decide)
    (by decide) (by decide) (by decide) (by decide) (by decide) _ (by decide)

/-- `peer_routing_letters` instantiated -/
example : peerAssemble ([("HNE", [1, 2]), ("HNZ", [3, 4]), ("HNN", [5, 6])].map (peerOf (σ := Nat) (1 / 100))) (some 33) =
    .ok { ns := ⟨[5, 6], 1 / 100⟩, ew := ⟨[1, 2], 1 / 100⟩, vt := ⟨[3, 4], 1 / 100⟩, deg := degNorm 33 } :=
  peer_routing_letters "HNZ" "HNN" "HNE" (1 / 100) [3, 4] [5, 6] [1, 2] (some 33) (Or.inl (by decide)) (by decide) (by decide) _
    (by decide)

/-- `obspy_read_perm` instantiated: traces stored as (Z, N, E), explicit orientation 400 -/
example : readObspy [("EHZ", ⟨[7, 8], 1 / 100⟩), ("EHN", ⟨[1, 2], 1 / 100⟩), ("EHE", ⟨[4, 5], 1 / 100⟩)] (some 400) =
    .ok { ns := ⟨[1, 2], 1 / 100⟩, ew := ⟨[4, 5], 1 / 100⟩, vt := ⟨[(7 : Nat), 8], 1 / 100⟩, deg := degNorm 400 } :=
  obspy_read_perm "EHN" "EHE" "EHZ" [1, 2] [4, 5] [7, 8] (1 / 100) (some 400) (by decide) (by decide) (by decide) rfl rfl _
    (List.perm_append_comm (l₁ := [_]) (l₂ := [_, _]))

/-- the normalisation on concrete values: 400 ↦ 40, −20 ↦ 340, 360 ↦ 0 -/
example : degNorm 400 = 40 ∧ degNorm (-20) = 340 ∧ degNorm 360 = 0 := by
  refine ⟨?_, ?_, ?_⟩ <;> rw [degNorm_eq] <;> norm_num [Int.floor_eq_iff]

/-- `saf_columns_total` instantiated on the layout (N, V, E) with an explicit orientation (the NORTH_ROT rule is bypassed) -/
example : ∃ r, safAssemble (SafHeader.mk true (some 2) (some 100) (some 1) (some 0) (some 2) (some 30)) (some 15)
    [((1 : Int), (2 : Int), (3 : Int)), (4, 5, 6)] = .ok r ∧ r.deg = degNorm 15 :=
  saf_columns_total 1 0 2 100 (some 30) (some 15) [(1, 2, 3), (4, 5, 6)] 15 (by decide) (by decide) (by decide) (by decide) rfl

/-- MiniShark scaling on concrete numbers: 640 counts, gain 64, conversion 10 -/
example : msharkScale 64 10 640 = 1 := by norm_num [msharkScale]

end HV.C07
