import HvsrVerif.Proofs.RealInst
import HvsrVerif.Model.Process
import HvsrVerif.Proofs.Percentile
import Mathlib.Analysis.SpecialFunctions.Trigonometric.Basic
import Mathlib.Tactic.Linarith
import Mathlib.Tactic.Ring
/-!
# C04 — Sensor orientation and azimuth handling are geometrically consistent

Model: `Model/Combine.lean` (`orientSample`, `singleAzimuth`, `degNorm`), `Model/Process.lean`.
Angles are degrees clockwise from north; `ns` is the component along the sensor's "north" axis.
-/
namespace HV.C04
open HV Classical Real

theorem radians_real (d : ℝ) : radians d = d * (π / 180) := by
  unfold radians; simp only [pi_real, ofNat_real, Nat.cast_ofNat]

/-- re-orienting preserves the horizontal energy sample by sample -/
theorem orient_energy (cur new : ℝ) (p : ℝ × ℝ) :
    (orientSample cur new p).1 ^ 2 + (orientSample cur new p).2 ^ 2 = p.1 ^ 2 + p.2 ^ 2 := by
  unfold orientSample
  simp only [cos_real, sin_real]
  have h := Real.sin_sq_add_cos_sq (radians (new - cur))
  nlinarith [h]

/-- re-orientations compose: going `a → b` and then `b → c` is going `a → c` -/
theorem orient_compose (a b c : ℝ) (p : ℝ × ℝ) :
    orientSample b c (orientSample a b p) = orientSample a c p := by
  unfold orientSample
  simp only [cos_real, sin_real, radians_real]
  have e : (c - a) * (π / 180) = (c - b) * (π / 180) + (b - a) * (π / 180) := by ring
  rw [e, Real.cos_add, Real.sin_add]
  ext <;> simp <;> ring

/-- re-orienting back restores the samples exactly (invertible) -/
theorem orient_inverse (a b : ℝ) (p : ℝ × ℝ) : orientSample b a (orientSample a b p) = p := by
  rw [orient_compose]
  unfold orientSample
  simp [radians_real]

/-- orientations that differ by whole turns give the same samples -/
theorem orient_mod360 (cur new : ℝ) (k : ℤ) (p : ℝ × ℝ) :
    orientSample cur (new + 360 * k) p = orientSample cur new p := by
  unfold orientSample
  simp only [cos_real, sin_real, radians_real]
  have e : (new + 360 * k - cur) * (π / 180) = (new - cur) * (π / 180) + k * (2 * π) := by ring
  rw [e, Real.cos_add_int_mul_two_pi, Real.sin_add_int_mul_two_pi]

/-- the stored orientation after normalisation lies in `[0, 360)` and differs from the request by whole turns -/
theorem degNorm_spec (d : ℝ) : 0 ≤ degNorm d ∧ degNorm d < 360 ∧ ∃ k : ℤ, degNorm d = d - 360 * k := by
  unfold degNorm
  simp only [ofNat_real, Nat.cast_ofNat, floor_real]
  have hcast : (ofInt ⌊d / 360⌋ : ℝ) = (⌊d / 360⌋ : ℝ) := by
    unfold ofInt
    cases h : ⌊d / 360⌋ with
    | ofNat n => simp [ofNat_real]
    | negSucc n => simp [ofNat_real, Int.negSucc_eq]
  rw [hcast]
  have h1 := Int.floor_le (d / 360)
  have h2 := Int.lt_floor_add_one (d / 360)
  refine ⟨?_, ?_, ⟨⌊d / 360⌋, rfl⟩⟩
  · have : (⌊d / 360⌋ : ℝ) * 360 ≤ d := by rw [← le_div_iff₀ (by norm_num)]; exact h1
    linarith
  · have : d < ((⌊d / 360⌋ : ℝ) + 1) * 360 := by rw [← div_lt_iff₀ (by norm_num)]; exact h2
    linarith

/-- **Polarised motion is recovered.** Motion `m` along the true azimuth `φ` recorded by a sensor deployed at
`d` (it records `m cos(φ−d)` on its north axis and `m sin(φ−d)` on its east axis) reappears on azimuth `φ` after
orienting the sensor to north. -/
theorem polarised_motion_recovered (m φ d : ℝ) :
    orientSample d 0 (m * Real.cos (radians (φ - d)), m * Real.sin (radians (φ - d))) =
      (m * Real.cos (radians φ), m * Real.sin (radians φ)) := by
  unfold orientSample
  simp only [cos_real, sin_real, radians_real]
  have e : φ * (π / 180) = (φ - d) * (π / 180) - (0 - d) * (π / 180) := by ring
  rw [e, Real.cos_sub, Real.sin_sub]
  ext <;> simp <;> ring

/-- **Single azimuth = north component after orienting the sensor to that azimuth**, for every current
orientation `cur` of the recording (the code projects at `a − cur`). -/
theorem singleAz_eq_oriented_north (cur a ns ew : ℝ) :
    singleAzimuth (a - cur) ns ew = (orientSample cur a (ns, ew)).1 := by
  unfold singleAzimuth orientSample
  simp only [cos_real, sin_real]
  ring

/-- the projection at `a + 180°` is the negative of the projection at `a` -/
theorem singleAz_180 (a ns ew : ℝ) : singleAzimuth (a + 180) ns ew = -singleAzimuth a ns ew := by
  unfold singleAzimuth
  simp only [cos_real, sin_real, radians_real]
  have e : (a + 180) * (π / 180) = a * (π / 180) + π := by ring
  rw [e, Real.cos_add_pi, Real.sin_add_pi]
  ring

/-- hence the amplitude spectrum, and with it the single-azimuth HVSR, is 180°-periodic -/
theorem singleAz_series_180 (a : ℝ) (ns ew : List ℝ) :
    singleAzimuthSeries (a + 180) ns ew = (singleAzimuthSeries a ns ew).map (fun x => (-1) * x) := by
  unfold singleAzimuthSeries
  rw [List.map_map]
  apply List.map_congr_left
  intro p _
  simp [singleAz_180]

/-- **Rotation invariance of the energy combinations**, stated on the (re, im) parts `N = (a, a')`, `E = (b, b')`
of the spectra of the two tapered horizontals (taper and DFT are linear, so the rotated components have spectra
`cN + sE` and `cE − sN`): `|cN+sE|² + |cE−sN|² = |N|² + |E|²`. The squared-average family, the
total-horizontal-energy family and the diffuse-field sum `P_ns + P_ew` are functions of this quantity. -/
theorem rotation_invariant_energy (c s a a' b b' : ℝ) (h : c ^ 2 + s ^ 2 = 1) :
    ((c * a + s * b) ^ 2 + (c * a' + s * b') ^ 2) + ((c * b - s * a) ^ 2 + (c * b' - s * a') ^ 2)
      = (a ^ 2 + a' ^ 2) + (b ^ 2 + b' ^ 2) := by
  nlinarith [h]

/-- **The azimuthal result is the stack of the single-azimuth results** whenever the stored FFT state is a fixed
point of `prepare_fft_settings` (every state except `{"n": None}`, cf. `C01.prepareFft_idem_iff`). -/
theorem azimuthal_is_stack (azs : List ℝ) (cfg : ProcCfg ℝ) (fft : FftState) (pol : Policy) (recs : List (Rec3 ℝ))
    (hfix : prepareFft (prepareFft fft (maxSamples recs)) (maxSamples recs) = prepareFft fft (maxSamples recs))
    (st : FftState) (out : List (ProcResult ℝ))
    (h : processAzimuthal azs cfg fft pol recs = .ok (st, out)) :
    st = prepareFft fft (maxSamples recs) ∧
    out.map Except.ok = azs.map (fun az => processTraditional (.singleAz az) cfg (prepareFft fft (maxSamples recs)) pol recs) := by
  unfold processAzimuthal at h
  set f0 := prepareFft fft (maxSamples recs) with hf0
  have herr : ∀ (l : List ℝ) (e : String), l.foldl (azStep cfg pol recs) (.error e) = .error e := by
    intro l e; induction l with
    | nil => rfl
    | cons a t iht => simp only [List.foldl_cons, azStep]; exact iht
  have key : ∀ (azs : List ℝ) (acc : List (ProcResult ℝ)) (st : FftState) (out : List (ProcResult ℝ)),
      azs.foldl (azStep cfg pol recs) (.ok (f0, acc)) = .ok (st, out) →
      st = f0 ∧ out.map Except.ok = acc.map Except.ok ++ azs.map (fun az => processTraditional (.singleAz az) cfg f0 pol recs) := by
    intro azs
    induction azs with
    | nil =>
      intro acc st out h
      simp only [List.foldl_nil, Except.ok.injEq, Prod.mk.injEq] at h
      obtain ⟨h1, h2⟩ := h
      subst h1 h2
      simp
    | cons az azs ih =>
      intro acc st out h
      simp only [List.foldl_cons] at h
      cases hp : processTraditional (.singleAz az) cfg f0 pol recs with
      | error e =>
        simp only [azStep, hp] at h
        rw [herr] at h
        cases h
      | ok r =>
        simp only [azStep, hp] at h
        have hr : r.fft = f0 := by
          unfold processTraditional at hp
          simp only at hp
          split at hp
          · cases hp
          · split at hp
            · cases hp
            · split at hp
              · cases hp
              · split at hp
                · cases hp
                · injection hp with hp; rw [← hp]; exact hfix
        rw [hr] at h
        obtain ⟨h1, h2⟩ := ih (acc ++ [r]) st out h
        refine ⟨h1, ?_⟩
        rw [h2]
        simp [hp]
  have := key azs [] st out h
  simpa using this

/-! ### RotDpp: the percentile over the azimuths -/

/-- **RotDpp is non-decreasing in the percentile** (numpy's 'linear' percentile of the values over the azimuths). -/
theorem percentile_mono (vals : List ℝ) (q₁ q₂ : ℝ) (h0 : 0 ≤ q₁) (h12 : q₁ ≤ q₂) (h2 : q₂ ≤ 100) (hne : vals ≠ []) :
    percentile vals q₁ ≤ percentile vals q₂ := by
  rw [percentile_eq_interp vals q₁ h0 (le_trans h12 h2) hne, percentile_eq_interp vals q₂ (le_trans h0 h12) h2 hne]
  apply interp_mono _ (nodes_mono _ (sortA_sorted vals))
  · positivity
  · have : (0:ℝ) ≤ ((vals.length - 1 : ℕ) : ℝ) := by positivity
    have := mul_le_mul_of_nonneg_left h12 this
    linarith

/-- **RotDpp is bounded by the minimum and the maximum over the azimuths.** -/
theorem percentile_bounds (vals : List ℝ) (q : ℝ) (h0 : 0 ≤ q) (h1 : q ≤ 100) (hne : vals ≠ []) :
    (∃ lo ∈ vals, lo ≤ percentile vals q) ∧ (∃ hi ∈ vals, percentile vals q ≤ hi) ∧
    (∀ lo, (∀ v ∈ vals, lo ≤ v) → lo ≤ percentile vals q) ∧ (∀ hi, (∀ v ∈ vals, v ≤ hi) → percentile vals q ≤ hi) := by
  rw [percentile_eq_interp vals q h0 h1 hne]
  set h : ℝ := ((vals.length - 1 : ℕ) : ℝ) * q / 100 with hh
  have hpos : 0 ≤ h := by positivity
  obtain ⟨hb1, hb2⟩ := interp_between (nodes (sortA vals)) (nodes_mono _ (sortA_sorted vals)) h hpos
  have hlen : 0 < (sortA vals).length := by rw [length_sortA]; exact List.length_pos_iff.mpr hne
  have node_mem : ∀ i, nodes (sortA vals) i ∈ vals := by
    intro i
    unfold nodes
    have hi : min i ((sortA vals).length - 1) < (sortA vals).length := by omega
    simp only [List.getD_eq_getElem?_getD, List.getElem?_eq_getElem hi, Option.getD_some]
    exact (mem_sortA vals _).mp (List.getElem_mem hi)
  refine ⟨⟨_, node_mem _, hb1⟩, ⟨_, node_mem _, hb2⟩, ?_, ?_⟩
  · intro lo hlo; exact le_trans (hlo _ (node_mem _)) hb1
  · intro hi hhi; exact le_trans hb2 (hhi _ (node_mem _))

/-! ### Non-vacuity -/
example : (orientSample (0 : ℝ) 0 (3, 4)) = (3, 4) := by
  unfold orientSample; simp [radians_real]

end HV.C04
