import HvsrVerif.Proofs.ListLemmas
import HvsrVerif.Model.Smoothing
import Mathlib.Tactic.Positivity
import Mathlib.Analysis.SpecialFunctions.Pow.Real
/-!
# C02 — Smoothing operators are the published normalised kernels

Model: `Model/Smoothing.lean`. All statements over `ℝ`.
-/
namespace HV.C02
open HV Classical

/-- contributing `(weight, sample)` pairs at centre frequency `fc` -/
def contrib (weight : ℝ → ℝ → Option ℝ) (freqs row : List ℝ) (fc : ℝ) : List (ℝ × ℝ) :=
  (List.zip freqs row).filterMap (fun p => (weight p.1 fc).map (fun w => (w, p.2)))

/-- **Normalised weighted average.** At a centre frequency not below the `1e-6` guard the smoothed value is
`Σ wᵢ xᵢ / Σ wᵢ` over the contributing samples when `Σ wᵢ > 0`, and zero otherwise (in particular where no
sample falls inside the window); below the guard it is zero. -/
theorem smooth_is_normalised_average (weight : ℝ → ℝ → Option ℝ) (freqs row : List ℝ) (fc : ℝ) :
    kernelSmoothRow weight freqs row fc =
      if fc < 1e-6 then 0
      else if 0 < ((contrib weight freqs row fc).map (·.1)).sum
        then ((contrib weight freqs row fc).map (fun p => p.1 * p.2)).sum / ((contrib weight freqs row fc).map (·.1)).sum
        else 0 := by
  unfold kernelSmoothRow contrib guard
  simp only [sumA_real, ofNat_real, Nat.cast_zero, lit_real, smoothConsts]
  norm_num

theorem zero_where_no_sample (weight : ℝ → ℝ → Option ℝ) (freqs row : List ℝ) (fc : ℝ)
    (h : contrib weight freqs row fc = []) : kernelSmoothRow weight freqs row fc = 0 := by
  rw [smooth_is_normalised_average, h]
  simp

/-- a window that reaches samples but gives every one of them the weight 0 (a triangular window whose only samples sit exactly on its two
edges) yields 0 as well -- never 0/0 (the boundary of seed C02-W, exercised by the exact stream of `harness/c02.py`) -/
theorem zero_where_no_weight (weight : ℝ → ℝ → Option ℝ) (freqs row : List ℝ) (fc : ℝ)
    (h : ∀ p ∈ contrib weight freqs row fc, p.1 = 0) : kernelSmoothRow weight freqs row fc = 0 := by
  rw [smooth_is_normalised_average]
  have hs : ((contrib weight freqs row fc).map (·.1)).sum = 0 := by
    apply List.sum_eq_zero
    intro x hx
    obtain ⟨p, hp, rfl⟩ := List.mem_map.mp hx
    exact h p hp
  rw [hs]
  simp

theorem sum_mul_const (ps : List (ℝ × ℝ)) (c : ℝ) (h : ∀ p ∈ ps, p.2 = c) :
    (ps.map (fun p => p.1 * p.2)).sum = (ps.map (·.1)).sum * c := by
  induction ps with
  | nil => simp
  | cons p t ih =>
    simp only [List.map_cons, List.sum_cons]
    rw [ih (fun q hq => h q (List.mem_cons_of_mem _ hq)), h p List.mem_cons_self]; ring

/-- **A constant spectrum is reproduced exactly** wherever the window is not empty. -/
theorem smooth_const (weight : ℝ → ℝ → Option ℝ) (freqs row : List ℝ) (fc c : ℝ) (hfc : ¬ fc < 1e-6)
    (hrow : ∀ p ∈ contrib weight freqs row fc, p.2 = c)
    (hpos : 0 < ((contrib weight freqs row fc).map (·.1)).sum) :
    kernelSmoothRow weight freqs row fc = c := by
  rw [smooth_is_normalised_average, if_neg hfc, if_pos hpos, sum_mul_const _ c hrow]
  field_simp

theorem sum_le_of (ps : List (ℝ × ℝ)) (M : ℝ) (h1 : ∀ p ∈ ps, 0 ≤ p.1) (h2 : ∀ p ∈ ps, p.2 ≤ M) :
    (ps.map (fun p => p.1 * p.2)).sum ≤ M * (ps.map (·.1)).sum := by
  induction ps with
  | nil => simp
  | cons p t ih =>
    simp only [List.map_cons, List.sum_cons]
    have := ih (fun q hq => h1 q (List.mem_cons_of_mem _ hq)) (fun q hq => h2 q (List.mem_cons_of_mem _ hq))
    have hp1 := h1 p List.mem_cons_self
    have hp2 := h2 p List.mem_cons_self
    nlinarith [mul_le_mul_of_nonneg_left hp2 hp1]

theorem sum_ge_of (ps : List (ℝ × ℝ)) (m : ℝ) (h1 : ∀ p ∈ ps, 0 ≤ p.1) (h2 : ∀ p ∈ ps, m ≤ p.2) :
    m * (ps.map (·.1)).sum ≤ (ps.map (fun p => p.1 * p.2)).sum := by
  induction ps with
  | nil => simp
  | cons p t ih =>
    simp only [List.map_cons, List.sum_cons]
    have := ih (fun q hq => h1 q (List.mem_cons_of_mem _ hq)) (fun q hq => h2 q (List.mem_cons_of_mem _ hq))
    have hp1 := h1 p List.mem_cons_self
    have hp2 := h2 p List.mem_cons_self
    nlinarith [mul_le_mul_of_nonneg_left hp2 hp1]

/-- **Bounds.** With non-negative weights the output lies between the smallest and the largest contributing sample. -/
theorem smooth_between (weight : ℝ → ℝ → Option ℝ) (freqs row : List ℝ) (fc lo hi : ℝ) (hfc : ¬ fc < 1e-6)
    (hw : ∀ p ∈ contrib weight freqs row fc, 0 ≤ p.1)
    (hlo : ∀ p ∈ contrib weight freqs row fc, lo ≤ p.2) (hhi : ∀ p ∈ contrib weight freqs row fc, p.2 ≤ hi)
    (hpos : 0 < ((contrib weight freqs row fc).map (·.1)).sum) :
    lo ≤ kernelSmoothRow weight freqs row fc ∧ kernelSmoothRow weight freqs row fc ≤ hi := by
  rw [smooth_is_normalised_average, if_neg hfc, if_pos hpos]
  constructor
  · rw [le_div_iff₀ hpos]; exact sum_ge_of _ lo hw hlo
  · rw [div_le_iff₀ hpos]; exact sum_le_of _ hi hw hhi

theorem contrib_combo (weight : ℝ → ℝ → Option ℝ) (freqs x y : List ℝ) (fc a b : ℝ) (hlen : x.length = y.length) :
    ((contrib weight freqs (List.zipWith (fun u v => a * u + b * v) x y) fc).map (·.1)) =
      ((contrib weight freqs x fc).map (·.1)) ∧
    ((contrib weight freqs y fc).map (·.1)) = ((contrib weight freqs x fc).map (·.1)) ∧
    ((contrib weight freqs (List.zipWith (fun u v => a * u + b * v) x y) fc).map (fun p => p.1 * p.2)).sum =
      a * ((contrib weight freqs x fc).map (fun p => p.1 * p.2)).sum +
      b * ((contrib weight freqs y fc).map (fun p => p.1 * p.2)).sum := by
  unfold contrib
  induction freqs generalizing x y with
  | nil => simp
  | cons f fs ih =>
    cases x with
    | nil =>
      cases y with
      | nil => simp
      | cons _ _ => simp at hlen
    | cons u us =>
      cases y with
      | nil => simp at hlen
      | cons v vs =>
        have hl : us.length = vs.length := by simpa using hlen
        obtain ⟨h1, h2, h3⟩ := ih us vs hl
        simp only [List.zipWith_cons_cons, List.zip_cons_cons, List.filterMap_cons]
        cases hw : weight f fc with
        | none => simp only [Option.map_none]; exact ⟨h1, h2, h3⟩
        | some w =>
          simp only [Option.map_some, List.map_cons, List.sum_cons]
          refine ⟨by rw [h1], by rw [h2], ?_⟩
          rw [h3]; ring

/-- **Linearity.** Weights and branch conditions do not depend on the spectrum. -/
theorem smooth_linear (weight : ℝ → ℝ → Option ℝ) (freqs x y : List ℝ) (fc a b : ℝ) (hlen : x.length = y.length) :
    kernelSmoothRow weight freqs (List.zipWith (fun u v => a * u + b * v) x y) fc =
      a * kernelSmoothRow weight freqs x fc + b * kernelSmoothRow weight freqs y fc := by
  obtain ⟨h1, h2, h3⟩ := contrib_combo weight freqs x y fc a b hlen
  simp only [smooth_is_normalised_average]
  rw [h1, h2, h3]
  split
  · simp
  · split
    · rename_i hpos
      field_simp
    · simp

/-- **Row independence.** Row `i` of the result is the smoothing of row `i` alone. -/
theorem smooth_rows_independent (weight : ℝ → ℝ → Option ℝ) (freqs : List ℝ) (rows : List (List ℝ)) (fcs : List ℝ) (i : Nat) :
    (kernelSmooth weight freqs rows fcs)[i]? = (rows[i]?).map (fun r => fcs.map (kernelSmoothRow weight freqs r)) ∧
    ∀ r, kernelSmooth weight freqs [r] fcs = [fcs.map (kernelSmoothRow weight freqs r)] := by
  constructor
  · unfold kernelSmooth; simp
  · intro r; rfl

/-! ### The kernels -/

theorem sinc4_eq (w : ℝ) : sinc4 w = (Real.sin w / w) ^ 4 := by
  unfold sinc4; simp only [sin_real]; ring

theorem sinc4_nonneg (w : ℝ) : 0 ≤ sinc4 w := by rw [sinc4_eq]; positivity

/-- Konno–Ohmachi: inside the window the weight is `(sin u / u)^4`, `u = b·log₁₀(f/fc)` (1 within `1e-6` of `fc`). -/
theorem ko_is_sinc4 (bw f fc w : ℝ) (h : koWeight bw f fc = some w) :
    w = 1 ∨ w = (Real.sin (bw * (Real.log (f / fc) / Real.log 10)) / (bw * (Real.log (f / fc) / Real.log 10))) ^ 4 := by
  unfold koWeight at h
  simp only at h
  split at h
  · cases h
  · split at h
    · left; injection h with h; simpa using h.symm
    · right; injection h with h; rw [← h, sinc4_eq]; simp [log10A]

/-- Parzen: `(sin u / u)^4`, `u = a (f − fc)/b`, `a = 280π/302`. -/
theorem parzen_is_sinc4 (bw f fc w : ℝ) (h : parzenWeight bw f fc = some w) :
    w = 1 ∨ w = (Real.sin (Real.pi * 280 / (2 * 151) * (f - fc) / bw) / (Real.pi * 280 / (2 * 151) * (f - fc) / bw)) ^ 4 := by
  unfold parzenWeight at h
  simp only at h
  split at h
  · cases h
  · split at h
    · left; injection h with h; simpa using h.symm
    · right; injection h with h; rw [← h, sinc4_eq]; simp [parzenA, smoothConsts]

theorem ko_nonneg (bw f fc w : ℝ) (h : koWeight bw f fc = some w) : 0 ≤ w := by
  rcases ko_is_sinc4 bw f fc w h with h | h <;> rw [h] <;> positivity

theorem parzen_nonneg (bw f fc w : ℝ) (h : parzenWeight bw f fc = some w) : 0 ≤ w := by
  rcases parzen_is_sinc4 bw f fc w h with h | h <;> rw [h] <;> positivity

/-- rectangular windows: the indicator of `|f − fc| ≤ b/2` (samples below `1e-6` excluded) -/
theorem linRect_is_indicator (bw f fc : ℝ) :
    linRectWeight bw f fc = if f < 1e-6 ∨ bw / 2 < |f - fc| then none else some 1 := by
  unfold linRectWeight guard
  simp only [lit_real, smoothConsts, ofNat_real, absA_real]
  norm_num

/-- triangular window: the hat `1 − |f − fc|·2/b` on `|f − fc| ≤ b/2` -/
theorem linTri_is_hat (bw f fc : ℝ) :
    linTriWeight bw f fc = if f < 1e-6 ∨ bw / 2 < |f - fc| then none else some (1 - |f - fc| * (2 / bw)) := by
  unfold linTriWeight guard
  simp only [lit_real, smoothConsts, ofNat_real, absA_real]
  norm_num

/-- a sample exactly on the edge of the triangular window is reached and has the weight 0 (the premise of `zero_where_no_weight` is met by real grids:
`f = 7.5, 8.0`, `fc = 7.75`, `b = 0.5`) -/
theorem linTri_edge_weight_zero : linTriWeight (0.5 : ℝ) 7.5 7.75 = some 0 ∧ linTriWeight (0.5 : ℝ) 8.0 7.75 = some 0 := by
  constructor <;> rw [linTri_is_hat] <;> norm_num [abs_of_nonneg, abs_of_neg]

theorem linRect_nonneg (bw f fc w : ℝ) (h : linRectWeight bw f fc = some w) : 0 ≤ w := by
  rw [linRect_is_indicator] at h
  split at h
  · cases h
  · injection h with h; rw [← h]; norm_num

theorem linTri_nonneg (bw f fc w : ℝ) (hbw : 0 < bw) (h : linTriWeight bw f fc = some w) : 0 ≤ w := by
  rw [linTri_is_hat] at h
  split at h
  · cases h
  · rename_i hc
    injection h with h
    rw [← h]
    have : |f - fc| ≤ bw / 2 := by
      by_contra hh; exact hc (Or.inr (not_le.mp hh))
    have : |f - fc| * (2 / bw) ≤ 1 := by
      rw [mul_div_assoc']
      rw [div_le_one hbw]
      linarith
    linarith

theorem logRect_nonneg (bw f fc w : ℝ) (h : logRectWeight bw f fc = some w) : 0 ≤ w := by
  unfold logRectWeight at h
  simp only at h
  split at h
  · cases h
  · injection h with h; rw [← h]; simp

theorem pow10A_real (x : ℝ) : pow10A x = (10 : ℝ) ^ x := by
  unfold pow10A
  simp only [exp_real, log_real, ofNat_real, Nat.cast_ofNat]
  rw [Real.rpow_def_of_pos (by norm_num : (0:ℝ) < 10)]
  ring_nf

/-- log-triangular window is non-negative on its support: `10^(−b/2) ≤ f/fc ≤ 10^(b/2)` forces
`|log₁₀(f/fc)| ≤ b/2`. -/
theorem logTri_nonneg (bw f fc w : ℝ) (hbw : 0 < bw) (h : logTriWeight bw f fc = some w) : 0 ≤ w := by
  unfold logTriWeight at h
  simp only at h
  split at h
  · cases h
  · rename_i hc
    injection h with h
    rw [← h]
    simp only [not_or, not_lt] at hc
    obtain ⟨_, hlo, hhi⟩ := hc
    rw [pow10A_real] at hlo hhi
    simp only [ofNat_real, Nat.cast_ofNat, Nat.cast_one, absA_real, log10A, log_real] at hlo hhi ⊢
    have hr : 0 < f / fc := lt_of_lt_of_le (Real.rpow_pos_of_pos (by norm_num) _) hlo
    have hl10 : 0 < Real.log 10 := Real.log_pos (by norm_num)
    have h1 : -(bw / 2) * Real.log 10 ≤ Real.log (f / fc) := by
      have := Real.log_le_log (Real.rpow_pos_of_pos (by norm_num : (0:ℝ) < 10) _) hlo
      rwa [Real.log_rpow (by norm_num : (0:ℝ) < 10)] at this
    have h2 : Real.log (f / fc) ≤ bw / 2 * Real.log 10 := by
      have := Real.log_le_log hr hhi
      rwa [Real.log_rpow (by norm_num : (0:ℝ) < 10)] at this
    have habs : |Real.log (f / fc) / Real.log 10| ≤ bw / 2 := by
      rw [abs_le]
      constructor
      · rw [le_div_iff₀ hl10]; linarith
      · rw [div_le_iff₀ hl10]; linarith
    have : |Real.log (f / fc) / Real.log 10| * (2 / bw) ≤ 1 := by
      rw [mul_div_assoc', div_le_one hbw]; linarith
    linarith

/-! ### Savitzky–Golay -/

theorem sgCoeff_real (m i : Nat) : (sgCoeff m i : ℝ) = (3 * (m : ℝ) * m - 7 - 20 * ((i : ℝ) * i)) / 4 := by
  unfold sgCoeff
  simp only [lit_real, smoothConsts, ofNat_real]
  norm_num

theorem sgNorm_real (m : Nat) : (sgNorm m : ℝ) = (m : ℝ) * ((m : ℝ) * m - 4) / 3 := by
  unfold sgNorm
  simp only [lit_real, smoothConsts, ofNat_real]
  norm_num

theorem sum_sq (k : ℕ) : ((List.range k).map (fun r : ℕ => ((r : ℝ) + 1) ^ 2)).sum = (k : ℝ) * (k + 1) * (2 * k + 1) / 6 := by
  induction k with
  | zero => simp
  | succ n ih => rw [List.range_succ, List.map_append, List.sum_append, ih]; simp; ring

theorem sum_four (k : ℕ) :
    ((List.range k).map (fun r : ℕ => ((r : ℝ) + 1) ^ 4)).sum = (k : ℝ) * (k + 1) * (2 * k + 1) * (3 * k ^ 2 + 3 * k - 1) / 30 := by
  induction k with
  | zero => simp
  | succ n ih => rw [List.range_succ, List.map_append, List.sum_append, ih]; simp; ring

theorem sum_lin (l : List ℕ) (A B : ℝ) (g : ℕ → ℝ) :
    (l.map (fun r => A * g r + B)).sum = A * (l.map g).sum + B * l.length := by
  induction l with
  | nil => simp
  | cons a t ih => simp only [List.map_cons, List.sum_cons, List.length_cons, ih]; push_cast; ring

/-- zeroth moment: `c₀ + 2 Σ_{r=1..k} c_r = N` for `m = 2k+1` -/
theorem sg_m0 (k : ℕ) :
    (sgCoeff (2 * k + 1) 0 : ℝ) + 2 * ((List.range k).map (fun r => (sgCoeff (2 * k + 1) (r + 1) : ℝ))).sum
      = sgNorm (2 * k + 1) := by
  simp only [sgCoeff_real, sgNorm_real]
  have e : (fun r : ℕ => (3 * ((2 * k + 1 : ℕ) : ℝ) * ((2 * k + 1 : ℕ) : ℝ) - 7 - 20 * (((r + 1 : ℕ) : ℝ) * ((r + 1 : ℕ) : ℝ))) / 4)
      = fun r : ℕ => (-5) * (((r : ℝ) + 1) ^ 2) + (3 * ((2 * k + 1 : ℕ) : ℝ) * ((2 * k + 1 : ℕ) : ℝ) - 7) / 4 := by
    funext r; push_cast; ring
  rw [e, sum_lin (List.range k) (-5) _ (fun r : ℕ => ((r : ℝ) + 1) ^ 2), sum_sq]
  simp only [List.length_range]
  push_cast
  ring

/-- second moment vanishes: `Σ_{r=1..k} c_r r² = 0` -/
theorem sg_m2 (k : ℕ) :
    ((List.range k).map (fun r => (sgCoeff (2 * k + 1) (r + 1) : ℝ) * ((r : ℝ) + 1) ^ 2)).sum = 0 := by
  simp only [sgCoeff_real]
  have e : (fun r : ℕ => (3 * ((2 * k + 1 : ℕ) : ℝ) * ((2 * k + 1 : ℕ) : ℝ) - 7 - 20 * (((r + 1 : ℕ) : ℝ) * ((r + 1 : ℕ) : ℝ))) / 4 * ((r : ℝ) + 1) ^ 2)
      = fun r : ℕ => (-5) * (((r : ℝ) + 1) ^ 4) + ((3 * ((2 * k + 1 : ℕ) : ℝ) * ((2 * k + 1 : ℕ) : ℝ) - 7) / 4) * ((r : ℝ) + 1) ^ 2 := by
    funext r; push_cast; ring
  rw [e]
  have split : ∀ (l : List ℕ) (A B : ℝ),
      (l.map (fun r : ℕ => A * (((r : ℝ) + 1) ^ 4) + B * ((r : ℝ) + 1) ^ 2)).sum
        = A * (l.map (fun r : ℕ => ((r : ℝ) + 1) ^ 4)).sum + B * (l.map (fun r : ℕ => ((r : ℝ) + 1) ^ 2)).sum := by
    intro l A B
    induction l with
    | nil => simp
    | cons a t ih => simp only [List.map_cons, List.sum_cons, ih]; ring
  rw [split, sum_four, sum_sq]
  push_cast
  ring

theorem foldl_add_eq (l : List ℝ) (x : ℝ) : l.foldl (· + ·) x = x + l.sum := by
  induction l generalizing x with
  | nil => simp
  | cons a t ih => simp only [List.foldl_cons, List.sum_cons, ih]; ring

theorem getD_map_range (n : ℕ) (f : ℕ → ℝ) (j : ℕ) (hj : j < n) : ((List.range n).map f).getD j 0 = f j := by
  simp [List.getD, hj]

theorem sum_map_add_mul (l : List ℕ) (P Q : ℝ) (g h : ℕ → ℝ) :
    (l.map (fun r => g r * (2 * P + h r * Q))).sum = 2 * P * (l.map g).sum + Q * (l.map (fun r => g r * h r)).sum := by
  induction l with
  | nil => simp
  | cons a t ih => simp only [List.map_cons, List.sum_cons, ih]; ring

/-- **Savitzky–Golay reproduces cubic polynomials**: on a uniform grid (polynomial in the sample index), for an odd
window `m = 2k+1 ≥ 3` and an index at which the operator is defined, the smoothed value is the polynomial's value
at the centre. -/
theorem sg_reproduces_cubic (k : ℕ) (hk : 1 ≤ k) (a b c d : ℝ) (n i : ℕ) (hlo : k + 1 ≤ i) (hhi : i + (k + 1) ≤ n) :
    sgAt (2 * k + 1) ((List.range n).map (fun j : ℕ => a * (j : ℝ) ^ 3 + b * (j : ℝ) ^ 2 + c * j + d)) (i : Int)
      = a * (i : ℝ) ^ 3 + b * (i : ℝ) ^ 2 + c * i + d := by
  set p : ℕ → ℝ := fun j : ℕ => a * (j : ℝ) ^ 3 + b * (j : ℝ) ^ 2 + c * j + d with hp
  unfold sgAt
  have hk2 : (2 * k + 1 - 1) / 2 = k := by omega
  simp only [hk2, List.length_map, List.length_range, Int.toNat_natCast]
  have hcond : ¬ ((i : Int) < ((k + 1 : ℕ) : Int) ∨ ((n : ℕ) : Int) < (i : Int) + ((k + 1 : ℕ) : Int)) := by
    rw [not_or]; constructor <;> omega
  rw [if_neg hcond, foldl_add_eq]
  simp only [ofNat_real, Nat.cast_zero]
  rw [getD_map_range n p i (by omega)]
  have hside : (List.range k).map (fun r => (sgCoeff (2 * k + 1) (r + 1) : ℝ) *
        (((List.range n).map p).getD (i + (r + 1)) 0 + ((List.range n).map p).getD (i - (r + 1)) 0))
      = (List.range k).map (fun r => (sgCoeff (2 * k + 1) (r + 1) : ℝ) *
        (2 * p i + (((r : ℝ) + 1) ^ 2) * (6 * a * i + 2 * b))) := by
    apply List.map_congr_left
    intro r hr
    have hrk : r < k := List.mem_range.mp hr
    rw [getD_map_range n p _ (by omega), getD_map_range n p _ (by omega)]
    congr 1
    simp only [hp]
    have hsub : ((i - (r + 1) : ℕ) : ℝ) = (i : ℝ) - ((r : ℝ) + 1) := by
      rw [Nat.cast_sub (by omega)]; push_cast; ring
    rw [hsub]
    push_cast
    ring
  rw [hside, sum_map_add_mul (List.range k) (p i) (6 * a * i + 2 * b) (fun r => (sgCoeff (2 * k + 1) (r + 1) : ℝ))
    (fun r => ((r : ℝ) + 1) ^ 2), sg_m2, mul_zero, add_zero]
  have hm0 := sg_m0 k
  have hN : (sgNorm (2 * k + 1) : ℝ) ≠ 0 := by
    rw [sgNorm_real]
    have : (1 : ℝ) ≤ k := by exact_mod_cast hk
    push_cast
    have : (0:ℝ) < (2 * k + 1) * ((2 * k + 1) * (2 * k + 1) - 4) := by nlinarith
    positivity
  rw [div_eq_iff hN]
  have : (sgCoeff (2 * k + 1) 0 : ℝ) * p i + 2 * p i * ((List.range k).map (fun r => (sgCoeff (2 * k + 1) (r + 1) : ℝ))).sum
      = p i * ((sgCoeff (2 * k + 1) 0 : ℝ) + 2 * ((List.range k).map (fun r => (sgCoeff (2 * k + 1) (r + 1) : ℝ))).sum) := by ring
  rw [this, hm0]

/-! ### Non-vacuity -/
example : linRectWeight (1 : ℝ) 2 2.25 = some 1 := by rw [linRect_is_indicator]; norm_num [abs_of_neg]
example : (sgCoeff 5 0 : ℝ) + 2 * ((sgCoeff 5 1 : ℝ) + sgCoeff 5 2) = sgNorm 5 := by
  simp only [sgCoeff_real, sgNorm_real]; norm_num

end HV.C02
