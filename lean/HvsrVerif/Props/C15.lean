import HvsrVerif.Proofs.Settings
/-!
# C15 — Settings round-trip through files and are independent of one another

Property theorems only; the model is `Model/Settings.lean` (heap with aliasing, class table,
JSON files, the reader's dispatch chain), the lemmas are in `Proofs/Settings.lean`, and
`Bridge/C15.lean` ties the class table / dispatch chain / method register to the source and decides
the table hypothesis (`tableOK settingsParams`).

Vocabulary. `initState d n`: the state right after `import hvsrpy` — group 0 holds the default
objects `d` of the eight signatures, group 1 (the caller's variables) is empty. A history is a list
of `Op`; an operation that raises leaves the state unchanged (`stepD`). `Op.target σ op` is the group
the operation works on (a constructor / the reader work on the object they create).
`Op.safe t op` excludes three things that are outside the property: touching group 0 directly,
the caller assigning one of its own containers to an attribute (`assignVar`, plain Python aliasing),
and passing a caller *variable* to a parameter that the constructor stores without a deep copy. For
the table of the current tree the last item concerns exactly `fft_settings` and
`instrument_transfer_function` (stored by alias: findings C15-c, C15-d; see
`fft_settings_alias_is_shared`).
-/
namespace HV.C15
open HV.Settings

/-! ## Settings objects do not share state -/

/-- **Non-interference.** If every parameter whose default is mutable is stored by a copy deep
enough for the kind of that default (`tableOK`, decided on the extracted table in `Bridge/C15`),
then for EVERY history of safe operations (construct with omitted / literal / caller-variable
arguments, in-place writes at any path through any object or through the caller's variables,
assignments, save, load, type-dispatching read) and every position in it, the operation performed
there changes no group other than its target: not another settings object (clause ii: its
`attr_dict`), not the caller's containers, and not the default objects of the signatures. -/
theorem noninterference (t : Table) (hT : tableOK t = true)
    (d : List (String × Val)) (n : Nat) (hd : conforms t d = true) (hn : ∀ i ∈ idsF d, i < n)
    (hist : List Op) (hsafe : ∀ op ∈ hist, op.safe t = true)
    (pre post : List Op) (op : Op) (hsplit : hist = pre ++ op :: post) :
    (∀ g grp, (run t (initState d n) pre).groups[g]? = some grp →
        g ≠ op.target (run t (initState d n) pre) →
        (stepD t (run t (initState d n) pre) op).groups[g]? = some grp) ∧
    (∀ b, b ≠ op.target (run t (initState d n) pre) → b < (run t (initState d n) pre).groups.length →
        attrDict t (stepD t (run t (initState d n) pre) op) b = attrDict t (run t (initState d n) pre) b) := by
  have hpre : ∀ o ∈ pre, o.safe t = true := fun o ho => hsafe o (by rw [hsplit]; simp [ho])
  have hop : op.safe t = true := hsafe op (by rw [hsplit]; simp)
  have hI := run_inv pre (init_inv hT hd hn) hpre
  have hframe := stepD_frame hI hop
  refine ⟨hframe, ?_⟩
  intro b hb hlt
  have hg : (run t (initState d n) pre).groups[b]? = some ((run t (initState d n) pre).groups[b]'hlt) := by
    simp
  simp only [attrDict, hg, hframe b _ hg hb]

theorem group0_unchanged (t : Table) : ∀ (ops : List Op) (σ : State), Inv t σ →
    (∀ op ∈ ops, op.safe t = true) → (run t σ ops).groups[0]? = σ.groups[0]?
  | [], _, _, _ => rfl
  | op :: ops, σ, hI, hsafe => by
    have hop : op.safe t = true := hsafe op List.mem_cons_self
    have hI' := stepD_inv hI hop
    have ih := group0_unchanged t ops (stepD t σ op) hI' (fun o ho => hsafe o (List.mem_cons_of_mem _ ho))
    simp only [run, List.foldl_cons] at ih ⊢
    rw [ih]
    obtain ⟨g0, hg0⟩ : ∃ g0, σ.groups[0]? = some g0 := ⟨σ.groups[0]'hI.pos, by simp⟩
    rw [hg0]
    by_cases hs : ∃ g, op = .save g
    · obtain ⟨g, rfl⟩ := hs
      unfold stepD
      cases h : step t σ (.save g) with
      | none => exact hg0
      | some σ' => exact (save_step 1 h).frame 0 _ hg0 (by omega)
    · exact stepD_frame hI hop 0 _ hg0 (fun e => target_ne_zero hI hop (fun g e' => hs ⟨g, e'⟩) e.symm)

/-- the default objects of the signatures are, after any safe history, exactly what they were when
the module was imported -/
theorem defaults_unchanged (t : Table) (hT : tableOK t = true)
    (d : List (String × Val)) (n : Nat) (hd : conforms t d = true) (hn : ∀ i ∈ idsF d, i < n)
    (hist : List Op) (hsafe : ∀ op ∈ hist, op.safe t = true) :
    (run t (initState d n) hist).groups[0]? = some ⟨none, d⟩ := by
  rw [group0_unchanged t hist _ (init_inv hT hd hn) hsafe]
  simp [initState]

/-- **Objects created later show pristine defaults.** After any safe history, `Cls()` has the
`attr_dict` that `Cls()` had right after import (both sides are `none` only if the constructor
itself raises on the pristine defaults). -/
theorem later_objects_pristine (t : Table) (hT : tableOK t = true)
    (d : List (String × Val)) (n : Nat) (hd : conforms t d = true) (hn : ∀ i ∈ idsF d, i < n)
    (hist : List Op) (hsafe : ∀ op ∈ hist, op.safe t = true) (c : Class) :
    attrDict t (stepD t (run t (initState d n) hist) (.construct c []))
        (run t (initState d n) hist).groups.length =
      attrDict t (stepD t (initState d n) (.construct c [])) 2 := by
  have h0 := defaults_unchanged t hT d n hd hn hist hsafe
  have := construct_default_attrDict t (run t (initState d n) hist) (initState d n) c
    (by rw [h0]; simp [initState])
  simpa [initState] using this

/-! ## Settings round-trip through files -/

/-- **save → load.** Names in `self.attrs` being distinct, once `save` has written the object `g`,
`load` of that file into ANY object `g'` of the same class (the object itself, a fresh one, one with
arbitrary other content) succeeds and makes its `attr_dict` equal in content to the original's
(`attrDict` reads tuples and arrays as lists; `Json.toVal` creates lists — proved by induction on
`Json`, `toVal_canon`). -/
theorem save_load_content (t : Table) (σ σ1 : State) (g g' : Nat) (c : Class)
    (fs fs' : List (String × Val))
    (hnd : ((t c).map (·.name)).Nodup)
    (hg : σ.groups[g]? = some ⟨some c, fs⟩) (hg' : σ.groups[g']? = some ⟨some c, fs'⟩)
    (hs : save t σ g = some σ1) :
    ∃ σ2, load σ1 g' σ.files.length = some σ2 ∧ attrDict t σ2 g' = attrDict t σ g := by
  obtain ⟨c0, fs0, f, hg0, hf, rfl⟩ := save_spec hs
  rw [hg] at hg0
  simp only [Option.some.injEq, Group.mk.injEq] at hg0
  obtain ⟨rfl, rfl⟩ := hg0
  have hlt : g' < σ.groups.length := by
    rcases Nat.lt_or_ge g' σ.groups.length with h | h
    · exact h
    · rw [List.getElem?_eq_none h] at hg'; cases hg'
  refine ⟨_, by simp only [load, hg', List.getElem?_concat_length]; rfl, ?_⟩
  simp only [attrDict, List.getElem?_set_self hlt, hg]
  rw [attrsCanon_loadFields (t c) hnd fs fs' f σ.next hf, hf]

/-- the names in `self.attrs` are distinct for the eight classes -/
theorem attrs_nodup (c : Class) : ((settingsParams c).map (·.name)).Nodup := by
  cases c <;> decide

/-- **save → `read_settings_object_from_file`.** If the reader, looking at the file written from
object `g`, picks the class of `g` (see `dispatch_class`), the object it returns has an `attr_dict`
equal in content to the original's. -/
theorem save_read_content (t : Table) (σ σ1 σ2 : State) (g : Nat) (c : Class)
    (fs : List (String × Val)) (f : File)
    (hnd : ((t c).map (·.name)).Nodup)
    (hg : σ.groups[g]? = some ⟨some c, fs⟩)
    (hs : save t σ g = some σ1) (hf : attrDict t σ g = some f) (hd : dispatch f = some c)
    (hr : dispatchLoad t σ1 σ.files.length = some σ2) :
    σ2.groups.length = σ.groups.length + 1 ∧
    (∃ fs2, σ2.groups[σ.groups.length]? = some ⟨some c, fs2⟩) ∧
    attrDict t σ2 σ.groups.length = attrDict t σ g := by
  obtain ⟨c0, fs0, f0, hg0, hf0, rfl⟩ := save_spec hs
  rw [hg] at hg0
  simp only [Option.some.injEq, Group.mk.injEq] at hg0
  obtain ⟨rfl, rfl⟩ := hg0
  have hff : f0 = f := by
    rw [attrDict_eq hg, hf0] at hf
    exact Option.some.inj hf
  subst hff
  simp only [dispatchLoad, List.getElem?_concat_length, hd] at hr
  split at hr
  · cases hr
  · rename_i σc hc
    -- the constructed object
    have hcl := construct_length hc
    unfold construct at hc
    simp only [List.all_nil, if_true] at hc
    split at hc
    · rename_i fsn n hb
      simp only [Option.some.injEq] at hc
      subst hc
      simp only [load, List.getElem?_concat_length, Option.some.injEq] at hr
      subst hr
      have hlen : σ.groups.length < (σ.groups ++ [(⟨some c, fsn⟩ : Group)]).length := by simp
      refine ⟨by simp, ⟨(loadFields fsn n f0).1, by simp only [List.getElem?_set_self hlen]⟩, ?_⟩
      simp only [attrDict, List.getElem?_set_self hlen, hg]
      rw [attrsCanon_loadFields (t c) hnd fs fsn f0 n hf0, hf0]
    · cases hc

/-! ## The reader returns the class that was saved -/

/-- expected content of the three discriminating keys in a file: `none` = key absent -/
def KeyIs (f : File) (k : String) : Option String → Prop
  | none => f.lookup k = none
  | some s => f.lookup k = some (.sc (.str s))

/-- registered values of `method_to_combine_horizontals` whose processing function is written for
class `c` (`TRADITIONAL_PROCESSING_REGISTER`, bridged in `Bridge/C15`) -/
def methodsOf (c : Class) : List String :=
  traditionalRegister.filterMap fun e => if classOfProcessingFn e.2 = some c then some e.1 else none

/-- **Dispatch.** For each of the eight classes — and, for the three traditional classes, for EVERY
registered `method_to_combine_horizontals` of that class, aliases included — a file carrying the
class's own `preprocessing_method` / `processing_method` (and that method) is read back as that
class, whatever else the file contains. -/
theorem dispatch_class (f : File) :
    (KeyIs f "preprocessing_method" (some "hvsr") → dispatch f = some .hvsrPre) ∧
    (KeyIs f "preprocessing_method" (some "psd") → dispatch f = some .psdPre) ∧
    (KeyIs f "preprocessing_method" none → KeyIs f "processing_method" (some "psd") →
      dispatch f = some .psdProc) ∧
    (KeyIs f "preprocessing_method" none → KeyIs f "processing_method" (some "azimuthal") →
      dispatch f = some .azimuthal) ∧
    (KeyIs f "preprocessing_method" none → KeyIs f "processing_method" (some "diffuse_field") →
      dispatch f = some .diffuse) ∧
    (∀ c ∈ [Class.trad, Class.singleAz, Class.rotDpp], ∀ m ∈ methodsOf c,
      KeyIs f "preprocessing_method" none → KeyIs f "processing_method" (some "traditional") →
      KeyIs f "method_to_combine_horizontals" (some m) → dispatch f = some c) := by
  refine ⟨?_, ?_, ?_, ?_, ?_, ?_⟩
  · intro h1
    simp only [KeyIs] at h1
    simp [dispatch, dispatchWith, dispatchTable, h1, dispatchRules, Json.isStr, Json.str?, Class.ofName,
      Class.all, Class.name]
  · intro h1
    simp only [KeyIs] at h1
    simp [dispatch, dispatchWith, dispatchTable, h1, dispatchRules, Json.isStr, Json.str?, Class.ofName,
      Class.all, Class.name]
  · intro h1 h2
    simp only [KeyIs] at h1 h2
    simp [dispatch, dispatchWith, dispatchTable, h1, h2, dispatchRules, Json.isStr, Json.str?, Class.ofName,
      Class.all, Class.name]
  · intro h1 h2
    simp only [KeyIs] at h1 h2
    simp [dispatch, dispatchWith, dispatchTable, h1, h2, dispatchRules, Json.isStr, Json.str?, Class.ofName,
      Class.all, Class.name]
  · intro h1 h2
    simp only [KeyIs] at h1 h2
    simp [dispatch, dispatchWith, dispatchTable, h1, h2, dispatchRules, Json.isStr, Json.str?, Class.ofName,
      Class.all, Class.name]
  · intro c hc m hm h1 h2 h3
    simp only [KeyIs] at h1 h2 h3
    simp only [List.mem_cons, List.mem_nil_iff, or_false] at hc
    rcases hc with rfl | rfl | rfl <;>
      simp [methodsOf, traditionalRegister, classOfProcessingFn] at hm <;>
      (try rcases hm with rfl | rfl | rfl | rfl | rfl | rfl | rfl | rfl | rfl) <;>
      (try rcases hm with rfl | rfl) <;>
      (try subst hm) <;>
      simp [dispatch, dispatchWith, dispatchTable, h1, h2, h3, dispatchRules, Json.isStr, Json.str?,
        Class.ofName, Class.all, Class.name]

/-- every registered method belongs to exactly one of the three traditional classes, so
`dispatch_class` covers the whole register (twelve names, `directional_energy` included) -/
theorem register_covered :
    ∀ e ∈ traditionalRegister, ∃ c ∈ [Class.trad, Class.singleAz, Class.rotDpp], e.1 ∈ methodsOf c := by
  decide

/-! ## Non-vacuity: the hypotheses hold on concrete data, and they are needed -/

/-- the hypotheses of `noninterference` on the table of the current tree: the table condition, … -/
example : tableOK settingsParams = true := by decide +kernel
/-- … default objects of the announced shapes below the allocation counter, … -/
example : conforms settingsParams (demoDefaults settingsParams).1 = true := by decide +kernel
example : ∀ i ∈ idsF (demoDefaults settingsParams).1, i < (demoDefaults settingsParams).2 := by decide +kernel

/-- … and a safe history that does what the property talks about: the caller keeps a list `w`,
object 2 is built from it, object 3 from the defaults; in-place writes through object 2 (list
element, array element inside the smoothing dict) and through the caller's own list; save; load
into object 3; type-dispatching read (object 4); one more default object (object 5). -/
def demoHist : List Op :=
  [.assign 1 "w" (.node 0 .list [.sc (.str "hann"), .sc (.flt 3)]),
   .construct .trad [("window_type_and_width", .var "w")],
   .construct .trad [],
   .mutate 2 "window_type_and_width" [] (.idx 1) (.sc (.flt 77)),
   .mutate 2 "smoothing" [.key "center_frequencies_in_hz"] (.idx 0) (.sc (.flt 9)),
   .mutate 1 "w" [] (.idx 1) (.sc (.flt 5)),
   .save 2,
   .load 3 0,
   .dispatchLoad 0,
   .construct .trad []]

example : ∀ op ∈ demoHist, op.safe settingsParams = true := by decide +kernel
example : allSucceed settingsParams (demoInit settingsParams) demoHist = true := by decide +kernel

/-- what the history shows (floats are bit patterns; here small numbers stand for them):
after the writes through object 2, object 3 and the caller still show their own values; after
`load`, object 3 shows object 2's content; the reader returns an object (group 4) with that content
too; the object built last shows the pristine defaults. -/
example :
    let σ5 := run settingsParams (demoInit settingsParams) (demoHist.take 5)
    let σ := run settingsParams (demoInit settingsParams) demoHist
    peek (attrDict settingsParams σ5 2) "window_type_and_width" [.idx 1] = some (Scalar.flt 77) ∧
    peek (attrDict settingsParams σ5 2) "smoothing" [.key "center_frequencies_in_hz", .idx 0] = some (Scalar.flt 9) ∧
    peek (attrDict settingsParams σ5 3) "window_type_and_width" [.idx 1] = some (Scalar.flt 1) ∧
    peek (attrDict settingsParams σ5 3) "smoothing" [.key "center_frequencies_in_hz", .idx 0] = some (Scalar.flt 1) ∧
    peek ((σ5.lookup 1 "w").map fun v => [("w", v.canon)]) "w" [.idx 1] = some (Scalar.flt 3) ∧
    peek ((σ.lookup 1 "w").map fun v => [("w", v.canon)]) "w" [.idx 1] = some (Scalar.flt 5) ∧
    peek (attrDict settingsParams σ 3) "window_type_and_width" [.idx 1] = some (Scalar.flt 77) ∧
    peek (attrDict settingsParams σ 4) "smoothing" [.key "center_frequencies_in_hz", .idx 0] = some (Scalar.flt 9) ∧
    peek (attrDict settingsParams σ 5) "window_type_and_width" [.idx 1] = some (Scalar.flt 1) ∧
    σ.groups.length = 6 := by
  decide +kernel

/-- the reader's choice on the `attr_dict` of a default-constructed object of each class -/
example : ∀ c ∈ Class.all,
    (attrDict settingsParams (stepD settingsParams (demoInit settingsParams) (.construct c [])) 2).bind dispatch
      = some c := by
  decide +kernel

/-- a table that stores `window_type_and_width` by reference (the tree before repair 108c551) -/
def aliasParams : Table := fun c => (settingsParams c).map fun p =>
  if p.name = "window_type_and_width" then { p with store := .alias } else p

/-- **The table hypothesis is necessary.** With alias storage the hypothesis is false, and a safe
two-object history exists in which a write through object 2 changes object 3 and every object
constructed later. -/
theorem alias_storage_breaks_noninterference :
    tableOK aliasParams = false ∧
    ∃ hist : List Op, (∀ op ∈ hist, op.safe aliasParams = true) ∧
      ∃ op, op.target (run aliasParams (demoInit aliasParams) hist) = 2 ∧ op.safe aliasParams = true ∧
        attrDict aliasParams (stepD aliasParams (run aliasParams (demoInit aliasParams) hist) op) 3 ≠
          attrDict aliasParams (run aliasParams (demoInit aliasParams) hist) 3 ∧
        attrDict aliasParams (stepD aliasParams (stepD aliasParams (run aliasParams (demoInit aliasParams) hist) op)
            (.construct .trad [])) 4 ≠
          attrDict aliasParams (stepD aliasParams (demoInit aliasParams) (.construct .trad [])) 2 := by
  refine ⟨by decide +kernel, [.construct .trad [], .construct .trad []], by decide +kernel,
    .mutate 2 "window_type_and_width" [] (.idx 1) (.sc (.flt 77)), by decide +kernel, by decide +kernel, ?_, ?_⟩
  · intro h
    have := congrArg (fun d => peek d "window_type_and_width" [.idx 1]) h
    revert this
    decide +kernel
  · intro h
    have := congrArg (fun d => peek d "window_type_and_width" [.idx 1]) h
    revert this
    decide +kernel

/-- **The `safe` hypothesis is necessary on the current table** (findings C15-c / C15-d): a dict
the caller holds and passes as `fft_settings` to two constructors is stored by alias
(`Op.safe` is false for that call), and a write through the first object changes the second
(and the caller's dict). The same holds for `instrument_transfer_function`. -/
theorem fft_settings_alias_is_shared :
    let mk : Op := .construct .psdProc [("fft_settings", .var "d")]
    let pre : List Op := [.assign 1 "d" (.node 0 (.dict ["n"]) [.sc (.int 4096)]), mk, mk]
    let σ := run settingsParams (demoInit settingsParams) pre
    let σ' := stepD settingsParams σ (.mutate 2 "fft_settings" [] (.key "n") (.sc (.int 5)))
    mk.safe settingsParams = false ∧
    peek (attrDict settingsParams σ 3) "fft_settings" [.key "n"] = some (Scalar.int 4096) ∧
    peek (attrDict settingsParams σ' 3) "fft_settings" [.key "n"] = some (Scalar.int 5) ∧
    attrDict settingsParams σ' 3 ≠ attrDict settingsParams σ 3 := by
  refine ⟨by decide +kernel, by decide +kernel, by decide +kernel, ?_⟩
  intro h
  have := congrArg (fun d => peek d "fft_settings" [.key "n"]) h
  revert this
  decide +kernel

end HV.C15
