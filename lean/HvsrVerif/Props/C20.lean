import HvsrVerif.Props.C05
import HvsrVerif.Proofs.PlotsLemmas
/-!
# C20 — Plots and summary tables are read-only and show the object's state

Model: `Model/Plots.lean` (on top of `Model/HvState.lean`, `Model/HvAz.lean`, `Model/Stats.lean`);
helper lemmas: `Proofs/PlotsLemmas.lean`.
matplotlib / pandas are trusted to store what they are given; an axes is the list of its artists.
-/
namespace HV.C20
open HV Classical

/-- the artist that carries window `r` in style `c` -/
def windowLine (c : StyleClass) (freq r : List ℝ) : Line ℝ := { style := c, x := freq.map some, y := r.map some }

/-- **One accepted-style line per accepted window and one rejected-style line per rejected window, each
carrying that window's curve, in window order** (traditional object, every option combination, whenever the
panel is drawn).  The accepted-style artists are exactly the sub-list, at the accepted positions of the window
mask, of the list "window `i` ↦ (frequency, row `i`)"; likewise the rejected-style artists at the rejected
positions; an option that is switched off removes the class entirely. -/
theorem lines_partition (o : PanelOpts) (s : HvTrad ℝ) (ls : List (Line ℝ)) (h : panelLines o s = .ok ls) :
    ls.filter (fun l => decide (l.style = .acceptedCurve)) =
      (if o.validCurves then maskSel (s.rows.map (windowLine .acceptedCurve s.freq)) s.vWin else []) ∧
    ls.filter (fun l => decide (l.style = .rejectedCurve)) =
      (if o.invalidCurves then maskSel (s.rows.map (windowLine .rejectedCurve s.freq)) (notMask s.vWin) else []) := by
  unfold panelLines at h
  have h1 := filter_curve_style o [s] (tradStats s) ls h true
  have h2 := filter_curve_style o [s] (tradStats s) ls h false
  simp only [if_true, if_false, Bool.false_eq_true, List.flatMap_cons, List.flatMap_nil, List.append_nil] at h1 h2
  refine ⟨?_, ?_⟩
  · rw [h1, C05.maskSel_map]; rfl
  · rw [h2, C05.maskSel_map]; rfl

/-- the counts: #accepted-style lines = #accepted windows, #rejected-style lines = #rejected windows -/
theorem lines_count (o : PanelOpts) (s : HvTrad ℝ) (ls : List (Line ℝ)) (h : panelLines o s = .ok ls)
    (hlen : s.vWin.length = s.rows.length) :
    (o.validCurves = true → (ls.filter (fun l => decide (l.style = .acceptedCurve))).length = countTrue s.vWin) ∧
    (o.invalidCurves = true →
      (ls.filter (fun l => decide (l.style = .rejectedCurve))).length = s.rows.length - countTrue s.vWin) := by
  obtain ⟨h1, h2⟩ := lines_partition o s ls h
  constructor
  · intro hv
    rw [h1, if_pos hv, maskSel_length _ _ (by simpa using hlen)]
  · intro hv
    rw [h2, if_pos hv, maskSel_length _ _ (by simpa [notMask] using hlen), countTrue_notMask, hlen]

/-- azimuthal object: the accepted-style and rejected-style artists are those of the azimuths, azimuth by azimuth -/
theorem lines_partition_az (o : PanelOpts) (s : HvAz ℝ) (ls : List (Line ℝ)) (h : panelLinesAz o s = .ok ls) :
    ls.filter (fun l => decide (l.style = .acceptedCurve)) =
      (if o.validCurves then s.hvsrs.flatMap (fun a => maskSel (a.rows.map (windowLine .acceptedCurve a.freq)) a.vWin) else []) ∧
    ls.filter (fun l => decide (l.style = .rejectedCurve)) =
      (if o.invalidCurves then
        s.hvsrs.flatMap (fun a => maskSel (a.rows.map (windowLine .rejectedCurve a.freq)) (notMask a.vWin)) else []) := by
  unfold panelLinesAz at h
  have h1 := filter_curve_style o s.hvsrs (azStats s) ls h true
  have h2 := filter_curve_style o s.hvsrs (azStats s) ls h false
  simp only [if_true, if_false, Bool.false_eq_true] at h1 h2
  refine ⟨?_, ?_⟩
  · rw [h1]
    congr 1
    apply List.flatMap_congr
    intro a _
    rw [C05.maskSel_map]; rfl
  · rw [h2]
    congr 1
    apply List.flatMap_congr
    intro a _
    rw [C05.maskSel_map]; rfl

/-- **The mean, ±1 standard-deviation curves, the fn band and the peak markers are the object's statistics.**
Whenever the panel of a traditional object is drawn: the artists of the four statistics styles are, in order,
the mean curve `mean_curve(d_mc)`, `nth_std_curve(±1, d_mc)`, the band `[fn−, fn−, fn+, fn+]` with
`fn± = nth_std_fn_frequency(±1, d_fn)` and the marker at `mean_curve_peak(d_mc)`; the individual peak markers
hold the stored peaks at the positions of the peak mask (`peakMarkerLines`). -/
theorem stat_artists (o : PanelOpts) (s : HvTrad ℝ) (ls : List (Line ℝ)) (h : panelLines o s = .ok ls) :
    (o.meanCurve = true → ∃ sc, s.stdCurve o.dMc = .ok sc ∧
      ls.filter (fun l => decide (l.style = .meanCurve)) =
        [{ style := .meanCurve, x := s.freq.map some, y := s.meanCurve o.dMc }] ∧
      ls.filter (fun l => decide (l.style = .stdCurve)) =
        [{ style := .stdCurve, x := s.freq.map some, y := nthCurve 1 o.dMc (s.meanCurve o.dMc) sc },
         { style := .stdCurve, x := s.freq.map some, y := nthCurve (-1) o.dMc (s.meanCurve o.dMc) sc }]) ∧
    (o.freqStd = true → ls.filter (fun l => decide (l.style = .fnBand)) =
        [{ style := .fnBand,
           x := [s.nthStdFn (-1) o.dFn, s.nthStdFn (-1) o.dFn, s.nthStdFn 1 o.dFn, s.nthStdFn 1 o.dFn],
           y := [some 0, some 100, some 100, some 0] }]) ∧
    (o.peakMean = true → ∃ p, s.meanCurvePeak o.dMc = .ok p ∧
      ls.filter (fun l => decide (l.style = .peakMeanCurve)) =
        [{ style := .peakMeanCurve, x := [some p.1], y := [some p.2] }]) ∧
    ls.filter (fun l => decide (l.style = .peakIndividualValid)) =
      (if o.peakValid then peakMarkerLines true s else []) ∧
    ls.filter (fun l => decide (l.style = .peakIndividualInvalid)) =
      (if o.peakInvalid then peakMarkerLines false s else []) := by
  unfold panelLines at h
  obtain ⟨g1, g2, g3⟩ := stat_artists_of o [s] (tradStats s) rfl ls h
  have p1 := filter_peak_style o [s] (tradStats s) ls h true
  have p2 := filter_peak_style o [s] (tradStats s) ls h false
  simp only [if_true, if_false, Bool.false_eq_true, List.flatMap_cons, List.flatMap_nil, List.append_nil] at p1 p2
  refine ⟨?_, ?_, g3, p1, p2⟩
  · intro hm
    obtain ⟨mc, sc, hmc, hsc, e1, e2⟩ := g1 hm
    have : mc = s.meanCurve o.dMc := by
      simp only [tradStats, Except.ok.injEq] at hmc
      exact hmc.symm
    subst this
    exact ⟨sc, hsc, e1, e2⟩
  · intro hf
    obtain ⟨lo, hi, hlo, hhi, e⟩ := g2 hf
    simp only [tradStats, Except.ok.injEq] at hlo hhi
    rw [e, ← hlo, ← hhi]

/-- … and for an azimuthal object the same artists hold the Cheng et al. statistics of `Model/HvAz.lean` (C11):
weighted mean / std curves, the band from the weighted `fn` statistics, the peak of the weighted mean curve;
the individual peak markers are drawn azimuth by azimuth. -/
theorem stat_artists_az (o : PanelOpts) (s : HvAz ℝ) (ls : List (Line ℝ)) (h : panelLinesAz o s = .ok ls) :
    (o.meanCurve = true → ∃ mc sc, s.meanCurve o.dMc = .ok mc ∧ s.stdCurve o.dMc = .ok sc ∧
      ls.filter (fun l => decide (l.style = .meanCurve)) =
        [{ style := .meanCurve, x := s.freq.map some, y := mc }] ∧
      ls.filter (fun l => decide (l.style = .stdCurve)) =
        [{ style := .stdCurve, x := s.freq.map some, y := nthCurve 1 o.dMc mc sc },
         { style := .stdCurve, x := s.freq.map some, y := nthCurve (-1) o.dMc mc sc }]) ∧
    (o.freqStd = true → ∃ lo hi, s.nthStdFn (-1) o.dFn = .ok lo ∧ s.nthStdFn 1 o.dFn = .ok hi ∧
      ls.filter (fun l => decide (l.style = .fnBand)) =
        [{ style := .fnBand, x := [lo, lo, hi, hi], y := [some 0, some 100, some 100, some 0] }]) ∧
    (o.peakMean = true → ∃ p, s.meanCurvePeak o.dMc = .ok p ∧
      ls.filter (fun l => decide (l.style = .peakMeanCurve)) =
        [{ style := .peakMeanCurve, x := [some p.1], y := [some p.2] }]) ∧
    ls.filter (fun l => decide (l.style = .peakIndividualValid)) =
      (if o.peakValid then s.hvsrs.flatMap (peakMarkerLines true) else []) ∧
    ls.filter (fun l => decide (l.style = .peakIndividualInvalid)) =
      (if o.peakInvalid then s.hvsrs.flatMap (peakMarkerLines false) else []) := by
  unfold panelLinesAz at h
  obtain ⟨g1, g2, g3⟩ := stat_artists_of o s.hvsrs (azStats s) rfl ls h
  have p1 := filter_peak_style o s.hvsrs (azStats s) ls h true
  have p2 := filter_peak_style o s.hvsrs (azStats s) ls h false
  simp only [if_true, if_false, Bool.false_eq_true] at p1 p2
  exact ⟨g1, g2, g3, p1, p2⟩

/-- a diffuse-field object: the panel shows the curve itself as the mean curve and its peak, nothing else -/
theorem panel_diffuse (o : PanelOpts) (freq amp : List ℝ) (ls : List (Line ℝ))
    (h : panelLinesDiffuse o freq amp = .ok ls) :
    ls = (if o.meanCurve then [{ style := .meanCurve, x := freq.map some, y := amp.map some }] else []) ++
         (if o.peakMean then
            match findPeakBounded freq amp (none, none) with
            | some p => [{ style := .peakMeanCurve, x := [some p.1], y := [some p.2] }]
            | none => []
          else []) := by
  unfold panelLinesDiffuse at h
  obtain ⟨sl, hsl, rfl⟩ := panelLinesOf_ok o [] (diffuseStats freq amp) ls h
  obtain ⟨l3, l4, l5, h3, h4, h5, rfl⟩ := statLines_ok o _ sl hsl
  simp only [List.flatMap_nil, ite_self, List.nil_append, List.append_nil]
  have e3 : l3 = (if o.meanCurve then [{ style := .meanCurve, x := freq.map some, y := amp.map some }] else []) := by
    unfold meanStdLines at h3
    split at h3
    · rename_i hm
      simp only [diffuseStats, bind, Except.bind, if_true, pure, Except.pure, Except.ok.injEq] at h3
      rw [if_pos hm]; exact h3.symm
    · rename_i hm
      simp only [pure, Except.pure, Except.ok.injEq] at h3
      rw [if_neg hm]; exact h3.symm
  have e4 : l4 = [] := by
    unfold fnBandLines at h4
    simp only [diffuseStats, Bool.not_true, Bool.and_false, Bool.false_eq_true, if_false, pure, Except.pure,
      Except.ok.injEq] at h4
    exact h4.symm
  have e5 : l5 = (if o.peakMean then
            match findPeakBounded freq amp (none, none) with
            | some p => [{ style := .peakMeanCurve, x := [some p.1], y := [some p.2] }]
            | none => []
          else []) := by
    unfold peakMeanLines at h5
    split at h5
    · rename_i hpm
      obtain ⟨p, hp, rfl⟩ := peakMeanLine_eq _ _ _ h5
      simp only [diffuseStats] at hp
      split at hp
      · cases hp
      · rename_i q hq
        injection hp with hp
        subst hp
        simp [hq, hpm]
    · rename_i hpm
      simp only [pure, Except.pure, Except.ok.injEq] at h5
      rw [if_neg hpm]; exact h5.symm
  rw [e3, e4, e5]
  simp

/-! ### Read-only -/

/-- a panel (any plotting callee) that hands the object back as it received it -/
def ReadOnly {β : Type} (p : Panel ℝ β) : Prop := ∀ s, (p s).1 = s

/-- **`prepost_restores`.** With read-only panels the object that `plot_pre_and_post_rejection` leaves behind is the
object it was given — every field, both masks — on *every* exit: normal, exception in the second panel, and
exception in the first panel (the masks are all-`True` at that moment; the `finally` step restores them). -/
theorem prepost_restores {β : Type} (p1 p2 : Panel ℝ β) (h1 : ReadOnly p1) (h2 : ReadOnly p2) (s : HvTrad ℝ) :
    (prePostRejectionWith p1 p2 s).1 = s := by
  unfold prePostRejectionWith
  simp only
  have e1 := h1 (ppSetAll (ppSave s)).obj
  have hrest : (ppRestore { ppSetAll (ppSave s) with obj := (p1 (ppSetAll (ppSave s)).obj).1 }).obj = s := by
    rw [e1]; exact restore_setAll_save s
  cases hr : (p1 (ppSetAll (ppSave s)).obj).2 with
  | error e => simp only [hrest]
  | ok l1 =>
    simp only [hrest]
    have e2 := h2 s
    cases hr2 : (p2 s).2 <;> simp only [e2]

/-- the exceptional exit of the first panel, spelled out: the exception propagates and the object is the original -/
theorem prepost_restores_on_raise {β : Type} (p1 p2 : Panel ℝ β) (h1 : ReadOnly p1) (s : HvTrad ℝ) (e : String)
    (hr : (p1 (ppSetAll (ppSave s)).obj).2 = .error e) :
    prePostRejectionWith p1 p2 s = (s, .raisedFirst e) := by
  unfold prePostRejectionWith
  simp only
  have e1 := h1 (ppSetAll (ppSave s)).obj
  have hrest : (ppRestore { ppSetAll (ppSave s) with obj := (p1 (ppSetAll (ppSave s)).obj).1 }).obj = s := by
    rw [e1]; exact restore_setAll_save s
  rw [hr]
  simp only [hrest]

/-- the mask restore does not depend on the first panel being well behaved: for *any* first panel that raises,
both masks on exit are the initial ones -/
theorem prepost_masks_restored_on_raise {β : Type} (p1 p2 : Panel ℝ β) (s : HvTrad ℝ) (e : String)
    (hr : (p1 (ppSetAll (ppSave s)).obj).2 = .error e) :
    (prePostRejectionWith p1 p2 s).1.vWin = s.vWin ∧ (prePostRejectionWith p1 p2 s).1.vPeak = s.vPeak := by
  unfold prePostRejectionWith
  simp only
  rw [hr]
  exact ⟨rfl, rfl⟩

/-- on the normal exit the "before" panel shows the object with every window accepted and the "after" panel
shows the object itself — the temporary all-`True` masks are visible to the first panel only -/
theorem prepost_panels (dMc dFn : Dist) (s : HvTrad ℝ) (pre post : List (Line ℝ))
    (h : (plotPreAndPostRejection dMc dFn s).2 = .normal pre post) :
    panelLines (PanelOpts.pre dMc dFn)
      { s with vWin := s.vWin.map (fun _ => true), vPeak := s.vPeak.map (fun _ => true) } = .ok pre ∧
    panelLines (PanelOpts.post dMc dFn) s = .ok post := by
  unfold plotPreAndPostRejection prePostRejectionWith plotSinglePanel at h
  simp only at h
  have hrest := restore_setAll_save s
  cases h1 : panelLines (PanelOpts.pre dMc dFn) (ppSetAll (ppSave s)).obj with
  | error e => simp [h1] at h
  | ok l1 =>
    simp only [h1, hrest] at h
    cases h2 : panelLines (PanelOpts.post dMc dFn) s with
    | error e => simp [h2] at h
    | ok l2 =>
      simp only [h2, PPExit.normal.injEq] at h
      obtain ⟨rfl, rfl⟩ := h
      exact ⟨h1, rfl⟩

/-- **`plot_readonly`.** Every modelled plotting / summary function returns the traditional object unchanged,
whatever the options and whatever the outcome (drawn or raised). -/
theorem plot_readonly (o : PanelOpts) (dMc dFn : Dist) (s : HvTrad ℝ) :
    (plotSinglePanel o s).1 = s ∧ (plotPreAndPostRejection dMc dFn s).1 = s ∧
    (summarizeHvsrStatistics dMc dFn s).1 = s := by
  refine ⟨rfl, ?_, rfl⟩
  exact prepost_restores _ _ (fun _ => rfl) (fun _ => rfl) s

/-- … and the azimuthal object -/
theorem plot_readonly_az (o : AzSummaryOpts) (s : HvAz ℝ) :
    (plotSinglePanelAz o.panel s).1 = s ∧ (plotAzimuthalSummary o s).1 = s := ⟨rfl, rfl⟩

/-! ### Summary table -/

/-- row 0 of the table = (mean | median, std, −1σ, +1σ) of fn — the object's statistics -/
theorem fn_row (d : Dist) (s : HvTrad ℝ) :
    (summaryRows d s)[0]? = some [s.meanFn d, s.stdFn d, s.nthStdFn (-1) d, s.nthStdFn 1 d] ∧
    (summaryRows d s)[2]? = some [s.meanAmp d, s.stdAmp d, s.nthStdAmp (-1) d, s.nthStdAmp 1 d] := by
  cases d <;> simp [summaryRows, statRows, ampRow, HvTrad.nthStdFn, HvTrad.nthStdAmp, ofNat_real]

/-- **`period_row`.** Row 1 of the lognormal table: its first two entries are the lognormal median and the
log-standard deviation of the *reciprocal* peak frequencies `T_i = 1/f_i` of the windows with a valid peak
(the code computes them as `1/median(f)` and `σ_ln(f)`); its last two entries are the reciprocals of the
fn row's −1σ / +1σ values, i.e. the +1σ / −1σ periods. -/
theorem period_row (s : HvTrad ℝ) (h2 : 2 ≤ (somes s.peakFreqs).length) :
    let T := (somes s.peakFreqs).map (fun f => 1 / f)
    let medT := nanmeanW .lognormal (T.map some) none
    let sigT := nanstdW .lognormal (T.map some) none .nist
    (summaryRows .lognormal s)[1]? =
      some [medT, sigT, nthStdO 1 .lognormal medT sigT, nthStdO (-1) .lognormal medT sigT] := by
  intro T medT sigT
  have hne : somes s.peakFreqs ≠ [] := by
    intro h; rw [h] at h2; simp at h2
  have hmed : medT = (s.meanFn .lognormal).map (fun m => 1 / m) := by
    show nanmeanW .lognormal (((somes s.peakFreqs).map (fun f => 1 / f)).map some) none = _
    rw [C05.reciprocal_median _ hne]
    unfold HvTrad.meanFn
    rw [C05.nopeak_excluded_mean .lognormal s.peakFreqs]
  have hsig : sigT = s.stdFn .lognormal := by
    show nanstdW .lognormal (((somes s.peakFreqs).map (fun f => 1 / f)).map some) none .nist = _
    rw [C05.reciprocal_sigma _ h2]
    unfold HvTrad.stdFn
    rw [C05.nopeak_excluded_std .lognormal s.peakFreqs h2]
  obtain ⟨M, hM⟩ : ∃ M, s.meanFn .lognormal = some M := by
    unfold HvTrad.meanFn
    rw [C05.nopeak_excluded_mean, C05.mean_lognormal_eq _ hne]
    exact ⟨_, rfl⟩
  obtain ⟨S, hS⟩ : ∃ S, s.stdFn .lognormal = some S := by
    unfold HvTrad.stdFn
    rw [C05.nopeak_excluded_std _ _ h2, C05.std_lognormal_eq _ h2]
    exact ⟨_, rfl⟩
  rw [hmed, hsig, hM, hS]
  simp only [summaryRows, statRows, hM, hS, List.cons_append, List.nil_append, recipO_real, Option.map_some,
    List.getElem?_cons_succ, List.getElem?_cons_zero, nthStdO, nthStd, ofNat_real, Nat.cast_one, exp_real, log_real]
  have e1 : 1 / Real.exp (Real.log M + -1 * S) = Real.exp (Real.log (1 / M) + 1 * S) := by
    rw [one_div, ← Real.exp_neg, one_div, Real.log_inv]
    congr 1; ring
  have e2 : 1 / Real.exp (Real.log M + 1 * S) = Real.exp (Real.log (1 / M) + -1 * S) := by
    rw [one_div, ← Real.exp_neg, one_div, Real.log_inv]
    congr 1; ring
  rw [e1, e2]

/-- the period row of the normal table is undefined (NaN), as the code writes it -/
theorem period_row_normal (s : HvTrad ℝ) : (summaryRows .normal s)[1]? = some [none, none, none, none] := by
  simp [summaryRows, statRows]

/-! ### Non-vacuity -/

/-- a concrete object over `Int` (frequencies 1..5, three windows, the middle one rejected) -/
def demo : HvTrad Int :=
  { freq := [1, 2, 3, 4, 5], rows := [[1, 3, 1, 1, 1], [1, 1, 1, 4, 1], [1, 1, 5, 1, 1]], range := some (none, none),
    peaks := [some (2, 3), some (4, 4), some (3, 5)], vWin := [true, false, true], vPeak := [true, false, true] }

example : (individualLines true demo).map (·.y) = [[1, 3, 1, 1, 1].map some, [1, 1, 5, 1, 1].map some] := by decide
example : (individualLines false demo).map (·.y) = [[1, 1, 1, 4, 1].map some] := by decide
example : peakMarkerLines true demo = [{ style := .peakIndividualValid, x := [some 2, some 3], y := [some 3, some 5] }] := by
  decide
example : peakMarkerLines false demo = [{ style := .peakIndividualInvalid, x := [some 4], y := [some 4] }] := by decide
example : countTrue demo.vWin = 2 ∧ demo.rows.length - countTrue demo.vWin = 1 := by decide

/-- a panel that raises without touching the object -/
def raising : HvTrad Int → HvTrad Int × Except String Unit := fun s => (s, .error "boom")
def fine : HvTrad Int → HvTrad Int × Except String Unit := fun s => (s, .ok ())

/-- repaired code: the masks are back after the first panel raised … -/
example : (prePostRejectionWith raising fine demo).1.vWin = [true, false, true] := by decide
/-- … and the first panel did see all windows accepted -/
example : (ppSetAll (ppSave demo)).obj.vWin = [true, true, true] := by decide
/-- pinned code (finding C20-a): after the same exception the object is left with every window accepted -/
example : (prePostRejectionPinnedWith raising fine demo).1.vWin = [true, true, true] := by decide
example : (prePostRejectionPinnedWith raising fine demo).1.vWin ≠ demo.vWin := by decide
/-- both codes agree on the normal exit -/
example : (prePostRejectionPinnedWith fine fine demo).1.vWin = demo.vWin ∧
    (prePostRejectionWith fine fine demo).1.vWin = demo.vWin := by decide

example : (2 : ℕ) ≤ (somes ([some 1.5, none, some 2.5, some 2.0] : List (Option ℝ))).length := by
  simp [somes]

end HV.C20
