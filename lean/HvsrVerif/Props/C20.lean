import HvsrVerif.Props.C05
import HvsrVerif.Model.Plots
/-!
# C20 — Plots and summary tables are read-only and show the object's state

Model: `Model/Plots.lean` (on top of `Model/HvState.lean`, `Model/HvAz.lean`, `Model/Stats.lean`).
matplotlib / pandas are trusted to store what they are given; an axes is the list of its artists.
-/
namespace HV.C20
open HV Classical

/-! ### helper lemmas: styles of the pieces of a panel -/

theorem individualLines_style (v : Bool) (s : HvTrad ℝ) :
    ∀ x ∈ individualLines v s, x.style = (if v then StyleClass.acceptedCurve else StyleClass.rejectedCurve) := by
  intro x hx
  unfold individualLines curveLines at hx
  cases v <;> simp only [if_true, if_false, Bool.false_eq_true, List.mem_map] at hx ⊢ <;>
    (obtain ⟨r, _, rfl⟩ := hx; rfl)

theorem peakMarkerLines_style (v : Bool) (s : HvTrad ℝ) :
    ∀ x ∈ peakMarkerLines v s,
      x.style = (if v then StyleClass.peakIndividualValid else StyleClass.peakIndividualInvalid) := by
  intro x hx
  unfold peakMarkerLines at hx
  cases v <;> simp only [if_true, if_false, Bool.false_eq_true] at hx ⊢ <;> split at hx
  · cases hx
  · rw [List.mem_singleton] at hx
    rw [hx]
  · cases hx
  · rw [List.mem_singleton] at hx
    rw [hx]

/-- the four style classes that show statistics -/
def IsStatStyle (c : StyleClass) : Prop :=
  c = .meanCurve ∨ c = .stdCurve ∨ c = .fnBand ∨ c = .peakMeanCurve

theorem meanStdLines_style (o : PanelOpts) (st : PanelStats ℝ) (l : List (Line ℝ)) (h : meanStdLines o st = .ok l) :
    ∀ x ∈ l, IsStatStyle x.style := by
  unfold meanStdLines at h
  split at h
  · simp only [bind, Except.bind] at h
    split at h
    · cases h
    · split at h
      · simp only [pure, Except.pure, Except.ok.injEq] at h
        subst h
        intro x hx
        rw [List.mem_singleton] at hx
        subst hx
        exact Or.inl rfl
      · split at h
        · cases h
        · split at h
          · cases h
          · simp only [pure, Except.pure, Except.ok.injEq] at h
            subst h
            intro x hx
            simp only [List.mem_cons, List.not_mem_nil, or_false] at hx
            rcases hx with rfl | rfl | rfl
            · exact Or.inl rfl
            · exact Or.inr (Or.inl rfl)
            · exact Or.inr (Or.inl rfl)
  · simp only [pure, Except.pure, Except.ok.injEq] at h
    subst h
    intro x hx
    cases hx

theorem fnBandLines_style (o : PanelOpts) (st : PanelStats ℝ) (l : List (Line ℝ)) (h : fnBandLines o st = .ok l) :
    ∀ x ∈ l, IsStatStyle x.style := by
  unfold fnBandLines at h
  split at h
  · simp only [bind, Except.bind] at h
    split at h
    · cases h
    · split at h
      · cases h
      · simp only [pure, Except.pure, Except.ok.injEq] at h
        subst h
        intro x hx
        rw [List.mem_singleton] at hx
        subst hx
        exact Or.inr (Or.inr (Or.inl rfl))
  · simp only [pure, Except.pure, Except.ok.injEq] at h
    subst h
    intro x hx
    cases hx
end HV.C20


theorem peakMeanLine_eq (d : Dist) (st : PanelStats ℝ) (l : List (Line ℝ)) (h : peakMeanLine d st = .ok l) :
    ∃ p, st.meanCurvePeak d = .ok p ∧
      l = [{ style := .peakMeanCurve, x := [some p.1], y := [some p.2] }] := by
  unfold peakMeanLine at h
  cases h1 : st.meanCurvePeak d with
  | error e => simp [h1, bind, Except.bind] at h
  | ok p =>
    simp only [h1, bind, Except.bind, pure, Except.pure, Except.ok.injEq] at h
    exact ⟨p, rfl, h.symm⟩

theorem peakMeanLines_style (o : PanelOpts) (st : PanelStats ℝ) (l : List (Line ℝ)) (h : peakMeanLines o st = .ok l) :
    ∀ x ∈ l, IsStatStyle x.style := by
  unfold peakMeanLines at h
  split at h
  · obtain ⟨p, _, rfl⟩ := peakMeanLine_eq _ _ _ h
    intro x hx
    rw [List.mem_singleton] at hx
    subst hx
    exact Or.inr (Or.inr (Or.inr rfl))
  · simp only [pure, Except.pure, Except.ok.injEq] at h
    subst h
    intro x hx
    cases hx

/-- decomposition of the statistics artists -/
theorem statLines_ok (o : PanelOpts) (st : PanelStats ℝ) (l : List (Line ℝ)) (h : statLines o st = .ok l) :
    ∃ l3 l4 l5, meanStdLines o st = .ok l3 ∧ fnBandLines o st = .ok l4 ∧ peakMeanLines o st = .ok l5 ∧
      l = l3 ++ l4 ++ l5 := by
  unfold statLines at h
  cases h3 : meanStdLines o st with
  | error e => simp [h3, bind, Except.bind] at h
  | ok l3 =>
    cases h4 : fnBandLines o st with
    | error e => simp [h3, h4, bind, Except.bind] at h
    | ok l4 =>
      cases h5 : peakMeanLines o st with
      | error e => simp [h3, h4, h5, bind, Except.bind] at h
      | ok l5 =>
        simp only [h3, h4, h5, bind, Except.bind, pure, Except.pure, Except.ok.injEq] at h
        exact ⟨l3, l4, l5, rfl, rfl, rfl, h.symm⟩

theorem statLines_style (o : PanelOpts) (st : PanelStats ℝ) (l : List (Line ℝ)) (h : statLines o st = .ok l) :
    ∀ x ∈ l, IsStatStyle x.style := by
  obtain ⟨l3, l4, l5, h3, h4, h5, rfl⟩ := statLines_ok o st l h
  intro x hx
  simp only [List.mem_append] at hx
  rcases hx with (hx | hx) | hx
  · exact meanStdLines_style o st l3 h3 x hx
  · exact fnBandLines_style o st l4 h4 x hx
  · exact peakMeanLines_style o st l5 h5 x hx

/-- decomposition of a successfully drawn panel, in drawing order -/
theorem panelLinesOf_ok (o : PanelOpts) (hs : List (HvTrad ℝ)) (st : PanelStats ℝ) (ls : List (Line ℝ))
    (h : panelLinesOf o hs st = .ok ls) :
    ∃ sl, statLines o st = .ok sl ∧
      ls = (if o.validCurves then hs.flatMap (individualLines true) else []) ++
           (if o.invalidCurves then hs.flatMap (individualLines false) else []) ++ sl ++
           (if o.peakValid then hs.flatMap (peakMarkerLines true) else []) ++
           (if o.peakInvalid then hs.flatMap (peakMarkerLines false) else []) := by
  unfold panelLinesOf at h
  cases hsl : statLines o st with
  | error e => simp [hsl, bind, Except.bind] at h
  | ok sl =>
    simp only [hsl, bind, Except.bind, pure, Except.pure, Except.ok.injEq] at h
    exact ⟨sl, rfl, h.symm⟩

theorem filter_all {β : Type} (p : β → Bool) (l : List β) (h : ∀ x ∈ l, p x = true) : l.filter p = l :=
  List.filter_eq_self.mpr h

theorem filter_none {β : Type} (p : β → Bool) (l : List β) (h : ∀ x ∈ l, p x = false) : l.filter p = [] := by
  rw [List.filter_eq_nil_iff]
  intro x hx
  simp [h x hx]

theorem mem_flatMap_style (hs : List (HvTrad ℝ)) (f : HvTrad ℝ → List (Line ℝ)) (c : StyleClass)
    (hf : ∀ s, ∀ x ∈ f s, x.style = c) : ∀ x ∈ hs.flatMap f, x.style = c := by
  intro x hx
  rw [List.mem_flatMap] at hx
  obtain ⟨s, _, hx⟩ := hx
  exact hf s x hx

/-- filtering a successfully drawn panel by one of the two window-curve styles -/
theorem filter_curve_style (o : PanelOpts) (hs : List (HvTrad ℝ)) (st : PanelStats ℝ) (ls : List (Line ℝ))
    (h : panelLinesOf o hs st = .ok ls) (v : Bool) :
    ls.filter (fun l => decide (l.style = (if v then StyleClass.acceptedCurve else StyleClass.rejectedCurve))) =
      (if (if v then o.validCurves else o.invalidCurves) then hs.flatMap (individualLines v) else []) := by
  obtain ⟨sl, hsl, rfl⟩ := panelLinesOf_ok o hs st ls h
  have hstat := statLines_style o st sl hsl
  have hI : ∀ w, ∀ x ∈ hs.flatMap (individualLines w), x.style = (if w then StyleClass.acceptedCurve else StyleClass.rejectedCurve) :=
    fun w => mem_flatMap_style hs _ _ (fun s => individualLines_style w s)
  have hP : ∀ w, ∀ x ∈ hs.flatMap (peakMarkerLines w), x.style = (if w then StyleClass.peakIndividualValid else StyleClass.peakIndividualInvalid) :=
    fun w => mem_flatMap_style hs _ _ (fun s => peakMarkerLines_style w s)
  simp only [List.filter_append]
  have e3 : sl.filter (fun l => decide (l.style = (if v then StyleClass.acceptedCurve else StyleClass.rejectedCurve))) = [] := by
    apply filter_none
    intro x hx
    rcases hstat x hx with h | h | h | h <;> cases v <;> simp [h]
  have e6 : (if o.peakValid then hs.flatMap (peakMarkerLines true) else []).filter
      (fun l => decide (l.style = (if v then StyleClass.acceptedCurve else StyleClass.rejectedCurve))) = [] := by
    apply filter_none
    intro x hx
    split at hx
    · have := hP true x hx
      cases v <;> simp [this]
    · cases hx
  have e7 : (if o.peakInvalid then hs.flatMap (peakMarkerLines false) else []).filter
      (fun l => decide (l.style = (if v then StyleClass.acceptedCurve else StyleClass.rejectedCurve))) = [] := by
    apply filter_none
    intro x hx
    split at hx
    · have := hP false x hx
      cases v <;> simp [this]
    · cases hx
  rw [e3, e6, e7]
  cases v
  · -- rejected style
    have e1 : (if o.validCurves then hs.flatMap (individualLines true) else []).filter
        (fun l => decide (l.style = (if false then StyleClass.acceptedCurve else StyleClass.rejectedCurve))) = [] := by
      apply filter_none
      intro x hx
      split at hx
      · have := hI true x hx
        simp [this]
      · cases hx
    have e2 : (if o.invalidCurves then hs.flatMap (individualLines false) else []).filter
        (fun l => decide (l.style = (if false then StyleClass.acceptedCurve else StyleClass.rejectedCurve))) =
        (if o.invalidCurves then hs.flatMap (individualLines false) else []) := by
      apply filter_all
      intro x hx
      split at hx
      · have := hI false x hx
        simp [this]
      · cases hx
    rw [e1, e2]
    simp
  · have e1 : (if o.validCurves then hs.flatMap (individualLines true) else []).filter
        (fun l => decide (l.style = (if true then StyleClass.acceptedCurve else StyleClass.rejectedCurve))) =
        (if o.validCurves then hs.flatMap (individualLines true) else []) := by
      apply filter_all
      intro x hx
      split at hx
      · have := hI true x hx
        simp [this]
      · cases hx
    have e2 : (if o.invalidCurves then hs.flatMap (individualLines false) else []).filter
        (fun l => decide (l.style = (if true then StyleClass.acceptedCurve else StyleClass.rejectedCurve))) = [] := by
      apply filter_none
      intro x hx
      split at hx
      · have := hI false x hx
        simp [this]
      · cases hx
    rw [e1, e2]
    simp

/-- the artist that carries window `r` in style `c` -/
def windowLine (c : StyleClass) (freq r : List ℝ) : Line ℝ := { style := c, x := freq.map some, y := r.map some }

theorem maskSel_length {β : Type} (l : List β) (m : List Bool) (h : m.length = l.length) :
    (maskSel l m).length = countTrue m := by
  unfold maskSel countTrue
  induction l generalizing m with
  | nil => cases m <;> simp at h ⊢
  | cons a t ih =>
    cases m with
    | nil => simp at h
    | cons b bs =>
      have := ih bs (by simpa using h)
      cases b <;> simp [this]

theorem countTrue_notMask (m : List Bool) : countTrue (notMask m) = m.length - countTrue m := by
  unfold countTrue notMask
  induction m with
  | nil => rfl
  | cons b bs ih =>
    have hle : (bs.filter id).length ≤ bs.length := List.length_filter_le _ _
    cases b <;> simp [ih] <;> omega

/-- **One accepted-style line per accepted window and one rejected-style line per rejected window, each
carrying that window's curve, in window order** (traditional object, every option combination, whenever the
panel is drawn).  The accepted-style artists are exactly the sub-list, at the accepted positions of the window
mask, of the list "window `i` ↦ (frequency, row `i`)"; likewise the rejected-style artists at the rejected
positions; an option that is switched off removes the class entirely. -/
theorem lines_partition (o : PanelOpts) (s : HvTrad ℝ) (ls : List (Line ℝ)) (h : panelLines o s = .ok ls) :
    ls.filter (fun l => decide (l.style = .acceptedCurve)) =
      (if o.validCurves then maskSel (s.rows.map (windowLine .acceptedCurve s.freq)) s.vWin else []) ∧
    ls.filter (fun l => decide (l.style = .rejectedCurve)) =
      (if o.invalidCurves then maskSel (s.rows.map (windowLine .rejectedCurve s.freq)) (notMask s.vWin) else []) := by
  unfold panelLines at h
  have h1 := filter_curve_style o [s] (tradStats s) ls h true
  have h2 := filter_curve_style o [s] (tradStats s) ls h false
  simp only [if_true, if_false, Bool.false_eq_true, List.flatMap_cons, List.flatMap_nil, List.append_nil] at h1 h2
  refine ⟨?_, ?_⟩
  · rw [h1, C05.maskSel_map]; rfl
  · rw [h2, C05.maskSel_map]; rfl

/-- the counts: #accepted-style lines = #accepted windows, #rejected-style lines = #rejected windows -/
theorem lines_count (o : PanelOpts) (s : HvTrad ℝ) (ls : List (Line ℝ)) (h : panelLines o s = .ok ls)
    (hlen : s.vWin.length = s.rows.length) :
    (o.validCurves = true → (ls.filter (fun l => decide (l.style = .acceptedCurve))).length = countTrue s.vWin) ∧
    (o.invalidCurves = true →
      (ls.filter (fun l => decide (l.style = .rejectedCurve))).length = s.rows.length - countTrue s.vWin) := by
  obtain ⟨h1, h2⟩ := lines_partition o s ls h
  constructor
  · intro hv
    rw [h1, if_pos hv, maskSel_length _ _ (by simpa using hlen)]
  · intro hv
    rw [h2, if_pos hv, maskSel_length _ _ (by simpa [notMask] using hlen), countTrue_notMask, hlen]

/-- azimuthal object: the accepted-/rejected-style artists are those of the azimuths, azimuth by azimuth -/
theorem lines_partition_az (o : PanelOpts) (s : HvAz ℝ) (ls : List (Line ℝ)) (h : panelLinesAz o s = .ok ls) :
    ls.filter (fun l => decide (l.style = .acceptedCurve)) =
      (if o.validCurves then s.hvsrs.flatMap (fun a => maskSel (a.rows.map (windowLine .acceptedCurve a.freq)) a.vWin) else []) ∧
    ls.filter (fun l => decide (l.style = .rejectedCurve)) =
      (if o.invalidCurves then
        s.hvsrs.flatMap (fun a => maskSel (a.rows.map (windowLine .rejectedCurve a.freq)) (notMask a.vWin)) else []) := by
  unfold panelLinesAz at h
  have h1 := filter_curve_style o s.hvsrs (azStats s) ls h true
  have h2 := filter_curve_style o s.hvsrs (azStats s) ls h false
  simp only [if_true, if_false, Bool.false_eq_true] at h1 h2
  refine ⟨?_, ?_⟩
  · rw [h1]
    congr 1
    apply List.flatMap_congr
    intro a _
    rw [C05.maskSel_map]; rfl
  · rw [h2]
    congr 1
    apply List.flatMap_congr
    intro a _
    rw [C05.maskSel_map]; rfl

/-- **The mean, ±1 standard-deviation curves, the fn band and the peak markers are the object's statistics.**
Whenever the panel of a traditional object is drawn: the artists of the four statistics styles are, in order,
the mean curve `mean_curve(d_mc)`, `nth_std_curve(±1, d_mc)`, the band `[fn−, fn−, fn+, fn+]` with
`fn± = nth_std_fn_frequency(±1, d_fn)` and the marker at `mean_curve_peak(d_mc)`; the individual peak markers
hold the stored peaks at the positions of the peak mask. -/
theorem stat_artists (o : PanelOpts) (s : HvTrad ℝ) (ls : List (Line ℝ)) (h : panelLines o s = .ok ls) :
    (o.meanCurve = true → ∃ sc, s.stdCurve o.dMc = .ok sc ∧
      ls.filter (fun l => decide (l.style = .meanCurve)) =
        [{ style := .meanCurve, x := s.freq.map some, y := s.meanCurve o.dMc }] ∧
      ls.filter (fun l => decide (l.style = .stdCurve)) =
        [{ style := .stdCurve, x := s.freq.map some, y := nthCurve 1 o.dMc (s.meanCurve o.dMc) sc },
         { style := .stdCurve, x := s.freq.map some, y := nthCurve (-1) o.dMc (s.meanCurve o.dMc) sc }]) ∧
    (o.freqStd = true → ls.filter (fun l => decide (l.style = .fnBand)) =
        [{ style := .fnBand,
           x := [s.nthStdFn (-1) o.dFn, s.nthStdFn (-1) o.dFn, s.nthStdFn 1 o.dFn, s.nthStdFn 1 o.dFn],
           y := [some 0, some 100, some 100, some 0] }]) ∧
    (o.peakMean = true → ∃ p, s.meanCurvePeak o.dMc = .ok p ∧
      ls.filter (fun l => decide (l.style = .peakMeanCurve)) =
        [{ style := .peakMeanCurve, x := [some p.1], y := [some p.2] }]) ∧
    ls.filter (fun l => decide (l.style = .peakIndividualValid)) =
      (if o.peakValid then peakMarkerLines true s else []) ∧
    ls.filter (fun l => decide (l.style = .peakIndividualInvalid)) =
      (if o.peakInvalid then peakMarkerLines false s else []) := by
  unfold panelLines at h
  obtain ⟨sl, hsl, rfl⟩ := panelLinesOf_ok o [s] (tradStats s) ls h
  obtain ⟨l3, l4, l5, h3, h4, h5, rfl⟩ := statLines_ok o (tradStats s) sl hsl
  simp only [List.flatMap_cons, List.flatMap_nil, List.append_nil]
  -- styles of the non-statistics pieces
  have hA := individualLines_style true s
  have hR := individualLines_style false s
  have hV := peakMarkerLines_style true s
  have hI := peakMarkerLines_style false s
  simp only [if_true, if_false, Bool.false_eq_true] at hA hR hV hI
  have f1 : ∀ c : StyleClass, c ≠ .acceptedCurve →
      (if o.validCurves then individualLines true s else []).filter (fun l => decide (l.style = c)) = [] := by
    intro c hc
    apply filter_none
    intro x hx
    split at hx
    · simp [hA x hx, Ne.symm hc]
    · cases hx
  have f2 : ∀ c : StyleClass, c ≠ .rejectedCurve →
      (if o.invalidCurves then individualLines false s else []).filter (fun l => decide (l.style = c)) = [] := by
    intro c hc
    apply filter_none
    intro x hx
    split at hx
    · simp [hR x hx, Ne.symm hc]
    · cases hx
  have f6 : ∀ c : StyleClass, c ≠ .peakIndividualValid →
      (if o.peakValid then peakMarkerLines true s else []).filter (fun l => decide (l.style = c)) = [] := by
    intro c hc
    apply filter_none
    intro x hx
    split at hx
    · simp [hV x hx, Ne.symm hc]
    · cases hx
  have f7 : ∀ c : StyleClass, c ≠ .peakIndividualInvalid →
      (if o.peakInvalid then peakMarkerLines false s else []).filter (fun l => decide (l.style = c)) = [] := by
    intro c hc
    apply filter_none
    intro x hx
    split at hx
    · simp [hI x hx, Ne.symm hc]
    · cases hx
  have g6 : (if o.peakValid then peakMarkerLines true s else []).filter
      (fun l => decide (l.style = StyleClass.peakIndividualValid)) = (if o.peakValid then peakMarkerLines true s else []) := by
    apply filter_all
    intro x hx
    split at hx
    · simp [hV x hx]
    · cases hx
  have g7 : (if o.peakInvalid then peakMarkerLines false s else []).filter
      (fun l => decide (l.style = StyleClass.peakIndividualInvalid)) = (if o.peakInvalid then peakMarkerLines false s else []) := by
    apply filter_all
    intro x hx
    split at hx
    · simp [hI x hx]
    · cases hx
  have s3 := meanStdLines_style o _ l3 h3
  have s4 := fnBandLines_style o _ l4 h4
  have s5 := peakMeanLines_style o _ l5 h5
  have statNone : ∀ (l : List (Line ℝ)), (∀ x ∈ l, IsStatStyle x.style) → ∀ c : StyleClass, ¬ IsStatStyle c →
      l.filter (fun l => decide (l.style = c)) = [] := by
    intro l hl c hc
    apply filter_none
    intro x hx
    have := hl x hx
    simp only [decide_eq_false_iff_not]
    intro e
    exact hc (e ▸ this)
  refine ⟨?_, ?_, ?_, ?_, ?_⟩
  · -- mean and std curves
    intro hm
    unfold meanStdLines at h3
    rw [if_pos hm] at h3
    simp only [tradStats, bind, Except.bind, Bool.false_eq_true, if_false] at h3
    unfold PanelStats.nthStdCurve at h3
    simp only [bind, Except.bind] at h3
    cases hsc : s.stdCurve o.dMc with
    | error e => simp [hsc] at h3
    | ok sc =>
      simp only [hsc, pure, Except.pure, Except.ok.injEq] at h3
      subst h3
      refine ⟨sc, rfl, ?_, ?_⟩
      · simp only [List.filter_append]
        rw [f1 _ (by decide), f2 _ (by decide), f6 _ (by decide), f7 _ (by decide)]
        have e4 : l4.filter (fun l => decide (l.style = StyleClass.meanCurve)) = [] := by
          apply filter_none
          intro x hx
          unfold fnBandLines at h4
          split at h4
          · simp only [tradStats, bind, Except.bind, pure, Except.pure, Except.ok.injEq] at h4
            subst h4
            rw [List.mem_singleton] at hx
            subst hx
            simp
          · simp only [pure, Except.pure, Except.ok.injEq] at h4
            subst h4
            cases hx
        have e5 : l5.filter (fun l => decide (l.style = StyleClass.meanCurve)) = [] := by
          apply filter_none
          intro x hx
          unfold peakMeanLines at h5
          split at h5
          · obtain ⟨p, _, rfl⟩ := peakMeanLine_eq _ _ _ h5
            rw [List.mem_singleton] at hx
            subst hx
            simp
          · simp only [pure, Except.pure, Except.ok.injEq] at h5
            subst h5
            cases hx
        rw [e4, e5]
        simp [ofNat_real]
      · simp only [List.filter_append]
        rw [f1 _ (by decide), f2 _ (by decide), f6 _ (by decide), f7 _ (by decide)]
        have e4 : l4.filter (fun l => decide (l.style = StyleClass.stdCurve)) = [] := by
          apply filter_none
          intro x hx
          unfold fnBandLines at h4
          split at h4
          · simp only [tradStats, bind, Except.bind, pure, Except.pure, Except.ok.injEq] at h4
            subst h4
            rw [List.mem_singleton] at hx
            subst hx
            simp
          · simp only [pure, Except.pure, Except.ok.injEq] at h4
            subst h4
            cases hx
        have e5 : l5.filter (fun l => decide (l.style = StyleClass.stdCurve)) = [] := by
          apply filter_none
          intro x hx
          unfold peakMeanLines at h5
          split at h5
          · obtain ⟨p, _, rfl⟩ := peakMeanLine_eq _ _ _ h5
            rw [List.mem_singleton] at hx
            subst hx
            simp
          · simp only [pure, Except.pure, Except.ok.injEq] at h5
            subst h5
            cases hx
        rw [e4, e5]
        simp [ofNat_real]
  · -- fn band
    intro hf
    unfold fnBandLines at h4
    simp only [hf, tradStats, Bool.not_false, Bool.and_true, if_true, bind, Except.bind, pure, Except.pure,
      Except.ok.injEq] at h4
    subst h4
    simp only [List.filter_append]
    rw [f1 _ (by decide), f2 _ (by decide), f6 _ (by decide), f7 _ (by decide)]
    have e3 : l3.filter (fun l => decide (l.style = StyleClass.fnBand)) = [] := by
      apply filter_none
      intro x hx
      unfold meanStdLines at h3
      split at h3
      · simp only [tradStats, bind, Except.bind, Bool.false_eq_true, if_false] at h3
        unfold PanelStats.nthStdCurve at h3
        simp only [bind, Except.bind] at h3
        cases hsc : s.stdCurve o.dMc with
        | error e => simp [hsc] at h3
        | ok sc =>
          simp only [hsc, pure, Except.pure, Except.ok.injEq] at h3
          subst h3
          simp only [List.mem_cons, List.not_mem_nil, or_false] at hx
          rcases hx with rfl | rfl | rfl <;> simp
      · simp only [pure, Except.pure, Except.ok.injEq] at h3
        subst h3
        cases hx
    have e5 : l5.filter (fun l => decide (l.style = StyleClass.fnBand)) = [] := by
      apply filter_none
      intro x hx
      unfold peakMeanLines at h5
      split at h5
      · obtain ⟨p, _, rfl⟩ := peakMeanLine_eq _ _ _ h5
        rw [List.mem_singleton] at hx
        subst hx
        simp
      · simp only [pure, Except.pure, Except.ok.injEq] at h5
        subst h5
        cases hx
    rw [e3, e5]
    simp [ofNat_real]
  · -- peak of the mean curve
    intro hp
    unfold peakMeanLines at h5
    rw [if_pos hp] at h5
    obtain ⟨p, hpk, rfl⟩ := peakMeanLine_eq _ _ _ h5
    refine ⟨p, hpk, ?_⟩
    simp only [List.filter_append]
    rw [f1 _ (by decide), f2 _ (by decide), f6 _ (by decide), f7 _ (by decide)]
    have e3 : l3.filter (fun l => decide (l.style = StyleClass.peakMeanCurve)) = [] := by
      apply filter_none
      intro x hx
      unfold meanStdLines at h3
      split at h3
      · simp only [tradStats, bind, Except.bind, Bool.false_eq_true, if_false] at h3
        unfold PanelStats.nthStdCurve at h3
        simp only [bind, Except.bind] at h3
        cases hsc : s.stdCurve o.dMc with
        | error e => simp [hsc] at h3
        | ok sc =>
          simp only [hsc, pure, Except.pure, Except.ok.injEq] at h3
          subst h3
          simp only [List.mem_cons, List.not_mem_nil, or_false] at hx
          rcases hx with rfl | rfl | rfl <;> simp
      · simp only [pure, Except.pure, Except.ok.injEq] at h3
        subst h3
        cases hx
    have e4 : l4.filter (fun l => decide (l.style = StyleClass.peakMeanCurve)) = [] := by
      apply filter_none
      intro x hx
      unfold fnBandLines at h4
      split at h4
      · simp only [tradStats, bind, Except.bind, pure, Except.pure, Except.ok.injEq] at h4
        subst h4
        rw [List.mem_singleton] at hx
        subst hx
        simp
      · simp only [pure, Except.pure, Except.ok.injEq] at h4
        subst h4
        cases hx
    rw [e3, e4]
    simp
  · simp only [List.filter_append]
    rw [f1 _ (by decide), f2 _ (by decide), f7 _ (by decide), g6,
      statNone l3 s3 _ (by unfold IsStatStyle; decide), statNone l4 s4 _ (by unfold IsStatStyle; decide),
      statNone l5 s5 _ (by unfold IsStatStyle; decide)]
    simp
  · simp only [List.filter_append]
    rw [f1 _ (by decide), f2 _ (by decide), f6 _ (by decide), g7,
      statNone l3 s3 _ (by unfold IsStatStyle; decide), statNone l4 s4 _ (by unfold IsStatStyle; decide),
      statNone l5 s5 _ (by unfold IsStatStyle; decide)]
    simp

/-! ### Read-only -/

/-- a panel (any plotting callee) that hands the object back as it received it -/
def ReadOnly {β : Type} (p : Panel ℝ β) : Prop := ∀ s, (p s).1 = s

theorem restore_setAll_save (s : HvTrad ℝ) : (ppRestore (ppSetAll (ppSave s))).obj = s := by
  cases s; rfl

/-- **`prepost_restores`.** With read-only panels the object that `plot_pre_and_post_rejection` leaves behind is the
object it was given — every field, both masks — on *every* exit: normal, exception in the second panel, and
exception in the first panel (the masks are all-`True` at that moment; the `finally` step restores them). -/
theorem prepost_restores {β : Type} (p1 p2 : Panel ℝ β) (h1 : ReadOnly p1) (h2 : ReadOnly p2) (s : HvTrad ℝ) :
    (prePostRejectionWith p1 p2 s).1 = s := by
  unfold prePostRejectionWith
  simp only
  have e1 := h1 (ppSetAll (ppSave s)).obj
  have hrest : (ppRestore { ppSetAll (ppSave s) with obj := (p1 (ppSetAll (ppSave s)).obj).1 }).obj = s := by
    rw [e1]; exact restore_setAll_save s
  cases hr : (p1 (ppSetAll (ppSave s)).obj).2 with
  | error e => simp only [hrest]
  | ok l1 =>
    simp only [hrest]
    have e2 := h2 s
    cases hr2 : (p2 s).2 <;> simp only [e2]

/-- the exceptional exit of the first panel, spelled out: the exception propagates and the object is the original -/
theorem prepost_restores_on_raise {β : Type} (p1 p2 : Panel ℝ β) (h1 : ReadOnly p1) (s : HvTrad ℝ) (e : String)
    (hr : (p1 (ppSetAll (ppSave s)).obj).2 = .error e) :
    prePostRejectionWith p1 p2 s = (s, .raisedFirst e) := by
  unfold prePostRejectionWith
  simp only
  have e1 := h1 (ppSetAll (ppSave s)).obj
  have hrest : (ppRestore { ppSetAll (ppSave s) with obj := (p1 (ppSetAll (ppSave s)).obj).1 }).obj = s := by
    rw [e1]; exact restore_setAll_save s
  rw [hr]
  simp only [hrest]

/-- the mask restore does not depend on the first panel being well behaved: for *any* first panel that raises,
both masks on exit are the initial ones -/
theorem prepost_masks_restored_on_raise {β : Type} (p1 p2 : Panel ℝ β) (s : HvTrad ℝ) (e : String)
    (hr : (p1 (ppSetAll (ppSave s)).obj).2 = .error e) :
    (prePostRejectionWith p1 p2 s).1.vWin = s.vWin ∧ (prePostRejectionWith p1 p2 s).1.vPeak = s.vPeak := by
  unfold prePostRejectionWith
  simp only
  rw [hr]
  exact ⟨rfl, rfl⟩

/-- on the normal exit the "before" panel shows the object with every window accepted and the "after" panel
shows the object itself — the temporary all-`True` masks are visible to the first panel only -/
theorem prepost_panels (dMc dFn : Dist) (s : HvTrad ℝ) (pre post : List (Line ℝ))
    (h : (plotPreAndPostRejection dMc dFn s).2 = .normal pre post) :
    panelLines (PanelOpts.pre dMc dFn)
      { s with vWin := s.vWin.map (fun _ => true), vPeak := s.vPeak.map (fun _ => true) } = .ok pre ∧
    panelLines (PanelOpts.post dMc dFn) s = .ok post := by
  unfold plotPreAndPostRejection prePostRejectionWith plotSinglePanel at h
  simp only at h
  have hrest := restore_setAll_save s
  cases h1 : panelLines (PanelOpts.pre dMc dFn) (ppSetAll (ppSave s)).obj with
  | error e => simp [h1] at h
  | ok l1 =>
    simp only [h1, hrest] at h
    cases h2 : panelLines (PanelOpts.post dMc dFn) s with
    | error e => simp [h2] at h
    | ok l2 =>
      simp only [h2, PPExit.normal.injEq] at h
      obtain ⟨rfl, rfl⟩ := h
      exact ⟨h1, rfl⟩

/-- **`plot_readonly`.** Every modelled plotting / summary function returns the traditional object unchanged,
whatever the options and whatever the outcome (drawn or raised). -/
theorem plot_readonly (o : PanelOpts) (dMc dFn : Dist) (s : HvTrad ℝ) :
    (plotSinglePanel o s).1 = s ∧ (plotPreAndPostRejection dMc dFn s).1 = s ∧
    (summarizeHvsrStatistics dMc dFn s).1 = s := by
  refine ⟨rfl, ?_, rfl⟩
  exact prepost_restores _ _ (fun _ => rfl) (fun _ => rfl) s

/-- … and the azimuthal object -/
theorem plot_readonly_az (o : AzSummaryOpts) (s : HvAz ℝ) :
    (plotSinglePanelAz o.panel s).1 = s ∧ (plotAzimuthalSummary o s).1 = s := ⟨rfl, rfl⟩

/-! ### Summary table -/

theorem recipO_real (x : Option ℝ) : recipO x = x.map (fun v => 1 / v) := by
  cases x <;> simp [recipO, ofNat_real]

/-- row 0 of the table = (mean | median, std, −1σ, +1σ) of fn — the object's statistics -/
theorem fn_row (d : Dist) (s : HvTrad ℝ) :
    (summaryRows d s)[0]? = some [s.meanFn d, s.stdFn d, s.nthStdFn (-1) d, s.nthStdFn 1 d] ∧
    (summaryRows d s)[2]? = some [s.meanAmp d, s.stdAmp d, s.nthStdAmp (-1) d, s.nthStdAmp 1 d] := by
  cases d <;> simp [summaryRows, statRows, ampRow, HvTrad.nthStdFn, HvTrad.nthStdAmp, ofNat_real]

/-- **`period_row`.** Row 1 of the lognormal table: its first two entries are the lognormal median and the
log-standard deviation of the *reciprocal* peak frequencies `T_i = 1/f_i` of the windows with a valid peak
(the code computes them as `1/median(f)` and `σ_ln(f)`); its last two entries are the reciprocals of the
fn row's −1σ / +1σ values, i.e. the +1σ / −1σ periods. -/
theorem period_row (s : HvTrad ℝ) (h2 : 2 ≤ (somes s.peakFreqs).length) :
    let T := (somes s.peakFreqs).map (fun f => 1 / f)
    let medT := nanmeanW .lognormal (T.map some) none
    let sigT := nanstdW .lognormal (T.map some) none .nist
    (summaryRows .lognormal s)[1]? =
      some [medT, sigT, nthStdO 1 .lognormal medT sigT, nthStdO (-1) .lognormal medT sigT] := by
  intro T medT sigT
  have hne : somes s.peakFreqs ≠ [] := by
    intro h; rw [h] at h2; simp at h2
  have hmed : medT = (s.meanFn .lognormal).map (fun m => 1 / m) := by
    show nanmeanW .lognormal (((somes s.peakFreqs).map (fun f => 1 / f)).map some) none = _
    rw [C05.reciprocal_median _ hne]
    unfold HvTrad.meanFn
    rw [C05.nopeak_excluded_mean]
  have hsig : sigT = s.stdFn .lognormal := by
    show nanstdW .lognormal (((somes s.peakFreqs).map (fun f => 1 / f)).map some) none .nist = _
    rw [C05.reciprocal_sigma _ h2]
    unfold HvTrad.stdFn
    rw [C05.nopeak_excluded_std _ _ h2]
  obtain ⟨M, hM⟩ : ∃ M, s.meanFn .lognormal = some M := by
    unfold HvTrad.meanFn
    rw [C05.nopeak_excluded_mean, C05.mean_lognormal_eq _ hne]
    exact ⟨_, rfl⟩
  obtain ⟨S, hS⟩ : ∃ S, s.stdFn .lognormal = some S := by
    unfold HvTrad.stdFn
    rw [C05.nopeak_excluded_std _ _ h2, C05.std_lognormal_eq _ h2]
    exact ⟨_, rfl⟩
  rw [hmed, hsig, hM, hS]
  simp only [summaryRows, statRows, List.cons_append, List.nil_append, recipO_real, Option.map_some,
    List.getElem?_cons_succ, List.getElem?_cons_zero, nthStdO, nthStd, ofNat_real, Nat.cast_one, exp_real, log_real]
  have e1 : 1 / Real.exp (Real.log M + -1 * S) = Real.exp (Real.log (1 / M) + 1 * S) := by
    rw [one_div, ← Real.exp_neg, one_div, Real.log_inv]
    congr 1; ring
  have e2 : 1 / Real.exp (Real.log M + 1 * S) = Real.exp (Real.log (1 / M) + -1 * S) := by
    rw [one_div, ← Real.exp_neg, one_div, Real.log_inv]
    congr 1; ring
  rw [e1, e2]

/-- the period row of the normal table is undefined (NaN), as the code writes it -/
theorem period_row_normal (s : HvTrad ℝ) : (summaryRows .normal s)[1]? = some [none, none, none, none] := by
  simp [summaryRows, statRows]

/-! ### Non-vacuity -/

/-- a concrete object over `Int` (frequencies 1..5, three windows, the middle one rejected) -/
def demo : HvTrad Int :=
  { freq := [1, 2, 3, 4, 5], rows := [[1, 3, 1, 1, 1], [1, 1, 1, 4, 1], [1, 1, 5, 1, 1]], range := some (none, none),
    peaks := [some (2, 3), some (4, 4), some (3, 5)], vWin := [true, false, true], vPeak := [true, false, true] }

example : (individualLines true demo).map (·.y) = [[1, 3, 1, 1, 1].map some, [1, 1, 5, 1, 1].map some] := by decide
example : (individualLines false demo).map (·.y) = [[1, 1, 1, 4, 1].map some] := by decide
example : peakMarkerLines true demo = [{ style := .peakIndividualValid, x := [some 2, some 3], y := [some 3, some 5] }] := by
  decide
example : peakMarkerLines false demo = [{ style := .peakIndividualInvalid, x := [some 4], y := [some 4] }] := by decide
example : countTrue demo.vWin = 2 ∧ demo.rows.length - countTrue demo.vWin = 1 := by decide

/-- a panel that raises without touching the object -/
def raising : HvTrad Int → HvTrad Int × Except String Unit := fun s => (s, .error "boom")
def fine : HvTrad Int → HvTrad Int × Except String Unit := fun s => (s, .ok ())

/-- repaired code: the masks are back after the first panel raised … -/
example : (prePostRejectionWith raising fine demo).1.vWin = [true, false, true] := by decide
/-- … and the first panel did see all windows accepted -/
example : (ppSetAll (ppSave demo)).obj.vWin = [true, true, true] := by decide
/-- pinned code (finding C20-a): after the same exception the object is left with every window accepted -/
example : (prePostRejectionPinnedWith raising fine demo).1.vWin = [true, true, true] := by decide
example : (prePostRejectionPinnedWith raising fine demo).1.vWin ≠ demo.vWin := by decide
/-- both codes agree on the normal exit -/
example : (prePostRejectionPinnedWith fine fine demo).1.vWin = demo.vWin ∧
    (prePostRejectionWith fine fine demo).1.vWin = demo.vWin := by decide

example : (2 : ℕ) ≤ (somes ([some 1.5, none, some 2.5, some 2.0] : List (Option ℝ))).length := by
  simp [somes]

end HV.C20
