import HvsrVerif.Proofs.SpatialLemmas
/-!
# C14 — Spatial weights are nearest-sensor area fractions; Monte-Carlo fn uses them

Property theorems only; the model is `Model/Spatial.lean` (mirror of `hvsrpy/hvsr_spatial.py`),
helper lemmas are in `Proofs/SpatialLemmas.lean`.

Proved: the weighted statistics are the textbook reliability-weighted estimators over all
realisations, are invariant under a common factor of the weights, the Monte-Carlo result is the
statistics of the returned realisations in the requested space and has the closed form for zero
generating deviations (four distribution pairs); every model cell lies inside the hull and inside
the nearest-sensor region of its sensor; retained indices are exactly the strictly-inside sensors
in increasing order; indices and weights are invariant under translations and positive uniform
scalings (whole pipeline) .

NOT proved (see `voronoi_partition_partial`): that the cells *cover* the hull (completeness of the
clipping), hence non-negativity of the weights and `∑ weights = 1`, and invariance under a
permutation of the sensors. These are checked exactly in `ℚ` / differentially by the harness on
every generated layout (a test).
-/
namespace HV.C14
open HV Classical

/-! ## Weighted statistics (`_statistics`) -/

/-- Multiplying all weights by a constant `c > 0` changes neither the mean nor the standard deviation. -/
theorem statistics_weight_scale (values : List (List ℝ)) (w : List ℝ) (c : ℝ) (hc : 0 < c) :
    statistics values (w.map (fun x => c * x)) = statistics values w :=
  statistics_scale values w c hc.ne'

/-- The per-sample weights `ŵᵢ/N` (`ŵ = w/∑w`, one weight per realisation) sum to one. -/
theorem statistics_sample_weights_sum_to_one {values : List (List ℝ)} {w : List ℝ} {N : ℕ} (hN : N ≠ 0)
    (hrows : ∀ r ∈ values, r.length = N) (hlen : w.length ≤ values.length) (hS : w.sum ≠ 0) :
    ((samples values w N).map (fun s => s.1)).sum = 1 :=
  samples_weights_sum hN hrows hlen hS

/-- The mean returned by `_statistics` is the weighted mean `∑ u·x` over all realisations of all
locations, each realisation of location `i` carrying the normalised weight `u = (wᵢ/∑w)/N`. -/
theorem statistics_is_weighted_mean {values : List (List ℝ)} {w : List ℝ} {N : ℕ} {m sd : ℝ}
    (hrows : ∀ r ∈ values, r.length = N) (h : statistics values w = some (m, sd)) :
    m = ((samples values w N).map (fun s => s.1 * s.2)).sum :=
  statistics_mean_eq hrows h

/-- The standard deviation returned by `_statistics` is the reliability-weighted unbiased estimator
`sqrt(∑ u·(x − m)² / (1 − ∑ u²))` over all realisations. -/
theorem statistics_is_weighted_std {values : List (List ℝ)} {w : List ℝ} {N : ℕ} {m sd : ℝ}
    (hrows : ∀ r ∈ values, r.length = N) (h : statistics values w = some (m, sd)) :
    sd = Real.sqrt (((samples values w N).map (fun s => s.1 * ((s.2 - m) * (s.2 - m)))).sum /
          (1 - ((samples values w N).map (fun s => s.1 * s.1)).sum)) :=
  statistics_std_eq hrows h

/-- non-vacuity: two locations, two realisations each, unit weights -/
example : ∃ m sd, statistics [[1, 3], [2, 6]] ([1, 1] : List ℝ) = some (m, sd) ∧ m = 3 := by
  cases hst : statistics [[1, 3], [2, 6]] ([1, 1] : List ℝ) with
  | none =>
    exfalso
    unfold statistics statisticsN at hst
    simp only [normWeights_real, statMean, statNumerator, statW2, sqDev, foldSum_real, sumA_real,
      ofNat_real, List.zip_cons_cons, List.map_cons, List.map_nil, List.sum_cons, List.sum_nil, List.zip_nil_right,
      List.getLast?_cons_cons, List.getLast?_singleton, List.length_cons, List.length_nil] at hst
    norm_num [eqA_real] at hst
    cases hst
  | some r =>
    obtain ⟨m, sd⟩ := r
    refine ⟨m, sd, rfl, ?_⟩
    rw [statistics_mean_eq (N := 2) (by simp) hst]
    norm_num [samples]

/-! ## Monte-Carlo (`montecarlo_fn`) -/

/-- The reported `(fn_mean, fn_stddev)` are the weighted statistics of the *returned* realisations in
the requested space: of the realisations themselves for `normal`, of their logarithms (mean mapped
back with `exp`) for `lognormal`. -/
theorem mc_statistics_of_realisations {g s : SpDist} {draws : List (List ℝ)} {w : List ℝ} {m sd : ℝ}
    {R : List (List ℝ)} (h : montecarlo g s draws w = some (m, sd, R)) :
    spatialStats s R w = some (m, sd) :=
  mc_stats_of_realisations' h

/-- Unchanged when all weights are multiplied by a constant `c > 0`. -/
theorem mc_weight_scale (g s : SpDist) (draws : List (List ℝ)) (w : List ℝ) (c : ℝ) (hc : 0 < c) :
    montecarlo g s draws (w.map (fun x => c * x)) = montecarlo g s draws w := by
  unfold montecarlo
  simp only [statistics_scale _ w c hc.ne']

/-- Zero generating standard deviations (`draws[i]` is `n` copies of `meansᵢ`): the mean is the
closed-form weighted mean of the generator values converted to the spatial space, mapped back. -/
theorem mc_zero_sigma_closed_form {g s : SpDist} {means w : List ℝ} {n : ℕ} {m sd : ℝ} {R : List (List ℝ)}
    (h : montecarlo g s (means.map (fun μ => List.replicate n μ)) w = some (m, sd, R)) :
    (s = .normal ∧ m = wmean (means.map (mcPre g s)) w) ∨
    (s = .lognormal ∧ m = Real.exp (wmean (means.map (mcPre g s)) w)) :=
  mc_zero_sigma' h

/-- lognormal generators (`λᵢ`), lognormal spatial statistics: `exp(∑wᵢλᵢ/∑wᵢ)` -/
theorem mc_zero_sigma_lognormal_lognormal {means w : List ℝ} {n : ℕ} {m sd : ℝ} {R : List (List ℝ)}
    (h : montecarlo .lognormal .lognormal (means.map (fun μ => List.replicate n μ)) w = some (m, sd, R)) :
    m = Real.exp (wmean means w) := by
  rcases mc_zero_sigma' h with ⟨hs, -⟩ | ⟨-, hm⟩
  · cases hs
  · have e : mcPre (α := ℝ) .lognormal .lognormal = fun x => x := by funext x; rfl
    rw [e, List.map_id'] at hm
    exact hm

/-- normal generators (`μᵢ`), normal spatial statistics: `∑wᵢμᵢ/∑wᵢ` -/
theorem mc_zero_sigma_normal_normal {means w : List ℝ} {n : ℕ} {m sd : ℝ} {R : List (List ℝ)}
    (h : montecarlo .normal .normal (means.map (fun μ => List.replicate n μ)) w = some (m, sd, R)) :
    m = wmean means w := by
  rcases mc_zero_sigma' h with ⟨-, hm⟩ | ⟨hs, -⟩
  · have e : mcPre (α := ℝ) .normal .normal = fun x => x := by funext x; rfl
    rw [e, List.map_id'] at hm
    exact hm
  · cases hs

/-- lognormal generators, normal spatial statistics: `∑wᵢ·exp λᵢ/∑wᵢ` -/
theorem mc_zero_sigma_lognormal_normal {means w : List ℝ} {n : ℕ} {m sd : ℝ} {R : List (List ℝ)}
    (h : montecarlo .lognormal .normal (means.map (fun μ => List.replicate n μ)) w = some (m, sd, R)) :
    m = wmean (means.map Real.exp) w := by
  rcases mc_zero_sigma' h with ⟨-, hm⟩ | ⟨hs, -⟩
  · rw [hm]; congr 1
  · cases hs

/-- normal generators, lognormal spatial statistics: `exp(∑wᵢ·log μᵢ/∑wᵢ)` -/
theorem mc_zero_sigma_normal_lognormal {means w : List ℝ} {n : ℕ} {m sd : ℝ} {R : List (List ℝ)}
    (h : montecarlo .normal .lognormal (means.map (fun μ => List.replicate n μ)) w = some (m, sd, R)) :
    m = Real.exp (wmean (means.map Real.log) w) := by
  rcases mc_zero_sigma' h with ⟨hs, -⟩ | ⟨-, hm⟩
  · cases hs
  · rw [hm]; congr 2

/-- non-vacuity of the Monte-Carlo hypotheses: two generators, three identical draws each -/
example : ∃ m sd R, montecarlo .normal .normal ([2, 4].map (fun μ => List.replicate 3 μ)) ([1, 3] : List ℝ)
    = some (m, sd, R) := by
  cases hst : montecarlo .normal .normal ([2, 4].map (fun μ => List.replicate 3 μ)) ([1, 3] : List ℝ) with
  | some r => obtain ⟨m, sd, R⟩ := r; exact ⟨m, sd, R, rfl⟩
  | none =>
    exfalso
    unfold montecarlo statistics statisticsN at hst
    simp only [mcDefined, mcPre, normWeights_real, statMean, statNumerator, statW2, sqDev, foldSum_real, sumA_real,
      ofNat_real, List.zip_cons_cons, List.map_cons, List.map_nil, List.sum_cons, List.sum_nil, List.zip_nil_right,
      List.getLast?_cons_cons, List.getLast?_singleton, List.length_cons, List.length_nil, List.replicate] at hst
    norm_num [eqA_real] at hst
    cases hst
/-! ## Geometry of the Voronoi weights -/

/-- "at least as close to `pi` as to `pj`" is the half-plane the clipper uses. -/
theorem closer_iff_halfplane (pi pj x : Pt ℝ) :
    dist2 x pi ≤ dist2 x pj ↔
      hpVal (bisector pi pj).1 (bisector pi pj).2.1 (bisector pi pj).2.2 x ≤ 0 :=
  closer_iff_halfplane' pi pj x

/-- Every vertex of the clipped polygon satisfies the half-plane. -/
theorem clip_sound (a b c : ℝ) (poly : List (Pt ℝ)) :
    ∀ v ∈ clipHalfPlane a b c poly, hpVal a b c v ≤ 0 :=
  clip_sound' a b c poly

/-- Every vertex of the clipped polygon lies in the convex hull of the vertices of the input
(hence satisfies every half-plane that both endpoints of a cut edge satisfy). -/
theorem clip_subset_hull (a b c : ℝ) (poly : List (Pt ℝ)) :
    ∀ v ∈ clipHalfPlane a b c poly, v ∈ _root_.convexHull ℝ {p | p ∈ poly} :=
  clip_subset_hull' a b c poly

/-- The model cell (as a convex region) is contained in the boundary region and in the set of points
at least as close to `pi` as to every other retained sensor. -/
theorem cell_subset (hull : List (Pt ℝ)) (pi : Pt ℝ) (others : List (Pt ℝ)) :
    _root_.convexHull ℝ {v | v ∈ cell hull pi others} ⊆
      _root_.convexHull ℝ {h | h ∈ hull} ∩ {x | ∀ pj ∈ others, dist2 x pi ≤ dist2 x pj} :=
  cell_subset' hull pi others

/-- The shoelace area is invariant under translation. -/
theorem area_translate (t : Pt ℝ) (poly : List (Pt ℝ)) :
    shoelace (poly.map (trPt t)) = shoelace poly :=
  area_translate' t poly

/-- The shoelace area scales with `s²` under uniform scaling. -/
theorem area_scale (s : ℝ) (poly : List (Pt ℝ)) :
    shoelace (poly.map (scPt s)) = s ^ 2 * shoelace poly :=
  area_scale' s poly

/-- Cells move with the layout under translation … -/
theorem cell_translate (t pi : Pt ℝ) (hull others : List (Pt ℝ)) :
    cell (hull.map (trPt t)) (trPt t pi) (others.map (trPt t)) = (cell hull pi others).map (trPt t) :=
  (sim_translate t).cell pi hull others

/-- … and under uniform scaling. -/
theorem cell_scale (s : ℝ) (hs : 0 < s) (pi : Pt ℝ) (hull others : List (Pt ℝ)) :
    cell (hull.map (scPt s)) (scPt s pi) (others.map (scPt s)) = (cell hull pi others).map (scPt s) :=
  (sim_scale s hs).cell pi hull others

/-- Retained indices and weights (and the error cases) are independent of a translation of sensors
and boundary. -/
theorem weights_translate (t : Pt ℝ) (coords boundary : List (Pt ℝ)) :
    (voronoiWeights (coords.map (trPt t)) (boundary.map (trPt t))).map (fun o => (o.indices, o.weights)) =
    (voronoiWeights coords boundary).map (fun o => (o.indices, o.weights)) :=
  (sim_translate t).voronoiWeights coords boundary

/-- Retained indices and weights are independent of a uniform scaling `s > 0` of sensors and boundary. -/
theorem weights_scale (s : ℝ) (hs : 0 < s) (coords boundary : List (Pt ℝ)) :
    (voronoiWeights (coords.map (scPt s)) (boundary.map (scPt s))).map (fun o => (o.indices, o.weights)) =
    (voronoiWeights coords boundary).map (fun o => (o.indices, o.weights)) :=
  (sim_scale s hs).voronoiWeights coords boundary

/-- Sensors outside the boundary (or on it) are dropped and the returned indices identify the
retained ones: `i` is returned iff sensor `i` is strictly inside every edge of the hull; indices are
increasing; there is one weight per index. -/
theorem retained_indices_spec {coords boundary : List (Pt ℝ)} {o : VoronoiOut ℝ}
    (h : voronoiWeights coords boundary = .ok o) :
    (∀ i, i ∈ o.indices ↔ ∃ p, coords[i]? = some p ∧ ∀ e ∈ edges o.hull, 0 < cross e.1 e.2 p) ∧
    o.indices.Pairwise (· < ·) ∧ o.weights.length = o.indices.length ∧ 3 ≤ o.indices.length := by
  obtain ⟨hh, hi, hc, hw, h3, -⟩ := voronoiWeights_ok h
  refine ⟨?_, ?_, ?_, ?_⟩
  · intro i
    rw [hi, hh, List.mem_map]
    constructor
    · rintro ⟨⟨p, j⟩, hmem, rfl⟩
      rw [mem_cull_iff, insideStrict_iff] at hmem
      exact ⟨p, hmem⟩
    · rintro ⟨p, hp⟩
      refine ⟨(p, i), ?_, rfl⟩
      rw [mem_cull_iff, insideStrict_iff]
      exact hp
  · rw [hi]; exact cull_indices_sorted _ _
  · rw [hw, hc, hi]; simp [boundedCells]
  · rw [hi]; simpa using h3

/-- PARTIAL (what is proved of "the weight of sensor `k` is the fraction of the boundary region that
is closer to it than to any other retained sensor; weights are non-negative and sum to one"):
the `k`-th weight is `area(cellₖ)/area(hull)` where `cellₖ` is a polygon contained in the hull and in
the nearest-sensor region of the `k`-th retained sensor.

MISSING: `cellₖ` ⊇ region (completeness of the Sutherland–Hodgman clipping for convex input), from
which `0 ≤ weight` and `∑ weights = 1` would follow by additivity of polygon area; and that
`convexHull` (monotone chain) returns the vertices of the convex hull of the boundary points in
counter-clockwise order. The harness checks `∑ w = 1` and `w ≥ 0` exactly in `ℚ` on every layout —
since the cells have disjoint interiors (they lie in different nearest-sensor regions), `∑ = 1`
with `cell ⊆ region` forces `cell = region` up to a null set for that layout. -/
theorem voronoi_partition_partial {coords boundary : List (Pt ℝ)} {o : VoronoiOut ℝ}
    (h : voronoiWeights coords boundary = .ok o) (k : ℕ) (p : Pt ℝ)
    (hp : ((cull o.hull coords).map (fun x => x.1))[k]? = some p) :
    ∃ c, o.cells[k]? = some c ∧ o.weights[k]? = some (shoelace c / shoelace o.hull) ∧
      _root_.convexHull ℝ {v | v ∈ c} ⊆ _root_.convexHull ℝ {q | q ∈ o.hull} ∩
        {x | ∀ pj ∈ ((cull o.hull coords).map (fun x => x.1)).eraseIdx k, dist2 x p ≤ dist2 x pj} := by
  obtain ⟨hh, -, hc, hw, -, -⟩ := voronoiWeights_ok h
  rw [hh] at hp ⊢
  refine ⟨cell (convexHull boundary) p (((cull (convexHull boundary) coords).map (fun x => x.1)).eraseIdx k), ?_, ?_, ?_⟩
  · rw [hc, boundedCells_getElem?, hp]; rfl
  · rw [hw, List.getElem?_map, hc, boundedCells_getElem?, hp]; rfl
  · exact cell_subset' _ _ _

/-- non-vacuity of the geometric statements: the square `[0,2]²` and the sensors `(½,1)`, `(3/2,1)`;
the cell of the first sensor is the left half (area 2 of 4). -/
example : shoelace (cell [(0, 0), (2, 0), (2, 2), (0, 2)] ((1/2 : ℝ), (1 : ℝ)) [((3/2 : ℝ), (1 : ℝ))]) = 2 := by
  simp only [cell, List.foldl_cons, List.foldl_nil, clipBisector, bisector, clipHalfPlane, edges, List.tail_cons,
    List.take_succ_cons, List.take_zero, List.cons_append, List.nil_append, List.zip_cons_cons, List.zip_nil_right,
    List.flatMap_cons, List.flatMap_nil, clipEdge, hpVal, interPt, ofNat_real]
  norm_num [shoelace, shoelaceAux]

end HV.C14
