import HvsrVerif.Props.C17Inv
import Mathlib.Analysis.SpecialFunctions.Trigonometric.Deriv
/-!
# C17 (continued) — PSD preprocessing by differentiation returns the spectral derivative

For an even FFT length `n = 2h ≥ len(x)`, let `p(t)` be the trigonometric polynomial built from the interior bins of the
zero-padded series' spectrum, `p(t) = (X₀ + 2 Σ_{0<k<h} Re(X_k e^{2πi f_k t})) / n`, `f_k = k/(n·dt)`.
* `interpolant_interpolates`: `p` (plus the Nyquist term) passes through the samples, `p(j·dt) + X_h cos(πj)/n = x_j`;
* `differentiate_is_derivative`: sample `j` of `differentiate x n dt` **is the derivative of `p` at `t = j·dt`** — the
  "analytically expected series (spectral derivative)", with the non-differentiable Nyquist component dropped as numpy's
  `irfft` does.
-/
namespace HV.C17
open HV Classical Finset

/-- angular frequency of bin `k` -/
noncomputable def omega (n : ℕ) (dt : ℝ) (k : ℕ) : ℝ := 2 * Real.pi * ((k : ℝ) / ((n : ℝ) * dt))

/-- the band-limited interpolant without its Nyquist term -/
noncomputable def interpolant (x : List ℝ) (h : ℕ) (dt : ℝ) (t : ℝ) : ℝ :=
  (dftRe x (2 * h) 0 + ∑ k ∈ Finset.Ico 1 h,
    2 * (dftRe x (2 * h) k * Real.cos (omega (2 * h) dt k * t) - dftIm x (2 * h) k * Real.sin (omega (2 * h) dt k * t)))
    / ((2 * h : ℕ) : ℝ)

/-- the exact derivative of the interpolant -/
noncomputable def interpolantDeriv (x : List ℝ) (h : ℕ) (dt : ℝ) (t : ℝ) : ℝ :=
  (∑ k ∈ Finset.Ico 1 h,
    2 * (dftRe x (2 * h) k * (-(Real.sin (omega (2 * h) dt k * t) * omega (2 * h) dt k))
      - dftIm x (2 * h) k * (Real.cos (omega (2 * h) dt k * t) * omega (2 * h) dt k)))
    / ((2 * h : ℕ) : ℝ)

theorem interpolant_hasDerivAt (x : List ℝ) (h : ℕ) (dt t : ℝ) :
    HasDerivAt (interpolant x h dt) (interpolantDeriv x h dt t) t := by
  unfold interpolant interpolantDeriv
  apply HasDerivAt.div_const
  have hsum : HasDerivAt (fun t => ∑ k ∈ Finset.Ico 1 h,
      2 * (dftRe x (2 * h) k * Real.cos (omega (2 * h) dt k * t) - dftIm x (2 * h) k * Real.sin (omega (2 * h) dt k * t)))
      (∑ k ∈ Finset.Ico 1 h,
        2 * (dftRe x (2 * h) k * (-(Real.sin (omega (2 * h) dt k * t) * omega (2 * h) dt k))
          - dftIm x (2 * h) k * (Real.cos (omega (2 * h) dt k * t) * omega (2 * h) dt k))) t := by
    apply HasDerivAt.fun_sum
    intro k _
    have hlin : HasDerivAt (fun t => omega (2 * h) dt k * t) (omega (2 * h) dt k) t := by
      simpa using (hasDerivAt_id t).const_mul (omega (2 * h) dt k)
    have hd := ((hlin.cos.const_mul (dftRe x (2 * h) k)).sub (hlin.sin.const_mul (dftIm x (2 * h) k))).const_mul 2
    simp only [Pi.sub_apply] at hd
    exact hd.congr_deriv (by ring)
  have := hsum.const_add (dftRe x (2 * h) 0)
  simpa using this

theorem omega_at_sample (h : ℕ) (hh : 1 ≤ h) (dt : ℝ) (hdt : dt ≠ 0) (k j : ℕ) :
    omega (2 * h) dt k * ((j : ℝ) * dt) = 2 * Real.pi * ((k * j : ℕ) : ℝ) / ((2 * h : ℕ) : ℝ) := by
  unfold omega
  have : ((2 * h : ℕ) : ℝ) ≠ 0 := by
    have : 2 * h ≠ 0 := by omega
    exact_mod_cast this
  push_cast at this ⊢
  field_simp

theorem dftIm_nyquist (x : List ℝ) (h : ℕ) (hh : 1 ≤ h) : dftIm x (2 * h) h = 0 := by
  have hn : 2 * h ≠ 0 := by omega
  rw [dftIm_sum x (2 * h) h hn, neg_eq_zero]
  apply Finset.sum_eq_zero
  intro j _
  have hh' : (h : ℝ) ≠ 0 := by
    have : h ≠ 0 := by omega
    exact_mod_cast this
  have e : 2 * Real.pi * ((j * h : ℕ) : ℝ) / ((2 * h : ℕ) : ℝ) = j * Real.pi := by
    push_cast; field_simp
  rw [e, Real.sin_nat_mul_pi, mul_zero]

/-- the interpolant (plus its Nyquist term) passes through the samples -/
theorem interpolant_interpolates (x : List ℝ) (h : ℕ) (hh : 1 ≤ h) (hlen : x.length ≤ 2 * h) (dt : ℝ) (hdt : dt ≠ 0)
    (j : ℕ) (hj : j < 2 * h) :
    interpolant x h dt ((j : ℝ) * dt)
      + dftRe x (2 * h) h * Real.cos (2 * Real.pi * ((h * j : ℕ) : ℝ) / ((2 * h : ℕ) : ℝ)) / ((2 * h : ℕ) : ℝ) = padR x j := by
  have hn : 2 * h ≠ 0 := by omega
  have hn' : ((2 * h : ℕ) : ℝ) ≠ 0 := by exact_mod_cast hn
  have key := half_inversion x h hh hlen j hj
  rw [T_nyquist x h j hh] at key
  unfold interpolant
  have e : ∑ k ∈ Finset.Ico 1 h, 2 * (dftRe x (2 * h) k * Real.cos (omega (2 * h) dt k * ((j : ℝ) * dt))
        - dftIm x (2 * h) k * Real.sin (omega (2 * h) dt k * ((j : ℝ) * dt)))
      = 2 * ∑ k ∈ Finset.Ico 1 h, T x (2 * h) k j := by
    rw [Finset.mul_sum]
    apply Finset.sum_congr rfl
    intro k _
    rw [omega_at_sample h hh dt hdt k j]
    rfl
  have e0 : T x (2 * h) 0 j = dftRe x (2 * h) 0 := by
    unfold T; simp
  rw [e, ← e0]
  field_simp
  linarith

/-- **Differentiation returns the spectral derivative**: sample `j` of the returned series is the derivative, at
`t = j·dt`, of the band-limited interpolant of the (zero-padded) input. -/
theorem differentiate_is_derivative (x : List ℝ) (h : ℕ) (hh : 1 ≤ h) (hlen : x.length ≤ 2 * h) (dt : ℝ) (hdt : dt ≠ 0)
    (j : ℕ) (hj : j < x.length) :
    (differentiate x (2 * h) dt)[j]? = some (interpolantDeriv x h dt ((j : ℝ) * dt)) ∧
    HasDerivAt (interpolant x h dt) (interpolantDeriv x h dt ((j : ℝ) * dt)) ((j : ℝ) * dt) := by
  refine ⟨?_, interpolant_hasDerivAt x h dt _⟩
  have hn : 2 * h ≠ 0 := by omega
  have hn' : ((2 * h : ℕ) : ℝ) ≠ 0 := by exact_mod_cast hn
  have hXlen : (rfft x (2 * h)).length = h + 1 := by rw [rfft_length]; omega
  unfold differentiate
  simp only [List.getElem?_map, List.getElem?_range hj, Option.map_some, Option.some.injEq]
  unfold irfftAt
  have hmod : 2 * h % 2 = 0 := by omega
  have hhalf : 2 * h / 2 = h := by omega
  simp only [hmod, hhalf, if_true, true_and, show 0 < 2 * h by omega]
  have hk : ∀ k, k ≤ h →
      ((List.zip (List.range (rfft x (2 * h)).length) (rfft x (2 * h))).map (fun p : ℕ × (ℝ × ℝ) =>
        (-((Arith.ofNat 2 : ℝ) * Transc.pi * ((Arith.ofNat p.1 : ℝ) / ((Arith.ofNat (2 * h) : ℝ) * dt)) * p.2.2),
          (Arith.ofNat 2 : ℝ) * Transc.pi * ((Arith.ofNat p.1 : ℝ) / ((Arith.ofNat (2 * h) : ℝ) * dt)) * p.2.1))).getD k
        ((Arith.ofNat 0 : ℝ), (Arith.ofNat 0 : ℝ))
      = (-(omega (2 * h) dt k * dftIm x (2 * h) k), omega (2 * h) dt k * dftRe x (2 * h) k) := by
    intro k h2
    rw [zipRange_map_getD _ _ k (by rw [hXlen]; omega), rfft_getElem x (2 * h) k hlen (by rw [hXlen]; omega)]
    simp only [ofNat_real, pi_real, Nat.cast_ofNat]
    unfold omega
    push_cast
    rfl
  rw [hk 0 (by omega), hk h le_rfl, sumA_real, list_range_map_sum]
  have hmid : ∑ i ∈ Finset.range (h - 1),
      (Arith.ofNat 2 : ℝ) * ((((List.zip (List.range (rfft x (2 * h)).length) (rfft x (2 * h))).map (fun p : ℕ × (ℝ × ℝ) =>
        (-((Arith.ofNat 2 : ℝ) * Transc.pi * ((Arith.ofNat p.1 : ℝ) / ((Arith.ofNat (2 * h) : ℝ) * dt)) * p.2.2),
          (Arith.ofNat 2 : ℝ) * Transc.pi * ((Arith.ofNat p.1 : ℝ) / ((Arith.ofNat (2 * h) : ℝ) * dt)) * p.2.1))).getD (i + 1)
        ((Arith.ofNat 0 : ℝ), (Arith.ofNat 0 : ℝ))).1 * Transc.cos (dftAngle (2 * h) j (i + 1) : ℝ)
        - (((List.zip (List.range (rfft x (2 * h)).length) (rfft x (2 * h))).map (fun p : ℕ × (ℝ × ℝ) =>
        (-((Arith.ofNat 2 : ℝ) * Transc.pi * ((Arith.ofNat p.1 : ℝ) / ((Arith.ofNat (2 * h) : ℝ) * dt)) * p.2.2),
          (Arith.ofNat 2 : ℝ) * Transc.pi * ((Arith.ofNat p.1 : ℝ) / ((Arith.ofNat (2 * h) : ℝ) * dt)) * p.2.1))).getD (i + 1)
        ((Arith.ofNat 0 : ℝ), (Arith.ofNat 0 : ℝ))).2 * Transc.sin (dftAngle (2 * h) j (i + 1) : ℝ))
      = ∑ k ∈ Finset.Ico 1 h,
        2 * (dftRe x (2 * h) k * (-(Real.sin (omega (2 * h) dt k * ((j : ℝ) * dt)) * omega (2 * h) dt k))
          - dftIm x (2 * h) k * (Real.cos (omega (2 * h) dt k * ((j : ℝ) * dt)) * omega (2 * h) dt k)) := by
    rw [Finset.sum_Ico_eq_sum_range]
    apply Finset.sum_congr rfl
    intro i hi
    rw [Finset.mem_range] at hi
    rw [hk (i + 1) (by omega)]
    simp only [ofNat_real, cos_real, sin_real, Nat.cast_ofNat]
    rw [cos_dftAngle (2 * h) j (i + 1) hn, sin_dftAngle (2 * h) j (i + 1) hn, Nat.add_comm 1 i,
      omega_at_sample h hh dt hdt (i + 1) j, Nat.mul_comm j (i + 1)]
    ring
  rw [hmid]
  unfold interpolantDeriv
  have h0 : omega (2 * h) dt 0 = 0 := by unfold omega; simp
  rw [h0, dftIm_nyquist x h hh]
  simp only [ofNat_real]
  ring

end HV.C17
