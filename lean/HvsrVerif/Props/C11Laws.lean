import HvsrVerif.Props.C11
import Mathlib.Algebra.BigOperators.Group.List.Basic
/-!
# C11 (continued) — equal counts, order of the azimuths, covariance diagonal

* `equal_counts_weights` / `equal_counts_mean` / `equal_counts_std` — with equally many accepted windows on every
  azimuth all Cheng weights are `1/N` (`N` = number of pooled windows) and the weighted mean and standard deviation
  equal the unweighted (`N − 1`) statistics of the pooled windows;
* `mean_azimuth_order` — the weighted mean does not depend on the order of the azimuths (any permutation);
* `cov_diag_is_std_sq` — for weights that sum to one the variance numpy's `cov(aweights=w)` puts on the diagonal is
  the square of the Cheng standard deviation (`1 − Σw²` normalisation on both sides).
-/
namespace HV.C11
open HV Classical

theorem flatMap_length_const (n : ℕ) (gs : List (List ℝ)) (hg : ∀ g ∈ gs, g.length = n) :
    (gs.flatMap (fun g => g)).length = gs.length * n := by
  induction gs with
  | nil => simp
  | cons g gs ih =>
    simp only [List.flatMap_cons, List.length_append, List.length_cons]
    rw [ih (fun x hx => hg x (List.mem_cons_of_mem _ hx)), hg g List.mem_cons_self]
    ring

theorem groupWeights_const (A n : ℕ) (gs : List (List ℝ)) (hg : ∀ g ∈ gs, g.length = n) :
    groupWeights A gs = List.replicate (gs.length * n) (1 / ((A * n : ℕ) : ℝ)) := by
  unfold groupWeights
  induction gs with
  | nil => simp
  | cons g gs ih =>
    have h1 := hg g List.mem_cons_self
    simp only [List.flatMap_cons, List.length_cons, h1]
    rw [ih (fun x hx => hg x (List.mem_cons_of_mem _ hx)), ← List.replicate_add]
    congr 1
    ring

/-- **Equal counts ⇒ equal weights.** With `n` accepted windows on each of the azimuths every weight is one over
the number of pooled windows. -/
theorem equal_counts_weights (groups : List (List ℝ)) (n : ℕ) (h : ∀ g ∈ groups, g.length = n) :
    groupWeights groups.length groups =
      List.replicate (groups.flatMap (fun g => g)).length (1 / (((groups.flatMap (fun g => g)).length : ℕ) : ℝ)) := by
  rw [flatMap_length_const n groups h, groupWeights_const groups.length n groups h]

/-- **Equal counts: the weighted mean is the unweighted mean of the pooled windows** (both distributions). -/
theorem equal_counts_mean (d : Dist) (groups : List (List ℝ)) (n : ℕ) (hn : 1 ≤ n) (hne : groups ≠ [])
    (h : ∀ g ∈ groups, g.length = n) :
    nanmeanW d ((groups.flatMap (fun g => g)).map some) (some (groupWeights groups.length groups)) =
      nanmeanW d ((groups.flatMap (fun g => g)).map some) none := by
  rw [equal_counts_weights groups n h]
  apply single_azimuth_mean
  intro hnil
  cases groups with
  | nil => exact hne rfl
  | cons g gs =>
    have hg := h g List.mem_cons_self
    have : g ≠ [] := by intro hh; subst hh; simp at hg; omega
    simp only [List.flatMap_cons, List.append_eq_nil_iff] at hnil
    exact this hnil.1

/-- **Equal counts: the Cheng standard deviation is the `N − 1` standard deviation of the pooled windows.** -/
theorem equal_counts_std (d : Dist) (groups : List (List ℝ)) (n : ℕ) (h2 : 2 ≤ (groups.flatMap (fun g => g)).length)
    (h : ∀ g ∈ groups, g.length = n) :
    nanstdW d ((groups.flatMap (fun g => g)).map some) (some (groupWeights groups.length groups)) .cheng =
      nanstdW d ((groups.flatMap (fun g => g)).map some) none .nist := by
  rw [equal_counts_weights groups n h]
  exact single_azimuth_std d _ h2

/-- **The order of the azimuths is irrelevant**: any permutation of the azimuths (each keeping its own windows)
gives the same weighted mean. -/
theorem mean_azimuth_order (d : Dist) (groups groups' : List (List ℝ)) (hp : groups.Perm groups') (hne : groups ≠ [])
    (h : ∀ g ∈ groups, g ≠ []) :
    nanmeanPre d ((groups.flatMap (fun g => g)).map some) (some (groupWeights groups.length groups)) =
      nanmeanPre d ((groups'.flatMap (fun g => g)).map some) (some (groupWeights groups'.length groups')) := by
  have hne' : groups' ≠ [] := by
    intro hh; subst hh; exact hne (List.Perm.eq_nil hp)
  have h' : ∀ g ∈ groups', g ≠ [] := fun g hg => h g (hp.mem_iff.mpr hg)
  rw [weighted_mean_is_mean_of_means d groups hne h, weighted_mean_is_mean_of_means d groups' hne' h', hp.length_eq]
  congr 2
  exact (hp.map _).sum_eq

/-- the windows of one azimuth may be reordered too -/
theorem mean_window_order (d : Dist) (g g' : List ℝ) (rest : List (List ℝ)) (hp : g.Perm g') (hg : g ≠ [])
    (h : ∀ x ∈ rest, x ≠ []) :
    nanmeanPre d (((g :: rest).flatMap (fun g => g)).map some) (some (groupWeights (g :: rest).length (g :: rest))) =
      nanmeanPre d (((g' :: rest).flatMap (fun g => g)).map some) (some (groupWeights (g' :: rest).length (g' :: rest))) := by
  have hg' : g' ≠ [] := by intro hh; subst hh; exact hg (List.Perm.eq_nil hp)
  rw [weighted_mean_is_mean_of_means d (g :: rest) (by simp) (by
        intro x hx; rcases List.mem_cons.mp hx with rfl | hx
        · exact hg
        · exact h x hx),
      weighted_mean_is_mean_of_means d (g' :: rest) (by simp) (by
        intro x hx; rcases List.mem_cons.mp hx with rfl | hx
        · exact hg'
        · exact h x hx)]
  simp only [List.map_cons, List.sum_cons, List.length_cons]
  rw [(hp.map _).sum_eq, hp.length_eq]

theorem sum_sq_le_sum (ws : List ℝ) (h : ∀ w ∈ ws, 0 ≤ w ∧ w ≤ 1) : (ws.map (fun w => w * w)).sum ≤ ws.sum := by
  induction ws with
  | nil => simp
  | cons w t ih =>
    simp only [List.map_cons, List.sum_cons]
    have := ih (fun x hx => h x (List.mem_cons_of_mem _ hx))
    obtain ⟨h0, h1⟩ := h w List.mem_cons_self
    nlinarith

theorem cov_core (xs ws : List ℝ) (m : ℝ) (hsum : ws.sum = 1) (hw : ∀ w ∈ ws, 0 ≤ w) (a s : ℝ)
    (ha : ((List.zip xs ws).map (fun p => p.2 * ((p.1 - m) * (p.1 - m)))).sum / (1 - (ws.map (fun w => w * w)).sum) = a)
    (hs : Real.sqrt (((List.zip xs ws).map (fun p => p.2 * ((p.1 - m) * (p.1 - m)))).sum
      / (1 - (ws.map (fun w => w * w)).sum)) = s) : a = s ^ 2 := by
  have hle1 : ∀ w ∈ ws, 0 ≤ w ∧ w ≤ 1 := by
    intro w hw'
    refine ⟨hw w hw', ?_⟩
    rw [← hsum]
    exact List.single_le_sum hw w hw'
  have hsq := sum_sq_le_sum ws hle1
  have hnum : 0 ≤ ((List.zip xs ws).map (fun p => p.2 * ((p.1 - m) * (p.1 - m)))).sum := by
    apply List.sum_nonneg
    intro x hx
    simp only [List.mem_map] at hx
    obtain ⟨p, hp, rfl⟩ := hx
    exact mul_nonneg (hw p.2 (List.of_mem_zip hp).2) (mul_self_nonneg _)
  rw [← hs, ← ha, Real.sq_sqrt]
  apply div_nonneg hnum
  linarith

/-- **Covariance diagonal = squared standard deviation.** For non-negative weights summing to one (the Cheng weights:
`weights_sum_one`), whenever numpy's weighted covariance and the Cheng standard deviation are both defined, the
variance on the diagonal is the square of the standard deviation. -/
theorem cov_diag_is_std_sq (d : Dist) (vals ys ws : List ℝ) (hsum : ws.sum = 1) (hw : ∀ w ∈ ws, 0 ≤ w)
    (a b c s : ℝ) (hcov : cov2 (vals.map d.pre) ys (some ws) = some (a, b, c))
    (hstd : nanstdW d (vals.map some) (some ws) .cheng = some s) : a = s ^ 2 := by
  set m := ((List.zip (vals.map d.pre) ws).map (fun p => p.1 * p.2)).sum with hm
  have hmean : nanmeanW d (vals.map some) (some ws) = some (d.postMean m) := by
    unfold nanmeanW nanmeanPre
    simp only [List.map_map]
    have e1 : (List.map ((fun v => Option.map d.pre v) ∘ some) vals) = (vals.map d.pre).map some := by
      rw [List.map_map]; rfl
    rw [e1, nansumProd_explicit, nansumW_explicit, divO_real, hsum, if_neg one_ne_zero, div_one]
    rfl
  have e1 : (vals.map some).map (fun v => v.map d.pre) = (vals.map d.pre).map some := by
    rw [List.map_map, List.map_map]; rfl
  have e2 : (someWeights ws).filterMap id = ws := by
    unfold someWeights
    clear hsum hw hcov hstd hmean
    induction ws with
    | nil => rfl
    | cons w ws ih => simp
  -- the standard deviation, explicitly
  have hstd' : (1 - (ws.map (fun w => w * w)).sum ≠ 0) ∧
      Real.sqrt (((List.zip (vals.map d.pre) ws).map (fun p => p.2 * ((p.1 - m) * (p.1 - m)))).sum
        / (1 - (ws.map (fun w => w * w)).sum)) = s := by
    unfold nanstdW at hstd
    rw [hmean] at hstd
    simp only [e1, nansumProd_explicit, e2, sumA_real, ofNat_real, Nat.cast_one, divO_real] at hstd
    cases d
    · simp only [Dist.postMean] at hstd
      split at hstd
      · cases hstd
      · rename_i hden
        simp only [Option.map_some, sqrt_real, Option.some.injEq] at hstd
        exact ⟨hden, hstd⟩
    · simp only [Dist.postMean, log_real, exp_real, Real.log_exp] at hstd
      split at hstd
      · cases hstd
      · rename_i hden
        simp only [Option.map_some, sqrt_real, Option.some.injEq] at hstd
        exact ⟨hden, hstd⟩
  obtain ⟨hden, hs⟩ := hstd'
  -- the covariance side
  unfold cov2 at hcov
  simp only [sumA_real, divO_real, hsum, one_ne_zero, if_false, div_one, hden] at hcov
  rw [← hm] at hcov
  injection hcov with hcov
  injection hcov with ha _
  exact cov_core _ ws m hsum hw _ s ha hs

end HV.C11
