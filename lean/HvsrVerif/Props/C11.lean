import HvsrVerif.Proofs.StatsLemmas
/-!
# C11 — Azimuthal statistics give every azimuth equal weight (Cheng et al. 2020)

Model: `Model/HvAz.lean`, `Model/Stats.lean`.
-/
namespace HV.C11
open HV Classical

theorem chengWeights_eq (counts : List Nat) : (chengWeights counts : Except String (List ℝ)) = chengWeightsFor counts.length counts := rfl

theorem weightsFor_spec (naz : Nat) (hn : 0 < naz) (counts : List Nat) (h : ∀ c ∈ counts, 1 ≤ c) :
    ∃ ws, chengWeightsFor naz counts = .ok ws ∧ ws.length = counts.sum ∧ ws.sum = (counts.length : ℝ) / naz ∧
      (∀ w ∈ ws, 0 < w) := by
  induction counts with
  | nil => exact ⟨[], rfl, rfl, by simp, by simp⟩
  | cons c cs ih =>
    obtain ⟨ws, hws, hlen, hsum, hpos⟩ := ih (fun x hx => h x (List.mem_cons_of_mem _ hx))
    have hc : 1 ≤ c := h c List.mem_cons_self
    have hc0 : c ≠ 0 := by omega
    refine ⟨List.replicate c (1 / ((naz * c : ℕ) : ℝ)) ++ ws, ?_, ?_, ?_, ?_⟩
    · unfold chengWeightsFor at hws ⊢
      simp only [List.foldr_cons]
      rw [hws]
      simp [hc0]
    · simp [hlen]
    · simp only [List.sum_append, List.sum_replicate, nsmul_eq_mul, hsum, List.length_cons, Nat.cast_add, Nat.cast_one,
        Nat.cast_mul]
      have : (naz : ℝ) ≠ 0 := by exact_mod_cast (by omega : naz ≠ 0)
      have : (c : ℝ) ≠ 0 := by exact_mod_cast hc0
      field_simp
      ring
    · intro w hw
      rcases List.mem_append.mp hw with hw | hw
      · rw [List.mem_replicate] at hw
        rw [hw.2]
        have : (0:ℝ) < ((naz * c : ℕ) : ℝ) := by exact_mod_cast Nat.mul_pos hn (by omega)
        positivity
      · exact hpos w hw

/-- **The weights sum to one** (at least one accepted window on every azimuth), there is one weight per accepted
window, and all weights are positive. -/
theorem weights_sum_one (counts : List Nat) (hne : counts ≠ []) (h : ∀ c ∈ counts, 1 ≤ c) :
    ∃ ws : List ℝ, chengWeights counts = .ok ws ∧ ws.length = counts.sum ∧ ws.sum = 1 ∧ ∀ w ∈ ws, 0 < w := by
  have hn : 0 < counts.length := List.length_pos_iff.mpr hne
  obtain ⟨ws, h1, h2, h3, h4⟩ := weightsFor_spec counts.length hn counts h
  refine ⟨ws, by rw [chengWeights_eq]; exact h1, h2, ?_, h4⟩
  rw [h3]
  have : (counts.length : ℝ) ≠ 0 := by exact_mod_cast (by omega : counts.length ≠ 0)
  field_simp

/-- an azimuth without an accepted window is refused (the code divides by the count) -/
theorem weights_zero_count (counts : List Nat) (h : 0 ∈ counts) :
    ∃ e, (chengWeights counts : Except String (List ℝ)) = .error e := by
  rw [chengWeights_eq]
  generalize counts.length = naz
  induction counts with
  | nil => cases h
  | cons c cs ih =>
    unfold chengWeightsFor
    simp only [List.foldr_cons]
    rcases List.mem_cons.mp h with h0 | h0
    · subst h0
      cases hcs : List.foldr _ _ cs with
      | error e => exact ⟨e, rfl⟩
      | ok ws => exact ⟨"zerodiv", by simp⟩
    · obtain ⟨e, he⟩ := ih h0
      unfold chengWeightsFor at he
      rw [he]
      exact ⟨e, rfl⟩

/-- weights of a single azimuth with `N` accepted windows: `N` copies of `1/N` -/
theorem single_azimuth_weights (N : Nat) (hN : 1 ≤ N) :
    (chengWeights [N] : Except String (List ℝ)) = .ok (List.replicate N (1 / (N : ℝ))) := by
  unfold chengWeights chengWeightsFor
  have : N ≠ 0 := by omega
  simp [this]

theorem nansumProd_explicit (vals ws : List ℝ) (f : ℝ → ℝ → ℝ) :
    nansumProd (vals.map some) (someWeights ws) f = ((List.zip vals ws).map (fun p => f p.1 p.2)).sum := by
  unfold nansumProd someWeights
  rw [sumA_real]
  congr 1
  induction vals generalizing ws with
  | nil => simp
  | cons v vs ih =>
    cases ws with
    | nil => simp
    | cons w ws => simp [ih]

theorem nansumW_explicit (ws : List ℝ) : nansumW (someWeights ws) = ws.sum := by
  unfold nansumW someWeights
  rw [sumA_real]
  congr 1
  induction ws with
  | nil => rfl
  | cons w ws ih => simp [ih]

theorem zip_replicate_map (vals : List ℝ) (c : ℝ) (g : ℝ → ℝ → ℝ) :
    ((List.zip vals (List.replicate vals.length c)).map (fun p => g p.1 p.2)) = vals.map (fun v => g v c) := by
  induction vals with
  | nil => simp
  | cons v vs ih => simp [List.replicate_succ, ih]

theorem sum_map_mul_const (l : List ℝ) (c : ℝ) (g : ℝ → ℝ) : (l.map (fun v => g v * c)).sum = (l.map g).sum * c := by
  induction l with
  | nil => simp
  | cons a t ih => simp [ih]; ring

/-- **A single azimuth reduces to the traditional mean**: with weights `1/N` the weighted mean is the plain
mean (in the transformed space), for both distributions. -/
theorem single_azimuth_mean (d : Dist) (vals : List ℝ) (h : vals ≠ []) :
    nanmeanW d (vals.map some) (some (List.replicate vals.length (1 / (vals.length : ℝ)))) =
      nanmeanW d (vals.map some) none := by
  have hN : (vals.length : ℝ) ≠ 0 := by
    have : vals.length ≠ 0 := by simpa using h
    exact_mod_cast this
  rw [nanmeanW_unweighted, somes_map_some]
  have hl : vals.length ≠ 0 := by simpa using h
  simp only [hl, if_false]
  unfold nanmeanW nanmeanPre
  simp only [List.map_map]
  have e1 : (List.map ((fun v => Option.map d.pre v) ∘ some) vals) = (vals.map d.pre).map some := by
    rw [List.map_map]; rfl
  rw [e1, nansumProd_explicit, nansumW_explicit, divO_real]
  have hlen : vals.length = (vals.map d.pre).length := by simp
  rw [hlen, zip_replicate_map (vals.map d.pre) _ (fun v w => v * w)]
  simp only [List.sum_replicate, nsmul_eq_mul, List.length_map]
  have : (vals.length : ℝ) * (1 / (vals.length : ℝ)) = 1 := by field_simp
  rw [this, if_neg one_ne_zero, sum_map_mul_const _ _ (fun v => v)]
  simp only [List.map_id', Option.map_some, div_one, List.map_map]
  congr 2
  rw [mul_one_div]
  congr 2

/-- the Cheng denominator `1 − Σw²` for a single azimuth is `(N−1)/N`, which turns the weighted variance into
the `N − 1` sample variance -/
theorem cheng_denominator_single (N : Nat) (hN : 1 ≤ N) :
    1 - ((List.replicate N (1 / (N : ℝ))).map (fun w => w * w)).sum = ((N : ℝ) - 1) / N := by
  have : (N : ℝ) ≠ 0 := by exact_mod_cast (by omega : N ≠ 0)
  simp only [List.map_replicate, List.sum_replicate, nsmul_eq_mul]
  field_simp

/-- **A single azimuth reduces to the traditional standard deviation**: with weights `1/N` the Cheng estimator
(`1 − Σw²` denominator) is the `N − 1` sample standard deviation, for both distributions. -/
theorem single_azimuth_std (d : Dist) (vals : List ℝ) (h2 : 2 ≤ vals.length) :
    nanstdW d (vals.map some) (some (List.replicate vals.length (1 / (vals.length : ℝ)))) .cheng =
      nanstdW d (vals.map some) none .nist := by
  have hne : vals ≠ [] := by intro h; subst h; simp at h2
  have hN : (vals.length : ℝ) ≠ 0 := by
    have : vals.length ≠ 0 := by omega
    exact_mod_cast this
  have hN2 : (2 : ℝ) ≤ (vals.length : ℝ) := by exact_mod_cast h2
  rw [nanstdW_unweighted d _ (by rw [somes_map_some]; exact h2), somes_map_some]
  unfold nanstdW
  rw [single_azimuth_mean d vals hne, nanmeanW_unweighted, somes_map_some]
  have hl : vals.length ≠ 0 := by omega
  simp only [hl, if_false]
  have tail : ∀ (mean : ℝ), mean = ((vals.map d.pre).sum / (vals.length : ℝ)) →
      (match Denom.cheng, ((someWeights (List.replicate vals.length (1 / (vals.length : ℝ)))).filterMap id).length with
        | Denom.nist, 0 => none
        | _, _ => Option.map Transc.sqrt (divO
            (nansumProd ((vals.map some).map (fun v => v.map d.pre)) (someWeights (List.replicate vals.length (1 / (vals.length : ℝ))))
              (fun v w => w * ((v - mean) * (v - mean))))
            ((Arith.ofNat 1 : ℝ) - sumA (((someWeights (List.replicate vals.length (1 / (vals.length : ℝ)))).filterMap id).map (fun w => w * w)))))
      = some (Real.sqrt (((vals.map d.pre).map (fun x => (x - (vals.map d.pre).sum / ((vals.map d.pre).length : ℝ)) ^ 2)).sum
          / (((vals.map d.pre).length : ℝ) - 1))) := by
    intro mean hmean
    have e1 : (vals.map some).map (fun v => v.map d.pre) = (vals.map d.pre).map some := by
      rw [List.map_map, List.map_map]; rfl
    have e2 : (someWeights (List.replicate vals.length (1 / (vals.length : ℝ)))).filterMap id
        = List.replicate vals.length (1 / (vals.length : ℝ)) := by
      unfold someWeights
      induction vals.length with
      | zero => rfl
      | succ k ih => simp [List.replicate_succ, ih]
    rw [e1, nansumProd_explicit, e2, sumA_real]
    have hlen : vals.length = (vals.map d.pre).length := by simp
    rw [hlen, zip_replicate_map (vals.map d.pre) _ (fun v w => w * ((v - mean) * (v - mean)))]
    simp only [List.length_map, ofNat_real, Nat.cast_one, divO_real]
    have hden := cheng_denominator_single vals.length (by omega)
    rw [hden]
    have hd0 : ((vals.length : ℝ) - 1) / (vals.length : ℝ) ≠ 0 := by
      apply div_ne_zero _ hN; linarith
    rw [if_neg hd0]
    simp only [Option.map_some, sqrt_real, Option.some.injEq]
    congr 1
    rw [hmean]
    have hs : ∀ (l : List ℝ) (c m : ℝ), (l.map (fun v => c * ((v - m) * (v - m)))).sum = c * (l.map (fun x => (x - m) ^ 2)).sum := by
      intro l c m; induction l with
      | nil => simp
      | cons a t ih => simp only [List.map_cons, List.sum_cons, ih]; ring
    rw [hs]
    field_simp
  cases d
  · simp only [Dist.postMean]
    exact tail _ rfl
  · simp only [Dist.postMean, log_real, exp_real, Real.log_exp]
    exact tail _ rfl

/-! ### mean of means -/

/-- the Cheng weights laid out per azimuth: azimuth `g` with `|g|` accepted windows gets `|g|` copies of `1/(naz·|g|)` -/
noncomputable def groupWeights (naz : ℕ) (groups : List (List ℝ)) : List ℝ :=
  groups.flatMap (fun g => List.replicate g.length (1 / ((naz * g.length : ℕ) : ℝ)))

theorem chengWeightsFor_groups (naz : ℕ) (groups : List (List ℝ)) (h : ∀ g ∈ groups, g ≠ []) :
    (chengWeightsFor naz (groups.map List.length) : Except String (List ℝ)) = .ok (groupWeights naz groups) := by
  induction groups with
  | nil => rfl
  | cons g gs ih =>
    have hg : g.length ≠ 0 := by
      have := h g List.mem_cons_self
      simpa using this
    have := ih (fun x hx => h x (List.mem_cons_of_mem _ hx))
    unfold chengWeightsFor at this ⊢
    simp only [List.map_cons, List.foldr_cons]
    rw [this]
    simp [hg, groupWeights]

theorem weighted_sum_groups (naz : ℕ) (groups : List (List ℝ)) (f : ℝ → ℝ) :
    ((List.zip (groups.flatMap (fun g => g.map f)) (groupWeights naz groups)).map (fun p => p.1 * p.2)).sum
      = (groups.map (fun g => (g.map f).sum * (1 / ((naz * g.length : ℕ) : ℝ)))).sum := by
  unfold groupWeights
  induction groups with
  | nil => simp
  | cons g gs ih =>
    simp only [List.flatMap_cons, List.map_cons, List.sum_cons]
    rw [List.zip_append (by simp), List.map_append, List.sum_append, ih]
    congr 1
    have := zip_replicate_map (g.map f) (1 / ((naz * g.length : ℕ) : ℝ)) (fun v w => v * w)
    simp only [List.length_map] at this
    rw [this, sum_map_mul_const _ _ (fun v => v)]
    simp only [List.map_id']

/-- **The weighted mean is the plain average over the azimuths of the per-azimuth means** (in the transformed
space: log space for lognormal), for any numbers of accepted windows per azimuth (≥ 1). -/
theorem weighted_mean_is_mean_of_means (d : Dist) (groups : List (List ℝ)) (hne : groups ≠ []) (h : ∀ g ∈ groups, g ≠ []) :
    nanmeanPre d ((groups.flatMap (fun g => g)).map some) (some (groupWeights groups.length groups)) =
      some ((groups.map (fun g => (g.map d.pre).sum / (g.length : ℝ))).sum / (groups.length : ℝ)) := by
  have hsum : (groupWeights groups.length groups).sum = 1 := by
    obtain ⟨ws, h1, _, h3, _⟩ := weights_sum_one (groups.map List.length) (by simpa using hne)
      (by intro c hc; simp only [List.mem_map] at hc; obtain ⟨g, hg, rfl⟩ := hc
          have := h g hg
          exact Nat.pos_of_ne_zero (by simpa using this))
    rw [chengWeights_eq, List.length_map, chengWeightsFor_groups _ _ h] at h1
    injection h1 with h1
    rw [h1]; exact h3
  unfold nanmeanPre
  simp only [List.map_map]
  have e1 : (List.map ((fun v => Option.map d.pre v) ∘ some) (groups.flatMap (fun g => g)))
      = ((groups.flatMap (fun g => g.map d.pre))).map some := by
    rw [List.map_flatMap, List.map_flatMap]
    congr 1
    funext g
    simp [List.map_map, Function.comp]
  rw [e1, nansumProd_explicit, nansumW_explicit, divO_real, hsum, if_neg one_ne_zero, div_one,
    weighted_sum_groups groups.length groups d.pre]
  congr 1
  have hn : (groups.length : ℝ) ≠ 0 := by
    have : groups.length ≠ 0 := by simpa using hne
    exact_mod_cast this
  have hdiv : ∀ (l : List ℝ) (c : ℝ), l.sum / c = (l.map (fun x => x / c)).sum := by
    intro l c; induction l with
    | nil => simp
    | cons a t ih => simp only [List.sum_cons, List.map_cons, add_div, ih]
  rw [hdiv, List.map_map]
  congr 1
  apply List.map_congr_left
  intro g hg
  have hgl : (g.length : ℝ) ≠ 0 := by
    have := h g hg
    have : g.length ≠ 0 := by simpa using this
    exact_mod_cast this
  simp only [Function.comp]
  push_cast
  field_simp

/-! ### Non-vacuity -/
example : (chengWeights [2, 1] : Except String (List Rat)).toOption = some [1/4, 1/4, 1/2] := by decide +kernel
example : (chengWeights [2, 0] : Except String (List Rat)).toOption = none := by decide +kernel

end HV.C11
