import HvsrVerif.Proofs.StatsLemmas
/-!
# C11 — Azimuthal statistics give every azimuth equal weight (Cheng et al. 2020)

Model: `Model/HvAz.lean`, `Model/Stats.lean`.
-/
namespace HV.C11
open HV Classical

theorem chengWeights_eq (counts : List Nat) : (chengWeights counts : Except String (List ℝ)) = chengWeightsFor counts.length counts := rfl

theorem weightsFor_spec (naz : Nat) (hn : 0 < naz) (counts : List Nat) (h : ∀ c ∈ counts, 1 ≤ c) :
    ∃ ws, chengWeightsFor naz counts = .ok ws ∧ ws.length = counts.sum ∧ ws.sum = (counts.length : ℝ) / naz ∧
      (∀ w ∈ ws, 0 < w) := by
  induction counts with
  | nil => exact ⟨[], rfl, rfl, by simp, by simp⟩
  | cons c cs ih =>
    obtain ⟨ws, hws, hlen, hsum, hpos⟩ := ih (fun x hx => h x (List.mem_cons_of_mem _ hx))
    have hc : 1 ≤ c := h c List.mem_cons_self
    have hc0 : c ≠ 0 := by omega
    refine ⟨List.replicate c (1 / ((naz * c : ℕ) : ℝ)) ++ ws, ?_, ?_, ?_, ?_⟩
    · unfold chengWeightsFor at hws ⊢
      simp only [List.foldr_cons]
      rw [hws]
      simp [hc0]
    · simp [hlen]
    · simp only [List.sum_append, List.sum_replicate, nsmul_eq_mul, hsum, List.length_cons, Nat.cast_add, Nat.cast_one,
        Nat.cast_mul]
      have : (naz : ℝ) ≠ 0 := by exact_mod_cast (by omega : naz ≠ 0)
      have : (c : ℝ) ≠ 0 := by exact_mod_cast hc0
      field_simp
      ring
    · intro w hw
      rcases List.mem_append.mp hw with hw | hw
      · rw [List.mem_replicate] at hw
        rw [hw.2]
        have : (0:ℝ) < ((naz * c : ℕ) : ℝ) := by exact_mod_cast Nat.mul_pos hn (by omega)
        positivity
      · exact hpos w hw

/-- **The weights sum to one** (at least one accepted window on every azimuth), there is one weight per accepted
window, and all weights are positive. -/
theorem weights_sum_one (counts : List Nat) (hne : counts ≠ []) (h : ∀ c ∈ counts, 1 ≤ c) :
    ∃ ws : List ℝ, chengWeights counts = .ok ws ∧ ws.length = counts.sum ∧ ws.sum = 1 ∧ ∀ w ∈ ws, 0 < w := by
  have hn : 0 < counts.length := List.length_pos_iff.mpr hne
  obtain ⟨ws, h1, h2, h3, h4⟩ := weightsFor_spec counts.length hn counts h
  refine ⟨ws, by rw [chengWeights_eq]; exact h1, h2, ?_, h4⟩
  rw [h3]
  have : (counts.length : ℝ) ≠ 0 := by exact_mod_cast (by omega : counts.length ≠ 0)
  field_simp

/-- an azimuth without an accepted window is refused (the code divides by the count) -/
theorem weights_zero_count (counts : List Nat) (h : 0 ∈ counts) :
    ∃ e, (chengWeights counts : Except String (List ℝ)) = .error e := by
  rw [chengWeights_eq]
  generalize counts.length = naz
  induction counts with
  | nil => cases h
  | cons c cs ih =>
    unfold chengWeightsFor
    simp only [List.foldr_cons]
    rcases List.mem_cons.mp h with h0 | h0
    · subst h0
      cases hcs : List.foldr _ _ cs with
      | error e => exact ⟨e, rfl⟩
      | ok ws => exact ⟨"zerodiv", by simp⟩
    · obtain ⟨e, he⟩ := ih h0
      unfold chengWeightsFor at he
      rw [he]
      exact ⟨e, rfl⟩

/-- weights of a single azimuth with `N` accepted windows: `N` copies of `1/N` -/
theorem single_azimuth_weights (N : Nat) (hN : 1 ≤ N) :
    (chengWeights [N] : Except String (List ℝ)) = .ok (List.replicate N (1 / (N : ℝ))) := by
  unfold chengWeights chengWeightsFor
  have : N ≠ 0 := by omega
  simp [this]

theorem nansumProd_explicit (vals ws : List ℝ) (f : ℝ → ℝ → ℝ) :
    nansumProd (vals.map some) (someWeights ws) f = ((List.zip vals ws).map (fun p => f p.1 p.2)).sum := by
  unfold nansumProd someWeights
  rw [sumA_real]
  congr 1
  induction vals generalizing ws with
  | nil => simp
  | cons v vs ih =>
    cases ws with
    | nil => simp
    | cons w ws => simp [ih]

theorem nansumW_explicit (ws : List ℝ) : nansumW (someWeights ws) = ws.sum := by
  unfold nansumW someWeights
  rw [sumA_real]
  congr 1
  induction ws with
  | nil => rfl
  | cons w ws ih => simp [ih]

theorem zip_replicate_map (vals : List ℝ) (c : ℝ) (g : ℝ → ℝ → ℝ) :
    ((List.zip vals (List.replicate vals.length c)).map (fun p => g p.1 p.2)) = vals.map (fun v => g v c) := by
  induction vals with
  | nil => simp
  | cons v vs ih => simp [List.replicate_succ, ih]

theorem sum_map_mul_const (l : List ℝ) (c : ℝ) (g : ℝ → ℝ) : (l.map (fun v => g v * c)).sum = (l.map g).sum * c := by
  induction l with
  | nil => simp
  | cons a t ih => simp [ih]; ring

/-- **A single azimuth reduces to the traditional mean**: with weights `1/N` the weighted mean is the plain
mean (in the transformed space), for both distributions. -/
theorem single_azimuth_mean (d : Dist) (vals : List ℝ) (h : vals ≠ []) :
    nanmeanW d (vals.map some) (some (List.replicate vals.length (1 / (vals.length : ℝ)))) =
      nanmeanW d (vals.map some) none := by
  have hN : (vals.length : ℝ) ≠ 0 := by
    have : vals.length ≠ 0 := by simpa using h
    exact_mod_cast this
  rw [nanmeanW_unweighted, somes_map_some]
  have hl : vals.length ≠ 0 := by simpa using h
  simp only [hl, if_false]
  unfold nanmeanW nanmeanPre
  simp only [List.map_map]
  have e1 : (List.map ((fun v => Option.map d.pre v) ∘ some) vals) = (vals.map d.pre).map some := by
    rw [List.map_map]; rfl
  rw [e1, nansumProd_explicit, nansumW_explicit, divO_real]
  have hlen : vals.length = (vals.map d.pre).length := by simp
  rw [hlen, zip_replicate_map (vals.map d.pre) _ (fun v w => v * w)]
  simp only [List.sum_replicate, nsmul_eq_mul, List.length_map]
  have : (vals.length : ℝ) * (1 / (vals.length : ℝ)) = 1 := by field_simp
  rw [this, if_neg one_ne_zero, sum_map_mul_const _ _ (fun v => v)]
  simp only [List.map_id', Option.map_some, div_one, List.map_map]
  congr 2
  rw [mul_one_div]
  congr 2

/-- the Cheng denominator `1 − Σw²` for a single azimuth is `(N−1)/N`, which turns the weighted variance into
the `N − 1` sample variance -/
theorem cheng_denominator_single (N : Nat) (hN : 1 ≤ N) :
    1 - ((List.replicate N (1 / (N : ℝ))).map (fun w => w * w)).sum = ((N : ℝ) - 1) / N := by
  have : (N : ℝ) ≠ 0 := by exact_mod_cast (by omega : N ≠ 0)
  simp only [List.map_replicate, List.sum_replicate, nsmul_eq_mul]
  field_simp

/-! ### Non-vacuity -/
example : (chengWeights [2, 1] : Except String (List Rat)).toOption = some [1/4, 1/4, 1/2] := by decide +kernel
example : (chengWeights [2, 0] : Except String (List Rat)).toOption = none := by decide +kernel

end HV.C11
