import HvsrVerif.Props.C11Laws
/-!
# C11 (continued) — weighted statistics depend only on the multiset of (value, weight) pairs

`weighted_stats_perm`: the weighted mean and the Cheng standard deviation are unchanged by any simultaneous permutation of
the values and their weights; `azimuth_order_std`: hence permuting the azimuths (each keeping its windows and therefore
its weights) changes neither the mean nor the standard deviation of an azimuthal result.
-/
namespace HV.C11
open HV Classical

theorem weighted_stats_perm (d : Dist) (xs ws xs' ws' : List ℝ) (hl : xs.length = ws.length) (hl' : xs'.length = ws'.length)
    (hp : (List.zip xs ws).Perm (List.zip xs' ws')) :
    nanmeanW d (xs.map some) (some ws) = nanmeanW d (xs'.map some) (some ws') ∧
    nanstdW d (xs.map some) (some ws) .cheng = nanstdW d (xs'.map some) (some ws') .cheng := by
  have hws : ws = (List.zip xs ws).map Prod.snd := (List.map_snd_zip (by omega)).symm
  have hws' : ws' = (List.zip xs' ws').map Prod.snd := (List.map_snd_zip (by omega)).symm
  have e1 : ∀ l : List ℝ, (l.map some).map (fun v => v.map d.pre) = (l.map d.pre).map some := by
    intro l; rw [List.map_map, List.map_map]; rfl
  have e2 : ∀ l : List ℝ, (someWeights l).filterMap id = l := by
    intro l; unfold someWeights
    induction l with
    | nil => rfl
    | cons w t ih => simp
  have zipmap : ∀ (a b : List ℝ) (g : ℝ → ℝ → ℝ), (List.zip (a.map d.pre) b).map (fun p => g p.1 p.2)
      = (List.zip a b).map (fun p => g (d.pre p.1) p.2) := by
    intro a b g
    rw [List.zip_map_left, List.map_map]; rfl
  have sums : ∀ g : ℝ → ℝ → ℝ, ((List.zip (xs.map d.pre) ws).map (fun p => g p.1 p.2)).sum
      = ((List.zip (xs'.map d.pre) ws').map (fun p => g p.1 p.2)).sum := by
    intro g
    rw [zipmap, zipmap]
    exact (hp.map _).sum_eq
  have wsum : ws.sum = ws'.sum := by rw [hws, hws']; exact (hp.map _).sum_eq
  have wsq : (ws.map (fun w => w * w)).sum = (ws'.map (fun w => w * w)).sum := by
    rw [hws, hws', List.map_map, List.map_map]; exact (hp.map _).sum_eq
  have hmean : nanmeanW d (xs.map some) (some ws) = nanmeanW d (xs'.map some) (some ws') := by
    unfold nanmeanW nanmeanPre
    simp only [e1, nansumProd_explicit, nansumW_explicit, wsum, sums (fun v w => v * w)]
  refine ⟨hmean, ?_⟩
  unfold nanstdW
  rw [hmean]
  cases nanmeanW d (xs'.map some) (some ws') with
  | none => rfl
  | some m0 =>
    cases d
    · simp only [e1, nansumProd_explicit, e2, sumA_real, wsq]
      rw [sums (fun v w => w * ((v - m0) * (v - m0)))]
    · simp only [e1, nansumProd_explicit, e2, sumA_real, wsq]
      rw [sums (fun v w => w * ((v - Transc.log m0) * (v - Transc.log m0)))]

theorem groupWeights_length (A : ℕ) (groups : List (List ℝ)) :
    (groupWeights A groups).length = (groups.flatMap (fun g => g)).length := by
  unfold groupWeights
  induction groups with
  | nil => rfl
  | cons g gs ih => simp only [List.flatMap_cons, List.length_append, List.length_replicate, ih]

theorem zip_groups (A : ℕ) (groups : List (List ℝ)) :
    List.zip (groups.flatMap (fun g => g)) (groupWeights A groups)
      = groups.flatMap (fun g => List.zip g (List.replicate g.length (1 / ((A * g.length : ℕ) : ℝ)))) := by
  unfold groupWeights
  induction groups with
  | nil => rfl
  | cons g gs ih =>
    simp only [List.flatMap_cons]
    rw [List.zip_append (by simp), ih]

/-- **Nothing depends on the order of the azimuths**: mean and (Cheng) standard deviation, both distributions, any
numbers of accepted windows per azimuth. -/
theorem azimuth_order_stats (d : Dist) (groups groups' : List (List ℝ)) (hp : groups.Perm groups') :
    nanmeanW d ((groups.flatMap (fun g => g)).map some) (some (groupWeights groups.length groups)) =
      nanmeanW d ((groups'.flatMap (fun g => g)).map some) (some (groupWeights groups'.length groups')) ∧
    nanstdW d ((groups.flatMap (fun g => g)).map some) (some (groupWeights groups.length groups)) .cheng =
      nanstdW d ((groups'.flatMap (fun g => g)).map some) (some (groupWeights groups'.length groups')) .cheng := by
  apply weighted_stats_perm
  · exact (groupWeights_length _ _).symm
  · exact (groupWeights_length _ _).symm
  · rw [zip_groups, zip_groups, hp.length_eq]
    exact hp.flatMap_right _

end HV.C11
