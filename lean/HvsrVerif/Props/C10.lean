import HvsrVerif.Model.Split
import Mathlib.Data.Rat.Floor
import Mathlib.Tactic.Linarith
/-!
# C10 — Preprocessing applies the documented steps in order; windows tile the record

Model: `Model/Split.lean` (`split` mirrors the loop of `TimeSeries.split`, `split3` is
`SeismicRecording3C.split`, `preprocess` is `hvsr_preprocess` with the Butterworth filter, the
orientation and the detrend as ARBITRARY functions). Theorems over `ℕ`, `ℚ` and lists of an
arbitrary sample type.
-/
namespace HV.C10
open HV HV.Split

variable {β : Type}

/-! ## the loop of `TimeSeries.split` is the closed form `xs[j·k : j·k+k+1]` -/

theorem splitLoop_eq (k : Nat) (xs : List β) (m start : Nat) :
    splitLoop (k + 1) xs m start
      = (List.range m).map (fun j => slice xs (start + j * k) (start + j * k + k + 1)) := by
  induction m generalizing start with
  | zero => simp [splitLoop]
  | succ m ih =>
    rw [splitLoop, List.range_succ_eq_map, List.map_cons, List.map_map]
    simp only [Nat.zero_mul, Nat.add_zero]
    rw [ih]
    refine congrArg₂ _ (by rw [Nat.add_assoc]) ?_
    apply List.map_congr_left
    intro j _
    simp only [Function.comp, Nat.succ_eq_add_one, Nat.succ_mul]
    have : start + (k + 1) - 1 + j * k = start + (j * k + k) := by omega
    rw [this]

/-- `split` succeeds exactly with the list of closed-form windows `0 … n/k − 1` -/
theorem split_eq (k : Nat) (xs : List β) (ws : List (List β)) (h : split k xs = .ok ws) :
    0 < k ∧ 1 ≤ xs.length / k ∧ ws = (List.range (xs.length / k)).map (window k xs) := by
  unfold split at h
  split at h
  · cases h
  · rename_i hk
    split at h
    · cases h
    · rename_i hn
      injection h with h
      refine ⟨by omega, by unfold nWindows at hn; omega, ?_⟩
      rw [← h, splitLoop_eq]
      unfold nWindows window
      simp only [Nat.zero_add]

/-- number of windows: `⌊n / k⌋` -/
theorem split_count (k : Nat) (xs : List β) (ws : List (List β)) (h : split k xs = .ok ws) :
    ws.length = nWindows k xs.length := by
  obtain ⟨_, _, rfl⟩ := split_eq k xs ws h
  simp [nWindows]

theorem window_getElem_opt (k : Nat) (xs : List β) (j i : Nat) :
    (window k xs j)[i]? = if i < k + 1 then xs[j * k + i]? else none := by
  unfold window slice
  rw [List.getElem?_take]
  have : j * k + k + 1 - j * k = k + 1 := by omega
  rw [this, List.getElem?_drop]

theorem window_length (k : Nat) (xs : List β) (j : Nat) :
    (window k xs j).length = min (k + 1) (xs.length - j * k) := by
  unfold window slice
  rw [List.length_take, List.length_drop]
  have : j * k + k + 1 - j * k = k + 1 := by omega
  rw [this]

/-- arithmetic of `j < n / k` used throughout -/
theorem lt_div_facts {k n j : Nat} (hk : 0 < k) (hj : j < n / k) :
    j * k + k ≤ n ∧ n / k * k ≤ n ∧ n < n / k * k + k := by
  have h1 : (j + 1) * k ≤ n := (Nat.le_div_iff_mul_le hk).mp hj
  rw [Nat.succ_mul] at h1
  have h2 := Nat.div_mul_le_self n k
  have h3 := Nat.lt_mul_div_succ n hk
  rw [Nat.mul_add, Nat.mul_one, Nat.mul_comm] at h3
  exact ⟨h1, h2, h3⟩

/-- **content**: window `j` carries the record's samples `j·k … j·k+k` unaltered -/
theorem split_content (k : Nat) (xs : List β) (ws : List (List β)) (h : split k xs = .ok ws)
    (j : Nat) (hj : j < ws.length) :
    ∃ w, ws[j]? = some w ∧ ∀ i, w[i]? = if i ≤ k then xs[j * k + i]? else none := by
  obtain ⟨hk, _, rfl⟩ := split_eq k xs ws h
  simp only [List.length_map, List.length_range] at hj
  refine ⟨window k xs j, ?_, ?_⟩
  · simp [List.getElem?_map, List.getElem?_range hj]
  · intro i
    rw [window_getElem_opt]
    by_cases hi : i ≤ k
    · rw [if_pos (by omega), if_pos hi]
    · rw [if_neg (by omega), if_neg hi]

/-- **starts**: window `j` starts on sample `j·k` (which exists) -/
theorem split_starts (k : Nat) (xs : List β) (ws : List (List β)) (h : split k xs = .ok ws)
    (j : Nat) (hj : j < ws.length) :
    ∃ w x, ws[j]? = some w ∧ w[0]? = some x ∧ xs[j * k]? = some x := by
  obtain ⟨w, hw, hc⟩ := split_content k xs ws h j hj
  obtain ⟨hk, _, rfl⟩ := split_eq k xs ws h
  simp only [List.length_map, List.length_range] at hj
  have hf := lt_div_facts hk hj
  have hlt : j * k < xs.length := by omega
  refine ⟨w, xs[j * k], hw, ?_, List.getElem?_eq_getElem hlt⟩
  have := hc 0
  rw [if_pos (Nat.zero_le _), Nat.add_zero] at this
  rw [this, List.getElem?_eq_getElem hlt]

/-- **overlap**: consecutive windows share exactly their boundary sample — the last sample
(index `k`) of window `j` is the first sample of window `j+1`, and it is sample `(j+1)·k` -/
theorem split_overlap (k : Nat) (xs : List β) (ws : List (List β)) (h : split k xs = .ok ws)
    (j : Nat) (hj : j + 1 < ws.length) :
    ∃ w w' x, ws[j]? = some w ∧ ws[j + 1]? = some w' ∧ w[k]? = some x ∧ w'[0]? = some x ∧
      xs[(j + 1) * k]? = some x ∧ w.length = k + 1 := by
  obtain ⟨w, hw, hc⟩ := split_content k xs ws h j (by omega)
  obtain ⟨w', hw', hc'⟩ := split_content k xs ws h (j + 1) hj
  obtain ⟨hk, _, rfl⟩ := split_eq k xs ws h
  simp only [List.length_map, List.length_range] at hj
  have hf := lt_div_facts hk hj
  have hlt : (j + 1) * k < xs.length := by omega
  have e : j * k + k = (j + 1) * k := by rw [Nat.succ_mul]
  refine ⟨w, w', xs[(j + 1) * k], hw, hw', ?_, ?_, List.getElem?_eq_getElem hlt, ?_⟩
  · have := hc k
    rw [if_pos (Nat.le_refl _), e] at this
    rw [this, List.getElem?_eq_getElem hlt]
  · have := hc' 0
    rw [if_pos (Nat.zero_le _), Nat.add_zero] at this
    rw [this, List.getElem?_eq_getElem hlt]
  · have hjj : j < xs.length / k := by omega
    simp only [List.getElem?_map, List.getElem?_range hjj, Option.map_some, Option.some.injEq] at hw
    rw [← hw, window_length]
    have : (j + 1) * k = j * k + k := Nat.succ_mul j k
    omega

/-- the windows do not overlap in more than the boundary sample: window `j+1` starts exactly
where window `j` ends (no sample is skipped, none but the boundary is repeated) -/
theorem split_stride (k : Nat) (j : Nat) : (j + 1) * k = j * k + (k + 1) - 1 := by
  rw [Nat.succ_mul]; omega

/-- **length**: every window spans `k+1` samples, except that the final window has `k` samples
exactly when the record ends with it (`n = nWindows·k`) -/
theorem split_len (k : Nat) (xs : List β) (ws : List (List β)) (h : split k xs = .ok ws)
    (j : Nat) (hj : j < ws.length) :
    ∃ w, ws[j]? = some w ∧
      (w.length = k + 1 ∨ (w.length = k ∧ j + 1 = ws.length ∧ xs.length = nWindows k xs.length * k)) ∧
      (w.length = k ↔ (j + 1 = ws.length ∧ xs.length = nWindows k xs.length * k)) := by
  have hcount := split_count k xs ws h
  obtain ⟨hk, _, rfl⟩ := split_eq k xs ws h
  simp only [List.length_map, List.length_range] at hj hcount ⊢
  refine ⟨window k xs j, by simp [List.getElem?_map, List.getElem?_range hj], ?_⟩
  rw [window_length]
  unfold nWindows
  have hf := lt_div_facts hk hj
  by_cases hlast : j + 1 = xs.length / k
  · have e : xs.length / k * k = j * k + k := by rw [← hlast, Nat.succ_mul]
    constructor
    · by_cases hn : xs.length = xs.length / k * k
      · right; refine ⟨?_, hlast, hn⟩; omega
      · left; omega
    · constructor
      · intro hl; refine ⟨hlast, ?_⟩; omega
      · rintro ⟨_, hn⟩; omega
  · have hj2 : j + 1 < xs.length / k := by omega
    have hf2 := lt_div_facts hk hj2
    have e : (j + 1) * k = j * k + k := Nat.succ_mul j k
    constructor
    · left; omega
    · constructor
      · intro hl; omega
      · rintro ⟨h1, _⟩; omega

/-- **tail**: the samples after the last window are fewer than one window length (`< k`) -/
theorem split_tail (k : Nat) (xs : List β) (ws : List (List β)) (h : split k xs = .ok ws) :
    tailLen k xs.length < k ∧
    tailLen k xs.length + (nWindows k xs.length * k + 1) = max xs.length (nWindows k xs.length * k + 1) := by
  obtain ⟨hk, h1, _⟩ := split_eq k xs ws h
  unfold tailLen nWindows
  have h2 := Nat.div_mul_le_self xs.length k
  have h3 := Nat.lt_mul_div_succ xs.length hk
  rw [Nat.mul_add, Nat.mul_one, Nat.mul_comm] at h3
  constructor <;> omega

/-- **error**: a window longer than the record (`n < k`) is a `ValueError`; the only other refusal
is `k = 0` (window shorter than one sample interval: division by zero in the code) -/
theorem split_error (k : Nat) (xs : List β) :
    (0 < k → xs.length < k → split k xs = .error "value") ∧
    (k = 0 → split k xs = .error "zerodiv") ∧
    (0 < k → k ≤ xs.length → ∃ ws, split k xs = .ok ws) := by
  refine ⟨?_, ?_, ?_⟩
  · intro hk hn
    unfold split nWindows
    rw [if_neg (by omega), Nat.div_eq_of_lt hn]
    simp
  · intro hk
    unfold split
    rw [if_pos hk]
  · intro hk hn
    unfold split nWindows
    rw [if_neg (by omega)]
    have : 1 ≤ xs.length / k := (Nat.le_div_iff_mul_le hk).mpr (by omega)
    rw [if_neg (by omega)]
    exact ⟨_, rfl⟩

/-- a negative number of intervals (negative window length) is a `ValueError` -/
theorem split_negative (k : Nat) (xs : List β) : splitInt (Int.negSucc k) xs = .error "value" := rfl

/-! ## the number of intervals -/

/-- `intervalsExact` is the floor: `k ≤ L·fs < k+1` -/
theorem intervals_floor (L fs : Rat) (h : 0 ≤ L * fs) :
    (intervalsExact L fs : Rat) ≤ L * fs ∧ L * fs < (intervalsExact L fs : Rat) + 1 := by
  unfold intervalsExact
  have hnn : 0 ≤ (L * fs).floor := Rat.le_floor_iff.mpr (by simpa using h)
  have hc : (((L * fs).floor.toNat : Nat) : Rat) = (((L * fs).floor : Int) : Rat) := by
    have : (((L * fs).floor.toNat : Nat) : Int) = (L * fs).floor := Int.toNat_of_nonneg hnn
    exact_mod_cast congrArg (fun z : Int => (z : Rat)) this
  rw [hc]
  refine ⟨Rat.floor_le _, ?_⟩
  have := Rat.lt_floor_add_one (L * fs)
  push_cast at this
  exact this

/-- **exact multiples count in full**: if `L·fs` is a whole number `m`, the window has `m` intervals
(3 s at 75 Hz is 225 intervals) -/
theorem intervals_exact_multiple (L fs : Rat) (m : Nat) (h : L * fs = m) : intervalsExact L fs = m := by
  unfold intervalsExact
  rw [h]
  have : ((m : Nat) : Rat) = ((m : Int) : Rat) := by push_cast; rfl
  rw [this, Rat.floor_intCast]
  simp

example : intervalsExact 3 75 = 225 := by
  apply intervals_exact_multiple; norm_num
example : intervalsExact (38/10) 1000 = 3800 := by
  apply intervals_exact_multiple; norm_num
example : intervalsExact (566/1000) 500 = 283 := by
  apply intervals_exact_multiple; norm_num

/-! ## three components -/

theorem zip3_map {γ : Type} (l : List γ) (f g h : γ → List β) :
    zip3 (l.map f) (l.map g) (l.map h) = l.map (fun j => ⟨f j, g j, h j⟩) := by
  induction l with
  | nil => simp [zip3]
  | cons a l ih => simp [zip3, ih]

/-- **three components, one tiling**: components of equal length are cut at the same sample
indices — window `j` of the recording consists of window `j` of each component -/
theorem three_components_same_tiling (k : Nat) (r : Rec3 β) (ws : List (Rec3 β))
    (hlen : r.ns.length = r.ew.length ∧ r.ns.length = r.vt.length)
    (h : split3 (Int.ofNat k) r = .ok ws) :
    ws.length = nWindows k r.ns.length ∧
    ∀ j, j < ws.length → ws[j]? = some ⟨window k r.ns j, window k r.ew j, window k r.vt j⟩ := by
  unfold split3 splitInt at h
  simp only [bind, Except.bind, pure, Except.pure] at h
  split at h
  · cases h
  · rename_i a ha
    split at h
    · cases h
    · rename_i b hb
      split at h
      · cases h
      · rename_i c hc
        injection h with h
        obtain ⟨_, _, rfl⟩ := split_eq k r.ns a ha
        obtain ⟨_, _, rfl⟩ := split_eq k r.ew b hb
        obtain ⟨_, _, rfl⟩ := split_eq k r.vt c hc
        rw [← hlen.1, ← hlen.2, zip3_map] at h
        subst h
        refine ⟨by simp [nWindows], ?_⟩
        intro j hj
        simp only [List.length_map, List.length_range] at hj
        simp [List.getElem?_map, List.getElem?_range hj]

/-- a refusal in one component refuses the recording (and equal lengths make them agree) -/
theorem split3_error (k : Nat) (r : Rec3 β) (hk : 0 < k) (hn : r.ns.length < k) :
    split3 (Int.ofNat k) r = .error "value" := by
  unfold split3 splitInt
  simp only [bind, Except.bind]
  rw [(split_error k r.ns).1 hk hn]

/-! ## order of the steps -/

/-- **order**: for ARBITRARY `orient`, `filter`, `detrend`, preprocessing is
`detrend-each-window ∘ split ∘ filter-whole-record ∘ orient` -/
theorem preprocess_order (orient : Rec3 β → Rec3 β) (filter detrend : List β → List β) (k : Int)
    (r : Rec3 β) :
    preprocess orient filter (some k) detrend r
      = (split3 k (Rec3.map filter (orient r))).map (fun ws => ws.map (Rec3.map detrend)) := by
  unfold preprocess
  simp only [bind, Except.bind, pure, Except.pure]
  cases split3 k (Rec3.map filter (orient r)) <;> rfl

/-- without a window length the whole (oriented, filtered) record is detrended as one window -/
theorem preprocess_nosplit (orient : Rec3 β → Rec3 β) (filter detrend : List β → List β) (r : Rec3 β) :
    preprocess orient filter none detrend r
      = .ok [Rec3.map detrend (Rec3.map filter (orient r))] := rfl

/-- every output window is `detrend` of a window of the filtered, oriented record -/
theorem preprocess_windows (orient : Rec3 β → Rec3 β) (filter detrend : List β → List β) (k : Nat)
    (r : Rec3 β) (out : List (Rec3 β))
    (hlen : ∀ r : Rec3 β, (orient r).ns.length = r.ns.length ∧ (orient r).ew.length = r.ew.length ∧
      (orient r).vt.length = r.vt.length)
    (hfl : ∀ l, (filter l).length = l.length)
    (hr : r.ns.length = r.ew.length ∧ r.ns.length = r.vt.length)
    (h : preprocess orient filter (some (Int.ofNat k)) detrend r = .ok out) :
    out.length = nWindows k r.ns.length ∧
    ∀ j, j < out.length → out[j]? = some
      ⟨detrend (window k (filter (orient r).ns) j), detrend (window k (filter (orient r).ew) j),
       detrend (window k (filter (orient r).vt) j)⟩ := by
  rw [preprocess_order] at h
  cases hs : split3 (Int.ofNat k) (Rec3.map filter (orient r)) with
  | error e => rw [hs] at h; cases h
  | ok ws =>
    rw [hs] at h
    injection h with h
    subst h
    have hl := hlen r
    have := three_components_same_tiling k (Rec3.map filter (orient r)) ws
      (by simp only [Rec3.map, hfl]; omega) hs
    simp only [Rec3.map, hfl] at this
    refine ⟨by rw [List.length_map, this.1, hl.1], ?_⟩
    intro j hj
    rw [List.length_map] at hj
    rw [List.getElem?_map, this.2 j hj]
    rfl

/-- many recordings: windows are concatenated in input order -/
theorem preprocessMany_append (orient : Rec3 β → Rec3 β) (filter detrend : List β → List β)
    (k : Option Int) (r : Rec3 β) (rs : List (Rec3 β)) (w ws : List (Rec3 β))
    (h1 : preprocess orient filter k detrend r = .ok w)
    (h2 : preprocessMany orient filter k detrend rs = .ok ws) :
    preprocessMany orient filter k detrend (r :: rs) = .ok (w ++ ws) := by
  simp only [preprocessMany, bind, Except.bind, pure, Except.pure, h1, h2]

/-! ### the order matters: witnesses with a non-commuting transformer

`cumsum` (a causal filter) does not commute with splitting, and removing the first sample
(`a detrend`) does not commute with it either; so "filter each window" and "detrend before
splitting" are different functions from the documented order. -/

def cumsum : List Int → List Int
  | [] => []
  | x :: xs => x :: (cumsum xs).map (· + x)

def demean0 (l : List Int) : List Int := l.map (· - l.headD 0)

/-- filtering the whole record, then splitting ≠ splitting, then filtering each window -/
theorem order_matters_filter :
    preprocess (fun r => r) cumsum (some 2) (fun l => l) ⟨[1, 2, 3, 4, 5], [1, 2, 3, 4, 5], [1, 2, 3, 4, 5]⟩
      ≠ preprocess (fun r => r) (fun l => l) (some 2) cumsum ⟨[1, 2, 3, 4, 5], [1, 2, 3, 4, 5], [1, 2, 3, 4, 5]⟩ := by
  decide

/-- detrending each window after the split ≠ detrending the record before the split -/
theorem order_matters_detrend :
    preprocess (fun r => r) (fun l => l) (some 2) demean0 ⟨[1, 2, 3, 4, 5], [1, 2, 3, 4, 5], [1, 2, 3, 4, 5]⟩
      ≠ preprocess (fun r => r) demean0 (some 2) (fun l => l) ⟨[1, 2, 3, 4, 5], [1, 2, 3, 4, 5], [1, 2, 3, 4, 5]⟩ := by
  decide

/-- the operation trace the harness compares with the wrapped real methods is the documented order:
orient (if requested), filter, split, then one detrend per window -/
theorem expectedTrace_shape (o d : Bool) (k : Int) (n : Nat) (tr : List (TraceOp × Nat))
    (h : expectedTrace o (some k) d n = .ok tr) :
    ∃ ws, splitInt k (List.range n) = .ok ws ∧
      tr = (if o then [(TraceOp.orient, n)] else []) ++ [(TraceOp.filter, n)] ++ [(TraceOp.split, n)] ++
           (if d then ws.map (fun w => (TraceOp.detrend, w.length)) else []) := by
  unfold expectedTrace at h
  simp only [bind, Except.bind, pure, Except.pure] at h
  cases hs : splitInt k (List.range n) with
  | error e => rw [hs] at h; cases h
  | ok ws =>
    rw [hs] at h
    injection h with h
    exact ⟨ws, rfl, h.symm⟩

/-! ## non-vacuity: concrete records -/

/-- 10 samples, k = 4: two windows `[0..4]`, `[4..8]`, one discarded sample -/
example : split 4 (List.range 10) = .ok [[0, 1, 2, 3, 4], [4, 5, 6, 7, 8]] := by decide
/-- the record ends with the last window, one sample short: n = 2·4 -/
example : split 4 (List.range 8) = .ok [[0, 1, 2, 3, 4], [4, 5, 6, 7]] := by decide
example : split 4 (List.range 9) = .ok [[0, 1, 2, 3, 4], [4, 5, 6, 7, 8]] := by decide
example : split 4 (List.range 3) = .error "value" := by decide
example : split 4 (List.range 4) = .ok [[0, 1, 2, 3]] := by decide
example : tailLen 4 10 = 1 := by decide
example : split3 2 (⟨[1, 2, 3, 4, 5], [6, 7, 8, 9, 10], [0, 0, 1, 0, 0]⟩ : Rec3 Int)
    = .ok [⟨[1, 2, 3], [6, 7, 8], [0, 0, 1]⟩, ⟨[3, 4, 5], [8, 9, 10], [1, 0, 0]⟩] := by decide

end HV.C10
