import HvsrVerif.Props.C02
import HvsrVerif.Model.Process
/-!
# C01 — HVSR curves equal the defined spectral ratio for every combination method

The first sentence of the property is the model's definition (`Model/Process.lean::hvsrRow`: taper → |DFT| padded to
`n` → combine → smooth → divide) and is tied to the code by the correspondence. The theorems below are the
consequences the property names: homogeneity of every building block (hence invariance under a common factor and
the `a/b` scaling law), the closed forms for proportional components, and "zero padding, never truncation".
-/
namespace HV.C01
open HV Classical

/-! ### FFT length -/

theorem nextpow2Aux_gt (fuel p n : Nat) (hp : 1 ≤ p) (h : n < p * 2 ^ fuel) : n < nextpow2Aux fuel p n := by
  induction fuel generalizing p with
  | zero => simpa [nextpow2Aux] using h
  | succ f ih =>
    unfold nextpow2Aux
    split
    · assumption
    · apply ih (2 * p) (by omega)
      rw [pow_succ] at h
      calc n < p * (2 ^ f * 2) := h
        _ = 2 * p * 2 ^ f := by ring

theorem nextpow2Aux_form (fuel p n : Nat) : ∃ k, nextpow2Aux fuel p n = p * 2 ^ k ∧
    (k = 0 ∨ p * 2 ^ (k - 1) ≤ n) := by
  induction fuel generalizing p with
  | zero => exact ⟨0, by simp [nextpow2Aux], Or.inl rfl⟩
  | succ f ih =>
    unfold nextpow2Aux
    split
    · exact ⟨0, by simp, Or.inl rfl⟩
    · rename_i hnp
      obtain ⟨k, hk, hmin⟩ := ih (2 * p)
      refine ⟨k + 1, by rw [hk, pow_succ]; ring, Or.inr ?_⟩
      simp only [Nat.add_sub_cancel]
      cases k with
      | zero => simp; omega
      | succ j =>
        rcases hmin with h0 | h1
        · omega
        · simp only [Nat.add_sub_cancel] at h1
          calc p * 2 ^ (j + 1) = 2 * p * 2 ^ j := by rw [pow_succ]; ring
            _ ≤ n := h1

/-- `nextpow2 n` terminates and returns the smallest `min·2^k` that is strictly larger than `n`. -/
theorem nextpow2_spec (n min : Nat) (hmin : 1 ≤ min) :
    n < nextpow2 n min ∧ ∃ k, nextpow2 n min = min * 2 ^ k ∧ (k = 0 ∨ min * 2 ^ (k - 1) ≤ n) := by
  unfold nextpow2
  refine ⟨nextpow2Aux_gt (n + 1) min n hmin ?_, nextpow2Aux_form (n + 1) min n⟩
  have : n + 1 ≤ 2 ^ (n + 1) := Nat.lt_two_pow_self.le
  calc n < 2 ^ (n + 1) := by omega
    _ ≤ min * 2 ^ (n + 1) := Nat.le_mul_of_pos_left _ (by omega)

/-- **Zero padding, never truncation**: in all branches of `prepare_fft_settings` the FFT length stored is at
least the longest record. -/
theorem fftLen_ge (s : FftState) (maxN : Nat) : ∃ k, prepareFft s maxN = .n k ∧ maxN ≤ k := by
  have h := (nextpow2_spec maxN (2 ^ 15) (by norm_num)).1
  cases s with
  | unset => exact ⟨nextpow2 maxN, rfl, h.le⟩
  | nNone => exact ⟨maxN, rfl, le_refl _⟩
  | n user =>
    refine ⟨if user < nextpow2 maxN then nextpow2 maxN else user, rfl, ?_⟩
    split <;> omega

/-- A second call with the same records changes the stored state **iff** the state was `{"n": None}` …
(known finding C09-c: from that state the first call stores the record length, the second `nextpow2` of it). -/
theorem prepareFft_idem_iff (s : FftState) (maxN : Nat) :
    prepareFft (prepareFft s maxN) maxN = prepareFft s maxN ↔ s ≠ .nNone := by
  have h := (nextpow2_spec maxN (2 ^ 15) (by norm_num)).1
  cases s with
  | unset => simp [prepareFft]
  | nNone =>
    simp only [prepareFft, ne_eq, not_true_eq_false, iff_false]
    rw [if_pos h]
    intro hc
    injection hc with hc
    omega
  | n user =>
    simp only [prepareFft, ne_eq, reduceCtorEq, not_false_eq_true, iff_true]
    congr 1
    split <;> (try split) <;> omega

/-! ### Homogeneity of the building blocks -/

/-- every registered frequency-domain combination is positively homogeneous of degree one -/
theorem combine_homog (m : Combine) (c a b : ℝ) (hc : 0 ≤ c) : m.apply (c * a) (c * b) = c * m.apply a b := by
  cases m <;> simp only [Combine.apply, sqrt_real, ofNat_real, Nat.cast_ofNat]
  · ring
  · rw [show (c * a * (c * a) + c * b * (c * b)) / 2 = c ^ 2 * ((a * a + b * b) / 2) by ring,
      Real.sqrt_mul (sq_nonneg c), Real.sqrt_sq hc]
  · rw [show c * a * (c * b) = c ^ 2 * (a * b) by ring, Real.sqrt_mul (sq_nonneg c), Real.sqrt_sq hc]
  · rw [show c * a * (c * a) + c * b * (c * b) = c ^ 2 * (a * a + b * b) by ring,
      Real.sqrt_mul (sq_nonneg c), Real.sqrt_sq hc]
  · by_cases h : b < a
    · have : c * b < c * a ∨ c = 0 := by
        rcases hc.lt_or_eq with h0 | h0
        · exact Or.inl (mul_lt_mul_of_pos_left h h0)
        · exact Or.inr h0.symm
      rcases this with h1 | h1
      · simp [h, h1]
      · subst h1; simp
    · have : ¬ c * b < c * a := by
        rw [not_lt] at h ⊢
        exact mul_le_mul_of_nonneg_left h hc
      simp [h, this]

/-- the closed forms of the property for proportional spectra `|A|·s`, `|B|·s` (`s ≥ 0`) -/
theorem combine_closed_form (m : Combine) (A B s : ℝ) (hs : 0 ≤ s) :
    m.apply (A * s) (B * s) =
      (match m with
        | .arithmeticMean => (A + B) / 2
        | .squaredAverage => Real.sqrt ((A ^ 2 + B ^ 2) / 2)
        | .geometricMean => Real.sqrt (A * B)
        | .totalHorizontalEnergy => Real.sqrt (A ^ 2 + B ^ 2)
        | .maximumHorizontalValue => max A B) * s := by
  have h := combine_homog m s A B hs
  rw [mul_comm A s, mul_comm B s] at *
  rw [h, mul_comm]
  congr 1
  cases m <;> simp only [Combine.apply, sqrt_real, ofNat_real, Nat.cast_ofNat]
  · congr 2; ring
  · congr 1; ring
  · by_cases h : B < A
    · simp [h, max_eq_left h.le]
    · simp [h, max_eq_right (not_lt.mp h)]

/-- the time-domain projection is linear in the horizontals -/
theorem singleAz_linear (deg a b c d x y : ℝ) :
    singleAzimuth deg (x * a + y * c) (x * b + y * d) = x * singleAzimuth deg a b + y * singleAzimuth deg c d := by
  unfold singleAzimuth; ring

theorem taper_homog (w c : ℝ) (x : List ℝ) : taper w (x.map (c * ·)) = (taper w x).map (c * ·) := by
  unfold taper
  simp only [List.length_map]
  generalize tukey x.length w = t
  induction x generalizing t with
  | nil => simp
  | cons a as ih =>
    cases t with
    | nil => simp
    | cons b bs => simp [ih bs]; ring

theorem sumA_map_mul (l : List ℝ) (c : ℝ) : sumA (l.map (c * ·)) = c * sumA l := by
  rw [sumA_real, sumA_real]
  induction l with
  | nil => simp
  | cons a t ih => simp [ih]; ring

theorem dft_homog (c : ℝ) (x : List ℝ) (n k : Nat) :
    dftRe (x.map (c * ·)) n k = c * dftRe x n k ∧ dftIm (x.map (c * ·)) n k = c * dftIm x n k := by
  unfold dftRe dftIm
  simp only [List.length_map]
  have e : ∀ (g : Nat → ℝ), (List.zip (List.range x.length) (x.map (c * ·))).map (fun p => p.2 * g p.1)
      = ((List.zip (List.range x.length) x).map (fun p => p.2 * g p.1)).map (c * ·) := by
    intro g
    generalize List.range x.length = r
    induction x generalizing r with
    | nil => simp
    | cons a as ih =>
      cases r with
      | nil => simp
      | cons i is => simp [ih is]; ring
  constructor
  · rw [e (fun j => Transc.cos (dftAngle n j k)), sumA_map_mul]
  · rw [e (fun j => Transc.sin (dftAngle n j k)), sumA_map_mul]; ring

/-- `|DFT(c·x)| = |c|·|DFT(x)|` -/
theorem ampSpec_homog (c : ℝ) (x : List ℝ) (n : Nat) :
    ampSpec (x.map (c * ·)) n = (ampSpec x n).map (|c| * ·) := by
  unfold ampSpec rfft
  simp only [List.map_map]
  apply List.map_congr_left
  intro k _
  simp only [Function.comp, ← List.map_take]
  obtain ⟨h1, h2⟩ := dft_homog c (x.take n) n k
  rw [h1, h2]
  simp only [sqrt_real]
  rw [show c * dftRe (List.take n x) n k * (c * dftRe (List.take n x) n k) +
        c * dftIm (List.take n x) n k * (c * dftIm (List.take n x) n k)
      = c ^ 2 * (dftRe (List.take n x) n k * dftRe (List.take n x) n k + dftIm (List.take n x) n k * dftIm (List.take n x) n k) by ring,
    Real.sqrt_mul (sq_nonneg c), Real.sqrt_sq_eq_abs]

/-- smoothing with a window operator is homogeneous -/
theorem smooth_homog (weight : ℝ → ℝ → Option ℝ) (freqs x : List ℝ) (fc c : ℝ) :
    kernelSmoothRow weight freqs (x.map (c * ·)) fc = c * kernelSmoothRow weight freqs x fc := by
  have h := C02.smooth_linear weight freqs x x fc c 0 rfl
  have e : List.zipWith (fun u v => c * u + 0 * v) x x = x.map (c * ·) := by
    induction x with
    | nil => rfl
    | cons a t ih => simp [ih]
  rw [e] at h
  rw [h]; ring

/-- **Scale laws at the level of one smoothed ratio**: with `h` scaled by `a ≥ 0` and `v` by `b > 0` the ratio of the
smoothed spectra scales by `a/b`; in particular it is unchanged when `a = b`. -/
theorem ratio_scale (sh sv a b : ℝ) (hb : b ≠ 0) (hv : sv ≠ 0) : (a * sh) / (b * sv) = (a / b) * (sh / sv) := by
  field_simp

/-! ### The composed law: a common factor leaves every curve unchanged -/

theorem getD_map_mul (row : List ℝ) (c : ℝ) (i : ℕ) : (row.map (c * ·)).getD i 0 = c * row.getD i 0 := by
  simp only [List.getD_eq_getElem?_getD, List.getElem?_map]
  cases row[i]? <;> simp

theorem foldl_add_eqC (l : List ℝ) (x : ℝ) : l.foldl (· + ·) x = x + l.sum := by
  induction l generalizing x with
  | nil => simp
  | cons a t ih => simp only [List.foldl_cons, List.sum_cons, ih]; ring

theorem sgAt_homog (m : ℕ) (row : List ℝ) (c : ℝ) (idx : Int) :
    sgAt m (row.map (c * ·)) idx = c * sgAt m row idx := by
  unfold sgAt
  simp only [List.length_map]
  split
  · simp
  · simp only [getD_map_mul, ofNat_real, Nat.cast_zero, foldl_add_eqC]
    have : (List.map (fun r => (sgCoeff m (r + 1) : ℝ) * (c * row.getD (idx.toNat + (r + 1)) 0 + c * row.getD (idx.toNat - (r + 1)) 0))
        (List.range ((m - 1) / 2))).sum
        = c * (List.map (fun r => (sgCoeff m (r + 1) : ℝ) * (row.getD (idx.toNat + (r + 1)) 0 + row.getD (idx.toNat - (r + 1)) 0))
        (List.range ((m - 1) / 2))).sum := by
      induction (List.range ((m - 1) / 2)) with
      | nil => simp
      | cons a t ih => simp only [List.map_cons, List.sum_cons, ih]; ring
    rw [this]
    ring

/-- every registered smoothing operator is homogeneous: scaling all rows by `c` scales the result by `c`
(and an operator that refuses its arguments refuses them either way) -/
theorem smoothByName_homog (op : String) (bw c : ℝ) (freqs : List ℝ) (rows : List (List ℝ)) (fcs : List ℝ) :
    smoothByName op bw freqs (rows.map (fun r => r.map (c * ·))) fcs =
      (smoothByName op bw freqs rows fcs).map (fun m => m.map (fun r => r.map (c * ·))) := by
  have hk : ∀ w : ℝ → ℝ → Option ℝ, kernelSmooth w freqs (rows.map (fun r => r.map (c * ·))) fcs
      = (kernelSmooth w freqs rows fcs).map (fun r => r.map (c * ·)) := by
    intro w
    unfold kernelSmooth
    simp only [List.map_map]
    apply List.map_congr_left
    intro r _
    simp only [Function.comp, List.map_map]
    apply List.map_congr_left
    intro fc _
    simp only [Function.comp]
    exact smooth_homog w freqs r fc c
  unfold smoothByName
  split
  all_goals try (simp only [hk, Except.map])
  · -- savitzky_and_golay
    unfold savitzkyGolay
    simp only
    split
    · rfl
    · split
      · rfl
      · split
        · rfl
        · simp only [Except.map, List.map_map, Except.ok.injEq]
          apply List.map_congr_left
          intro r _
          simp only [Function.comp, List.map_map]
          apply List.map_congr_left
          intro i _
          simp only [Function.comp]
          exact sgAt_homog _ r c _

theorem ratioRow_scale (a : ℝ) (ha : 0 < a) (h v : List ℝ) :
    ratioRow (h.map (a * ·)) (v.map (a * ·)) = ratioRow h v := by
  unfold ratioRow
  induction h generalizing v with
  | nil => simp
  | cons x xs ih =>
    cases v with
    | nil => simp
    | cons y ys =>
      simp only [List.map_cons, List.zip_cons_cons, List.mapM_cons]
      have e0 : eqA (a * y) (Arith.ofNat 0 : ℝ) = eqA y (Arith.ofNat 0 : ℝ) := by
        simp only [ofNat_real, Nat.cast_zero]
        by_cases hy : y = 0
        · subst hy; simp
        · have h1 : eqA y (0:ℝ) = false := by rw [Bool.eq_false_iff]; intro hh; exact hy ((eqA_real y 0).mp hh)
          have h2 : eqA (a * y) (0:ℝ) = false := by
            rw [Bool.eq_false_iff]; intro hh
            have := (eqA_real (a * y) 0).mp hh
            rcases mul_eq_zero.mp this with h | h
            · linarith
            · exact hy h
          rw [h1, h2]
      rw [e0]
      have hq : a * x / (a * y) = x / y := by
        by_cases hy : y = 0
        · subst hy; simp
        · field_simp
      rw [hq]
      have := ih ys
      simp only [List.mapM_cons] at this ⊢
      rw [this]

/-- **Unchanged under a common factor.** Multiplying all three components of a record by one factor `a > 0` leaves
its HVSR curve unchanged, for every frequency-domain combination, every smoothing operator (including the
refusals), every taper width and FFT length. -/
theorem hvsr_scale_invariant (m : Combine) (cfg : ProcCfg ℝ) (n : ℕ) (r : Rec3 ℝ) (a : ℝ) (ha : 0 < a) :
    hvsrRow (.combine m) cfg n { r with ns := r.ns.map (a * ·), ew := r.ew.map (a * ·), vt := r.vt.map (a * ·) }
      = hvsrRow (.combine m) cfg n r := by
  unfold hvsrRow
  simp only [taper_homog, ampSpec_homog, abs_of_pos ha]
  have hcomb : (List.zip ((ampSpec (taper cfg.width r.ns) n).map (a * ·)) ((ampSpec (taper cfg.width r.ew) n).map (a * ·))).map
      (fun p => m.apply p.1 p.2)
      = ((List.zip (ampSpec (taper cfg.width r.ns) n) (ampSpec (taper cfg.width r.ew) n)).map (fun p => m.apply p.1 p.2)).map (a * ·) := by
    generalize ampSpec (taper cfg.width r.ns) n = X
    generalize ampSpec (taper cfg.width r.ew) n = Y
    induction X generalizing Y with
    | nil => simp
    | cons x xs ih =>
      cases Y with
      | nil => simp
      | cons y ys => simp [ih ys, combine_homog m a x y ha.le]
  rw [hcomb]
  unfold smoothRows
  have := smoothByName_homog cfg.op cfg.bw a (rfftfreq n r.dt)
    [(List.zip (ampSpec (taper cfg.width r.ns) n) (ampSpec (taper cfg.width r.ew) n)).map (fun p => m.apply p.1 p.2),
     ampSpec (taper cfg.width r.vt) n] cfg.fcs
  simp only [List.map_cons, List.map_nil] at this
  rw [this]
  cases smoothByName cfg.op cfg.bw (rfftfreq n r.dt)
    [(List.zip (ampSpec (taper cfg.width r.ns) n) (ampSpec (taper cfg.width r.ew) n)).map (fun p => m.apply p.1 p.2),
     ampSpec (taper cfg.width r.vt) n] cfg.fcs with
  | error e => rfl
  | ok sm =>
    simp only [Except.map]
    match sm with
    | [] => rfl
    | [_] => rfl
    | [sh, sv] => simp only [List.map_cons, List.map_nil]; exact ratioRow_scale a ha sh sv
    | _ :: _ :: _ :: _ => rfl

/-! ### Non-vacuity -/
example : nextpow2 300 = 32768 := by decide
example : nextpow2 32768 = 65536 := by decide
example : prepareFft .nNone 300 = .n 300 ∧ prepareFft (.n 300) 300 = .n 32768 := by decide
example : prepareFft .unset 50001 = .n 65536 := by decide

end HV.C01
