import HvsrVerif.Props.C04
import HvsrVerif.Props.C01
import HvsrVerif.Proofs.DFTLemmas
/-!
# C04 (continued) — the rotation-invariant combinations do not depend on the sensor orientation (composed)

`rotinv_hvsr`: re-orienting the sensor of a record by any angle (`orientRec`, the per-sample rotation of
`orient_sensor_to` applied to both horizontals) leaves the HVSR curve of the squared-average family and of the
total-horizontal-energy family unchanged — through the whole chain taper → |DFT| → combine → smooth → divide, for every
operator, taper width and FFT length. `rotinv_power` is the same statement for the sum of the two horizontal power
spectra (what the diffuse-field method uses).
-/
namespace HV.C04
open HV Classical Real

/-- the record after `orient_sensor_to(new)` of a sensor currently at `cur` -/
noncomputable def orientRec (cur new : ℝ) (r : Rec3 ℝ) : Rec3 ℝ :=
  { r with deg := new,
           ns := (List.zip r.ns r.ew).map (fun p => (orientSample cur new p).1),
           ew := (List.zip r.ns r.ew).map (fun p => (orientSample cur new p).2) }

/-- `u·a + v·b`, sample by sample -/
noncomputable def lin2 (u v : ℝ) (a b : List ℝ) : List ℝ := (List.zip a b).map (fun p => u * p.1 + v * p.2)

theorem lin2_length (u v : ℝ) (a b : List ℝ) (h : a.length = b.length) : (lin2 u v a b).length = a.length := by
  unfold lin2; simp [h]

theorem lin2_getD (u v : ℝ) (a b : List ℝ) (h : a.length = b.length) (j : ℕ) :
    (lin2 u v a b).getD j 0 = u * a.getD j 0 + v * b.getD j 0 := by
  unfold lin2
  induction a generalizing b j with
  | nil => cases b with
    | nil => simp
    | cons y ys => simp at h
  | cons x xs ih =>
    cases b with
    | nil => simp at h
    | cons y ys =>
      simp only [List.length_cons, Nat.add_right_cancel_iff] at h
      cases j with
      | zero => simp
      | succ j => simpa using ih ys h j

theorem taper_lin2 (w u v : ℝ) (a b : List ℝ) (h : a.length = b.length) :
    taper w (lin2 u v a b) = lin2 u v (taper w a) (taper w b) := by
  unfold taper
  rw [lin2_length u v a b h, ← h]
  generalize tukey a.length w = T
  unfold lin2
  induction a generalizing b T with
  | nil => simp
  | cons x xs ih =>
    cases b with
    | nil => simp at h
    | cons y ys =>
      simp only [List.length_cons, Nat.add_right_cancel_iff] at h
      cases T with
      | nil => simp
      | cons t ts =>
        simp only [List.zip_cons_cons, List.map_cons, List.cons.injEq]
        exact ⟨by ring, ih ys h ts⟩

theorem take_lin2 (u v : ℝ) (a b : List ℝ) (n : ℕ) : (lin2 u v a b).take n = lin2 u v (a.take n) (b.take n) := by
  unfold lin2
  rw [← List.map_take]
  congr 1
  simp only [List.zip, List.take_zipWith]

theorem dftRe_lin2 (u v : ℝ) (a b : List ℝ) (h : a.length = b.length) (n k : ℕ) :
    dftRe (lin2 u v a b) n k = u * dftRe a n k + v * dftRe b n k := by
  unfold dftRe
  simp only [sumA_real, cos_real]
  rw [zip_range_sum (lin2 u v a b) (fun j x => x * Real.cos (dftAngle n j k)),
    zip_range_sum a (fun j x => x * Real.cos (dftAngle n j k)),
    zip_range_sum b (fun j x => x * Real.cos (dftAngle n j k)), lin2_length u v a b h, ← h,
    Finset.mul_sum, Finset.mul_sum, ← Finset.sum_add_distrib]
  apply Finset.sum_congr rfl
  intro j _
  rw [lin2_getD u v a b h]; ring

theorem dftIm_lin2 (u v : ℝ) (a b : List ℝ) (h : a.length = b.length) (n k : ℕ) :
    dftIm (lin2 u v a b) n k = u * dftIm a n k + v * dftIm b n k := by
  unfold dftIm
  simp only [sumA_real, sin_real]
  rw [zip_range_sum (lin2 u v a b) (fun j x => x * Real.sin (dftAngle n j k)),
    zip_range_sum a (fun j x => x * Real.sin (dftAngle n j k)),
    zip_range_sum b (fun j x => x * Real.sin (dftAngle n j k)), lin2_length u v a b h, ← h]
  have e : ∑ j ∈ Finset.range a.length, (lin2 u v a b).getD j 0 * Real.sin (dftAngle n j k)
      = u * ∑ j ∈ Finset.range a.length, a.getD j 0 * Real.sin (dftAngle n j k)
        + v * ∑ j ∈ Finset.range a.length, b.getD j 0 * Real.sin (dftAngle n j k) := by
    rw [Finset.mul_sum, Finset.mul_sum, ← Finset.sum_add_distrib]
    apply Finset.sum_congr rfl
    intro j _
    rw [lin2_getD u v a b h]; ring
  rw [e]; ring

/-- power of bin `k` of the tapered, padded series -/
noncomputable def binPow (w : ℝ) (x : List ℝ) (n k : ℕ) : ℝ :=
  dftRe ((taper w x).take n) n k * dftRe ((taper w x).take n) n k + dftIm ((taper w x).take n) n k * dftIm ((taper w x).take n) n k

/-- **The summed horizontal power of every bin is independent of the sensor orientation.** -/
theorem rotinv_power (w : ℝ) (c s : ℝ) (hcs : c ^ 2 + s ^ 2 = 1) (a b : List ℝ) (h : a.length = b.length) (n k : ℕ) :
    binPow w (lin2 c s a b) n k + binPow w (lin2 (-s) c a b) n k = binPow w a n k + binPow w b n k := by
  unfold binPow
  have hl : (taper w a).length = (taper w b).length := by unfold taper; simp [h]
  have ht : ((taper w a).take n).length = ((taper w b).take n).length := by simp [hl]
  rw [taper_lin2 w c s a b h, taper_lin2 w (-s) c a b h, take_lin2, take_lin2,
    dftRe_lin2 _ _ _ _ ht, dftIm_lin2 _ _ _ _ ht, dftRe_lin2 _ _ _ _ ht, dftIm_lin2 _ _ _ _ ht]
  nlinarith [hcs]

theorem orientRec_ns (cur new : ℝ) (r : Rec3 ℝ) :
    (orientRec cur new r).ns = lin2 (Real.cos (radians (new - cur))) (Real.sin (radians (new - cur))) r.ns r.ew := by
  unfold orientRec lin2 orientSample
  simp only [cos_real, sin_real]
  apply List.map_congr_left
  intro p _; ring

theorem orientRec_ew (cur new : ℝ) (r : Rec3 ℝ) :
    (orientRec cur new r).ew = lin2 (-(Real.sin (radians (new - cur)))) (Real.cos (radians (new - cur))) r.ns r.ew := by
  unfold orientRec lin2 orientSample
  simp only [cos_real, sin_real]
  apply List.map_congr_left
  intro p _; ring

theorem ampSpec_eq (w : ℝ) (x : List ℝ) (n : ℕ) :
    ampSpec (taper w x) n = (List.range (n / 2 + 1)).map (fun k => Real.sqrt (binPow w x n k)) := by
  unfold ampSpec rfft binPow
  simp only [List.map_map, sqrt_real]
  rfl

/-- the combinations that are functions of `|N|² + |E|²` -/
def RotInv (m : Combine) : Prop := m = .squaredAverage ∨ m = .totalHorizontalEnergy

theorem combine_of_power (m : Combine) (hm : RotInv m) (P Q P' Q' : ℝ) (hP : 0 ≤ P) (hQ : 0 ≤ Q) (hP' : 0 ≤ P') (hQ' : 0 ≤ Q')
    (h : P' + Q' = P + Q) : m.apply (Real.sqrt P') (Real.sqrt Q') = m.apply (Real.sqrt P) (Real.sqrt Q) := by
  rcases hm with rfl | rfl <;>
  · simp only [Combine.apply, sqrt_real, ofNat_real, Real.mul_self_sqrt hP, Real.mul_self_sqrt hQ, Real.mul_self_sqrt hP',
      Real.mul_self_sqrt hQ', h]

theorem binPow_nonneg (w : ℝ) (x : List ℝ) (n k : ℕ) : 0 ≤ binPow w x n k := by
  unfold binPow; nlinarith [mul_self_nonneg (dftRe ((taper w x).take n) n k), mul_self_nonneg (dftIm ((taper w x).take n) n k)]

/-- **Orientation independence of the rotation-invariant combinations, through the whole chain.** -/
theorem rotinv_hvsr (m : Combine) (hm : RotInv m) (cfg : ProcCfg ℝ) (n : ℕ) (r : Rec3 ℝ) (hlen : r.ns.length = r.ew.length)
    (cur new : ℝ) : hvsrRow (.combine m) cfg n (orientRec cur new r) = hvsrRow (.combine m) cfg n r := by
  have hcs : Real.cos (radians (new - cur)) ^ 2 + Real.sin (radians (new - cur)) ^ 2 = 1 := by
    rw [add_comm]; exact Real.sin_sq_add_cos_sq _
  unfold hvsrRow
  simp only [orientRec_ns, orientRec_ew, ampSpec_eq]
  have hvt : (orientRec cur new r).vt = r.vt := rfl
  have hdt : (orientRec cur new r).dt = r.dt := rfl
  rw [hvt, hdt]
  have hrow : (List.zip
        ((List.range (n / 2 + 1)).map (fun k => Real.sqrt (binPow cfg.width
          (lin2 (Real.cos (radians (new - cur))) (Real.sin (radians (new - cur))) r.ns r.ew) n k)))
        ((List.range (n / 2 + 1)).map (fun k => Real.sqrt (binPow cfg.width
          (lin2 (-(Real.sin (radians (new - cur)))) (Real.cos (radians (new - cur))) r.ns r.ew) n k)))).map
          (fun p => m.apply p.1 p.2)
      = (List.zip ((List.range (n / 2 + 1)).map (fun k => Real.sqrt (binPow cfg.width r.ns n k)))
          ((List.range (n / 2 + 1)).map (fun k => Real.sqrt (binPow cfg.width r.ew n k)))).map (fun p => m.apply p.1 p.2) := by
    rw [List.zip_map', List.zip_map', List.map_map, List.map_map]
    apply List.map_congr_left
    intro k _
    simp only [Function.comp]
    exact combine_of_power m hm _ _ _ _ (binPow_nonneg _ _ _ _) (binPow_nonneg _ _ _ _) (binPow_nonneg _ _ _ _)
      (binPow_nonneg _ _ _ _) (rotinv_power cfg.width _ _ hcs r.ns r.ew hlen n k)
  rw [hrow]

end HV.C04

namespace HV.C04
open HV Classical Real

/-- **180° periodicity, through the whole chain**: the single-azimuth HVSR at `a + 180°` is the one at `a`. -/
theorem singleAz_hvsr_180 (az : ℝ) (cfg : ProcCfg ℝ) (n : ℕ) (r : Rec3 ℝ) :
    hvsrRow (.singleAz (az + 180)) cfg n r = hvsrRow (.singleAz az) cfg n r := by
  unfold hvsrRow
  have e : az + 180 - r.deg = (az - r.deg) + 180 := by ring
  simp only [e, singleAz_series_180, HV.C01.taper_homog, HV.C01.ampSpec_homog, abs_neg, abs_one, one_mul, List.map_id']

/-- **Single azimuth = north component after orienting the sensor to that azimuth**, through the whole chain: the
projection series used by `hvsrRow (.singleAz a)` is the `ns` series of `orientRec r.deg a r`. -/
theorem singleAz_series_is_oriented_north (az : ℝ) (r : Rec3 ℝ) :
    singleAzimuthSeries (az - r.deg) r.ns r.ew = (orientRec r.deg az r).ns := by
  rw [orientRec_ns]
  unfold singleAzimuthSeries lin2 singleAzimuth
  simp only [cos_real, sin_real]
  apply List.map_congr_left
  intro p _; ring

end HV.C04
