import HvsrVerif.Proofs.StatsLemmas
/-!
# C06 — Frequency-domain window rejection follows Cox et al. (2020) and terminates

Model: `Model/Fdwra.lean` (mirror of `_frequency_domain_window_rejection`).
-/
namespace HV.C06
open HV Classical

theorem optLt_real (a b : Option ℝ) : optLt a b = true ↔ ∃ x y, a = some x ∧ b = some y ∧ x < y := by
  cases a <;> cases b <;> simp [optLt]

/-- **One iteration removes exactly the accepted windows whose peak frequency lies outside
`(lower, upper)`**: window `i` has a valid peak afterwards iff it had one before and
`lower < f_i < upper` (strict, as published; undefined bounds keep nothing). -/
theorem iter_keeps_iff (lower upper : Option ℝ) (s : HvTrad ℝ) (i : Nat) :
    (fdwraApply lower upper s).vPeak[i]? = some true ↔
      s.vPeak[i]? = some true ∧ ∃ l u f a, lower = some l ∧ upper = some u ∧ s.peaks[i]? = some (some (f, a)) ∧
        l < f ∧ f < u := by
  unfold fdwraApply fdwraKeep
  simp only [List.getElem?_map, List.getElem?_zip_eq_some, Option.map_eq_some_iff]
  constructor
  · rintro ⟨⟨b, pk⟩, ⟨hb, hpk⟩, hk⟩
    simp only at hk
    split at hk
    · rename_i hbt
      simp only [Bool.and_eq_true, optLt_real] at hk
      obtain ⟨⟨l, f, hl, hf, hlf⟩, ⟨f', u, hf', hu, hfu⟩⟩ := hk
      cases pk with
      | none => simp at hf
      | some fa =>
        obtain ⟨f0, a0⟩ := fa
        simp only [Option.map_some, Option.some.injEq] at hf hf'
        subst hf hf'
        subst hbt
        exact ⟨hb, l, u, f0, a0, hl, hu, hpk, hlf, hfu⟩
    · cases hk
  · rintro ⟨hb, l, u, f, a, hl, hu, hpk, hlf, hfu⟩
    refine ⟨(true, some (f, a)), ⟨hb, hpk⟩, ?_⟩
    simp [hl, hu, optLt, hlf, hfu]

theorem apply_vPeak_sub (lower upper : Option ℝ) (s : HvTrad ℝ) (i : Nat)
    (h : (fdwraApply lower upper s).vPeak[i]? = some true) : s.vPeak[i]? = some true :=
  ((iter_keeps_iff lower upper s i).mp h).1

theorem iter_vPeak_sub (p : FdwraParams ℝ) (s s' : HvTrad ℝ) (b : Bool) (tr : FdwraTrace ℝ)
    (h : fdwraIter p s = .ok (s', b, tr)) (i : Nat) (hi : s'.vPeak[i]? = some true) : s.vPeak[i]? = some true := by
  unfold fdwraIter at h
  simp only at h
  split at h
  · cases h
  · split at h
    · cases h
    · split at h
      · injection h with h; injection h with h1 _; subst h1; exact apply_vPeak_sub _ _ _ _ hi
      · injection h with h; injection h with h1 _; subst h1; exact apply_vPeak_sub _ _ _ _ hi

theorem loop_spec (p : FdwraParams ℝ) : ∀ (fuel done : Nat) (s s' : HvTrad ℝ) (k : Nat) (trs : List (FdwraTrace ℝ)),
    fdwraLoop p fuel done s = .ok (k, s', trs) →
      (done ≤ k ∧ k ≤ done + fuel ∧ (0 < fuel → done < k) ∧ trs.length = k - done) ∧
      ∀ i : Nat, s'.vPeak[i]? = some true → s.vPeak[i]? = some true := by
  intro fuel
  induction fuel with
  | zero =>
    intro done s s' k trs h
    unfold fdwraLoop at h
    injection h with h; injection h with h1 h2; injection h2 with h2 h3
    subst h1 h2 h3
    exact ⟨⟨le_refl _, by omega, by omega, by simp⟩, fun i hi => hi⟩
  | succ fuel ih =>
    intro done s s' k trs h
    unfold fdwraLoop at h
    split at h
    · cases h
    · rename_i s1 stop tr hit
      split at h
      · injection h with h; injection h with h1 h2; injection h2 with h2 h3
        subst h1 h2 h3
        exact ⟨⟨by omega, by omega, by omega, by simp⟩, fun i hi => iter_vPeak_sub p s s1 stop tr hit i hi⟩
      · split at h
        · cases h
        · rename_i k2 s2 trs2 hrec
          injection h with h; injection h with h1 h2; injection h2 with h2 h3
          subst h1 h2 h3
          obtain ⟨⟨a1, a2, a3, a4⟩, a5⟩ := ih (done + 1) s1 s2 k2 trs2 hrec
          refine ⟨⟨by omega, by omega, by omega, by simp; omega⟩, fun i hi => ?_⟩
          exact iter_vPeak_sub p s s1 stop tr hit i (a5 i hi)

/-- **Never re-accepts.** Relative to the accept state right after the peak search performed on entry, the
final valid-peak mask is pointwise ≤ the entry mask. -/
theorem fdwra_monotone (p : FdwraParams ℝ) (s s' : HvTrad ℝ) (k : Nat) (trs : List (FdwraTrace ℝ))
    (h : fdwraTrad p s = .ok (k, s', trs)) (i : Nat) :
    s'.vPeak[i]? = some true → (updatePeaks p.range false s).vPeak[i]? = some true :=
  (loop_spec p _ _ _ _ _ _ h).2 i

/-- **Bounded.** At most `max_iterations` iterations are performed, at least one when `max_iterations ≥ 1`,
and the returned count is the number of iterations performed (one trace entry per iteration). -/
theorem fdwra_bounded (p : FdwraParams ℝ) (s s' : HvTrad ℝ) (k : Nat) (trs : List (FdwraTrace ℝ))
    (h : fdwraTrad p s = .ok (k, s', trs)) :
    k ≤ p.maxIter ∧ (1 ≤ p.maxIter → 1 ≤ k) ∧ trs.length = k := by
  obtain ⟨⟨a1, a2, a3, a4⟩, _⟩ := loop_spec p _ _ _ _ _ _ h
  exact ⟨by omega, fun h1 => by omega, by omega⟩

/-- the loop body never signalled "stop" on the way (neither converged nor a zero guard) -/
def NeverStops (p : FdwraParams ℝ) : Nat → HvTrad ℝ → Prop
  | 0, _ => True
  | fuel+1, s => ∃ s' tr, fdwraIter p s = .ok (s', false, tr) ∧ NeverStops p fuel s'

theorem loop_limit (p : FdwraParams ℝ) : ∀ (fuel done : Nat) (s : HvTrad ℝ), NeverStops p fuel s →
    ∃ s' trs, fdwraLoop p fuel done s = .ok (done + fuel, s', trs) := by
  intro fuel
  induction fuel with
  | zero => intro done s _; exact ⟨s, [], rfl⟩
  | succ fuel ih =>
    intro done s h
    obtain ⟨s1, tr, hit, hrest⟩ := h
    obtain ⟨s2, trs, hl⟩ := ih (done + 1) s1 hrest
    refine ⟨s2, tr :: trs, ?_⟩
    unfold fdwraLoop
    rw [hit]
    simp only [Bool.false_eq_true, if_false]
    rw [hl]
    have : done + 1 + fuel = done + (fuel + 1) := by omega
    rw [this]

/-- **Count at the limit.** When the iteration limit is reached without convergence the function still
returns a count, namely `max_iterations`. -/
theorem fdwra_returns_count_at_limit (p : FdwraParams ℝ) (s : HvTrad ℝ)
    (h : NeverStops p p.maxIter (updatePeaks p.range false s)) :
    ∃ s' trs, fdwraTrad p s = .ok (p.maxIter, s', trs) := by
  obtain ⟨s', trs, hl⟩ := loop_limit p p.maxIter 0 _ h
  exact ⟨s', trs, by unfold fdwraTrad; simpa using hl⟩

/-- the convergence limits are the published `0.01` / `0.01` -/
theorem limits_value : (lit fdwraLimits.1 : ℝ) = 0.01 ∧ (lit fdwraLimits.2 : ℝ) = 0.01 := by
  constructor <;> simp [fdwraLimits] <;> norm_num

end HV.C06
