import HvsrVerif.Proofs.StatsLemmas
import HvsrVerif.Proofs.ScaleLemmas
/-!
# C06 — Frequency-domain window rejection follows Cox et al. (2020) and terminates

Model: `Model/Fdwra.lean` (mirror of `_frequency_domain_window_rejection`).
-/
namespace HV.C06
open HV Classical

theorem optLt_real (a b : Option ℝ) : optLt a b = true ↔ ∃ x y, a = some x ∧ b = some y ∧ x < y := by
  cases a <;> cases b <;> simp [optLt]

/-- **One iteration removes exactly the accepted windows whose peak frequency lies outside
`(lower, upper)`**: window `i` has a valid peak afterwards iff it had one before and
`lower < f_i < upper` (strict, as published; undefined bounds keep nothing). -/
theorem iter_keeps_iff (lower upper : Option ℝ) (s : HvTrad ℝ) (i : Nat) :
    (fdwraApply lower upper s).vPeak[i]? = some true ↔
      s.vPeak[i]? = some true ∧ ∃ l u f a, lower = some l ∧ upper = some u ∧ s.peaks[i]? = some (some (f, a)) ∧
        l < f ∧ f < u := by
  unfold fdwraApply fdwraKeep
  simp only [List.getElem?_map, List.getElem?_zip_eq_some, Option.map_eq_some_iff]
  constructor
  · rintro ⟨⟨b, pk⟩, ⟨hb, hpk⟩, hk⟩
    simp only at hk
    split at hk
    · rename_i hbt
      simp only [Bool.and_eq_true, optLt_real] at hk
      obtain ⟨⟨l, f, hl, hf, hlf⟩, ⟨f', u, hf', hu, hfu⟩⟩ := hk
      cases pk with
      | none => simp at hf
      | some fa =>
        obtain ⟨f0, a0⟩ := fa
        simp only [Option.map_some, Option.some.injEq] at hf hf'
        subst hf hf'
        subst hbt
        exact ⟨hb, l, u, f0, a0, hl, hu, hpk, hlf, hfu⟩
    · cases hk
  · rintro ⟨hb, l, u, f, a, hl, hu, hpk, hlf, hfu⟩
    refine ⟨(true, some (f, a)), ⟨hb, hpk⟩, ?_⟩
    simp [hl, hu, optLt, hlf, hfu]

theorem apply_vPeak_sub (lower upper : Option ℝ) (s : HvTrad ℝ) (i : Nat)
    (h : (fdwraApply lower upper s).vPeak[i]? = some true) : s.vPeak[i]? = some true :=
  ((iter_keeps_iff lower upper s i).mp h).1

theorem iter_vPeak_sub (p : FdwraParams ℝ) (s s' : HvTrad ℝ) (b : Bool) (tr : FdwraTrace ℝ)
    (h : fdwraIter p s = .ok (s', b, tr)) (i : Nat) (hi : s'.vPeak[i]? = some true) : s.vPeak[i]? = some true := by
  unfold fdwraIter at h
  simp only at h
  split at h
  · cases h
  · split at h
    · cases h
    · split at h
      · injection h with h; injection h with h1 _; subst h1; exact apply_vPeak_sub _ _ _ _ hi
      · injection h with h; injection h with h1 _; subst h1; exact apply_vPeak_sub _ _ _ _ hi

theorem loop_spec (p : FdwraParams ℝ) : ∀ (fuel done : Nat) (s s' : HvTrad ℝ) (k : Nat) (trs : List (FdwraTrace ℝ)),
    fdwraLoop p fuel done s = .ok (k, s', trs) →
      (done ≤ k ∧ k ≤ done + fuel ∧ (0 < fuel → done < k) ∧ trs.length = k - done) ∧
      ∀ i : Nat, s'.vPeak[i]? = some true → s.vPeak[i]? = some true := by
  intro fuel
  induction fuel with
  | zero =>
    intro done s s' k trs h
    unfold fdwraLoop at h
    injection h with h; injection h with h1 h2; injection h2 with h2 h3
    subst h1 h2 h3
    exact ⟨⟨le_refl _, by omega, by omega, by simp⟩, fun i hi => hi⟩
  | succ fuel ih =>
    intro done s s' k trs h
    unfold fdwraLoop at h
    split at h
    · cases h
    · rename_i s1 stop tr hit
      split at h
      · injection h with h; injection h with h1 h2; injection h2 with h2 h3
        subst h1 h2 h3
        exact ⟨⟨by omega, by omega, by omega, by simp⟩, fun i hi => iter_vPeak_sub p s s1 stop tr hit i hi⟩
      · split at h
        · cases h
        · rename_i k2 s2 trs2 hrec
          injection h with h; injection h with h1 h2; injection h2 with h2 h3
          subst h1 h2 h3
          obtain ⟨⟨a1, a2, a3, a4⟩, a5⟩ := ih (done + 1) s1 s2 k2 trs2 hrec
          refine ⟨⟨by omega, by omega, by omega, by simp; omega⟩, fun i hi => ?_⟩
          exact iter_vPeak_sub p s s1 stop tr hit i (a5 i hi)

/-- **Never re-accepts.** Relative to the accept state right after the peak search performed on entry, the
final valid-peak mask is pointwise ≤ the entry mask. -/
theorem fdwra_monotone (p : FdwraParams ℝ) (s s' : HvTrad ℝ) (k : Nat) (trs : List (FdwraTrace ℝ))
    (h : fdwraTrad p s = .ok (k, s', trs)) (i : Nat) :
    s'.vPeak[i]? = some true → (updatePeaks p.range false s).vPeak[i]? = some true :=
  (loop_spec p _ _ _ _ _ _ h).2 i

/-- **Bounded.** At most `max_iterations` iterations are performed, at least one when `max_iterations ≥ 1`,
and the returned count is the number of iterations performed (one trace entry per iteration). -/
theorem fdwra_bounded (p : FdwraParams ℝ) (s s' : HvTrad ℝ) (k : Nat) (trs : List (FdwraTrace ℝ))
    (h : fdwraTrad p s = .ok (k, s', trs)) :
    k ≤ p.maxIter ∧ (1 ≤ p.maxIter → 1 ≤ k) ∧ trs.length = k := by
  obtain ⟨⟨a1, a2, a3, a4⟩, _⟩ := loop_spec p _ _ _ _ _ _ h
  exact ⟨by omega, fun h1 => by omega, by omega⟩

/-- the loop body never signalled "stop" on the way (neither converged nor a zero guard) -/
def NeverStops (p : FdwraParams ℝ) : Nat → HvTrad ℝ → Prop
  | 0, _ => True
  | fuel+1, s => ∃ s' tr, fdwraIter p s = .ok (s', false, tr) ∧ NeverStops p fuel s'

theorem loop_limit (p : FdwraParams ℝ) : ∀ (fuel done : Nat) (s : HvTrad ℝ), NeverStops p fuel s →
    ∃ s' trs, fdwraLoop p fuel done s = .ok (done + fuel, s', trs) := by
  intro fuel
  induction fuel with
  | zero => intro done s _; exact ⟨s, [], rfl⟩
  | succ fuel ih =>
    intro done s h
    obtain ⟨s1, tr, hit, hrest⟩ := h
    obtain ⟨s2, trs, hl⟩ := ih (done + 1) s1 hrest
    refine ⟨s2, tr :: trs, ?_⟩
    unfold fdwraLoop
    rw [hit]
    simp only [Bool.false_eq_true, if_false]
    rw [hl]
    have : done + 1 + fuel = done + (fuel + 1) := by omega
    rw [this]

/-- **Count at the limit.** When the iteration limit is reached without convergence the function still
returns a count, namely `max_iterations`. -/
theorem fdwra_returns_count_at_limit (p : FdwraParams ℝ) (s : HvTrad ℝ)
    (h : NeverStops p p.maxIter (updatePeaks p.range false s)) :
    ∃ s' trs, fdwraTrad p s = .ok (p.maxIter, s', trs) := by
  obtain ⟨s', trs, hl⟩ := loop_limit p p.maxIter 0 _ h
  exact ⟨s', trs, by unfold fdwraTrad; simpa using hl⟩

/-! ### rescaling all amplitudes -/

theorem iter_scale (p : FdwraParams ℝ) (c : ℝ) (hc : 0 < c) (s : HvTrad ℝ) (hpos : ∀ r ∈ s.rows, ∀ v ∈ r, 0 < v) :
    fdwraIter p (scaleState c s) = (fdwraIter p s).map (fun x => (scaleState c x.1, x.2.1, x.2.2)) := by
  unfold fdwraIter
  obtain ⟨e1, e2, _⟩ := scale_stats p.dFn p.n c s
  have e3 := (scale_stats p.dFn (-p.n) c s).2.2
  have e4 := (scale_stats p.dFn p.n c s).2.2
  simp only [e1, e2, e3, e4, scale_meanCurvePeak p.dMc c hc s hpos]
  cases hb : s.meanCurvePeak p.dMc with
  | error e => rfl
  | ok pb =>
    obtain ⟨fb, ab⟩ := pb
    simp only [Except.map, scale_apply]
    have hpos' : ∀ r ∈ (fdwraApply (s.nthStdFn (-p.n) p.dFn) (s.nthStdFn p.n p.dFn) s).rows, ∀ v ∈ r, 0 < v := by
      rw [apply_rows]; exact hpos
    obtain ⟨f1, f2, _⟩ := scale_stats p.dFn p.n c (fdwraApply (s.nthStdFn (-p.n) p.dFn) (s.nthStdFn p.n p.dFn) s)
    simp only [f1, f2, scale_meanCurvePeak p.dMc c hc _ hpos']
    cases ha : (fdwraApply (s.nthStdFn (-p.n) p.dFn) (s.nthStdFn p.n p.dFn) s).meanCurvePeak p.dMc with
    | error e => rfl
    | ok pa =>
      obtain ⟨fa, aa⟩ := pa
      simp only [Except.map]
      split <;> rfl

theorem iter_rows (p : FdwraParams ℝ) (s s' : HvTrad ℝ) (b : Bool) (tr : FdwraTrace ℝ)
    (h : fdwraIter p s = .ok (s', b, tr)) : s'.rows = s.rows := by
  unfold fdwraIter at h
  simp only at h
  split at h
  · cases h
  · split at h
    · cases h
    · split at h
      · injection h with h; injection h with h1 _; subst h1; rfl
      · injection h with h; injection h with h1 _; subst h1; rfl

theorem loop_scale (p : FdwraParams ℝ) (c : ℝ) (hc : 0 < c) : ∀ (fuel done : Nat) (s : HvTrad ℝ),
    (∀ r ∈ s.rows, ∀ v ∈ r, 0 < v) →
    fdwraLoop p fuel done (scaleState c s) = (fdwraLoop p fuel done s).map (fun x => (x.1, scaleState c x.2.1, x.2.2)) := by
  intro fuel
  induction fuel with
  | zero => intro done s _; rfl
  | succ fuel ih =>
    intro done s hpos
    unfold fdwraLoop
    rw [iter_scale p c hc s hpos]
    cases hit : fdwraIter p s with
    | error e => rfl
    | ok x =>
      obtain ⟨s1, stop, tr⟩ := x
      simp only [Except.map]
      cases stop
      · simp only [Bool.false_eq_true, if_false]
        have hpos1 : ∀ r ∈ s1.rows, ∀ v ∈ r, 0 < v := by rw [iter_rows p s s1 false tr hit]; exact hpos
        rw [ih (done + 1) s1 hpos1]
        cases fdwraLoop p fuel (done + 1) s1 with
        | error e => rfl
        | ok y => obtain ⟨k, s2, trs⟩ := y; rfl
      · rfl

theorem updatePeaks_scale (r : Range ℝ) (c : ℝ) (hc : 0 < c) (s : HvTrad ℝ) :
    updatePeaks r false (scaleState c s) = scaleState c (updatePeaks r false s) := by
  have h1 : ∀ t : HvTrad ℝ, updatePeaks r false t = recomputePeaks r t := by
    intro t; unfold updatePeaks; split <;> simp
  rw [h1, h1]
  unfold recomputePeaks scaleState
  simp only [List.map_map, HvTrad.mk.injEq, true_and]
  have hpk : List.map ((fun row => findPeakBounded s.freq row r) ∘ fun r => List.map (fun x => c * x) r) s.rows
      = List.map ((fun p => Option.map (fun q => (q.1, c * q.2)) p) ∘ fun row => findPeakBounded s.freq row r) s.rows := by
    apply List.map_congr_left
    intro row _
    simp only [Function.comp]
    exact findPeakBounded_scale c hc s.freq row r
  have hhas : List.map (Option.isSome ∘ (fun row => findPeakBounded s.freq row r) ∘ fun r => List.map (fun x => c * x) r) s.rows
      = List.map (Option.isSome ∘ fun row => findPeakBounded s.freq row r) s.rows := by
    apply List.map_congr_left
    intro row _
    simp only [Function.comp]
    rw [findPeakBounded_scale c hc]
    cases findPeakBounded s.freq row r <;> rfl
  refine ⟨hpk, ?_, hhas⟩
  rw [hhas]
  split
  · simp [Function.comp]
  · rfl

/-- **Rescaling all amplitudes leaves decisions and iteration count unchanged.** For positive curves and `c > 0`:
running the rejection on the rescaled object performs the same number of iterations, produces the same trace of
statistics and ends with the same masks (the resulting object is the rescaled result). -/
theorem fdwra_scale (p : FdwraParams ℝ) (c : ℝ) (hc : 0 < c) (s : HvTrad ℝ) (hpos : ∀ r ∈ s.rows, ∀ v ∈ r, 0 < v) :
    fdwraTrad p (scaleState c s) = (fdwraTrad p s).map (fun x => (x.1, scaleState c x.2.1, x.2.2)) ∧
    ∀ k s' trs, fdwraTrad p s = .ok (k, s', trs) →
      ∃ s'', fdwraTrad p (scaleState c s) = .ok (k, s'', trs) ∧ s''.vWin = s'.vWin ∧ s''.vPeak = s'.vPeak := by
  have hmain : fdwraTrad p (scaleState c s) = (fdwraTrad p s).map (fun x => (x.1, scaleState c x.2.1, x.2.2)) := by
    unfold fdwraTrad
    rw [updatePeaks_scale p.range c hc s]
    apply loop_scale p c hc
    have : (updatePeaks p.range false s).rows = s.rows := by
      unfold updatePeaks; split <;> [split; skip] <;> simp [recomputePeaks]
    rw [this]; exact hpos
  refine ⟨hmain, ?_⟩
  intro k s' trs h
  rw [hmain, h]
  exact ⟨scaleState c s', rfl, rfl, rfl⟩

/-- the convergence limits are the published `0.01` / `0.01` -/
theorem limits_value : (lit fdwraLimits.1 : ℝ) = 0.01 ∧ (lit fdwraLimits.2 : ℝ) = 0.01 := by
  constructor <;> simp [fdwraLimits] <;> norm_num

/-- **The stopping rule is strict**: the convergence test of an iteration passes iff both changes are *below* 0.01 -- a change that
equals 0.01 exactly does not stop the loop (the boundary exercised by the exact-tie stream of `harness/c06.py`, seed C06-V). -/
theorem conv_iff_both_below (d s : ℝ) :
    (optLt (some d) (some (lit fdwraLimits.1 : ℝ)) && optLt (some s) (some (lit fdwraLimits.2 : ℝ))) = true ↔ d < 0.01 ∧ s < 0.01 := by
  rw [limits_value.1, limits_value.2]
  simp [optLt]

/-- at the tie: `d_diff = 0.01` exactly is not converged, however small `s_diff` is -/
theorem conv_false_at_tie (s : ℝ) :
    (optLt (some (0.01 : ℝ)) (some (lit fdwraLimits.1 : ℝ)) && optLt (some s) (some (lit fdwraLimits.2 : ℝ))) = false := by
  rw [limits_value.1, limits_value.2]
  simp [optLt]

/-- an undefined change (a NaN statistic) never counts as converged -/
theorem conv_false_undefined (s : Option ℝ) :
    (optLt (none : Option ℝ) (some (lit fdwraLimits.1 : ℝ)) && optLt s (some (lit fdwraLimits.2 : ℝ))) = false := by
  simp [optLt]

end HV.C06
