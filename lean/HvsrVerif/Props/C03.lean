import HvsrVerif.Proofs.RealInst
import HvsrVerif.Model.Process
import Mathlib.Tactic.Linarith
import Mathlib.Tactic.FieldSimp
/-!
# C03 — One curve per window, in input order, independent of the other windows

Model: `Model/Rows.lean` (bookkeeping of the three traditional processing functions), `Model/Process.lean`.
-/
namespace HV.C03
open HV Classical

theorem eqA_decide (a b : ℝ) : eqA a b = decide (a = b) := by
  by_cases h : a = b
  · simp [h, (eqA_real b b).mpr rfl]
  · have : eqA a b = false := by rw [Bool.eq_false_iff]; intro h'; exact h ((eqA_real a b).mp h')
    simp [h, this]

theorem mem_dtGroups {dts : List ℝ} {d : ℝ} : d ∈ dtGroups dts ↔ d ∈ dts := by
  induction dts with
  | nil => simp [dtGroups]
  | cons a t ih =>
    simp only [dtGroups, List.mem_cons, List.mem_filter, ih, eqA_decide]
    constructor
    · rintro (h | ⟨h, _⟩)
      · exact Or.inl h
      · exact Or.inr h
    · rintro (h | h)
      · exact Or.inl h
      · by_cases hd : d = a
        · exact Or.inl hd
        · exact Or.inr ⟨h, by simpa using hd⟩

theorem mem_processOrder {dts : List ℝ} {i : Nat} (hi : i < dts.length) : i ∈ processOrder dts := by
  unfold processOrder
  rw [List.mem_flatMap]
  refine ⟨dts[i], mem_dtGroups.mpr (List.getElem_mem hi), ?_⟩
  simp [List.mem_filter, hi, eqA_decide]

theorem written_at {ρ : Type} (curve : Nat → ρ) (dts : List ℝ) {org : Nat} (h : org < dts.length) :
    ((processOrder dts).map curve)[(processOrder dts).idxOf org]? = some (curve org) := by
  have hm := mem_processOrder (dts := dts) h
  have hlt : (processOrder dts).idxOf org < (processOrder dts).length := List.idxOf_lt_length_of_mem hm
  rw [List.getElem?_map, List.getElem?_eq_getElem hlt]
  simp [List.getElem_idxOf hlt]

theorem filterMap_eq_map_of {α β} (f : α → Option β) (g : α → β) (l : List α)
    (h : ∀ x ∈ l, f x = some (g x)) : l.filterMap f = l.map g := by
  induction l with
  | nil => rfl
  | cons a t ih =>
    rw [List.filterMap_cons, h a List.mem_cons_self, List.map_cons, ih (fun x hx => h x (List.mem_cons_of_mem _ hx))]

/-- **Scatter/gather is the identity.** Whatever the arrangement of time steps, the group-major writing of rows
followed by the final re-ordering returns row `i` = curve of record `i`: one curve per record, in input order. -/
theorem processRows_eq_map {ρ : Type} (curve : Nat → ρ) (dts : List ℝ) :
    processRows curve dts = (List.range dts.length).map curve := by
  unfold processRows indexMap
  rw [List.filterMap_map]
  apply filterMap_eq_map_of
  intro org horg
  exact written_at curve dts (List.mem_range.mp horg)

/-- the result has exactly one row per processed record -/
theorem processRows_length {ρ : Type} (curve : Nat → ρ) (dts : List ℝ) :
    (processRows curve dts).length = dts.length := by
  rw [processRows_eq_map]; simp

/-- **Frequency-domain resampling keeps every record.** -/
theorem resample_keeps_all (dts : List ℝ) : keptIndices .resample dts = List.range dts.length := rfl

theorem foldl_minA_le (l : List ℝ) (x : ℝ) : l.foldl minA x ≤ x ∧ ∀ y ∈ l, l.foldl minA x ≤ y := by
  induction l generalizing x with
  | nil => simp
  | cons a t ih =>
    simp only [List.foldl_cons, minA_real, List.mem_cons, forall_eq_or_imp]
    obtain ⟨h1, h2⟩ := ih (min x a)
    exact ⟨le_trans h1 (min_le_left _ _), le_trans h1 (min_le_right _ _), h2⟩

theorem foldl_minA_mem (l : List ℝ) (x : ℝ) : l.foldl minA x = x ∨ l.foldl minA x ∈ l := by
  induction l generalizing x with
  | nil => simp
  | cons a t ih =>
    simp only [List.foldl_cons, minA_real, List.mem_cons]
    rcases ih (min x a) with h | h
    · rcases min_choice x a with hc | hc
      · left; rw [h, hc]
      · right; left; rw [h, hc]
    · right; right; exact h

/-- **Keeping the smallest time step** retains exactly the records with the smallest `dt`, in their original order. -/
theorem keepSmallest_eq_filter (dts : List ℝ) (hne : dts ≠ []) :
    ∃ m, m ∈ dts ∧ (∀ d ∈ dts, m ≤ d) ∧
      keptIndices .keepSmallest dts = (List.range dts.length).filter (fun i => decide (dts[i]? = some m)) := by
  cases dts with
  | nil => exact absurd rfl hne
  | cons d ds =>
    refine ⟨ds.foldl minA d, ?_, ?_, ?_⟩
    · rcases foldl_minA_mem ds d with h | h
      · rw [h]; exact List.mem_cons_self
      · exact List.mem_cons_of_mem _ h
    · intro e he
      obtain ⟨h1, h2⟩ := foldl_minA_le ds d
      rcases List.mem_cons.mp he with rfl | he
      · exact h1
      · exact h2 e he
    · unfold keptIndices minDt
      simp only
      apply List.filter_congr
      intro i _
      cases hget : (d :: ds)[i]? with
      | none => simp
      | some e => simp [eqA_decide]

/-- **Keeping the majority time step** retains exactly the records of one time step `m` that no other time step
outnumbers, in their original order. -/
theorem keepMajority_is_filter (dts : List ℝ) (m : ℝ) (h : majorityDt dts = some m) :
    keptIndices .keepMajority dts = (List.range dts.length).filter (fun i => decide (dts[i]? = some m)) := by
  unfold keptIndices
  rw [h]
  simp only
  apply List.filter_congr
  intro i _
  cases hget : dts[i]? with
  | none => simp
  | some e => simp [eqA_decide]

theorem majority_step_spec (dts : List ℝ) (gs : List ℝ) (init : Option ℝ)
    (hinit : ∀ b, init = some b → 0 < dtCount dts b) :
    ∀ m, gs.foldl (majorityStep dts) init = some m →
      (∀ d ∈ gs, dtCount dts d ≤ dtCount dts m) ∧ (∀ b, init = some b → dtCount dts b ≤ dtCount dts m) ∧ 0 < dtCount dts m := by
  induction gs generalizing init with
  | nil =>
    intro m hm
    simp only [List.foldl_nil] at hm
    exact ⟨by simp, fun b hb => by rw [hm] at hb; injection hb with hb; rw [hb], hinit m hm⟩
  | cons g gs ih =>
    intro m hm
    simp only [List.foldl_cons] at hm
    cases init with
    | none =>
      simp only [majorityStep] at hm
      by_cases hg : 0 < dtCount dts g
      · rw [if_pos hg] at hm
        obtain ⟨h1, h2, h3⟩ := ih (some g) (fun b hb => by injection hb with hb; rw [← hb]; exact hg) m hm
        refine ⟨?_, by simp, h3⟩
        intro d hd
        rcases List.mem_cons.mp hd with rfl | hd
        · exact h2 _ rfl
        · exact h1 d hd
      · rw [if_neg hg] at hm
        obtain ⟨h1, _, h3⟩ := ih none (by simp) m hm
        refine ⟨?_, by simp, h3⟩
        intro d hd
        rcases List.mem_cons.mp hd with rfl | hd
        · omega
        · exact h1 d hd
    | some b =>
      simp only [majorityStep] at hm
      have hb0 := hinit b rfl
      by_cases hlt : dtCount dts b < dtCount dts g
      · rw [if_pos hlt] at hm
        obtain ⟨h1, h2, h3⟩ := ih (some g) (fun c hc => by injection hc with hc; rw [← hc]; omega) m hm
        have hg := h2 g rfl
        refine ⟨?_, ?_, h3⟩
        · intro d hd
          rcases List.mem_cons.mp hd with rfl | hd
          · exact hg
          · exact h1 d hd
        · intro c hc; injection hc with hc; rw [← hc]; omega
      · rw [if_neg hlt] at hm
        obtain ⟨h1, h2, h3⟩ := ih (some b) (fun c hc => by injection hc with hc; rw [← hc]; exact hb0) m hm
        have hb := h2 b rfl
        refine ⟨?_, ?_, h3⟩
        · intro d hd
          rcases List.mem_cons.mp hd with rfl | hd
          · omega
          · exact h1 d hd
        · intro c hc; injection hc with hc; rw [← hc]; exact hb

/-- the retained time step is a most frequent one -/
theorem majority_is_most_frequent (dts : List ℝ) (m : ℝ) (h : majorityDt dts = some m) :
    0 < dtCount dts m ∧ ∀ d ∈ dts, dtCount dts d ≤ dtCount dts m := by
  unfold majorityDt at h
  obtain ⟨h1, _, h3⟩ := majority_step_spec dts (dtGroups dts) none (by simp) m h
  exact ⟨h3, fun d hd => h1 d (mem_dtGroups.mpr hd)⟩

theorem foldl_maxA_ge (l : List ℝ) (x : ℝ) : x ≤ l.foldl maxA x ∧ ∀ y ∈ l, y ≤ l.foldl maxA x := by
  induction l generalizing x with
  | nil => simp
  | cons a t ih =>
    simp only [List.foldl_cons, maxA_real, List.mem_cons, forall_eq_or_imp]
    obtain ⟨h1, h2⟩ := ih (max x a)
    exact ⟨le_trans (le_max_left _ _) h1, le_trans (le_max_right _ _) h1, h2⟩

/-- **Nyquist guard.** When the guard does not refuse, every requested centre frequency is at most the Nyquist
frequency `1/(2·dt)` of every processed record (the guard uses the largest kept time step). -/
theorem nyquist_guard (dtMax : ℝ) (fcs : List ℝ) (h : nyquistRefuses dtMax fcs = false) :
    ∀ fc ∈ fcs, ∀ dt, 0 < dt → dt ≤ dtMax → fc ≤ 1 / (2 * dt) := by
  intro fc hfc dt hdt hle
  cases fcs with
  | nil => cases hfc
  | cons f fs =>
    unfold nyquistRefuses at h
    simp only [decide_eq_false_iff_not, not_lt, ofNat_real, Nat.cast_one, Nat.cast_ofNat] at h
    obtain ⟨h1, h2⟩ := foldl_maxA_ge fs f
    have hfcmax : fc ≤ fs.foldl maxA f := by
      rcases List.mem_cons.mp hfc with rfl | hm
      · exact h1
      · exact h2 fc hm
    have hpos : 0 < dtMax := lt_of_lt_of_le hdt hle
    have : 1 / (2 * dtMax) ≤ 1 / (2 * dt) := by
      apply one_div_le_one_div_of_le (by linarith) (by linarith)
    linarith

/-- … and it refuses as soon as one centre frequency exceeds the Nyquist frequency of the largest kept time step -/
theorem nyquist_refuses (dtMax : ℝ) (fcs : List ℝ) (fc : ℝ) (hfc : fc ∈ fcs) (h : 1 / (2 * dtMax) < fc) :
    nyquistRefuses dtMax fcs = true := by
  cases fcs with
  | nil => cases hfc
  | cons f fs =>
    unfold nyquistRefuses
    simp only [decide_eq_true_eq, ofNat_real, Nat.cast_one, Nat.cast_ofNat]
    obtain ⟨h1, h2⟩ := foldl_maxA_ge fs f
    have hfcmax : fc ≤ fs.foldl maxA f := by
      rcases List.mem_cons.mp hfc with rfl | hm
      · exact h1
      · exact h2 fc hm
    linarith

/-- **One curve per processed record, in input order, each computed from that record alone** (for the FFT length
`n` fixed by the call): the rows of a successful `process` are `hvsrRow` of the kept records, in order. -/
theorem process_rows_are_per_record (m : Method ℝ) (cfg : ProcCfg ℝ) (fft : FftState) (pol : Policy)
    (recs : List (Rec3 ℝ)) (r : ProcResult ℝ) (h : processTraditional m cfg fft pol recs = .ok r) :
    ∃ n, (prepareFft fft (maxSamples recs)).len = some n ∧ r.kept = keptIndices pol (recs.map (·.dt)) ∧
      (r.rows.map Except.ok : List (Except String (List ℝ))) =
        (r.kept.filterMap (fun i => recs[i]?)).map (hvsrRow m cfg n) := by
  unfold processTraditional at h
  simp only at h
  split at h
  · cases h
  · rename_i n hn
    split at h
    · cases h
    · rename_i dmax _
      split at h
      · cases h
      · rw [processRows_eq_map] at h
        split at h
        · cases h
        · rename_i rs hrs
          injection h with h
          subst h
          refine ⟨n, hn, rfl, ?_⟩
          simp only
          set krecs := (keptIndices pol (recs.map (·.dt))).filterMap (fun i => recs[i]?) with hk
          have hmap := hrs
          -- mapM id = ok rs  ⇒  the list of results is rs.map ok
          have key : ∀ (l : List (Except String (List ℝ))) (rs : List (List ℝ)),
              l.mapM (fun x => x) = .ok rs → rs.map Except.ok = l := by
            intro l
            induction l with
            | nil => intro rs h; simp [List.mapM_nil, pure, Except.pure] at h; subst h; rfl
            | cons a t ih =>
              intro rs h
              rw [List.mapM_cons] at h
              cases a with
              | error e => simp [bind, Except.bind] at h
              | ok v =>
                simp only [bind, Except.bind] at h
                cases ht : t.mapM (fun x => x) with
                | error e => rw [ht] at h; simp at h
                | ok vs =>
                  rw [ht] at h
                  simp only [pure, Except.pure, Except.ok.injEq] at h
                  subst h
                  simp [ih vs ht]
          rw [key _ _ hmap]
          simp only [List.length_map]
          apply List.ext_getElem
          · simp
          · intro i h1 h2
            simp only [List.getElem_map, List.getElem_range]
            have hi : i < krecs.length := by simpa using h2
            simp [List.getElem?_eq_getElem hi]

/-! ### Non-vacuity -/
example : processRows (fun i => i * 10) ([1, 2, 1, 3, 2] : List Int) = [0, 10, 20, 30, 40] := by decide
example : processOrder ([1, 2, 1, 3, 2] : List Int) = [0, 2, 1, 4, 3] := by decide
example : keptIndices .keepMajority ([1, 2, 1, 3, 2] : List Int) = [0, 2] := by decide
example : keptIndices .keepSmallest ([5, 2, 5, 3, 2] : List Int) = [1, 4] := by decide

end HV.C03
