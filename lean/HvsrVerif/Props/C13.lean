import HvsrVerif.Proofs.ListLemmas
import HvsrVerif.Model.TimeRej
import HvsrVerif.Props.C03
/-!
# C13 — Time-domain rejection keeps exactly the windows that satisfy the criterion

Model: `Model/TimeRej.lean`.
-/
namespace HV.C13
open HV Classical

/-! ### the returned list is the selected windows: same objects, original order -/

theorem applyMask_sublist {β} (wins : List β) (mask : List Bool) : (applyMask wins mask).Sublist wins := by
  unfold applyMask
  induction wins generalizing mask with
  | nil => simp
  | cons w ws ih =>
    cases mask with
    | nil => simp
    | cons b bs =>
      simp only [List.zip_cons_cons, List.filterMap_cons]
      cases b
      · simp only [Bool.false_eq_true, ↓reduceIte]; exact (ih bs).cons _
      · simp only [↓reduceIte]; exact (ih bs).cons₂ _

theorem applyMask_eq_filter {β} (wins : List β) (keep : β → Bool) :
    applyMask wins (wins.map keep) = wins.filter keep := by
  unfold applyMask
  induction wins with
  | nil => rfl
  | cons w ws ih =>
    simp only [List.map_cons, List.zip_cons_cons, List.filterMap_cons, List.filter_cons]
    cases keep w <;> simp [ih]

/-- **Locality.** The mask is computed window by window: entry `i` is the decision for window `i` alone. -/
theorem stalta_local (nsta nlta : Nat) (lo hi : ℝ) (wins : List (List (List ℝ))) (m : List Bool)
    (h : staLtaMask nsta nlta lo hi wins = .ok m) :
    m.length = wins.length ∧ ∀ (i : Nat) w, wins[i]? = some w → ∃ b, m[i]? = some b ∧ staLtaKeep nsta nlta lo hi w = .ok b := by
  unfold staLtaMask at h
  induction wins generalizing m with
  | nil =>
    simp [List.mapM_nil, pure, Except.pure] at h
    subst h
    simp
  | cons w ws ih =>
    rw [List.mapM_cons] at h
    cases hk : staLtaKeep nsta nlta lo hi w with
    | error e => rw [hk] at h; simp [bind, Except.bind] at h
    | ok b =>
      rw [hk] at h
      simp only [bind, Except.bind] at h
      cases hm : ws.mapM (staLtaKeep nsta nlta lo hi) with
      | error e => rw [hm] at h; simp at h
      | ok bs =>
        rw [hm] at h
        simp only [pure, Except.pure, Except.ok.injEq] at h
        subst h
        obtain ⟨h1, h2⟩ := ih bs hm
        refine ⟨by simp [h1], ?_⟩
        intro i w' hi
        cases i with
        | zero => simp at hi; subst hi; exact ⟨b, by simp, hk⟩
        | succ j => simp at hi; simpa using h2 j w' hi

/-! ### the criterion on the ratios -/

theorem foldl_minA_le_iff (l : List ℝ) (x t : ℝ) : t ≤ l.foldl minA x ↔ t ≤ x ∧ ∀ y ∈ l, t ≤ y := by
  induction l generalizing x with
  | nil => simp
  | cons a l ih =>
    simp only [List.foldl_cons, ih, minA_real, List.mem_cons, forall_eq_or_imp, le_min_iff]
    tauto

theorem foldl_maxA_le_iff (l : List ℝ) (x t : ℝ) : l.foldl maxA x ≤ t ↔ x ≤ t ∧ ∀ y ∈ l, y ≤ t := by
  induction l generalizing x with
  | nil => simp
  | cons a l ih =>
    simp only [List.foldl_cons, ih, maxA_real, List.mem_cons, forall_eq_or_imp, max_le_iff]
    tauto

/-- **The criterion.** A component passes iff every STA/LTA ratio lies in `[lo, hi]`: a ratio clearly inside the
limits never rejects, a ratio above `hi` or below `lo` always does. -/
theorem ratiosOk_iff (lo hi : ℝ) (r : List ℝ) : ratiosOk lo hi r = true ↔ ∀ x ∈ r, lo ≤ x ∧ x ≤ hi := by
  cases r with
  | nil => simp [ratiosOk, maxL', minL']
  | cons a t =>
    simp only [ratiosOk, maxL', minL', Bool.not_eq_eq_eq_not, Bool.not_true, Bool.or_eq_false_iff,
      decide_eq_false_iff_not, not_lt, List.mem_cons, forall_eq_or_imp]
    rw [foldl_maxA_le_iff, foldl_minA_le_iff]
    constructor
    · rintro ⟨⟨h1, h2⟩, ⟨h3, h4⟩⟩; exact ⟨⟨h3, h1⟩, fun x hx => ⟨h4 x hx, h2 x hx⟩⟩
    · rintro ⟨⟨h3, h1⟩, h⟩; exact ⟨⟨h1, fun x hx => (h x hx).2⟩, ⟨h3, fun x hx => (h x hx).1⟩⟩

/-- **Widening the limits can only turn reject into keep.** -/
theorem stalta_widen (nsta nlta : Nat) (lo hi lo' hi' : ℝ) (hlo : lo' ≤ lo) (hhi : hi ≤ hi') (w : List (List ℝ))
    (h : staLtaKeep nsta nlta lo hi w = .ok true) : staLtaKeep nsta nlta lo' hi' w = .ok true := by
  induction w with
  | nil => rfl
  | cons c cs ih =>
    unfold staLtaKeep at h ⊢
    cases hr : staLtaRatios nsta nlta c with
    | error e => rw [hr] at h; cases h
    | ok r =>
      rw [hr] at h
      simp only at h ⊢
      by_cases hok : ratiosOk lo hi r = true
      · rw [if_pos hok] at h
        have : ratiosOk lo' hi' r = true := by
          rw [ratiosOk_iff] at hok ⊢
          intro x hx; exact ⟨le_trans hlo (hok x hx).1, le_trans (hok x hx).2 hhi⟩
        rw [if_pos this]
        exact ih h
      · rw [if_neg hok] at h; cases h

/-- **Several components = conjunction** (the early `break` is a short-circuit `and`). -/
theorem stalta_components (nsta nlta : Nat) (lo hi : ℝ) (A B : List (List ℝ)) (a b : Bool)
    (hA : staLtaKeep nsta nlta lo hi A = .ok a) (hB : staLtaKeep nsta nlta lo hi B = .ok b) :
    staLtaKeep nsta nlta lo hi (A ++ B) = .ok (a && b) := by
  induction A generalizing a with
  | nil => simp only [staLtaKeep] at hA; injection hA with hA; subst hA; simpa using hB
  | cons c cs ih =>
    simp only [List.cons_append]
    unfold staLtaKeep at hA ⊢
    cases hr : staLtaRatios nsta nlta c with
    | error e => rw [hr] at hA; cases hA
    | ok r =>
      rw [hr] at hA
      simp only at hA ⊢
      by_cases hok : ratiosOk lo hi r = true
      · rw [if_pos hok] at hA ⊢; exact ih a hA
      · rw [if_neg hok] at hA ⊢; injection hA with hA; subst hA; rfl

/-! ### rescaling -/

theorem meanAbs_scale (c : ℝ) (x : List ℝ) : meanAbs (x.map (c * ·)) = |c| * meanAbs x := by
  unfold meanAbs
  simp only [sumA_real, List.map_map, List.length_map, ofNat_real]
  have : (List.map (absA ∘ fun x => c * x) x) = (x.map absA).map (|c| * ·) := by
    rw [List.map_map]; apply List.map_congr_left; intro v _; simp [absA_real, abs_mul]
  rw [this]
  have hs : ∀ l : List ℝ, (l.map (|c| * ·)).sum = |c| * l.sum := by
    intro l; induction l with
    | nil => simp
    | cons a t ih => simp [ih]; ring
  rw [hs]; ring

theorem chunks_map (k m : Nat) (x : List ℝ) (f : ℝ → ℝ) : chunks k m (x.map f) = (chunks k m x).map (List.map f) := by
  induction m generalizing x with
  | zero => rfl
  | succ m ih => simp only [chunks, List.map_cons, ← List.map_take, ← List.map_drop, ih]

/-- **A common rescaling of the amplitudes leaves every ratio unchanged** (hence every decision), provided the
long-term average is not zero. -/
theorem stalta_scale (nsta nlta : Nat) (c : ℝ) (hc : c ≠ 0) (x : List ℝ)
    (hl : meanAbs ((x.take (nsta * (x.length / nsta))).take nlta) ≠ 0) :
    staLtaRatios nsta nlta (x.map (c * ·)) = staLtaRatios nsta nlta x := by
  unfold staLtaRatios
  simp only [List.length_map]
  split
  · rfl
  · split
    · rfl
    · split
      · rfl
      · simp only [← List.map_take, chunks_map, List.map_map, meanAbs_scale]
        congr 1
        apply List.map_congr_left
        intro ch _
        simp only [Function.comp, meanAbs_scale]
        have : |c| ≠ 0 := abs_ne_zero.mpr hc
        field_simp

/-! ### maximum-value rejection -/

theorem windowMaxStep_lt_iff (m0 : ℝ) (c : List ℝ) (thr : ℝ) :
    windowMaxStep m0 c < thr ↔ m0 < thr ∧ ∀ x ∈ c, |x| < thr := by
  unfold windowMaxStep
  cases hc : c.map absA with
  | nil =>
    have : c = [] := by simpa using hc
    subst this
    simp [maxL']
  | cons a t =>
    simp only [maxL']
    have hmem : ∀ y, y ∈ a :: t ↔ ∃ x ∈ c, |x| = y := by
      intro y; rw [← hc]; simp [absA_real]
    have hmax : ∀ s, t.foldl maxA a < s ↔ ∀ x ∈ c, |x| < s := by
      intro s
      rw [foldl_maxA_lt_iff]
      constructor
      · rintro ⟨h1, h2⟩ x hx
        have := (hmem |x|).mpr ⟨x, hx, rfl⟩
        rcases List.mem_cons.mp this with h | h
        · rw [h]; exact h1
        · exact h2 _ h
      · intro h
        refine ⟨?_, fun y hy => ?_⟩
        · obtain ⟨x, hx, hxa⟩ := (hmem a).mp List.mem_cons_self; rw [← hxa]; exact h x hx
        · obtain ⟨x, hx, hxa⟩ := (hmem y).mp (List.mem_cons_of_mem _ hy); rw [← hxa]; exact h x hx
    by_cases hlt : m0 < t.foldl maxA a
    · rw [if_pos hlt]
      constructor
      · intro h1; exact ⟨lt_trans hlt h1, (hmax thr).mp h1⟩
      · rintro ⟨_, h2⟩; exact (hmax thr).mpr h2
    · rw [if_neg hlt]
      constructor
      · intro h1; exact ⟨h1, (hmax thr).mp (lt_of_le_of_lt (not_lt.mp hlt) h1)⟩
      · rintro ⟨h1, _⟩; exact h1

theorem windowMax_lt_iff (w : List (List ℝ)) (thr : ℝ) :
    windowMax w < thr ↔ 0 < thr ∧ ∀ c ∈ w, ∀ x ∈ c, |x| < thr := by
  unfold windowMax
  simp only [ofNat_real, Nat.cast_zero]
  generalize (0 : ℝ) = m0
  induction w generalizing m0 with
  | nil => simp
  | cons c cs ih =>
    simp only [List.foldl_cons, List.mem_cons, forall_eq_or_imp]
    rw [ih, windowMaxStep_lt_iff]
    tauto

/-- **Maximum-value rejection (absolute threshold)** keeps a window iff its largest absolute sample over the
examined components is below the threshold. -/
theorem maxvalue_iff (thr : ℝ) (wins : List (List (List ℝ))) (i : Nat) (w : List (List ℝ)) (hw : wins[i]? = some w) :
    (maxValueMask thr false wins)[i]? = some (decide (0 < thr ∧ ∀ c ∈ w, ∀ x ∈ c, |x| < thr)) := by
  unfold maxValueMask
  simp only [Bool.false_eq_true, ↓reduceIte, List.map_map, List.getElem?_map, hw, Option.map_some, Function.comp]
  congr 1
  rw [decide_eq_decide]
  exact windowMax_lt_iff w thr

/-! ### Non-vacuity -/
example : staLtaRatios 2 4 ([1, -1, 2, -2, 4, -4] : List Int) = .ok [1, 2, 4] := by decide
example : staLtaKeep 2 4 (1 : Int) 4 [[1, -1, 2, -2, 4, -4]] = .ok true ∧ staLtaKeep 2 4 (1 : Int) 3 [[1, -1, 2, -2, 4, -4]] = .ok false := by decide
example : maxValueMask (3 : Int) false [[[1, -2]], [[1, -3]]] = [true, false] := by decide
example : nptsExact 1 (1/100) = 100 := by decide +kernel

end HV.C13
