import HvsrVerif.Proofs.RealInst
import HvsrVerif.Model.HvState
import Mathlib.Tactic.Linarith
/-!
# C08 — Reported peaks are the highest local maximum inside the search range

Model: `Model/Peaks.lean`, `Model/HvState.lean`. Theorems over `ℝ`.
-/
namespace HV.C08
open HV Classical

/-- `i` is an interior plateau maximum of `x`: a maximal run `x[l..r]` of equal samples with strictly
lower neighbours on both sides, reported at its midpoint (a strict local maximum has `l = r = i`). -/
def IsPlateauMax (x : List ℝ) (i : Nat) : Prop :=
  ∃ l r v, l ≤ i ∧ i ≤ r ∧ (∀ j, l ≤ j → j ≤ r → x[j]? = some v) ∧ 0 < l ∧ r + 1 < x.length ∧
    (∃ a, x[l-1]? = some a ∧ a < v) ∧ (∃ b, x[r+1]? = some b ∧ b < v) ∧ i = (l + r) / 2

theorem runLeft_spec (x : List ℝ) (v : ℝ) (i : Nat) :
    runLeft x v i ≤ i ∧ ∀ j, i - runLeft x v i ≤ j → j < i → x[j]? = some v := by
  induction i with
  | zero => simp [runLeft]
  | succ i ih =>
    unfold runLeft
    split
    · rename_i y hy
      split
      · rename_i he
        have hyv : y = v := (eqA_real y v).mp he
        subst hyv
        refine ⟨by omega, ?_⟩
        intro j hj1 hj2
        by_cases hji : j = i
        · subst hji; exact hy
        · exact ih.2 j (by omega) (by omega)
      · exact ⟨by omega, fun j h1 h2 => by omega⟩
    · exact ⟨by omega, fun j h1 h2 => by omega⟩

theorem runRight_spec (x : List ℝ) (v : ℝ) (k : Nat) : ∀ i,
    ∀ j, i < j → j ≤ i + runRight x v i k → x[j]? = some v := by
  induction k with
  | zero => intro i j h1 h2; simp [runRight] at h2; omega
  | succ k ih =>
    intro i j h1 h2
    unfold runRight at h2
    split at h2
    · rename_i y hy
      split at h2
      · rename_i he
        have hyv : y = v := (eqA_real y v).mp he
        subst hyv
        by_cases hji : j = i + 1
        · subst hji; exact hy
        · exact ih (i+1) j (by omega) (by omega)
      · omega
    · omega

/-- Soundness of the local-maximum search: every reported index is an interior plateau maximum. -/
theorem localMaxima_sound (x : List ℝ) (i : Nat) (h : i ∈ localMaxima x) : IsPlateauMax x i := by
  unfold localMaxima at h
  rw [List.mem_filter] at h
  obtain ⟨hr, hp⟩ := h
  unfold isPlateauMid at hp
  split at hp
  · cases hp
  · rename_i v hv
    unfold plateauBounds at hp
    rw [hv] at hp
    simp only [Bool.and_eq_true, decide_eq_true_eq] at hp
    obtain ⟨⟨⟨⟨hl, hrr⟩, ha⟩, hb⟩, hmid⟩ := hp
    have hL := runLeft_spec x v i
    have hR := runRight_spec x v (x.length - i) i
    refine ⟨i - runLeft x v i, i + runRight x v i (x.length - i), v, by omega, by omega, ?_, hl, hrr, ?_, ?_, hmid⟩
    · intro j h1 h2
      rcases Nat.lt_trichotomy j i with h | h | h
      · exact hL.2 j h1 h
      · subst h; exact hv
      · exact hR j h h2
    · split at ha
      · rename_i a ha'
        exact ⟨a, ha', by simpa using ha⟩
      · cases ha
    · split at hb
      · rename_i b hb'
        exact ⟨b, hb', by simpa using hb⟩
      · cases hb

/-- Completeness for strict local maxima: an interior sample strictly above both neighbours is reported. -/
theorem localMaxima_complete_strict (x : List ℝ) (i : Nat) (a v b : ℝ) (hi : 0 < i)
    (ha : x[i-1]? = some a) (hv : x[i]? = some v) (hb : x[i+1]? = some b) (h1 : a < v) (h2 : b < v) :
    i ∈ localMaxima x := by
  have hlen : i + 1 < x.length := by
    rcases List.getElem?_eq_some_iff.mp hb with ⟨h, _⟩; exact h
  unfold localMaxima
  rw [List.mem_filter]
  refine ⟨List.mem_range.mpr (by omega), ?_⟩
  unfold isPlateauMid
  rw [hv]
  unfold plateauBounds
  rw [hv]
  have hl0 : runLeft x v i = 0 := by
    obtain ⟨k, rfl⟩ : ∃ k, i = k + 1 := ⟨i - 1, by omega⟩
    unfold runLeft
    simp only [Nat.add_sub_cancel] at ha
    rw [ha]
    have : eqA a v = false := by
      rw [Bool.eq_false_iff]; intro h; have := (eqA_real a v).mp h; linarith
    simp [this]
  have hr0 : runRight x v i (x.length - i) = 0 := by
    obtain ⟨k, hk⟩ : ∃ k, x.length - i = k + 1 := ⟨x.length - i - 1, by omega⟩
    rw [hk]
    unfold runRight
    rw [hb]
    have : eqA b v = false := by
      rw [Bool.eq_false_iff]; intro h; have := (eqA_real b v).mp h; linarith
    simp [this]
  simp only [hl0, hr0, Nat.sub_zero, Nat.add_zero, ha, hb]
  simp [hi, hlen, h1, h2]
  omega

theorem runLeft_eq (x : List ℝ) (v : ℝ) (l : ℕ) : ∀ i, l ≤ i →
    (∀ j, l ≤ j → j < i → x[j]? = some v) → (l = 0 ∨ ∃ a, x[l-1]? = some a ∧ a ≠ v) → runLeft x v i = i - l := by
  intro i
  induction i with
  | zero => intro hl _ _; simp [runLeft]
  | succ i ih =>
    intro hl hall hstop
    unfold runLeft
    rcases Nat.lt_or_ge l (i + 1) with hlt | hge
    · have hi : x[i]? = some v := hall i (by omega) (by omega)
      rw [hi]
      have : eqA v v = true := (eqA_real v v).mpr rfl
      simp only [this, if_true]
      rw [ih (by omega) (fun j h1 h2 => hall j h1 (by omega)) hstop]
      omega
    · have hli : l = i + 1 := by omega
      subst hli
      rcases hstop with h0 | ⟨a, ha, hne⟩
      · omega
      · simp only [Nat.add_sub_cancel] at ha
        rw [ha]
        have : eqA a v = false := by rw [Bool.eq_false_iff]; intro hh; exact hne ((eqA_real a v).mp hh)
        simp [this]

theorem runRight_eq (x : List ℝ) (v : ℝ) (r : ℕ) : ∀ (k i : ℕ), i ≤ r → r - i < k →
    (∀ j, i < j → j ≤ r → x[j]? = some v) → (x[r+1]? = none ∨ ∃ b, x[r+1]? = some b ∧ b ≠ v) →
    runRight x v i k = r - i := by
  intro k
  induction k with
  | zero => intro i _ hk; omega
  | succ k ih =>
    intro i hir hk hall hstop
    unfold runRight
    rcases Nat.lt_or_ge i r with hlt | hge
    · have hi : x[i+1]? = some v := hall (i + 1) (by omega) (by omega)
      rw [hi]
      have : eqA v v = true := (eqA_real v v).mpr rfl
      simp only [this, if_true]
      rw [ih (i + 1) (by omega) (by omega) (fun j h1 h2 => hall j (by omega) h2) hstop]
      omega
    · have hri : r = i := by omega
      subst hri
      rcases hstop with h0 | ⟨b, hb, hne⟩
      · rw [h0]; simp
      · rw [hb]
        have : eqA b v = false := by rw [Bool.eq_false_iff]; intro hh; exact hne ((eqA_real b v).mp hh)
        simp [this]

/-- **Completeness of the local-maximum search** (plateaus included): every interior plateau maximum is reported. -/
theorem localMaxima_complete (x : List ℝ) (i : ℕ) (h : IsPlateauMax x i) : i ∈ localMaxima x := by
  obtain ⟨l, r, v, hli, hir, hall, hl0, hrn, ⟨a, ha, hav⟩, ⟨b, hb, hbv⟩, hmid⟩ := h
  have hilen : i < x.length := by omega
  have hxi : x[i]? = some v := hall i hli hir
  have hL : runLeft x v i = i - l :=
    runLeft_eq x v l i hli (fun j h1 h2 => hall j h1 (by omega)) (Or.inr ⟨a, ha, ne_of_lt hav⟩)
  have hR : runRight x v i (x.length - i) = r - i :=
    runRight_eq x v r (x.length - i) i hir (by omega) (fun j h1 h2 => hall j (by omega) h2) (Or.inr ⟨b, hb, ne_of_lt hbv⟩)
  unfold localMaxima
  rw [List.mem_filter]
  refine ⟨List.mem_range.mpr hilen, ?_⟩
  unfold isPlateauMid plateauBounds
  rw [hxi]
  simp only [hL, hR]
  have e1 : i - (i - l) = l := by omega
  have e2 : i + (r - i) = r := by omega
  rw [e1, e2, ha, hb]
  simp [hl0, hrn, hav, hbv, hmid]

/-- the search reports exactly the interior plateau maxima -/
theorem localMaxima_iff (x : List ℝ) (i : ℕ) : i ∈ localMaxima x ↔ IsPlateauMax x i :=
  ⟨localMaxima_sound x i, localMaxima_complete x i⟩

theorem argmaxOn_none (amp : List ℝ) (is : List Nat) (h : argmaxOn amp is = none) :
    ∀ j ∈ is, amp[j]? = none := by
  induction is with
  | nil => intro j hj; cases hj
  | cons k ks ih =>
    unfold argmaxOn at h
    split at h
    · rename_i hk
      intro j hj
      rcases List.mem_cons.mp hj with rfl | hj
      · exact hk
      · exact ih h j hj
    · split at h
      · cases h
      · split at h <;> cases h

theorem argmaxOn_spec (amp : List ℝ) (is : List Nat) (i : Nat) (a : ℝ)
    (h : argmaxOn amp is = some (i, a)) :
    i ∈ is ∧ amp[i]? = some a ∧ ∀ j ∈ is, ∀ b, amp[j]? = some b → b ≤ a := by
  induction is generalizing i a with
  | nil => simp [argmaxOn] at h
  | cons k ks ih =>
    unfold argmaxOn at h
    split at h
    · rename_i hk
      obtain ⟨h1, h2, h3⟩ := ih i a h
      refine ⟨List.mem_cons_of_mem _ h1, h2, ?_⟩
      intro j hj b hb
      rcases List.mem_cons.mp hj with rfl | hj
      · rw [hk] at hb; cases hb
      · exact h3 j hj b hb
    · rename_i ak hk
      split at h
      · rename_i hnone
        injection h with h
        injection h with e1 e2
        subst e1 e2
        refine ⟨List.mem_cons_self, hk, ?_⟩
        intro j hj b hb
        rcases List.mem_cons.mp hj with rfl | hj
        · rw [hk] at hb; injection hb with hb; linarith
        · have := argmaxOn_none amp ks hnone j hj
          rw [this] at hb; cases hb
      · rename_i j0 b0 hrest
        obtain ⟨r1, r2, r3⟩ := ih j0 b0 hrest
        split at h
        · rename_i hlt
          injection h with h
          injection h with e1 e2
          subst e1 e2
          refine ⟨List.mem_cons_of_mem _ r1, r2, ?_⟩
          intro j hj b hb
          rcases List.mem_cons.mp hj with rfl | hj
          · rw [hk] at hb; injection hb with hb; linarith
          · exact r3 j hj b hb
        · rename_i hnlt
          injection h with h
          injection h with e1 e2
          subst e1 e2
          refine ⟨List.mem_cons_self, hk, ?_⟩
          intro j hj b hb
          rcases List.mem_cons.mp hj with rfl | hj
          · rw [hk] at hb; injection hb with hb; linarith
          · have := r3 j hj b hb
            have := not_lt.mp hnlt
            linarith

theorem localMaxima_lt_length (x : List ℝ) (i : Nat) (h : i ∈ localMaxima x) : i < x.length := by
  unfold localMaxima at h
  exact List.mem_range.mp (List.mem_filter.mp h).1

/-- **Peak specification.** With `lo, hi` the index slice of the search range: a reported peak `(f, a)` sits at
an interior plateau maximum `i` of the sliced curve, `a` is the curve's value there, `f` the frequency there,
and no other local maximum of the slice is higher. -/
theorem findPeak_spec (freq amp : List ℝ) (r : Range ℝ) (f a : ℝ)
    (h : findPeakBounded freq amp r = some (f, a)) :
    let lo := (rangeToIdx freq r).1
    let hi := (rangeToIdx freq r).2
    ∃ i, IsPlateauMax (pySlice amp lo hi) i ∧ (pySlice freq lo hi)[i]? = some f ∧
      (pySlice amp lo hi)[i]? = some a ∧
      ∀ j, j ∈ localMaxima (pySlice amp lo hi) → ∀ b, (pySlice amp lo hi)[j]? = some b → b ≤ a := by
  intro lo hi
  unfold findPeakBounded findPeakUnbounded at h
  simp only at h
  split at h
  · cases h
  · rename_i i a' harg
    split at h
    · rename_i f' hf
      injection h with h
      injection h with e1 e2
      subst e1 e2
      obtain ⟨h1, h2, h3⟩ := argmaxOn_spec _ _ _ _ harg
      exact ⟨i, localMaxima_sound _ _ h1, hf, h2, h3⟩
    · cases h

/-- A peak is reported as absent exactly when the slice has no interior local maximum (given equally long
frequency and amplitude vectors): empty, inverted and out-of-grid ranges included. -/
theorem findPeak_none_iff (freq amp : List ℝ) (r : Range ℝ) (hlen : freq.length = amp.length) :
    findPeakBounded freq amp r = none ↔
      localMaxima (pySlice amp (rangeToIdx freq r).1 (rangeToIdx freq r).2) = [] := by
  unfold findPeakBounded findPeakUnbounded
  simp only
  constructor
  · intro h
    split at h
    · rename_i harg
      have hn := argmaxOn_none _ _ harg
      by_contra hne
      obtain ⟨j, hj⟩ := List.exists_mem_of_ne_nil _ hne
      have := hn j hj
      have hl := localMaxima_lt_length _ _ hj
      rw [List.getElem?_eq_none_iff] at this
      omega
    · rename_i i a harg
      split at h
      · cases h
      · rename_i hf
        obtain ⟨h1, h2, _⟩ := argmaxOn_spec _ _ _ _ harg
        have hl := localMaxima_lt_length _ _ h1
        rw [List.getElem?_eq_none_iff] at hf
        unfold pySlice at hf hl
        simp only [List.length_drop, List.length_take] at hf hl
        omega
  · intro h
    rw [h]
    simp [argmaxOn]

/-! ### Peaks track the search range after any history -/

/-- What the operations on an `HvsrTraditional` can do to it: `update_peaks_bounded`, or any operation that
only writes the two masks (time-domain rejection, manual rejection, every step of the FDWRA loop, mask restore
by the plotting code). FDWRA is an `update` followed by mask writes. -/
inductive Reach : HvTrad ℝ → HvTrad ℝ → Prop
  | refl (s) : Reach s s
  | update (s t) (r : Range ℝ) (kw : Bool) : Reach s t → Reach s (updatePeaks r kw t)
  | masks (s t) (vw vp : List Bool) : Reach s t → Reach s { t with vWin := vw, vPeak := vp }

/-- the stored peaks are those of the stored range -/
def PeaksOk (s : HvTrad ℝ) : Prop :=
  ∃ r, s.range = some r ∧ s.peaks = s.rows.map (fun row => findPeakBounded s.freq row r)

theorem optEq_real (a b : Option ℝ) : optEq a b = true ↔ a = b := by
  cases a <;> cases b <;> simp [optEq, eqA_real]

theorem rangeEq_real (a b : Range ℝ) : rangeEq a b = true ↔ a = b := by
  obtain ⟨a1, a2⟩ := a
  obtain ⟨b1, b2⟩ := b
  simp [rangeEq, optEq_real]

theorem recompute_ok (r : Range ℝ) (s : HvTrad ℝ) : PeaksOk (recomputePeaks r s) :=
  ⟨r, rfl, rfl⟩

theorem updatePeaks_ok (r : Range ℝ) (kw : Bool) (s : HvTrad ℝ) (h : PeaksOk s) :
    PeaksOk (updatePeaks r kw s) ∧ (updatePeaks r kw s).range = some r := by
  unfold updatePeaks
  split
  · rename_i r0 hr0
    split
    · rename_i hc
      simp only [Bool.and_eq_true] at hc
      have : r = r0 := (rangeEq_real r r0).mp hc.1
      subst this
      exact ⟨h, hr0⟩
    · exact ⟨recompute_ok r s, rfl⟩
  · exact ⟨recompute_ok r s, rfl⟩

/-- **Peaks track the range.** After any sequence of range updates and mask-writing operations on a constructed
object, the stored peaks are exactly the peaks of every curve over the *last* requested range: the early
return of `update_peaks_bounded` never leaves a stale peak, and the curves are never modified. -/
theorem peaks_track_range (freq : List ℝ) (rows : List (List ℝ)) (s : HvTrad ℝ)
    (h : Reach (HvTrad.init freq rows) s) :
    PeaksOk s ∧ s.freq = freq ∧ s.rows = rows := by
  generalize hs0 : HvTrad.init freq rows = s0 at h
  induction h with
  | refl => subst hs0; exact ⟨recompute_ok _ _, rfl, rfl⟩
  | update t r kw _ ih =>
    obtain ⟨h1, h2, h3⟩ := ih
    refine ⟨(updatePeaks_ok r kw t h1).1, ?_, ?_⟩
    · unfold updatePeaks; split <;> [split; skip] <;> simp [recomputePeaks, h2]
    · unfold updatePeaks; split <;> [split; skip] <;> simp [recomputePeaks, h3]
  | masks t vw vp _ ih =>
    obtain ⟨h1, h2, h3⟩ := ih
    exact ⟨h1, h2, h3⟩

/-- after `update_peaks_bounded(r)` the stored range is `r`, whatever was stored before -/
theorem update_sets_range (freq : List ℝ) (rows : List (List ℝ)) (s : HvTrad ℝ) (r : Range ℝ) (kw : Bool)
    (h : Reach (HvTrad.init freq rows) s) :
    (updatePeaks r kw s).peaks = rows.map (fun row => findPeakBounded freq row r) := by
  obtain ⟨h1, h2, h3⟩ := peaks_track_range freq rows s h
  obtain ⟨⟨r', hr', hp⟩, hr⟩ := updatePeaks_ok r kw s h1
  rw [hr] at hr'
  injection hr' with hr'
  subst hr'
  rw [hp]
  have e2 : (updatePeaks r kw s).freq = freq := by
    unfold updatePeaks; split <;> [split; skip] <;> simp [recomputePeaks, h2]
  have e3 : (updatePeaks r kw s).rows = rows := by
    unfold updatePeaks; split <;> [split; skip] <;> simp [recomputePeaks, h3]
  rw [e2, e3]

/-- A window without a peak in the range gets peak = absent and is excluded from the resonance statistics
(`valid_peak` false) by the recomputation; it stays an accepted *window* only when no window has a peak. -/
theorem nopeak_masks (r : Range ℝ) (s : HvTrad ℝ) :
    (recomputePeaks r s).vPeak = (s.rows.map (fun row => findPeakBounded s.freq row r)).map Option.isSome ∧
    ((∃ row ∈ s.rows, (findPeakBounded s.freq row r).isSome) →
      (recomputePeaks r s).vWin = (recomputePeaks r s).vPeak) := by
  constructor
  · rfl
  · rintro ⟨row, hrow, hsome⟩
    unfold recomputePeaks
    simp only
    rw [if_neg]
    intro hall
    rw [List.all_eq_true] at hall
    have := hall (findPeakBounded s.freq row r).isSome (by
      simp only [List.mem_map]
      exact ⟨findPeakBounded s.freq row r, ⟨row, hrow, rfl⟩, rfl⟩)
    simp [hsome] at this

/-! ### Non-vacuity -/
example : localMaxima ([1, 3, 2, 5, 5, 5, 1, 4, 4] : List Rat) = [1, 4] := by decide
example : findPeakBounded ([1, 2, 3, 4, 5, 6, 7] : List Rat) [1, 3, 2, 5, 4, 6, 1] (none, none) = some (6, 6) := by decide
example : findPeakBounded ([1, 2, 3, 4, 5, 6, 7] : List Int) [1, 3, 2, 5, 4, 6, 1] (some 1, some 6) = some (4, 5) := by decide
example : findPeakBounded ([1, 2, 3, 4, 5, 6, 7] : List Int) [1, 3, 2, 5, 4, 6, 1] (some 5, some 2) = none := by decide
example : findPeakBounded ([1, 2, 3] : List Rat) [2, 2, 2] (none, none) = none := by decide

end HV.C08
