import HvsrVerif.Proofs.CliLemmas
/-!
# C19 — Command-line batch output equals the library pipeline for each file

Property theorems only.  The model (`Model/Cli.lean`) mirrors `hvsrpy/cli.py` and
`nextpow2`/`prepare_fft_settings` of `hvsrpy/processing.py`.

* `nextpow2_spec`, `prepareFft_ge`, `prepareFft_idem_iff`: the FFT length rule (the state that
  a task writes into the settings object).
* `batch_eq_alone`, `cli_eq_alone`, `cli_independent`: with a fresh copy of the settings per
  task (the tree under verification) every file of every batch gets the stand-alone result,
  for every list of chunks, hence for every order, `--nproc` and assignment to workers.
* `chunks_partition`: the chunks of `Pool.starmap` are consecutive slices of the task list.
* `shared_chunk_counterexample`: with the settings object shared inside a chunk (the code
  before the repair of finding C19-a) the property fails.

Not covered by a theorem (trusted, checked by differential execution in harness/c19.py): which
OS process runs which chunk, pickling, the CPython `Pool` implementation, and that the CSV
content is a function of (file, FFT length) only.
-/
namespace HV.C19
open HV.Cli

/-! ## `nextpow2` -/

/-- `nextpow2 n min` returns `min·2^k`, the result exceeds `n`, and it is the smallest such
number (`k` is minimal; stated for the exponent and for the value). -/
theorem nextpow2_spec (n min : Nat) (hmin : 0 < min) :
    ∃ k, nextpow2 n min hmin = min * 2 ^ k ∧ n < nextpow2 n min hmin ∧
      (∀ j, n < min * 2 ^ j → k ≤ j) ∧ ∀ j, n < min * 2 ^ j → nextpow2 n min hmin ≤ min * 2 ^ j := by
  obtain ⟨k, hk, hlt, hmin'⟩ := nextpow2Loop_spec n min hmin
  refine ⟨k, hk, ?_, hmin', ?_⟩
  · unfold nextpow2; rw [hk]; exact hlt
  · intro j hj
    unfold nextpow2; rw [hk]
    exact Nat.mul_le_mul_left _ (Nat.pow_le_pow_right (by decide) (hmin' j hj))

/-- the default `nextpow2(n)` is a power of two, at least `2^15`, and exceeds `n` -/
theorem nextpow2_default (n : Nat) : ∃ k, nextpow2 n = 2 ^ (15 + k) ∧ n < nextpow2 n := by
  obtain ⟨k, hk, hlt, _⟩ := nextpow2_spec n (2 ^ 15) (by decide)
  exact ⟨k, by rw [hk, Nat.pow_add], hlt⟩

/-! ## `prepare_fft_settings` -/

theorem goodN_gt (maxN : Nat) : maxN < goodN maxN := (nextpow2_default maxN).choose_spec.2

/-- zero padding, never truncation: after `prepare_fft_settings` the settings hold an FFT length
that is at least the longest record, whatever they held before (all four branches) -/
theorem prepareFft_ge (s : FftState) (maxN : Nat) : ∃ k, prepareFft s maxN = .n k ∧ maxN ≤ k := by
  have h := goodN_gt maxN
  cases s with
  | unset => exact ⟨_, rfl, Nat.le_of_lt h⟩
  | noKey => exact ⟨_, rfl, by split <;> omega⟩
  | nNone => exact ⟨_, rfl, Nat.le_refl _⟩
  | n user => exact ⟨_, rfl, by split <;> omega⟩

/-- a length requested by the user is never reduced either -/
theorem prepareFft_ge_user (user maxN : Nat) : ∃ k, prepareFft (.n user) maxN = .n k ∧ user ≤ k :=
  ⟨_, rfl, by split <;> omega⟩

/-- A second `prepare_fft_settings` with the same records changes nothing **iff** the stored state
is not `{"n": None}`.  From `{"n": None}` the first call stores `maxN`, the second
`nextpow2 maxN > maxN` (finding C09-c). -/
theorem prepareFft_idem_iff (s : FftState) (maxN : Nat) :
    prepareFft (prepareFft s maxN) maxN = prepareFft s maxN ↔ s ≠ .nNone := by
  have h := goodN_gt maxN
  cases s with
  | unset => simp [prepareFft]
  | noKey =>
    simp only [prepareFft, ne_eq, reduceCtorEq, not_false_eq_true, iff_true, FftState.n.injEq]
    by_cases h1 : goodN maxN > maxN <;> simp [h1]
  | nNone =>
    simp only [prepareFft, ne_eq, not_true_eq_false, iff_false, FftState.n.injEq]
    simp [h]; omega
  | n user =>
    simp only [prepareFft, ne_eq, reduceCtorEq, not_false_eq_true, iff_true, FftState.n.injEq]
    by_cases h1 : goodN maxN > user <;> simp [h1]

/-- consequently the number of `prepare_fft_settings` calls inside one task (`reps ≥ 1`) does not
matter unless the loaded state is `{"n": None}` -/
theorem runTask_of_ne_nNone (s : FftState) (file : File) (hs : s ≠ .nNone) (reps : Nat) :
    runTask (reps + 1) s file = prepareFft s file := by
  have key : ∀ r t, prepareFft t file = t → iter (fun t => prepareFft t file) r t = t := by
    intro r; induction r with
    | zero => intro t _; rfl
    | succ r ih => intro t ht; simp only [iter]; rw [ht]; exact ih t ht
  unfold runTask
  simp only [iter]
  exact key reps _ ((prepareFft_idem_iff s file).2 hs)

/-! ## batches -/

variable {β : Type}

/-- **Batch output equals the stand-alone result.**  If every task starts from a fresh copy of
the settings, then for ALL lists of chunks — i.e. all batches, all orders of the files, all
`nproc` and the chunking they induce, all assignments of chunks to workers (a chunk's result
does not depend on where and when it runs: it starts from an unpickled copy of the loaded,
never modified settings) — the output written for each file is `alone file`. -/
theorem batch_eq_alone (reps : Nat) (loaded : FftState) (out : Option Nat → File → β)
    (chunkList : List (List File)) :
    runBatch .fresh reps loaded out chunkList = chunkList.map (List.map (alone reps loaded out)) := by
  induction chunkList with
  | nil => rfl
  | cons c rest ih =>
    simp only [runBatch, List.map_cons] at ih ⊢
    rw [ih, runChunk_fresh]

/-- the same for every assignment of the chunks to worker processes and every execution order -/
theorem schedule_eq_alone (reps : Nat) (loaded : FftState) (out : Option Nat → File → β)
    (schedule : List (List (List File))) :
    runSchedule .fresh reps loaded out schedule
      = schedule.map (List.map (List.map (alone reps loaded out))) := by
  unfold runSchedule
  exact List.map_congr_left (fun c _ => batch_eq_alone reps loaded out c)

/-! ## chunks -/

/-- every chunk except possibly the last is a full slice: chunk `i` is
`tasks[i·size : (i+1)·size]` (what `Pool._get_tasks` yields) -/
theorem chunksOf_slice {γ : Type} (size : Nat) (hs : 0 < size) (l : List γ) (i : Nat) :
    (chunksOf size l)[i]? = if i * size < l.length then some ((l.drop (i * size)).take size) else none := by
  induction i generalizing l with
  | zero =>
    cases l with
    | nil => rw [chunksOf_nil]; simp
    | cons a t => rw [chunksOf_cons size hs]; simp
  | succ i ih =>
    cases l with
    | nil => rw [chunksOf_nil]; simp
    | cons a t =>
      rw [chunksOf_cons size hs, List.getElem?_cons_succ, ih]
      simp only [List.length_drop, List.drop_drop]
      have e : size + i * size = (i + 1) * size := by rw [Nat.add_mul]; omega
      have e2 : i * size < (a :: t).length - size ↔ (i + 1) * size < (a :: t).length := by omega
      simp only [e, e2]

/-- The chunks handed to the workers concatenate to the task list (order preserved, nothing lost
or duplicated), none is empty and each has at most `chunksize = max 1 (ntasks / nproc)` tasks. -/
theorem chunks_partition {γ : Type} (tasks : List γ) (nproc : Nat) :
    (chunks tasks nproc).flatten = tasks ∧
      ∀ c ∈ chunks tasks nproc, c ≠ [] ∧ c.length ≤ chunkSize tasks.length nproc :=
  chunksOf_partition _ (by unfold chunkSize; omega) tasks

/-- with `nproc ≥ ntasks` every file is a chunk of its own (`chunksize = 1`) -/
theorem chunks_singletons {γ : Type} (tasks : List γ) (nproc : Nat) (h : tasks.length < 2 * nproc ∨ nproc = 0) :
    ∀ c ∈ chunks tasks nproc, c.length = 1 := by
  intro c hc
  obtain ⟨h1, h2⟩ := (chunks_partition tasks nproc).2 c hc
  have : chunkSize tasks.length nproc = 1 := by
    unfold chunkSize
    rcases h with h | h
    · have : tasks.length / nproc < 2 := by
        apply Nat.div_lt_of_lt_mul; rw [Nat.mul_comm]; exact h
      omega
    · subst h; simp
  have : 0 < c.length := List.length_pos_iff.mpr h1
  omega

/-! ## the command line interface -/

/-- The CLI on a non-empty batch with `nproc ≥ 1`: every file is paired with its stand-alone result. -/
theorem cli_eq_alone (reps : Nat) (loaded : FftState) (out : Option Nat → File → β)
    (tasks : List File) (nproc : Nat) (ht : tasks ≠ []) (hn : 0 < nproc) :
    cliBatch .fresh reps loaded out tasks nproc = .ok (tasks.map fun f => (f, alone reps loaded out f)) := by
  unfold cliBatch
  have h0 : ¬ (tasks.length = 0 ∨ nproc = 0) := by
    have : 0 < tasks.length := List.length_pos_iff.mpr ht
    omega
  rw [if_neg h0, batch_eq_alone]
  have : (List.map (List.map (alone reps loaded out)) (chunks tasks nproc)).flatten
      = tasks.map (alone reps loaded out) := by
    rw [← List.map_flatten, (chunks_partition tasks nproc).1]
  rw [this, zip_map_self]

/-- The output for a file does not depend on which other files are in the batch, on their order,
or on the number of worker processes: in any two runs (batches `tasks`, `tasks'` — arbitrary,
e.g. permutations or sub-batches of one another — and `nproc`, `nproc'`), a file occurring in both
gets the same output, namely `alone file`. -/
theorem cli_independent (reps : Nat) (loaded : FftState) (out : Option Nat → File → β)
    (tasks tasks' : List File) (nproc nproc' : Nat) (r r' : List (File × β))
    (h : cliBatch .fresh reps loaded out tasks nproc = .ok r)
    (h' : cliBatch .fresh reps loaded out tasks' nproc' = .ok r') :
    (∀ p ∈ r, p.2 = alone reps loaded out p.1) ∧ (∀ p ∈ r', p.2 = alone reps loaded out p.1) ∧
    (∀ p ∈ r, ∀ p' ∈ r', p.1 = p'.1 → p.2 = p'.2) ∧ r.map Prod.fst = tasks ∧ r'.map Prod.fst = tasks' := by
  have aux : ∀ (ts : List File) (np : Nat) (res : List (File × β)),
      cliBatch .fresh reps loaded out ts np = .ok res →
      res = ts.map fun f => (f, alone reps loaded out f) := by
    intro ts np res hres
    by_cases h0 : ts.length = 0 ∨ np = 0
    · unfold cliBatch at hres; rw [if_pos h0] at hres; cases hres
    · have ht : ts ≠ [] := fun e => h0 (Or.inl (by simp [e]))
      rw [cli_eq_alone reps loaded out ts np ht (by omega)] at hres
      cases hres; rfl
  have e := aux _ _ _ h
  have e' := aux _ _ _ h'
  have m : ∀ (ts : List File), ∀ p ∈ (ts.map fun f => (f, alone reps loaded out f)), p.2 = alone reps loaded out p.1 := by
    intro ts p hp
    obtain ⟨f, _, rfl⟩ := List.mem_map.mp hp
    rfl
  subst e e'
  refine ⟨m _, m _, ?_, ?_, ?_⟩
  · intro p hp p' hp' hpp
    rw [m _ p hp, m _ p' hp', hpp]
  · simp [List.map_map, Function.comp_def]
  · simp [List.map_map, Function.comp_def]

/-- reordering the command line permutes the (file, output) pairs and nothing else -/
theorem cli_perm (reps : Nat) (loaded : FftState) (out : Option Nat → File → β)
    (tasks tasks' : List File) (nproc nproc' : Nat) (hp : tasks.Perm tasks') (ht : tasks ≠ [])
    (hn : 0 < nproc) (hn' : 0 < nproc') :
    ∃ r r', cliBatch .fresh reps loaded out tasks nproc = .ok r ∧
      cliBatch .fresh reps loaded out tasks' nproc' = .ok r' ∧ r.Perm r' := by
  have ht' : tasks' ≠ [] := fun e => ht (by subst e; exact hp.eq_nil)
  exact ⟨_, _, cli_eq_alone reps loaded out tasks nproc ht hn,
    cli_eq_alone reps loaded out tasks' nproc' ht' hn', hp.map _⟩

/-- `Pool(min(ntasks, nproc))` refuses an empty batch and `nproc < 1` -/
theorem cli_refuses (mode : Mode) (reps : Nat) (loaded : FftState) (out : Option Nat → File → β)
    (tasks : List File) (nproc : Nat) (h : tasks = [] ∨ nproc = 0) :
    cliBatch mode reps loaded out tasks nproc = .error "ValueError" := by
  unfold cliBatch
  rw [if_pos]
  rcases h with h | h
  · left; simp [h]
  · right; exact h

/-! ## the code before the repair (finding C19-a) -/

/-- With the settings object shared by the tasks of a chunk there are files `a, b`
(`nextpow2 |a| > nextpow2 |b| ≥ 2^15`: 100 s windows at 500 Hz and at 100 Hz) for which the chunk
`[a, b]` does not produce the stand-alone results: `b` inherits the FFT length of `a`. -/
theorem shared_chunk_counterexample :
    ∃ a b : File, 2 ^ 15 ≤ goodN b ∧ goodN b < goodN a ∧
      runChunk .shared 1 (fun n _ => n) .unset [a, b]
        ≠ [alone 1 .unset (fun n _ => n) a, alone 1 .unset (fun n _ => n) b] ∧
      runChunk .shared 1 (fun n _ => n) .unset [a, b] = [some 65536, some 65536] ∧
      runChunk .fresh 1 (fun n _ => n) .unset [a, b] = [some 65536, some 32768] := by
  refine ⟨50001, 10001, ?_, ?_, ?_, ?_, ?_⟩
  · rw [goodN_10001]; decide
  · rw [goodN_10001, goodN_50001]; decide
  · simp [runChunk, alone, runTask, iter, prepareFft, FftState.len, goodN_10001, goodN_50001]
  · simp [runChunk, runTask, iter, prepareFft, FftState.len, goodN_10001, goodN_50001]
  · simp [runChunk, runTask, iter, prepareFft, FftState.len, goodN_10001, goodN_50001]

/-- in the other order (`b` first) the shared object does no harm: the defect depends on the
order of the files and, through the chunking, on `--nproc` -/
theorem shared_chunk_order_dependent :
    runChunk .shared 1 (fun n _ => n) .unset [10001, 50001] = [some 32768, some 65536] ∧
    runBatch .shared 1 .unset (fun n _ => n) (chunks [50001, 10001] 2) = [[some 65536], [some 32768]] ∧
    runBatch .shared 1 .unset (fun n _ => n) (chunks [50001, 10001] 1) = [[some 65536, some 65536]] := by
  refine ⟨?_, ?_, ?_⟩
  · simp [runChunk, runTask, iter, prepareFft, FftState.len, goodN_10001, goodN_50001]
  · simp [runBatch, chunks, chunkSize, chunksOf_cons, chunksOf_nil, runChunk, runTask, iter, prepareFft,
      FftState.len, goodN_10001, goodN_50001]
  · simp [runBatch, chunks, chunkSize, chunksOf_cons, chunksOf_nil, runChunk, runTask, iter, prepareFft,
      FftState.len, goodN_10001, goodN_50001]

/-! ## non-vacuity -/

/-- hypotheses of `cli_eq_alone`/`cli_perm` on a concrete batch of three files, two orders, two `nproc` -/
example : ∃ r r', cliBatch .fresh 1 .unset (fun n f => (n, f)) [50001, 10001, 25001] 1 = .ok r ∧
    cliBatch .fresh 1 .unset (fun n f => (n, f)) [10001, 25001, 50001] 3 = .ok r' ∧ r.Perm r' :=
  cli_perm 1 .unset _ _ _ 1 3 (by decide) (by decide) (by decide) (by decide)

/-- the chunking of five tasks over two processes: `chunksize = 2`, three chunks -/
example : chunks [1, 2, 3, 4, 5] 2 = [[1, 2], [3, 4], [5]] := by
  simp [chunks, chunkSize, chunksOf_cons, chunksOf_nil]

/-- more processes than tasks: `chunksize = max 1 0 = 1` -/
example : chunks [7, 8] 3 = [[7], [8]] := by
  simp [chunks, chunkSize, chunksOf_cons, chunksOf_nil]

/-- `prepareFft_idem_iff`, both directions on concrete data (`{"n": None}`: 300 → 32768, finding C09-c) -/
example : prepareFft .nNone 300 = .n 300 ∧ prepareFft (.n 300) 300 = .n 32768 := by
  have h : goodN 300 = 32768 := by unfold goodN nextpow2; rw [nextpow2Loop_of_gt _ (by decide)]
  simp [prepareFft, h]

example : prepareFft .unset 50001 = .n 65536 ∧ prepareFft (.n 65536) 50001 = .n 65536 := by
  simp [prepareFft, goodN_50001]

/-- a user length below the record length is replaced, one above the next power of two is kept -/
example : prepareFft (.n 1024) 50001 = .n 65536 ∧ prepareFft (.n 100000) 50001 = .n 100000 := by
  simp [prepareFft, goodN_50001]

end HV.C19
