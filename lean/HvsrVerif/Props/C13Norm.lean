import HvsrVerif.Props.C13
/-!
# C13 (continued) — maximum-value rejection with `normalized=True`

`maxvalue_normalized_iff`: with normalisation the window maxima are divided by the overall largest absolute sample `G`
(over all windows and examined components), and a window is kept iff its largest absolute sample is below
`threshold · G`. Stated under `0 < G` — for an all-zero recording numpy computes `0/0 = NaN` and rejects every window,
which the `Float` model reproduces and the correspondence covers; over `ℝ` division by zero is totalised, so that case
is excluded from the theorem rather than proved for the wrong reason.
-/
namespace HV.C13
open HV Classical

theorem windowMax_nonneg (w : List (List ℝ)) : 0 ≤ windowMax w := by
  by_contra h
  have := (windowMax_lt_iff w 0).mp (not_le.mp h)
  exact lt_irrefl _ this.1

/-- the normaliser: the largest window maximum, characterised as a supremum -/
theorem overallMax_spec (wins : List (List (List ℝ))) (G : ℝ)
    (hG : maxL' ((wins.map windowMax).map absA) = some G) :
    ∀ s, G < s ↔ 0 < s ∧ ∀ v ∈ wins, ∀ c ∈ v, ∀ x ∈ c, |x| < s := by
  intro s
  cases wins with
  | nil => simp [maxL'] at hG
  | cons v vs =>
    simp only [List.map_cons, maxL', Option.some.injEq] at hG
    rw [← hG, foldl_maxA_lt_iff]
    simp only [absA_real, abs_of_nonneg (windowMax_nonneg _), List.mem_map, forall_exists_index, and_imp,
      forall_apply_eq_imp_iff₂, List.mem_cons, forall_eq_or_imp, windowMax_lt_iff]
    constructor
    · rintro ⟨⟨h0, h1⟩, h2⟩
      exact ⟨h0, h1, fun u hu => (h2 u hu).2⟩
    · rintro ⟨h0, h1, h2⟩
      exact ⟨⟨h0, h1⟩, fun u hu => ⟨h0, h2 u hu⟩⟩

/-- **Maximum-value rejection (normalised threshold)** keeps a window iff its largest absolute sample, relative to
the overall largest absolute sample `G > 0`, is below the threshold. -/
theorem maxvalue_normalized_iff (thr : ℝ) (wins : List (List (List ℝ))) (i : Nat) (w : List (List ℝ))
    (hw : wins[i]? = some w) (G : ℝ) (hG : maxL' ((wins.map windowMax).map absA) = some G) (hpos : 0 < G) :
    (maxValueMask thr true wins)[i]? = some (decide (0 < thr ∧ ∀ c ∈ w, ∀ x ∈ c, |x| < thr * G)) := by
  unfold maxValueMask
  simp only [↓reduceIte]
  rw [hG]
  simp only [List.map_map, List.getElem?_map, hw, Option.map_some, Function.comp]
  congr 1
  rw [decide_eq_decide, div_lt_iff₀ hpos, windowMax_lt_iff]
  constructor
  · rintro ⟨h0, h1⟩
    exact ⟨(pos_iff_pos_of_mul_pos h0).mpr hpos, h1⟩
  · rintro ⟨h0, h1⟩
    exact ⟨mul_pos h0 hpos, h1⟩

/-- consequence: the window that carries the overall largest sample is kept iff `1 < threshold` -/
theorem maxvalue_normalized_loudest (thr : ℝ) (wins : List (List (List ℝ))) (i : Nat) (w : List (List ℝ))
    (hw : wins[i]? = some w) (G : ℝ) (hG : maxL' ((wins.map windowMax).map absA) = some G) (hpos : 0 < G)
    (hloud : windowMax w = G) : (maxValueMask thr true wins)[i]? = some (decide (1 < thr)) := by
  unfold maxValueMask
  simp only [↓reduceIte]
  rw [hG]
  simp only [List.map_map, List.getElem?_map, hw, Option.map_some, Function.comp]
  congr 1
  rw [decide_eq_decide, hloud, div_self hpos.ne']

/-! ### Non-vacuity -/
example : maxValueMask (1/2 : Rat) true [[[1, -2]], [[1, -4]]] = [false, false] := by decide +kernel
example : maxValueMask (3/4 : Rat) true [[[1, -2]], [[1, -4]]] = [true, false] := by decide +kernel

end HV.C13
