import HvsrVerif.Proofs.DFTLemmas
import HvsrVerif.Props.C01
import HvsrVerif.Model.PsdPre
/-!
# C17 — Power spectral densities are correctly normalised; diffuse-field HVSR agrees

Model: `Model/Process.lean` (`psdComponent`, `processPsd`, `processDiffuse`), `Model/DFT.lean`, `Model/PsdPre.lean`.
-/
namespace HV.C17
open HV Classical Finset

/-- power of bin `k` of the `n`-point DFT of the zero-padded series -/
noncomputable def binPower (x : List ℝ) (n k : ℕ) : ℝ := (dftRe x n k) ^ 2 + (dftIm x n k) ^ 2

/-- **Parseval, one-sided form.** For an even FFT length `n = 2h` the interior bins carry exactly the energy that
is not in the 0 Hz and Nyquist bins: `2 Σ_{0<k<h} |X_k|² = n Σ_j x_j² − |X_0|² − |X_h|²`. -/
theorem interior_bins_parseval (x : List ℝ) (h : ℕ) (hh : 1 ≤ h) (hlen : x.length ≤ 2 * h) :
    2 * ∑ k ∈ Finset.Ico 1 h, binPower x (2 * h) k
      = (2 * h : ℕ) * ∑ j ∈ Finset.range (2 * h), (padR x j) ^ 2 - binPower x (2 * h) 0 - binPower x (2 * h) h := by
  have hn : 2 * h ≠ 0 := by omega
  have hp := parseval_real x (2 * h) hn hlen
  -- split the full sum into [0], [1,h), [h], (h, 2h)
  have hsplit : ∑ k ∈ Finset.range (2 * h), binPower x (2 * h) k
      = binPower x (2 * h) 0 + ∑ k ∈ Finset.Ico 1 h, binPower x (2 * h) k + binPower x (2 * h) h
        + ∑ k ∈ Finset.Ico (h + 1) (2 * h), binPower x (2 * h) k := by
    rw [Finset.range_eq_Ico, ← Finset.sum_Ico_consecutive _ (Nat.zero_le 1) (by omega : 1 ≤ 2 * h)]
    rw [← Finset.sum_Ico_consecutive _ (by omega : 1 ≤ h) (by omega : h ≤ 2 * h)]
    rw [← Finset.sum_Ico_consecutive _ (by omega : h ≤ h + 1) (by omega : h + 1 ≤ 2 * h)]
    simp [Finset.sum_Ico_eq_sum_range]
    ring
  -- the upper interior bins mirror the lower ones
  have hmirror : ∑ k ∈ Finset.Ico (h + 1) (2 * h), binPower x (2 * h) k = ∑ k ∈ Finset.Ico 1 h, binPower x (2 * h) k := by
    have hr := Finset.sum_Ico_reflect (fun k => binPower x (2 * h) k) 1 (show h ≤ 2 * h + 1 by omega)
    have e2 : 2 * h + 1 - h = h + 1 := by omega
    have e3 : 2 * h + 1 - 1 = 2 * h := by omega
    rw [e2, e3] at hr
    rw [← hr]
    apply Finset.sum_congr rfl
    intro k hk
    rw [Finset.mem_Ico] at hk
    obtain ⟨s1, s2⟩ := dft_symm x (2 * h) k hn (by omega)
    unfold binPower
    rw [s1, s2]
    ring
  unfold binPower at *
  rw [hsplit, hmirror] at hp
  linarith

/-- **PSD normalisation (Parseval with the code's scaling).** With the density of bin `k` equal to
`2|X_k|²/(U·L·fs)` (see `psd_single`), the density summed strictly between 0 Hz and Nyquist and multiplied by the
bin width `fs/n` is the mean square of the tapered signal normalised by the taper power `U`, minus the part carried
by the 0 Hz and Nyquist bins. -/
theorem psd_parseval (xw : List ℝ) (h : ℕ) (hh : 1 ≤ h) (hlen : xw.length ≤ 2 * h) (U L fs : ℝ)
    (hU : U ≠ 0) (hL : L ≠ 0) (hfs : fs ≠ 0) :
    (∑ k ∈ Finset.Ico 1 h, (binPower xw (2 * h) k / U / L / fs * 2 / 1)) * (fs / (2 * h : ℕ))
      = (∑ j ∈ Finset.range (2 * h), (padR xw j) ^ 2) / (L * U)
        - (binPower xw (2 * h) 0 + binPower xw (2 * h) h) / (L * (2 * h : ℕ) * U) := by
  have key := interior_bins_parseval xw h hh hlen
  have hn : ((2 * h : ℕ) : ℝ) ≠ 0 := by
    have : 2 * h ≠ 0 := by omega
    exact_mod_cast this
  have e : ∑ k ∈ Finset.Ico 1 h, (binPower xw (2 * h) k / U / L / fs * 2 / 1)
      = (2 * ∑ k ∈ Finset.Ico 1 h, binPower xw (2 * h) k) / (U * L * fs) := by
    rw [Finset.mul_sum, Finset.sum_div]
    apply Finset.sum_congr rfl
    intro k _
    field_simp
  rw [e, key]
  field_simp
  ring

/-- **Amplitude scaling.** The spectral power of every bin scales with the square of the signal amplitude. -/
theorem powSpec_scale (c : ℝ) (x : List ℝ) (n : ℕ) :
    powSpec (x.map (c * ·)) n = (powSpec x n).map (c ^ 2 * ·) := by
  unfold powSpec rfft
  simp only [List.map_map]
  apply List.map_congr_left
  intro k _
  simp only [Function.comp, ← List.map_take]
  obtain ⟨h1, h2⟩ := C01.dft_homog c (x.take n) n k
  rw [h1, h2]
  ring

/-- one window: the density of bin `k` is `2 |X_k|² / (U · L · fs)` with `X` the DFT of the tapered window -/
theorem psd_single (width dt : ℝ) (n : ℕ) (x : List ℝ) :
    psdComponent width n dt [x] =
      (powSpec (taper width x) n).map (fun p => p / taperPower width x.length / (x.length : ℝ) / (1 / dt) * 2 / 1) := by
  unfold psdComponent
  simp only [List.foldl_cons, List.foldl_nil, List.getLastD_cons, List.getLastD_nil,
    List.length_singleton, ofNat_real, Nat.cast_one, Nat.cast_ofNat, Nat.cast_zero]
  have hlen : (powSpec (taper width x) n).length = n / 2 + 1 := by
    unfold powSpec rfft; simp
  have hz : ∀ (l : List ℝ) (m : ℕ), l.length = m →
      (List.zip (List.replicate m (0:ℝ)) l).map (fun p => p.1 + p.2) = l := by
    intro l
    induction l with
    | nil => intro m hm; simp at hm; subst hm; rfl
    | cons a t ih =>
      intro m hm
      cases m with
      | zero => simp at hm
      | succ m => simp [List.replicate_succ, ih m (by simpa using hm)]
  rw [hz _ _ hlen]

theorem psd_scale_single (width dt c : ℝ) (n : ℕ) (x : List ℝ) :
    psdComponent width n dt [x.map (c * ·)] = (psdComponent width n dt [x]).map (c ^ 2 * ·) := by
  rw [psd_single, psd_single, C01.taper_homog, powSpec_scale]
  simp only [List.map_map, List.length_map]
  apply List.map_congr_left
  intro p _
  simp only [Function.comp]
  ring

theorem powSpec_length (x : List ℝ) (n : ℕ) : (powSpec x n).length = n / 2 + 1 := by
  unfold powSpec rfft; simp

/-- accumulating equally long vectors with `zip`/`+` gives, at every index, the sum of the entries -/
theorem foldl_zipAdd_getD (vs : List (List ℝ)) (m : ℕ) (hlen : ∀ v ∈ vs, v.length = m) (acc : List ℝ) (hacc : acc.length = m)
    (k : ℕ) (hk : k < m) :
    (vs.foldl (fun acc v => (List.zip acc v).map (fun p => p.1 + p.2)) acc).getD k 0
      = acc.getD k 0 + (vs.map (fun v => v.getD k 0)).sum ∧
    (vs.foldl (fun acc v => (List.zip acc v).map (fun p => p.1 + p.2)) acc).length = m := by
  induction vs generalizing acc with
  | nil => simp [hacc]
  | cons v vs ih =>
    have hv : v.length = m := hlen v List.mem_cons_self
    have hacc' : ((List.zip acc v).map (fun p => p.1 + p.2)).length = m := by simp [hacc, hv]
    obtain ⟨h1, h2⟩ := ih (fun u hu => hlen u (List.mem_cons_of_mem _ hu)) _ hacc'
    simp only [List.foldl_cons, List.map_cons, List.sum_cons]
    refine ⟨?_, h2⟩
    rw [h1]
    have : ((List.zip acc v).map (fun p => p.1 + p.2)).getD k 0 = acc.getD k 0 + v.getD k 0 := by
      have hka : k < acc.length := by omega
      have hkv : k < v.length := by omega
      simp [List.getD_eq_getElem?_getD, List.getElem?_eq_getElem, hka, hkv]
    rw [this]; ring

theorem getLastD_mem {β : Type} (t : List β) (a : β) : t.getLastD a = a ∨ t.getLastD a ∈ t := by
  induction t generalizing a with
  | nil => left; rfl
  | cons b t ih =>
    rw [List.getLastD_cons]
    rcases ih b with h | h
    · right; rw [h]; exact List.mem_cons_self
    · right; exact List.mem_cons_of_mem _ h

/-- **Welch.** For several equally long windows the density is, bin by bin, the average of the single-window densities. -/
theorem psd_welch (width dt : ℝ) (n : ℕ) (wins : List (List ℝ)) (L : ℕ) (hne : wins ≠ [])
    (hL : ∀ x ∈ wins, x.length = L) (k : ℕ) (hk : k < n / 2 + 1) :
    (psdComponent width n dt wins).getD k 0
      = (wins.map (fun x => (psdComponent width n dt [x]).getD k 0)).sum / (wins.length : ℝ) := by
  have hW : (wins.length : ℝ) ≠ 0 := by
    have : wins.length ≠ 0 := by simpa using hne
    exact_mod_cast this
  have hlast : (wins.getLastD []).length = L := by
    cases wins with
    | nil => exact absurd rfl hne
    | cons a t =>
      rw [List.getLastD_cons]
      rcases getLastD_mem t a with h | h
      · rw [h]; exact hL a List.mem_cons_self
      · exact hL _ (List.mem_cons_of_mem _ h)
  -- every single-window density
  have hsingle : ∀ x ∈ wins, (psdComponent width n dt [x]).getD k 0
      = (powSpec (taper width x) n).getD k 0 / taperPower width L / (L : ℝ) / (1 / dt) * 2 / 1 := by
    intro x hx
    rw [psd_single, hL x hx]
    have hkx : k < (powSpec (taper width x) n).length := by rw [powSpec_length]; exact hk
    simp [List.getD_eq_getElem?_getD, List.getElem?_map, List.getElem?_eq_getElem hkx]
  have hsum : (wins.map (fun x => (psdComponent width n dt [x]).getD k 0)).sum
      = (wins.map (fun x => (powSpec (taper width x) n).getD k 0)).sum / taperPower width L / (L : ℝ) / (1 / dt) * 2 / 1 := by
    have e : wins.map (fun x => (psdComponent width n dt [x]).getD k 0)
        = wins.map (fun x => (powSpec (taper width x) n).getD k 0 / taperPower width L / (L : ℝ) / (1 / dt) * 2 / 1) := by
      apply List.map_congr_left; intro x hx; exact hsingle x hx
    rw [e]
    generalize wins = ws
    induction ws with
    | nil => simp
    | cons a t ih => simp only [List.map_cons, List.sum_cons, ih]; ring
  -- the joint density
  have hjoint : (psdComponent width n dt wins).getD k 0
      = (wins.map (fun x => (powSpec (taper width x) n).getD k 0)).sum / taperPower width L / (L : ℝ) / (1 / dt) * 2 / (wins.length : ℝ) := by
    unfold psdComponent
    simp only [hlast, ofNat_real, Nat.cast_one, Nat.cast_ofNat, Nat.cast_zero]
    have hfold := foldl_zipAdd_getD (wins.map (fun x => powSpec (taper width x) n)) (n / 2 + 1)
      (by intro v hv; simp only [List.mem_map] at hv; obtain ⟨x, _, rfl⟩ := hv; exact powSpec_length _ _)
      (List.replicate (n / 2 + 1) (0:ℝ)) (by simp) k hk
    rw [List.foldl_map] at hfold
    obtain ⟨hf1, hf2⟩ := hfold
    set acc := List.foldl (fun x y => (List.zip x (powSpec (taper width y) n)).map (fun p => p.1 + p.2))
      (List.replicate (n / 2 + 1) (0:ℝ)) wins with hacc
    have hkacc : k < acc.length := by rw [hf2]; exact hk
    have hrep : (List.replicate (n / 2 + 1) (0:ℝ)).getD k 0 = 0 := by
      simp [List.getD_eq_getElem?_getD, List.getElem?_replicate, hk]
    rw [hrep, zero_add, List.map_map] at hf1
    have hget : (acc.map (fun p => p / taperPower width L / (L : ℝ) / (1 / dt) * 2 / (wins.length : ℝ))).getD k 0
        = acc.getD k 0 / taperPower width L / (L : ℝ) / (1 / dt) * 2 / (wins.length : ℝ) := by
      simp [List.getD_eq_getElem?_getD, List.getElem?_map, List.getElem?_eq_getElem hkacc]
    rw [hget, hf1]
    rfl
  rw [hjoint, hsum]
  field_simp

/-- diffuse-field HVSR is, by definition of the processing chain, `√(S(P_ns + P_ew)/S(P_vt))` of the same windows -/
theorem diffuse_def (cfg : ProcCfg ℝ) (fft : FftState) (pol : Policy) (recs : List (Rec3 ℝ))
    (st : FftState) (kept : List ℕ) (row : List ℝ) (h : processDiffuse cfg fft pol recs = .ok (st, kept, row)) :
    ∃ n r0 rest sh sv q, st.len = some n ∧ kept = keptIndices pol (recs.map (·.dt)) ∧
      kept.filterMap (fun i => recs[i]?) = r0 :: rest ∧
      smoothRows cfg n r0.dt
        [(List.zip (psdComponent cfg.width n r0.dt ((r0 :: rest).map (·.ns))) (psdComponent cfg.width n r0.dt ((r0 :: rest).map (·.ew)))).map
            (fun p => p.1 + p.2),
         psdComponent cfg.width n r0.dt ((r0 :: rest).map (·.vt))] = .ok [sh, sv] ∧
      ratioRow sh sv = .ok q ∧ row = q.map Real.sqrt := by
  unfold processDiffuse at h
  simp only at h
  split at h
  · cases h
  · rename_i n hn
    split at h
    · cases h
    · split at h
      · cases h
      · rename_i r0 rest hk
        split at h
        · cases h
        · split at h
          · rename_i sh sv hs
            split at h
            · rename_i q hq
              injection h with h
              simp only [Prod.mk.injEq] at h
              obtain ⟨h1, h2, h3⟩ := h
              subst h1 h2 h3
              rw [hk] at hs
              exact ⟨n, r0, rest, sh, sv, q, hn, rfl, hk, hs, hq, by simp [sqrt_real]⟩
            · cases h
          · cases h
          · cases h

/-! ### Non-vacuity -/
example : (List.replicate 3 (0:ℝ)).length = 3 := by simp

end HV.C17
