import HvsrVerif.Proofs.RealInst
import HvsrVerif.Model.Process
import HvsrVerif.Model.Effects
import HvsrVerif.Props.C01
/-!
# C09 — Processing has no side effects on its inputs and is repeatable

`Model/Process.lean` is a pure function of its inputs, so repeatability reduces to the one piece of state that
`process` writes back: `settings.fft_settings` (`prepareFft`). Side effects on the recordings are a question of
aliasing: `Model/Effects.lean` gives the store semantics and the two variants (taper a copy / taper in place).
-/
namespace HV.C09
open HV HV.Heap

theorem get_set_ne {β} (s : Store β) (l l' : Nat) (v : β) (h : l' ≠ l) : (s.set l v).get l' = s.get l' := by
  simp [Store.get, Store.set, h]

theorem step_preserves {β} (s : Store β) (e : Eff β) (hwf : s.WF) (start : Nat) (hstart : start ≤ s.next)
    (hw : WritesOnlyFresh start [e]) (l : Nat) (hl : l < start) :
    ((step s e).1).get l = s.get l ∧ ((step s e).1).WF ∧ s.next ≤ ((step s e).1).next := by
  cases e with
  | fresh srcs f =>
    refine ⟨?_, ?_, by simp [step]⟩
    · have : l ≠ s.next := by omega
      simp [step, Store.get, this]
    · intro l' hl'
      simp only [step] at hl' ⊢
      have : l' ≠ s.next := by omega
      simp only [this, if_false]
      exact hwf l' (by omega)
  | write dst f =>
    simp only [WritesOnlyFresh, and_true] at hw
    cases hg : s.get dst with
    | none => simp only [step, hg]; exact ⟨trivial, hwf, le_refl _⟩
    | some v =>
      simp only [step, hg]
      refine ⟨get_set_ne s dst l _ (by omega), ?_, by simp [Store.set]⟩
      intro l' hl'
      simp only [Store.set] at hl' ⊢
      have hd : dst < s.next := by
        by_contra hc
        have := hwf dst (by omega)
        unfold Store.get at hg
        rw [this] at hg
        cases hg
      have : l' ≠ dst := by omega
      simp only [this, if_false]
      exact hwf l' hl'

theorem writesOnlyFresh_cons {β} (start : Nat) (e : Eff β) (es : List (Eff β)) :
    WritesOnlyFresh start (e :: es) ↔ WritesOnlyFresh start [e] ∧ WritesOnlyFresh start es := by
  cases e <;> simp [WritesOnlyFresh]

/-- **No side effects.** A processing path all of whose writes go to buffers it allocated itself leaves every
buffer of the caller (address below `start`) exactly as it was. -/
theorem caller_store_unchanged {β} (es : List (Eff β)) (s : Store β) (hwf : s.WF) (start : Nat)
    (hstart : start ≤ s.next) (hw : WritesOnlyFresh start es) (l : Nat) (hl : l < start) :
    (run s es).get l = s.get l := by
  induction es generalizing s with
  | nil => rfl
  | cons e es ih =>
    rw [writesOnlyFresh_cons] at hw
    obtain ⟨h1, h2, h3⟩ := step_preserves s e hwf start hstart hw.1 l hl
    unfold run
    simp only [List.foldl_cons]
    have := ih (step s e).1 h2 (by omega) hw.2
    unfold run at this
    rw [this, h1]

/-- the repaired paths (taper applied to a copy) write only to fresh buffers … -/
theorem copy_path_writes_fresh {β} (src next : Nat) (taper : β → β) (spectrum : List β → β) (hsrc : src < next) :
    WritesOnlyFresh next (componentEffects true src next taper spectrum).1 := by
  simp [componentEffects, WritesOnlyFresh]

/-- … whereas the old in-place taper writes into the caller's buffer (the hypothesis of `caller_store_unchanged`
fails): this is repaired defect C09-a. -/
theorem inplace_path_writes_caller {β} (src next : Nat) (taper : β → β) (spectrum : List β → β) (hsrc : src < next) :
    ¬ WritesOnlyFresh next (componentEffects false src next taper spectrum).1 := by
  simp [componentEffects, WritesOnlyFresh]; omega

/-- concrete witness: tapering in place changes what the caller sees, tapering a copy does not -/
theorem inplace_changes_caller :
    (run (Store.ofList [(5 : Nat)]) (componentEffects false 0 1 (· * 2) (fun l => l.sum)).1).get 0 = some 10 ∧
    (run (Store.ofList [(5 : Nat)]) (componentEffects true 0 1 (· * 2) (fun l => l.sum)).1).get 0 = some 5 := by
  decide

/-- **Repeatable.** Running the same processing again on the same recordings with the same settings object (whose
`fft_settings` were updated by the first run) returns the identical result whenever the state stored by the first
run is a fixed point of `prepare_fft_settings` — by `C01.prepareFft_idem_iff` every state except `{"n": None}`
(known finding C09-c). -/
theorem process_repeatable (m : Method ℝ) (cfg : ProcCfg ℝ) (fft : FftState) (pol : Policy) (recs : List (Rec3 ℝ))
    (r : ProcResult ℝ) (h : processTraditional m cfg fft pol recs = .ok r) (hne : fft ≠ .nNone) :
    processTraditional m cfg r.fft pol recs = .ok r := by
  have hfix := (C01.prepareFft_idem_iff fft (maxSamples recs)).mpr hne
  have hr : r.fft = prepareFft fft (maxSamples recs) := by
    unfold processTraditional at h
    simp only at h
    split at h
    · cases h
    · split at h
      · cases h
      · split at h
        · cases h
        · split at h
          · cases h
          · injection h with h; rw [← h]
  rw [← h, hr]
  unfold processTraditional
  simp only [hfix]

/-- … and from `{"n": None}` the two runs use different FFT lengths (the model reproduces known finding C09-c) -/
theorem nNone_not_repeatable : prepareFft .nNone 300 = .n 300 ∧ prepareFft (.n 300) 300 = .n 32768 := by decide

end HV.C09
