/-!
# Scalar abstraction (import-free)

Every model in `HvsrVerif/Model` is written once against the two classes below.
It is then
* executed at `Float` (IEEE double) by the native driver `hvsrdrv`, which the
  correspondence harness compares with the real hvsrpy, and
* reasoned about at `ℝ` (instance in `HvsrVerif/Proofs/RealInst.lean`) by the
  theorems in `HvsrVerif/Props`.

There is no second hand-synchronised executable copy of a model.
-/

/-- field-like arithmetic with decidable order, literals and `floor` -/
class Arith (α : Type) extends Add α, Sub α, Mul α, Div α, Neg α, LT α, LE α where
  ofNat : Nat → α
  /-- `ofSci m true e = m · 10^(-e)`, `ofSci m false e = m · 10^e` -/
  ofSci : Nat → Bool → Nat → α
  floor : α → Int
  decLt : (a b : α) → Decidable (a < b)
  decLe : (a b : α) → Decidable (a ≤ b)

/-- transcendental functions used by hvsrpy -/
class Transc (α : Type) extends Arith α where
  sqrt : α → α
  log : α → α
  exp : α → α
  sin : α → α
  cos : α → α
  pi : α

instance : Arith Float where
  ofNat := Float.ofNat
  ofSci := Float.ofScientific
  floor := fun x => x.floor.toInt64.toInt
  decLt := fun a b => inferInstanceAs (Decidable (a < b))
  decLe := fun a b => inferInstanceAs (Decidable (a ≤ b))

instance : Transc Float where
  sqrt := Float.sqrt
  log := Float.log
  exp := Float.exp
  sin := Float.sin
  cos := Float.cos
  pi := 3.141592653589793

instance : Arith Rat where
  ofNat := fun n => (n : Rat)
  ofSci := Rat.ofScientific
  floor := Rat.floor
  decLt := fun a b => inferInstanceAs (Decidable (a < b))
  decLe := fun a b => inferInstanceAs (Decidable (a ≤ b))

/-- integers (truncating division): used only for `decide`-style non-vacuity examples -/
instance : Arith Int where
  ofNat := fun n => (n : Int)
  ofSci := fun m s e => if s then (m : Int) / 10 ^ e else (m : Int) * 10 ^ e
  floor := id
  decLt := fun a b => inferInstanceAs (Decidable (a < b))
  decLe := fun a b => inferInstanceAs (Decidable (a ≤ b))

namespace HV
variable {α : Type}

scoped instance instDecLt [Arith α] (a b : α) : Decidable (a < b) := Arith.decLt a b
scoped instance instDecLe [Arith α] (a b : α) : Decidable (a ≤ b) := Arith.decLe a b

/-- natural-number literal -/
scoped notation "n#" n => Arith.ofNat n

/-- decimal literal `m · 10^(-e)` given as a pair -/
def lit [Arith α] (p : Nat × Nat) : α := Arith.ofSci p.1 true p.2

def absA [Arith α] (x : α) : α := if x < (n# 0) then -x else x
def maxA [Arith α] (a b : α) : α := if a < b then b else a
def minA [Arith α] (a b : α) : α := if b < a then b else a
/-- model-level equality of scalars: neither is smaller -/
def eqA [Arith α] (a b : α) : Bool := !(decide (a < b)) && !(decide (b < a))

def sumA [Arith α] (l : List α) : α := l.foldl (· + ·) (n# 0)

def ofInt [Arith α] (i : Int) : α :=
  match i with
  | Int.ofNat n => n# n
  | Int.negSucc n => -(n# (n+1))

end HV
