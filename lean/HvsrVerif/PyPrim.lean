import HvsrVerif.Scalar
/-!
# numpy / Python primitives used by the generated definitions (`Generated/Funcs.lean`, written by `tools/py2lean.py`)

Import-free; each primitive is the element-wise meaning of the numpy function of the same name on real numbers.
-/
namespace HV
variable {α : Type}

section
variable [Arith α]
/-- `x // y` for floats: `floor(x / y)` -/
def pyFloorDiv (x y : α) : α := ofInt (Arith.floor (x / y))
/-- `x % y` for floats (sign of the divisor) -/
def pyMod (x y : α) : α := x - y * ofInt (Arith.floor (x / y))
def pySquare (x : α) : α := x * x
def pyFloor (x : α) : α := ofInt (Arith.floor x)
/-- `np.round` (half to even) as an integer -/
def pyRoundHalfEven (x : α) : Int :=
  let f := Arith.floor x
  let r := x - ofInt f
  let half : α := lit (5, 1)
  if r < half then f else if half < r then f + 1 else if f % 2 = 0 then f else f + 1
/-- `int(x)` of a float: truncation toward zero -/
def pyTruncInt (x : α) : Int :=
  if x < (n# 0) then -(Arith.floor (-x)) else Arith.floor x
/-- `np.maximum(a, b)` -/
def pyMaximum (a b : α) : α := if a < b then b else a
/-- `np.minimum(a, b)` -/
def pyMinimum (a b : α) : α := if b < a then b else a
end

section
variable [Transc α]
/-- `np.radians` -/
def pyRadians (deg : α) : α := deg * (Transc.pi / (n# 180))
/-- `np.power(a, x)` for a positive base: `exp (x · log a)` -/
def pyPow (a x : α) : α := Transc.exp (x * Transc.log a)
/-- `np.log10` -/
def pyLog10 (x : α) : α := Transc.log x / Transc.log (n# 10)
def pyHypot (a b : α) : α := Transc.sqrt (a * a + b * b)
end

/-- `s.endswith(c)` for a one-character `c` -/
def pyEndsWith1 (s : String) (c : Char) : Bool := s.toList.getLast? == some c

/-- `str.lower()` -/
def pyLower (s : String) : String := s.toLower

end HV
