import HvsrVerif.Scalar
/-!
# Frequency-domain smoothing operators (C02; used by C01 C03 C04 C17)

Mirrors `hvsrpy/smoothing.py`. The six window operators share one skeleton
(`kernelSmoothRow`): centre frequencies below `1e-6` give 0; samples below `1e-6` or outside
the operator's limits are skipped; the smoothed value is `Σ w·x / Σ w` when `Σ w > 0`, else 0.
Savitzky–Golay works on indices of a uniform grid.
-/
namespace HV
variable {α : Type}

/-- numeric constants of smoothing.py as decimal pairs `(m, e)` meaning `m·10^-e` -/
structure SmoothConsts where
  guard : Nat × Nat := (1, 6)      -- 1E-6 (fc, f and |f-fc| guards)
  koN : Nat × Nat := (3, 0)        -- Konno-Ohmachi: n = 3
  pzA : Nat × Nat := (280, 0)      -- Parzen: a = pi*280/(2*151)
  pzB : Nat × Nat := (151, 0)
  pzC : Nat × Nat := (6, 0)        -- sqrt(6)
  sgA : Nat × Nat := (3, 0)        -- SG: (3 m^2 - 7 - 20 i^2)/4
  sgB : Nat × Nat := (7, 0)
  sgC : Nat × Nat := (20, 0)
  sgD : Nat × Nat := (4, 0)
  sgE : Nat × Nat := (4, 0)        -- normaliser m (m^2 - 4)/3
  sgF : Nat × Nat := (3, 0)
  deriving DecidableEq, Repr

def smoothConsts : SmoothConsts := {}

def SmoothConsts.toList (c : SmoothConsts) : List (String × (Nat × Nat)) :=
  [("guard", c.guard), ("koN", c.koN), ("pzA", c.pzA), ("pzB", c.pzB), ("pzC", c.pzC),
   ("sgA", c.sgA), ("sgB", c.sgB), ("sgC", c.sgC), ("sgD", c.sgD), ("sgE", c.sgE), ("sgF", c.sgF)]

/-- names registered in `SMOOTHING_OPERATORS` -/
def smoothingOperators : List String :=
  ["konno_and_ohmachi", "linear_rectangular", "linear_triangular", "log_rectangular", "log_triangular",
   "parzen", "savitzky_and_golay"]

section
variable [Arith α]

def guard : α := lit smoothConsts.guard

/-- shared skeleton for one spectrum row and one centre frequency.
`weight f fc = none` means the sample is skipped. -/
def kernelSmoothRow (weight : α → α → Option α) (freqs row : List α) (fc : α) : α :=
  if fc < guard then n# 0
  else
    let ps := (List.zip freqs row).filterMap (fun p => (weight p.1 fc).map (fun w => (w, p.2)))
    let sw := sumA (ps.map (·.1))
    if (n# 0) < sw then sumA (ps.map (fun p => p.1 * p.2)) / sw else n# 0

/-- a whole spectrum matrix at all centre frequencies: rows are smoothed independently -/
def kernelSmooth (weight : α → α → Option α) (freqs : List α) (rows : List (List α)) (fcs : List α) :
    List (List α) :=
  rows.map (fun row => fcs.map (kernelSmoothRow weight freqs row))

/-- `linear_rectangular` -/
def linRectWeight (bw : α) (f fc : α) : Option α :=
  if f < guard ∨ bw / (n# 2) < absA (f - fc) then none else some (n# 1)

/-- `linear_triangular` -/
def linTriWeight (bw : α) (f fc : α) : Option α :=
  if f < guard ∨ bw / (n# 2) < absA (f - fc) then none
  else some ((n# 1) - absA (f - fc) * ((n# 2) / bw))
end

section
variable [Transc α]

def log10A (x : α) : α := Transc.log x / Transc.log (n# 10)
def pow10A (x : α) : α := Transc.exp (x * Transc.log (n# 10))
/-- `(sin w / w)^4` computed as the code does: square twice -/
def sinc4 (w : α) : α :=
  let s := Transc.sin w / w
  (s * s) * (s * s)

/-- `konno_and_ohmachi` -/
def koWeight (bw : α) (f fc : α) : Option α :=
  let n : α := lit smoothConsts.koN
  let upper := pow10A (n / bw)
  let lower := pow10A (-(n / bw))
  let r := f / fc
  if f < guard ∨ upper < r ∨ r < lower then none
  else if absA (f - fc) < guard then some (n# 1)
  else some (sinc4 (bw * log10A r))

def parzenA : α := Transc.pi * lit smoothConsts.pzA / ((n# 2) * lit smoothConsts.pzB)

/-- `parzen` -/
def parzenWeight (bw : α) (f fc : α) : Option α :=
  let upper := Transc.sqrt (lit smoothConsts.pzC) * parzenA / bw
  let d := f - fc
  if f < guard ∨ upper < d ∨ d < -upper then none
  else if absA d < guard then some (n# 1)
  else some (sinc4 (parzenA * d / bw))

/-- `log_rectangular` -/
def logRectWeight (bw : α) (f fc : α) : Option α :=
  let lower := pow10A (-(bw / (n# 2)))
  let upper := pow10A (bw / (n# 2))
  let r := f / fc
  if f < guard ∨ r < lower ∨ upper < r then none else some (n# 1)

/-- `log_triangular` -/
def logTriWeight (bw : α) (f fc : α) : Option α :=
  let lower := pow10A (-(bw / (n# 2)))
  let upper := pow10A (bw / (n# 2))
  let r := f / fc
  if f < guard ∨ r < lower ∨ upper < r then none
  else some ((n# 1) - absA (log10A r) * ((n# 2) / bw))
end

section
variable [Arith α]

/-- Savitzky–Golay coefficient `(3m² − 7 − 20 i²)/4` -/
def sgCoeff (m : Nat) (i : Nat) : α :=
  let c := smoothConsts
  (lit c.sgA * (n# m) * (n# m) - lit c.sgB - lit c.sgC * ((n# i) * (n# i))) / lit c.sgD

/-- normaliser `m (m² − 4)/3` -/
def sgNorm (m : Nat) : α :=
  (n# m) * ((n# m) * (n# m) - lit smoothConsts.sgE) / lit smoothConsts.sgF

/-- `np.round` (half to even) to an integer -/
def roundHalfEven (x : α) : Int :=
  let fl := Arith.floor x
  let d := x - ofInt fl
  let half : α := lit (5, 1)
  if d < half then fl
  else if half < d then fl + 1
  else if fl % 2 = 0 then fl else fl + 1

/-- `_savitzky_and_golay` for one row and one index -/
def sgAt (m : Nat) (row : List α) (idx : Int) : α :=
  let k := (m - 1) / 2
  let ncoeff := k + 1
  if idx < (ncoeff : Int) ∨ (row.length : Int) < idx + ncoeff then n# 0
  else
    let i := idx.toNat
    let centre := (sgCoeff m 0 : α) * row.getD i (n# 0)
    let side := (List.range k).map (fun r =>
      (sgCoeff m (r + 1) : α) * (row.getD (i + (r + 1)) (n# 0) + row.getD (i - (r + 1)) (n# 0)))
    (side.foldl (· + ·) centre) / sgNorm m

/-- `savitzky_and_golay`: errors for an even bandwidth or a non-uniform grid -/
def savitzkyGolay (bw : α) (freqs : List α) (rows : List (List α)) (fcs : List α) :
    Except String (List (List α)) :=
  let m := (Arith.floor bw).toNat
  if m % 2 ≠ 1 then .error "even"
  else
    let diffs := (List.zip freqs.tail freqs).map (fun p => p.1 - p.2)
    match diffs with
    | [] => .error "short"
    | df :: _ =>
      let dmin := diffs.foldl minA df
      let dmax := diffs.foldl maxA df
      if guard < absA (dmin - dmax) then .error "nonuniform"
      else
        let f0 := match freqs with | [] => (n# 0 : α) | x :: xs => xs.foldl minA x
        let idxs := fcs.map (fun fc => roundHalfEven ((fc - f0) / df))
        .ok (rows.map (fun row => idxs.map (sgAt m row)))
end

/-- dispatch by registered name (bandwidth interpretation is the operator's) -/
def smoothByName [Transc α] (name : String) (bw : α) (freqs : List α) (rows : List (List α)) (fcs : List α) :
    Except String (List (List α)) :=
  match name with
  | "konno_and_ohmachi" => .ok (kernelSmooth (koWeight bw) freqs rows fcs)
  | "parzen" => .ok (kernelSmooth (parzenWeight bw) freqs rows fcs)
  | "linear_rectangular" => .ok (kernelSmooth (linRectWeight bw) freqs rows fcs)
  | "log_rectangular" => .ok (kernelSmooth (logRectWeight bw) freqs rows fcs)
  | "linear_triangular" => .ok (kernelSmooth (linTriWeight bw) freqs rows fcs)
  | "log_triangular" => .ok (kernelSmooth (logTriWeight bw) freqs rows fcs)
  | "savitzky_and_golay" => savitzkyGolay bw freqs rows fcs
  | _ => .error "unknown-operator"

end HV
