import HvsrVerif.Scalar
/-!
# Lognormal / normal statistics (C05, C11; used by C06 C12 C20)

Mirrors `hvsrpy/statistics.py`: `_nanmean_weighted`, `_nanstd_weighted`, `_nth_std_factory`.
numpy's NaN ("no peak") is `none`; an undefined statistic (0/0) is `none` as well, so that no
theorem is true only because `x / 0 = 0` in `ℝ`.
-/
namespace HV
variable {α : Type}

inductive Dist | normal | lognormal
  deriving DecidableEq, Repr

inductive Denom | nist | cheng
  deriving DecidableEq, Repr

/-- `DISTRIBUTION_MAP` of constants.py (alias → canonical) -/
def distributionMap : List (String × String) :=
  [("log-normal", "lognormal"), ("lognormal", "lognormal"), ("normal", "normal")]

def Dist.ofString (s : String) : Option Dist :=
  match distributionMap.lookup s with
  | some "lognormal" => some .lognormal
  | some "normal" => some .normal
  | _ => none

section
variable [Transc α]

/-- PRE_PROCESS_FUNCTION_MAP (same for "mean" and "std") -/
def Dist.pre (d : Dist) (x : α) : α := match d with | .normal => x | .lognormal => Transc.log x
/-- POST_PROCESS_FUNCTION_MAP["mean"] -/
def Dist.postMean (d : Dist) (x : α) : α := match d with | .normal => x | .lognormal => Transc.exp x

/-- `a / b`, undefined (`none` = NaN) when `b = 0` -/
def divO (a b : α) : Option α := if eqA b (n# 0) then none else some (a / b)

/-- weights used when `weights is None`: 1 where the value is defined, NaN (`none`) elsewhere -/
def defaultWeights (vals : List (Option α)) : List (Option α) :=
  vals.map (fun v => v.map (fun _ => (n# 1 : α)))

def someWeights (w : List α) : List (Option α) := w.map some

/-- `np.nansum(values * weights)`: terms with an undefined factor are skipped -/
def nansumProd (vals ws : List (Option α)) (f : α → α → α) : α :=
  sumA ((List.zip vals ws).filterMap (fun p => match p.1, p.2 with
    | some v, some w => some (f v w)
    | _, _ => none))

/-- `np.nansum(weights)` -/
def nansumW (ws : List (Option α)) : α := sumA (ws.filterMap id)

/-- `_nanmean_weighted` (in the transformed space, before the post-processing) -/
def nanmeanPre (d : Dist) (vals : List (Option α)) (w : Option (List α)) : Option α :=
  let pv := vals.map (fun v => v.map d.pre)
  let ws := match w with | none => defaultWeights pv | some w => someWeights w
  divO (nansumProd pv ws (fun v w => v * w)) (nansumW ws)

/-- `_nanmean_weighted` -/
def nanmeanW (d : Dist) (vals : List (Option α)) (w : Option (List α)) : Option α :=
  (nanmeanPre d vals w).map d.postMean

/-- `_nanstd_weighted`. The mean is recomputed in the transformed space exactly as the code does
(`log(exp(m))` for lognormal). -/
def nanstdW (d : Dist) (vals : List (Option α)) (w : Option (List α)) (den : Denom) : Option α :=
  match nanmeanW d vals w with
  | none => none
  | some m0 =>
    let mean := match d with | .normal => m0 | .lognormal => Transc.log m0
    let pv := vals.map (fun v => v.map d.pre)
    let ws := match w with | none => defaultWeights pv | some w => someWeights w
    let num := nansumProd pv ws (fun v w => w * ((v - mean) * (v - mean)))
    let dn : α := match den with
      | .nist =>
        let cnt : α := n# (ws.filterMap id).length
        ((n# 1) - (n# 1) / cnt) * nansumW ws
      | .cheng => (n# 1) - sumA ((ws.filterMap id).map (fun w => w * w))
    match den, (ws.filterMap id).length with
    | .nist, 0 => none
    | _, _ => (divO num dn).map Transc.sqrt

/-- `_nth_std_factory` -/
def nthStd (n : α) (d : Dist) (mean std : α) : α :=
  match d with
  | .normal => mean + n * std
  | .lognormal => Transc.exp (Transc.log mean + n * std)

def nthStdO (n : α) (d : Dist) (mean std : Option α) : Option α :=
  match mean, std with
  | some m, some s => some (nthStd n d m s)
  | _, _ => none

/-- `np.cov(x, y, ddof=1)` resp. `np.cov(x, y, aweights=w)`: returns `(var x, cov x y, var y)`.
With weights numpy uses `fact = v1 - v2/v1`, `v1 = Σw`, `v2 = Σw²`. -/
def cov2 (xs ys : List α) (w : Option (List α)) : Option (α × α × α) :=
  let ws : List α := match w with | none => xs.map (fun _ => (n# 1 : α)) | some w => w
  let v1 := sumA ws
  let v2 := sumA (ws.map (fun w => w * w))
  match divO (sumA ((List.zip xs ws).map (fun p => p.1 * p.2))) v1,
        divO (sumA ((List.zip ys ws).map (fun p => p.1 * p.2))) v1 with
  | some mx, some my =>
    let fact : α := match w with
      | none => n# (xs.length - 1)
      | some _ => v1 - v2 / v1
    let sxx := sumA ((List.zip xs ws).map (fun p => p.2 * ((p.1 - mx) * (p.1 - mx))))
    let syy := sumA ((List.zip ys ws).map (fun p => p.2 * ((p.1 - my) * (p.1 - my))))
    let sxy := sumA ((List.zip (List.zip xs ys) ws).map (fun p => p.2 * ((p.1.1 - mx) * (p.1.2 - my))))
    match divO sxx fact, divO sxy fact, divO syy fact with
    | some a, some b, some c => some (a, b, c)
    | _, _, _ => none
  | _, _ => none

end
end HV
