import HvsrVerif.Model.Fdwra
/-!
# Azimuthal HVSR object and Cheng et al. (2020) statistics (C11; used by C06 C12 C13 C20)

Mirrors `hvsrpy/hvsr_azimuthal.py`.
-/
namespace HV
variable {α : Type}

structure HvAz (α : Type) where
  hvsrs : List (HvTrad α)
  azimuths : List α

section
variable [Arith α]

/-- number of `true` entries -/
def countTrue (m : List Bool) : Nat := (m.filter id).length

/-- the loop of `_compute_statistical_weights` for `naz` azimuths -/
def chengWeightsFor (naz : Nat) (counts : List Nat) : Except String (List α) :=
  counts.foldr (fun c acc =>
    match acc with
    | .error e => .error e
    | .ok ws => if c = 0 then .error "zerodiv"
                else .ok (List.replicate c ((n# 1) / (n# (naz * c))) ++ ws)) (.ok [])

/-- `_compute_statistical_weights`: `1/(n_azimuths · n_valid_peaks)` for every valid peak;
`error` (ZeroDivisionError) when an azimuth has no valid peak -/
def chengWeights (counts : List Nat) : Except String (List α) := chengWeightsFor counts.length counts

def HvAz.weights (s : HvAz α) : Except String (List α) :=
  chengWeights (s.hvsrs.map (fun h => countTrue h.vPeak))

/-- weights of the curve statistics: the rows are selected by the valid-*window* mask, so are the counts -/
def HvAz.windowWeights (s : HvAz α) : Except String (List α) :=
  chengWeights (s.hvsrs.map (fun h => countTrue h.vWin))

def HvAz.updatePeaks (r : Range α) (kwEmpty : Bool) (s : HvAz α) : HvAz α :=
  { s with hvsrs := s.hvsrs.map (HV.updatePeaks r kwEmpty) }

def HvAz.timeMask (m : List Bool) (s : HvAz α) : HvAz α :=
  { s with hvsrs := s.hvsrs.map (HV.timeMask m) }
end

section
variable [Transc α]

def HvAz.peakFreqs (s : HvAz α) : List (Option α) := s.hvsrs.flatMap HvTrad.peakFreqs
def HvAz.peakAmps (s : HvAz α) : List (Option α) := s.hvsrs.flatMap HvTrad.peakAmps

def HvAz.meanFn (d : Dist) (s : HvAz α) : Except String (Option α) :=
  s.weights.map (fun w => nanmeanW d s.peakFreqs (some w))
def HvAz.meanAmp (d : Dist) (s : HvAz α) : Except String (Option α) :=
  s.weights.map (fun w => nanmeanW d s.peakAmps (some w))
def HvAz.stdFn (d : Dist) (s : HvAz α) : Except String (Option α) :=
  s.weights.map (fun w => nanstdW d s.peakFreqs (some w) .cheng)
def HvAz.stdAmp (d : Dist) (s : HvAz α) : Except String (Option α) :=
  s.weights.map (fun w => nanstdW d s.peakAmps (some w) .cheng)

/-- accepted rows of all azimuths, azimuth-major (the order of the weights) -/
def HvAz.validRows (s : HvAz α) : List (List α) := s.hvsrs.flatMap HvTrad.validRows

def HvAz.nfreq (s : HvAz α) : Nat := match s.hvsrs with | [] => 0 | h :: _ => h.freq.length

/-- `mean_curve`: rows and weights both follow the valid-*window* mask (`windowWeights`); the length test below is kept
as a guard for ill-formed objects (masks of another length than the rows) -/
def HvAz.meanCurve (d : Dist) (s : HvAz α) : Except String (List (Option α)) :=
  match s.windowWeights with
  | .error e => .error e
  | .ok w =>
    let rows := s.validRows
    if rows.length ≠ w.length then .error "shape"
    else .ok ((List.range s.nfreq).map (fun j => nanmeanW d ((column rows j).map some) (some w)))

def HvAz.stdCurve (d : Dist) (s : HvAz α) : Except String (List (Option α)) :=
  match s.windowWeights with
  | .error e => .error e
  | .ok w =>
    let rows := s.validRows
    if rows.length ≠ w.length then .error "shape"
    else .ok ((List.range s.nfreq).map (fun j => nanstdW d ((column rows j).map some) (some w) .cheng))

def HvAz.meanCurvePeak (d : Dist) (s : HvAz α) : Except String (α × α) :=
  match s.meanCurve d with
  | .error e => .error e
  | .ok mc =>
    match allSome mc, s.hvsrs with
    | some mc, h :: _ =>
      match findPeakBounded h.freq mc (h.range.getD (none, none)) with
      | none => .error "nopeak"
      | some p => .ok p
    | _, _ => .error "nopeak"

/-- `cov_fn` with `aweights` -/
def HvAz.covFn (d : Dist) (s : HvAz α) : Except String (Option (α × α × α)) :=
  match s.weights with
  | .error e => .error e
  | .ok w =>
    match allSome s.peakFreqs, allSome s.peakAmps with
    | some fs, some as => .ok (cov2 (fs.map d.pre) (as.map d.pre) (some w))
    | _, _ => .ok none

/-- `mean_curve_by_azimuth` -/
def HvAz.meanCurveByAz (d : Dist) (s : HvAz α) : List (List (Option α)) :=
  s.hvsrs.map (HvTrad.meanCurve d)

/-- `frequency_domain_window_rejection` on an azimuthal object: per azimuth, max of the counts -/
def fdwraAz (p : FdwraParams α) (s : HvAz α) : Except String (Nat × HvAz α) :=
  let rec go : List (HvTrad α) → Except String (Nat × List (HvTrad α))
    | [] => .ok (0, [])
    | h :: hs =>
      match fdwraTrad p h with
      | .error e => .error e
      | .ok (k, h', _) =>
        match go hs with
        | .error e => .error e
        | .ok (k', hs') => .ok (if k' < k then k else k', h' :: hs')
  match go s.hvsrs with
  | .error e => .error e
  | .ok (k, hs) => .ok (k, { s with hvsrs := hs })

/-- `frequency_domain_window_rejection(azimuthal, ..., find_peaks_kwargs=…)`: every azimuth is brought to the requested range by its OWN comparison with
its stored range (an azimuth analysed on its own before may hold another range), then rejected independently (`fdwraAz p s = fdwraAzKw p false s`) -/
def fdwraAzKw (p : FdwraParams α) (kwEmpty : Bool) (s : HvAz α) : Except String (Nat × HvAz α) :=
  let rec go : List (HvTrad α) → Except String (Nat × List (HvTrad α))
    | [] => .ok (0, [])
    | h :: hs =>
      match fdwraTradKw p kwEmpty h with
      | .error e => .error e
      | .ok (k, h', _) =>
        match go hs with
        | .error e => .error e
        | .ok (k', hs') => .ok (if k' < k then k else k', h' :: hs')
  match go s.hvsrs with
  | .error e => .error e
  | .ok (k, hs) => .ok (k, { s with hvsrs := hs })

end
end HV
