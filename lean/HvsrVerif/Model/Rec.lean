import HvsrVerif.Model.Split
/-!
# M-REC: the three-component recording as a state machine, and a location model of its storage (C18)

Mirrors `hvsrpy/seismic_recording_3c.py`:
constructor (component copies, `degrees_from_north` normalised to `[0, 360)`, default meta merged
with the caller's), `trim`, `detrend`, `window`, `butterworth_filter`, `orient_sensor_to`, `split`,
`_to_dict/_from_dict` (`save/load` = `json.dump/json.load` of that dict; the JSON text layer is
trusted), `from_seismic_recording_3c`.

* Un-modelled sample transformers (Butterworth filter, Tukey taper, scipy's detrend) are an
  ARBITRARY function `f : List α → List α` carried by `Op.xform`; `Op.setSamples` is a direct
  assignment of the three amplitude arrays.
* python tuples and lists are both `Json.arr` (JSON cannot tell them apart).
* One time step per recording (the constructor accepts components whose `dt` differ by ≤ 1e-8 and
  `_to_dict` stores the north component's).
-/
namespace HV.RecM
open HV HV.Split
variable {α : Type}

/-! ## JSON values -/

inductive Json (α : Type) where
  | null
  | bool (b : Bool)
  | num (x : α)
  | str (s : String)
  | arr (l : List (Json α))
  | obj (kv : List (String × Json α))

abbrev Dict (α : Type) := List (String × Json α)

/-- `d[k] = v` on an insertion-ordered dict: replace in place, else append -/
def dictSet {γ : Type} (m : List (String × γ)) (k : String) (v : γ) : List (String × γ) :=
  match m with
  | [] => [(k, v)]
  | (k', v') :: rest => if k' = k then (k, v) :: rest else (k', v') :: dictSet rest k v

/-- `{**base, **upd}` -/
def dictMerge {γ : Type} (base upd : List (String × γ)) : List (String × γ) :=
  upd.foldl (fun m kv => dictSet m kv.1 kv.2) base

def dictGet {γ : Type} (m : List (String × γ)) (k : String) : Option γ :=
  match m with
  | [] => none
  | (k', v) :: rest => if k' = k then some v else dictGet rest k

def keys {γ : Type} (m : List (String × γ)) : List String := m.map Prod.fst

/-! ## the recording -/

structure Rec (α : Type) where
  ns : List α
  ew : List α
  vt : List α
  dt : α
  deg : α
  md : Dict α

def kFile := "file name(s)"
def kDeployed := "deployed degrees from north"
def kCurrent := "current degrees from north"
def vNoFile := "seismic recording was not created from file"

section
variable [Arith α]

/-- `d - 360*(d // 360)` -/
def degNorm (d : α) : α := d - (n# 360) * ofInt (Arith.floor (d / (n# 360)))

def defaultMeta (d : α) : Dict α :=
  [(kFile, .str vNoFile), (kDeployed, .num d), (kCurrent, .num d)]

/-- `SeismicRecording3C.__init__` (components are copied: see the location model below) -/
def mkRec (ns ew vt : List α) (dt deg : α) (md : Dict α) : Except String (Rec α) :=
  if ns.length ≠ ew.length ∨ ns.length ≠ vt.length then .error "value"
  else
    let d := degNorm deg
    .ok { ns := ns, ew := ew, vt := vt, dt := dt, deg := d, md := dictMerge (defaultMeta d) md }

/-- `from_seismic_recording_3c` -/
def copyRec (r : Rec α) : Except String (Rec α) := mkRec r.ns r.ew r.vt r.dt r.deg r.md

/-! ## persistence -/

def toDict (r : Rec α) : Json α :=
  .obj [("dt_in_seconds", .num r.dt),
        ("ns_amplitude", .arr (r.ns.map .num)),
        ("ew_amplitude", .arr (r.ew.map .num)),
        ("vt_amplitude", .arr (r.vt.map .num)),
        ("degrees_from_north", .num r.deg),
        ("meta", .obj r.md)]

def asNum : Json α → Option α
  | .num x => some x
  | _ => none

def asNumList : Json α → Option (List α)
  | .arr l => l.mapM asNum
  | _ => none

def asObj : Json α → Option (Dict α)
  | .obj kv => some kv
  | _ => none

/-- `_from_dict`: look the six entries up by key and call the constructor -/
def fromDict (j : Json α) : Except String (Rec α) :=
  match j with
  | .obj kv =>
    match (dictGet kv "dt_in_seconds").bind asNum, (dictGet kv "ns_amplitude").bind asNumList,
          (dictGet kv "ew_amplitude").bind asNumList, (dictGet kv "vt_amplitude").bind asNumList,
          (dictGet kv "degrees_from_north").bind asNum, (dictGet kv "meta").bind asObj with
    | some dt, some ns, some ew, some vt, some deg, some md => mkRec ns ew vt dt deg md
    | _, _, _, _, _, _ => .error "key"
  | _ => .error "type"

/-- `load(save(r))` -/
def saveLoad (r : Rec α) : Except String (Rec α) := fromDict (toDict r)
end

/-! ## operations -/

inductive Op (α : Type) where
  /-- `trim(start, end)` -/
  | trim (t0 t1 : α)
  /-- an in-place sample transformer that records `meta[key] = val`:
      `detrend(type)`, `window(type, width)`, `butterworth_filter(fcs)` -/
  | xform (key : String) (val : Json α) (f : List α → List α)
  /-- direct assignment of the three amplitude arrays -/
  | setSamples (ns ew vt : List α)
  /-- `orient_sensor_to(d)` -/
  | orient (d : α)
  /-- `split(L)`: `j = none` stays on the source (whose meta gained `"split"`),
      `j = some j` continues on window `j` -/
  | split (L : α) (j : Option Nat)
  /-- `from_seismic_recording_3c`: continue on the copy -/
  | copy
  /-- `save` then `load`: continue on the loaded recording -/
  | saveLoad

section
variable [Transc α]

def detrendOp (mode : String) (f : List α → List α) : Op α := .xform "detrend" (.str mode) f
def taperOp (width : α) (f : List α → List α) : Op α :=
  .xform "window_type_and_width" (.arr [.str "tukey", .num width]) f
def optNum : Option α → Json α
  | none => .null
  | some x => .num x
def filterOp (lo hi : Option α) (f : List α → List α) : Op α :=
  .xform "butterworth_filter" (.arr [optNum lo, optNum hi]) f

/-- `np.radians` -/
def radians (d : α) : α := d * (Transc.pi / (n# 180))

/-- one operation: the new state and the error raised, if any
(a refused `trim`/`split` has already written its meta entry) -/
def step (op : Op α) (r : Rec α) : Rec α × Option String :=
  match op with
  | .trim t0 t1 =>
    let r1 := { r with md := dictSet r.md "trim" (.arr [.num t0, .num t1]) }
    match trim r.ns r.dt t0 t1, trim r.ew r.dt t0 t1, trim r.vt r.dt t0 t1 with
    | .ok a, .ok b, .ok c => ({ r1 with ns := a, ew := b, vt := c }, none)
    | .error e, _, _ => (r1, some e)
    -- components have equal lengths, so these two cases are unreachable from a valid recording
    | _, .error e, _ => (r1, some e)
    | _, _, .error e => (r1, some e)
  | .xform key val f =>
    ({ r with md := dictSet r.md key val, ns := f r.ns, ew := f r.ew, vt := f r.vt }, none)
  | .setSamples a b c => ({ r with ns := a, ew := b, vt := c }, none)
  | .orient d =>
    let ang := radians (d - r.deg)
    let c := Transc.cos ang
    let s := Transc.sin ang
    let ew' := (r.ew.zip r.ns).map (fun p => p.1 * c - p.2 * s)
    let ns' := (r.ew.zip r.ns).map (fun p => p.1 * s + p.2 * c)
    let d' := degNorm d
    ({ r with ns := ns', ew := ew', deg := d', md := dictSet r.md kCurrent (.num d') }, none)
  | .split L j =>
    let r1 := { r with md := dictSet r.md "split" (.num L) }
    match split3 (intervalsCode L r.dt) ⟨r.ns, r.ew, r.vt⟩ with
    | .error e => (r1, some e)
    | .ok ws =>
      match j with
      | none => (r1, none)
      | some j =>
        match ws[j]? with
        | none => (r1, some "nowindow")
        | some w =>
          match mkRec w.ns w.ew w.vt r.dt r.deg r1.md with
          | .ok r2 => (r2, none)
          | .error e => (r1, some e)
  | .copy =>
    match copyRec r with
    | .ok r2 => (r2, none)
    | .error e => (r, some e)
  | .saveLoad =>
    match saveLoad r with
    | .ok r2 => (r2, none)
    | .error e => (r, some e)

/-- a history: every state visited (errors do not stop the caller from continuing) -/
def run (ops : List (Op α)) (r : Rec α) : Rec α := ops.foldl (fun r op => (step op r).1) r
end

/-! ## M-HEAP restricted to sample storage: who shares an amplitude buffer with whom

A store is a list of buffers; a location is an index. An ndarray is a view
`(base, off, len)` into a buffer. `np.array(x)` (the `TimeSeries` constructor) allocates a
fresh buffer; slicing makes a view of the same buffer. -/

structure Arr where
  base : Nat
  off : Nat
  len : Nat
  deriving Repr, DecidableEq

structure Heap (α : Type) where
  cells : List (List α)

namespace Heap
def read (h : Heap α) (a : Arr) : List α := ((h.cells.getD a.base []).drop a.off).take a.len

/-- `np.array(x, dtype=double)`: copy into a new buffer -/
def alloc (h : Heap α) (xs : List α) : Heap α × Arr :=
  (⟨h.cells ++ [xs]⟩, ⟨h.cells.length, 0, xs.length⟩)

/-- `a[i] = v` (in-place write through a view) -/
def write (h : Heap α) (a : Arr) (i : Nat) (v : α) : Heap α :=
  if i < a.len then ⟨h.cells.modify a.base (fun c => c.set (a.off + i) v)⟩ else h

/-- `a[lo:hi]`: a view -/
def view (a : Arr) (lo hi : Nat) : Arr :=
  ⟨a.base, a.off + min lo a.len, min hi a.len - min lo a.len⟩

def valid (h : Heap α) (a : Arr) : Prop := a.base < h.cells.length
end Heap

/-- `np.shares_memory` on views of the model: same buffer and overlapping index ranges -/
def sharesMemory (a b : Arr) : Bool :=
  a.base == b.base && decide (a.off < b.off + b.len) && decide (b.off < a.off + a.len)

/-- `TimeSeries(amplitude, dt)` / `TimeSeries.from_timeseries(ts)` -/
def tsCopy (h : Heap α) (a : Arr) : Heap α × Arr := h.alloc (h.read a)

/-- three component arrays of a recording -/
structure Rec3Ref where
  ns : Arr
  ew : Arr
  vt : Arr
  deriving Repr, DecidableEq

/-- `SeismicRecording3C(ns, ew, vt)`: `TimeSeries.from_timeseries` on each component -/
def ctor3 (h : Heap α) (r : Rec3Ref) : Heap α × Rec3Ref :=
  let (h1, a) := tsCopy h r.ns
  let (h2, b) := tsCopy h1 r.ew
  let (h3, c) := tsCopy h2 r.vt
  (h3, ⟨a, b, c⟩)

/-- `from_seismic_recording_3c`: `from_timeseries` on each component, then the constructor -/
def copy3 (h : Heap α) (r : Rec3Ref) : Heap α × Rec3Ref :=
  let (h1, t) := ctor3 h r
  ctor3 h1 t

/-- `TimeSeries.split`: `TimeSeries(self.amplitude[start:end], dt)` per window -/
def splitRefs (h : Heap α) (a : Arr) (spw : Nat) : Nat → Nat → Heap α × List Arr
  | 0, _ => (h, [])
  | m + 1, start =>
    let (h1, w) := tsCopy h (Heap.view a start (start + spw))
    let (h2, ws) := splitRefs h1 a spw m (start + spw - 1)
    (h2, w :: ws)

/-- `trim`: `self.amplitude = self.amplitude[s:e+1]` keeps a VIEW of the old buffer -/
def trimRef (a : Arr) (s e : Nat) : Arr := Heap.view a s (e + 1)

end HV.RecM
