import HvsrVerif.Model.HvState
/-!
# Frequency-domain window rejection, Cox et al. (2020) (C06)

Mirrors `window_rejection.py::_frequency_domain_window_rejection` (repaired: returns
`max_iterations` at the limit). Statistics that numpy reports as NaN are `none`; every
comparison with `none` is false, exactly as comparisons with NaN are.
-/
namespace HV
variable {α : Type} [Transc α]

structure FdwraParams (α : Type) where
  n : α
  maxIter : Nat
  dFn : Dist
  dMc : Dist
  range : Range α

/-- convergence limits of the algorithm: `d_diff < 0.01 and s_diff < 0.01` -/
def fdwraLimits : (Nat × Nat) × (Nat × Nat) := ((1, 2), (1, 2))

def optLt (a b : Option α) : Bool :=
  match a, b with
  | some x, some y => decide (x < y)
  | _, _ => false

def optIsZero (a : Option α) : Bool :=
  match a with
  | some x => eqA x (n# 0)
  | none => false

/-- the inner `for` loop: among the currently valid peaks keep those strictly inside the bounds -/
def fdwraKeep (lower upper : Option α) (s : HvTrad α) : List Bool :=
  (List.zip s.vPeak s.peaks).map (fun p =>
    if p.1 then optLt lower (p.2.map (·.1)) && optLt (p.2.map (·.1)) upper else false)

/-- masks after the inner loop: entries that were not valid keep their old value -/
def fdwraApply (lower upper : Option α) (s : HvTrad α) : HvTrad α :=
  let keep := fdwraKeep lower upper s
  { s with vWin := (List.zip (List.zip s.vPeak keep) s.vWin).map (fun p => if p.1.1 then p.1.2 else p.2),
           vPeak := keep }

structure FdwraTrace (α : Type) where
  meanBefore : Option α
  stdBefore : Option α
  mcBefore : α
  lower : Option α
  upper : Option α
  meanAfter : Option α
  stdAfter : Option α
  mcAfter : α

/-- one iteration of the loop body; `Bool` = the function returns after this iteration -/
def fdwraIter (p : FdwraParams α) (s : HvTrad α) : Except String (HvTrad α × Bool × FdwraTrace α) :=
  let meanB := s.meanFn p.dFn
  let stdB := s.stdFn p.dFn
  match s.meanCurvePeak p.dMc with
  | .error e => .error e
  | .ok (mcB, _) =>
    let diffB := meanB.map (fun m => absA (m - mcB))
    let lower := s.nthStdFn (-p.n) p.dFn
    let upper := s.nthStdFn p.n p.dFn
    let s' := fdwraApply lower upper s
    let meanA := s'.meanFn p.dFn
    let stdA := s'.stdFn p.dFn
    match s'.meanCurvePeak p.dMc with
    | .error e => .error e
    | .ok (mcA, _) =>
      let dA := meanA.map (fun m => absA (m - mcA))
      let tr : FdwraTrace α := ⟨meanB, stdB, mcB, lower, upper, meanA, stdA, mcA⟩
      if optIsZero diffB || optIsZero stdB || optIsZero stdA then .ok (s', true, tr)
      else
        let dDiff := match dA, diffB with
          | some a, some b => some (absA (a - b) / b)
          | _, _ => none
        let sDiff := match stdA, stdB with
          | some a, some b => some (absA (a - b))
          | _, _ => none
        let conv := optLt dDiff (some (lit fdwraLimits.1)) && optLt sDiff (some (lit fdwraLimits.2))
        .ok (s', conv, tr)

/-- `for c_iteration in range(1, max_iterations+1)`; `done` = iterations already performed -/
def fdwraLoop (p : FdwraParams α) : Nat → Nat → HvTrad α → Except String (Nat × HvTrad α × List (FdwraTrace α))
  | 0, done, s => .ok (done, s, [])
  | fuel+1, done, s =>
    match fdwraIter p s with
    | .error e => .error e
    | .ok (s', stop, tr) =>
      if stop then .ok (done + 1, s', [tr])
      else match fdwraLoop p fuel (done + 1) s' with
        | .error e => .error e
        | .ok (k, s'', trs) => .ok (k, s'', tr :: trs)

/-- `frequency_domain_window_rejection` on a traditional object -/
def fdwraTrad (p : FdwraParams α) (s : HvTrad α) : Except String (Nat × HvTrad α × List (FdwraTrace α)) :=
  fdwraLoop p p.maxIter 0 (updatePeaks p.range false s)

/-- the same call with `find_peaks_kwargs` given explicitly: `kwEmpty = true` is `find_peaks_kwargs={}`, for which the entry peak search is skipped when the
stored range already equals the requested one (`fdwraTrad p s = fdwraTradKw p false s` by definition) -/
def fdwraTradKw (p : FdwraParams α) (kwEmpty : Bool) (s : HvTrad α) : Except String (Nat × HvTrad α × List (FdwraTrace α)) :=
  fdwraLoop p p.maxIter 0 (updatePeaks p.range kwEmpty s)

end HV
