import HvsrVerif.Model.HvAz
/-!
# M-PLOT: what the plotting and summary functions draw, and what they do to the object (C20)

Mirrors `hvsrpy/postprocessing.py`:
`_plot_individual_hvsr_curves`, `_plot_peak_individual_hvsr_curve`, `_plot_mean_hvsr_curve`,
`_plot_nth_std_hvsr_curve`, `_plot_nth_std_frequency_range`, `_plot_peak_mean_hvsr_curve`,
`plot_single_panel_hvsr_curves`, `plot_seismic_recordings_3c`, `plot_pre_and_post_rejection`,
`summarize_hvsr_statistics`, `_azimuthal_mesh_from_hvsr`, `plot_azimuthal_contour_2d/3d`,
`plot_azimuthal_summary`, `summarize_spatial_statistics`.

matplotlib is modelled by its contract "an artist stores the data and the style it was given":
a drawn artist is a `LineSpec` (style class, x data, y data), an `Axes` is the list of the artists
in drawing order.  NaN (a window without a peak, an undefined statistic) is `none`.
Every plotting function is a state transformer `state → state × outcome`, so that "read-only"
is a statement about the first component, on the normal and on the exceptional exit.
-/
namespace HV
variable {α : Type}

/-- The artist classes of `DEFAULT_KWARGS` (colour + line style + marker + marker face/edge):
* `acceptedCurve` = `individual_valid_hvsr_curve` (#888888, solid, no marker),
* `rejectedCurve` = `individual_invalid_hvsr_curve` (lightpink, solid, no marker),
* `meanCurve` = `mean_hvsr_curve` (black, solid), `stdCurve` = `nth_std_mean_hvsr_curve` (black, dashed),
* `fnBand` = `nth_std_frequency_range_*` (filled polygon #ff8080),
* `peakMeanCurve` = `peak_mean_hvsr_curve[_azimuthal]` (marker D, lightgreen/black),
* `peakIndividualValid` = `peak_individual_valid_hvsr_curve` (marker o, white/black),
* `peakIndividualInvalid` = `peak_individual_invalid_hvsr_curve` (marker o, lightpink/white),
* `peakMeanByAzimuth` = `peak_mean_hvsr_curve_azimuthal_2d/3d` (marker s, lightgreen/black). -/
inductive StyleClass
  | acceptedCurve | rejectedCurve | meanCurve | stdCurve | fnBand | peakMeanCurve
  | peakIndividualValid | peakIndividualInvalid | peakMeanByAzimuth
  deriving DecidableEq, Repr

def StyleClass.name : StyleClass → String
  | .acceptedCurve => "acceptedCurve" | .rejectedCurve => "rejectedCurve"
  | .meanCurve => "meanCurve" | .stdCurve => "stdCurve" | .fnBand => "fnBand"
  | .peakMeanCurve => "peakMeanCurve" | .peakIndividualValid => "peakIndividualValid"
  | .peakIndividualInvalid => "peakIndividualInvalid" | .peakMeanByAzimuth => "peakMeanByAzimuth"

/-- one drawn artist -/
structure LineSpec (β : Type) where
  style : StyleClass
  x : List β
  y : List β
  deriving DecidableEq, Repr

/-- artists carry possibly-NaN data -/
abbrev Line (α : Type) := LineSpec (Option α)

/-- the keyword options of `plot_single_panel_hvsr_curves` -/
structure PanelOpts where
  dMc : Dist
  dFn : Dist
  validCurves : Bool
  invalidCurves : Bool
  meanCurve : Bool
  freqStd : Bool
  peakMean : Bool
  peakValid : Bool
  peakInvalid : Bool
  deriving DecidableEq, Repr

/-- the defaults of the signature -/
def PanelOpts.default (dMc dFn : Dist) : PanelOpts :=
  { dMc := dMc, dFn := dFn, validCurves := true, invalidCurves := false, meanCurve := true, freqStd := true,
    peakMean := true, peakValid := true, peakInvalid := false }

/-- `~mask` -/
def notMask (m : List Bool) : List Bool := m.map (fun b => !b)

/-- one line per row, all with the same style and abscissa -/
def curveLines (st : StyleClass) (freq : List α) (rows : List (List α)) : List (Line α) :=
  rows.map (fun r => { style := st, x := freq.map some, y := r.map some })

/-- `_plot_individual_hvsr_curves` for one `HvsrTraditional` (`amplitude[to_plot]`, row by row) -/
def individualLines (valid : Bool) (s : HvTrad α) : List (Line α) :=
  if valid then curveLines .acceptedCurve s.freq (maskSel s.rows s.vWin)
  else curveLines .rejectedCurve s.freq (maskSel s.rows (notMask s.vWin))

/-- `_plot_peak_individual_hvsr_curve` for one `HvsrTraditional`: one marker artist holding all selected peaks,
nothing when the selection is empty -/
def peakMarkerLines (valid : Bool) (s : HvTrad α) : List (Line α) :=
  let m := if valid then s.vPeak else notMask s.vPeak
  let fs := maskSel (s.peaks.map (fun p => p.map (·.1))) m
  let as := maskSel (s.peaks.map (fun p => p.map (·.2))) m
  if fs.isEmpty then []
  else [{ style := if valid then .peakIndividualValid else .peakIndividualInvalid, x := fs, y := as }]

/-- the statistics accessors the panel calls (each may raise) -/
structure PanelStats (α : Type) where
  freq : List α
  /-- `HvsrDiffuseField`: the ±std curves and the fn band are skipped -/
  diffuse : Bool
  meanCurve : Dist → Except String (List (Option α))
  stdCurve : Dist → Except String (List (Option α))
  nthFn : α → Dist → Except String (Option α)
  meanCurvePeak : Dist → Except String (α × α)

section
variable [Transc α]

/-- `_nth_std_factory` on arrays -/
def nthCurve (n : α) (d : Dist) (mean std : List (Option α)) : List (Option α) :=
  List.zipWith (fun m s => nthStdO n d m s) mean std

/-- `nth_std_curve(n, distribution)`: mean curve first, then the std curve -/
def PanelStats.nthStdCurve (st : PanelStats α) (n : α) (d : Dist) : Except String (List (Option α)) := do
  let mc ← st.meanCurve d
  let sc ← st.stdCurve d
  pure (nthCurve n d mc sc)

/-- the `plot_mean_curve` block: mean curve, +1 std curve, −1 std curve -/
def meanStdLines (o : PanelOpts) (st : PanelStats α) : Except String (List (Line α)) :=
  if o.meanCurve then do
    let mc ← st.meanCurve o.dMc
    let fx := st.freq.map some
    let l0 : Line α := { style := .meanCurve, x := fx, y := mc }
    if st.diffuse then pure [l0] else do
    let up ← st.nthStdCurve (n# 1) o.dMc
    let dn ← st.nthStdCurve (-(n# 1)) o.dMc
    pure [l0, { style := .stdCurve, x := fx, y := up }, { style := .stdCurve, x := fx, y := dn }]
  else pure []

/-- `_plot_nth_std_frequency_range`: `fill([f−, f−, f+, f+], [0, 100, 100, 0])` -/
def fnBandLines (o : PanelOpts) (st : PanelStats α) : Except String (List (Line α)) :=
  if o.freqStd && !st.diffuse then do
    let lo ← st.nthFn (-(n# 1)) o.dFn
    let hi ← st.nthFn (n# 1) o.dFn
    pure [{ style := .fnBand, x := [lo, lo, hi, hi], y := [some (n# 0), some (n# 100), some (n# 100), some (n# 0)] }]
  else pure []

/-- `_plot_peak_mean_hvsr_curve` -/
def peakMeanLine (d : Dist) (st : PanelStats α) : Except String (List (Line α)) := do
  let p ← st.meanCurvePeak d
  pure [{ style := .peakMeanCurve, x := [some p.1], y := [some p.2] }]

def peakMeanLines (o : PanelOpts) (st : PanelStats α) : Except String (List (Line α)) :=
  if o.peakMean then peakMeanLine o.dMc st else pure []

/-- the artists that show statistics (everything but the individual curves and individual peaks) -/
def statLines (o : PanelOpts) (st : PanelStats α) : Except String (List (Line α)) := do
  let l3 ← meanStdLines o st
  let l4 ← fnBandLines o st
  let l5 ← peakMeanLines o st
  pure (l3 ++ l4 ++ l5)

/-- `plot_single_panel_hvsr_curves` over the list of per-azimuth objects `hs` (one element for a traditional
object, none for a diffuse-field object) with the statistics `st`: artists in drawing order, or the exception. -/
def panelLinesOf (o : PanelOpts) (hs : List (HvTrad α)) (st : PanelStats α) : Except String (List (Line α)) := do
  let l1 := if o.validCurves then hs.flatMap (individualLines true) else []
  let l2 := if o.invalidCurves then hs.flatMap (individualLines false) else []
  let ls ← statLines o st
  let l6 := if o.peakValid then hs.flatMap (peakMarkerLines true) else []
  let l7 := if o.peakInvalid then hs.flatMap (peakMarkerLines false) else []
  pure (l1 ++ l2 ++ ls ++ l6 ++ l7)

/-- statistics of an `HvsrTraditional` as the panel sees them -/
def tradStats (s : HvTrad α) : PanelStats α :=
  { freq := s.freq, diffuse := false,
    meanCurve := fun d => .ok (s.meanCurve d),
    stdCurve := fun d => s.stdCurve d,
    nthFn := fun n d => .ok (s.nthStdFn n d),
    meanCurvePeak := fun d => s.meanCurvePeak d }

/-- `HvsrAzimuthal.frequency` -/
def HvAz.freq (s : HvAz α) : List α := match s.hvsrs with | [] => [] | h :: _ => h.freq

def HvAz.nthStdFn (n : α) (d : Dist) (s : HvAz α) : Except String (Option α) := do
  let m ← s.meanFn d
  let sd ← s.stdFn d
  pure (nthStdO n d m sd)

def HvAz.nthStdAmp (n : α) (d : Dist) (s : HvAz α) : Except String (Option α) := do
  let m ← s.meanAmp d
  let sd ← s.stdAmp d
  pure (nthStdO n d m sd)

def azStats (s : HvAz α) : PanelStats α :=
  { freq := s.freq, diffuse := false,
    meanCurve := fun d => s.meanCurve d,
    stdCurve := fun d => s.stdCurve d,
    nthFn := fun n d => s.nthStdFn n d,
    meanCurvePeak := fun d => s.meanCurvePeak d }

/-- `HvsrDiffuseField`: the mean curve is the curve; its peak is searched over the full range -/
def diffuseStats (freq amp : List α) : PanelStats α :=
  { freq := freq, diffuse := true,
    meanCurve := fun _ => .ok (amp.map some),
    stdCurve := fun _ => .error "diffuse",
    nthFn := fun _ _ => .error "diffuse",
    meanCurvePeak := fun _ => match findPeakBounded freq amp (none, none) with
      | none => .error "nopeak"
      | some p => .ok p }

/-- **`plot_single_panel_hvsr_curves(hvsr : HvsrTraditional, …)`**: the artists on the axes -/
def panelLines (o : PanelOpts) (s : HvTrad α) : Except String (List (Line α)) := panelLinesOf o [s] (tradStats s)
/-- … for an `HvsrAzimuthal` (individual curves and peaks azimuth by azimuth, Cheng statistics) -/
def panelLinesAz (o : PanelOpts) (s : HvAz α) : Except String (List (Line α)) := panelLinesOf o s.hvsrs (azStats s)
/-- … for an `HvsrDiffuseField` -/
def panelLinesDiffuse (o : PanelOpts) (freq amp : List α) : Except String (List (Line α)) :=
  panelLinesOf o [] (diffuseStats freq amp)

/-! ### plotting functions as state transformers -/

/-- `plot_single_panel_hvsr_curves`: does not assign to the object -/
def plotSinglePanel (o : PanelOpts) (s : HvTrad α) : HvTrad α × Except String (List (Line α)) := (s, panelLines o s)
def plotSinglePanelAz (o : PanelOpts) (s : HvAz α) : HvAz α × Except String (List (Line α)) := (s, panelLinesAz o s)

/-- options of the "Before Rejection" panel -/
def PanelOpts.pre (dMc dFn : Dist) : PanelOpts := PanelOpts.default dMc dFn
/-- options of the "After Rejection" panel -/
def PanelOpts.post (dMc dFn : Dist) : PanelOpts :=
  { PanelOpts.default dMc dFn with invalidCurves := true, peakInvalid := true }
end

/-! ### `plot_pre_and_post_rejection` as a state machine -/

/-- the local variables of `plot_pre_and_post_rejection` next to the object -/
structure PPFrame (α : Type) where
  obj : HvTrad α
  storeWin : List Bool
  storePeak : List Bool

/-- `store_… = np.array(hvsr.valid_…_boolean_mask)` -/
def ppSave (s : HvTrad α) : PPFrame α := { obj := s, storeWin := s.vWin, storePeak := s.vPeak }
/-- `hvsr.valid_…_boolean_mask = np.full_like(store_…, True)` -/
def ppSetAll (f : PPFrame α) : PPFrame α :=
  { f with obj := { f.obj with vWin := f.storeWin.map (fun _ => true), vPeak := f.storePeak.map (fun _ => true) } }
/-- `hvsr.valid_…_boolean_mask = store_…` -/
def ppRestore (f : PPFrame α) : PPFrame α :=
  { f with obj := { f.obj with vWin := f.storeWin, vPeak := f.storePeak } }

/-- how the function is left -/
inductive PPExit (β : Type)
  | normal (pre post : β)
  | raisedFirst (e : String)
  | raisedSecond (e : String)
  deriving Repr

/-- a panel is any state transformer with an outcome: it receives the object and may raise -/
abbrev Panel (α β : Type) := HvTrad α → HvTrad α × Except String β

/-- **Repaired code**: `save; set all true; try: panel₁ finally: restore; panel₂`.
The object on exit and the way the function is left. -/
def prePostRejectionWith {β : Type} (panel1 panel2 : Panel α β) (s : HvTrad α) : HvTrad α × PPExit β :=
  let f0 := ppSetAll (ppSave s)
  let (o1, r1) := panel1 f0.obj                       -- try:
  let f1 := ppRestore { f0 with obj := o1 }           -- finally:
  match r1 with
  | .error e => (f1.obj, .raisedFirst e)              -- exceptional exit, after the `finally`
  | .ok l1 =>
    let (o2, r2) := panel2 f1.obj
    match r2 with
    | .error e => (o2, .raisedSecond e)
    | .ok l2 => (o2, .normal l1 l2)

/-- **Pinned code (finding C20-a)**: no `finally`, the restore is skipped when the first panel raises. -/
def prePostRejectionPinnedWith {β : Type} (panel1 panel2 : Panel α β) (s : HvTrad α) : HvTrad α × PPExit β :=
  let f0 := ppSetAll (ppSave s)
  let (o1, r1) := panel1 f0.obj
  match r1 with
  | .error e => (o1, .raisedFirst e)
  | .ok l1 =>
    let f1 := ppRestore { f0 with obj := o1 }
    let (o2, r2) := panel2 f1.obj
    match r2 with
    | .error e => (o2, .raisedSecond e)
    | .ok l2 => (o2, .normal l1 l2)

section
variable [Transc α]

/-- the two HVSR panels of `plot_pre_and_post_rejection(srecords, hvsr, distribution_mc, distribution_fn)` -/
def plotPreAndPostRejection (dMc dFn : Dist) (s : HvTrad α) : HvTrad α × PPExit (List (Line α)) :=
  prePostRejectionWith (plotSinglePanel (PanelOpts.pre dMc dFn)) (plotSinglePanel (PanelOpts.post dMc dFn)) s

/-! ### `plot_seismic_recordings_3c` -/

/-- the part of a `SeismicRecording3C` the plot reads -/
structure PlotRec3 (α : Type) where
  ns : List α
  ew : List α
  vt : List α
  dt : α

/-- `np.max(np.abs(amplitude))` -/
def absMaxOf (l : List α) : α :=
  match l with
  | [] => n# 0
  | x :: xs => xs.foldl (fun a y => if a < absA y then absA y else a) (absA x)

def PlotRec3.comps (r : PlotRec3 α) : List (List α) := [r.ns, r.ew, r.vt]

/-- the normalisation loop: component-major, running maximum starting at 0 -/
def normFactor (recs : List (PlotRec3 α)) : α :=
  ([0, 1, 2] : List Nat).foldl (fun acc c =>
    recs.foldl (fun acc r =>
      let cm := absMaxOf (r.comps.getD c [])
      if acc < cm then cm else acc) acc) (n# 0)

/-- the lines of one component panel: records laid end to end; returns the lines in order -/
def compLines (factor : α) (c : Nat) : List (PlotRec3 α × Bool) → α → List (Line α)
  | [], _ => []
  | (r, valid) :: rest, start =>
    let amp := r.comps.getD c []
    let time := (List.range amp.length).map (fun k => (n# k) * r.dt + start)
    let line : Line α := { style := if valid then .acceptedCurve else .rejectedCurve,
                           x := time.map some, y := amp.map (fun a => some (a / factor)) }
    line :: compLines factor c rest (time.getLast?.getD start)

/-- `plot_seismic_recordings_3c(srecords, valid_window_boolean_mask, normalize)`: the artists of the three panels -/
def recordingLines (mask : Option (List Bool)) (recs : List (PlotRec3 α)) (normalize : Bool) :
    Except String (List (List (Line α))) :=
  let m := mask.getD (recs.map (fun _ => true))
  if m.length ≠ recs.length then .error "masklength"
  else
    let factor := if normalize then normFactor recs else n# 1
    .ok (([0, 1, 2] : List Nat).map (fun c => compLines factor c (List.zip recs m) (n# 0)))

/-! ### summary tables -/

/-- `1/x` on a possibly undefined value -/
def recipO (x : Option α) : Option α := x.map (fun v => (n# 1) / v)

/-- the frequency row and the period row of a summary table from a mean and a standard deviation:
columns = (mean | median, std, −1 std, +1 std).  Lognormal: the period row holds the reciprocal of the median,
the *same* log-standard deviation, and the reciprocals of the ±1 values.  Normal: the period row is NaN. -/
def statRows (d : Dist) (m s : Option α) : List (List (Option α)) :=
  let lo := nthStdO (-(n# 1)) d m s
  let hi := nthStdO (n# 1) d m s
  match d with
  | .lognormal => [[m, s, lo, hi], [recipO m, s, recipO lo, recipO hi]]
  | .normal => [[m, s, lo, hi], [none, none, none, none]]

/-- the amplitude row -/
def ampRow (d : Dist) (m s : Option α) : List (Option α) :=
  [m, s, nthStdO (-(n# 1)) d m s, nthStdO (n# 1) d m s]

/-- **`summarize_hvsr_statistics`**, the data of the frame for an `HvsrTraditional`:
row 0 = fn (Hz), row 1 = Tn (s), row 2 = An -/
def summaryRows (d : Dist) (s : HvTrad α) : List (List (Option α)) :=
  statRows d (s.meanFn d) (s.stdFn d) ++ [ampRow d (s.meanAmp d) (s.stdAmp d)]

/-- … for an `HvsrAzimuthal` (every accessor may raise `ZeroDivisionError`) -/
def summaryRowsAz (d : Dist) (s : HvAz α) : Except String (List (List (Option α))) := do
  let mf ← s.meanFn d
  let sf ← s.stdFn d
  let ma ← s.meanAmp d
  let sa ← s.stdAmp d
  pure (statRows d mf sf ++ [ampRow d ma sa])

/-- the frame is displayed only if the mean-curve peak (caption) exists -/
def summaryTable (dMc dFn : Dist) (s : HvTrad α) : Except String (List (List (Option α)) × (α × α)) := do
  let p ← s.meanCurvePeak dMc
  pure (summaryRows dFn s, p)

def summaryTableAz (dMc dFn : Dist) (s : HvAz α) : Except String (List (List (Option α)) × (α × α)) := do
  let rows ← summaryRowsAz dFn s
  let p ← s.meanCurvePeak dMc
  pure (rows, p)

/-- `summarize_hvsr_statistics` as a state transformer -/
def summarizeHvsrStatistics (dMc dFn : Dist) (s : HvTrad α) :
    HvTrad α × Except String (List (List (Option α)) × (α × α)) := (s, summaryTable dMc dFn s)

/-- `summarize_spatial_statistics(mean, stddev, distribution)`: two rows -/
def spatialRows (d : Dist) (mean std : α) : List (List (Option α)) := statRows d (some mean) (some std)

/-! ### azimuthal figures -/

/-- `_azimuthal_mesh_from_hvsr`: azimuths + [180], mean curve per azimuth with the first repeated at the end -/
def azMesh (d : Dist) (s : HvAz α) : List α × List (List (Option α)) :=
  let rows := s.meanCurveByAz d
  (s.azimuths ++ [n# 180], rows ++ rows.take 1)

/-- `mean_curve_peak_by_azimuth` -/
def HvAz.meanCurvePeakByAz (d : Dist) (s : HvAz α) : Except String (List (α × α)) :=
  s.hvsrs.mapM (fun h => h.meanCurvePeak d)

/-- `plot_azimuthal_contour_2d`: the mesh handed to `contourf` and the marker artist (peak frequency vs azimuth) -/
def contour2dLines (d : Dist) (peaks : Bool) (s : HvAz α) :
    Except String ((List α × List (List (Option α))) × List (Line α)) := do
  let mesh := azMesh d s
  -- colour-bar ticks: `np.max(mesh_amp)` is NaN when an azimuth has no accepted window (its mean curve is
  -- NaN); every comparison is then false and `np.arange(0, nan, 5)` raises ValueError
  if mesh.2.any (fun row => row.any Option.isNone) then throw "nanticks"
  if peaks then do
    let pk ← s.meanCurvePeakByAz d
    pure (mesh, [{ style := .peakMeanByAzimuth, x := pk.map (fun p => some p.1), y := s.azimuths.map some }])
  else pure (mesh, [])

/-- `plot_azimuthal_contour_3d`: the mesh handed to `plot_surface` (NaN rows are passed on) and the per-azimuth
peaks of the scatter artist, the first one repeated at 180 degrees -/
def contour3dData (d : Dist) (peaks : Bool) (s : HvAz α) :
    Except String ((List α × List (List (Option α))) × List (α × α)) := do
  let mesh := azMesh d s
  if peaks then do
    let pk ← s.meanCurvePeakByAz d
    pure (mesh, pk ++ pk.take 1)
  else pure (mesh, [])

/-- the keyword options of `plot_azimuthal_summary` on top of the panel options -/
structure AzSummaryOpts where
  panel : PanelOpts
  peakByAzimuth : Bool

/-- the 2-D panel (c) of `plot_azimuthal_summary`: the single-panel plot is called with
`plot_peak_mean_curve = plot_mean_curve`, and the peak of the mean curve is drawn (again) afterwards when
`plot_peak_mean_curve` is set. -/
def azSummaryPanelLines (o : AzSummaryOpts) (s : HvAz α) : Except String (List (Line α)) := do
  let l ← panelLinesAz { o.panel with peakMean := o.panel.meanCurve } s
  if o.panel.peakMean then do
    let extra ← peakMeanLine o.panel.dMc (azStats s)
    pure (l ++ extra)
  else pure l

/-- `plot_azimuthal_summary` as a state transformer: 3-D surface and 2-D contour first (both need the mesh and,
optionally, the per-azimuth peaks), then the panel -/
def plotAzimuthalSummary (o : AzSummaryOpts) (s : HvAz α) : HvAz α × Except String (List (Line α)) :=
  (s, do
    let _ ← contour3dData o.panel.dMc o.peakByAzimuth s
    let _ ← contour2dLines o.panel.dMc o.peakByAzimuth s
    azSummaryPanelLines o s)

end
end HV
