import HvsrVerif.Scalar
/-!
# Tukey taper (`TimeSeries.window("tukey", width)`): contract model of `scipy.signal.windows.tukey(M, alpha)` (sym=True)
-/
namespace HV
variable {α : Type} [Transc α]

/-- `hann(M, sym=True)`: `0.5 − 0.5 cos(2π n/(M−1))` -/
def hannA (M : Nat) : List α :=
  (List.range M).map (fun n => lit (5, 1) - lit (5, 1) * Transc.cos ((n# 2) * Transc.pi * (n# n) / (n# (M - 1))))

/-- `tukey(M, alpha)` -/
def tukey (M : Nat) (alpha : α) : List α :=
  if M ≤ 1 then List.replicate M (n# 1)
  else if alpha ≤ (n# 0) then List.replicate M (n# 1)
  else if (n# 1) ≤ alpha then hannA M
  else
    let width := (Arith.floor (alpha * (n# (M - 1)) / (n# 2))).toNat
    (List.range M).map (fun n =>
      if n ≤ width then
        lit (5, 1) * ((n# 1) + Transc.cos (Transc.pi * (-(n# 1) + (n# 2) * (n# n) / alpha / (n# (M - 1)))))
      else if n < M - width - 1 then n# 1
      else
        lit (5, 1) * ((n# 1) + Transc.cos (Transc.pi * (-((n# 2) / alpha) + (n# 1) + (n# 2) * (n# n) / alpha / (n# (M - 1))))))

/-- `TimeSeries.window`: samples times taper -/
def taper (width : α) (x : List α) : List α :=
  (List.zip x (tukey x.length width)).map (fun p => p.1 * p.2)

end HV
