import HvsrVerif.Scalar
/-!
# Time-domain window rejection (C13): STA/LTA and maximum-value

Mirrors `window_rejection.py::sta_lta_window_rejection` and `maximum_value_window_rejection`.
A window is a list of component series (in the order of the `components` argument).
The number of points of a duration is `int(seconds // dt)`: Python's float floor-division is the floor of the
*exact* quotient of the two doubles, hence `nptsExact` over `Rat`.
-/
namespace HV
variable {α : Type}

def nptsExact (seconds dt : Rat) : Int := (seconds / dt).floor

section
variable [Arith α]

def meanAbs (x : List α) : α := sumA (x.map absA) / (n# x.length)

/-- consecutive chunks of `k` samples -/
def chunks (k : Nat) : Nat → List α → List (List α)
  | 0, _ => []
  | m+1, x => x.take k :: chunks k m (x.drop k)

/-- `sta_values / lta` for one component; errors mirror the `IndexError`s (and `ZeroDivisionError` for `nsta = 0`) -/
def staLtaRatios (nsta nlta : Nat) (x : List α) : Except String (List α) :=
  if x.length < nsta then .error "index-sta"
  else if nsta = 0 then .error "zerodiv"
  else
    let nIn := x.length / nsta
    let short := x.take (nsta * nIn)
    if x.length < nlta then .error "index-lta"
    else
      let lta := meanAbs (short.take nlta)
      .ok ((chunks nsta nIn short).map (fun c => meanAbs c / lta))

def maxL' : List α → Option α
  | [] => none
  | x :: xs => some (xs.foldl maxA x)
def minL' : List α → Option α
  | [] => none
  | x :: xs => some (xs.foldl minA x)

/-- one component satisfies the criterion: not (max ratio > hi or min ratio < lo) -/
def ratiosOk (lo hi : α) (ratios : List α) : Bool :=
  match maxL' ratios, minL' ratios with
  | some mx, some mn => !(decide (hi < mx) || decide (mn < lo))
  | _, _ => true

/-- the `for component in components` loop with its `break` on the first failing component -/
def staLtaKeep (nsta nlta : Nat) (lo hi : α) : List (List α) → Except String Bool
  | [] => .ok true
  | c :: cs =>
    match staLtaRatios nsta nlta c with
    | .error e => .error e
    | .ok r => if ratiosOk lo hi r then staLtaKeep nsta nlta lo hi cs else .ok false

/-- keep-decision of every window, in order -/
def staLtaMask (nsta nlta : Nat) (lo hi : α) (wins : List (List (List α))) : Except String (List Bool) :=
  wins.mapM (staLtaKeep nsta nlta lo hi)

/-- largest absolute sample over the examined components of one window (starting from 0 as the code does) -/
def windowMaxStep (m : α) (c : List α) : α :=
  match maxL' (c.map absA) with
  | some cm => if m < cm then cm else m
  | none => m

def windowMax (w : List (List α)) : α := w.foldl windowMaxStep (n# 0)

/-- `maximum_value_window_rejection`: kept iff the (optionally normalised) maximum is below the threshold -/
def maxValueMask (thr : α) (normalized : Bool) (wins : List (List (List α))) : List Bool :=
  let ms := wins.map windowMax
  let ms' := if normalized then
      match maxL' (ms.map absA) with
      | some g => ms.map (fun m => m / g)
      | none => ms
    else ms
  ms'.map (fun m => decide (m < thr))

/-- the windows returned: the selected ones, same objects, original order -/
def applyMask {β : Type} (wins : List β) (mask : List Bool) : List β :=
  (List.zip wins mask).filterMap (fun p => if p.2 then some p.1 else none)
end

end HV
