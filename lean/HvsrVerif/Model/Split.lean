import HvsrVerif.Scalar
/-!
# Splitting, trimming, detrending and the preprocessing order (C10, C18)

Mirrors `hvsrpy/timeseries.py` (`TimeSeries.split`, `TimeSeries.trim`, `TimeSeries.detrend`),
`hvsrpy/seismic_recording_3c.py` (`SeismicRecording3C.split`) and
`hvsrpy/preprocessing.py` (`hvsr_preprocess`).

* `intervalsExact` is the SPEC (exact rational arithmetic on the nominal window length and
  sampling rate); `intervalsCode` is the code's floating-point recipe
  (`n = L/dt; if isclose(n, round n, rtol=1e-9, atol=0): n = round n; int(n)`), written
  once against `Arith` and executed at `Float` by the driver.
* `split` mirrors the loop of `TimeSeries.split` (`start_idx`, `end_idx = start_idx + spw`,
  `start_idx = end_idx - 1`). `n_windows = int(n_samples / k)` is a float division followed
  by truncation in the code; for `n_samples < 2^52` it equals the integer quotient used here.
* scipy's Butterworth filter is NOT modelled: `preprocess` takes `filter` as an arbitrary
  function parameter.
-/
namespace HV.Split
open HV
variable {α β : Type}

/-! ## number of sample intervals in a window -/

/-- SPEC: whole sample intervals in a window of `L` seconds at `fs` samples per second -/
def intervalsExact (L fs : Rat) : Nat := (L * fs).floor.toNat

section
variable [Arith α]

/-- `np.round` (half to even) as an integer -/
def roundHalfEven (x : α) : Int :=
  let f := Arith.floor x
  let r := x - ofInt f
  let half : α := lit (5, 1)
  if r < half then f else if half < r then f + 1 else if f % 2 = 0 then f else f + 1

/-- python `int(x)`: truncation toward zero -/
def truncInt (x : α) : Int :=
  if x < (n# 0) then -(Arith.floor (-x)) else Arith.floor x

/-- the code's recipe for `int(n_intervals)` in `TimeSeries.split` -/
def intervalsCode (L dt : α) : Int :=
  let n := L / dt
  let r : α := ofInt (roundHalfEven n)
  -- np.isclose(n, r, rtol=1e-9, atol=0)  :=  |n - r| <= 0 + 1e-9 * |r|
  let n' := if absA (n - r) ≤ lit (1, 9) * absA r then r else n
  truncInt n'
end

/-! ## split -/

/-- python slice `xs[a:b]` for `0 ≤ a ≤ b` -/
def slice (xs : List β) (a b : Nat) : List β := (xs.drop a).take (b - a)

/-- the `for _ in range(n_windows)` loop of `TimeSeries.split`; `spw = samples_per_window` -/
def splitLoop (spw : Nat) (xs : List β) : Nat → Nat → List (List β)
  | 0, _ => []
  | m + 1, start =>
    let stop := start + spw
    slice xs start stop :: splitLoop spw xs m (stop - 1)

/-- `n_windows = int(n_samples / (samples_per_window - 1))` -/
def nWindows (k n : Nat) : Nat := n / k

/-- `TimeSeries.split` for `int(n_intervals) = k ≥ 0` -/
def split (k : Nat) (xs : List β) : Except String (List (List β)) :=
  if k = 0 then .error "zerodiv"            -- n_samples / 0
  else if nWindows k xs.length < 1 then .error "value"
  else .ok (splitLoop (k + 1) xs (nWindows k xs.length) 0)

/-- `TimeSeries.split` including negative `int(n_intervals)` (negative window lengths):
`int(n / k) ≤ 0 < 1` raises `ValueError` -/
def splitInt (k : Int) (xs : List β) : Except String (List (List β)) :=
  match k with
  | Int.ofNat k => split k xs
  | Int.negSucc _ => .error "value"

/-- the closed form the theorems relate `split` to: window `j` is `xs[j·k : j·k+k+1]` -/
def window (k : Nat) (xs : List β) (j : Nat) : List β := slice xs (j * k) (j * k + k + 1)

/-- samples never covered by a window -/
def tailLen (k n : Nat) : Nat := n - (nWindows k n * k + 1)

/-! ## three components -/

structure Rec3 (β : Type) where
  ns : List β
  ew : List β
  vt : List β
  deriving Repr, DecidableEq

def Rec3.map (f : List β → List β) (r : Rec3 β) : Rec3 β := ⟨f r.ns, f r.ew, f r.vt⟩

def zip3 : List (List β) → List (List β) → List (List β) → List (Rec3 β)
  | a :: as, b :: bs, c :: cs => ⟨a, b, c⟩ :: zip3 as bs cs
  | _, _, _ => []

/-- `SeismicRecording3C.split`: each component is split on its own, then zipped -/
def split3 (k : Int) (r : Rec3 β) : Except String (List (Rec3 β)) := do
  let a ← splitInt k r.ns
  let b ← splitInt k r.ew
  let c ← splitInt k r.vt
  pure (zip3 a b c)

/-! ## trim -/
section
variable [Arith α]

/-- `np.arange(n) * dt` -/
def timeAt (dt : α) (i : Nat) : α := (n# i) * dt

/-- `np.argmin(np.absolute(current_time - t))`: first index of the minimum -/
def argminAbs (dt t : α) (n : Nat) : Nat :=
  (List.range n).foldl
    (fun best i => if absA (timeAt dt i - t) < absA (timeAt dt best - t) then i else best) 0

/-- `TimeSeries.trim`: the three refusals, then the nearest samples -/
def trimIdx (n : Nat) (dt t0 t1 : α) : Except String (Nat × Nat) :=
  if n = 0 then .error "index"                       -- current_time[-1] of an empty record
  else if t0 < (n# 0) then .error "index"            -- start before the record
  else if t1 ≤ t0 then .error "index"                -- start_time >= end_time
  else if timeAt dt (n - 1) < t1 then .error "index" -- end after the record
  else .ok (argminAbs dt t0 n, argminAbs dt t1 n)

/-- `self.amplitude[start_index:end_index+1]` -/
def trim (xs : List β) (dt t0 t1 : α) : Except String (List β) :=
  match trimIdx xs.length dt t0 t1 with
  | .ok (s, e) => .ok (slice xs s (e + 1))
  | .error e => .error e

/-! ## detrend (closed forms, to cross-check scipy.signal.detrend) -/

def meanA (xs : List α) : α := sumA xs / (n# xs.length)

/-- `detrend(type="constant")` -/
def detrendConst (xs : List α) : List α :=
  let m := meanA xs
  xs.map (· - m)

/-- `detrend(type="linear")`: subtract the least-squares line (closed form with abscissa `i`) -/
def detrendLinear (xs : List α) : List α :=
  let n := xs.length
  let ts : List α := (List.range n).map (fun i => n# i)
  let tb := meanA ts
  let xb := meanA xs
  let sxy := sumA ((ts.zip xs).map (fun p => (p.1 - tb) * (p.2 - xb)))
  let sxx := sumA (ts.map (fun t => (t - tb) * (t - tb)))
  if sxx ≤ (n# 0) then xs.map (· - xb)
  else
    let b := sxy / sxx
    (ts.zip xs).map (fun p => p.2 - (xb + b * (p.1 - tb)))
end

/-! ## preprocessing order -/

/-- `hvsr_preprocess` for one recording: orient → filter the whole record → split → detrend
each window. `k = none` stands for `window_length_in_seconds=None` (no split);
`orient`, `filter`, `detrend` are arbitrary (identity when the setting is `None`). -/
def preprocess (orient : Rec3 β → Rec3 β) (filter : List β → List β) (k : Option Int)
    (detrend : List β → List β) (r : Rec3 β) : Except String (List (Rec3 β)) := do
  let r1 := orient r
  let r2 := r1.map filter
  let ws ← match k with
    | none => pure [r2]
    | some k => split3 k r2
  pure (ws.map (Rec3.map detrend))

/-- `hvsr_preprocess` for a list of recordings: windows are concatenated in input order;
the first error aborts -/
def preprocessMany (orient : Rec3 β → Rec3 β) (filter : List β → List β) (k : Option Int)
    (detrend : List β → List β) : List (Rec3 β) → Except String (List (Rec3 β))
  | [] => pure []
  | r :: rs => do
    let w ← preprocess orient filter k detrend r
    let ws ← preprocessMany orient filter k detrend rs
    pure (w ++ ws)

/-- the operation trace `hvsr_preprocess` performs on one recording with `n` samples
(what the harness records by wrapping the real methods): `(op, n_samples of the receiver)` -/
inductive TraceOp | orient | filter | split | detrend
  deriving Repr, DecidableEq

def expectedTrace (doOrient : Bool) (k : Option Int) (doDetrend : Bool) (n : Nat) :
    Except String (List (TraceOp × Nat)) := do
  let pre := (if doOrient then [(TraceOp.orient, n)] else []) ++ [(TraceOp.filter, n)]
  match k with
  | none => pure (pre ++ (if doDetrend then [(TraceOp.detrend, n)] else []))
  | some k =>
    -- the split is attempted (and traced) before it can fail
    let ws ← splitInt k (List.range n)
    pure (pre ++ [(TraceOp.split, n)] ++
      (if doDetrend then ws.map (fun w => (TraceOp.detrend, w.length)) else []))

end HV.Split
