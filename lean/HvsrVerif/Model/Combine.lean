import HvsrVerif.Scalar
/-!
# Combination of the horizontal components (C01 C04): `COMBINE_HORIZONTAL_REGISTER`, `single_azimuth`
-/
namespace HV
variable {α : Type}

inductive Combine | arithmeticMean | squaredAverage | geometricMean | totalHorizontalEnergy | maximumHorizontalValue
  deriving DecidableEq, Repr

/-- `COMBINE_HORIZONTAL_REGISTER`: registered name → function (sorted by name) -/
def combineRegister : List (String × String) :=
  [("arithmetic_mean", "arithmetic_mean"), ("effective_amplitude_spectrum", "squared_average"),
   ("geometric_mean", "geometric_mean"), ("maximum_horizontal_value", "maximum_horizontal_value"),
   ("quadratic_mean", "squared_average"), ("root_mean_square", "squared_average"),
   ("squared_average", "squared_average"), ("total_horizontal_energy", "total_horizontal_energy"),
   ("vector_summation", "total_horizontal_energy")]

/-- `TRADITIONAL_PROCESSING_REGISTER`: name → processing function -/
def traditionalRegister : List (String × String) :=
  [("arithmetic_mean", "traditional_hvsr_processing"), ("directional_energy", "traditional_single_azimuth_hvsr_processing"),
   ("effective_amplitude_spectrum", "traditional_hvsr_processing"), ("geometric_mean", "traditional_hvsr_processing"),
   ("maximum_horizontal_value", "traditional_hvsr_processing"), ("quadratic_mean", "traditional_hvsr_processing"),
   ("root_mean_square", "traditional_hvsr_processing"), ("rotdpp", "traditional_rotdpp_hvsr_processing"),
   ("single_azimuth", "traditional_single_azimuth_hvsr_processing"), ("squared_average", "traditional_hvsr_processing"),
   ("total_horizontal_energy", "traditional_hvsr_processing"), ("vector_summation", "traditional_hvsr_processing")]

/-- `PROCESSING_METHODS` -/
def processingMethods : List (String × String) :=
  [("azimuthal", "azimuthal_hvsr_processing"), ("diffuse_field", "diffuse_field_hvsr_processing"), ("psd", "rpsd"),
   ("traditional", "traditional_hvsr_processing_base")]

def Combine.ofFunction (s : String) : Option Combine :=
  match s with
  | "arithmetic_mean" => some .arithmeticMean
  | "squared_average" => some .squaredAverage
  | "geometric_mean" => some .geometricMean
  | "total_horizontal_energy" => some .totalHorizontalEnergy
  | "maximum_horizontal_value" => some .maximumHorizontalValue
  | _ => none

def Combine.ofName (s : String) : Option Combine := (combineRegister.lookup s).bind Combine.ofFunction

section
variable [Transc α]

def Combine.apply (m : Combine) (ns ew : α) : α :=
  match m with
  | .arithmeticMean => (ns + ew) / (n# 2)
  | .squaredAverage => Transc.sqrt ((ns * ns + ew * ew) / (n# 2))
  | .geometricMean => Transc.sqrt (ns * ew)
  | .totalHorizontalEnergy => Transc.sqrt (ns * ns + ew * ew)
  | .maximumHorizontalValue => if ew < ns then ns else ew

/-- `np.radians` -/
def radians (deg : α) : α := deg * (Transc.pi / (n# 180))

/-- `single_azimuth(ns, ew, degrees_from_north)` on one sample -/
def singleAzimuth (deg : α) (ns ew : α) : α :=
  ns * Transc.cos (radians deg) + ew * Transc.sin (radians deg)

def singleAzimuthSeries (deg : α) (ns ew : List α) : List α :=
  (List.zip ns ew).map (fun p => singleAzimuth deg p.1 p.2)

/-- `SeismicRecording3C.orient_sensor_to(new)` on one sample pair `(ns, ew)` of a sensor currently at `cur`:
`ew' = ew·c − ns·s`, `ns' = ew·s + ns·c` with `c, s = cos, sin (new − cur)` -/
def orientSample (cur new : α) (p : α × α) : α × α :=
  let c := Transc.cos (radians (new - cur))
  let s := Transc.sin (radians (new - cur))
  (p.2 * s + p.1 * c, p.2 * c - p.1 * s)

/-- `degrees_from_north - 360*(degrees_from_north // 360)` -/
def degNorm (d : α) : α := d - (n# 360) * ofInt (Arith.floor (d / (n# 360)))
end

end HV
