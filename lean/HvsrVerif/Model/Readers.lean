/-!
# Readers (C07): token-level model of `hvsrpy/data_wrangler.py`

Decoding (obspy for miniSEED/SAC/GCF, Python `re`/`int`/`float` for the text formats) is external:
the model starts from the *tokens* a reader sees — channel names and sample lists of the decoded
traces, header fields and rows of the text files — and mirrors hvsrpy's own logic:

* `arrangeTraces`      `_arrange_traces` (suffix routing E/N/Z, first wins, anything else is an error)
* `checkNpts`          `_check_npts`
* `mkRec`              `SeismicRecording3C.__init__` (similarity check, orientation modulo 360)
* `readObspy`          `_read_mseed` / `_read_sac` / `_read_gcf` after decoding
* `safAssemble`        `_read_saf`   (V/N/E channel indices, the NORTH_ROT rule)
* `minisharkAssemble`  `_read_minishark` (÷ gain, ÷ conversion)
* `peerAssemble`       `_read_peer`  (vertical by UP/VER/..Z, numeric azimuth codes, trimming)
* `trial`/`dispatchOrder`  `read_single` (readers tried in dictionary order, PEER's error is the one raised)
* `broadcastArgs`      `read` (scalar → `itertools.repeat`, collection → `zip`, `[f]` → `f`)

Sample values are an arbitrary type `σ` (the readers only move them around), except for the MiniShark
scaling which is computed in exact rationals. Time steps and orientations are rationals (every double
is one). Import-free and computable.
-/
namespace HV.Rd
open HV
variable {σ τ φ κ δ ρ : Type}

/-- the Python exception classes that the readers can raise, as an enum shared with the harness -/
inductive RdErr
  | value     -- ValueError
  | index     -- IndexError
  | attr      -- AttributeError (`re.search(...)` returned `None`)
  | unbound   -- UnboundLocalError
  | zerodiv   -- ZeroDivisionError
  deriving DecidableEq, Repr

def RdErr.tag : RdErr → String
  | .value => "value" | .index => "index" | .attr => "attr" | .unbound => "unbound" | .zerodiv => "zerodiv"

/-- numeric constants of the orientation rules (tied to the source by `Bridge/C07.lean`) -/
structure ReaderConsts where
  safHorizCh : Nat := 1       -- `if n_ch == 1`
  safHorizChE : Nat := 1      -- `elif e_ch == 1`
  safEastOffset : Nat := 90   -- `north_rot + 90.`
  peerHalfTurn : Nat := 180   -- `component_keys_abs > 180`
  peerFullTurn : Nat := 360   -- `-= 360`
  peerMod : Nat := 360        -- `d - 360*(d // 360)` in `_read_peer`
  peerModDiv : Nat := 360
  recMod : Nat := 360         -- `d - 360*(d // 360)` in `SeismicRecording3C.__init__`
  recModDiv : Nat := 360
  deriving DecidableEq, Repr

def readerConsts : ReaderConsts := {}

def ReaderConsts.toList (c : ReaderConsts) : List (String × Nat) :=
  [("safHorizCh", c.safHorizCh), ("safHorizChE", c.safHorizChE), ("safEastOffset", c.safEastOffset),
   ("peerHalfTurn", c.peerHalfTurn), ("peerFullTurn", c.peerFullTurn), ("peerMod", c.peerMod),
   ("peerModDiv", c.peerModDiv), ("recMod", c.recMod), ("recModDiv", c.recModDiv)]

/-- `re.search(...)` returned `None` followed by `.groups()` -/
def orAttr {β : Type} : Option β → Except RdErr β
  | some b => .ok b
  | none => .error .attr

/-! ## strings -/
def lastChar (s : String) : Option Char := s.toList.getLast?
/-- Python `s.endswith(c)` for a one-character `c` -/
def endsWithC (s : String) (c : Char) : Bool := lastChar s == some c

/-! ## time series and recordings -/
/-- `TimeSeries`: samples and time step -/
structure Comp (σ : Type) where
  samples : List σ
  dt : Rat
  deriving Repr

/-- `SeismicRecording3C` as far as the readers fill it -/
structure Rec3 (σ : Type) where
  ns : Comp σ
  ew : Comp σ
  vt : Comp σ
  deg : Rat
  deriving Repr

def ratAbs (x : Rat) : Rat := if x < 0 then -x else x

/-- `TimeSeries.is_similar`: time steps within 1e-8 and equal sample counts -/
def similar (a b : Comp σ) : Bool :=
  !(decide ((1 : Rat) / 100000000 < ratAbs (b.dt - a.dt))) && (b.samples.length == a.samples.length)

/-- `float(d - 360*(d // 360))` -/
def degNorm (d : Rat) : Rat := d - (readerConsts.recMod : Rat) * ((d / (readerConsts.recModDiv : Rat)).floor : Int)

/-- `SeismicRecording3C(ns, ew, vt, degrees_from_north)` -/
def mkRec (ns ew vt : Comp σ) (deg : Rat) : Except RdErr (Rec3 σ) :=
  if similar ns ns && similar ns ew && similar ns vt then
    .ok { ns := ns, ew := ew, vt := vt, deg := degNorm deg }
  else .error .value

/-! ## `_arrange_traces` -/
structure ArrSt (τ : Type) where
  ns : Option τ := none
  ew : Option τ := none
  vt : Option τ := none

/-- one pass of the loop body: the `if/elif/elif/else` chain -/
def arrangeStep (st : ArrSt τ) (tr : String × τ) : Except RdErr (ArrSt τ) :=
  if endsWithC tr.1 'E' && st.ew.isNone then .ok { st with ew := some tr.2 }
  else if endsWithC tr.1 'N' && st.ns.isNone then .ok { st with ns := some tr.2 }
  else if endsWithC tr.1 'Z' && st.vt.isNone then .ok { st with vt := some tr.2 }
  else .error .value

def arrangeLoop : List (String × τ) → ArrSt τ → Except RdErr (ArrSt τ)
  | [], st => .ok st
  | tr :: rest, st =>
    match arrangeStep st tr with
    | .ok st' => arrangeLoop rest st'
    | .error e => .error e

/-- `_arrange_traces(traces)` → `(ns, ew, vt)`; a name still unbound at `return` is Python's `UnboundLocalError` -/
def arrangeTraces (traces : List (String × τ)) : Except RdErr (τ × τ × τ) :=
  match arrangeLoop traces {} with
  | .error e => .error e
  | .ok st =>
    match st.ns, st.ew, st.vt with
    | some n, some e, some z => .ok (n, e, z)
    | _, _, _ => .error .unbound

/-- `_check_npts(npts_header, npts_found)` -/
def checkNpts (hdr found : Nat) : Except RdErr Unit :=
  if hdr ≠ found then .error .value else .ok ()

/-- the obspy based readers after decoding: exactly three traces, arranged by suffix, default orientation 0 -/
def readObspy (traces : List (String × Comp σ)) (deg : Option Rat) : Except RdErr (Rec3 σ) :=
  if traces.length ≠ 3 then .error .value else
  match arrangeTraces traces with
  | .error e => .error e
  | .ok (ns, ew, vt) => mkRec ns ew vt (deg.getD 0)

/-! ## text formats: the row loop shared by SAF and MiniShark

`data = np.empty((npts_header, 3))`; row `idx` is written by index, so a row beyond the header count is an
`IndexError`; a channel index ≥ 3 (`channels[v_ch]`) as well. -/
def rowGet (row : σ × σ × σ) : Nat → Option σ
  | 0 => some row.1
  | 1 => some row.2.1
  | 2 => some row.2.2
  | _ => none

/-- returns the three columns `(data[:,0], data[:,1], data[:,2])` and the number of rows found -/
def rowLoop (npts c0 c1 c2 : Nat) : List (σ × σ × σ) → Nat → Except RdErr (List σ × List σ × List σ × Nat)
  | [], idx => .ok ([], [], [], idx)
  | row :: rest, idx =>
    match rowGet row c0, rowGet row c1, rowGet row c2 with
    | some a, some b, some c =>
      if idx < npts then
        match rowLoop npts c0 c1 c2 rest (idx + 1) with
        | .ok (as, bs, cs, n) => .ok (a :: as, b :: bs, c :: cs, n)
        | .error e => .error e
      else .error .index
    | _, _, _ => .error .index

/-! ## SAF -/
structure SafHeader where
  version : Bool            -- "SESAME ASCII data format (saf) v. N" present
  ndat : Option Nat         -- NDAT
  fs : Option Nat           -- SAMP_FREQ
  vCh : Option Nat          -- k of the first `CHk_ID = V`
  nCh : Option Nat
  eCh : Option Nat
  northRot : Option Nat     -- NORTH_ROT
  deriving Repr

/-- the orientation rule of `_read_saf` -/
def safDegrees (deg : Option Rat) (northRot : Option Nat) (nCh eCh : Nat) : Except RdErr Rat :=
  match deg with
  | some d => .ok d
  | none =>
    match northRot with
    | none => .ok 0                      -- keyword missing: warning, zero assumed
    | some r =>
      if nCh = readerConsts.safHorizCh then .ok (r : Rat)
      else if eCh = readerConsts.safHorizChE then .ok ((r : Rat) + (readerConsts.safEastOffset : Rat))
      else .error .value

def safAssemble (h : SafHeader) (deg : Option Rat) (rows : List (σ × σ × σ)) : Except RdErr (Rec3 σ) :=
  if !h.version then .error .attr else          -- `saf_version_exec.search(text).groups()`
  match h.ndat with
  | none => .error .attr
  | some npts =>
  match h.fs with
  | none => .error .attr
  | some fs =>
  if fs = 0 then .error .zerodiv else           -- `dt = 1/float(...)`
  match h.vCh with
  | none => .error .attr
  | some v =>
  match h.nCh with
  | none => .error .attr
  | some n =>
  match h.eCh with
  | none => .error .attr
  | some e =>
  match safDegrees deg h.northRot n e with
  | .error err => .error err
  | .ok d =>
  match rowLoop npts v n e rows 0 with          -- data[idx, 0] = channels[v_ch], [idx, 1] = channels[n_ch], [idx, 2] = channels[e_ch]
  | .error err => .error err
  | .ok (vt, ns, ew, found) =>                  -- `vt, ns, ew = data.T`
  match checkNpts npts found with
  | .error err => .error err
  | .ok _ =>
    let dt : Rat := 1 / (fs : Rat)
    mkRec ⟨ns, dt⟩ ⟨ew, dt⟩ ⟨vt, dt⟩ d

/-! ## MiniShark -/
structure MsharkHeader where
  ndat : Option Nat
  fs : Option Nat
  conv : Option Nat
  gain : Option Nat
  deriving Repr

/-- `data /= gain; data /= conversion` -/
def msharkScale (gain conv : Nat) (x : Int) : Rat := (x : Rat) / (gain : Rat) / (conv : Rat)

def minisharkAssemble (h : MsharkHeader) (deg : Option Rat) (rows : List (Int × Int × Int)) :
    Except RdErr (Rec3 Rat) :=
  match h.ndat with
  | none => .error .attr
  | some npts =>
  match h.fs with
  | none => .error .attr
  | some fs =>
  if fs = 0 then .error .zerodiv else
  match h.conv with
  | none => .error .attr
  | some conv =>
  match h.gain with
  | none => .error .attr
  | some gain =>
  match rowLoop npts 0 1 2 rows 0 with          -- `vt, ns, ew = group.groups()`
  | .error err => .error err
  | .ok (vt, ns, ew, found) =>
  match checkNpts npts found with
  | .error err => .error err
  | .ok _ =>
    let dt : Rat := 1 / (fs : Rat)
    let sc := msharkScale gain conv
    mkRec ⟨ns.map sc, dt⟩ ⟨ew.map sc, dt⟩ ⟨vt.map sc, dt⟩ (deg.getD 0)

/-! ## PEER -/
structure PeerFile (σ : Type) where
  key : Option String       -- direction code found by `peer_direction` (`none`: no match)
  npts : Option Nat         -- NPTS=
  dt : Option Rat           -- DT=
  samples : List σ          -- every match of `peer_sample`
  deriving Repr

/-- one file: header fields, the sample loop (`amplitude[idx] = sample`), the count check -/
def peerFile (f : PeerFile σ) : Except RdErr (String × Comp σ) :=
  match f.key with
  | none => .error .attr
  | some key =>
  match f.npts with
  | none => .error .attr
  | some npts =>
  match f.dt with
  | none => .error .attr
  | some dt =>
  if npts < f.samples.length then .error .index else
  match checkNpts npts f.samples.length with
  | .error err => .error err
  | .ok _ => .ok (key, ⟨f.samples, dt⟩)

def peerFiles : List (PeerFile σ) → Except RdErr (List (String × Comp σ))
  | [] => .ok []
  | f :: rest =>
    match peerFile f with
    | .error e => .error e
    | .ok x =>
      match peerFiles rest with
      | .error e => .error e
      | .ok xs => .ok (x :: xs)

/-- `list.index(x)` -/
def indexOfStr (keys : List String) (x : String) : Option Nat :=
  let i := keys.findIdx (· == x)
  if i < keys.length then some i else none

/-- the `for vt_id, _key in enumerate(...)` search: last character, lower-cased, is `z` -/
def indexOfZ (keys : List String) : Option Nat :=
  let i := keys.findIdx (fun k => (lastChar k).map Char.toLower == some 'z')
  if i < keys.length then some i else none

/-- `(vt_id, orientation_is_numeric)` or the "not recognized" error -/
def peerVertical (keys : List String) : Except RdErr (Nat × Bool) :=
  match indexOfStr keys "UP" with
  | some i => .ok (i, true)
  | none =>
    match indexOfStr keys "VER" with
    | some i => .ok (i, true)
    | none =>
      match indexOfZ keys with
      | some i => .ok (i, false)
      | none => .error .value

/-- value of a decimal digit -/
def digitVal (c : Char) : Option Nat :=
  if '0' ≤ c ∧ c ≤ '9' then some (c.toNat - '0'.toNat) else none

/-- `int(s)` for the strings the direction expression can deliver: a non-empty run of decimal digits (leading zeros allowed,
`"090"` is 90); anything else (`"UP"`, `"HNE"`) is Python's `ValueError` -/
def parseNat (s : String) : Option Nat :=
  match s.toList with
  | [] => none
  | cs => cs.foldl (fun acc c => match acc, digitVal c with
      | some a, some d => some (10 * a + d)
      | _, _ => none) (some 0)

/-- `np.array(component_keys, dtype=int)` -/
def keysToInt : List String → Except RdErr (List Int)
  | [] => .ok []
  | k :: rest =>
    match parseNat k, keysToInt rest with
    | some i, .ok is => .ok ((i : Int) :: is)
    | _, _ => .error .value

/-- `component_keys_rel[component_keys_abs > 180] -= 360` -/
def relAz (a : Int) : Int := if a > (readerConsts.peerHalfTurn : Int) then a - (readerConsts.peerFullTurn : Int) else a

/-- `np.argmin` over naturals as `(index, value)`; ties: first occurrence -/
def rdArgmin : List Nat → Option (Nat × Nat)
  | [] => none
  | x :: xs =>
    match rdArgmin xs with
    | none => some (0, x)
    | some (j, v) => if v < x then some (j + 1, v) else some (0, x)

/-- `np.argmax` over naturals as `(index, value)`; ties: first occurrence -/
def rdArgmax : List Nat → Option (Nat × Nat)
  | [] => none
  | x :: xs =>
    match rdArgmax xs with
    | none => some (0, x)
    | some (j, v) => if x < v then some (j + 1, v) else some (0, x)

/-- the letter-code branch: `(ns_id, ns, ew)`, later keys overwrite earlier ones -/
def peerLetters : List (String × Comp σ) → Nat → Option (Nat × Comp σ) → Option (Comp σ) →
    Except RdErr (Option (Nat × Comp σ) × Option (Comp σ))
  | [], _, ns, ew => .ok (ns, ew)
  | (k, c) :: rest, i, ns, ew =>
    if lastChar k == some 'N' then peerLetters rest (i + 1) (some (i, c)) ew
    else if lastChar k == some 'E' then peerLetters rest (i + 1) ns (some c)
    else .error .value

def trimTo (n : Nat) (c : Comp σ) : Comp σ := { c with samples := c.samples.take n }

/-- result of the routing step, before trimming: `(ns, ew, vt, orientation from the file)` -/
def peerRoute (comps : List (String × Comp σ)) : Except RdErr (Comp σ × Comp σ × Comp σ × Int) :=
  match peerVertical (comps.map (·.1)) with
  | .error e => .error e
  | .ok (vtId, numeric) =>
    match comps[vtId]? with
    | none => .error .index
    | some (_, vt) =>
      let hs := comps.eraseIdx vtId
      if numeric then
        match keysToInt (hs.map (·.1)) with
        | .error e => .error e
        | .ok az =>
          let dist := az.map (fun a => (relAz a).natAbs)
          match rdArgmin dist, rdArgmax dist with
          | some (i, _), some (j, _) =>
            match hs[i]?, hs[j]?, az[i]? with
            | some (_, ns), some (_, ew), some a => .ok (ns, ew, vt, a)
            | _, _, _ => .error .index
          | _, _ => .error .value          -- argmin of an empty sequence
      else
        match peerLetters hs 0 none none with
        | .error e => .error e
        | .ok (some (_, ns), some ew) => .ok (ns, ew, vt, 0)
        | .ok _ => .error .unbound

def peerAssemble (files : List (PeerFile σ)) (deg : Option Rat) : Except RdErr (Rec3 σ) :=
  match peerFiles files with
  | .error e => .error e
  | .ok comps =>
    -- all time steps equal to the first one
    match comps with
    | [] => .error .value                -- `component_keys.index("UP")` ... of nothing: not recognised
    | (_, c0) :: _ =>
      if comps.any (fun kc => decide (kc.2.dt ≠ c0.dt)) then .error .value else
      match peerRoute comps with
      | .error e => .error e
      | .ok (ns, ew, vt, a) =>
        let d : Rat := match deg with
          | some d => d
          | none => ((a - (readerConsts.peerMod : Int) * (a / (readerConsts.peerModDiv : Int)) : Int) : Rat)
        let n := min (min ns.samples.length ew.samples.length) vt.samples.length
        mkRec (trimTo n ns) (trimTo n ew) (trimTo n vt) d

/-! ## `read_single`: readers tried in dictionary order -/
/-- `READ_FUNCTION_DICT` in insertion order -/
def dispatchTable : List (String × String) :=
  [("mseed", "_read_mseed"), ("saf", "_read_saf"), ("minishark", "_read_minishark"),
   ("sac", "_read_sac"), ("gcf", "_read_gcf"), ("peer", "_read_peer")]
def dispatchOrder : List String := dispatchTable.map (·.1)
/-- the reader whose exception `read_single` re-raises -/
def reraiseName : String := "peer"

/-- `for ftype, read_function in READ_FUNCTION_DICT.items(): try ... except: if ftype == "peer": raise` -/
def trial : List (String × Except RdErr ρ) → Except RdErr ρ
  | [] => .error .value                  -- "File format not recognized"
  | (_, .ok r) :: _ => .ok r
  | (name, .error e) :: rest => if name == reraiseName then .error e else trial rest

/-- outcome of `read_single` given the outcome of every reader, in `dispatchOrder` -/
def readSingle (results : List (Except RdErr ρ)) : Except RdErr ρ :=
  trial (dispatchOrder.zip results)

/-! ## `read`: argument broadcasting -/
/-- an optional argument of `read`: one value for all recordings, or a collection -/
inductive Arg (α : Type)
  | scalar (a : α)          -- `itertools.repeat(a)`
  | many (l : List α)

def Arg.head? {α : Type} : Arg α → Option α
  | .scalar a => some a
  | .many l => l.head?
def Arg.tail {α : Type} : Arg α → Arg α
  | .scalar a => .scalar a
  | .many l => .many l.tail
def Arg.get? {α : Type} : Arg α → Nat → Option α
  | .scalar a, _ => some a
  | .many l, i => l[i]?

/-- an entry of `fnames`: one name, or a list of names -/
inductive FArg (φ : Type)
  | one (f : φ)
  | many (l : List φ)
  deriving Repr, DecidableEq

/-- "if entry is a list with only a single entry, remove the list" -/
def unwrapSingle : FArg φ → FArg φ
  | .many [f] => .one f
  | x => x

/-- `zip(fnames, read_kwargs_iter, degrees_from_north_iter)` followed by the unwrapping:
the arguments `read_single` is called with, in order -/
def broadcastArgs : List (FArg φ) → Arg κ → Arg δ → List (FArg φ × κ × δ)
  | [], _, _ => []
  | f :: fs, kw, dg =>
    match kw.head?, dg.head? with
    | some k, some d => (unwrapSingle f, k, d) :: broadcastArgs fs kw.tail dg.tail
    | _, _ => []

/-! ## the text-format regular expressions (documentation of the lexer the token level rests on)

`(name, source, flags)` of `hvsrpy/regex.py`; `Bridge/C07.lean` proves they are the strings in the source tree.
Note `[\r\n?|\n]` is a character class (one of CR, LF, `?`, `|`), and files are opened in text mode, so CRLF reaches
the expressions only for in-memory text. -/
def regexSources : List (String × String × String) :=
  [("saf_npts", "NDAT = (\\d+)[\\r\\n?|\\n]", ""), ("saf_fs", "SAMP_FREQ = (\\d+)[\\r\\n?|\\n]", ""),
   ("saf_sample", "-?\\d+", ""), ("saf_row", "^(-?\\d+)\\s(-?\\d+)\\s(-?\\d+)[\\r\\n?|\\n]", "re.MULTILINE"),
   ("saf_v_ch", "CH(\\d)_ID = V", ""), ("saf_n_ch", "CH(\\d)_ID = N", ""), ("saf_e_ch", "CH(\\d)_ID = E", ""),
   ("saf_north_rot", "NORTH_ROT = (\\d+)", ""), ("saf_version", "SESAME ASCII data format \\(saf\\) v. (\\d)", ""),
   ("mshark_npts", "#Sample number:\\t(\\d+)[\\r\\n?|\\n]", ""), ("mshark_fs", "#Sample rate \\(sps\\):\\t(\\d+)[\\r\\n?|\\n]", ""),
   ("mshark_gain", "#Gain:\\t(\\d+)[\\r\\n?|\\n]", ""), ("mshark_conversion", "#Conversion factor:\\t(\\d+)[\\r\\n?|\\n]", ""),
   ("mshark_sample", "-?\\d+", ""), ("mshark_row", "(-?\\d+)\\t(-?\\d+)\\t(-?\\d+)[\\r\\n?|\\n]", ""),
   ("peer_direction", ", (UP|VER|\\d|\\d\\d|\\d\\d\\d|[FGDCESHB][HLGMN][ENZ])[\\r\\n?|\\n]", ""),
   ("peer_npts", "NPTS=\\s*(\\d+),", ""), ("peer_dt", "DT=\\s*(\\d*\\.\\d+)\\s", ""),
   ("peer_sample", "(-?\\d*\\.\\d+[eE][+-]?\\d*)", "")]

end HV.Rd
