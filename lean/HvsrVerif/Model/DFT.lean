import HvsrVerif.Scalar
/-!
# M-DFT: definitional discrete Fourier transform of a real series, bins `0 … n/2`
(`numpy.fft.rfft(x, n)`: the series is cropped/zero-padded to `n` samples; numpy is *assumed* to compute this)
-/
namespace HV
variable {α : Type} [Transc α]

/-- angle `2π (j·k mod n)/n` (reduced before multiplication for accuracy; same value of sin/cos) -/
def dftAngle (n j k : Nat) : α := (n# 2) * Transc.pi * (n# ((j * k) % n)) / (n# n)

def dftRe (x : List α) (n k : Nat) : α :=
  sumA ((List.zip (List.range x.length) x).map (fun p => p.2 * Transc.cos (dftAngle n p.1 k)))
def dftIm (x : List α) (n k : Nat) : α :=
  -(sumA ((List.zip (List.range x.length) x).map (fun p => p.2 * Transc.sin (dftAngle n p.1 k))))

/-- `rfft(x, n)` as (re, im) pairs -/
def rfft (x : List α) (n : Nat) : List (α × α) :=
  let xs := x.take n
  (List.range (n / 2 + 1)).map (fun k => (dftRe xs n k, dftIm xs n k))

/-- `np.abs(rfft(x, n))` -/
def ampSpec (x : List α) (n : Nat) : List α :=
  (rfft x n).map (fun c => Transc.sqrt (c.1 * c.1 + c.2 * c.2))

/-- `|rfft(x, n)|²` (`np.real(np.conjugate(fft) * fft)`) -/
def powSpec (x : List α) (n : Nat) : List α :=
  (rfft x n).map (fun c => c.1 * c.1 + c.2 * c.2)

/-- `np.fft.rfftfreq(n, dt)`: `k / (n·dt)` -/
def rfftfreq (n : Nat) (dt : α) : List α :=
  (List.range (n / 2 + 1)).map (fun k => (n# k) / ((n# n) * dt))

end HV
