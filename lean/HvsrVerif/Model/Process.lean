import HvsrVerif.Model.Taper
import HvsrVerif.Model.DFT
import HvsrVerif.Model.Combine
import HvsrVerif.Model.Smoothing
import HvsrVerif.Model.Rows
/-!
# `process()`: the HVSR / PSD processing chains (C01 C03 C04 C09 C17)

Mirrors `hvsrpy/processing.py`: taper → |rfft| (zero-padded to `n`) → combine → smooth → divide.
-/
namespace HV
variable {α : Type}

/-- `settings.fft_settings`: `None`, `{"n": None}` or `{"n": k}` -/
inductive FftState | unset | nNone | n (k : Nat)
  deriving DecidableEq, Repr

/-- `nextpow2`'s loop with fuel -/
def nextpow2Aux : Nat → Nat → Nat → Nat
  | 0, p, _ => p
  | fuel+1, p, n => if n < p then p else nextpow2Aux fuel (2 * p) n

/-- `nextpow2(n, minimum_power_of_two=2**15)`: `n + 1` doublings always suffice -/
def nextpow2 (n : Nat) (min : Nat := 2 ^ 15) : Nat := nextpow2Aux (n + 1) min n

/-- `prepare_fft_settings`: the state stored back into the settings object -/
def prepareFft (s : FftState) (maxN : Nat) : FftState :=
  let good := nextpow2 maxN
  match s with
  | .unset => .n good
  | .nNone => .n maxN
  | .n user => .n (if user < good then good else user)

def FftState.len : FftState → Option Nat
  | .n k => some k
  | _ => none

structure Rec3 (α : Type) where
  dt : α
  deg : α
  ns : List α
  ew : List α
  vt : List α

inductive Method (α : Type)
  | combine (c : Combine)
  | singleAz (az : α)
  | rotdpp (pct : α) (azs : List α)

structure ProcCfg (α : Type) where
  op : String
  bw : α
  width : α
  fcs : List α

section
variable [Transc α]

/-- smoothed spectra of several rows on the FFT grid of `(n, dt)` -/
def smoothRows (cfg : ProcCfg α) (n : Nat) (dt : α) (rows : List (List α)) : Except String (List (List α)) :=
  smoothByName cfg.op cfg.bw (rfftfreq n dt) rows cfg.fcs

/-- element-wise ratio; a zero denominator gives NaN/inf and a negative ratio (possible with Savitzky–Golay) is
negative: the result constructor (`_check_input`) refuses all three -/
def ratioRow (h v : List α) : Except String (List α) :=
  (List.zip h v).mapM (fun p =>
    if eqA p.2 (n# 0) then .error "div0"
    else if p.1 / p.2 < (n# 0) then .error "negative" else .ok (p.1 / p.2))

/-- numpy `percentile(..., q)` ("linear") of a non-empty list -/
def insertSorted (x : α) : List α → List α
  | [] => [x]
  | y :: ys => if x < y then x :: y :: ys else y :: insertSorted x ys
def sortA (l : List α) : List α := l.foldr insertSorted []

def percentile (vals : List α) (q : α) : α :=
  let s := sortA vals
  let m := s.length
  let h := (n# (m - 1)) * q / (n# 100)
  let lo := (Arith.floor h).toNat
  let a := s.getD lo (n# 0)
  let b := s.getD (min (lo + 1) (m - 1)) (n# 0)
  let t := h - n# lo
  a + (b - a) * t

def columnsOf (rows : List (List α)) (ncol : Nat) : List (List α) :=
  (List.range ncol).map (fun j => rows.filterMap (fun r => r[j]?))

/-- the HVSR curve of one record for FFT length `n` -/
def hvsrRow (m : Method α) (cfg : ProcCfg α) (n : Nat) (r : Rec3 α) : Except String (List α) :=
  let v := ampSpec (taper cfg.width r.vt) n
  match m with
  | .combine c =>
    let fns := ampSpec (taper cfg.width r.ns) n
    let few := ampSpec (taper cfg.width r.ew) n
    let h := (List.zip fns few).map (fun p => c.apply p.1 p.2)
    match smoothRows cfg n r.dt [h, v] with
    | .ok [sh, sv] => ratioRow sh sv
    | .ok _ => .error "shape"
    | .error e => .error e
  | .singleAz az =>
    let h := ampSpec (taper cfg.width (singleAzimuthSeries (az - r.deg) r.ns r.ew)) n
    match smoothRows cfg n r.dt [h, v] with
    | .ok [sh, sv] => ratioRow sh sv
    | .ok _ => .error "shape"
    | .error e => .error e
  | .rotdpp pct azs =>
    let hs := azs.map (fun az => ampSpec (taper cfg.width (singleAzimuthSeries (az - r.deg) r.ns r.ew)) n)
    match smoothRows cfg n r.dt (hs ++ [v]) with
    | .error e => .error e
    | .ok sm =>
      let sv := sm.getLastD []
      let shs := sm.dropLast
      let sh := (columnsOf shs cfg.fcs.length).map (fun col => percentile col pct)
      ratioRow sh sv

structure ProcResult (α : Type) where
  fft : FftState
  kept : List Nat
  rows : List (List α)

def maxSamples (recs : List (Rec3 α)) : Nat := recs.foldl (fun m r => max m r.vt.length) 0

/-- `traditional_hvsr_processing_base` (all three variants share the bookkeeping) -/
def processTraditional (m : Method α) (cfg : ProcCfg α) (fft : FftState) (pol : Policy) (recs : List (Rec3 α)) :
    Except String (ProcResult α) :=
  let fft' := prepareFft fft (maxSamples recs)
  match fft'.len with
  | none => .error "fft"
  | some n =>
    let kept := keptIndices pol (recs.map (·.dt))
    let krecs := kept.filterMap (fun i => recs[i]?)
    match maxDt (krecs.map (·.dt)) with
    | none => .error "norecords"
    | some dmax =>
      if nyquistRefuses dmax cfg.fcs then .error "nyquist"
      else
        let rows := processRows (fun i => match krecs[i]? with
          | some r => hvsrRow m cfg n r
          | none => .error "index") (krecs.map (·.dt))
        match rows.mapM (fun x => x) with
        | .error e => .error e
        | .ok rs => .ok { fft := fft', kept := kept, rows := rs }

/-- one iteration of the loop of `azimuthal_hvsr_processing` (the single-azimuth settings share the FFT dict) -/
def azStep (cfg : ProcCfg α) (pol : Policy) (recs : List (Rec3 α))
    (acc : Except String (FftState × List (ProcResult α))) (az : α) : Except String (FftState × List (ProcResult α)) :=
  match acc with
  | .error e => .error e
  | .ok (st, out) =>
    match processTraditional (.singleAz az) cfg st pol recs with
    | .error e => .error e
    | .ok r => .ok (r.fft, out ++ [r])

/-- `azimuthal_hvsr_processing`: `prepare_fft_settings` runs once for the azimuthal settings and again (on the
shared dict) inside every single-azimuth call -/
def processAzimuthal (azs : List α) (cfg : ProcCfg α) (fft : FftState) (pol : Policy) (recs : List (Rec3 α)) :
    Except String (FftState × List (ProcResult α)) :=
  azs.foldl (azStep cfg pol recs) (.ok (prepareFft fft (maxSamples recs), []))

/-- mean of the squares of the taper of length `L` -/
def taperPower (width : α) (L : Nat) : α :=
  sumA ((tukey L width).map (fun w => w * w)) / (n# L)

/-- `_rpds_single_component`: Welch-averaged one-sided PSD of equally long windows -/
def psdComponent (width : α) (n : Nat) (dt : α) (wins : List (List α)) : List α :=
  let acc := wins.foldl (fun acc x => (List.zip acc (powSpec (taper width x) n)).map (fun p => p.1 + p.2))
    (List.replicate (n / 2 + 1) (n# 0))
  let L := (wins.getLastD []).length
  let fs := (n# 1) / dt
  acc.map (fun p => p / taperPower width L / (n# L) / fs * (n# 2) / (n# wins.length))

/-- `rpsd`: the three component densities, optionally smoothed (no dt policy is applied here) -/
def processPsd (smoothing : Bool) (cfg : ProcCfg α) (fft : FftState) (recs : List (Rec3 α)) :
    Except String (FftState × List (List α)) :=
  let fft' := prepareFft fft (maxSamples recs)
  match fft'.len, recs with
  | some n, r0 :: _ =>
    let p := [psdComponent cfg.width n r0.dt (recs.map (·.ns)), psdComponent cfg.width n r0.dt (recs.map (·.ew)),
              psdComponent cfg.width n r0.dt (recs.map (·.vt))]
    if smoothing then
      match smoothRows cfg n r0.dt p with
      | .ok s => .ok (fft', s)
      | .error e => .error e
    else .ok (fft', p)
  | _, _ => .error "fft"

/-- `diffuse_field_hvsr_processing` -/
def processDiffuse (cfg : ProcCfg α) (fft : FftState) (pol : Policy) (recs : List (Rec3 α)) :
    Except String (FftState × List Nat × List α) :=
  let fft' := prepareFft fft (maxSamples recs)
  match fft'.len with
  | none => .error "fft"
  | some n =>
    let dts := recs.map (·.dt)
    let kept := keptIndices pol dts
    let krecs := kept.filterMap (fun i => recs[i]?)
    if 1 < (dtGroups (krecs.map (·.dt))).length then .error "mixed-dt"
    else
      match krecs with
      | [] => .error "norecords"
      | r0 :: _ =>
        if nyquistRefuses r0.dt cfg.fcs then .error "nyquist"
        else
          let pns := psdComponent cfg.width n r0.dt (krecs.map (·.ns))
          let pew := psdComponent cfg.width n r0.dt (krecs.map (·.ew))
          let pvt := psdComponent cfg.width n r0.dt (krecs.map (·.vt))
          let hor := (List.zip pns pew).map (fun p => p.1 + p.2)
          match smoothRows cfg n r0.dt [hor, pvt] with
          | .ok [sh, sv] =>
            match ratioRow sh sv with
            | .ok q => .ok (fft', kept, q.map Transc.sqrt)
            | .error e => .error e
          | .ok _ => .error "shape"
          | .error e => .error e
end

end HV
