import HvsrVerif.Scalar
/-!
# Spatial statistics (C14)

Mirrors `hvsrpy/hvsr_spatial.py`.

* `statistics` / `montecarlo` follow the code's own loops (`_statistics`, `montecarlo_fn`); the random
  draws `rng.normal(mean, stddev, size=n)` are an input of the model (numpy `Generator.normal` is
  a trusted external).
* The Voronoi part of `HvsrSpatial` is built on Qhull (`scipy.spatial.Voronoi`) and GEOS
  (`shapely` convex hull / `contains` / `intersection` / `area`). These externals are modelled by
  their input/output contract in exact arithmetic: monotone-chain convex hull, strict
  point-in-convex-polygon test, Sutherland–Hodgman clipping of the hull against the perpendicular
  bisectors, shoelace area. The model is executed at `Rat` (every double is a rational), so the
  model weights are the exact area fractions of the layout the code was given.

No Mathlib import; polymorphic in the scalar.
-/
namespace HV
variable {α : Type}

/-- `distribution_generators` / `distribution_spatial` of `montecarlo_fn` -/
inductive SpDist | normal | lognormal
  deriving DecidableEq, Repr

/-! ## `_statistics` -/
section
variable [Arith α]

/-- `acc = 0; for x in l: acc += f(x)` -/
def foldSum {β : Type} (f : β → α) (l : List β) : α := l.foldl (fun acc x => acc + f x) (n# 0)

/-- `norm_weights = weights/np.sum(weights)` -/
def normWeights (w : List α) : List α := w.map (fun x => x / sumA w)

/-- `np.sum(diff*diff)` for `diff = row - mean` -/
def sqDev (mean : α) (row : List α) : α := sumA (row.map (fun x => (x - mean) * (x - mean)))

/-- the weighted mean of `_statistics` (first loop) for already normalised weights; `n` is
`len(row_value)` of the last row visited -/
def statMean (zs : List (List α × α)) (n : α) : α := foldSum (fun z => z.2 * sumA z.1) zs / n

/-- `numerator` of `_statistics` (second loop) -/
def statNumerator (zs : List (List α × α)) (n mean : α) : α :=
  foldSum (fun z => z.2 * sqDev mean z.1) zs / n

/-- `w2` of `_statistics` (second loop) -/
def statW2 (zs : List (List α × α)) (n : α) : α := foldSum (fun z => z.2 * z.2) zs / n
end

section
variable [Transc α]

/-- `_statistics` after the normalisation of the weights. `none` = the code produces NaN/inf
(no row, rows of length 0, `1 - w2 = 0`, or a negative radicand). -/
def statisticsN (values : List (List α)) (nw : List α) : Option (α × α) :=
  let zs := List.zip values nw
  match zs.getLast? with
  | none => none
  | some z =>
    let n : α := n# z.1.length
    let mean := statMean zs n
    let num := statNumerator zs n mean
    let w2 := statW2 zs n
    if eqA n (n# 0) || eqA ((n# 1) - w2) (n# 0) || decide (num / ((n# 1) - w2) < (n# 0)) then none
    else some (mean, Transc.sqrt (num / ((n# 1) - w2)))

/-- `_statistics(values, weights)`: `values` has one row per generating location -/
def statistics (values : List (List α)) (weights : List α) : Option (α × α) :=
  if eqA (sumA weights) (n# 0) then none else statisticsN values (normWeights weights)

/-! ## `montecarlo_fn` -/

/-- conversion of the draws into the space of the spatial statistics
(`lognormal → normal`: `exp`, `normal → lognormal`: `log`, otherwise unchanged) -/
def mcPre (g s : SpDist) (x : α) : α :=
  match g, s with
  | .lognormal, .normal => Transc.exp x
  | .normal, .lognormal => Transc.log x
  | _, _ => x

/-- `log` of a non-positive draw is NaN or -inf in the code -/
def mcDefined (g s : SpDist) (draws : List (List α)) : Bool :=
  match g, s with
  | .normal, .lognormal => draws.all (fun r => r.all (fun x => decide ((n# 0) < x)))
  | _, _ => true

/-- `montecarlo_fn` given the matrix of draws (`draws[r] = rng.normal(mean_r, stddev_r, size=n)`):
`(fn_mean, fn_stddev, realizations)` -/
def montecarlo (g s : SpDist) (draws : List (List α)) (weights : List α) :
    Option (α × α × List (List α)) :=
  if mcDefined g s draws then
    let r := draws.map (fun row => row.map (mcPre g s))
    match statistics r weights with
    | none => none
    | some (m, sd) =>
      match s with
      | .lognormal => some (Transc.exp m, sd, r.map (fun row => row.map Transc.exp))
      | .normal => some (m, sd, r)
  else none

/-- the property's reading of the result: weighted mean and standard deviation of the returned
realisations "in the requested space" (`log` of the realisations for `lognormal`, mean mapped back) -/
def spatialStats (s : SpDist) (reals : List (List α)) (weights : List α) : Option (α × α) :=
  match s with
  | .normal => statistics reals weights
  | .lognormal =>
    match statistics (reals.map (fun row => row.map Transc.log)) weights with
    | none => none
    | some (m, sd) => some (Transc.exp m, sd)
end

/-! ## exact planar geometry -/
section
variable [Arith α]

abbrev Pt (α : Type) := α × α

/-- `(a - o) × (b - o)`: positive when `o, a, b` turn counter-clockwise -/
def cross (o a b : Pt α) : α := (a.1 - o.1) * (b.2 - o.2) - (a.2 - o.2) * (b.1 - o.1)

def ptLt (p q : Pt α) : Bool := decide (p.1 < q.1) || (eqA p.1 q.1 && decide (p.2 < q.2))
def ptEq (p q : Pt α) : Bool := eqA p.1 q.1 && eqA p.2 q.2

/-- insertion into a lexicographically sorted duplicate-free list -/
def insertPt (p : Pt α) : List (Pt α) → List (Pt α)
  | [] => [p]
  | q :: qs => if ptLt q p then q :: insertPt p qs else if ptEq p q then q :: qs else p :: q :: qs

def sortPts (l : List (Pt α)) : List (Pt α) := l.foldr insertPt []

/-- pop the stack (head = most recent point) while the turn `second, top, p` is not strictly left -/
def popWhile (p : Pt α) : List (Pt α) → List (Pt α)
  | a :: b :: rest => if cross b a p ≤ (n# 0) then popWhile p (b :: rest) else a :: b :: rest
  | st => st

/-- one chain of Andrew's monotone chain; the result is the stack (reverse order) -/
def halfHull (pts : List (Pt α)) : List (Pt α) := pts.foldl (fun st p => p :: popWhile p st) []

/-- convex hull, counter-clockwise, no collinear vertices (contract of shapely's
`MultiPoint.convex_hull` as a vertex cycle) -/
def convexHull (pts : List (Pt α)) : List (Pt α) :=
  let s := sortPts pts
  (halfHull s).tail.reverse ++ (halfHull s.reverse).tail.reverse

/-- the closed edge cycle of a polygon -/
def edges (poly : List (Pt α)) : List (Pt α × Pt α) := poly.zip (poly.tail ++ poly.take 1)

/-- strictly inside a counter-clockwise convex polygon (contract of `mask.contains(Point)`:
boundary points are not contained) -/
def insideStrict (hull : List (Pt α)) (p : Pt α) : Bool :=
  (edges hull).all (fun e => decide ((n# 0) < cross e.1 e.2 p))

/-- `a·x + b·y − c` -/
def hpVal (a b c : α) (p : Pt α) : α := a * p.1 + b * p.2 - c

/-- the point of the segment `p q` on the line `hpVal = 0` given the two values `fp ≠ fq` -/
def interPt (p q : Pt α) (fp fq : α) : Pt α :=
  let t := fp / (fp - fq)
  (p.1 + t * (q.1 - p.1), p.2 + t * (q.2 - p.2))

/-- Sutherland–Hodgman: contribution of the directed edge `e` to the polygon clipped to
`a·x + b·y ≤ c` -/
def clipEdge (a b c : α) (e : Pt α × Pt α) : List (Pt α) :=
  let fp := hpVal a b c e.1
  let fq := hpVal a b c e.2
  if fp ≤ (n# 0) then
    (if (n# 0) < fq then [e.1, interPt e.1 e.2 fp fq] else [e.1])
  else
    (if fq ≤ (n# 0) then [interPt e.1 e.2 fp fq] else [])

/-- clip a convex polygon to the half-plane `a·x + b·y ≤ c` -/
def clipHalfPlane (a b c : α) (poly : List (Pt α)) : List (Pt α) :=
  (edges poly).flatMap (clipEdge a b c)

/-- coefficients `(a, b, c)` of the half-plane of the points at least as close to `pi` as to `pj` -/
def bisector (pi pj : Pt α) : α × α × α :=
  ((n# 2) * (pj.1 - pi.1), (n# 2) * (pj.2 - pi.2),
   pj.1 * pj.1 + pj.2 * pj.2 - (pi.1 * pi.1 + pi.2 * pi.2))

def clipBisector (pi : Pt α) (poly : List (Pt α)) (pj : Pt α) : List (Pt α) :=
  let h := bisector pi pj
  clipHalfPlane h.1 h.2.1 h.2.2 poly

/-- Voronoi cell of `pi` among `others`, bounded by `hull` -/
def cell (hull : List (Pt α)) (pi : Pt α) (others : List (Pt α)) : List (Pt α) :=
  others.foldl (clipBisector pi) hull

def shoelaceAux (first : Pt α) : List (Pt α) → α
  | [] => n# 0
  | [p] => p.1 * first.2 - first.1 * p.2
  | p :: q :: rest => (p.1 * q.2 - q.1 * p.2) + shoelaceAux first (q :: rest)

/-- signed area of a polygon (positive for counter-clockwise) -/
def shoelace : List (Pt α) → α
  | [] => n# 0
  | p :: rest => shoelaceAux p (p :: rest) / (n# 2)

/-- `_cull_points`: the sensors strictly inside the mask, with their indices -/
def cull (hull : List (Pt α)) (coords : List (Pt α)) : List (Pt α × Nat) :=
  coords.zipIdx.filter (fun pi => insideStrict hull pi.1)

/-- the bounded Voronoi cells of the retained sensors (`bounded_voronoi`) -/
def boundedCells (hull : List (Pt α)) (pts : List (Pt α)) : List (List (Pt α)) :=
  pts.zipIdx.map (fun pk => cell hull pk.1 (pts.eraseIdx pk.2))

structure VoronoiOut (α : Type) where
  hull : List (Pt α)
  indices : List Nat
  cells : List (List (Pt α))
  weights : List α

/-- `HvsrSpatial(coords).spatial_weights(boundary)`; errors: degenerate boundary (the mask is not a
polygon), fewer than three retained sensors (Qhull refuses) -/
def voronoiWeights (coords boundary : List (Pt α)) : Except String (VoronoiOut α) :=
  let hull := convexHull boundary
  let total := shoelace hull
  if hull.length < 3 || eqA total (n# 0) then .error "boundary" else
  let kept := cull hull coords
  if kept.length < 3 then .error "qhull" else
  let pts := kept.map (fun x => x.1)
  let cells := boundedCells hull pts
  .ok { hull := hull, indices := kept.map (fun x => x.2), cells := cells,
        weights := cells.map (fun c => shoelace c / total) }

end
end HV
