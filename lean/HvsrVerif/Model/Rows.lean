import HvsrVerif.Scalar
/-!
# Row bookkeeping of `process()` (C03): grouping by time step, the three policies, re-ordering

Mirrors `prepare_records_with_inconsistent_dt`, `check_nyquist_frequency` and the
`hvsr_idx / cur_idx / hvsr_indices_to_order` bookkeeping of the three traditional processing functions.
Records are identified by their position in the input list; only their `dt` matters here.
-/
namespace HV
variable {α : Type} [Arith α]

inductive Policy | resample | keepSmallest | keepMajority
  deriving DecidableEq, Repr

def Policy.ofString (s : String) : Option Policy :=
  match s with
  | "frequency_domain_resampling" => some .resample
  | "keeping_smallest_time_step" => some .keepSmallest
  | "keeping_majority_time_step" => some .keepMajority
  | _ => none

/-- keys of `dt_with_count` in dict insertion order -/
def dtGroups : List α → List α
  | [] => []
  | d :: ds => d :: (dtGroups ds).filter (fun e => !(eqA e d))

def dtCount (dts : List α) (d : α) : Nat := (dts.filter (fun e => eqA e d)).length

/-- `min(dt_with_count.keys())` -/
def minDt : List α → Option α
  | [] => none
  | d :: ds => some (ds.foldl minA d)
def maxDt : List α → Option α
  | [] => none
  | d :: ds => some (ds.foldl maxA d)

/-- the dt with the largest count; the first one in insertion order among equals (`>` in the loop) -/
def majorityStep (dts : List α) (best : Option α) (d : α) : Option α :=
  match best with
  | none => if 0 < dtCount dts d then some d else none
  | some b => if dtCount dts b < dtCount dts d then some d else some b

def majorityDt (dts : List α) : Option α := (dtGroups dts).foldl (majorityStep dts) none

/-- original indices of the records that are processed, in their original order -/
def keptIndices (p : Policy) (dts : List α) : List Nat :=
  match p with
  | .resample => List.range dts.length
  | .keepSmallest =>
    match minDt dts with
    | none => []
    | some m => (List.range dts.length).filter (fun i => match dts[i]? with | some d => eqA d m | none => false)
  | .keepMajority =>
    match majorityDt dts with
    | none => []
    | some m => (List.range dts.length).filter (fun i => match dts[i]? with | some d => eqA d m | none => false)

/-- positions (in the kept list) in the order the rows are written: group-major, input order inside a group -/
def processOrder (dts : List α) : List Nat :=
  (dtGroups dts).flatMap (fun d => (List.range dts.length).filter (fun i => match dts[i]? with | some e => eqA e d | none => false))

/-- `hvsr_indices_to_order`: for each kept position, the row it was written to -/
def indexMap (dts : List α) : List Nat :=
  (List.range dts.length).map (fun org => (processOrder dts).idxOf org)

/-- rows as written (row `p` holds the curve of record `order[p]`), then gathered by `indexMap` -/
def processRows {ρ : Type} (curve : Nat → ρ) (dts : List α) : List ρ :=
  let written := (processOrder dts).map curve
  (indexMap dts).filterMap (fun p => written[p]?)

/-- `check_nyquist_frequency(max(dt), fcs)`: true = refused -/
def nyquistRefuses (dtMax : α) (fcs : List α) : Bool :=
  match fcs with
  | [] => false
  | f :: fs => decide ((n# 1) / ((n# 2) * dtMax) < fs.foldl maxA f)

end HV
