import HvsrVerif.Model.HvAz
/-!
# Text format of HVSR results (C12): `write_hvsr_object_to_file` / `read_hvsr_object_from_file`

The numeric text (`%.18e`), `json` and `np.loadtxt` are the identity on values (trusted; checked bit for bit by
the correspondence). What is modelled is hvsrpy's own logic: the column layout, the azimuth labels of the header,
the grouping the reader performs on them (label change or restart of the curve numbering), the rebuild + `update_peaks_bounded` + mask restore.
-/
namespace HV
variable {α : Type}

/-- header labels: one entry per data column -/
def expandLabels {L : Type} : List (L × Nat) → List L
  | [] => []
  | (a, n) :: t => List.replicate n a ++ expandLabels t

/-- reader BEFORE the repair of C12-d: group consecutive equal labels (`curr_azimuth != prev_azimuth` alone starts a new group); kept because
`C12.group_expand_needs_wf` records why that criterion was not enough -/
def groupLabels {L : Type} [DecidableEq L] : List L → List (L × Nat)
  | [] => []
  | a :: t =>
    match groupLabels t with
    | (b, n) :: r => if a = b then (b, n + 1) :: r else (a, 1) :: (b, n) :: r
    | [] => [(a, 1)]

/-- the labels of one azimuth's columns as written: `azimuth a deg | hvsr curve k+1`, …, `curve k+m` -/
def labelRun {L : Type} (a : L) : Nat → Nat → List (L × Nat)
  | _, 0 => []
  | k, m + 1 => (a, k + 1) :: labelRun a (k + 1) m

/-- header labels with their curve numbers (`for curve_idx in range(1, n_curves+1)` per azimuth) -/
def expandNumbered {L : Type} : List (L × Nat) → List (L × Nat)
  | [] => []
  | (a, n) :: t => labelRun a 0 n ++ expandNumbered t

/-- reader after the repair of C12-d: a new group starts where the azimuth label changes OR the curve numbering restarts at one
(`curr_azimuth != prev_azimuth or (int(curr_curve) == 1 and idx > 1)`) -/
def groupNumbered {L : Type} [DecidableEq L] : List (L × Nat) → List (L × Nat)
  | [] => []
  | [(a, _)] => [(a, 1)]
  | (a, _) :: (b, j) :: t =>
    match groupNumbered ((b, j) :: t) with
    | (c, n) :: r => if a = b ∧ j ≠ 1 then (c, n + 1) :: r else (a, 1) :: (c, n) :: r
    | [] => [(a, 1)]

/-- split a list of columns into consecutive groups of the given sizes -/
def splitBy {β : Type} : List Nat → List β → List (List β)
  | [], _ => []
  | n :: ns, l => l.take n :: splitBy ns (l.drop n)

/-- what the file holds for a traditional result -/
structure TradFile (α : Type) where
  freq : List α
  curves : List (List α)
  range : Range α
  vWin : List Bool
  vPeak : List Bool
  meanCol : List (Option α)
  stdCol : Except String (List (Option α))

/-- what the file holds for an azimuthal result; `labels` are the azimuth labels and curve numbers of the curve columns -/
structure AzFile (α : Type) (L : Type) where
  freq : List α
  labels : List (L × Nat)
  curves : List (List α)
  range : Range α
  vWins : List (List Bool)
  vPeaks : List (List Bool)
  meanCol : Except String (List (Option α))
  stdCol : Except String (List (Option α))

section
variable [Transc α]

def writeTrad (dMc : Dist) (s : HvTrad α) : TradFile α :=
  { freq := s.freq, curves := s.rows, range := s.range.getD (none, none), vWin := s.vWin, vPeak := s.vPeak,
    meanCol := s.meanCurve dMc, stdCol := s.stdCurve dMc }

/-- the reader rebuilds the object, re-runs the peak search over the stored range (always a recomputation: the
stored keyword arguments are `None`) and restores both masks -/
def readTrad (f : TradFile α) : HvTrad α :=
  let s := updatePeaks f.range false (HvTrad.init f.freq f.curves)
  { s with vWin := f.vWin, vPeak := f.vPeak }

def writeAz {L : Type} (label : α → L) (dMc : Dist) (s : HvAz α) : AzFile α L :=
  { freq := s.hvsrs.head?.map (·.freq) |>.getD [],
    labels := expandNumbered ((List.zip s.azimuths s.hvsrs).map (fun p => (label p.1, p.2.rows.length))),
    curves := s.hvsrs.flatMap (·.rows),
    range := (s.hvsrs.head?.bind (·.range)).getD (none, none),
    vWins := s.hvsrs.map (·.vWin), vPeaks := s.hvsrs.map (·.vPeak),
    meanCol := s.meanCurve dMc, stdCol := s.stdCurve dMc }

def readAz {L : Type} [DecidableEq L] (parse : L → α) (f : AzFile α L) : HvAz α :=
  let groups := groupNumbered f.labels
  let cols := splitBy (groups.map (·.2)) f.curves
  let hs := cols.map (fun rows => updatePeaks f.range false (HvTrad.init f.freq rows))
  let hs' := (List.zip hs (List.zip f.vWins f.vPeaks)).map (fun p => { p.1 with vWin := p.2.1, vPeak := p.2.2 })
  { hvsrs := hs', azimuths := groups.map (fun g => parse g.1) }
end

end HV
