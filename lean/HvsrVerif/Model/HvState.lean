import HvsrVerif.Model.Peaks
import HvsrVerif.Model.Stats
/-!
# M-HV: the HVSR object as a state machine (C05 C06 C08 C11 C12 C13 C20)

Mirrors `HvsrTraditional` / `HvsrAzimuthal`: curves, search range, peaks and the two
accept masks, with the operations that mutate them.
-/
namespace HV
variable {α : Type}

abbrev Range (α : Type) := Option α × Option α

structure HvTrad (α : Type) where
  freq : List α
  rows : List (List α)
  /-- `none` = the constructor's sentinel "default_overwritten_below" -/
  range : Option (Range α)
  /-- `_main_peak_frq/_main_peak_amp`; `none` = NaN -/
  peaks : List (Option (α × α))
  vWin : List Bool
  vPeak : List Bool

section
variable [Arith α]

def optEq (a b : Option α) : Bool :=
  match a, b with
  | none, none => true
  | some x, some y => eqA x y
  | _, _ => false

def rangeEq (a b : Range α) : Bool := optEq a.1 b.1 && optEq a.2 b.2

/-- the recomputation branch of `HvsrTraditional.update_peaks_bounded` -/
def recomputePeaks (r : Range α) (s : HvTrad α) : HvTrad α :=
  let pk := s.rows.map (fun row => findPeakBounded s.freq row r)
  let has := pk.map Option.isSome
  let allFlat := has.all (fun b => !b)
  { s with range := some r, peaks := pk,
           vWin := if allFlat then has.map (fun _ => true) else has,
           vPeak := has }

/-- `update_peaks_bounded(search_range, find_peaks_kwargs)`; `kwEmpty` = the caller passed `{}`
(the stored kwargs are `{}` after the first call, so `None` never compares equal). -/
def updatePeaks (r : Range α) (kwEmpty : Bool) (s : HvTrad α) : HvTrad α :=
  match s.range with
  | some r0 => if rangeEq r r0 && kwEmpty then s else recomputePeaks r s
  | none => recomputePeaks r s

/-- `HvsrTraditional(frequency, amplitude)` -/
def HvTrad.init (freq : List α) (rows : List (List α)) : HvTrad α :=
  recomputePeaks (none, none)
    { freq := freq, rows := rows, range := none, peaks := [],
      vWin := rows.map (fun _ => true), vPeak := rows.map (fun _ => true) }

/-- values of `l` at the positions where `m` is true (`array[mask]`) -/
def maskSel {β : Type} (l : List β) (m : List Bool) : List β :=
  (List.zip l m).filterMap (fun p => if p.2 then some p.1 else none)

/-- `peak_frequencies` -/
def HvTrad.peakFreqs (s : HvTrad α) : List (Option α) :=
  maskSel (s.peaks.map (fun p => p.map (·.1))) s.vPeak
/-- `peak_amplitudes` -/
def HvTrad.peakAmps (s : HvTrad α) : List (Option α) :=
  maskSel (s.peaks.map (fun p => p.map (·.2))) s.vPeak

def HvTrad.validRows (s : HvTrad α) : List (List α) := maskSel s.rows s.vWin

/-- column `j` of a list of rows -/
def column (rows : List (List α)) (j : Nat) : List α := rows.filterMap (fun r => r[j]?)

/-- sta_lta / maximum_value rejection with `hvsr=` : both masks are overwritten -/
def timeMask (m : List Bool) (s : HvTrad α) : HvTrad α := { s with vWin := m, vPeak := m }

/-- direct assignment to the two public mask attributes (any combination is a legal state) -/
def setMasks (vw vp : List Bool) (s : HvTrad α) : HvTrad α := { s with vWin := vw, vPeak := vp }

def setFalse (l : List Bool) (idxs : List Nat) : List Bool :=
  (List.zip (List.range l.length) l).map (fun p => if idxs.contains p.1 then false else p.2)

/-- manual rejection of the windows `idxs` (the GUI loop sets both mask entries to False) -/
def manualReject (idxs : List Nat) (s : HvTrad α) : HvTrad α :=
  { s with vWin := setFalse s.vWin idxs, vPeak := setFalse s.vPeak idxs }
end

section
variable [Transc α]

def HvTrad.meanFn (d : Dist) (s : HvTrad α) : Option α := nanmeanW d s.peakFreqs none
def HvTrad.stdFn (d : Dist) (s : HvTrad α) : Option α := nanstdW d s.peakFreqs none .nist
def HvTrad.meanAmp (d : Dist) (s : HvTrad α) : Option α := nanmeanW d s.peakAmps none
def HvTrad.stdAmp (d : Dist) (s : HvTrad α) : Option α := nanstdW d s.peakAmps none .nist

/-- `mean_curve`: a single accepted window is returned as is -/
def HvTrad.meanCurve (d : Dist) (s : HvTrad α) : List (Option α) :=
  match s.validRows with
  | [r] => r.map some
  | rows => (List.range s.freq.length).map (fun j => nanmeanW d ((column rows j).map some) none)

/-- `std_curve`: `error` (ValueError) unless at least two windows are accepted -/
def HvTrad.stdCurve (d : Dist) (s : HvTrad α) : Except String (List (Option α)) :=
  let rows := s.validRows
  if 1 < rows.length then
    .ok ((List.range s.freq.length).map (fun j => nanstdW d ((column rows j).map some) none .nist))
  else .error "single"

def allSome {β : Type} (l : List (Option β)) : Option (List β) := l.mapM id

/-- `mean_curve_peak`: searched over the stored range; `error` when there is no peak
(in particular when the mean curve is undefined because no window is accepted) -/
def HvTrad.meanCurvePeak (d : Dist) (s : HvTrad α) : Except String (α × α) :=
  match allSome (s.meanCurve d) with
  | none => .error "nopeak"
  | some mc =>
    match findPeakBounded s.freq mc (s.range.getD (none, none)) with
    | none => .error "nopeak"
    | some p => .ok p

def HvTrad.nthStdFn (n : α) (d : Dist) (s : HvTrad α) : Option α := nthStdO n d (s.meanFn d) (s.stdFn d)
def HvTrad.nthStdAmp (n : α) (d : Dist) (s : HvTrad α) : Option α := nthStdO n d (s.meanAmp d) (s.stdAmp d)

/-- `cov_fn` (repaired code: windows without a peak are dropped) -/
def HvTrad.covFn (d : Dist) (s : HvTrad α) : Option (α × α × α) :=
  let pairs := (List.zip s.peakFreqs s.peakAmps).filterMap (fun p => match p.1, p.2 with
    | some f, some a => some (d.pre f, d.pre a)
    | _, _ => none)
  cov2 (pairs.map (·.1)) (pairs.map (·.2)) none
end

end HV
