import HvsrVerif.Model.Peaks
/-!
# SESAME (2004) reliability and clarity criteria (C16)

Mirrors `hvsrpy/sesame.py` (`reliability`, `clarity`, `trim_curve`, `peak_index`).
Constants live in `sesameConsts`/`sesameBands`; `HvsrVerif/Bridge/C16.lean` proves they
equal the values extracted from the Python source on every run.
-/
namespace HV
variable {α : Type}

/-- numeric constants of sesame.py as decimal pairs `(m, e)` meaning `m·10^-e` -/
structure SesameConsts where
  relI : Nat × Nat := (10, 0)        -- f0 > 10 / lw
  relII : Nat × Nat := (200, 0)      -- lw·nw·f0 > 200
  relIIIlo : Nat × Nat := (5, 1)     -- 0.5·f0 < f
  relIIIhi : Nat × Nat := (2, 0)     -- f < 2·f0
  relIIIsplit : Nat × Nat := (5, 1)  -- f0 > 0.5
  relIIIa : Nat × Nat := (2, 0)      -- σA < 2
  relIIIb : Nat × Nat := (3, 0)      -- σA < 3
  claIdiv : Nat × Nat := (4, 0)      -- f0/4
  claAmpDiv : Nat × Nat := (2, 0)    -- A0/2
  claIImul : Nat × Nat := (4, 0)     -- 4·f0
  claIII : Nat × Nat := (2, 0)       -- A0 > 2
  claIVlo : Nat × Nat := (95, 2)     -- 0.95
  claIVhi : Nat × Nat := (105, 2)    -- 1.05
  deriving DecidableEq, Repr

def sesameConsts : SesameConsts := {}

/-- rows `(upper edge, ε, θ)` of the threshold table; the last row has no upper edge -/
def sesameBands : List ((Nat × Nat) × (Nat × Nat) × (Nat × Nat)) :=
  [((2, 1), (25, 2), (3, 0)),
   ((5, 1), (2, 1), (25, 1)),
   ((1, 0), (15, 2), (2, 0)),
   ((2, 0), (1, 1), (178, 2))]
def sesameLastBand : (Nat × Nat) × (Nat × Nat) := ((5, 2), (158, 2))

section
variable [Arith α]

def minL : List α → Option α
  | [] => none
  | x :: xs => some (xs.foldl minA x)
def maxL : List α → Option α
  | [] => none
  | x :: xs => some (xs.foldl maxA x)

/-- `(ε, θ)` for peak frequency `f0`: the `if/elif` chain of `clarity` -/
def bandLookup (bands : List ((Nat × Nat) × (Nat × Nat) × (Nat × Nat)))
    (last : (Nat × Nat) × (Nat × Nat)) (f0 : α) : α × α :=
  match bands with
  | [] => (lit last.1, lit last.2)
  | (edge, eps, th) :: rest =>
    if f0 < lit edge then (lit eps, lit th) else bandLookup rest last f0

def thresholdBand (f0 : α) : α × α := bandLookup sesameBands sesameLastBand f0

/-- `trim_curve`: index slice `[lower, upper)` -/
def trimIdxs (freq : List α) (lo hi : α) : Nat × Nat :=
  let low := minA lo hi   -- python min(a,b): b if b < a else a
  let upp := maxA lo hi
  (nearestIdx freq low, nearestIdx freq upp + 1)

/-- the shared prologue of `reliability`/`clarity`: optional trimming to the search range -/
def sesameTrim (freq mc sd : List α) (r : Option α × Option α) :
    Option (List α × List α × List α) :=
  match r with
  | (none, none) => some (freq, mc, sd)
  | (lo, hi) =>
    match minL freq, maxL freq with
    | some fmin, some fmax =>
      let lo' := lo.getD fmin
      let hi' := hi.getD fmax
      let (a, b) := trimIdxs freq lo' hi'
      some (pySlice freq a b, pySlice mc a b, pySlice sd a b)
    | _, _ => none
end

section
variable [Transc α]

/-- `sigma_a = exp(log(mean) + std) / mean` -/
def sigmaA (m s : α) : α := Transc.exp (Transc.log m + s) / m

/-- `reliability(...)`: `[i, ii, iii]`; `error` when there is no peak or the ±octave band is empty -/
def reliability (lw nw : α) (freq mc sd : List α) (r : Option α × Option α) :
    Except String (List Bool) :=
  match sesameTrim freq mc sd r with
  | none => .error "empty"
  | some (freq, mc, sd) =>
    match peakIndex mc with
    | none => .error "nopeak"
    | some pi =>
      match freq[pi]? with
      | none => .error "index"
      | some f0 =>
        let c := sesameConsts
        let c1 := decide (lit c.relI / lw < f0)
        let c2 := decide (lit c.relII < lw * nw * f0)
        let sig := (List.zip freq (List.zip mc sd)).filterMap (fun (f, m, s) =>
          if lit c.relIIIlo * f0 < f ∧ f < lit c.relIIIhi * f0 then some (sigmaA m s) else none)
        match maxL sig with
        | none => .error "emptyband"
        | some smax =>
          let c3 := if lit c.relIIIsplit < f0 then decide (smax < lit c.relIIIa)
                    else decide (smax < lit c.relIIIb)
          .ok [c1, c2, c3]

/-- `clarity(...)`: `[i, ii, iii, iv, v, vi]` -/
def clarity (freq mc sd : List α) (fnStd : α) (r : Option α × Option α) :
    Except String (List Bool) :=
  match sesameTrim freq mc sd r with
  | none => .error "empty"
  | some (freq, mc, sd) =>
    match peakIndex mc with
    | none => .error "nopeak"
    | some pi =>
      match freq[pi]?, mc[pi]?, sd[pi]? with
      | some f0, some a0, some s0 =>
        let c := sesameConsts
        let half := a0 / lit c.claAmpDiv
        let c1 := (List.zip freq mc).any (fun (f, m) =>
          decide (f < f0) && decide (f0 / lit c.claIdiv < f) && decide (m < half))
        let c2 := (List.zip freq mc).any (fun (f, m) =>
          decide (f0 < f) && decide (f < lit c.claIImul * f0) && decide (m < half))
        let c3 := decide (lit c.claIII < a0)
        let upper := (List.zip mc sd).map (fun (m, s) => Transc.exp (Transc.log m + s))
        let lower := (List.zip mc sd).map (fun (m, s) => Transc.exp (Transc.log m - s))
        match peakIndex upper, peakIndex lower with
        | some iu, some il =>
          match freq[iu]?, freq[il]? with
          | some fp, some fm =>
            let within := fun (f : α) => decide (f0 * lit c.claIVlo < f) && decide (f < f0 * lit c.claIVhi)
            let c4 := within fp && within fm
            let (eps, theta) := thresholdBand f0
            let c5 := decide (fnStd < eps * f0)
            let c6 := decide (sigmaA a0 s0 < theta)
            .ok [c1, c2, c3, c4, c5, c6]
          | _, _ => .error "index"
        | _, _ => .error "nopeak-bounds"
      | _, _, _ => .error "index"
end
end HV

namespace HV
/-- the constants as an association list (compared with the extracted table by `Bridge/C16`) -/
def SesameConsts.toList (c : SesameConsts) : List (String × (Nat × Nat)) :=
  [("relI", c.relI), ("relII", c.relII), ("relIIIlo", c.relIIIlo), ("relIIIhi", c.relIIIhi),
   ("relIIIsplit", c.relIIIsplit), ("relIIIa", c.relIIIa), ("relIIIb", c.relIIIb),
   ("claIdiv", c.claIdiv), ("claAmpDiv", c.claAmpDiv), ("claIImul", c.claIImul),
   ("claIII", c.claIII), ("claIVlo", c.claIVlo), ("claIVhi", c.claIVhi)]
end HV
