import HvsrVerif.Model.DFT
/-!
# PSD preprocessing transforms (C17): spectral derivative and flat instrument response

Mirrors `hvsrpy/instrument_response.py::_domain_transform("derivative")` and `_remove_instrument_response`
for a flat response (no poles/zeros): `rfft` padded to `n`, multiply, `irfft`, crop to the record length.
-/
namespace HV
variable {α : Type} [Transc α]

/-- `np.fft.irfft(Y, n)` at sample `j` from the half spectrum `Y_0 … Y_{n/2}` (the imaginary parts of the DC and,
for even `n`, the Nyquist bin are ignored, as numpy does) -/
def irfftAt (Y : List (α × α)) (n j : Nat) : α :=
  let half := n / 2
  let dc := (Y.getD 0 (n# 0, n# 0)).1
  let mid := (List.range (if n % 2 = 0 then half - 1 else half)).map (fun i =>
    let k := i + 1
    let c := Y.getD k (n# 0, n# 0)
    (n# 2) * (c.1 * Transc.cos (dftAngle n j k) - c.2 * Transc.sin (dftAngle n j k)))
  let nyq := if n % 2 = 0 ∧ 0 < n then (Y.getD half (n# 0, n# 0)).1 * Transc.cos (dftAngle n j half) else n# 0
  (dc + sumA mid + nyq) / (n# n)

/-- `_differentiate`: multiply bin `k` by `2π i f_k`, `f_k = k/(n·dt)` -/
def differentiate (x : List α) (n : Nat) (dt : α) : List α :=
  let X := rfft x n
  let Y := (List.zip (List.range X.length) X).map (fun p =>
    let w := (n# 2) * Transc.pi * ((n# p.1) / ((n# n) * dt))
    (-(w * p.2.2), w * p.2.1))          -- (a + ib)·(iw) = −wb + i·wa
  (List.range x.length).map (fun j => irfftAt Y n j)

/-- `_remove_instrument_response` for a flat response `h = S` (sensitivity × normalisation): every bin divided by
`S`, the DC bin zeroed -/
def removeFlatResponse (x : List α) (n : Nat) (S : α) : List α :=
  let X := rfft x n
  let Y := (List.zip (List.range X.length) X).map (fun p =>
    if p.1 = 0 then (n# 0, n# 0) else (p.2.1 / S, p.2.2 / S))
  (List.range x.length).map (fun j => irfftAt Y n j)

/-- the analytic value of `removeFlatResponse`: `(x_j − (Σx)/n) / S` -/
def flatResponseClosed (x : List α) (n : Nat) (S : α) : List α :=
  x.map (fun v => (v - sumA x / (n# n)) / S)

end HV
