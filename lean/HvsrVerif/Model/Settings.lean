/-!
# Settings objects of `hvsrpy/settings.py`: a heap / aliasing model (import-free, computable)

What is modelled (C15): which Python objects are *shared* between settings objects, the
default-argument objects of the constructors and the caller, and what `attr_dict`, `save`,
`load` and `hvsrpy.object_io.read_settings_object_from_file` observe.

**Store.** A Python value is either an immutable scalar or a container that lives at a
*location*. The store is kept in unfolded form: every container node carries its location
(`Val.node id kind children`); two occurrences of the same `id` are the *same* Python object
(aliases), and an in-place write to location `l` (`Val.subst`) rewrites every occurrence of `l`
in every group of the state. Fresh objects get ids from the counter `State.next`
(`Val.relabel` = `copy.deepcopy` = evaluating a literal).

**Groups.** `State.groups` is the list of owners of values:
group `0` holds the default-argument objects of the eight constructors (created once, when the
class statement is executed — field name `"<Class>.<parameter>"`), group `1` the variables of the
calling program, groups `2..` the settings objects in order of creation.

**Class table.** `settingsParams : Class → List Param` lists, per concrete class, the entries
of `self.attrs` in order together with the *kind* of the default value in the signature and how
the constructor chain stores the argument (`self.x = x` alias, `deepcopy(x)`, `deepcopy(dict(x))`,
`np.array(x)` …). `Bridge/C15.lean` proves that this table is the one extracted from the source.
The model is parametric in the table so that the effect of an aliasing constructor can be
stated (and is exhibited in `Props/C15.lean`).
-/
namespace HV.Settings

/-! ## values -/

/-- immutable Python scalars; floats are carried as IEEE-754 bit patterns (no arithmetic here) -/
inductive Scalar
  | none
  | bool (b : Bool)
  | int (i : Int)
  | flt (bits : Nat)
  | str (s : String)
  deriving DecidableEq, Repr, Inhabited

/-- container kinds; a `dict` node keeps its keys in insertion order, children are the values -/
inductive Kind
  | list
  | tuple
  | arr
  | dict (keys : List String)
  deriving DecidableEq, Repr, Inhabited

/-- a value in the (unfolded) store: `node id kind children`, `id` is the location -/
inductive Val
  | sc (s : Scalar)
  | node (id : Nat) (k : Kind) (cs : List Val)
  deriving Repr, Inhabited

/-- what `json` stores and what `attr_dict` shows once tuples and arrays are read as lists -/
inductive Json
  | sc (s : Scalar)
  | arr (xs : List Json)
  | obj (keys : List String) (vals : List Json)
  deriving Repr, Inhabited

mutual
/-- all locations reachable from a value -/
def Val.ids : Val → List Nat
  | .sc _ => []
  | .node i _ cs => i :: idsL cs
def idsL : List Val → List Nat
  | [] => []
  | v :: vs => v.ids ++ idsL vs
end

mutual
/-- observable content: identities erased, list / tuple / ndarray identified
(`to_serializable` + `json.dump`: ndarray → list, tuple → list) -/
def Val.canon : Val → Json
  | .sc s => .sc s
  | .node _ (.dict ks) cs => .obj ks (canonL cs)
  | .node _ .list cs => .arr (canonL cs)
  | .node _ .tuple cs => .arr (canonL cs)
  | .node _ .arr cs => .arr (canonL cs)
def canonL : List Val → List Json
  | [] => []
  | v :: vs => v.canon :: canonL vs
end

/-- what `Settings.save` hands to the file: `to_serializable` turns an ndarray into a list
(`.tolist()`), `json.dump` writes a tuple as an array -/
def toSerializable (v : Val) : Json := v.canon

mutual
/-- a structurally equal value all of whose containers are new objects, numbered from `n`
(`copy.deepcopy`, or the evaluation of a literal expression); returns the next free location -/
def Val.relabel (n : Nat) : Val → Val × Nat
  | .sc s => (.sc s, n)
  | .node _ k cs => let r := relabelL (n + 1) cs; (.node n k r.1, r.2)
def relabelL (n : Nat) : List Val → List Val × Nat
  | [] => ([], n)
  | v :: vs => let a := v.relabel n; let b := relabelL a.2 vs; (a.1 :: b.1, b.2)
end

mutual
/-- `json.load`: every array becomes a new `list`, every object a new `dict` -/
def Json.toVal (n : Nat) : Json → Val × Nat
  | .sc s => (.sc s, n)
  | .arr xs => let r := toValL (n + 1) xs; (.node n .list r.1, r.2)
  | .obj ks xs => let r := toValL (n + 1) xs; (.node n (.dict ks) r.1, r.2)
def toValL (n : Nat) : List Json → List Val × Nat
  | [] => ([], n)
  | j :: js => let a := j.toVal n; let b := toValL a.2 js; (a.1 :: b.1, b.2)
end

mutual
/-- the in-place write: the object at location `l` now has kind `k'` and children `cs'`,
seen through every alias -/
def Val.subst (l : Nat) (k' : Kind) (cs' : List Val) : Val → Val
  | .sc s => .sc s
  | .node i k cs => if i = l then .node i k' cs' else .node i k (substL l k' cs' cs)
def substL (l : Nat) (k' : Kind) (cs' : List Val) : List Val → List Val
  | [] => []
  | v :: vs => v.subst l k' cs' :: substL l k' cs' vs
end

mutual
/-- does the value contain an ndarray? (`json.dump` raises on one that `attr_dict` left in place) -/
def Val.hasArr : Val → Bool
  | .sc _ => false
  | .node _ .arr _ => true
  | .node _ _ cs => hasArrL cs
def hasArrL : List Val → Bool
  | [] => false
  | v :: vs => v.hasArr || hasArrL vs
end

def Val.isSc : Val → Bool
  | .sc _ => true
  | _ => false

/-! ## paths and in-place writes -/

inductive Step
  | idx (i : Nat)
  | key (s : String)
  deriving DecidableEq, Repr, Inhabited

/-- `container[step]` for navigation (an ndarray element is a scalar: nothing to navigate into) -/
def child (k : Kind) (cs : List Val) : Step → Option Val
  | .idx i => match k with
    | .list => cs[i]?
    | .tuple => cs[i]?
    | _ => none
  | .key s => match k with
    | .dict ks => if ks.idxOf s < ks.length then cs[ks.idxOf s]? else none
    | _ => none

/-- follow a path to a container; returns its location, kind and children -/
def resolve : Val → List Step → Option (Nat × Kind × List Val)
  | .sc _, _ => none
  | .node i k cs, [] => some (i, k, cs)
  | .node _ k cs, s :: ss =>
    match child k cs s with
    | some c => resolve c ss
    | none => none

/-- numpy element assignment keeps the dtype: only a number of the kind already stored is
in the model's domain (no int → float coercion is modelled) -/
def sameNum : Val → Val → Bool
  | .sc (.int _), .sc (.int _) => true
  | .sc (.flt _), .sc (.flt _) => true
  | _, _ => false

/-- `container[last] = v`: new kind and children of the container, `none` = Python raises
(`IndexError`, `TypeError` on a tuple, …) or outside the model's domain -/
def writeAt (k : Kind) (cs : List Val) (last : Step) (v : Val) : Option (Kind × List Val) :=
  match k, last with
  | .list, .idx i => if i < cs.length then some (.list, cs.set i v) else none
  | .arr, .idx i =>
    match cs[i]? with
    | some old => if sameNum old v then some (.arr, cs.set i v) else none
    | none => none
  | .dict ks, .key s =>
    if ks.idxOf s < ks.length then
      (if ks.idxOf s < cs.length then some (.dict ks, cs.set (ks.idxOf s) v) else none)
    else some (.dict (ks ++ [s]), cs ++ [v])
  | _, _ => none

/-! ## class table -/

inductive Class
  | hvsrPre | psdPre | psdProc | trad | singleAz | rotDpp | azimuthal | diffuse
  deriving DecidableEq, Repr, Inhabited

def Class.all : List Class :=
  [.hvsrPre, .psdPre, .psdProc, .trad, .singleAz, .rotDpp, .azimuthal, .diffuse]

def Class.name : Class → String
  | .hvsrPre => "HvsrPreProcessingSettings"
  | .psdPre => "PsdPreProcessingSettings"
  | .psdProc => "PsdProcessingSettings"
  | .trad => "HvsrTraditionalProcessingSettings"
  | .singleAz => "HvsrTraditionalSingleAzimuthProcessingSettings"
  | .rotDpp => "HvsrTraditionalRotDppProcessingSettings"
  | .azimuthal => "HvsrAzimuthalProcessingSettings"
  | .diffuse => "HvsrDiffuseFieldProcessingSettings"

/-- kind of the default value written in the signature -/
inductive DKind
  | imm      -- None / number / str / bool / `__version__`
  | list     -- a list display of constants
  | ndarray  -- `np.arange(..)`, `np.geomspace(..)`
  | dict     -- `dict(..)` whose values may be arrays
  deriving DecidableEq, Repr, Inhabited

/-- how the constructor chain stores the argument in the attribute -/
inductive StoreKind
  | alias         -- `self.x = x`
  | copy          -- shallow: `dict(x)`, `list(x)`, `x.copy()`, `copy(x)`
  | npArray       -- `np.array(x)`
  | deepcopy      -- `deepcopy(x)`
  | deepcopyDict  -- `deepcopy(dict(x))`
  deriving DecidableEq, Repr, Inhabited

structure Param where
  name : String
  dflt : DKind
  store : StoreKind
  deriving DecidableEq, Repr, Inhabited

abbrev Table := Class → List Param

def DKind.code : DKind → Nat
  | .imm => 0 | .list => 1 | .ndarray => 2 | .dict => 3

def StoreKind.code : StoreKind → Nat
  | .alias => 0 | .copy => 1 | .npArray => 2 | .deepcopy => 3 | .deepcopyDict => 4

private def imm (n : String) : Param := ⟨n, .imm, .alias⟩

def preCommon : List Param :=
  [imm "hvsrpy_version", imm "orient_to_degrees_from_north",
   ⟨"filter_corner_frequencies_in_hz", .list, .deepcopy⟩,
   imm "window_length_in_seconds", imm "detrend", imm "ignore_dissimilar_time_step_warning"]

def procCommon : List Param :=
  [imm "hvsrpy_version",
   ⟨"window_type_and_width", .list, .deepcopy⟩,
   ⟨"smoothing", .dict, .deepcopyDict⟩,
   imm "fft_settings", imm "handle_dissimilar_time_steps_by"]

/-- the eight concrete classes of `hvsrpy/settings.py` (`self.attrs` order). `fft_settings`
(dict or None) and `instrument_transfer_function` (object or None) are stored by alias. -/
def settingsParams : Table
  | .hvsrPre => preCommon ++ [imm "preprocessing_method"]
  | .psdPre => preCommon ++
      [⟨"window_type_and_width", .list, .deepcopy⟩, imm "fft_settings",
       imm "instrument_transfer_function", imm "differentiate", imm "preprocessing_method"]
  | .psdProc => procCommon ++ [imm "processing_method"]
  | .trad => procCommon ++ [imm "processing_method", imm "method_to_combine_horizontals"]
  | .singleAz => procCommon ++
      [imm "processing_method", imm "method_to_combine_horizontals", imm "azimuth_in_degrees"]
  | .rotDpp => procCommon ++
      [imm "processing_method", imm "method_to_combine_horizontals",
       imm "ppth_percentile_for_rotdpp_computation",
       ⟨"azimuths_in_degrees", .ndarray, .npArray⟩]
  | .azimuthal => procCommon ++
      [imm "processing_method", ⟨"azimuths_in_degrees", .ndarray, .deepcopy⟩]
  | .diffuse => procCommon ++ [imm "processing_method"]

/-- the table in the form the extractor emits: class name ↦ (attribute, default kind, store kind) -/
def encodeTable (t : Table) : List (String × List (String × Nat × Nat)) :=
  Class.all.map fun c => (c.name, (t c).map fun p => (p.name, p.dflt.code, p.store.code))

def settingsTable : List (String × List (String × Nat × Nat)) := encodeTable settingsParams

/-- a copy of kind `s` of a default of kind `d` shares no mutable object with the default -/
def kindOK : StoreKind → DKind → Bool
  | _, .imm => true
  | .alias, _ => false
  | .copy, .dict => false
  | _, _ => true

/-- **the hypothesis of non-interference on the class table** (decidable): every parameter whose
default value is mutable is stored by a copy deep enough for the kind of that value -/
def tableOK (t : Table) : Bool :=
  Class.all.all fun c => (t c).all fun p => kindOK p.store p.dflt

/-- the value has the shape announced by the default kind -/
def shapeOK : DKind → Val → Bool
  | .imm, v => v.isSc
  | .list, .node _ .list cs => cs.all Val.isSc
  | .ndarray, .node _ .arr cs => cs.all Val.isSc
  | .dict, .node _ (.dict _) _ => true
  | _, _ => false

/-- value-level version of `kindOK`: storing `v` by `s` creates no alias of a container -/
def deepEnough : StoreKind → Val → Bool
  | .alias, v => v.ids.isEmpty
  | .copy, .sc _ => true
  | .copy, .node _ _ cs => (idsL cs).isEmpty
  | _, _ => true

/-! ## state -/

structure Group where
  cls : Option Class
  fields : List (String × Val)
  deriving Repr, Inhabited

abbrev File := List (String × Json)

structure State where
  next : Nat
  groups : List Group
  files : List File
  deriving Repr, Inhabited

def upsert (fs : List (String × Val)) (k : String) (v : Val) : List (String × Val) :=
  match fs with
  | [] => [(k, v)]
  | (k', v') :: rest => if k' = k then (k, v) :: rest else (k', v') :: upsert rest k v

def idsF : List (String × Val) → List Nat
  | [] => []
  | (_, v) :: rest => v.ids ++ idsF rest

def Group.ids (g : Group) : List Nat := idsF g.fields

def substF (l : Nat) (k' : Kind) (cs' : List Val) : List (String × Val) → List (String × Val)
  | [] => []
  | (n, v) :: rest => (n, v.subst l k' cs') :: substF l k' cs' rest

def Group.subst (l : Nat) (k' : Kind) (cs' : List Val) (g : Group) : Group :=
  { g with fields := substF l k' cs' g.fields }

def gkey (c : Class) (p : String) : String := c.name ++ "." ++ p

/-- where a constructor argument comes from -/
inductive Src
  | dflt               -- parameter omitted: the default object of the signature
  | lit (v : Val)      -- an expression evaluated at the call (a new object)
  | var (x : String)   -- a variable of the caller (group 1): the same object may be passed again
  deriving Repr, Inhabited

inductive Op
  | construct (c : Class) (args : List (String × Src))
  | mutate (g : Nat) (attr : String) (path : List Step) (last : Step) (v : Val)
  | assign (g : Nat) (attr : String) (v : Val)
  | assignVar (g : Nat) (attr : String) (x : String)
  | save (g : Nat)
  | load (g : Nat) (f : Nat)
  | dispatchLoad (f : Nat)
  deriving Repr, Inhabited

/-! ## constructor -/

/-- `np.array(x)` for a flat sequence of numbers of one kind (ints or floats); anything else is
outside the model's domain (dtype inference / coercion is numpy's business) -/
def toArray (n : Nat) : Val → Option (Val × Nat)
  | .node _ k cs =>
    match k with
    | .dict _ => none
    | _ =>
      if cs.all (fun c => match c with | .sc (.int _) => true | _ => false)
         || cs.all (fun c => match c with | .sc (.flt _) => true | _ => false)
      then some (.node n .arr cs, n + 1) else none
  | .sc _ => none

def storeVal (s : StoreKind) (n : Nat) (v : Val) : Option (Val × Nat) :=
  match s with
  | .alias => some (v, n)
  | .copy =>
    match v with
    | .sc x => some (.sc x, n)
    | .node _ k cs => some (.node n k cs, n + 1)
  | .npArray => toArray n v
  | .deepcopy => some (v.relabel n)
  | .deepcopyDict =>
    match v with
    | .node _ (.dict _) _ => some (v.relabel n)
    | _ => none

def State.lookup (σ : State) (g : Nat) (name : String) : Option Val :=
  match σ.groups[g]? with
  | some grp => grp.fields.lookup name
  | none => none

def srcVal (σ : State) (n : Nat) (c : Class) (p : String) : Src → Option (Val × Nat)
  | .dflt => (σ.lookup 0 (gkey c p)).map fun v => (v, n)
  | .lit v => some (v.relabel n)
  | .var x => (σ.lookup 1 x).map fun v => (v, n)

/-- the constructor chain: one field per entry of `self.attrs` -/
def buildFields (σ : State) (c : Class) (args : List (String × Src)) :
    List Param → Nat → Option (List (String × Val) × Nat)
  | [], n => some ([], n)
  | p :: ps, n =>
    match srcVal σ n c p.name ((args.lookup p.name).getD .dflt) with
    | none => none
    | some (v, n1) =>
      match storeVal p.store n1 v with
      | none => none
      | some (w, n2) =>
        match buildFields σ c args ps n2 with
        | none => none
        | some (rest, n3) => some ((p.name, w) :: rest, n3)

def construct (t : Table) (σ : State) (c : Class) (args : List (String × Src)) : Option State :=
  if args.all (fun a => (t c).any (fun p => p.name = a.1)) then
    match buildFields σ c args (t c) σ.next with
    | some (fs, n) => some { σ with next := n, groups := σ.groups ++ [⟨some c, fs⟩] }
    | none => none
  else none

/-! ## observation, files -/

def attrsCanon (fs : List (String × Val)) : List Param → Option (List (String × Json))
  | [] => some []
  | p :: ps =>
    match fs.lookup p.name, attrsCanon fs ps with
    | some v, some rest => some ((p.name, v.canon) :: rest)
    | _, _ => none

/-- `obj.attr_dict`, tuples and arrays read as lists -/
def attrDict (t : Table) (σ : State) (g : Nat) : Option (List (String × Json)) :=
  match σ.groups[g]? with
  | some ⟨some c, fs⟩ => attrsCanon fs (t c)
  | _ => none

/-- `attr_dict` converts an ndarray only when it is the attribute itself or a direct value of a
dict-valued attribute; `json.dump` raises `TypeError` on any other -/
def dumpable : Val → Bool
  | .sc _ => true
  | .node _ .arr _ => true
  | .node _ (.dict _) cs => cs.all fun c => match c with
      | .node _ .arr _ => true
      | c => !c.hasArr
  | .node _ _ cs => !hasArrL cs

def dumpableAll (fs : List (String × Val)) : List Param → Bool
  | [] => true
  | p :: ps => (match fs.lookup p.name with | some v => dumpable v | none => false) && dumpableAll fs ps

def save (t : Table) (σ : State) (g : Nat) : Option State :=
  match σ.groups[g]? with
  | some ⟨some c, fs⟩ =>
    if dumpableAll fs (t c) then
      match attrsCanon fs (t c) with
      | some f => some { σ with files := σ.files ++ [f] }
      | none => none
    else none
  | _ => none

/-- `for key, value in json.load(f).items(): setattr(self, key, value)` -/
def loadFields : List (String × Val) → Nat → File → List (String × Val) × Nat
  | fs, n, [] => (fs, n)
  | fs, n, (k, j) :: rest => let r := j.toVal n; loadFields (upsert fs k r.1) r.2 rest

def load (σ : State) (g : Nat) (f : Nat) : Option State :=
  match σ.groups[g]?, σ.files[f]? with
  | some grp, some file =>
    let r := loadFields grp.fields σ.next file
    some { σ with next := r.2, groups := σ.groups.set g { grp with fields := r.1 } }
  | _, _ => none

/-! ## the type-dispatching reader -/

/-- `read_settings_object_from_file`: first key present decides the group of rules; within it the
first rule with the stored value; a rule may look at a second key `key₂` (`""` = none), whose listed
values select a class and any other value (the `else` branch) the rule's own class; a missing second
key raises. Entry: `(key, [(value, class, key₂, [(value₂, class₂)])])`. -/
abbrev DispatchTable := List (String × List (String × String × String × List (String × String)))

def dispatchTable : DispatchTable :=
  [("preprocessing_method",
      [("psd", "PsdPreProcessingSettings", "", []),
       ("hvsr", "HvsrPreProcessingSettings", "", [])]),
   ("processing_method",
      [("psd", "PsdProcessingSettings", "", []),
       ("azimuthal", "HvsrAzimuthalProcessingSettings", "", []),
       ("diffuse_field", "HvsrDiffuseFieldProcessingSettings", "", []),
       ("traditional", "HvsrTraditionalProcessingSettings", "method_to_combine_horizontals",
            [("rotdpp", "HvsrTraditionalRotDppProcessingSettings"),
             ("single_azimuth", "HvsrTraditionalSingleAzimuthProcessingSettings"),
             ("directional_energy", "HvsrTraditionalSingleAzimuthProcessingSettings")])])]

def Class.ofName (s : String) : Option Class := Class.all.find? fun c => c.name = s

def Json.str? : Json → Option String
  | .sc (.str s) => some s
  | _ => none

/-- `==` of a loaded JSON value with a string constant -/
def Json.isStr (j : Json) (s : String) : Bool := j.str? = some s

def dispatchRules (file : File) (val : Json) :
    List (String × String × String × List (String × String)) → Option String
  | [] => none
  | (v, cls, k2, alts) :: rest =>
    if val.isStr v then
      if k2 = "" then some cls
      else
        match file.lookup k2 with
        | none => none
        | some j2 =>
          match alts.find? (fun a => j2.isStr a.1) with
          | some a => some a.2
          | none => some cls
    else dispatchRules file val rest

def dispatchWith (tbl : DispatchTable) (file : File) : Option Class :=
  match tbl.find? (fun e => (file.lookup e.1).isSome) with
  | none => none
  | some (k, rules) =>
    match file.lookup k with
    | none => none
    | some val => (dispatchRules file val rules).bind Class.ofName

/-- class chosen by `read_settings_object_from_file` for the content of a file -/
def dispatch (file : File) : Option Class := dispatchWith dispatchTable file

/-- `TRADITIONAL_PROCESSING_REGISTER` of `processing.py`: registered value of
`method_to_combine_horizontals` ↦ name of the processing function (sorted by key) -/
def traditionalRegister : List (String × String) :=
  [("arithmetic_mean", "traditional_hvsr_processing"),
   ("directional_energy", "traditional_single_azimuth_hvsr_processing"),
   ("effective_amplitude_spectrum", "traditional_hvsr_processing"),
   ("geometric_mean", "traditional_hvsr_processing"),
   ("maximum_horizontal_value", "traditional_hvsr_processing"),
   ("quadratic_mean", "traditional_hvsr_processing"),
   ("root_mean_square", "traditional_hvsr_processing"),
   ("rotdpp", "traditional_rotdpp_hvsr_processing"),
   ("single_azimuth", "traditional_single_azimuth_hvsr_processing"),
   ("squared_average", "traditional_hvsr_processing"),
   ("total_horizontal_energy", "traditional_hvsr_processing"),
   ("vector_summation", "traditional_hvsr_processing")]

/-- the settings class each traditional processing function is written for -/
def classOfProcessingFn : String → Option Class
  | "traditional_single_azimuth_hvsr_processing" => some .singleAz
  | "traditional_rotdpp_hvsr_processing" => some .rotDpp
  | "traditional_hvsr_processing" => some .trad
  | _ => none

/-! ## transition function -/

def mutate (σ : State) (g : Nat) (attr : String) (path : List Step) (last : Step) (v : Val) :
    Option State :=
  match σ.lookup g attr with
  | none => none
  | some root =>
    match resolve root path with
    | none => none
    | some (l, k, cs) =>
      match writeAt k cs last (v.relabel σ.next).1 with
      | none => none
      | some (k', cs') =>
        some { σ with next := (v.relabel σ.next).2, groups := σ.groups.map (Group.subst l k' cs') }

def setField (σ : State) (g : Nat) (attr : String) (v : Val) (n : Nat) : Option State :=
  match σ.groups[g]? with
  | some grp => some { σ with next := n, groups := σ.groups.set g { grp with fields := upsert grp.fields attr v } }
  | none => none

def dispatchLoad (t : Table) (σ : State) (f : Nat) : Option State :=
  match σ.files[f]? with
  | none => none
  | some file =>
    match dispatch file with
    | none => none
    | some c =>
      match construct t σ c [] with
      | none => none
      | some σ1 => load σ1 σ.groups.length f

def step (t : Table) (σ : State) : Op → Option State
  | .construct c args => construct t σ c args
  | .mutate g attr path last v => mutate σ g attr path last v
  | .assign g attr v => let r := v.relabel σ.next; setField σ g attr r.1 r.2
  | .assignVar g attr x =>
    match σ.lookup 1 x with
    | some v => setField σ g attr v σ.next
    | none => none
  | .save g => save t σ g
  | .load g f => load σ g f
  | .dispatchLoad f => dispatchLoad t σ f

/-- an operation that raises leaves the state as it was -/
def stepD (t : Table) (σ : State) (op : Op) : State := (step t σ op).getD σ

def run (t : Table) (σ : State) (ops : List Op) : State := ops.foldl (stepD t) σ

/-- the group an operation works on; a constructor / the reader work on the group they create -/
def Op.target (σ : State) : Op → Nat
  | .construct _ _ => σ.groups.length
  | .mutate g _ _ _ _ => g
  | .assign g _ _ => g
  | .assignVar g _ _ => g
  | .save g => g
  | .load g _ => g
  | .dispatchLoad _ => σ.groups.length

/-- operations covered by the non-interference theorem: nothing is done to group 0 (the default
objects are not reachable through the settings API); the caller does not itself install one of
its objects in an attribute (`assignVar` is plain Python aliasing); and a *variable* of the caller
is passed only to parameters whose constructor copies deeply (`deepcopy`, `np.array`).
For the table of the current tree this excludes exactly: passing a caller-held dict / object as
`fft_settings` or `instrument_transfer_function` (stored by alias — findings C15-c, C15-d). -/
def Op.safe (t : Table) : Op → Bool
  | .construct c args => args.all fun a =>
      match a.2 with
      | .var _ => (t c).all fun p => p.name != a.1 ||
          (match p.store with | .npArray | .deepcopy | .deepcopyDict => true | _ => false)
      | _ => true
  | .mutate g _ _ _ _ => g != 0
  | .assign g _ _ => g != 0
  | .assignVar _ _ _ => false
  | .save _ => true
  | .load g _ => g != 0
  | .dispatchLoad _ => true

/-- initial state: default objects `d` in group 0 (allocated below `n`), no caller variables -/
def initState (d : List (String × Val)) (n : Nat) : State :=
  { next := n, groups := [⟨none, d⟩, ⟨none, []⟩], files := [] }

/-- the default objects have the shapes the table announces -/
def conforms (t : Table) (d : List (String × Val)) : Bool :=
  Class.all.all fun c => (t c).all fun p =>
    match d.lookup (gkey c p.name) with
    | some v => shapeOK p.dflt v
    | none => false

end HV.Settings
