import HvsrVerif.Scalar
/-!
# Peak search (C08, used by C05 C06 C11 C12 C16 C20)

Mirrors `hvsrpy/hvsr_curve.py`:
`_search_range_to_index_range`, `_find_peak_bounded`, `_find_peak_unbounded`.
`scipy.signal.find_peaks` with default options is modelled by the input/output
contract of `_local_maxima_1d`: the midpoints `(l+r)/2` of the maximal runs of
equal samples `x[l..r]` with `0 < l`, `r+1 < n`, `x[l-1] < x[l]`, `x[r+1] < x[r]`.
-/
namespace HV
variable {α : Type} [Arith α]

/-- first index of the minimum of `|freq[i] - f|` (`np.argmin(np.abs(frequency - f))`) -/
def nearestIdxAux (f : α) : List α → Nat → Nat → α → Nat
  | [], _, best, _ => best
  | x :: xs, i, best, bestD =>
    let d := absA (x - f)
    if d < bestD then nearestIdxAux f xs (i+1) i d else nearestIdxAux f xs (i+1) best bestD

def nearestIdx (freq : List α) (f : α) : Nat :=
  match freq with
  | [] => 0
  | x :: xs => nearestIdxAux f xs 1 0 (absA (x - f))

/-- `_search_range_to_index_range`: the slice runs from the sample nearest to the lower limit through the sample
nearest to the upper limit (both are edges of the slice and can never be reported as peaks) -/
def rangeToIdx (freq : List α) (r : Option α × Option α) : Nat × Nat :=
  (match r.1 with | none => 0 | some lo => nearestIdx freq lo,
   match r.2 with | none => freq.length | some hi => nearestIdx freq hi + 1)

/-- python slice `l[lo:hi]` for `0 ≤ lo, hi` -/
def pySlice {β : Type} (l : List β) (lo hi : Nat) : List β := (l.take hi).drop lo

/-- number of consecutive samples immediately left of index `i` equal to `v` -/
def runLeft (x : List α) (v : α) : Nat → Nat
  | 0 => 0
  | i+1 => match x[i]? with
    | some y => if eqA y v then runLeft x v i + 1 else 0
    | none => 0

/-- number of consecutive samples immediately right of index `i` equal to `v` (fuel `k`) -/
def runRight (x : List α) (v : α) (i : Nat) : Nat → Nat
  | 0 => 0
  | k+1 => match x[i+1]? with
    | some y => if eqA y v then runRight x v (i+1) k + 1 else 0
    | none => 0

/-- bounds `(l, r)` of the maximal run of samples equal to `x[i]` around `i` -/
def plateauBounds (x : List α) (i : Nat) : Nat × Nat :=
  match x[i]? with
  | none => (i, i)
  | some v => (i - runLeft x v i, i + runRight x v i (x.length - i))

/-- `i` is the reported midpoint of an interior plateau with strictly lower neighbours -/
def isPlateauMid (x : List α) (i : Nat) : Bool :=
  match x[i]? with
  | none => false
  | some v =>
    let (l, r) := plateauBounds x i
    decide (0 < l) && decide (r + 1 < x.length) &&
    (match x[l-1]? with | some a => decide (a < v) | none => false) &&
    (match x[r+1]? with | some b => decide (b < v) | none => false) &&
    decide (i = (l + r) / 2)

/-- indices `scipy.signal.find_peaks(x)` returns (default options) -/
def localMaxima (x : List α) : List Nat := (List.range x.length).filter (isPlateauMid x)

/-- `np.argmax` over `idxs.map (amp[·])`: first index (in `idxs` order) with the largest value -/
def argmaxOn (amp : List α) : List Nat → Option (Nat × α)
  | [] => none
  | i :: is =>
    match amp[i]? with
    | none => argmaxOn amp is
    | some a =>
      match argmaxOn amp is with
      | none => some (i, a)
      | some (j, b) => if a < b then some (j, b) else some (i, a)

/-- `_find_peak_unbounded` (default `find_peaks` options) -/
def findPeakUnbounded (freq amp : List α) : Option (α × α) :=
  match argmaxOn amp (localMaxima amp) with
  | none => none
  | some (i, a) => match freq[i]? with
    | some f => some (f, a)
    | none => none

/-- `_find_peak_bounded` -/
def findPeakBounded (freq amp : List α) (r : Option α × Option α) : Option (α × α) :=
  let (lo, hi) := rangeToIdx freq r
  findPeakUnbounded (pySlice freq lo hi) (pySlice amp lo hi)

/-- `sesame.peak_index`: index (not frequency) of the highest local maximum -/
def peakIndex (curve : List α) : Option Nat := (argmaxOn curve (localMaxima curve)).map (·.1)

end HV
