/-!
# Command line batch processing (C19)

Mirrors `hvsrpy/cli.py` (`cli`, `_process_hvsr`) and `hvsrpy/processing.py`
(`nextpow2`, `prepare_fft_settings`).  Import-free and computable.

Abstraction.  The only state that a task of the batch writes into an object that outlives
the task is `processing_settings.fft_settings["n"]` (written by `prepare_fft_settings`).
An input file is therefore abstracted by the number of samples per window it yields after
preprocessing (`File = Nat`; that number alone determines the FFT length), a processing
settings object by its `FftState`, and the CSV written for a file by `out n file`, an
arbitrary function of the FFT length that was used and of the file.

What is *not* modelled (trusted, see harness/c19.py): which OS process executes which
chunk, pickling of the arguments, the CPython implementation of `Pool.starmap`.  `chunks`
mirrors `Pool._get_tasks`; the property theorem quantifies over every list of chunks.
-/
namespace HV.Cli

/-! ## `nextpow2` -/

/-- the loop of `nextpow2`: `while True: if p > n: return p; p *= 2`.
Terminates because `p` is positive and doubles: the distance `n + 1 - p` decreases. -/
def nextpow2Loop (n p : Nat) (hp : 0 < p) : Nat :=
  if p > n then p else nextpow2Loop n (p * 2) (by omega)
termination_by n + 1 - p
decreasing_by omega

/-- `nextpow2(n, minimum_power_of_two=2**15)`.  The Python loop does not terminate for a
non-positive start value; the model requires the start to be positive. -/
def nextpow2 (n : Nat) (min : Nat := 2 ^ 15) (hmin : 0 < min := by decide) : Nat :=
  nextpow2Loop n min hmin

/-! ## `prepare_fft_settings` -/

/-- `settings.fft_settings`: `None`, a dict without the key `"n"`, `{"n": None}`, `{"n": k}`
(other keys of the dict are passed on to `rfft` unchanged and are not modelled) -/
inductive FftState where
  | unset
  | noKey
  | nNone
  | n (k : Nat)
  deriving DecidableEq, Repr, Inhabited

/-- the FFT length stored in the settings (`fft_settings["n"]`), if there is one -/
def FftState.len : FftState → Option Nat
  | .n k => some k
  | _ => none

/-- `good_n = nextpow2(max_n_samples)` (default minimum `2**15`) -/
def goodN (maxN : Nat) : Nat := nextpow2 maxN

/-- `prepare_fft_settings(records, settings)`; `maxN` = the largest `record.vt.n_samples`.
```
good_n = nextpow2(max_n_samples)
if settings.fft_settings is None: settings.fft_settings = dict(n=good_n)
else:
    user_n = settings.fft_settings.get("n", max_n_samples)
    if user_n is None: settings.fft_settings["n"] = max_n_samples
    else: settings.fft_settings["n"] = good_n if good_n > user_n else user_n
``` -/
def prepareFft (s : FftState) (maxN : Nat) : FftState :=
  let good := goodN maxN
  match s with
  | .unset => .n good
  | .noKey => .n (if good > maxN then good else maxN)
  | .nNone => .n maxN
  | .n user => .n (if good > user then good else user)

/-! ## one task, one chunk, one batch -/

/-- a file, abstracted by its number of samples per window -/
abbrev File := Nat

def iter {σ : Type} (f : σ → σ) : Nat → σ → σ
  | 0, s => s
  | k + 1, s => iter f k (f s)

/-- state of the settings object a task works on, after the task.  `reps` = number of
`prepare_fft_settings` calls on that object during `hvsrpy.process` (1 for the traditional
and diffuse-field methods, 1 + number of azimuths for `azimuthal`, whose single-azimuth
settings share the `fft_settings` dict). -/
def runTask (reps : Nat) (s : FftState) (file : File) : FftState :=
  iter (fun t => prepareFft t file) reps s

/-- how `_process_hvsr` treats the settings object it receives:
`fresh` = works on `copy.deepcopy` of it (the tree under verification),
`shared` = works on the object itself (the code before the repair of finding C19-a) -/
inductive Mode where
  | fresh
  | shared
  deriving DecidableEq, Repr

/-- `starmapstar` on one chunk.  All argument tuples of a chunk are unpickled together, so
they reference ONE settings object, whose state `cur` is threaded through the tasks. -/
def runChunk {β : Type} (mode : Mode) (reps : Nat) (out : Option Nat → File → β) :
    FftState → List File → List β
  | _, [] => []
  | cur, file :: rest =>
    let after := runTask reps cur file
    out after.len file ::
      runChunk mode reps out (match mode with | .fresh => cur | .shared => after) rest

/-- the result of the library pipeline for the file alone with freshly loaded settings -/
def alone {β : Type} (reps : Nat) (loaded : FftState) (out : Option Nat → File → β) (file : File) : β :=
  out (runTask reps loaded file).len file

/-- `Pool._get_tasks(func, it, size)`: consecutive slices of `size` elements; nothing for
`size = 0` (`islice(it, 0)` is empty and the generator returns at once) -/
def chunksOf {γ : Type} (size : Nat) (l : List γ) : List (List γ) :=
  if _h : l = [] ∨ size = 0 then [] else l.take size :: chunksOf size (l.drop size)
termination_by l.length
decreasing_by
  have h1 : l ≠ [] := fun e => _h (Or.inl e)
  have h2 : size ≠ 0 := fun e => _h (Or.inr e)
  have : 0 < l.length := List.length_pos_iff.mpr h1
  simp only [List.length_drop]
  omega

/-- `chunksize=max(1, ntasks//nproc)` -/
def chunkSize (ntasks nproc : Nat) : Nat := max 1 (ntasks / nproc)

/-- the chunks `p.starmap(..., chunksize=max(1, ntasks//nproc))` hands to the workers -/
def chunks {γ : Type} (tasks : List γ) (nproc : Nat) : List (List γ) :=
  chunksOf (chunkSize tasks.length nproc) tasks

/-- a batch = the chunks, in any order and on any worker: every chunk arrives at its worker
as a freshly unpickled copy of the parent's (never modified) `loaded` settings -/
def runBatch {β : Type} (mode : Mode) (reps : Nat) (loaded : FftState) (out : Option Nat → File → β)
    (chunkList : List (List File)) : List (List β) :=
  chunkList.map (runChunk mode reps out loaded)

/-- a schedule = for every worker process the chunks it executes, in execution order (decided by
the operating system).  A worker keeps no settings between chunks: the arguments of every chunk
are unpickled anew. -/
def runSchedule {β : Type} (mode : Mode) (reps : Nat) (loaded : FftState) (out : Option Nat → File → β)
    (schedule : List (List (List File))) : List (List (List β)) :=
  schedule.map (runBatch mode reps loaded out)

/-- `cli`: `Pool(min(ntasks, nproc))` raises `ValueError` when there is no file or `nproc < 1`;
otherwise every file of the batch is paired with what is written to `<stem>.csv` -/
def cliBatch {β : Type} (mode : Mode) (reps : Nat) (loaded : FftState) (out : Option Nat → File → β)
    (tasks : List File) (nproc : Nat) : Except String (List (File × β)) :=
  if tasks.length = 0 ∨ nproc = 0 then .error "ValueError"
  else .ok (tasks.zip (runBatch mode reps loaded out (chunks tasks nproc)).flatten)

end HV.Cli
