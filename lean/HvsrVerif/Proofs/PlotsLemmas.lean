import HvsrVerif.Proofs.StatsLemmas
import HvsrVerif.Model.Plots
/-!
# Helper lemmas about `Model/Plots.lean` (C20): styles of the pieces of a panel, decomposition of a drawn panel
-/
namespace HV.C20
open HV Classical

theorem individualLines_style (v : Bool) (s : HvTrad ℝ) :
    ∀ x ∈ individualLines v s, x.style = (if v then StyleClass.acceptedCurve else StyleClass.rejectedCurve) := by
  intro x hx
  unfold individualLines curveLines at hx
  cases v <;> simp only [if_true, if_false, Bool.false_eq_true, List.mem_map] at hx ⊢ <;>
    (obtain ⟨r, _, rfl⟩ := hx; rfl)

theorem peakMarkerLines_style (v : Bool) (s : HvTrad ℝ) :
    ∀ x ∈ peakMarkerLines v s,
      x.style = (if v then StyleClass.peakIndividualValid else StyleClass.peakIndividualInvalid) := by
  intro x hx
  unfold peakMarkerLines at hx
  cases v <;> simp only [if_true, if_false, Bool.false_eq_true] at hx ⊢ <;> split at hx
  · cases hx
  · rw [List.mem_singleton] at hx
    rw [hx]
  · cases hx
  · rw [List.mem_singleton] at hx
    rw [hx]

/-- the four style classes that show statistics -/
def IsStatStyle (c : StyleClass) : Prop :=
  c = .meanCurve ∨ c = .stdCurve ∨ c = .fnBand ∨ c = .peakMeanCurve

theorem meanStdLines_style (o : PanelOpts) (st : PanelStats ℝ) (l : List (Line ℝ)) (h : meanStdLines o st = .ok l) :
    ∀ x ∈ l, x.style = .meanCurve ∨ x.style = .stdCurve := by
  unfold meanStdLines at h
  split at h
  · simp only [bind, Except.bind] at h
    split at h
    · cases h
    · split at h
      · simp only [pure, Except.pure, Except.ok.injEq] at h
        subst h
        intro x hx
        rw [List.mem_singleton] at hx
        subst hx
        exact Or.inl rfl
      · split at h
        · cases h
        · split at h
          · cases h
          · simp only [pure, Except.pure, Except.ok.injEq] at h
            subst h
            intro x hx
            simp only [List.mem_cons, List.not_mem_nil, or_false] at hx
            rcases hx with rfl | rfl | rfl
            · exact Or.inl rfl
            · exact Or.inr rfl
            · exact Or.inr rfl
  · simp only [pure, Except.pure, Except.ok.injEq] at h
    subst h
    intro x hx
    cases hx

theorem fnBandLines_style (o : PanelOpts) (st : PanelStats ℝ) (l : List (Line ℝ)) (h : fnBandLines o st = .ok l) :
    ∀ x ∈ l, x.style = .fnBand := by
  unfold fnBandLines at h
  split at h
  · simp only [bind, Except.bind] at h
    split at h
    · cases h
    · split at h
      · cases h
      · simp only [pure, Except.pure, Except.ok.injEq] at h
        subst h
        intro x hx
        rw [List.mem_singleton] at hx
        subst hx
        rfl
  · simp only [pure, Except.pure, Except.ok.injEq] at h
    subst h
    intro x hx
    cases hx

theorem peakMeanLine_eq (d : Dist) (st : PanelStats ℝ) (l : List (Line ℝ)) (h : peakMeanLine d st = .ok l) :
    ∃ p, st.meanCurvePeak d = .ok p ∧
      l = [{ style := .peakMeanCurve, x := [some p.1], y := [some p.2] }] := by
  unfold peakMeanLine at h
  cases h1 : st.meanCurvePeak d with
  | error e => simp [h1, bind, Except.bind] at h
  | ok p =>
    simp only [h1, bind, Except.bind, pure, Except.pure, Except.ok.injEq] at h
    exact ⟨p, rfl, h.symm⟩

theorem peakMeanLines_style (o : PanelOpts) (st : PanelStats ℝ) (l : List (Line ℝ)) (h : peakMeanLines o st = .ok l) :
    ∀ x ∈ l, x.style = .peakMeanCurve := by
  unfold peakMeanLines at h
  split at h
  · obtain ⟨p, _, rfl⟩ := peakMeanLine_eq _ _ _ h
    intro x hx
    rw [List.mem_singleton] at hx
    subst hx
    rfl
  · simp only [pure, Except.pure, Except.ok.injEq] at h
    subst h
    intro x hx
    cases hx

/-- decomposition of the statistics artists -/
theorem statLines_ok (o : PanelOpts) (st : PanelStats ℝ) (l : List (Line ℝ)) (h : statLines o st = .ok l) :
    ∃ l3 l4 l5, meanStdLines o st = .ok l3 ∧ fnBandLines o st = .ok l4 ∧ peakMeanLines o st = .ok l5 ∧
      l = l3 ++ l4 ++ l5 := by
  unfold statLines at h
  cases h3 : meanStdLines o st with
  | error e => simp [h3, bind, Except.bind] at h
  | ok l3 =>
    cases h4 : fnBandLines o st with
    | error e => simp [h3, h4, bind, Except.bind] at h
    | ok l4 =>
      cases h5 : peakMeanLines o st with
      | error e => simp [h3, h4, h5, bind, Except.bind] at h
      | ok l5 =>
        simp only [h3, h4, h5, bind, Except.bind, pure, Except.pure, Except.ok.injEq] at h
        exact ⟨l3, l4, l5, rfl, rfl, rfl, h.symm⟩

theorem statLines_style (o : PanelOpts) (st : PanelStats ℝ) (l : List (Line ℝ)) (h : statLines o st = .ok l) :
    ∀ x ∈ l, IsStatStyle x.style := by
  obtain ⟨l3, l4, l5, h3, h4, h5, rfl⟩ := statLines_ok o st l h
  intro x hx
  simp only [List.mem_append] at hx
  rcases hx with (hx | hx) | hx
  · rcases meanStdLines_style o st l3 h3 x hx with h | h
    · exact Or.inl h
    · exact Or.inr (Or.inl h)
  · exact Or.inr (Or.inr (Or.inl (fnBandLines_style o st l4 h4 x hx)))
  · exact Or.inr (Or.inr (Or.inr (peakMeanLines_style o st l5 h5 x hx)))

/-- decomposition of a successfully drawn panel, in drawing order -/
theorem panelLinesOf_ok (o : PanelOpts) (hs : List (HvTrad ℝ)) (st : PanelStats ℝ) (ls : List (Line ℝ))
    (h : panelLinesOf o hs st = .ok ls) :
    ∃ sl, statLines o st = .ok sl ∧
      ls = (if o.validCurves then hs.flatMap (individualLines true) else []) ++
           (if o.invalidCurves then hs.flatMap (individualLines false) else []) ++ sl ++
           (if o.peakValid then hs.flatMap (peakMarkerLines true) else []) ++
           (if o.peakInvalid then hs.flatMap (peakMarkerLines false) else []) := by
  unfold panelLinesOf at h
  cases hsl : statLines o st with
  | error e => simp [hsl, bind, Except.bind] at h
  | ok sl =>
    simp only [hsl, bind, Except.bind, pure, Except.pure, Except.ok.injEq] at h
    exact ⟨sl, rfl, h.symm⟩

theorem filter_all {β : Type} (p : β → Bool) (l : List β) (h : ∀ x ∈ l, p x = true) : l.filter p = l :=
  List.filter_eq_self.mpr h

theorem filter_none {β : Type} (p : β → Bool) (l : List β) (h : ∀ x ∈ l, p x = false) : l.filter p = [] := by
  rw [List.filter_eq_nil_iff]
  intro x hx
  simp [h x hx]

theorem filter_style_none (l : List (Line ℝ)) (c : StyleClass) (h : ∀ x ∈ l, x.style ≠ c) :
    l.filter (fun l => decide (l.style = c)) = [] := by
  apply filter_none
  intro x hx
  simp [h x hx]

theorem mem_flatMap_style (hs : List (HvTrad ℝ)) (f : HvTrad ℝ → List (Line ℝ)) (c : StyleClass)
    (hf : ∀ s, ∀ x ∈ f s, x.style = c) : ∀ x ∈ hs.flatMap f, x.style = c := by
  intro x hx
  rw [List.mem_flatMap] at hx
  obtain ⟨s, _, hx⟩ := hx
  exact hf s x hx

/-- filtering a successfully drawn panel by one of the two window-curve styles -/
theorem filter_curve_style (o : PanelOpts) (hs : List (HvTrad ℝ)) (st : PanelStats ℝ) (ls : List (Line ℝ))
    (h : panelLinesOf o hs st = .ok ls) (v : Bool) :
    ls.filter (fun l => decide (l.style = (if v then StyleClass.acceptedCurve else StyleClass.rejectedCurve))) =
      (if (if v then o.validCurves else o.invalidCurves) then hs.flatMap (individualLines v) else []) := by
  obtain ⟨sl, hsl, rfl⟩ := panelLinesOf_ok o hs st ls h
  have hstat := statLines_style o st sl hsl
  have hI : ∀ w, ∀ x ∈ hs.flatMap (individualLines w), x.style = (if w then StyleClass.acceptedCurve else StyleClass.rejectedCurve) :=
    fun w => mem_flatMap_style hs _ _ (fun s => individualLines_style w s)
  have hP : ∀ w, ∀ x ∈ hs.flatMap (peakMarkerLines w), x.style = (if w then StyleClass.peakIndividualValid else StyleClass.peakIndividualInvalid) :=
    fun w => mem_flatMap_style hs _ _ (fun s => peakMarkerLines_style w s)
  simp only [List.filter_append]
  have e3 : sl.filter (fun l => decide (l.style = (if v then StyleClass.acceptedCurve else StyleClass.rejectedCurve))) = [] := by
    apply filter_none
    intro x hx
    rcases hstat x hx with h | h | h | h <;> cases v <;> simp [h]
  have e6 : (if o.peakValid then hs.flatMap (peakMarkerLines true) else []).filter
      (fun l => decide (l.style = (if v then StyleClass.acceptedCurve else StyleClass.rejectedCurve))) = [] := by
    apply filter_none
    intro x hx
    split at hx
    · have := hP true x hx
      cases v <;> simp [this]
    · cases hx
  have e7 : (if o.peakInvalid then hs.flatMap (peakMarkerLines false) else []).filter
      (fun l => decide (l.style = (if v then StyleClass.acceptedCurve else StyleClass.rejectedCurve))) = [] := by
    apply filter_none
    intro x hx
    split at hx
    · have := hP false x hx
      cases v <;> simp [this]
    · cases hx
  rw [e3, e6, e7]
  cases v
  · -- rejected style
    have e1 : (if o.validCurves then hs.flatMap (individualLines true) else []).filter
        (fun l => decide (l.style = (if false then StyleClass.acceptedCurve else StyleClass.rejectedCurve))) = [] := by
      apply filter_none
      intro x hx
      split at hx
      · have := hI true x hx
        simp [this]
      · cases hx
    have e2 : (if o.invalidCurves then hs.flatMap (individualLines false) else []).filter
        (fun l => decide (l.style = (if false then StyleClass.acceptedCurve else StyleClass.rejectedCurve))) =
        (if o.invalidCurves then hs.flatMap (individualLines false) else []) := by
      apply filter_all
      intro x hx
      split at hx
      · have := hI false x hx
        simp [this]
      · cases hx
    rw [e1, e2]
    simp
  · have e1 : (if o.validCurves then hs.flatMap (individualLines true) else []).filter
        (fun l => decide (l.style = (if true then StyleClass.acceptedCurve else StyleClass.rejectedCurve))) =
        (if o.validCurves then hs.flatMap (individualLines true) else []) := by
      apply filter_all
      intro x hx
      split at hx
      · have := hI true x hx
        simp [this]
      · cases hx
    have e2 : (if o.invalidCurves then hs.flatMap (individualLines false) else []).filter
        (fun l => decide (l.style = (if true then StyleClass.acceptedCurve else StyleClass.rejectedCurve))) = [] := by
      apply filter_none
      intro x hx
      split at hx
      · have := hI false x hx
        simp [this]
      · cases hx
    rw [e1, e2]
    simp

/-- the mean/std block when it is drawn (not a diffuse-field object) -/
theorem meanStdLines_ok (o : PanelOpts) (st : PanelStats ℝ) (hd : st.diffuse = false) (hm : o.meanCurve = true)
    (l : List (Line ℝ)) (h : meanStdLines o st = .ok l) :
    ∃ mc sc, st.meanCurve o.dMc = .ok mc ∧ st.stdCurve o.dMc = .ok sc ∧
      l = [{ style := .meanCurve, x := st.freq.map some, y := mc },
           { style := .stdCurve, x := st.freq.map some, y := nthCurve 1 o.dMc mc sc },
           { style := .stdCurve, x := st.freq.map some, y := nthCurve (-1) o.dMc mc sc }] := by
  unfold meanStdLines at h
  rw [if_pos hm] at h
  simp only [bind, Except.bind, hd, Bool.false_eq_true, if_false] at h
  unfold PanelStats.nthStdCurve at h
  simp only [bind, Except.bind] at h
  cases h1 : st.meanCurve o.dMc with
  | error e => simp [h1] at h
  | ok mc =>
    cases h2 : st.stdCurve o.dMc with
    | error e => simp [h1, h2] at h
    | ok sc =>
      simp only [h1, h2, pure, Except.pure, Except.ok.injEq] at h
      refine ⟨mc, sc, rfl, rfl, ?_⟩
      rw [← h]
      simp [ofNat_real]

theorem fnBandLines_ok (o : PanelOpts) (st : PanelStats ℝ) (hd : st.diffuse = false) (hf : o.freqStd = true)
    (l : List (Line ℝ)) (h : fnBandLines o st = .ok l) :
    ∃ lo hi, st.nthFn (-1) o.dFn = .ok lo ∧ st.nthFn 1 o.dFn = .ok hi ∧
      l = [{ style := .fnBand, x := [lo, lo, hi, hi], y := [some 0, some 100, some 100, some 0] }] := by
  unfold fnBandLines at h
  simp only [hf, hd, Bool.not_false, Bool.and_true, if_true, bind, Except.bind, ofNat_real, Nat.cast_one] at h
  cases h1 : st.nthFn (-1) o.dFn with
  | error e => simp [h1] at h
  | ok lo =>
    cases h2 : st.nthFn 1 o.dFn with
    | error e => simp [h1, h2] at h
    | ok hi =>
      simp only [h1, h2, pure, Except.pure, Except.ok.injEq] at h
      refine ⟨lo, hi, rfl, rfl, ?_⟩
      rw [← h]
      simp

theorem maskSel_length {β : Type} (l : List β) (m : List Bool) (h : m.length = l.length) :
    (maskSel l m).length = countTrue m := by
  unfold maskSel countTrue
  induction l generalizing m with
  | nil => cases m <;> simp at h ⊢
  | cons a t ih =>
    cases m with
    | nil => simp at h
    | cons b bs =>
      have := ih bs (by simpa using h)
      cases b <;> simp [this]

theorem countTrue_notMask (m : List Bool) : countTrue (notMask m) = m.length - countTrue m := by
  unfold countTrue notMask
  induction m with
  | nil => rfl
  | cons b bs ih =>
    have hle : (bs.filter id).length ≤ bs.length := List.length_filter_le _ _
    cases b
    all_goals simp [ih]
    all_goals (try omega)


theorem ite_flatMap_style (b : Bool) (hs : List (HvTrad ℝ)) (f : HvTrad ℝ → List (Line ℝ)) (c : StyleClass)
    (hf : ∀ s, ∀ x ∈ f s, x.style = c) : ∀ x ∈ (if b then hs.flatMap f else []), x.style = c := by
  intro x hx
  split at hx
  · exact mem_flatMap_style hs f c hf x hx
  · cases hx

/-- filtering a drawn panel by a statistics style only sees the statistics block -/
theorem filter_stat_style (o : PanelOpts) (hs : List (HvTrad ℝ)) (st : PanelStats ℝ) (ls : List (Line ℝ))
    (h : panelLinesOf o hs st = .ok ls) (c : StyleClass) (hc : IsStatStyle c) :
    ∃ l3 l4 l5, meanStdLines o st = .ok l3 ∧ fnBandLines o st = .ok l4 ∧ peakMeanLines o st = .ok l5 ∧
      ls.filter (fun l => decide (l.style = c)) =
        l3.filter (fun l => decide (l.style = c)) ++ l4.filter (fun l => decide (l.style = c)) ++
        l5.filter (fun l => decide (l.style = c)) := by
  obtain ⟨sl, hsl, rfl⟩ := panelLinesOf_ok o hs st ls h
  obtain ⟨l3, l4, l5, h3, h4, h5, rfl⟩ := statLines_ok o st sl hsl
  refine ⟨l3, l4, l5, h3, h4, h5, ?_⟩
  have n1 := ite_flatMap_style o.validCurves hs _ _ (fun s => individualLines_style true s)
  have n2 := ite_flatMap_style o.invalidCurves hs _ _ (fun s => individualLines_style false s)
  have n6 := ite_flatMap_style o.peakValid hs _ _ (fun s => peakMarkerLines_style true s)
  have n7 := ite_flatMap_style o.peakInvalid hs _ _ (fun s => peakMarkerLines_style false s)
  simp only [if_true, if_false, Bool.false_eq_true] at n1 n2 n6 n7
  simp only [List.filter_append]
  rw [filter_style_none (if o.validCurves then hs.flatMap (individualLines true) else []) c
        (fun x hx => by rw [n1 x hx]; rcases hc with h | h | h | h <;> rw [h] <;> decide),
      filter_style_none (if o.invalidCurves then hs.flatMap (individualLines false) else []) c
        (fun x hx => by rw [n2 x hx]; rcases hc with h | h | h | h <;> rw [h] <;> decide),
      filter_style_none (if o.peakValid then hs.flatMap (peakMarkerLines true) else []) c
        (fun x hx => by rw [n6 x hx]; rcases hc with h | h | h | h <;> rw [h] <;> decide),
      filter_style_none (if o.peakInvalid then hs.flatMap (peakMarkerLines false) else []) c
        (fun x hx => by rw [n7 x hx]; rcases hc with h | h | h | h <;> rw [h] <;> decide)]
  simp

/-- filtering a drawn panel by one of the two individual-peak styles -/
theorem filter_peak_style (o : PanelOpts) (hs : List (HvTrad ℝ)) (st : PanelStats ℝ) (ls : List (Line ℝ))
    (h : panelLinesOf o hs st = .ok ls) (v : Bool) :
    ls.filter (fun l => decide (l.style = (if v then StyleClass.peakIndividualValid else StyleClass.peakIndividualInvalid))) =
      (if (if v then o.peakValid else o.peakInvalid) then hs.flatMap (peakMarkerLines v) else []) := by
  obtain ⟨sl, hsl, rfl⟩ := panelLinesOf_ok o hs st ls h
  have hstat := statLines_style o st sl hsl
  have n1 := ite_flatMap_style o.validCurves hs _ _ (fun s => individualLines_style true s)
  have n2 := ite_flatMap_style o.invalidCurves hs _ _ (fun s => individualLines_style false s)
  have n6 := ite_flatMap_style o.peakValid hs _ _ (fun s => peakMarkerLines_style true s)
  have n7 := ite_flatMap_style o.peakInvalid hs _ _ (fun s => peakMarkerLines_style false s)
  simp only [if_true, if_false, Bool.false_eq_true] at n1 n2 n6 n7
  simp only [List.filter_append]
  rw [filter_style_none (if o.validCurves then hs.flatMap (individualLines true) else []) _
        (fun x hx => by rw [n1 x hx]; cases v <;> decide),
      filter_style_none (if o.invalidCurves then hs.flatMap (individualLines false) else []) _
        (fun x hx => by rw [n2 x hx]; cases v <;> decide),
      filter_style_none sl _ (fun x hx => by
        rcases hstat x hx with h | h | h | h <;> rw [h] <;> cases v <;> decide)]
  cases v
  · rw [filter_style_none (if o.peakValid then hs.flatMap (peakMarkerLines true) else []) _
          (fun x hx => by rw [n6 x hx]; decide),
        filter_all _ (if o.peakInvalid then hs.flatMap (peakMarkerLines false) else [])
          (fun x hx => by rw [n7 x hx]; decide)]
    simp
  · rw [filter_all _ (if o.peakValid then hs.flatMap (peakMarkerLines true) else [])
          (fun x hx => by rw [n6 x hx]; decide),
        filter_style_none (if o.peakInvalid then hs.flatMap (peakMarkerLines false) else []) _
          (fun x hx => by rw [n7 x hx]; decide)]
    simp

/-- **generic form of `stat_artists`** for any object kind whose statistics are `st` (not diffuse-field) -/
theorem stat_artists_of (o : PanelOpts) (hs : List (HvTrad ℝ)) (st : PanelStats ℝ) (hd : st.diffuse = false)
    (ls : List (Line ℝ)) (h : panelLinesOf o hs st = .ok ls) :
    (o.meanCurve = true → ∃ mc sc, st.meanCurve o.dMc = .ok mc ∧ st.stdCurve o.dMc = .ok sc ∧
      ls.filter (fun l => decide (l.style = .meanCurve)) =
        [{ style := .meanCurve, x := st.freq.map some, y := mc }] ∧
      ls.filter (fun l => decide (l.style = .stdCurve)) =
        [{ style := .stdCurve, x := st.freq.map some, y := nthCurve 1 o.dMc mc sc },
         { style := .stdCurve, x := st.freq.map some, y := nthCurve (-1) o.dMc mc sc }]) ∧
    (o.freqStd = true → ∃ lo hi, st.nthFn (-1) o.dFn = .ok lo ∧ st.nthFn 1 o.dFn = .ok hi ∧
      ls.filter (fun l => decide (l.style = .fnBand)) =
        [{ style := .fnBand, x := [lo, lo, hi, hi], y := [some 0, some 100, some 100, some 0] }]) ∧
    (o.peakMean = true → ∃ p, st.meanCurvePeak o.dMc = .ok p ∧
      ls.filter (fun l => decide (l.style = .peakMeanCurve)) =
        [{ style := .peakMeanCurve, x := [some p.1], y := [some p.2] }]) := by
  refine ⟨?_, ?_, ?_⟩
  · intro hm
    obtain ⟨l3, l4, l5, h3, h4, h5, e1⟩ := filter_stat_style o hs st ls h .meanCurve (Or.inl rfl)
    obtain ⟨_, _, _, h3', h4', h5', e2⟩ := filter_stat_style o hs st ls h .stdCurve (Or.inr (Or.inl rfl))
    rw [h3] at h3'; rw [h4] at h4'; rw [h5] at h5'
    injection h3' with h3'; injection h4' with h4'; injection h5' with h5'
    subst h3' h4' h5'
    obtain ⟨mc, sc, hmc, hsc, rfl⟩ := meanStdLines_ok o st hd hm l3 h3
    refine ⟨mc, sc, hmc, hsc, ?_, ?_⟩
    · rw [e1, filter_style_none l4 _ (fun x hx => by rw [fnBandLines_style o st l4 h4 x hx]; decide),
        filter_style_none l5 _ (fun x hx => by rw [peakMeanLines_style o st l5 h5 x hx]; decide)]
      simp
    · rw [e2, filter_style_none l4 _ (fun x hx => by rw [fnBandLines_style o st l4 h4 x hx]; decide),
        filter_style_none l5 _ (fun x hx => by rw [peakMeanLines_style o st l5 h5 x hx]; decide)]
      simp
  · intro hf
    obtain ⟨l3, l4, l5, h3, h4, h5, e1⟩ := filter_stat_style o hs st ls h .fnBand (Or.inr (Or.inr (Or.inl rfl)))
    obtain ⟨lo, hi, hlo, hhi, rfl⟩ := fnBandLines_ok o st hd hf l4 h4
    refine ⟨lo, hi, hlo, hhi, ?_⟩
    rw [e1, filter_style_none l3 _ (fun x hx => by
          rcases meanStdLines_style o st l3 h3 x hx with h | h <;> rw [h] <;> decide),
        filter_style_none l5 _ (fun x hx => by rw [peakMeanLines_style o st l5 h5 x hx]; decide)]
    simp
  · intro hp
    obtain ⟨l3, l4, l5, h3, h4, h5, e1⟩ := filter_stat_style o hs st ls h .peakMeanCurve (Or.inr (Or.inr (Or.inr rfl)))
    unfold peakMeanLines at h5
    rw [if_pos hp] at h5
    obtain ⟨p, hpk, rfl⟩ := peakMeanLine_eq _ _ _ h5
    refine ⟨p, hpk, ?_⟩
    rw [e1, filter_style_none l3 _ (fun x hx => by
          rcases meanStdLines_style o st l3 h3 x hx with h | h <;> rw [h] <;> decide),
        filter_style_none l4 _ (fun x hx => by rw [fnBandLines_style o st l4 h4 x hx]; decide)]
    simp

theorem restore_setAll_save (s : HvTrad ℝ) : (ppRestore (ppSetAll (ppSave s))).obj = s := by
  cases s; rfl

theorem recipO_real (x : Option ℝ) : recipO x = x.map (fun v => 1 / v) := by
  cases x <;> simp [recipO, ofNat_real]

end HV.C20
