import Mathlib.Data.List.Permutation
import Mathlib.Data.Rat.Floor
import Mathlib.Tactic.NormNum
import Mathlib.Tactic.Linarith
import HvsrVerif.Model.Readers
/-!
# Helper lemmas for C07 (readers)

Loop invariants of `_arrange_traces` and of the row loop, inversion lemmas of the assembly functions,
the modulo-360 normalisation, the PEER routing step, argument broadcasting and the reader trial loop.
The property theorems are in `Props/C07.lean`.
-/
set_option linter.unusedSimpArgs false
namespace HV.Rd
open HV
variable {σ τ φ κ δ ρ : Type}

/-! ## lists -/
theorem perm3_cases {α : Type} {a b c : α} {l : List α} (h : l.Perm [a, b, c]) :
    l = [a, b, c] ∨ l = [a, c, b] ∨ l = [b, a, c] ∨ l = [b, c, a] ∨ l = [c, a, b] ∨ l = [c, b, a] := by
  have := List.mem_permutations.mpr h
  simp [List.permutations, List.permutationsAux_cons, List.permutationsAux2] at this
  tauto

theorem map_some_inj {α : Type} {l l' : List α} (h : l.map some = l'.map some) : l = l' :=
  List.map_injective_iff.mpr (Option.some_injective α) h

/-! ## channel suffixes -/
theorem endsWithC_iff {s : String} {c : Char} : endsWithC s c = true ↔ lastChar s = some c := by
  simp [endsWithC]

theorem endsWithC_of_last {s : String} {c d : Char} (h : lastChar s = some c) : endsWithC s d = (c == d) := by
  simp [endsWithC, h]

theorem ne_of_lastChar {k : String} {c : Char} (h : lastChar k = some c) (s : String) (hs : lastChar s ≠ some c) :
    k ≠ s := by
  rintro rfl; exact hs h

/-- number of traces whose channel name ends in `c` -/
def suffixCount (c : Char) (l : List (String × τ)) : Nat := l.countP (fun t => endsWithC t.1 c)

theorem suffixCount_cons (c : Char) (tr : String × τ) (rest : List (String × τ)) :
    suffixCount c (tr :: rest) = suffixCount c rest + (if endsWithC tr.1 c then 1 else 0) := by
  simp [suffixCount, List.countP_cons]

theorem suffixCount_pos {c : Char} {l : List (String × τ)} {t : String × τ} (ht : t ∈ l) (h : lastChar t.1 = some c) :
    0 < suffixCount c l := by
  unfold suffixCount
  rw [List.countP_pos_iff]
  exact ⟨t, ht, endsWithC_iff.mpr h⟩

def slotN (o : Option τ) : Nat := if o.isSome then 1 else 0

/-! ## `_arrange_traces` -/
/-- what one successful pass of the loop body does -/
theorem arrangeStep_ok {st st' : ArrSt τ} {tr : String × τ} (h : arrangeStep st tr = .ok st') :
    (lastChar tr.1 = some 'E' ∧ st.ew = none ∧ st' = { st with ew := some tr.2 }) ∨
    (lastChar tr.1 = some 'N' ∧ st.ns = none ∧ st' = { st with ns := some tr.2 }) ∨
    (lastChar tr.1 = some 'Z' ∧ st.vt = none ∧ st' = { st with vt := some tr.2 }) := by
  unfold arrangeStep at h
  split at h
  · rename_i h1
    simp only [Bool.and_eq_true, endsWithC_iff, Option.isNone_iff_eq_none] at h1
    injection h with h; exact Or.inl ⟨h1.1, h1.2, h.symm⟩
  · split at h
    · rename_i h1
      simp only [Bool.and_eq_true, endsWithC_iff, Option.isNone_iff_eq_none] at h1
      injection h with h; exact Or.inr (Or.inl ⟨h1.1, h1.2, h.symm⟩)
    · split at h
      · rename_i h1
        simp only [Bool.and_eq_true, endsWithC_iff, Option.isNone_iff_eq_none] at h1
        injection h with h; exact Or.inr (Or.inr ⟨h1.1, h1.2, h.symm⟩)
      · cases h

theorem arrangeLoop_cons_ok {tr : String × τ} {rest : List (String × τ)} {st st' : ArrSt τ}
    (h : arrangeLoop (tr :: rest) st = .ok st') :
    ∃ st1, arrangeStep st tr = .ok st1 ∧ arrangeLoop rest st1 = .ok st' := by
  simp only [arrangeLoop] at h
  split at h
  · rename_i st1 hstep; exact ⟨st1, hstep, h⟩
  · cases h

theorem arrangeLoop_ns (l : List (String × τ)) : ∀ (st st' : ArrSt τ), arrangeLoop l st = .ok st' →
    ∀ v, st'.ns = some v → st.ns = some v ∨ ∃ t ∈ l, lastChar t.1 = some 'N' ∧ t.2 = v := by
  induction l with
  | nil => intro st st' h v hv; simp only [arrangeLoop] at h; injection h with h; subst h; exact Or.inl hv
  | cons tr rest ih =>
    intro st st' h v hv
    obtain ⟨st1, hstep, hrest⟩ := arrangeLoop_cons_ok h
    rcases ih st1 st' hrest v hv with h1 | ⟨t, ht, h1⟩
    · rcases arrangeStep_ok hstep with ⟨hl, _, rfl⟩ | ⟨hl, _, rfl⟩ | ⟨hl, _, rfl⟩
      · exact Or.inl h1
      · simp only [Option.some.injEq] at h1; exact Or.inr ⟨tr, List.mem_cons_self, hl, h1⟩
      · exact Or.inl h1
    · exact Or.inr ⟨t, List.mem_cons_of_mem _ ht, h1⟩

theorem arrangeLoop_ew (l : List (String × τ)) : ∀ (st st' : ArrSt τ), arrangeLoop l st = .ok st' →
    ∀ v, st'.ew = some v → st.ew = some v ∨ ∃ t ∈ l, lastChar t.1 = some 'E' ∧ t.2 = v := by
  induction l with
  | nil => intro st st' h v hv; simp only [arrangeLoop] at h; injection h with h; subst h; exact Or.inl hv
  | cons tr rest ih =>
    intro st st' h v hv
    obtain ⟨st1, hstep, hrest⟩ := arrangeLoop_cons_ok h
    rcases ih st1 st' hrest v hv with h1 | ⟨t, ht, h1⟩
    · rcases arrangeStep_ok hstep with ⟨hl, _, rfl⟩ | ⟨hl, _, rfl⟩ | ⟨hl, _, rfl⟩
      · simp only [Option.some.injEq] at h1; exact Or.inr ⟨tr, List.mem_cons_self, hl, h1⟩
      · exact Or.inl h1
      · exact Or.inl h1
    · exact Or.inr ⟨t, List.mem_cons_of_mem _ ht, h1⟩

theorem arrangeLoop_vt (l : List (String × τ)) : ∀ (st st' : ArrSt τ), arrangeLoop l st = .ok st' →
    ∀ v, st'.vt = some v → st.vt = some v ∨ ∃ t ∈ l, lastChar t.1 = some 'Z' ∧ t.2 = v := by
  induction l with
  | nil => intro st st' h v hv; simp only [arrangeLoop] at h; injection h with h; subst h; exact Or.inl hv
  | cons tr rest ih =>
    intro st st' h v hv
    obtain ⟨st1, hstep, hrest⟩ := arrangeLoop_cons_ok h
    rcases ih st1 st' hrest v hv with h1 | ⟨t, ht, h1⟩
    · rcases arrangeStep_ok hstep with ⟨hl, _, rfl⟩ | ⟨hl, _, rfl⟩ | ⟨hl, _, rfl⟩
      · exact Or.inl h1
      · exact Or.inl h1
      · simp only [Option.some.injEq] at h1; exact Or.inr ⟨tr, List.mem_cons_self, hl, h1⟩
    · exact Or.inr ⟨t, List.mem_cons_of_mem _ ht, h1⟩

/-- every trace fills exactly one slot that was empty: the suffix counts add up to the filled slots -/
theorem arrangeLoop_counts (l : List (String × τ)) : ∀ (st st' : ArrSt τ), arrangeLoop l st = .ok st' →
    slotN st'.ns = slotN st.ns + suffixCount 'N' l ∧
    slotN st'.ew = slotN st.ew + suffixCount 'E' l ∧
    slotN st'.vt = slotN st.vt + suffixCount 'Z' l := by
  induction l with
  | nil => intro st st' h; simp only [arrangeLoop] at h; injection h with h; subst h; simp [suffixCount]
  | cons tr rest ih =>
    intro st st' h
    obtain ⟨st1, hstep, hrest⟩ := arrangeLoop_cons_ok h
    obtain ⟨i1, i2, i3⟩ := ih st1 st' hrest
    simp only [suffixCount_cons]
    rcases arrangeStep_ok hstep with ⟨hl, hs, rfl⟩ | ⟨hl, hs, rfl⟩ | ⟨hl, hs, rfl⟩ <;>
      simp only [endsWithC_of_last hl] at * <;>
      simp [slotN, hs] at * <;> omega

theorem arrangeLoop_suffixes (l : List (String × τ)) : ∀ (st st' : ArrSt τ), arrangeLoop l st = .ok st' →
    ∀ t ∈ l, lastChar t.1 = some 'N' ∨ lastChar t.1 = some 'E' ∨ lastChar t.1 = some 'Z' := by
  induction l with
  | nil => intro st st' _ t ht; cases ht
  | cons tr rest ih =>
    intro st st' h t ht
    obtain ⟨st1, hstep, hrest⟩ := arrangeLoop_cons_ok h
    rcases List.mem_cons.mp ht with rfl | ht
    · rcases arrangeStep_ok hstep with ⟨hl, _, _⟩ | ⟨hl, _, _⟩ | ⟨hl, _, _⟩ <;> simp [hl]
    · exact ih st1 st' hrest t ht

/-! ## orientation modulo 360, similarity, the constructor -/
theorem degNorm_eq (d : Rat) : degNorm d = d - 360 * (⌊d / 360⌋ : Int) := by
  simp [degNorm, readerConsts]
  rfl

theorem degNorm_range (d : Rat) : 0 ≤ degNorm d ∧ degNorm d < 360 ∧ ∃ k : Int, d = degNorm d + 360 * k := by
  rw [degNorm_eq]
  have h1 := Int.floor_le (d / 360)
  have h2 := Int.lt_floor_add_one (d / 360)
  rw [le_div_iff₀ (by norm_num)] at h1
  rw [div_lt_iff₀ (by norm_num)] at h2
  refine ⟨by linarith, by linarith, ⌊d / 360⌋, by ring⟩

theorem degNorm_of_range {d : Rat} (h0 : 0 ≤ d) (h1 : d < 360) : degNorm d = d := by
  rw [degNorm_eq]
  have : ⌊d / 360⌋ = 0 := by
    rw [Int.floor_eq_zero_iff]
    constructor
    · positivity
    · rw [div_lt_iff₀ (by norm_num)]; linarith
  simp [this]

theorem degNorm_zero : degNorm 0 = 0 := degNorm_of_range le_rfl (by norm_num)

theorem similar_of_eq {a b : Comp σ} (h1 : b.dt = a.dt) (h2 : b.samples.length = a.samples.length) :
    similar a b = true := by
  simp [similar, h1, h2, ratAbs]

theorem similar_len {a b : Comp σ} (h : similar a b = true) : b.samples.length = a.samples.length := by
  simp [similar] at h
  exact h.2

theorem mkRec_ok {ns ew vt : Comp σ} (d : Rat) (h1 : ew.dt = ns.dt) (h2 : vt.dt = ns.dt)
    (h3 : ew.samples.length = ns.samples.length) (h4 : vt.samples.length = ns.samples.length) :
    mkRec ns ew vt d = .ok { ns := ns, ew := ew, vt := vt, deg := degNorm d } := by
  simp [mkRec, similar_of_eq h1 h3, similar_of_eq h2 h4, similar_of_eq (rfl : ns.dt = ns.dt) rfl]

theorem mkRec_inv {ns ew vt : Comp σ} {d : Rat} {r : Rec3 σ} (h : mkRec ns ew vt d = .ok r) :
    r = { ns := ns, ew := ew, vt := vt, deg := degNorm d } ∧
    ew.samples.length = ns.samples.length ∧ vt.samples.length = ns.samples.length := by
  unfold mkRec at h
  split at h
  · rename_i hs
    simp only [Bool.and_eq_true] at hs
    injection h with h
    exact ⟨h.symm, similar_len hs.1.2, similar_len hs.2⟩
  · cases h

/-! ## the row loop of the text formats -/
theorem checkNpts_ok {a b : Nat} {u : Unit} (h : checkNpts a b = .ok u) : a = b := by
  unfold checkNpts at h
  split at h
  · cases h
  · rename_i hne; simpa using hne

/-- the row loop returns the three requested columns, in row order, and counts every row -/
theorem rowLoop_ok (npts c0 c1 c2 : Nat) (rows : List (σ × σ × σ)) : ∀ (idx : Nat) (as bs cs : List σ) (n : Nat),
    rowLoop npts c0 c1 c2 rows idx = .ok (as, bs, cs, n) →
    n = idx + rows.length ∧
    as.map some = rows.map (rowGet · c0) ∧ bs.map some = rows.map (rowGet · c1) ∧ cs.map some = rows.map (rowGet · c2) := by
  induction rows with
  | nil =>
    intro idx as bs cs n h
    simp only [rowLoop] at h
    injection h with h
    simp only [Prod.mk.injEq] at h
    obtain ⟨rfl, rfl, rfl, rfl⟩ := h
    simp
  | cons row rest ih =>
    intro idx as bs cs n h
    simp only [rowLoop] at h
    split at h
    · rename_i a b c ha hb hc
      split at h
      · split at h
        · rename_i as' bs' cs' n' hrec
          injection h with h
          simp only [Prod.mk.injEq] at h
          obtain ⟨rfl, rfl, rfl, rfl⟩ := h
          obtain ⟨i1, i3, i4, i5⟩ := ih _ _ _ _ _ hrec
          exact ⟨by simp [i1]; omega, by simp [ha, i3], by simp [hb, i4], by simp [hc, i5]⟩
        · cases h
      · cases h
    · cases h

/-- conversely the loop succeeds when the channel indices are columns and the header count is not exceeded -/
theorem rowLoop_total (npts c0 c1 c2 : Nat) (h0 : c0 < 3) (h1 : c1 < 3) (h2 : c2 < 3) (rows : List (σ × σ × σ)) :
    ∀ idx, idx + rows.length ≤ npts →
    ∃ as bs cs, rowLoop npts c0 c1 c2 rows idx = .ok (as, bs, cs, idx + rows.length) := by
  have hg : ∀ (row : σ × σ × σ) (c : Nat), c < 3 → ∃ a, rowGet row c = some a := by
    intro row c hc
    match c, hc with
    | 0, _ => exact ⟨_, rfl⟩
    | 1, _ => exact ⟨_, rfl⟩
    | 2, _ => exact ⟨_, rfl⟩
  induction rows with
  | nil => intro idx _; exact ⟨[], [], [], by simp [rowLoop]⟩
  | cons row rest ih =>
    intro idx hle
    simp only [List.length_cons] at hle
    obtain ⟨as, bs, cs, hr⟩ := ih (idx + 1) (by omega)
    obtain ⟨a, ha⟩ := hg row c0 h0
    obtain ⟨b, hb⟩ := hg row c1 h1
    obtain ⟨c, hc⟩ := hg row c2 h2
    refine ⟨a :: as, b :: bs, c :: cs, ?_⟩
    simp only [rowLoop, ha, hb, hc]
    rw [if_pos (by omega), hr]
    simp only [List.length_cons]
    congr 4
    omega

/-! ## inversion of the assembly functions -/
theorem saf_unfold {h : SafHeader} {deg : Option Rat} {rows : List (σ × σ × σ)} {r : Rec3 σ}
    (hr : safAssemble h deg rows = .ok r) :
    ∃ npts fs v n e d vt ns ew, h.version = true ∧ h.ndat = some npts ∧ h.fs = some fs ∧ fs ≠ 0 ∧
      h.vCh = some v ∧ h.nCh = some n ∧ h.eCh = some e ∧ safDegrees deg h.northRot n e = .ok d ∧
      rowLoop npts v n e rows 0 = .ok (vt, ns, ew, npts) ∧
      mkRec ⟨ns, 1 / (fs : Rat)⟩ ⟨ew, 1 / (fs : Rat)⟩ ⟨vt, 1 / (fs : Rat)⟩ d = .ok r := by
  unfold safAssemble at hr
  split at hr
  · cases hr
  rename_i hver
  split at hr
  · cases hr
  rename_i npts hnd
  split at hr
  · cases hr
  rename_i fs hfs
  split at hr
  · cases hr
  rename_i hz
  split at hr
  · cases hr
  rename_i v hv
  split at hr
  · cases hr
  rename_i n hn
  split at hr
  · cases hr
  rename_i e he
  split at hr
  · cases hr
  rename_i d hd
  split at hr
  · cases hr
  rename_i vt ns ew found hl
  split at hr
  · cases hr
  rename_i u hc
  have := checkNpts_ok hc
  subst this
  exact ⟨_, _, _, _, _, d, vt, ns, ew, by simpa using hver, hnd, hfs, hz, hv, hn, he, hd, hl, hr⟩

theorem mshark_unfold {h : MsharkHeader} {deg : Option Rat} {rows : List (Int × Int × Int)} {r : Rec3 Rat}
    (hr : minisharkAssemble h deg rows = .ok r) :
    ∃ npts fs conv gain vt ns ew, h.ndat = some npts ∧ h.fs = some fs ∧ fs ≠ 0 ∧ h.conv = some conv ∧ h.gain = some gain ∧
      rowLoop npts 0 1 2 rows 0 = .ok (vt, ns, ew, npts) ∧
      mkRec ⟨ns.map (msharkScale gain conv), 1 / (fs : Rat)⟩ ⟨ew.map (msharkScale gain conv), 1 / (fs : Rat)⟩
        ⟨vt.map (msharkScale gain conv), 1 / (fs : Rat)⟩ (deg.getD 0) = .ok r := by
  unfold minisharkAssemble at hr
  split at hr
  · cases hr
  rename_i npts hnd
  split at hr
  · cases hr
  rename_i fs hfs
  split at hr
  · cases hr
  rename_i hz
  split at hr
  · cases hr
  rename_i conv hcv
  split at hr
  · cases hr
  rename_i gain hg
  split at hr
  · cases hr
  rename_i vt ns ew found hl
  split at hr
  · cases hr
  rename_i u hc
  have := checkNpts_ok hc
  subst this
  exact ⟨_, _, _, _, vt, ns, ew, hnd, hfs, hz, hcv, hg, hl, hr⟩

theorem peerFile_ok {f : PeerFile σ} {x : String × Comp σ} (h : peerFile f = .ok x) :
    f.npts = some f.samples.length ∧ f.key = some x.1 ∧ x.2.samples = f.samples ∧ f.dt = some x.2.dt := by
  unfold peerFile at h
  split at h
  · cases h
  rename_i key hk
  split at h
  · cases h
  rename_i npts hn
  split at h
  · cases h
  rename_i dt hd
  split at h
  · cases h
  split at h
  · cases h
  rename_i u hc
  have := checkNpts_ok hc
  injection h with h
  subst h
  subst this
  exact ⟨hn, hk, rfl, hd⟩

theorem peerFiles_ok (files : List (PeerFile σ)) : ∀ comps, peerFiles files = .ok comps →
    ∀ f ∈ files, f.npts = some f.samples.length := by
  induction files with
  | nil => intro _ _ f hf; cases hf
  | cons f0 rest ih =>
    intro comps h f hf
    simp only [peerFiles] at h
    split at h
    · cases h
    rename_i x hx
    split at h
    · cases h
    rename_i xs hxs
    rcases List.mem_cons.mp hf with rfl | hf
    · exact (peerFile_ok hx).1
    · exact ih xs hxs f hf

/-! ## PEER: consistent files and the routing step -/
/-- a PEER file whose header agrees with its content: `(direction code, samples)` at time step `d` -/
def peerOf (d : Rat) (ks : String × List σ) : PeerFile σ :=
  { key := some ks.1, npts := some ks.2.length, dt := some d, samples := ks.2 }

def compOf (d : Rat) (ks : String × List σ) : String × Comp σ := (ks.1, ⟨ks.2, d⟩)

theorem peerFiles_map (d : Rat) (l : List (String × List σ)) :
    peerFiles (l.map (peerOf d)) = .ok (l.map (compOf d)) := by
  induction l with
  | nil => rfl
  | cons x rest ih => simp [peerFiles, ih, peerFile, peerOf, compOf, checkNpts]

theorem peerRoute_numeric (kU ka kb : String) (a b : Nat) (cU ca cb : Comp σ)
    (hU : kU = "UP" ∨ kU = "VER") (ha : parseNat ka = some a) (hb : parseNat kb = some b)
    (ha1 : ka ≠ "UP") (ha2 : ka ≠ "VER") (hb1 : kb ≠ "UP") (hb2 : kb ≠ "VER")
    (hlt : (relAz a).natAbs < (relAz b).natAbs)
    (comps : List (String × Comp σ)) (hf : comps.Perm [(kU, cU), (ka, ca), (kb, cb)]) :
    peerRoute comps = .ok (ca, cb, cU, (a : Int)) := by
  have ha1' : (ka == "UP") = false := by simpa using ha1
  have ha2' : (ka == "VER") = false := by simpa using ha2
  have hb1' : (kb == "UP") = false := by simpa using hb1
  have hb2' : (kb == "VER") = false := by simpa using hb2
  have hnlt : ¬ (relAz b).natAbs < (relAz a).natAbs := Nat.lt_asymm hlt
  have hvu : (("VER" : String) == "UP") = false := by decide
  rcases hU with rfl | rfl <;> rcases perm3_cases hf with h | h | h | h | h | h <;> subst h <;>
    simp [peerRoute, peerVertical, indexOfStr, List.findIdx_cons, ha1', ha2', hb1', hb2', hvu,
      keysToInt, ha, hb, rdArgmin, rdArgmax, hlt, hnlt]

theorem peerRoute_letters (kZ kN kE : String) (cZ cN cE : Comp σ)
    (hZ : lastChar kZ = some 'Z' ∨ lastChar kZ = some 'z') (hN : lastChar kN = some 'N') (hE : lastChar kE = some 'E')
    (comps : List (String × Comp σ)) (hf : comps.Perm [(kZ, cZ), (kN, cN), (kE, cE)]) :
    peerRoute comps = .ok (cN, cE, cZ, 0) := by
  have hup : lastChar "UP" = some 'P' := by decide
  have hver : lastChar "VER" = some 'R' := by decide
  have n1 : (kN == "UP") = false := by simpa using ne_of_lastChar hN "UP" (by rw [hup]; decide)
  have n2 : (kN == "VER") = false := by simpa using ne_of_lastChar hN "VER" (by rw [hver]; decide)
  have e1 : (kE == "UP") = false := by simpa using ne_of_lastChar hE "UP" (by rw [hup]; decide)
  have e2 : (kE == "VER") = false := by simpa using ne_of_lastChar hE "VER" (by rw [hver]; decide)
  have z1 : (kZ == "UP") = false := by
    rcases hZ with h | h
    · simpa using ne_of_lastChar h "UP" (by rw [hup]; decide)
    · simpa using ne_of_lastChar h "UP" (by rw [hup]; decide)
  have z2 : (kZ == "VER") = false := by
    rcases hZ with h | h
    · simpa using ne_of_lastChar h "VER" (by rw [hver]; decide)
    · simpa using ne_of_lastChar h "VER" (by rw [hver]; decide)
  have zz : ((lastChar kZ).map Char.toLower == some 'z') = true := by
    rcases hZ with h | h <;> rw [h] <;> decide
  have zn : ((lastChar kN).map Char.toLower == some 'z') = false := by rw [hN]; decide
  have ze : ((lastChar kE).map Char.toLower == some 'z') = false := by rw [hE]; decide
  rcases perm3_cases hf with h | h | h | h | h | h <;> subst h <;>
    simp [peerRoute, peerVertical, indexOfStr, indexOfZ, List.findIdx_cons, n1, n2, e1, e2, z1, z2, zz, zn, ze,
      peerLetters, hN, hE]

/-- the tail of `_read_peer` once the routing is known: orientation, trimming to the shortest, construction -/
theorem peerAssemble_of_route (d : Rat) (l : List (String × List σ)) (hl : l ≠ []) (deg : Option Rat)
    (sn se sv : List σ) (a : Int) (hroute : peerRoute (l.map (compOf d)) = .ok (⟨sn, d⟩, ⟨se, d⟩, ⟨sv, d⟩, a)) :
    peerAssemble (l.map (peerOf d)) deg =
      .ok { ns := ⟨sn.take (min (min sn.length se.length) sv.length), d⟩,
            ew := ⟨se.take (min (min sn.length se.length) sv.length), d⟩,
            vt := ⟨sv.take (min (min sn.length se.length) sv.length), d⟩,
            deg := degNorm (deg.getD ((a % 360 : Int) : Rat)) } := by
  unfold peerAssemble
  rw [peerFiles_map]
  cases l with
  | nil => exact absurd rfl hl
  | cons x rest =>
    simp only [List.map_cons] at hroute ⊢
    rw [if_neg (by simp [compOf])]
    rw [hroute]
    dsimp only
    rw [mkRec_ok _ (by simp [trimTo]) (by simp [trimTo]) (by simp [trimTo, List.length_take])
      (by simp [trimTo, List.length_take])]
    cases deg <;> simp [trimTo, readerConsts, Int.emod_def]

/-! ## `read`: broadcasting -/
theorem Arg.get?_tail {α : Type} (a : Arg α) (i : Nat) : a.tail.get? i = a.get? (i + 1) := by
  cases a with
  | scalar x => rfl
  | many l => cases l <;> simp [Arg.tail, Arg.get?]

theorem Arg.head?_eq {α : Type} (a : Arg α) : a.head? = a.get? 0 := by
  cases a with
  | scalar x => rfl
  | many l => cases l <;> simp [Arg.head?, Arg.get?]

theorem broadcast_get (fnames : List (FArg φ)) : ∀ (kw : Arg κ) (dg : Arg δ) (i : Nat),
    i < (broadcastArgs fnames kw dg).length →
    ∃ f k d, fnames[i]? = some f ∧ kw.get? i = some k ∧ dg.get? i = some d ∧
      (broadcastArgs fnames kw dg)[i]? = some (unwrapSingle f, k, d) := by
  induction fnames with
  | nil => intro kw dg i hi; simp [broadcastArgs] at hi
  | cons f fs ih =>
    intro kw dg i hi
    unfold broadcastArgs at hi ⊢
    split at hi
    · rename_i k d hk hd
      cases i with
      | zero => exact ⟨f, k, d, rfl, by rw [← Arg.head?_eq]; exact hk, by rw [← Arg.head?_eq]; exact hd, rfl⟩
      | succ j =>
        simp only [List.length_cons, Nat.add_lt_add_iff_right] at hi
        obtain ⟨f', k', d', h1, h2, h3, h4⟩ := ih kw.tail dg.tail j hi
        exact ⟨f', k', d', by simpa using h1, by rw [← Arg.get?_tail]; exact h2, by rw [← Arg.get?_tail]; exact h3,
          by simpa using h4⟩
    · simp at hi

theorem broadcast_length (fnames : List (FArg φ)) : ∀ (kw : Arg κ) (dg : Arg δ),
    (∀ l, kw = .many l → l.length = fnames.length) → (∀ l, dg = .many l → l.length = fnames.length) →
    (broadcastArgs fnames kw dg).length = fnames.length := by
  induction fnames with
  | nil => intro kw dg _ _; rfl
  | cons f fs ih =>
    intro kw dg hk hd
    have hk' : ∃ k, kw.head? = some k := by
      cases kw with
      | scalar x => exact ⟨x, rfl⟩
      | many l =>
        cases l with
        | nil => have := hk [] rfl; simp at this
        | cons x xs => exact ⟨x, rfl⟩
    have hd' : ∃ d, dg.head? = some d := by
      cases dg with
      | scalar x => exact ⟨x, rfl⟩
      | many l =>
        cases l with
        | nil => have := hd [] rfl; simp at this
        | cons x xs => exact ⟨x, rfl⟩
    obtain ⟨k, hk1⟩ := hk'
    obtain ⟨d, hd1⟩ := hd'
    unfold broadcastArgs
    rw [hk1, hd1]
    simp only [List.length_cons, Nat.add_right_cancel_iff]
    apply ih
    · intro l hl
      cases kw with
      | scalar x => simp [Arg.tail] at hl
      | many l0 =>
        simp only [Arg.tail, Arg.many.injEq] at hl
        subst hl
        have := hk l0 rfl
        simp only [List.length_cons] at this
        simp [List.length_tail, this]
    · intro l hl
      cases dg with
      | scalar x => simp [Arg.tail] at hl
      | many l0 =>
        simp only [Arg.tail, Arg.many.injEq] at hl
        subst hl
        have := hd l0 rfl
        simp only [List.length_cons] at this
        simp [List.length_tail, this]

/-! ## `read_single`: the trial loop -/
theorem trial_first_ok (pre : List (String × Except RdErr ρ)) (nm : String) (r : ρ) (post : List (String × Except RdErr ρ))
    (hpre : ∀ x ∈ pre, (∃ e, x.2 = .error e) ∧ x.1 ≠ reraiseName) :
    trial (pre ++ (nm, .ok r) :: post) = .ok r := by
  induction pre with
  | nil => simp [trial]
  | cons x rest ih =>
    obtain ⟨nm', res⟩ := x
    obtain ⟨⟨e, he⟩, hne⟩ := hpre (nm', res) List.mem_cons_self
    simp only at he hne
    subst he
    have hb : (nm' == reraiseName) = false := by simpa using hne
    simp only [List.cons_append, trial, hb, Bool.false_eq_true, if_false]
    exact ih (fun y hy => hpre y (List.mem_cons_of_mem _ hy))

end HV.Rd
