import HvsrVerif.Proofs.DFTLemmas
/-!
Fourier inversion for the model's real DFT (used by C17): from root-of-unity orthogonality (`orth`).
-/
open Complex Finset Real

namespace HV
noncomputable section

/-- complex inversion: `Σ_k X_k ζ^{kj} = n·x_j` -/
theorem cdft_inversion (n : ℕ) (hn : n ≠ 0) (x : ℕ → ℂ) (j : ℕ) (hj : j < n) :
    ∑ k ∈ range n, cdft n x k * (ζ n) ^ (k * j) = n * x j := by
  unfold cdft
  simp only [Finset.sum_mul]
  rw [Finset.sum_comm]
  have : ∀ m ∈ range n, ∑ k ∈ range n, x m * (starRingEnd ℂ) ((ζ n) ^ (k * m)) * (ζ n) ^ (k * j)
      = x m * (if j = m then (n : ℂ) else 0) := by
    intro m hm
    rw [← orth n hn j m hj (Finset.mem_range.mp hm), Finset.mul_sum]
    apply Finset.sum_congr rfl
    intro k _
    ring
  rw [Finset.sum_congr rfl this]
  simp only [mul_ite, mul_zero]
  rw [Finset.sum_ite_eq (range n) j]
  simp [hj, mul_comm]

/-- the real part of `X_k ζ^{kj}` in terms of the model's `(re, im)` pair -/
def T (x : List ℝ) (n k j : ℕ) : ℝ :=
  dftRe x n k * Real.cos (2 * π * (k * j : ℕ) / n) - dftIm x n k * Real.sin (2 * π * (k * j : ℕ) / n)

theorem zeta_pow_eq (n m : ℕ) (hn : n ≠ 0) :
    (ζ n) ^ m = ((Real.cos (2 * π * (m : ℕ) / n) : ℝ) : ℂ) + ((Real.sin (2 * π * (m : ℕ) / n) : ℝ) : ℂ) * I := by
  have h := conj_zeta_pow_eq n m hn
  have := congrArg (starRingEnd ℂ) h
  rw [Complex.conj_conj] at this
  rw [this]
  simp only [map_sub, map_mul, Complex.conj_ofReal, Complex.conj_I]
  ring

/-- real inversion over all `n` bins -/
theorem real_inversion (x : List ℝ) (n : ℕ) (hn : n ≠ 0) (hlen : x.length ≤ n) (j : ℕ) (hj : j < n) :
    ∑ k ∈ range n, T x n k j = n * padR x j := by
  have h := cdft_inversion n hn (fun j => ((padR x j : ℝ) : ℂ)) j hj
  have hre := congrArg Complex.re h
  simp only [Complex.re_sum] at hre
  have e : ∀ k ∈ range n, (cdft n (fun j => ((padR x j : ℝ) : ℂ)) k * (ζ n) ^ (k * j)).re = T x n k j := by
    intro k _
    rw [← dft_eq_cdft x n k hn hlen, zeta_pow_eq n (k * j) hn]
    unfold T
    simp only [Complex.mul_re, Complex.add_re, Complex.add_im, Complex.mul_im, Complex.ofReal_re, Complex.ofReal_im,
      Complex.I_re, Complex.I_im]
    ring
  rw [Finset.sum_congr rfl e] at hre
  rw [hre]
  simp

/-- mirror symmetry of the terms (real series) -/
theorem T_mirror (x : List ℝ) (n k j : ℕ) (hn : n ≠ 0) (hk : k ≤ n) : T x n (n - k) j = T x n k j := by
  obtain ⟨s1, s2⟩ := dft_symm x n k hn hk
  unfold T
  rw [s1, s2]
  have hn' : (n : ℝ) ≠ 0 := by exact_mod_cast hn
  have ang : (2 * π * (((n - k) * j : ℕ) : ℝ) / n) = j * (2 * π) - 2 * π * ((k * j : ℕ) : ℝ) / n := by
    rw [Nat.cast_mul, Nat.cast_sub hk, Nat.cast_mul]
    field_simp
  rw [ang, Real.cos_nat_mul_two_pi_sub, Real.sin_nat_mul_two_pi_sub]
  ring

/-- **Inversion from the half spectrum** (even length `n = 2h`): `T_0 + 2 Σ_{0<k<h} T_k + T_h = n·x_j`. -/
theorem half_inversion (x : List ℝ) (h : ℕ) (hh : 1 ≤ h) (hlen : x.length ≤ 2 * h) (j : ℕ) (hj : j < 2 * h) :
    T x (2 * h) 0 j + 2 * ∑ k ∈ Finset.Ico 1 h, T x (2 * h) k j + T x (2 * h) h j = (2 * h : ℕ) * padR x j := by
  have hn : 2 * h ≠ 0 := by omega
  rw [← real_inversion x (2 * h) hn hlen j hj]
  have hsplit : ∑ k ∈ Finset.range (2 * h), T x (2 * h) k j
      = T x (2 * h) 0 j + ∑ k ∈ Finset.Ico 1 h, T x (2 * h) k j + T x (2 * h) h j
        + ∑ k ∈ Finset.Ico (h + 1) (2 * h), T x (2 * h) k j := by
    rw [Finset.range_eq_Ico, ← Finset.sum_Ico_consecutive _ (Nat.zero_le 1) (by omega : 1 ≤ 2 * h)]
    rw [← Finset.sum_Ico_consecutive _ (by omega : 1 ≤ h) (by omega : h ≤ 2 * h)]
    rw [← Finset.sum_Ico_consecutive _ (by omega : h ≤ h + 1) (by omega : h + 1 ≤ 2 * h)]
    simp [Finset.sum_Ico_eq_sum_range]
    ring
  have hmirror : ∑ k ∈ Finset.Ico (h + 1) (2 * h), T x (2 * h) k j = ∑ k ∈ Finset.Ico 1 h, T x (2 * h) k j := by
    have hr := Finset.sum_Ico_reflect (fun k => T x (2 * h) k j) 1 (show h ≤ 2 * h + 1 by omega)
    have e2 : 2 * h + 1 - h = h + 1 := by omega
    have e3 : 2 * h + 1 - 1 = 2 * h := by omega
    rw [e2, e3] at hr
    rw [← hr]
    apply Finset.sum_congr rfl
    intro k hk
    rw [Finset.mem_Ico] at hk
    exact T_mirror x (2 * h) k j hn (by omega)
  rw [hsplit, hmirror]
  ring

end
end HV
