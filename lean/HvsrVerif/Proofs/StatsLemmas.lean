import HvsrVerif.Proofs.ListLemmas
import HvsrVerif.Model.HvAz
import Mathlib.Algebra.BigOperators.Group.List.Basic
import Mathlib.Tactic.Positivity
/-! lemmas about `Model/Stats.lean` over `ℝ` -/
namespace HV
open Classical

theorem divO_real (a b : ℝ) : divO a b = if b = 0 then none else some (a / b) := by
  unfold divO
  simp only [ofNat_real, Nat.cast_zero]
  by_cases h : b = 0
  · have : eqA b (0 : ℝ) = true := by rw [eqA_real]; exact h
    rw [this]; simp [h]
  · have : eqA b (0 : ℝ) = false := by
      rw [Bool.eq_false_iff]; intro h'; rw [eqA_real] at h'; exact h h'
    rw [this]; simp [h]

theorem defaultWeights_real (vals : List (Option ℝ)) :
    defaultWeights vals = vals.map (fun v => v.map (fun _ => (1:ℝ))) := by
  unfold defaultWeights
  simp only [ofNat_real, Nat.cast_one]

/-- the defined entries of a NaN-carrying vector -/
def somes {β : Type} (l : List (Option β)) : List β := l.filterMap (fun x => x)

theorem nansumProd_somes (vals : List (Option ℝ)) (f : ℝ → ℝ → ℝ) :
    nansumProd vals (defaultWeights vals) f = ((somes vals).map (fun v => f v 1)).sum := by
  rw [defaultWeights_real]
  unfold nansumProd somes
  rw [sumA_real]
  congr 1
  induction vals with
  | nil => rfl
  | cons v vs ih =>
    cases v with
    | none => simpa using ih
    | some x => simp only [List.map_cons, List.zip_cons_cons, List.filterMap_cons, Option.map_some]
                rw [ih]

theorem nansumW_default (vals : List (Option ℝ)) :
    nansumW (defaultWeights vals) = ((somes vals).length : ℝ) := by
  rw [defaultWeights_real]
  unfold nansumW somes
  rw [sumA_real]
  induction vals with
  | nil => simp
  | cons v vs ih =>
    cases v with
    | none => simpa using ih
    | some x =>
      simp only [List.map_cons, Option.map_some, List.filterMap_cons, id_eq, List.sum_cons, List.length_cons,
        Nat.cast_add, Nat.cast_one] at ih ⊢
      rw [ih]; ring

theorem defaultWeights_somes_length (vals : List (Option ℝ)) :
    ((defaultWeights vals).filterMap id).length = (somes vals).length := by
  rw [defaultWeights_real]
  unfold somes
  induction vals with
  | nil => rfl
  | cons v vs ih => cases v <;> simp_all

theorem defaultWeights_filterMap (vals : List (Option ℝ)) :
    (defaultWeights vals).filterMap id = (somes vals).map (fun _ => (1:ℝ)) := by
  rw [defaultWeights_real]
  unfold somes
  induction vals with
  | nil => rfl
  | cons v vs ih => cases v <;> simp_all

theorem somes_map_pre (d : Dist) (vals : List (Option ℝ)) :
    somes (vals.map (fun v => v.map d.pre)) = (somes vals).map d.pre := by
  unfold somes
  induction vals with
  | nil => rfl
  | cons v vs ih => cases v <;> simp_all

/-- unweighted mean in the transformed space: `Σ pre(v) / N` over the defined entries -/
theorem nanmeanPre_unweighted (d : Dist) (vals : List (Option ℝ)) :
    nanmeanPre d vals none =
      if (somes vals).length = 0 then none
      else some (((somes vals).map d.pre).sum / ((somes vals).length : ℝ)) := by
  unfold nanmeanPre
  simp only
  rw [divO_real, nansumProd_somes, nansumW_default, somes_map_pre]
  simp only [mul_one, List.length_map, Nat.cast_eq_zero, List.map_map]
  congr 2

theorem nanmeanW_unweighted (d : Dist) (vals : List (Option ℝ)) :
    nanmeanW d vals none =
      if (somes vals).length = 0 then none
      else some (d.postMean (((somes vals).map d.pre).sum / ((somes vals).length : ℝ))) := by
  unfold nanmeanW
  rw [nanmeanPre_unweighted]
  split <;> simp

theorem pre_normal : (Dist.normal.pre : ℝ → ℝ) = fun x => x := by funext x; rfl
theorem pre_lognormal : (Dist.lognormal.pre : ℝ → ℝ) = Real.log := by funext x; simp [Dist.pre]

theorem somes_map_some {β : Type} (l : List β) : somes (l.map some) = l := by
  unfold somes
  induction l with
  | nil => rfl
  | cons a t ih => simp [ih]

theorem pre_postMean (d : Dist) (x : ℝ) : (match d with | .normal => d.postMean x | .lognormal => Real.log (d.postMean x)) = x := by
  cases d <;> simp [Dist.postMean]

/-- unweighted sample standard deviation in the transformed space, `n − 1` denominator -/
theorem nanstdW_unweighted (d : Dist) (vals : List (Option ℝ)) (h2 : 2 ≤ (somes vals).length) :
    nanstdW d vals none .nist =
      let xs := (somes vals).map d.pre
      let m := xs.sum / (xs.length : ℝ)
      some (Real.sqrt ((xs.map (fun x => (x - m) ^ 2)).sum / ((xs.length : ℝ) - 1))) := by
  have hne : (somes vals).length ≠ 0 := by omega
  have hN : ((somes vals).length : ℝ) ≥ 2 := by exact_mod_cast h2
  have hden : (1 - 1 / ((somes vals).length : ℝ)) * ((somes vals).length : ℝ) = ((somes vals).length : ℝ) - 1 := by
    field_simp
  have hden0 : (1 - 1 / ((somes vals).length : ℝ)) * ((somes vals).length : ℝ) ≠ 0 := by
    rw [hden]; linarith
  obtain ⟨k, hk⟩ : ∃ k, (somes vals).length = k + 1 := ⟨(somes vals).length - 1, by omega⟩
  have hlen : ∀ l : List (Option ℝ), (List.filterMap id (defaultWeights l)).length = (somes l).length :=
    defaultWeights_somes_length
  unfold nanstdW
  rw [nanmeanW_unweighted]
  simp only [hne, if_false]
  have tail : ∀ d : Dist, (match Denom.nist,
      (List.filterMap id (defaultWeights (List.map (fun v => Option.map d.pre v) vals))).length with
    | Denom.nist, 0 => none
    | _, _ =>
      Option.map Transc.sqrt
        (divO
          (nansumProd (List.map (fun v => Option.map d.pre v) vals)
            (defaultWeights (List.map (fun v => Option.map d.pre v) vals)) fun v w =>
            w *
              ((v - (List.map d.pre (somes vals)).sum / ↑(somes vals).length) *
                (v - (List.map d.pre (somes vals)).sum / ↑(somes vals).length)))
          (((Arith.ofNat 1 : ℝ) -
              (Arith.ofNat 1 : ℝ) /
                Arith.ofNat (List.filterMap id (defaultWeights (List.map (fun v => Option.map d.pre v) vals))).length) *
            nansumW (defaultWeights (List.map (fun v => Option.map d.pre v) vals))))) =
    some
      (Real.sqrt ((List.map
              (fun x =>
                (x - (List.map d.pre (somes vals)).sum / ↑(List.map d.pre (somes vals)).length) ^ 2)
              (List.map d.pre (somes vals))).sum /
          (↑(List.map d.pre (somes vals)).length - 1))) := by
    intro d
    rw [hlen, somes_map_pre, nansumProd_somes, nansumW_default, somes_map_pre, divO_real]
    simp only [List.length_map, ofNat_real, Nat.cast_one, one_mul, List.map_map]
    rw [if_neg hden0, hden]
    simp only [hk, Option.map_some, sqrt_real]
    congr 4
    apply List.map_congr_left
    intro x _
    simp only [Function.comp]
    ring
  cases d
  · simp only [Dist.postMean]
    exact tail .normal
  · simp only [Dist.postMean, log_real, exp_real, Real.log_exp]
    exact tail .lognormal

end HV
