import HvsrVerif.Proofs.StatsLemmas
import Mathlib.Tactic.Positivity
/-! peak search and statistics under a common positive rescaling of the amplitudes (used by C06 `fdwra_scale`) -/
namespace HV
open Classical

theorem eqA_mul (c y v : ℝ) (hc : c ≠ 0) : eqA (c * y) (c * v) = eqA y v := by
  by_cases h : y = v
  · subst h; rw [(eqA_real _ _).mpr rfl, (eqA_real _ _).mpr rfl]
  · have h1 : eqA y v = false := by rw [Bool.eq_false_iff]; intro hh; exact h ((eqA_real _ _).mp hh)
    have h2 : eqA (c * y) (c * v) = false := by
      rw [Bool.eq_false_iff]; intro hh
      exact h (mul_left_cancel₀ hc ((eqA_real _ _).mp hh))
    rw [h1, h2]

theorem runLeft_scale (c : ℝ) (hc : c ≠ 0) (x : List ℝ) (v : ℝ) (i : ℕ) :
    runLeft (x.map (c * ·)) (c * v) i = runLeft x v i := by
  induction i with
  | zero => rfl
  | succ i ih =>
    unfold runLeft
    simp only [List.getElem?_map]
    cases x[i]? with
    | none => rfl
    | some y => simp only [Option.map_some, eqA_mul c y v hc, ih]

theorem runRight_scale (c : ℝ) (hc : c ≠ 0) (x : List ℝ) (v : ℝ) (k : ℕ) : ∀ i,
    runRight (x.map (c * ·)) (c * v) i k = runRight x v i k := by
  induction k with
  | zero => intro i; rfl
  | succ k ih =>
    intro i
    unfold runRight
    simp only [List.getElem?_map]
    cases x[i+1]? with
    | none => rfl
    | some y => simp only [Option.map_some, eqA_mul c y v hc, ih]

theorem isPlateauMid_scale (c : ℝ) (hc : 0 < c) (x : List ℝ) (i : ℕ) :
    isPlateauMid (x.map (c * ·)) i = isPlateauMid x i := by
  unfold isPlateauMid plateauBounds
  simp only [List.getElem?_map, List.length_map]
  cases hx : x[i]? with
  | none => rfl
  | some v =>
    simp only [Option.map_some, runLeft_scale c hc.ne' x v i, runRight_scale c hc.ne' x v]
    congr 1
    congr 1
    · congr 1
      cases x[i - runLeft x v i - 1]? with
      | none => rfl
      | some a => simp only [Option.map_some]; rw [decide_eq_decide]; exact mul_lt_mul_iff_right₀ hc
    · cases x[i + runRight x v i (x.length - i) + 1]? with
      | none => rfl
      | some b => simp only [Option.map_some]; rw [decide_eq_decide]; exact mul_lt_mul_iff_right₀ hc

theorem localMaxima_scale (c : ℝ) (hc : 0 < c) (x : List ℝ) : localMaxima (x.map (c * ·)) = localMaxima x := by
  unfold localMaxima
  simp only [List.length_map]
  apply List.filter_congr
  intro i _
  exact isPlateauMid_scale c hc x i

theorem argmaxOn_scale (c : ℝ) (hc : 0 < c) (amp : List ℝ) (is : List ℕ) :
    argmaxOn (amp.map (c * ·)) is = (argmaxOn amp is).map (fun p => (p.1, c * p.2)) := by
  induction is with
  | nil => rfl
  | cons i is ih =>
    unfold argmaxOn
    simp only [List.getElem?_map]
    cases amp[i]? with
    | none => simpa using ih
    | some a =>
      simp only [Option.map_some]
      rw [ih]
      cases argmaxOn amp is with
      | none => rfl
      | some jb =>
        obtain ⟨j, b⟩ := jb
        simp only [Option.map_some]
        have : (c * a < c * b) ↔ a < b := mul_lt_mul_iff_right₀ hc
        by_cases h : a < b
        · simp [h, this.mpr h]
        · have h' : ¬ c * a < c * b := fun hh => h (this.mp hh)
          simp [h, h']

theorem pySlice_map {β γ : Type} (f : β → γ) (l : List β) (lo hi : ℕ) : pySlice (l.map f) lo hi = (pySlice l lo hi).map f := by
  unfold pySlice; rw [← List.map_take, ← List.map_drop]

/-- **The peak search is scale-equivariant**: same frequency, amplitude multiplied by `c`. -/
theorem findPeakBounded_scale (c : ℝ) (hc : 0 < c) (freq amp : List ℝ) (r : Range ℝ) :
    findPeakBounded freq (amp.map (c * ·)) r = (findPeakBounded freq amp r).map (fun p => (p.1, c * p.2)) := by
  unfold findPeakBounded findPeakUnbounded
  simp only [pySlice_map, localMaxima_scale c hc, argmaxOn_scale c hc]
  cases argmaxOn (pySlice amp (rangeToIdx freq r).1 (rangeToIdx freq r).2)
      (localMaxima (pySlice amp (rangeToIdx freq r).1 (rangeToIdx freq r).2)) with
  | none => rfl
  | some ia =>
    obtain ⟨i, a⟩ := ia
    simp only [Option.map_some]
    cases (pySlice freq (rangeToIdx freq r).1 (rangeToIdx freq r).2)[i]? <;> rfl

end HV

namespace HV
open Classical

/-- all amplitudes multiplied by `c` (curves and the amplitudes of the stored peaks) -/
def scaleState (c : ℝ) (s : HvTrad ℝ) : HvTrad ℝ :=
  { s with rows := s.rows.map (fun r => r.map (c * ·)), peaks := s.peaks.map (fun p => p.map (fun q => (q.1, c * q.2))) }

theorem maskSel_map' {β γ : Type} (f : β → γ) (l : List β) (m : List Bool) :
    maskSel (l.map f) m = (maskSel l m).map f := by
  unfold maskSel
  induction l generalizing m with
  | nil => simp
  | cons a t ih =>
    cases m with
    | nil => simp
    | cons b bs => cases b <;> simp [ih]

theorem scale_peakFreqs (c : ℝ) (s : HvTrad ℝ) : (scaleState c s).peakFreqs = s.peakFreqs := by
  unfold HvTrad.peakFreqs scaleState
  simp only [List.map_map]
  congr 1
  apply List.map_congr_left
  intro p _
  cases p <;> rfl

theorem scale_validRows (c : ℝ) (s : HvTrad ℝ) : (scaleState c s).validRows = s.validRows.map (fun r => r.map (c * ·)) := by
  unfold HvTrad.validRows scaleState
  simp only
  exact maskSel_map' _ _ _

theorem column_scale (c : ℝ) (rows : List (List ℝ)) (j : ℕ) :
    column (rows.map (fun r => r.map (c * ·))) j = (column rows j).map (c * ·) := by
  unfold column
  induction rows with
  | nil => rfl
  | cons r rs ih =>
    simp only [List.map_cons, List.filterMap_cons, List.getElem?_map]
    cases r[j]? with
    | none => simpa using ih
    | some v => simp only [Option.map_some, List.map_cons]; rw [ih]

theorem sum_map_mul_leftS (l : List ℝ) (c : ℝ) : (l.map (c * ·)).sum = c * l.sum := by
  induction l with
  | nil => simp
  | cons a t ih => simp only [List.map_cons, List.sum_cons, ih]; ring

theorem sum_map_log_mul (l : List ℝ) (c : ℝ) (hc : 0 < c) (hl : ∀ v ∈ l, 0 < v) :
    ((l.map (c * ·)).map Real.log).sum = (l.length : ℝ) * Real.log c + (l.map Real.log).sum := by
  induction l with
  | nil => simp
  | cons a t ih =>
    have ha : 0 < a := hl a List.mem_cons_self
    simp only [List.map_cons, List.sum_cons, List.length_cons, Nat.cast_add, Nat.cast_one]
    rw [ih (fun v hv => hl v (List.mem_cons_of_mem _ hv)), Real.log_mul hc.ne' ha.ne']
    ring

/-- mean of a positive column scales with the amplitudes (both distributions) -/
theorem nanmeanW_scale (d : Dist) (c : ℝ) (hc : 0 < c) (col : List ℝ) (hpos : ∀ v ∈ col, 0 < v) :
    nanmeanW d ((col.map (c * ·)).map some) none = (nanmeanW d (col.map some) none).map (c * ·) := by
  rw [nanmeanW_unweighted, nanmeanW_unweighted, somes_map_some, somes_map_some]
  simp only [List.length_map]
  by_cases h0 : col.length = 0
  · simp [h0]
  · simp only [h0, if_false, Option.map_some, Option.some.injEq]
    have hN : (col.length : ℝ) ≠ 0 := by exact_mod_cast h0
    cases d
    · simp only [Dist.postMean, pre_normal, List.map_id']
      rw [sum_map_mul_leftS]; ring
    · simp only [Dist.postMean, pre_lognormal, exp_real]
      rw [sum_map_log_mul col c hc hpos, add_div, mul_div_cancel_left₀ _ hN, Real.exp_add, Real.exp_log hc]

theorem scale_meanCurve (d : Dist) (c : ℝ) (hc : 0 < c) (s : HvTrad ℝ) (hpos : ∀ r ∈ s.rows, ∀ v ∈ r, 0 < v) :
    (scaleState c s).meanCurve d = (s.meanCurve d).map (fun o => o.map (c * ·)) := by
  unfold HvTrad.meanCurve
  rw [scale_validRows]
  have hsub : ∀ r ∈ s.validRows, ∀ v ∈ r, 0 < v := by
    intro r hr
    unfold HvTrad.validRows maskSel at hr
    simp only [List.mem_filterMap] at hr
    obtain ⟨⟨r', b⟩, hz, hb⟩ := hr
    have := (List.of_mem_zip hz).1
    split at hb
    · injection hb with hb; subst hb; exact hpos _ this
    · cases hb
  have hfreq : (scaleState c s).freq = s.freq := rfl
  rw [hfreq]
  match hv : s.validRows with
  | [] => simp [column, nanmeanW_unweighted, somes]
  | [r] => simp [List.map_map]
  | r1 :: r2 :: rest =>
    simp only [List.map_cons, List.map_map]
    apply List.map_congr_left
    intro j _
    simp only [Function.comp]
    have := column_scale c (r1 :: r2 :: rest) j
    simp only [List.map_cons] at this
    rw [this]
    apply nanmeanW_scale d c hc
    intro v hv'
    unfold column at hv'
    simp only [List.mem_filterMap] at hv'
    obtain ⟨r, hr, hrv⟩ := hv'
    have hmem : v ∈ r := List.mem_of_getElem? hrv
    exact hsub r (by rw [hv]; exact hr) v hmem

theorem allSome_map {β γ : Type} (f : β → γ) (l : List (Option β)) :
    allSome (l.map (fun o => o.map f)) = (allSome l).map (fun m => m.map f) := by
  unfold allSome
  induction l with
  | nil => rfl
  | cons a t ih =>
    cases a with
    | none => simp [List.mapM_cons]
    | some v =>
      simp only [List.map_cons, Option.map_some, List.mapM_cons, id_eq]
      rw [ih]
      cases List.mapM id t <;> rfl

theorem scale_meanCurvePeak (d : Dist) (c : ℝ) (hc : 0 < c) (s : HvTrad ℝ) (hpos : ∀ r ∈ s.rows, ∀ v ∈ r, 0 < v) :
    (scaleState c s).meanCurvePeak d = (s.meanCurvePeak d).map (fun p => (p.1, c * p.2)) := by
  unfold HvTrad.meanCurvePeak
  rw [scale_meanCurve d c hc s hpos, allSome_map]
  have hfreq : (scaleState c s).freq = s.freq := rfl
  have hrange : (scaleState c s).range = s.range := rfl
  rw [hfreq, hrange]
  cases allSome (s.meanCurve d) with
  | none => rfl
  | some mc =>
    simp only [Option.map_some]
    rw [findPeakBounded_scale c hc]
    cases findPeakBounded s.freq mc (s.range.getD (none, none)) <;> rfl

theorem scale_apply (c : ℝ) (lower upper : Option ℝ) (s : HvTrad ℝ) :
    fdwraApply lower upper (scaleState c s) = scaleState c (fdwraApply lower upper s) := by
  unfold fdwraApply fdwraKeep scaleState
  simp only [List.map_map, HvTrad.mk.injEq, true_and]
  have hk : (List.map (fun p => if p.1 = true then optLt lower (Option.map (fun x => x.1) p.2) && optLt (Option.map (fun x => x.1) p.2) upper else false)
      (s.vPeak.zip (List.map (fun p => Option.map (fun q => (q.1, c * q.2)) p) s.peaks)))
      = (List.map (fun p => if p.1 = true then optLt lower (Option.map (fun x => x.1) p.2) && optLt (Option.map (fun x => x.1) p.2) upper else false)
      (s.vPeak.zip s.peaks)) := by
    generalize s.vPeak = vp
    generalize s.peaks = pk
    induction vp generalizing pk with
    | nil => simp
    | cons b bs ih =>
      cases pk with
      | nil => simp
      | cons q qs =>
        simp only [List.map_cons, List.zip_cons_cons]
        rw [ih qs]
        congr 1
        cases q <;> rfl
  refine ⟨?_, ?_⟩
  · rw [hk]
  · rw [hk]

theorem scale_stats (d : Dist) (n c : ℝ) (s : HvTrad ℝ) :
    (scaleState c s).meanFn d = s.meanFn d ∧ (scaleState c s).stdFn d = s.stdFn d ∧
    (scaleState c s).nthStdFn n d = s.nthStdFn n d := by
  unfold HvTrad.nthStdFn HvTrad.meanFn HvTrad.stdFn
  rw [scale_peakFreqs]
  exact ⟨rfl, rfl, rfl⟩

theorem scale_positive (c : ℝ) (hc : 0 < c) (s : HvTrad ℝ) (hpos : ∀ r ∈ s.rows, ∀ v ∈ r, 0 < v) :
    ∀ r ∈ (scaleState c s).rows, ∀ v ∈ r, 0 < v := by
  intro r hr v hv
  unfold scaleState at hr
  simp only [List.mem_map] at hr
  obtain ⟨r0, hr0, rfl⟩ := hr
  simp only [List.mem_map] at hv
  obtain ⟨v0, hv0, rfl⟩ := hv
  exact mul_pos hc (hpos r0 hr0 v0 hv0)

theorem apply_rows (lower upper : Option ℝ) (s : HvTrad ℝ) : (fdwraApply lower upper s).rows = s.rows := rfl

end HV
