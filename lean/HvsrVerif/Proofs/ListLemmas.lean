import HvsrVerif.Proofs.RealInst
import HvsrVerif.Model.Sesame
import Mathlib.Tactic.Linarith
import Mathlib.Tactic.Ring
import Mathlib.Tactic.FieldSimp
/-! helper lemmas over `ℝ` for list folds used by several models -/
namespace HV
open Classical

theorem foldl_maxA_lt_iff (l : List ℝ) (x t : ℝ) :
    l.foldl maxA x < t ↔ x < t ∧ ∀ y ∈ l, y < t := by
  induction l generalizing x with
  | nil => simp
  | cons a l ih =>
    simp only [List.foldl_cons, ih, maxA_real, List.mem_cons, forall_eq_or_imp, max_lt_iff]
    tauto

theorem maxL_lt_iff {l : List ℝ} {m : ℝ} (h : maxL l = some m) (t : ℝ) :
    m < t ↔ ∀ y ∈ l, y < t := by
  cases l with
  | nil => simp [maxL] at h
  | cons a l =>
    simp only [maxL, Option.some.injEq] at h
    subst h
    rw [foldl_maxA_lt_iff]
    simp

theorem maxL_none_iff {l : List ℝ} : maxL l = none ↔ l = [] := by
  cases l <;> simp [maxL]

theorem sumA_real (l : List ℝ) : sumA l = l.sum := by
  unfold sumA
  simp only [ofNat_real, Nat.cast_zero]
  rw [← List.foldr_reverse] 
  induction l using List.reverseRecOn with
  | nil => simp
  | append_singleton l a ih =>
    simp only [List.reverse_append, List.reverse_cons, List.reverse_nil, List.nil_append,
      List.cons_append, List.foldr_cons, List.sum_append, List.sum_cons, List.sum_nil, add_zero] at ih ⊢
    rw [ih]

end HV
