import HvsrVerif.Proofs.DFTInverse
/-!
Fourier inversion from the half spectrum for an ODD length `n = 2h + 1` (used by `Props/C17Odd.lean`): there is no
Nyquist bin, every bin `1 ≤ k ≤ h` has the mirror bin `n − k` in `h + 1 … 2h`.
-/
open Complex Finset Real

namespace HV
noncomputable section

/-- **Inversion from the half spectrum** (odd length `n = 2h + 1`), un-normalised: `T_0 + 2 Σ_{1≤k≤h} T_k = n·x_j`. -/
theorem half_inversion_odd_mul (x : List ℝ) (h : ℕ) (hlen : x.length ≤ 2 * h + 1) (j : ℕ) (hj : j < 2 * h + 1) :
    T x (2 * h + 1) 0 j + 2 * ∑ k ∈ Finset.Ico 1 (h + 1), T x (2 * h + 1) k j = (2 * h + 1 : ℕ) * padR x j := by
  have hn : 2 * h + 1 ≠ 0 := by omega
  rw [← real_inversion x (2 * h + 1) hn hlen j hj]
  have hsplit : ∑ k ∈ Finset.range (2 * h + 1), T x (2 * h + 1) k j
      = T x (2 * h + 1) 0 j + ∑ k ∈ Finset.Ico 1 (h + 1), T x (2 * h + 1) k j
        + ∑ k ∈ Finset.Ico (h + 1) (2 * h + 1), T x (2 * h + 1) k j := by
    rw [Finset.range_eq_Ico, ← Finset.sum_Ico_consecutive _ (Nat.zero_le 1) (by omega : 1 ≤ 2 * h + 1)]
    rw [← Finset.sum_Ico_consecutive _ (by omega : 1 ≤ h + 1) (by omega : h + 1 ≤ 2 * h + 1)]
    simp
    ring
  have hmirror : ∑ k ∈ Finset.Ico (h + 1) (2 * h + 1), T x (2 * h + 1) k j
      = ∑ k ∈ Finset.Ico 1 (h + 1), T x (2 * h + 1) k j := by
    have hr := Finset.sum_Ico_reflect (fun k => T x (2 * h + 1) k j) 1 (show h + 1 ≤ 2 * h + 1 + 1 by omega)
    have e2 : 2 * h + 1 + 1 - (h + 1) = h + 1 := by omega
    have e3 : 2 * h + 1 + 1 - 1 = 2 * h + 1 := by omega
    rw [e2, e3] at hr
    rw [← hr]
    apply Finset.sum_congr rfl
    intro k hk
    rw [Finset.mem_Ico] at hk
    exact T_mirror x (2 * h + 1) k j hn (by omega)
  rw [hsplit, hmirror]
  ring

/-- **Inversion from the half spectrum** (odd length `n = 2h + 1`): `x_j = (T_0 + 2 Σ_{k=1}^{h} T_k) / n`, no Nyquist
term. -/
theorem half_inversion_odd (x : List ℝ) (h : ℕ) (hlen : x.length ≤ 2 * h + 1) (j : ℕ) (hj : j < 2 * h + 1) :
    padR x j = (T x (2 * h + 1) 0 j + 2 * ∑ k ∈ Finset.Ico 1 (h + 1), T x (2 * h + 1) k j) / ((2 * h + 1 : ℕ) : ℝ) := by
  have hn' : ((2 * h + 1 : ℕ) : ℝ) ≠ 0 := by
    have : 2 * h + 1 ≠ 0 := by omega
    exact_mod_cast this
  rw [half_inversion_odd_mul x h hlen j hj]
  field_simp

end
end HV
