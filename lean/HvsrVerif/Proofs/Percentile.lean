import HvsrVerif.Proofs.RealInst
import HvsrVerif.Model.Process
import Mathlib.Algebra.Order.Floor.Semiring
import Mathlib.Tactic.Linarith
import Mathlib.Tactic.Ring
import Mathlib.Tactic.Positivity
/-! numpy 'linear' percentile: insertion sort is sorted, linear interpolation through sorted nodes is monotone -/
namespace HV
open Classical

/-- linear interpolation through the nodes `a 0, a 1, …` at real index `h ≥ 0` -/
noncomputable def interp (a : ℕ → ℝ) (h : ℝ) : ℝ :=
  a ⌊h⌋₊ + (a (⌊h⌋₊ + 1) - a ⌊h⌋₊) * (h - ⌊h⌋₊)

theorem interp_between (a : ℕ → ℝ) (ha : Monotone a) (h : ℝ) (h0 : 0 ≤ h) :
    a ⌊h⌋₊ ≤ interp a h ∧ interp a h ≤ a (⌊h⌋₊ + 1) := by
  have hf : (⌊h⌋₊ : ℝ) ≤ h := Nat.floor_le h0
  have hl : h < ⌊h⌋₊ + 1 := Nat.lt_floor_add_one h
  have hd : 0 ≤ a (⌊h⌋₊ + 1) - a ⌊h⌋₊ := sub_nonneg.mpr (ha (Nat.le_succ _))
  unfold interp
  constructor
  · nlinarith
  · nlinarith

theorem interp_mono (a : ℕ → ℝ) (ha : Monotone a) {h₁ h₂ : ℝ} (h0 : 0 ≤ h₁) (h12 : h₁ ≤ h₂) :
    interp a h₁ ≤ interp a h₂ := by
  have h0' : 0 ≤ h₂ := le_trans h0 h12
  have hfl : ⌊h₁⌋₊ ≤ ⌊h₂⌋₊ := Nat.floor_le_floor h12
  rcases Nat.lt_or_ge ⌊h₁⌋₊ ⌊h₂⌋₊ with hlt | hge
  · calc interp a h₁ ≤ a (⌊h₁⌋₊ + 1) := (interp_between a ha h₁ h0).2
      _ ≤ a ⌊h₂⌋₊ := ha hlt
      _ ≤ interp a h₂ := (interp_between a ha h₂ h0').1
  · have heq : ⌊h₁⌋₊ = ⌊h₂⌋₊ := le_antisymm hfl hge
    have hd : 0 ≤ a (⌊h₂⌋₊ + 1) - a ⌊h₂⌋₊ := sub_nonneg.mpr (ha (Nat.le_succ _))
    unfold interp
    rw [heq]
    nlinarith

/-- sortedness as a pairwise relation -/
def SortedLE (l : List ℝ) : Prop := l.Pairwise (· ≤ ·)

theorem mem_insertSorted (x : ℝ) (l : List ℝ) (y : ℝ) : y ∈ insertSorted x l ↔ y = x ∨ y ∈ l := by
  induction l with
  | nil => simp [insertSorted]
  | cons a t ih =>
    unfold insertSorted
    split
    · simp
    · simp only [List.mem_cons, ih]; tauto

theorem insertSorted_sorted (x : ℝ) (l : List ℝ) (h : SortedLE l) : SortedLE (insertSorted x l) := by
  induction l with
  | nil => simp [insertSorted, SortedLE]
  | cons a t ih =>
    unfold insertSorted
    have ht : SortedLE t := (List.pairwise_cons.mp h).2
    have ha : ∀ y ∈ t, a ≤ y := (List.pairwise_cons.mp h).1
    split
    · rename_i hxa
      unfold SortedLE
      rw [List.pairwise_cons]
      refine ⟨?_, h⟩
      intro y hy
      rcases List.mem_cons.mp hy with rfl | hy
      · exact hxa.le
      · exact le_trans hxa.le (ha y hy)
    · rename_i hxa
      unfold SortedLE
      rw [List.pairwise_cons]
      refine ⟨?_, ih ht⟩
      intro y hy
      rcases (mem_insertSorted x t y).mp hy with rfl | hy
      · exact not_lt.mp hxa
      · exact ha y hy

theorem sortA_sorted (l : List ℝ) : SortedLE (sortA l) := by
  unfold sortA
  induction l with
  | nil => simp [SortedLE]
  | cons a t ih => simp only [List.foldr_cons]; exact insertSorted_sorted a _ ih

theorem mem_sortA (l : List ℝ) (y : ℝ) : y ∈ sortA l ↔ y ∈ l := by
  unfold sortA
  induction l with
  | nil => simp
  | cons a t ih => simp only [List.foldr_cons, mem_insertSorted, ih, List.mem_cons]

theorem length_insertSorted (x : ℝ) (l : List ℝ) : (insertSorted x l).length = l.length + 1 := by
  induction l with
  | nil => simp [insertSorted]
  | cons a t ih => unfold insertSorted; split <;> simp [ih]

theorem length_sortA (l : List ℝ) : (sortA l).length = l.length := by
  unfold sortA
  induction l with
  | nil => rfl
  | cons a t ih => simp only [List.foldr_cons, length_insertSorted, ih, List.length_cons]

/-- nodes of the interpolation: the sorted values, clamped at the last one -/
noncomputable def nodes (s : List ℝ) (i : ℕ) : ℝ := s.getD (min i (s.length - 1)) 0

theorem nodes_mono (s : List ℝ) (hs : SortedLE s) : Monotone (nodes s) := by
  intro i j hij
  unfold nodes
  by_cases hne : s = []
  · subst hne; simp
  · have hlen : 0 < s.length := List.length_pos_iff.mpr hne
    have hi : min i (s.length - 1) < s.length := by omega
    have hj : min j (s.length - 1) < s.length := by omega
    simp only [List.getD_eq_getElem?_getD, List.getElem?_eq_getElem hi, List.getElem?_eq_getElem hj, Option.getD_some]
    have hle : min i (s.length - 1) ≤ min j (s.length - 1) := by omega
    rcases Nat.lt_or_ge (min i (s.length - 1)) (min j (s.length - 1)) with hlt | hge
    · exact List.pairwise_iff_getElem.mp hs _ _ hi hj hlt
    · have : min i (s.length - 1) = min j (s.length - 1) := by omega
      simp [this]

/-- the model's percentile is the interpolation through the sorted, clamped nodes -/
theorem percentile_eq_interp (vals : List ℝ) (q : ℝ) (hq0 : 0 ≤ q) (hq : q ≤ 100) (hne : vals ≠ []) :
    percentile vals q = interp (nodes (sortA vals)) (((vals.length - 1 : ℕ) : ℝ) * q / 100) := by
  unfold percentile interp nodes
  simp only [length_sortA, ofNat_real, Nat.cast_ofNat, floor_real]
  have hlen : 0 < vals.length := List.length_pos_iff.mpr hne
  set h : ℝ := ((vals.length - 1 : ℕ) : ℝ) * q / 100 with hh
  have h0 : 0 ≤ h := by positivity
  have hle : h ≤ ((vals.length - 1 : ℕ) : ℝ) := by
    rw [hh]
    have : ((vals.length - 1 : ℕ) : ℝ) * q ≤ ((vals.length - 1 : ℕ) : ℝ) * 100 := by
      apply mul_le_mul_of_nonneg_left hq; positivity
    linarith
  have hfl : (⌊h⌋).toNat = ⌊h⌋₊ := rfl
  rw [hfl]
  have hfloor : ⌊h⌋₊ ≤ vals.length - 1 := by
    have := Nat.floor_le_floor hle
    simpa using this
  have e1 : min ⌊h⌋₊ (vals.length - 1) = ⌊h⌋₊ := by omega
  rw [e1]
  simp only [Nat.cast_zero]

end HV
