import HvsrVerif.Model.Cli
/-! helper lemmas for C19 (unfolding of the well-founded definitions of Model/Cli.lean, list bookkeeping) -/
namespace HV.Cli

theorem nextpow2Loop_of_gt {n p : Nat} (hp : 0 < p) (h : p > n) : nextpow2Loop n p hp = p := by
  rw [nextpow2Loop]; simp [h]

theorem nextpow2Loop_of_le {n p : Nat} (hp : 0 < p) (h : ¬ p > n) :
    nextpow2Loop n p hp = nextpow2Loop n (p * 2) (by omega) := by
  rw [nextpow2Loop]; simp [h]

theorem nextpow2Loop_spec (n p : Nat) (hp : 0 < p) :
    ∃ k, nextpow2Loop n p hp = p * 2 ^ k ∧ n < p * 2 ^ k ∧ ∀ j, n < p * 2 ^ j → k ≤ j := by
  induction hm : n + 1 - p using Nat.strongRecOn generalizing p with
  | _ m ih =>
    by_cases h : p > n
    · refine ⟨0, ?_, ?_, fun j _ => Nat.zero_le j⟩
      · rw [nextpow2Loop_of_gt hp h]; simp
      · simpa using h
    · obtain ⟨k, hk, hlt, hmin⟩ := ih (n + 1 - p * 2) (by omega) (p * 2) (by omega) rfl
      have e : ∀ i, p * 2 * 2 ^ i = p * 2 ^ (i + 1) := by
        intro i; rw [Nat.pow_succ, Nat.mul_assoc, Nat.mul_comm 2 (2 ^ i)]
      refine ⟨k + 1, ?_, ?_, ?_⟩
      · rw [nextpow2Loop_of_le hp h, hk, e]
      · rw [← e]; exact hlt
      · intro j hj
        cases j with
        | zero => simp at hj; omega
        | succ j => rw [← e] at hj; have := hmin j hj; omega

theorem runChunk_fresh {β : Type} (reps : Nat) (out : Option Nat → File → β) (loaded : FftState) (files : List File) :
    runChunk .fresh reps out loaded files = files.map (alone reps loaded out) := by
  induction files with
  | nil => rfl
  | cons f rest ih => simp only [runChunk, List.map_cons, ih]; rfl

theorem chunksOf_nil {γ : Type} (size : Nat) : chunksOf size ([] : List γ) = [] := by
  rw [chunksOf]; simp

theorem chunksOf_zero {γ : Type} (l : List γ) : chunksOf 0 l = [] := by
  rw [chunksOf]; simp

theorem chunksOf_cons {γ : Type} (size : Nat) (hs : 0 < size) (a : γ) (l : List γ) :
    chunksOf size (a :: l) = (a :: l).take size :: chunksOf size ((a :: l).drop size) := by
  rw [chunksOf]; simp; omega

theorem chunksOf_partition {γ : Type} (size : Nat) (hs : 0 < size) (l : List γ) :
    (chunksOf size l).flatten = l ∧ ∀ c ∈ chunksOf size l, c ≠ [] ∧ c.length ≤ size := by
  induction hm : l.length using Nat.strongRecOn generalizing l with
  | _ m ih =>
    cases l with
    | nil => rw [chunksOf_nil]; simp
    | cons a t =>
      rw [chunksOf_cons size hs]
      have hlen : ((a :: t).drop size).length < m := by
        subst hm; simp only [List.length_drop, List.length_cons]; omega
      obtain ⟨h1, h2⟩ := ih _ hlen _ rfl
      refine ⟨?_, ?_⟩
      · rw [List.flatten_cons, h1, List.take_append_drop]
      · intro c hc
        rcases List.mem_cons.mp hc with rfl | hc
        · refine ⟨?_, ?_⟩
          · obtain ⟨s', rfl⟩ : ∃ s', size = s' + 1 := ⟨size - 1, by omega⟩
            simp
          · simp only [List.length_take]; omega
        · exact h2 c hc

theorem zip_map_self {γ δ : Type} (l : List γ) (g : γ → δ) : l.zip (l.map g) = l.map (fun x => (x, g x)) := by
  induction l with
  | nil => rfl
  | cons a t ih => simp only [List.map_cons, List.zip_cons_cons, ih]

theorem goodN_50001 : goodN 50001 = 65536 := by
  unfold goodN nextpow2
  rw [nextpow2Loop_of_le _ (by decide), nextpow2Loop_of_gt _ (by decide)]

theorem goodN_10001 : goodN 10001 = 32768 := by
  unfold goodN nextpow2
  rw [nextpow2Loop_of_gt _ (by decide)]


end HV.Cli
