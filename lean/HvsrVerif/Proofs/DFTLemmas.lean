import HvsrVerif.Proofs.ListLemmas
import HvsrVerif.Model.DFT
import Mathlib.RingTheory.RootsOfUnity.Complex
import Mathlib.Algebra.Field.GeomSum
import Mathlib.Analysis.SpecialFunctions.Trigonometric.Basic
import Mathlib.Tactic

open Complex Finset Real

noncomputable section

def ζ (n : ℕ) : ℂ := cexp (2 * π * I / n)
lemma zeta_prim (n : ℕ) (hn : n ≠ 0) : IsPrimitiveRoot (ζ n) n := Complex.isPrimitiveRoot_exp n hn
lemma zeta_norm (n : ℕ) : ‖ζ n‖ = 1 := by
  unfold ζ
  have : (2 * π * I / n : ℂ) = ((2 * π / n : ℝ) : ℂ) * I := by push_cast; ring
  rw [this, Complex.norm_exp_ofReal_mul_I]
lemma conj_zeta_pow (n m : ℕ) : (starRingEnd ℂ) ((ζ n) ^ m) = ((ζ n) ^ m)⁻¹ := by
  have h1 : ‖(ζ n) ^ m‖ = 1 := by rw [norm_pow, zeta_norm, one_pow]
  exact (Complex.inv_eq_conj h1).symm
lemma geom_zero (n d : ℕ) (hn : n ≠ 0) (hd0 : 0 < d) (hd : d < n) :
    ∑ k ∈ range n, ((ζ n) ^ d) ^ k = 0 := by
  have hp := zeta_prim n hn
  have hne : (ζ n) ^ d ≠ 1 := hp.pow_ne_one_of_pos_of_lt (Nat.pos_iff_ne_zero.mp hd0) hd
  rw [geom_sum_eq hne, ← pow_mul, mul_comm, pow_mul, hp.pow_eq_one, one_pow, sub_self, zero_div]
lemma orth (n : ℕ) (hn : n ≠ 0) (a b : ℕ) (ha : a < n) (hb : b < n) :
    ∑ k ∈ range n, (ζ n) ^ (k * a) * (starRingEnd ℂ) ((ζ n) ^ (k * b))
      = if a = b then (n : ℂ) else 0 := by
  have hz : ζ n ≠ 0 := by unfold ζ; exact exp_ne_zero _
  split_ifs with hab
  · subst hab
    have : ∀ k ∈ range n, (ζ n) ^ (k * a) * (starRingEnd ℂ) ((ζ n) ^ (k * a)) = 1 := by
      intro k _; rw [conj_zeta_pow]; exact mul_inv_cancel₀ (pow_ne_zero _ hz)
    rw [sum_congr rfl this]; simp
  · rcases Nat.lt_or_gt_of_ne hab with h | h
    · have key : ∀ k ∈ range n, (ζ n) ^ (k * a) * (starRingEnd ℂ) ((ζ n) ^ (k * b))
          = (starRingEnd ℂ) (((ζ n) ^ (b - a)) ^ k) := by
        intro k _
        rw [← pow_mul, conj_zeta_pow, conj_zeta_pow]
        have : (b - a) * k + k * a = k * b := by
          have : b - a + a = b := Nat.sub_add_cancel h.le
          nlinarith [this]
        rw [← this, pow_add]; field_simp
      rw [sum_congr rfl key, ← map_sum, geom_zero n (b - a) hn (Nat.sub_pos_of_lt h) (by omega), map_zero]
    · have key : ∀ k ∈ range n, (ζ n) ^ (k * a) * (starRingEnd ℂ) ((ζ n) ^ (k * b))
          = ((ζ n) ^ (a - b)) ^ k := by
        intro k _
        rw [← pow_mul, conj_zeta_pow]
        have : (a - b) * k + k * b = k * a := by
          have : a - b + b = a := Nat.sub_add_cancel h.le
          nlinarith [this]
        rw [← this, pow_add]; field_simp
      rw [sum_congr rfl key, geom_zero n (a - b) hn (Nat.sub_pos_of_lt h) (by omega)]

/-- n-point DFT (numpy sign convention), input as a function on ℕ, only `j < n` is read -/
def cdft (n : ℕ) (x : ℕ → ℂ) (k : ℕ) : ℂ := ∑ j ∈ range n, x j * (starRingEnd ℂ) ((ζ n) ^ (k * j))

theorem parseval (n : ℕ) (hn : n ≠ 0) (x : ℕ → ℂ) :
    ∑ k ∈ range n, cdft n x k * (starRingEnd ℂ) (cdft n x k)
      = n * ∑ j ∈ range n, x j * (starRingEnd ℂ) (x j) := by
  unfold cdft
  simp only [map_sum, map_mul, Complex.conj_conj, Finset.sum_mul, Finset.mul_sum]
  rw [Finset.sum_comm]
  apply Finset.sum_congr rfl
  intro j hj
  rw [Finset.sum_comm]
  have hjn : j < n := Finset.mem_range.mp hj
  have : ∀ y ∈ range n, ∑ k ∈ range n, x y * (starRingEnd ℂ) (ζ n ^ (k * y)) * ((starRingEnd ℂ) (x j) * ζ n ^ (k * j))
      = x y * (starRingEnd ℂ) (x j) * (if j = y then (n:ℂ) else 0) := by
    intro y hy
    rw [← orth n hn j y hjn (Finset.mem_range.mp hy), Finset.mul_sum]
    apply Finset.sum_congr rfl; intro k _; ring
  rw [Finset.sum_congr rfl this]
  simp [Finset.sum_ite_eq, hj]; ring



end

namespace HV
open Complex Finset Real

/-- zero-padded series as a function on ℕ -/
def padR (x : List ℝ) (j : ℕ) : ℝ := x.getD j 0

theorem dftAngle_real (n j k : ℕ) : (dftAngle n j k : ℝ) = 2 * π * (((j * k) % n : ℕ) : ℝ) / n := by
  unfold dftAngle
  simp only [ofNat_real, pi_real, Nat.cast_ofNat]

theorem cos_dftAngle (n j k : ℕ) (hn : n ≠ 0) : Real.cos (dftAngle n j k) = Real.cos (2 * π * (j * k : ℕ) / n) := by
  rw [dftAngle_real]
  have hn' : (n : ℝ) ≠ 0 := by exact_mod_cast hn
  have h := Nat.div_add_mod (j * k) n
  have e : (2 * π * ((j * k : ℕ) : ℝ) / n) = 2 * π * (((j * k) % n : ℕ) : ℝ) / n + ((j * k) / n : ℕ) * (2 * π) := by
    have : ((j * k : ℕ) : ℝ) = (n : ℝ) * (((j * k) / n : ℕ) : ℝ) + (((j * k) % n : ℕ) : ℝ) := by exact_mod_cast h.symm
    rw [this]; field_simp; ring
  rw [e, Real.cos_add_nat_mul_two_pi]

theorem sin_dftAngle (n j k : ℕ) (hn : n ≠ 0) : Real.sin (dftAngle n j k) = Real.sin (2 * π * (j * k : ℕ) / n) := by
  rw [dftAngle_real]
  have hn' : (n : ℝ) ≠ 0 := by exact_mod_cast hn
  have h := Nat.div_add_mod (j * k) n
  have e : (2 * π * ((j * k : ℕ) : ℝ) / n) = 2 * π * (((j * k) % n : ℕ) : ℝ) / n + ((j * k) / n : ℕ) * (2 * π) := by
    have : ((j * k : ℕ) : ℝ) = (n : ℝ) * (((j * k) / n : ℕ) : ℝ) + (((j * k) % n : ℕ) : ℝ) := by exact_mod_cast h.symm
    rw [this]; field_simp; ring
  rw [e, Real.sin_add_nat_mul_two_pi]

theorem zip_range'_sum (l : List ℝ) (s : ℕ) (g : ℕ → ℝ → ℝ) :
    ((List.zip (List.range' s l.length) l).map (fun p => g p.1 p.2)).sum
      = ∑ j ∈ Finset.range l.length, g (s + j) (l.getD j 0) := by
  induction l generalizing s with
  | nil => simp
  | cons a t ih =>
    simp only [List.length_cons, List.range'_succ, List.zip_cons_cons, List.map_cons, List.sum_cons]
    rw [ih (s + 1), Finset.sum_range_succ']
    simp only [List.getD_cons_succ, List.getD_cons_zero, add_zero]
    rw [add_comm]
    congr 1
    apply Finset.sum_congr rfl
    intro j _
    congr 1
    omega

theorem zip_range_sum (l : List ℝ) (g : ℕ → ℝ → ℝ) :
    ((List.zip (List.range l.length) l).map (fun p => g p.1 p.2)).sum
      = ∑ j ∈ Finset.range l.length, g j (l.getD j 0) := by
  rw [List.range_eq_range', zip_range'_sum]
  simp

theorem dftRe_sum (x : List ℝ) (n k : ℕ) (hn : n ≠ 0) :
    dftRe x n k = ∑ j ∈ Finset.range x.length, padR x j * Real.cos (2 * π * (j * k : ℕ) / n) := by
  unfold dftRe
  rw [sumA_real]
  have := zip_range_sum x (fun j v => v * Transc.cos (dftAngle n j k))
  simp only [cos_real] at this ⊢
  rw [this]
  apply Finset.sum_congr rfl
  intro j _
  rw [cos_dftAngle n j k hn]; rfl

theorem dftIm_sum (x : List ℝ) (n k : ℕ) (hn : n ≠ 0) :
    dftIm x n k = -∑ j ∈ Finset.range x.length, padR x j * Real.sin (2 * π * (j * k : ℕ) / n) := by
  unfold dftIm
  rw [sumA_real]
  have := zip_range_sum x (fun j v => v * Transc.sin (dftAngle n j k))
  simp only [sin_real] at this ⊢
  rw [this]
  congr 1
  apply Finset.sum_congr rfl
  intro j _
  rw [sin_dftAngle n j k hn]; rfl

theorem conj_zeta_pow_eq (n m : ℕ) (hn : n ≠ 0) :
    (starRingEnd ℂ) ((ζ n) ^ m) = ((Real.cos (2 * π * (m : ℕ) / n) : ℝ) : ℂ) - ((Real.sin (2 * π * (m : ℕ) / n) : ℝ) : ℂ) * I := by
  unfold ζ
  rw [← Complex.exp_nat_mul, ← Complex.exp_conj]
  have hn' : (n : ℂ) ≠ 0 := by exact_mod_cast hn
  have e : (starRingEnd ℂ) ((m : ℂ) * (2 * π * I / n)) = ((-(2 * π * (m : ℕ) / n) : ℝ) : ℂ) * I := by
    simp only [map_mul, map_div₀, Complex.conj_I, Complex.conj_ofReal, map_natCast, map_ofNat]
    push_cast
    field_simp
  rw [e, Complex.exp_mul_I]
  simp only [Complex.ofReal_neg, Complex.cos_neg, Complex.sin_neg, Complex.ofReal_cos, Complex.ofReal_sin]
  push_cast
  ring

/-- the model's real DFT is the complex DFT of the zero-padded series -/
theorem dft_eq_cdft (x : List ℝ) (n k : ℕ) (hn : n ≠ 0) (hlen : x.length ≤ n) :
    ((dftRe x n k : ℝ) : ℂ) + ((dftIm x n k : ℝ) : ℂ) * I = cdft n (fun j => ((padR x j : ℝ) : ℂ)) k := by
  unfold cdft
  have hsplit : ∑ j ∈ Finset.range n, ((padR x j : ℝ) : ℂ) * (starRingEnd ℂ) ((ζ n) ^ (k * j))
      = ∑ j ∈ Finset.range x.length, ((padR x j : ℝ) : ℂ) * (starRingEnd ℂ) ((ζ n) ^ (k * j)) := by
    symm
    apply Finset.sum_subset
    · intro j hj; rw [Finset.mem_range] at hj ⊢; omega
    · intro j _ hj
      rw [Finset.mem_range, not_lt] at hj
      have : padR x j = 0 := by unfold padR; simp [List.getD, List.getElem?_eq_none hj]
      rw [this]; simp
  rw [hsplit, dftRe_sum x n k hn, dftIm_sum x n k hn]
  rw [Complex.ofReal_sum, Complex.ofReal_neg, Complex.ofReal_sum, neg_mul, Finset.sum_mul, ← sub_eq_add_neg,
    ← Finset.sum_sub_distrib]
  apply Finset.sum_congr rfl
  intro j _
  rw [conj_zeta_pow_eq n (k * j) hn]
  have : (j * k : ℕ) = (k * j : ℕ) := Nat.mul_comm j k
  rw [this]
  push_cast
  ring

/-- **Parseval for the model's DFT** (all `n` bins): `Σ_k (Re_k² + Im_k²) = n · Σ_j x_j²` -/
theorem parseval_real (x : List ℝ) (n : ℕ) (hn : n ≠ 0) (hlen : x.length ≤ n) :
    ∑ k ∈ Finset.range n, ((dftRe x n k) ^ 2 + (dftIm x n k) ^ 2) = n * ∑ j ∈ Finset.range n, (padR x j) ^ 2 := by
  have h := parseval n hn (fun j => ((padR x j : ℝ) : ℂ))
  have hl : ∀ k, cdft n (fun j => ((padR x j : ℝ) : ℂ)) k * (starRingEnd ℂ) (cdft n (fun j => ((padR x j : ℝ) : ℂ)) k)
      = (((dftRe x n k) ^ 2 + (dftIm x n k) ^ 2 : ℝ) : ℂ) := by
    intro k
    rw [← dft_eq_cdft x n k hn hlen, Complex.mul_conj, Complex.normSq_add_mul_I]
  have hr : ∀ j, ((padR x j : ℝ) : ℂ) * (starRingEnd ℂ) ((padR x j : ℝ) : ℂ) = (((padR x j) ^ 2 : ℝ) : ℂ) := by
    intro j; rw [Complex.conj_ofReal]; push_cast; ring
  simp only [hl, hr] at h
  have h2 : ((∑ k ∈ Finset.range n, ((dftRe x n k) ^ 2 + (dftIm x n k) ^ 2) : ℝ) : ℂ)
      = ((n * ∑ j ∈ Finset.range n, (padR x j) ^ 2 : ℝ) : ℂ) := by
    push_cast
    push_cast at h
    exact h
  exact_mod_cast h2

/-- conjugate symmetry of the DFT of a real series: bin `n − k` mirrors bin `k` -/
theorem dft_symm (x : List ℝ) (n k : ℕ) (hn : n ≠ 0) (hk : k ≤ n) :
    dftRe x n (n - k) = dftRe x n k ∧ dftIm x n (n - k) = -dftIm x n k := by
  have hn' : (n : ℝ) ≠ 0 := by exact_mod_cast hn
  have ang : ∀ j : ℕ, (2 * π * ((j * (n - k) : ℕ) : ℝ) / n) = j * (2 * π) - 2 * π * ((j * k : ℕ) : ℝ) / n := by
    intro j
    rw [Nat.cast_mul, Nat.cast_sub hk, Nat.cast_mul]
    field_simp
  constructor
  · rw [dftRe_sum x n _ hn, dftRe_sum x n k hn]
    apply Finset.sum_congr rfl
    intro j _
    rw [ang j, Real.cos_nat_mul_two_pi_sub]
  · rw [dftIm_sum x n _ hn, dftIm_sum x n k hn, neg_neg]
    rw [← Finset.sum_neg_distrib]
    apply Finset.sum_congr rfl
    intro j _
    rw [ang j, Real.sin_nat_mul_two_pi_sub]
    ring

end HV
