import HvsrVerif.Model.Settings
/-!
# Lemmas about the aliasing model `Model/Settings.lean` (used by `Props/C15.lean`)

Part 1: locations (`ids`) of the results of the value operations.
Part 2: the separation invariant `Inv` and its preservation by every safe operation, together with
the frame property (an operation changes no group but its target).
Part 3: save / load / dispatch round trip.
No Mathlib.
-/
namespace HV.Settings

/-! ## Part 1: locations -/

theorem mem_idsL {i : Nat} : ∀ {cs : List Val}, i ∈ idsL cs ↔ ∃ c ∈ cs, i ∈ c.ids
  | [] => by simp [idsL]
  | v :: vs => by
    simp only [idsL, List.mem_append, List.mem_cons, exists_eq_or_imp, mem_idsL (cs := vs)]

theorem mem_idsF {i : Nat} : ∀ {fs : List (String × Val)}, i ∈ idsF fs ↔ ∃ kv ∈ fs, i ∈ kv.2.ids
  | [] => by simp [idsF]
  | (k, v) :: rest => by
    simp only [idsF, List.mem_append, List.mem_cons, exists_eq_or_imp, mem_idsF (fs := rest)]

mutual
theorem relabel_range (n : Nat) : ∀ v : Val,
    n ≤ (v.relabel n).2 ∧ ∀ i ∈ (v.relabel n).1.ids, n ≤ i ∧ i < (v.relabel n).2
  | .sc s => by simp [Val.relabel, Val.ids]
  | .node j k cs => by
    have h := relabelL_range (n + 1) cs
    simp only [Val.relabel, Val.ids, List.mem_cons]
    refine ⟨by omega, ?_⟩
    intro i hi
    rcases hi with hi | hi
    · subst hi; omega
    · have := h.2 i hi; omega
theorem relabelL_range (n : Nat) : ∀ vs : List Val,
    n ≤ (relabelL n vs).2 ∧ ∀ i ∈ idsL (relabelL n vs).1, n ≤ i ∧ i < (relabelL n vs).2
  | [] => by simp [relabelL, idsL]
  | v :: vs => by
    have h1 := relabel_range n v
    have h2 := relabelL_range (v.relabel n).2 vs
    simp only [relabelL, idsL, List.mem_append]
    refine ⟨by omega, ?_⟩
    intro i hi
    rcases hi with hi | hi
    · have := h1.2 i hi; omega
    · have := h2.2 i hi; omega
end

mutual
theorem toVal_range (n : Nat) : ∀ j : Json,
    n ≤ (j.toVal n).2 ∧ ∀ i ∈ (j.toVal n).1.ids, n ≤ i ∧ i < (j.toVal n).2
  | .sc s => by simp [Json.toVal, Val.ids]
  | .arr xs => by
    have h := toValL_range (n + 1) xs
    simp only [Json.toVal, Val.ids, List.mem_cons]
    refine ⟨by omega, ?_⟩
    intro i hi
    rcases hi with hi | hi
    · subst hi; omega
    · have := h.2 i hi; omega
  | .obj ks xs => by
    have h := toValL_range (n + 1) xs
    simp only [Json.toVal, Val.ids, List.mem_cons]
    refine ⟨by omega, ?_⟩
    intro i hi
    rcases hi with hi | hi
    · subst hi; omega
    · have := h.2 i hi; omega
theorem toValL_range (n : Nat) : ∀ js : List Json,
    n ≤ (toValL n js).2 ∧ ∀ i ∈ idsL (toValL n js).1, n ≤ i ∧ i < (toValL n js).2
  | [] => by simp [toValL, idsL]
  | j :: js => by
    have h1 := toVal_range n j
    have h2 := toValL_range (j.toVal n).2 js
    simp only [toValL, idsL, List.mem_append]
    refine ⟨by omega, ?_⟩
    intro i hi
    rcases hi with hi | hi
    · have := h1.2 i hi; omega
    · have := h2.2 i hi; omega
end

mutual
theorem toVal_canon (n : Nat) : ∀ j : Json, (j.toVal n).1.canon = j
  | .sc s => by simp [Json.toVal, Val.canon]
  | .arr xs => by simp [Json.toVal, Val.canon, toValL_canon (n + 1) xs]
  | .obj ks xs => by simp [Json.toVal, Val.canon, toValL_canon (n + 1) xs]
theorem toValL_canon (n : Nat) : ∀ js : List Json, canonL (toValL n js).1 = js
  | [] => by simp [toValL, canonL]
  | j :: js => by simp [toValL, canonL, toVal_canon n j, toValL_canon _ js]
end

mutual
theorem relabel_canon (n : Nat) : ∀ v : Val, (v.relabel n).1.canon = v.canon
  | .sc s => by simp [Val.relabel, Val.canon]
  | .node i k cs => by
    cases k <;> simp [Val.relabel, Val.canon, relabelL_canon (n + 1) cs]
theorem relabelL_canon (n : Nat) : ∀ vs : List Val, canonL (relabelL n vs).1 = canonL vs
  | [] => by simp [relabelL, canonL]
  | v :: vs => by simp [relabelL, canonL, relabel_canon n v, relabelL_canon _ vs]
end

mutual
theorem subst_of_not_mem (l : Nat) (k' : Kind) (cs' : List Val) :
    ∀ v : Val, l ∉ v.ids → v.subst l k' cs' = v
  | .sc s, _ => by simp [Val.subst]
  | .node i k cs, h => by
    simp only [Val.ids, List.mem_cons, not_or] at h
    have hne : ¬ i = l := fun e => h.1 e.symm
    simp [Val.subst, hne, substL_of_not_mem l k' cs' cs h.2]
theorem substL_of_not_mem (l : Nat) (k' : Kind) (cs' : List Val) :
    ∀ vs : List Val, l ∉ idsL vs → substL l k' cs' vs = vs
  | [], _ => by simp [substL]
  | v :: vs, h => by
    simp only [idsL, List.mem_append, not_or] at h
    simp [substL, subst_of_not_mem l k' cs' v h.1, substL_of_not_mem l k' cs' vs h.2]
end

mutual
theorem ids_subst (l : Nat) (k' : Kind) (cs' : List Val) :
    ∀ v : Val, ∀ i ∈ (v.subst l k' cs').ids, i ∈ v.ids ∨ i ∈ idsL cs'
  | .sc s => by simp [Val.subst, Val.ids]
  | .node j k cs => by
    intro i hi
    by_cases hjl : j = l
    · simp only [Val.subst, hjl, if_true, Val.ids, List.mem_cons] at hi ⊢
      rcases hi with hi | hi
      · exact Or.inl (Or.inl hi)
      · exact Or.inr hi
    · simp only [Val.subst, hjl, if_false, Val.ids, List.mem_cons] at hi ⊢
      rcases hi with hi | hi
      · exact Or.inl (Or.inl hi)
      · rcases ids_substL l k' cs' cs i hi with h | h
        · exact Or.inl (Or.inr h)
        · exact Or.inr h
theorem ids_substL (l : Nat) (k' : Kind) (cs' : List Val) :
    ∀ vs : List Val, ∀ i ∈ idsL (substL l k' cs' vs), i ∈ idsL vs ∨ i ∈ idsL cs'
  | [] => by simp [substL, idsL]
  | v :: vs => by
    intro i hi
    simp only [substL, idsL, List.mem_append] at hi ⊢
    rcases hi with hi | hi
    · rcases ids_subst l k' cs' v i hi with h | h
      · exact Or.inl (Or.inl h)
      · exact Or.inr h
    · rcases ids_substL l k' cs' vs i hi with h | h
      · exact Or.inl (Or.inr h)
      · exact Or.inr h
end

theorem getElem?_ids {cs : List Val} {n : Nat} {c : Val} (h : cs[n]? = some c) :
    ∀ i ∈ c.ids, i ∈ idsL cs := by
  intro i hi
  exact mem_idsL.2 ⟨c, List.mem_of_getElem? h, hi⟩

theorem child_ids {k : Kind} {cs : List Val} {s : Step} {c : Val} (h : child k cs s = some c) :
    ∀ i ∈ c.ids, i ∈ idsL cs := by
  cases s with
  | idx n =>
    cases k <;> simp only [child] at h <;> first | exact getElem?_ids h | cases h
  | key x =>
    cases k with
    | dict ks =>
      simp only [child] at h
      split at h
      · exact getElem?_ids h
      · cases h
    | _ => simp [child] at h

theorem resolve_ids : ∀ (p : List Step) (v : Val) (l : Nat) (k : Kind) (cs : List Val),
    resolve v p = some (l, k, cs) → l ∈ v.ids ∧ ∀ i ∈ idsL cs, i ∈ v.ids
  | [], .sc s => by simp [resolve]
  | _ :: _, .sc s => by simp [resolve]
  | [], .node j k0 cs0 => by
    intro l k cs h
    simp only [resolve, Option.some.injEq, Prod.mk.injEq] at h
    obtain ⟨rfl, rfl, rfl⟩ := h
    simp only [Val.ids, List.mem_cons, true_or, true_and]
    exact fun i hi => Or.inr hi
  | s :: ss, .node j k0 cs0 => by
    intro l k cs h
    simp only [resolve] at h
    split at h
    · rename_i c hc
      have ih := resolve_ids ss c l k cs h
      have hsub := child_ids hc
      simp only [Val.ids, List.mem_cons]
      exact ⟨Or.inr (hsub _ ih.1), fun i hi => Or.inr (hsub _ (ih.2 i hi))⟩
    · cases h

theorem ids_set {cs : List Val} {n : Nat} {v : Val} :
    ∀ i ∈ idsL (cs.set n v), i ∈ idsL cs ∨ i ∈ v.ids := by
  intro i hi
  obtain ⟨c, hc, hic⟩ := mem_idsL.1 hi
  rcases List.mem_or_eq_of_mem_set hc with h | h
  · exact Or.inl (mem_idsL.2 ⟨c, h, hic⟩)
  · subst h; exact Or.inr hic

theorem ids_append_one {cs : List Val} {v : Val} :
    ∀ i ∈ idsL (cs ++ [v]), i ∈ idsL cs ∨ i ∈ v.ids := by
  intro i hi
  obtain ⟨c, hc, hic⟩ := mem_idsL.1 hi
  rcases List.mem_append.1 hc with h | h
  · exact Or.inl (mem_idsL.2 ⟨c, h, hic⟩)
  · simp only [List.mem_singleton] at h
    subst h; exact Or.inr hic

theorem writeAt_ids {k : Kind} {cs : List Val} {last : Step} {v : Val} {k' : Kind} {cs' : List Val}
    (h : writeAt k cs last v = some (k', cs')) : ∀ i ∈ idsL cs', i ∈ idsL cs ∨ i ∈ v.ids := by
  unfold writeAt at h
  split at h
  · split at h
    · simp only [Option.some.injEq, Prod.mk.injEq] at h; obtain ⟨_, rfl⟩ := h; exact ids_set
    · cases h
  · split at h
    · split at h
      · simp only [Option.some.injEq, Prod.mk.injEq] at h; obtain ⟨_, rfl⟩ := h; exact ids_set
      · cases h
    · cases h
  · split at h
    · split at h
      · simp only [Option.some.injEq, Prod.mk.injEq] at h; obtain ⟨_, rfl⟩ := h; exact ids_set
      · cases h
    · simp only [Option.some.injEq, Prod.mk.injEq] at h; obtain ⟨_, rfl⟩ := h; exact ids_append_one
  · cases h

/-! ### fields -/

theorem lookup_ids : ∀ {fs : List (String × Val)} {k : String} {v : Val},
    fs.lookup k = some v → ∀ i ∈ v.ids, i ∈ idsF fs
  | [], _, _ => by simp [List.lookup]
  | (k', v') :: rest, k, v => by
    intro h i hi
    simp only [List.lookup] at h
    split at h
    · simp only [Option.some.injEq] at h; subst h
      simp [idsF, hi]
    · simp only [idsF, List.mem_append]
      exact Or.inr (lookup_ids h i hi)

theorem upsert_ids : ∀ {fs : List (String × Val)} {k : String} {v : Val},
    ∀ i ∈ idsF (upsert fs k v), i ∈ idsF fs ∨ i ∈ v.ids
  | [], k, v => by simp [upsert, idsF]
  | (k', v') :: rest, k, v => by
    intro i hi
    simp only [upsert] at hi
    split at hi
    · simp only [idsF, List.mem_append] at hi ⊢
      rcases hi with hi | hi
      · exact Or.inr hi
      · exact Or.inl (Or.inr hi)
    · simp only [idsF, List.mem_append] at hi ⊢
      rcases hi with hi | hi
      · exact Or.inl (Or.inl hi)
      · rcases upsert_ids i hi with h | h
        · exact Or.inl (Or.inr h)
        · exact Or.inr h

theorem substF_of_not_mem (l : Nat) (k' : Kind) (cs' : List Val) :
    ∀ fs : List (String × Val), l ∉ idsF fs → substF l k' cs' fs = fs
  | [], _ => by simp [substF]
  | (n, v) :: rest, h => by
    simp only [idsF, List.mem_append, not_or] at h
    simp [substF, subst_of_not_mem l k' cs' v h.1, substF_of_not_mem l k' cs' rest h.2]

theorem ids_substF (l : Nat) (k' : Kind) (cs' : List Val) :
    ∀ fs : List (String × Val), ∀ i ∈ idsF (substF l k' cs' fs), i ∈ idsF fs ∨ i ∈ idsL cs'
  | [] => by simp [substF, idsF]
  | (n, v) :: rest => by
    intro i hi
    simp only [substF, idsF, List.mem_append] at hi ⊢
    rcases hi with hi | hi
    · rcases ids_subst l k' cs' v i hi with h | h
      · exact Or.inl (Or.inl h)
      · exact Or.inr h
    · rcases ids_substF l k' cs' rest i hi with h | h
      · exact Or.inl (Or.inr h)
      · exact Or.inr h

theorem Group.subst_of_not_mem (l : Nat) (k' : Kind) (cs' : List Val) (g : Group) (h : l ∉ g.ids) :
    g.subst l k' cs' = g := by
  cases g with
  | mk c fs => simp [Group.subst, substF_of_not_mem l k' cs' fs h]

theorem loadFields_range : ∀ (file : File) (fs : List (String × Val)) (n : Nat),
    n ≤ (loadFields fs n file).2 ∧
    ∀ i ∈ idsF (loadFields fs n file).1, i ∈ idsF fs ∨ (n ≤ i ∧ i < (loadFields fs n file).2)
  | [], fs, n => by
    simp only [loadFields]
    exact ⟨Nat.le_refl _, fun i hi => Or.inl hi⟩
  | (k, j) :: rest, fs, n => by
    have h1 := toVal_range n j
    have h2 := loadFields_range rest (upsert fs k (j.toVal n).1) (j.toVal n).2
    simp only [loadFields]
    refine ⟨by omega, ?_⟩
    intro i hi
    rcases h2.2 i hi with h | h
    · rcases upsert_ids i h with h' | h'
      · exact Or.inl h'
      · have := h1.2 i h'; exact Or.inr ⟨this.1, by omega⟩
    · exact Or.inr ⟨by omega, h.2⟩

/-! ### the constructor -/

theorem idsL_of_all_sc {cs : List Val} (h : cs.all Val.isSc = true) : idsL cs = [] := by
  induction cs with
  | nil => rfl
  | cons c cs ih =>
    simp only [List.all_cons, Bool.and_eq_true] at h
    cases c with
    | sc s => simp [idsL, Val.ids, ih h.2]
    | node _ _ _ => simp [Val.isSc] at h

theorem idsL_of_all {q : Val → Bool} (hq : ∀ c, q c = true → c.isSc = true) {cs : List Val}
    (h : cs.all q = true) : idsL cs = [] := by
  apply idsL_of_all_sc
  simp only [List.all_eq_true] at h ⊢
  exact fun c hc => hq c (h c hc)

theorem toArray_range {n : Nat} {v w : Val} {n2 : Nat} (h : toArray n v = some (w, n2)) :
    n ≤ n2 ∧ ∀ i ∈ w.ids, n ≤ i ∧ i < n2 := by
  cases v with
  | sc s => simp [toArray] at h
  | node j k cs =>
    have key : ∀ (hk : (cs.all (fun c => match c with | .sc (.int _) => true | _ => false)
          || cs.all (fun c => match c with | .sc (.flt _) => true | _ => false)) = true),
        idsL cs = [] := by
      intro hk
      simp only [Bool.or_eq_true] at hk
      rcases hk with h1 | h1
      · exact idsL_of_all (fun c hc => by cases c <;> simp_all [Val.isSc]) h1
      · exact idsL_of_all (fun c hc => by cases c <;> simp_all [Val.isSc]) h1
    cases k <;> simp only [toArray] at h
    all_goals first
      | cases h
      | (split at h
         · rename_i hk
           simp only [Option.some.injEq, Prod.mk.injEq] at h
           obtain ⟨rfl, rfl⟩ := h
           simp [Val.ids, key hk]
         · cases h)

/-- the stored value lives at new locations in `[lo, n2)` provided the source is new (`[lo, n)`),
or the copy is deep, or the source has no container to share -/
theorem storeVal_range {s : StoreKind} {lo n : Nat} {v w : Val} {n2 : Nat}
    (h : storeVal s n v = some (w, n2)) (hlo : lo ≤ n)
    (hsrc : deepEnough s v = true ∨ (∀ i ∈ v.ids, lo ≤ i ∧ i < n) ∨
      s = .npArray ∨ s = .deepcopy ∨ s = .deepcopyDict) :
    n ≤ n2 ∧ ∀ i ∈ w.ids, lo ≤ i ∧ i < n2 := by
  cases s with
  | alias =>
    simp only [storeVal, Option.some.injEq, Prod.mk.injEq] at h
    obtain ⟨rfl, rfl⟩ := h
    refine ⟨Nat.le_refl _, ?_⟩
    rcases hsrc with hd | hr | hx | hx | hx
    · simp only [deepEnough, List.isEmpty_iff] at hd
      simp [hd]
    · exact hr
    all_goals cases hx
  | copy =>
    cases v with
    | sc x =>
      simp only [storeVal, Option.some.injEq, Prod.mk.injEq] at h
      obtain ⟨rfl, rfl⟩ := h
      simp [Val.ids]
    | node j k cs =>
      simp only [storeVal, Option.some.injEq, Prod.mk.injEq] at h
      obtain ⟨rfl, rfl⟩ := h
      refine ⟨by omega, ?_⟩
      intro i hi
      simp only [Val.ids, List.mem_cons] at hi
      rcases hi with hi | hi
      · subst hi; omega
      · rcases hsrc with hd | hr | hx | hx | hx
        · simp only [deepEnough, List.isEmpty_iff] at hd
          simp [hd] at hi
        · have := hr i (by simp [Val.ids, hi]); omega
        all_goals cases hx
  | npArray =>
    simp only [storeVal] at h
    have := toArray_range h
    exact ⟨this.1, fun i hi => by have := this.2 i hi; omega⟩
  | deepcopy =>
    simp only [storeVal, Option.some.injEq] at h
    have hr := relabel_range n v
    rw [h] at hr
    exact ⟨hr.1, fun i hi => by have := hr.2 i hi; omega⟩
  | deepcopyDict =>
    simp only [storeVal] at h
    split at h
    · simp only [Option.some.injEq] at h
      rename_i j ks cs
      have hr := relabel_range n (Val.node j (.dict ks) cs)
      rw [h] at hr
      exact ⟨hr.1, fun i hi => by have := hr.2 i hi; omega⟩
    · cases h

def StoreKind.deep : StoreKind → Bool
  | .npArray | .deepcopy | .deepcopyDict => true
  | _ => false

theorem buildFields_range (σ : State) (c : Class) (args : List (String × Src)) (lo : Nat) :
    ∀ (ps : List Param) (n : Nat) {fs : List (String × Val)} {n' : Nat},
    lo ≤ n →
    (∀ p ∈ ps, ∀ v, σ.lookup 0 (gkey c p.name) = some v → deepEnough p.store v = true) →
    (∀ p ∈ ps, ∀ x, args.lookup p.name = some (.var x) → p.store.deep = true) →
    buildFields σ c args ps n = some (fs, n') →
    n ≤ n' ∧ ∀ i ∈ idsF fs, lo ≤ i ∧ i < n'
  | [], n, fs, n' => by
    intro _ _ _ h
    simp only [buildFields, Option.some.injEq, Prod.mk.injEq] at h
    obtain ⟨rfl, rfl⟩ := h
    simp [idsF]
  | p :: ps, n, fs, n' => by
    intro hlo hG hA h
    simp only [buildFields] at h
    split at h
    · cases h
    · rename_i v n1 hsrc
      split at h
      · cases h
      · rename_i w n2 hst
        split at h
        · cases h
        · rename_i rest n3 hrest
          simp only [Option.some.injEq, Prod.mk.injEq] at h
          obtain ⟨rfl, rfl⟩ := h
          -- the source value
          have hsv : n ≤ n1 ∧ (deepEnough p.store v = true ∨ (∀ i ∈ v.ids, lo ≤ i ∧ i < n1) ∨
              p.store = .npArray ∨ p.store = .deepcopy ∨ p.store = .deepcopyDict) := by
            cases hsrcv : (args.lookup p.name).getD .dflt with
            | dflt =>
              rw [hsrcv] at hsrc
              simp only [srcVal, Option.map_eq_some_iff, Prod.mk.injEq] at hsrc
              obtain ⟨v0, hv0, rfl, rfl⟩ := hsrc
              exact ⟨Nat.le_refl _, Or.inl (hG p List.mem_cons_self v0 hv0)⟩
            | lit v0 =>
              rw [hsrcv] at hsrc
              simp only [srcVal, Option.some.injEq] at hsrc
              have hr := relabel_range n v0
              rw [hsrc] at hr
              exact ⟨hr.1, Or.inr (Or.inl fun i hi => by have := hr.2 i hi; omega)⟩
            | var x =>
              rw [hsrcv] at hsrc
              simp only [srcVal, Option.map_eq_some_iff, Prod.mk.injEq] at hsrc
              obtain ⟨v0, _, rfl, rfl⟩ := hsrc
              have hx : args.lookup p.name = some (.var x) := by
                cases hl : args.lookup p.name with
                | none => rw [hl] at hsrcv; simp at hsrcv
                | some s => rw [hl] at hsrcv; simp only [Option.getD_some] at hsrcv; rw [hsrcv]
              have hd := hA p List.mem_cons_self x hx
              refine ⟨Nat.le_refl _, Or.inr (Or.inr ?_)⟩
              cases hs : p.store <;> simp_all [StoreKind.deep]
          have h2 := storeVal_range hst (Nat.le_trans hlo hsv.1) hsv.2
          have h3 := buildFields_range σ c args lo ps n2 (by omega)
            (fun q hq => hG q (List.mem_cons_of_mem _ hq))
            (fun q hq => hA q (List.mem_cons_of_mem _ hq)) hrest
          refine ⟨by omega, ?_⟩
          intro i hi
          simp only [idsF, List.mem_append] at hi
          rcases hi with hi | hi
          · have := h2.2 i hi; omega
          · exact h3.2 i hi

/-! ## Part 2: separation invariant, frame -/

/-- no two groups (default objects, caller, settings objects) share a location; every location in
use is below the allocation counter; every default object can be stored by its parameter's store
kind without creating an alias -/
structure Inv (t : Table) (σ : State) : Prop where
  pos : 0 < σ.groups.length
  below : ∀ (g : Nat) (grp : Group), σ.groups[g]? = some grp → ∀ i ∈ grp.ids, i < σ.next
  sep : ∀ (g h : Nat) (gg gh : Group), σ.groups[g]? = some gg → σ.groups[h]? = some gh → g ≠ h →
    ∀ i ∈ gg.ids, i ∉ gh.ids
  dflt : ∀ c p, p ∈ t c → ∀ v, σ.lookup 0 (gkey c p.name) = some v → deepEnough p.store v = true

/-- `σ'` differs from `σ` at most in group `tgt` (which may be new), whose locations are those it
had before or new ones -/
structure GroupsStep (σ σ' : State) (tgt : Nat) : Prop where
  next_le : σ.next ≤ σ'.next
  frame : ∀ (g : Nat) (grp : Group), σ.groups[g]? = some grp → g ≠ tgt → σ'.groups[g]? = some grp
  only : ∀ (g : Nat) (grp' : Group), σ'.groups[g]? = some grp' → g = tgt ∨ σ.groups[g]? = some grp'
  fresh : ∀ (grp' : Group), σ'.groups[tgt]? = some grp' → ∀ i ∈ grp'.ids,
    (σ.next ≤ i ∧ i < σ'.next) ∨ (∃ grp : Group, σ.groups[tgt]? = some grp ∧ i ∈ grp.ids)

theorem GroupsStep.refl (σ : State) (tgt : Nat) : GroupsStep σ σ tgt where
  next_le := Nat.le_refl _
  frame := fun _ _ h _ => h
  only := fun _ _ h => Or.inr h
  fresh := fun grp' h _ hi => Or.inr ⟨grp', h, hi⟩

theorem GroupsStep.files {σ σ' : State} {tgt : Nat} (hn : σ'.next = σ.next) (hg : σ'.groups = σ.groups) :
    GroupsStep σ σ' tgt where
  next_le := by omega
  frame := fun _ _ h _ => by rw [hg]; exact h
  only := fun _ _ h => Or.inr (by rw [hg] at h; exact h)
  fresh := fun grp' h _ hi => Or.inr ⟨grp', by rw [hg] at h; exact h, hi⟩

theorem GroupsStep.trans {σ σ1 σ2 : State} {tgt : Nat} (h1 : GroupsStep σ σ1 tgt) (h2 : GroupsStep σ1 σ2 tgt) :
    GroupsStep σ σ2 tgt where
  next_le := Nat.le_trans h1.next_le h2.next_le
  frame := fun g grp h hne => h2.frame g grp (h1.frame g grp h hne) hne
  only := fun g grp' h => by
    rcases h2.only g grp' h with h | h
    · exact Or.inl h
    · exact h1.only g grp' h
  fresh := fun grp' h i hi => by
    have a := h1.next_le
    have b := h2.next_le
    rcases h2.fresh grp' h i hi with hf | ⟨grp1, hg1, hi1⟩
    · exact Or.inl ⟨by omega, hf.2⟩
    · rcases h1.fresh grp1 hg1 i hi1 with hf | hold
      · exact Or.inl ⟨hf.1, by omega⟩
      · exact Or.inr hold

theorem Inv.step {t : Table} {σ σ' : State} {tgt : Nat} (hI : Inv t σ) (hs : GroupsStep σ σ' tgt)
    (h0 : tgt ≠ 0) : Inv t σ' := by
  have hg0 : ∀ g0, σ.groups[0]? = some g0 → σ'.groups[0]? = some g0 :=
    fun g0 h => hs.frame 0 g0 h (fun e => h0 e.symm)
  obtain ⟨g0, hg0'⟩ : ∃ g0, σ.groups[0]? = some g0 := ⟨σ.groups[0]'hI.pos, by simp⟩
  refine ⟨?_, ?_, ?_, ?_⟩
  · have := hg0 g0 hg0'
    cases hl : σ'.groups with
    | nil => rw [hl] at this; simp at this
    | cons a b => simp
  · intro g grp hg i hi
    by_cases hgt : g = tgt
    · subst hgt
      rcases hs.fresh grp hg i hi with hf | ⟨grp0, hgrp0, hi0⟩
      · exact hf.2
      · exact Nat.lt_of_lt_of_le (hI.below g grp0 hgrp0 i hi0) hs.next_le
    · rcases hs.only g grp hg with h | h
      · exact absurd h hgt
      · exact Nat.lt_of_lt_of_le (hI.below g grp h i hi) hs.next_le
  · intro g h gg gh hgg hgh hne i hi hi'
    by_cases hgt : g = tgt
    · subst hgt
      have hold : σ.groups[h]? = some gh := by
        rcases hs.only h gh hgh with e | e
        · exact absurd e.symm hne
        · exact e
      rcases hs.fresh gg hgg i hi with hf | ⟨grp0, hgrp0, hi0⟩
      · have := hI.below h gh hold i hi'; omega
      · exact hI.sep g h grp0 gh hgrp0 hold hne i hi0 hi'
    · have holdg : σ.groups[g]? = some gg := by
        rcases hs.only g gg hgg with e | e
        · exact absurd e hgt
        · exact e
      by_cases hht : h = tgt
      · subst hht
        rcases hs.fresh gh hgh i hi' with hf | ⟨grp0, hgrp0, hi0⟩
        · have := hI.below g gg holdg i hi; omega
        · exact hI.sep g h gg grp0 holdg hgrp0 hne i hi hi0
      · have holdh : σ.groups[h]? = some gh := by
          rcases hs.only h gh hgh with e | e
          · exact absurd e hht
          · exact e
        exact hI.sep g h gg gh holdg holdh hne i hi hi'
  · intro c p hp v hv
    have : σ'.lookup 0 (gkey c p.name) = σ.lookup 0 (gkey c p.name) := by
      simp only [State.lookup, hg0 g0 hg0', hg0']
    rw [this] at hv
    exact hI.dflt c p hp v hv

/-! ### each operation is a `GroupsStep` on its target -/

theorem lookup_mem {β : Type} : ∀ {l : List (String × β)} {k : String} {b : β},
    l.lookup k = some b → ∃ a ∈ l, a.1 = k ∧ a.2 = b
  | [], _, _ => by simp [List.lookup]
  | (k', b') :: rest, k, b => by
    intro hx
    simp only [List.lookup] at hx
    split at hx
    · rename_i hk
      simp only [Option.some.injEq] at hx
      exact ⟨(k', b'), List.mem_cons_self, (beq_iff_eq.1 hk).symm, hx⟩
    · obtain ⟨a, ha, h1, h2⟩ := lookup_mem hx
      exact ⟨a, List.mem_cons_of_mem _ ha, h1, h2⟩

theorem construct_step {t : Table} {σ σ' : State} {c : Class} {args : List (String × Src)}
    (hI : Inv t σ) (hsafe : (Op.construct c args).safe t = true) (h : construct t σ c args = some σ') :
    GroupsStep σ σ' σ.groups.length := by
  unfold construct at h
  split at h
  · split at h
    · rename_i fs n hb
      simp only [Option.some.injEq] at h
      subst h
      have hA : ∀ p ∈ t c, ∀ x, args.lookup p.name = some (.var x) → p.store.deep = true := by
        intro p hp x hx
        simp only [Op.safe, List.all_eq_true] at hsafe
        have hmem := lookup_mem hx
        obtain ⟨a, ha, h1, h2⟩ := hmem
        have := hsafe a ha
        rw [h2] at this
        simp only [List.all_eq_true] at this
        have := this p hp
        simp only [h1, bne_self_eq_false, Bool.false_or] at this
        cases hs : p.store <;> simp_all [StoreKind.deep]
      have hr := buildFields_range σ c args σ.next (t c) σ.next (Nat.le_refl _)
        (fun p hp v hv => hI.dflt c p hp v hv) hA hb
      refine ⟨hr.1, ?_, ?_, ?_⟩
      · intro g grp hg _
        have hlt : g < σ.groups.length := by
          rcases Nat.lt_or_ge g σ.groups.length with h | h
          · exact h
          · rw [List.getElem?_eq_none h] at hg; cases hg
        simp only [List.getElem?_append_left hlt]
        exact hg
      · intro g grp' hg
        rcases Nat.lt_or_ge g σ.groups.length with hlt | hge
        · right
          simpa only [List.getElem?_append_left hlt] using hg
        · left
          rcases Nat.lt_or_ge σ.groups.length g with hgt | hle
          · have : (σ.groups ++ [(⟨some c, fs⟩ : Group)])[g]? = none := by
              apply List.getElem?_eq_none
              simp only [List.length_append, List.length_singleton]; omega
            simp only [this] at hg
            cases hg
          · omega
      · intro grp' hg i hi
        have : (σ.groups ++ [(⟨some c, fs⟩ : Group)])[σ.groups.length]? = some ⟨some c, fs⟩ := by
          simp
        simp only [this, Option.some.injEq] at hg
        subst hg
        exact Or.inl (hr.2 i hi)
    · cases h
  · cases h

theorem setGroup_step {σ : State} {g : Nat} {grp : Group} {fs : List (String × Val)} {n : Nat}
    (hg : σ.groups[g]? = some grp) (hn : σ.next ≤ n)
    (hfs : ∀ i ∈ idsF fs, i ∈ grp.ids ∨ (σ.next ≤ i ∧ i < n)) :
    GroupsStep σ { σ with next := n, groups := σ.groups.set g { grp with fields := fs } } g := by
  refine ⟨hn, ?_, ?_, ?_⟩
  · intro h grp' hh hne
    simp only [List.getElem?_set_ne (Ne.symm hne)]
    exact hh
  · intro h grp' hh
    by_cases e : h = g
    · exact Or.inl e
    · right
      simpa only [List.getElem?_set_ne (Ne.symm e)] using hh
  · intro grp' hh i hi
    have hlt : g < σ.groups.length := by
      rcases Nat.lt_or_ge g σ.groups.length with h | h
      · exact h
      · rw [List.getElem?_eq_none h] at hg; cases hg
    simp only [List.getElem?_set_self hlt, Option.some.injEq] at hh
    subst hh
    rcases hfs i hi with h | h
    · exact Or.inr ⟨grp, hg, h⟩
    · exact Or.inl h

theorem setField_step {σ σ' : State} {g : Nat} {attr : String} {v : Val} {n : Nat}
    (hn : σ.next ≤ n) (hv : ∀ i ∈ v.ids, σ.next ≤ i ∧ i < n) (h : setField σ g attr v n = some σ') :
    GroupsStep σ σ' g := by
  unfold setField at h
  split at h
  · rename_i grp hg
    simp only [Option.some.injEq] at h
    subst h
    apply setGroup_step hg hn
    intro i hi
    rcases upsert_ids i hi with h | h
    · exact Or.inl h
    · exact Or.inr (hv i h)
  · cases h

theorem load_step {σ σ' : State} {g f : Nat} (h : load σ g f = some σ') : GroupsStep σ σ' g := by
  unfold load at h
  split at h
  · rename_i grp file hg hf
    simp only [Option.some.injEq] at h
    subst h
    have hr := loadFields_range file grp.fields σ.next
    exact setGroup_step hg hr.1 hr.2
  · cases h

theorem mutate_step {t : Table} {σ σ' : State} {g : Nat} {attr : String} {path : List Step} {last : Step}
    {v : Val} (hI : Inv t σ) (h : mutate σ g attr path last v = some σ') : GroupsStep σ σ' g := by
  unfold mutate at h
  split at h
  · cases h
  · rename_i root hroot
    split at h
    · cases h
    · rename_i l k cs hres
      split at h
      · cases h
      · rename_i k' cs' hw
        simp only [Option.some.injEq] at h
        subst h
        -- the group of the root
        simp only [State.lookup] at hroot
        split at hroot
        · rename_i grp hg
          have hrr := relabel_range σ.next v
          have hres' := resolve_ids path root l k cs hres
          have hl : l ∈ grp.ids := lookup_ids hroot l hres'.1
          have hcs' : ∀ i ∈ idsL cs', i ∈ grp.ids ∨ (σ.next ≤ i ∧ i < (v.relabel σ.next).2) := by
            intro i hi
            rcases writeAt_ids hw i hi with h | h
            · exact Or.inl (lookup_ids hroot i (hres'.2 i h))
            · exact Or.inr (hrr.2 i h)
          refine ⟨hrr.1, ?_, ?_, ?_⟩
          · intro h grp' hh hne
            simp only [List.getElem?_map, hh, Option.map_some, Option.some.injEq]
            apply Group.subst_of_not_mem
            intro hmem
            exact hI.sep g h grp grp' hg hh (Ne.symm hne) l hl hmem
          · intro h grp' hh
            by_cases e : h = g
            · exact Or.inl e
            · right
              simp only [List.getElem?_map, Option.map_eq_some_iff] at hh
              obtain ⟨grp0, hgrp0, rfl⟩ := hh
              rw [hgrp0]
              congr 1
              symm
              apply Group.subst_of_not_mem
              intro hmem
              exact hI.sep g h grp grp0 hg hgrp0 (Ne.symm e) l hl hmem
          · intro grp' hh i hi
            simp only [List.getElem?_map, hg, Option.map_some, Option.some.injEq] at hh
            subst hh
            rcases ids_substF l k' cs' grp.fields i hi with h | h
            · exact Or.inr ⟨grp, hg, h⟩
            · rcases hcs' i h with h' | h'
              · exact Or.inr ⟨grp, hg, h'⟩
              · exact Or.inl h'
        · cases hroot

theorem save_step {t : Table} {σ σ' : State} {g : Nat} (tgt : Nat) (h : save t σ g = some σ') :
    GroupsStep σ σ' tgt := by
  unfold save at h
  split at h
  · split at h
    · split at h
      · simp only [Option.some.injEq] at h
        subst h
        exact GroupsStep.files rfl rfl
      · cases h
    · cases h
  · cases h

theorem construct_length {t : Table} {σ σ' : State} {c : Class} {args : List (String × Src)}
    (h : construct t σ c args = some σ') : σ'.groups.length = σ.groups.length + 1 ∧ σ'.files = σ.files := by
  unfold construct at h
  split at h
  · split at h
    · simp only [Option.some.injEq] at h
      subst h
      simp
    · cases h
  · cases h

/-- **one step**: a safe operation keeps the invariant and changes no group but its target -/
theorem step_groupsStep {t : Table} {σ σ' : State} {op : Op} (hI : Inv t σ) (hsafe : op.safe t = true)
    (h : step t σ op = some σ') : GroupsStep σ σ' (op.target σ) := by
  cases op with
  | construct c args => exact construct_step hI hsafe h
  | mutate g attr path last v => exact mutate_step hI h
  | assign g attr v =>
    simp only [step] at h
    have hr := relabel_range σ.next v
    exact setField_step hr.1 hr.2 h
  | assignVar g attr x => simp [Op.safe] at hsafe
  | save g => exact save_step _ h
  | load g f => exact load_step h
  | dispatchLoad f =>
    simp only [step, dispatchLoad] at h
    split at h
    · cases h
    · split at h
      · cases h
      · rename_i c hc
        split at h
        · cases h
        · rename_i σ1 h1
          have s1 := construct_step hI (by simp [Op.safe]) h1
          have s2 := load_step h
          exact s1.trans s2

theorem target_ne_zero {t : Table} {σ : State} {op : Op} (hI : Inv t σ) (hsafe : op.safe t = true)
    (hns : ∀ g, op ≠ .save g) : op.target σ ≠ 0 := by
  have hp := hI.pos
  cases op with
  | construct c args => simp only [Op.target]; omega
  | dispatchLoad f => simp only [Op.target]; omega
  | save g => exact absurd rfl (hns g)
  | assignVar g a x => simp [Op.safe] at hsafe
  | mutate g a p l v => simpa [Op.target, Op.safe] using hsafe
  | assign g a v => simpa [Op.target, Op.safe] using hsafe
  | load g f => simpa [Op.target, Op.safe] using hsafe

theorem step_inv {t : Table} {σ σ' : State} {op : Op} (hI : Inv t σ) (hsafe : op.safe t = true)
    (h : step t σ op = some σ') : Inv t σ' := by
  by_cases hs : ∃ g, op = .save g
  · obtain ⟨g, rfl⟩ := hs
    exact hI.step (save_step 1 h) (by omega)
  · exact hI.step (step_groupsStep hI hsafe h) (target_ne_zero hI hsafe (fun g e => hs ⟨g, e⟩))

theorem stepD_inv {t : Table} {σ : State} {op : Op} (hI : Inv t σ) (hsafe : op.safe t = true) :
    Inv t (stepD t σ op) := by
  unfold stepD
  cases h : step t σ op with
  | none => exact hI
  | some σ' => exact step_inv hI hsafe h

theorem run_inv {t : Table} : ∀ (ops : List Op) {σ : State}, Inv t σ → (∀ op ∈ ops, op.safe t = true) →
    Inv t (run t σ ops)
  | [], _, hI, _ => hI
  | op :: ops, σ, hI, hs => by
    simp only [run, List.foldl_cons]
    exact run_inv ops (stepD_inv hI (hs op List.mem_cons_self)) (fun o ho => hs o (List.mem_cons_of_mem _ ho))

theorem run_append (t : Table) (σ : State) (a b : List Op) : run t σ (a ++ b) = run t (run t σ a) b := by
  simp [run, List.foldl_append]

theorem stepD_frame {t : Table} {σ : State} {op : Op} (hI : Inv t σ) (hsafe : op.safe t = true) :
    ∀ g grp, σ.groups[g]? = some grp → g ≠ op.target σ → (stepD t σ op).groups[g]? = some grp := by
  intro g grp hg hne
  unfold stepD
  cases h : step t σ op with
  | none => exact hg
  | some σ' => exact (step_groupsStep hI hsafe h).frame g grp hg hne

/-! ### the initial state -/

theorem mem_all (c : Class) : c ∈ Class.all := by cases c <;> simp [Class.all]

theorem deepEnough_of_kind {s : StoreKind} {k : DKind} {v : Val} (hk : kindOK s k = true)
    (hv : shapeOK k v = true) : deepEnough s v = true := by
  cases k with
  | imm =>
    cases v with
    | sc x => cases s <;> simp [deepEnough, Val.ids]
    | node _ _ _ => simp [shapeOK, Val.isSc] at hv
  | list =>
    cases v with
    | sc x => simp [shapeOK] at hv
    | node j kk cs =>
      cases kk <;> simp only [shapeOK] at hv <;> try cases hv
      cases s <;> simp_all [deepEnough, kindOK, idsL_of_all_sc]
  | ndarray =>
    cases v with
    | sc x => simp [shapeOK] at hv
    | node j kk cs =>
      cases kk <;> simp only [shapeOK] at hv <;> try cases hv
      cases s <;> simp_all [deepEnough, kindOK, idsL_of_all_sc]
  | dict =>
    cases s <;> simp_all [deepEnough, kindOK]

theorem init_inv {t : Table} {d : List (String × Val)} {n : Nat} (ht : tableOK t = true)
    (hc : conforms t d = true) (hn : ∀ i ∈ idsF d, i < n) : Inv t (initState d n) := by
  refine ⟨by simp [initState], ?_, ?_, ?_⟩
  · intro g grp hg i hi
    match g with
    | 0 => simp only [initState, List.getElem?_cons_zero, Option.some.injEq] at hg; subst hg; exact hn i hi
    | 1 =>
      simp only [initState, List.getElem?_cons_succ, List.getElem?_cons_zero, Option.some.injEq] at hg
      subst hg; simp [Group.ids, idsF] at hi
    | g + 2 => simp [initState] at hg
  · intro g h gg gh hgg hgh hne i hi hi'
    match g, h with
    | 0, 0 => exact hne rfl
    | 1, 1 => exact hne rfl
    | 0, 1 =>
      simp only [initState, List.getElem?_cons_succ, List.getElem?_cons_zero, Option.some.injEq] at hgh
      subst hgh; simp [Group.ids, idsF] at hi'
    | 1, 0 =>
      simp only [initState, List.getElem?_cons_succ, List.getElem?_cons_zero, Option.some.injEq] at hgg
      subst hgg; simp [Group.ids, idsF] at hi
    | g + 2, _ => simp [initState] at hgg
    | _, h + 2 => simp [initState] at hgh
  · intro c p hp v hv
    simp only [tableOK, List.all_eq_true] at ht
    simp only [conforms, List.all_eq_true] at hc
    have h1 := ht c (mem_all c) p hp
    have h2 := hc c (mem_all c) p hp
    simp only [State.lookup, initState, List.getElem?_cons_zero] at hv
    rw [hv] at h2
    exact deepEnough_of_kind h1 h2

/-! ## Part 3: save, load, dispatch -/

theorem lookup_upsert_self : ∀ (fs : List (String × Val)) (k : String) (v : Val),
    (upsert fs k v).lookup k = some v
  | [], k, v => by simp [upsert]
  | (k', v') :: rest, k, v => by
    simp only [upsert]
    split
    · simp [List.lookup]
    · rename_i hne
      have : (k == k') = false := by simpa using fun e => hne e.symm
      simp only [List.lookup, this]
      exact lookup_upsert_self rest k v

theorem lookup_upsert_ne : ∀ (fs : List (String × Val)) (k k2 : String) (v : Val), k2 ≠ k →
    (upsert fs k v).lookup k2 = fs.lookup k2
  | [], k, k2, v, h => by
    have : (k2 == k) = false := by simpa using h
    simp [upsert, List.lookup, this]
  | (k', v') :: rest, k, k2, v, h => by
    simp only [upsert]
    split
    · rename_i he
      subst he
      have : (k2 == k') = false := by simpa using h
      simp [List.lookup, this]
    · simp only [List.lookup]
      split
      · rfl
      · exact lookup_upsert_ne rest k k2 v h

theorem lookup_loadFields_not_mem : ∀ (file : File) (fs : List (String × Val)) (n : Nat) (k : String),
    k ∉ file.map Prod.fst → (loadFields fs n file).1.lookup k = fs.lookup k
  | [], fs, n, k, _ => by simp [loadFields]
  | (k', j) :: rest, fs, n, k, h => by
    simp only [List.map_cons, List.mem_cons, not_or] at h
    simp only [loadFields]
    rw [lookup_loadFields_not_mem rest _ _ k h.2]
    exact lookup_upsert_ne fs k' k _ h.1

theorem loadFields_lookup : ∀ (file : File) (fs : List (String × Val)) (n : Nat),
    (file.map Prod.fst).Nodup → ∀ kj ∈ file,
    ∃ v, (loadFields fs n file).1.lookup kj.1 = some v ∧ v.canon = kj.2
  | [], _, _, _ => by simp
  | (k, j) :: rest, fs, n, hnd => by
    simp only [List.map_cons, List.nodup_cons] at hnd
    intro kj hkj
    simp only [List.mem_cons] at hkj
    simp only [loadFields]
    rcases hkj with rfl | hkj
    · refine ⟨(j.toVal n).1, ?_, toVal_canon n j⟩
      rw [lookup_loadFields_not_mem rest _ _ k hnd.1]
      exact lookup_upsert_self fs k _
    · exact loadFields_lookup rest _ _ hnd.2 kj hkj

theorem attrsCanon_spec : ∀ (ps : List Param) (fs : List (String × Val)) (f : File),
    attrsCanon fs ps = some f →
    f.map Prod.fst = ps.map (·.name) ∧ ∀ p ∈ ps, ∃ v, fs.lookup p.name = some v ∧ (p.name, v.canon) ∈ f
  | [], fs, f => by
    intro h
    simp only [attrsCanon, Option.some.injEq] at h
    subst h
    simp
  | p :: ps, fs, f => by
    intro h
    simp only [attrsCanon] at h
    split at h
    · rename_i v rest hv hrest
      simp only [Option.some.injEq] at h
      subst h
      have ih := attrsCanon_spec ps fs rest hrest
      refine ⟨by simp [ih.1], ?_⟩
      intro q hq
      simp only [List.mem_cons] at hq
      rcases hq with rfl | hq
      · exact ⟨v, hv, List.mem_cons_self⟩
      · obtain ⟨w, hw, hmem⟩ := ih.2 q hq
        exact ⟨w, hw, List.mem_cons_of_mem _ hmem⟩
    · cases h

theorem attrsCanon_congr : ∀ (ps : List Param) (fs fs2 : List (String × Val)),
    (∀ p ∈ ps, (fs2.lookup p.name).map Val.canon = (fs.lookup p.name).map Val.canon) →
    attrsCanon fs2 ps = attrsCanon fs ps
  | [], _, _, _ => by simp [attrsCanon]
  | p :: ps, fs, fs2, h => by
    have h1 := h p List.mem_cons_self
    have ih := attrsCanon_congr ps fs fs2 (fun q hq => h q (List.mem_cons_of_mem _ hq))
    simp only [attrsCanon, ih]
    cases ha : fs.lookup p.name <;> cases hb : fs2.lookup p.name <;> simp_all <;>
      cases attrsCanon fs ps <;> simp_all

/-- loading the file written from fields `fs` into any fields `fs'` shows the content of `fs` -/
theorem attrsCanon_loadFields (ps : List Param) (hnd : (ps.map (·.name)).Nodup)
    (fs fs' : List (String × Val)) (f : File) (n : Nat) (h : attrsCanon fs ps = some f) :
    attrsCanon (loadFields fs' n f).1 ps = some f := by
  have hs := attrsCanon_spec ps fs f h
  rw [← h]
  apply attrsCanon_congr
  intro p hp
  obtain ⟨v, hv, hmem⟩ := hs.2 p hp
  have hnd' : (f.map Prod.fst).Nodup := by rw [hs.1]; exact hnd
  obtain ⟨v2, hv2, hc⟩ := loadFields_lookup f fs' n hnd' (p.name, v.canon) hmem
  simp only at hv2 hc
  simp [hv, hv2, hc]

theorem save_spec {t : Table} {σ σ1 : State} {g : Nat} (h : save t σ g = some σ1) :
    ∃ c fs f, σ.groups[g]? = some ⟨some c, fs⟩ ∧ attrsCanon fs (t c) = some f ∧
      σ1 = { σ with files := σ.files ++ [f] } := by
  unfold save at h
  split at h
  · rename_i c fs hg
    split at h
    · split at h
      · rename_i f hf
        simp only [Option.some.injEq] at h
        exact ⟨c, fs, f, hg, hf, h.symm⟩
      · cases h
    · cases h
  · cases h

theorem attrDict_eq {t : Table} {σ : State} {g : Nat} {c : Class} {fs : List (String × Val)}
    (hg : σ.groups[g]? = some ⟨some c, fs⟩) : attrDict t σ g = attrsCanon fs (t c) := by
  simp only [attrDict, hg]

/-! ### a default-constructed object shows the default objects -/

def canonF (fs : List (String × Val)) : List (String × Json) := fs.map fun kv => (kv.1, kv.2.canon)

theorem node_canon_id (i j : Nat) (k : Kind) (cs : List Val) :
    (Val.node i k cs).canon = (Val.node j k cs).canon := by
  cases k <;> simp [Val.canon]

theorem storeVal_canon_indep (s : StoreKind) (n m : Nat) (v : Val) :
    (storeVal s n v).map (fun r => r.1.canon) = (storeVal s m v).map (fun r => r.1.canon) := by
  cases s with
  | alias => simp [storeVal]
  | copy =>
    cases v with
    | sc x => simp [storeVal]
    | node j k cs => simp [storeVal, node_canon_id n m]
  | npArray =>
    cases v with
    | sc x => simp [storeVal, toArray]
    | node j k cs =>
      cases k <;> simp only [storeVal, toArray] <;> first
        | rfl
        | (split <;> simp [node_canon_id n m])
  | deepcopy => simp [storeVal, relabel_canon]
  | deepcopyDict =>
    simp only [storeVal]
    split <;> simp [relabel_canon]

theorem buildFields_default_canon (σ σ' : State) (c : Class)
    (h : ∀ k, σ.lookup 0 k = σ'.lookup 0 k) : ∀ (ps : List Param) (n m : Nat),
    (buildFields σ c [] ps n).map (fun r => canonF r.1) =
      (buildFields σ' c [] ps m).map (fun r => canonF r.1)
  | [], n, m => by simp [buildFields, canonF]
  | p :: ps, n, m => by
    simp only [buildFields, List.lookup, Option.getD_none, srcVal, h]
    cases hv : σ'.lookup 0 (gkey c p.name) with
    | none => simp
    | some v =>
      simp only [Option.map_some]
      have hs := storeVal_canon_indep p.store n m v
      cases h1 : storeVal p.store n v with
      | none =>
        rw [h1] at hs
        cases h2 : storeVal p.store m v with
        | none => simp
        | some r => rw [h2] at hs; simp at hs
      | some r1 =>
        rw [h1] at hs
        cases h2 : storeVal p.store m v with
        | none => rw [h2] at hs; simp at hs
        | some r2 =>
          rw [h2] at hs
          simp only [Option.map_some, Option.some.injEq] at hs
          obtain ⟨w1, n1⟩ := r1
          obtain ⟨w2, n2⟩ := r2
          have ih := buildFields_default_canon σ σ' c h ps n1 n2
          simp only
          cases h3 : buildFields σ c [] ps n1 with
          | none =>
            rw [h3] at ih
            cases h4 : buildFields σ' c [] ps n2 with
            | none => simp
            | some r => rw [h4] at ih; simp at ih
          | some r3 =>
            rw [h3] at ih
            cases h4 : buildFields σ' c [] ps n2 with
            | none => rw [h4] at ih; simp at ih
            | some r4 =>
              rw [h4] at ih
              simp only [Option.map_some, Option.some.injEq] at ih
              simp only at hs
              simp [canonF, hs] at ih ⊢
              exact ih

theorem lookup_canonF : ∀ (fs : List (String × Val)) (k : String),
    (canonF fs).lookup k = (fs.lookup k).map Val.canon
  | [], k => by simp [canonF]
  | (k', v) :: rest, k => by
    have ih := lookup_canonF rest k
    simp only [canonF, List.map_cons, List.lookup] at ih ⊢
    split <;> simp_all

theorem attrsCanon_of_canonF (ps : List Param) (fs fs' : List (String × Val))
    (h : canonF fs = canonF fs') : attrsCanon fs ps = attrsCanon fs' ps := by
  apply attrsCanon_congr
  intro p _
  rw [← lookup_canonF, ← lookup_canonF, h]

theorem construct_default_attrDict (t : Table) (σ σ' : State) (c : Class)
    (h0 : σ.groups[0]? = σ'.groups[0]?) :
    attrDict t (stepD t σ (.construct c [])) σ.groups.length =
      attrDict t (stepD t σ' (.construct c [])) σ'.groups.length := by
  have hl : ∀ k, σ.lookup 0 k = σ'.lookup 0 k := fun k => by simp only [State.lookup, h0]
  have hb := buildFields_default_canon σ σ' c hl (t c) σ.next σ'.next
  have hnone : ∀ τ : State, attrDict t τ τ.groups.length = none := by
    intro τ; simp [attrDict]
  simp only [stepD, step, construct, List.all_nil, if_true]
  cases h1 : buildFields σ c [] (t c) σ.next with
  | none =>
    rw [h1] at hb
    cases h2 : buildFields σ' c [] (t c) σ'.next with
    | none => simp [hnone]
    | some r => rw [h2] at hb; simp at hb
  | some r1 =>
    rw [h1] at hb
    cases h2 : buildFields σ' c [] (t c) σ'.next with
    | none => rw [h2] at hb; simp at hb
    | some r2 =>
      rw [h2] at hb
      simp only [Option.map_some, Option.some.injEq] at hb
      obtain ⟨fs1, n1⟩ := r1
      obtain ⟨fs2, n2⟩ := r2
      simp only [Option.getD_some, attrDict, List.getElem?_concat_length]
      exact attrsCanon_of_canonF (t c) fs1 fs2 hb

/-! ### small concrete data for the non-vacuity examples of `Props/C15.lean` -/

/-- follow a path in an `attr_dict` value -/
def Json.get : Json → List Step → Option Json
  | j, [] => some j
  | .arr xs, .idx i :: rest => match xs[i]? with | some x => x.get rest | none => none
  | .obj ks xs, .key s :: rest =>
    if ks.idxOf s < ks.length then (match xs[ks.idxOf s]? with | some x => x.get rest | none => none) else none
  | _, _ => none

/-- the scalar at `attr[path]` of an `attr_dict` -/
def peek (d : Option File) (attr : String) (path : List Step) : Option Scalar :=
  match d.bind (fun f => f.lookup attr) with
  | some j => match j.get path with | some (.sc s) => some s | _ => none
  | none => none

def sampleDefault (c : Class) (p : Param) : Val :=
  match p.dflt with
  | .list => .node 0 .list [.sc (.str "tukey"), .sc (.flt 1)]
  | .ndarray => .node 0 .arr [.sc (.int 0), .sc (.int 5)]
  | .dict => .node 0 (.dict ["operator", "bandwidth", "center_frequencies_in_hz"])
      [.sc (.str "konno_and_ohmachi"), .sc (.int 40), .node 0 .arr [.sc (.flt 1), .sc (.flt 2)]]
  | .imm =>
    if p.name = "preprocessing_method" then
      .sc (.str (match c with | .hvsrPre => "hvsr" | _ => "psd"))
    else if p.name = "processing_method" then
      .sc (.str (match c with
        | .psdProc => "psd" | .azimuthal => "azimuthal" | .diffuse => "diffuse_field" | _ => "traditional"))
    else if p.name = "method_to_combine_horizontals" then
      .sc (.str (match c with | .singleAz => "single_azimuth" | .rotDpp => "rotdpp" | _ => "geometric_mean"))
    else .sc .none

/-- default objects of the shapes announced by table `t`, allocated at locations `0 .. n-1` -/
def demoDefaults (t : Table) : List (String × Val) × Nat :=
  (Class.all.flatMap fun c => (t c).map fun p => (gkey c p.name, sampleDefault c p)).foldl
    (fun acc kv => ((acc.1 ++ [(kv.1, (kv.2.relabel acc.2).1)]), (kv.2.relabel acc.2).2)) ([], 0)

def demoInit (t : Table) : State := initState (demoDefaults t).1 (demoDefaults t).2

/-- all operations of the history execute (none raises) -/
def allSucceed (t : Table) : State → List Op → Bool
  | _, [] => true
  | σ, op :: ops => match step t σ op with
    | some σ' => allSucceed t σ' ops
    | none => false

end HV.Settings
