import HvsrVerif.Model.Settings
/-!
# Lemmas about the aliasing model `Model/Settings.lean` (used by `Props/C15.lean`)

Part 1: locations (`ids`) of the results of the value operations.
Part 2: the separation invariant `Inv` and its preservation by every safe operation, together with
the frame property (an operation changes no group but its target).
Part 3: save / load / dispatch round trip.
No Mathlib.
-/
namespace HV.Settings

/-! ## Part 1: locations -/

theorem mem_idsL {i : Nat} : ∀ {cs : List Val}, i ∈ idsL cs ↔ ∃ c ∈ cs, i ∈ c.ids
  | [] => by simp [idsL]
  | v :: vs => by
    simp only [idsL, List.mem_append, List.mem_cons, exists_eq_or_imp, mem_idsL (cs := vs)]

theorem mem_idsF {i : Nat} : ∀ {fs : List (String × Val)}, i ∈ idsF fs ↔ ∃ kv ∈ fs, i ∈ kv.2.ids
  | [] => by simp [idsF]
  | (k, v) :: rest => by
    simp only [idsF, List.mem_append, List.mem_cons, exists_eq_or_imp, mem_idsF (fs := rest)]

mutual
theorem relabel_range (n : Nat) : ∀ v : Val,
    n ≤ (v.relabel n).2 ∧ ∀ i ∈ (v.relabel n).1.ids, n ≤ i ∧ i < (v.relabel n).2
  | .sc s => by simp [Val.relabel, Val.ids]
  | .node j k cs => by
    have h := relabelL_range (n + 1) cs
    simp only [Val.relabel, Val.ids, List.mem_cons]
    refine ⟨by omega, ?_⟩
    intro i hi
    rcases hi with hi | hi
    · subst hi; omega
    · have := h.2 i hi; omega
theorem relabelL_range (n : Nat) : ∀ vs : List Val,
    n ≤ (relabelL n vs).2 ∧ ∀ i ∈ idsL (relabelL n vs).1, n ≤ i ∧ i < (relabelL n vs).2
  | [] => by simp [relabelL, idsL]
  | v :: vs => by
    have h1 := relabel_range n v
    have h2 := relabelL_range (v.relabel n).2 vs
    simp only [relabelL, idsL, List.mem_append]
    refine ⟨by omega, ?_⟩
    intro i hi
    rcases hi with hi | hi
    · have := h1.2 i hi; omega
    · have := h2.2 i hi; omega
end

mutual
theorem toVal_range (n : Nat) : ∀ j : Json,
    n ≤ (j.toVal n).2 ∧ ∀ i ∈ (j.toVal n).1.ids, n ≤ i ∧ i < (j.toVal n).2
  | .sc s => by simp [Json.toVal, Val.ids]
  | .arr xs => by
    have h := toValL_range (n + 1) xs
    simp only [Json.toVal, Val.ids, List.mem_cons]
    refine ⟨by omega, ?_⟩
    intro i hi
    rcases hi with hi | hi
    · subst hi; omega
    · have := h.2 i hi; omega
  | .obj ks xs => by
    have h := toValL_range (n + 1) xs
    simp only [Json.toVal, Val.ids, List.mem_cons]
    refine ⟨by omega, ?_⟩
    intro i hi
    rcases hi with hi | hi
    · subst hi; omega
    · have := h.2 i hi; omega
theorem toValL_range (n : Nat) : ∀ js : List Json,
    n ≤ (toValL n js).2 ∧ ∀ i ∈ idsL (toValL n js).1, n ≤ i ∧ i < (toValL n js).2
  | [] => by simp [toValL, idsL]
  | j :: js => by
    have h1 := toVal_range n j
    have h2 := toValL_range (j.toVal n).2 js
    simp only [toValL, idsL, List.mem_append]
    refine ⟨by omega, ?_⟩
    intro i hi
    rcases hi with hi | hi
    · have := h1.2 i hi; omega
    · have := h2.2 i hi; omega
end

mutual
theorem toVal_canon (n : Nat) : ∀ j : Json, (j.toVal n).1.canon = j
  | .sc s => by simp [Json.toVal, Val.canon]
  | .arr xs => by simp [Json.toVal, Val.canon, toValL_canon (n + 1) xs]
  | .obj ks xs => by simp [Json.toVal, Val.canon, toValL_canon (n + 1) xs]
theorem toValL_canon (n : Nat) : ∀ js : List Json, canonL (toValL n js).1 = js
  | [] => by simp [toValL, canonL]
  | j :: js => by simp [toValL, canonL, toVal_canon n j, toValL_canon _ js]
end

mutual
theorem relabel_canon (n : Nat) : ∀ v : Val, (v.relabel n).1.canon = v.canon
  | .sc s => by simp [Val.relabel, Val.canon]
  | .node i k cs => by
    cases k <;> simp [Val.relabel, Val.canon, relabelL_canon (n + 1) cs]
theorem relabelL_canon (n : Nat) : ∀ vs : List Val, canonL (relabelL n vs).1 = canonL vs
  | [] => by simp [relabelL, canonL]
  | v :: vs => by simp [relabelL, canonL, relabel_canon n v, relabelL_canon _ vs]
end

mutual
theorem subst_of_not_mem (l : Nat) (k' : Kind) (cs' : List Val) :
    ∀ v : Val, l ∉ v.ids → v.subst l k' cs' = v
  | .sc s, _ => by simp [Val.subst]
  | .node i k cs, h => by
    simp only [Val.ids, List.mem_cons, not_or] at h
    have hne : ¬ i = l := fun e => h.1 e.symm
    simp [Val.subst, hne, substL_of_not_mem l k' cs' cs h.2]
theorem substL_of_not_mem (l : Nat) (k' : Kind) (cs' : List Val) :
    ∀ vs : List Val, l ∉ idsL vs → substL l k' cs' vs = vs
  | [], _ => by simp [substL]
  | v :: vs, h => by
    simp only [idsL, List.mem_append, not_or] at h
    simp [substL, subst_of_not_mem l k' cs' v h.1, substL_of_not_mem l k' cs' vs h.2]
end

mutual
theorem ids_subst (l : Nat) (k' : Kind) (cs' : List Val) :
    ∀ v : Val, ∀ i ∈ (v.subst l k' cs').ids, i ∈ v.ids ∨ i ∈ idsL cs'
  | .sc s => by simp [Val.subst, Val.ids]
  | .node j k cs => by
    intro i hi
    by_cases hjl : j = l
    · simp only [Val.subst, hjl, if_true, Val.ids, List.mem_cons] at hi ⊢
      rcases hi with hi | hi
      · exact Or.inl (Or.inl hi)
      · exact Or.inr hi
    · simp only [Val.subst, hjl, if_false, Val.ids, List.mem_cons] at hi ⊢
      rcases hi with hi | hi
      · exact Or.inl (Or.inl hi)
      · rcases ids_substL l k' cs' cs i hi with h | h
        · exact Or.inl (Or.inr h)
        · exact Or.inr h
theorem ids_substL (l : Nat) (k' : Kind) (cs' : List Val) :
    ∀ vs : List Val, ∀ i ∈ idsL (substL l k' cs' vs), i ∈ idsL vs ∨ i ∈ idsL cs'
  | [] => by simp [substL, idsL]
  | v :: vs => by
    intro i hi
    simp only [substL, idsL, List.mem_append] at hi ⊢
    rcases hi with hi | hi
    · rcases ids_subst l k' cs' v i hi with h | h
      · exact Or.inl (Or.inl h)
      · exact Or.inr h
    · rcases ids_substL l k' cs' vs i hi with h | h
      · exact Or.inl (Or.inr h)
      · exact Or.inr h
end

theorem getElem?_ids {cs : List Val} {n : Nat} {c : Val} (h : cs[n]? = some c) :
    ∀ i ∈ c.ids, i ∈ idsL cs := by
  intro i hi
  exact mem_idsL.2 ⟨c, List.mem_of_getElem? h, hi⟩

theorem child_ids {k : Kind} {cs : List Val} {s : Step} {c : Val} (h : child k cs s = some c) :
    ∀ i ∈ c.ids, i ∈ idsL cs := by
  cases s with
  | idx n =>
    cases k <;> simp only [child] at h <;> first | exact getElem?_ids h | cases h
  | key x =>
    cases k with
    | dict ks =>
      simp only [child] at h
      split at h
      · exact getElem?_ids h
      · cases h
    | _ => simp [child] at h

theorem resolve_ids : ∀ (p : List Step) (v : Val) (l : Nat) (k : Kind) (cs : List Val),
    resolve v p = some (l, k, cs) → l ∈ v.ids ∧ ∀ i ∈ idsL cs, i ∈ v.ids
  | [], .sc s => by simp [resolve]
  | _ :: _, .sc s => by simp [resolve]
  | [], .node j k0 cs0 => by
    intro l k cs h
    simp only [resolve, Option.some.injEq, Prod.mk.injEq] at h
    obtain ⟨rfl, rfl, rfl⟩ := h
    simp [Val.ids]
  | s :: ss, .node j k0 cs0 => by
    intro l k cs h
    simp only [resolve] at h
    split at h
    · rename_i c hc
      have ih := resolve_ids ss c l k cs h
      have hsub := child_ids hc
      simp only [Val.ids, List.mem_cons]
      exact ⟨Or.inr (hsub _ ih.1), fun i hi => Or.inr (hsub _ (ih.2 i hi))⟩
    · cases h

theorem ids_set {cs : List Val} {n : Nat} {v : Val} :
    ∀ i ∈ idsL (cs.set n v), i ∈ idsL cs ∨ i ∈ v.ids := by
  intro i hi
  obtain ⟨c, hc, hic⟩ := mem_idsL.1 hi
  rcases List.mem_or_eq_of_mem_set hc with h | h
  · exact Or.inl (mem_idsL.2 ⟨c, h, hic⟩)
  · subst h; exact Or.inr hic

theorem ids_append_one {cs : List Val} {v : Val} :
    ∀ i ∈ idsL (cs ++ [v]), i ∈ idsL cs ∨ i ∈ v.ids := by
  intro i hi
  obtain ⟨c, hc, hic⟩ := mem_idsL.1 hi
  rcases List.mem_append.1 hc with h | h
  · exact Or.inl (mem_idsL.2 ⟨c, h, hic⟩)
  · simp only [List.mem_singleton] at h
    subst h; exact Or.inr hic

theorem writeAt_ids {k : Kind} {cs : List Val} {last : Step} {v : Val} {k' : Kind} {cs' : List Val}
    (h : writeAt k cs last v = some (k', cs')) : ∀ i ∈ idsL cs', i ∈ idsL cs ∨ i ∈ v.ids := by
  unfold writeAt at h
  split at h
  · split at h
    · simp only [Option.some.injEq, Prod.mk.injEq] at h; obtain ⟨_, rfl⟩ := h; exact ids_set
    · cases h
  · split at h
    · split at h
      · simp only [Option.some.injEq, Prod.mk.injEq] at h; obtain ⟨_, rfl⟩ := h; exact ids_set
      · cases h
    · cases h
  · split at h
    · split at h
      · simp only [Option.some.injEq, Prod.mk.injEq] at h; obtain ⟨_, rfl⟩ := h; exact ids_set
      · cases h
    · simp only [Option.some.injEq, Prod.mk.injEq] at h; obtain ⟨_, rfl⟩ := h; exact ids_append_one
  · cases h

/-! ### fields -/

theorem lookup_ids : ∀ {fs : List (String × Val)} {k : String} {v : Val},
    fs.lookup k = some v → ∀ i ∈ v.ids, i ∈ idsF fs
  | [], _, _ => by simp [List.lookup]
  | (k', v') :: rest, k, v => by
    intro h i hi
    simp only [List.lookup] at h
    split at h
    · simp only [Option.some.injEq] at h; subst h
      simp [idsF, hi]
    · simp only [idsF, List.mem_append]
      exact Or.inr (lookup_ids h i hi)

theorem upsert_ids : ∀ {fs : List (String × Val)} {k : String} {v : Val},
    ∀ i ∈ idsF (upsert fs k v), i ∈ idsF fs ∨ i ∈ v.ids
  | [], k, v => by simp [upsert, idsF]
  | (k', v') :: rest, k, v => by
    intro i hi
    simp only [upsert] at hi
    split at hi
    · simp only [idsF, List.mem_append] at hi ⊢
      rcases hi with hi | hi
      · exact Or.inr hi
      · exact Or.inl (Or.inr hi)
    · simp only [idsF, List.mem_append] at hi ⊢
      rcases hi with hi | hi
      · exact Or.inl (Or.inl hi)
      · rcases upsert_ids i hi with h | h
        · exact Or.inl (Or.inr h)
        · exact Or.inr h

theorem substF_of_not_mem (l : Nat) (k' : Kind) (cs' : List Val) :
    ∀ fs : List (String × Val), l ∉ idsF fs → substF l k' cs' fs = fs
  | [], _ => by simp [substF]
  | (n, v) :: rest, h => by
    simp only [idsF, List.mem_append, not_or] at h
    simp [substF, subst_of_not_mem l k' cs' v h.1, substF_of_not_mem l k' cs' rest h.2]

theorem ids_substF (l : Nat) (k' : Kind) (cs' : List Val) :
    ∀ fs : List (String × Val), ∀ i ∈ idsF (substF l k' cs' fs), i ∈ idsF fs ∨ i ∈ idsL cs'
  | [] => by simp [substF, idsF]
  | (n, v) :: rest => by
    intro i hi
    simp only [substF, idsF, List.mem_append] at hi ⊢
    rcases hi with hi | hi
    · rcases ids_subst l k' cs' v i hi with h | h
      · exact Or.inl (Or.inl h)
      · exact Or.inr h
    · rcases ids_substF l k' cs' rest i hi with h | h
      · exact Or.inl (Or.inr h)
      · exact Or.inr h

theorem Group.subst_of_not_mem (l : Nat) (k' : Kind) (cs' : List Val) (g : Group) (h : l ∉ g.ids) :
    g.subst l k' cs' = g := by
  cases g with
  | mk c fs => simp [Group.subst, substF_of_not_mem l k' cs' fs h]

theorem loadFields_range : ∀ (file : File) (fs : List (String × Val)) (n : Nat),
    n ≤ (loadFields fs n file).2 ∧
    ∀ i ∈ idsF (loadFields fs n file).1, i ∈ idsF fs ∨ (n ≤ i ∧ i < (loadFields fs n file).2)
  | [], fs, n => by
    simp only [loadFields]
    exact ⟨Nat.le_refl _, fun i hi => Or.inl hi⟩
  | (k, j) :: rest, fs, n => by
    have h1 := toVal_range n j
    have h2 := loadFields_range rest (upsert fs k (j.toVal n).1) (j.toVal n).2
    simp only [loadFields]
    refine ⟨by omega, ?_⟩
    intro i hi
    rcases h2.2 i hi with h | h
    · rcases upsert_ids i h with h' | h'
      · exact Or.inl h'
      · have := h1.2 i h'; exact Or.inr ⟨this.1, by omega⟩
    · exact Or.inr ⟨by omega, h.2⟩

/-! ### the constructor -/

theorem idsL_of_all_sc {cs : List Val} (h : cs.all Val.isSc = true) : idsL cs = [] := by
  induction cs with
  | nil => rfl
  | cons c cs ih =>
    simp only [List.all_cons, Bool.and_eq_true] at h
    cases c with
    | sc s => simp [idsL, Val.ids, ih h.2]
    | node _ _ _ => simp [Val.isSc] at h

theorem idsL_of_all {q : Val → Bool} (hq : ∀ c, q c = true → c.isSc = true) {cs : List Val}
    (h : cs.all q = true) : idsL cs = [] := by
  apply idsL_of_all_sc
  simp only [List.all_eq_true] at h ⊢
  exact fun c hc => hq c (h c hc)

theorem toArray_range {n : Nat} {v w : Val} {n2 : Nat} (h : toArray n v = some (w, n2)) :
    n ≤ n2 ∧ ∀ i ∈ w.ids, n ≤ i ∧ i < n2 := by
  cases v with
  | sc s => simp [toArray] at h
  | node j k cs =>
    have key : ∀ (hk : (cs.all (fun c => match c with | .sc (.int _) => true | _ => false)
          || cs.all (fun c => match c with | .sc (.flt _) => true | _ => false)) = true),
        idsL cs = [] := by
      intro hk
      simp only [Bool.or_eq_true] at hk
      rcases hk with h1 | h1
      · exact idsL_of_all (fun c hc => by cases c <;> simp_all [Val.isSc]) h1
      · exact idsL_of_all (fun c hc => by cases c <;> simp_all [Val.isSc]) h1
    cases k <;> simp only [toArray] at h
    all_goals first
      | cases h
      | (split at h
         · rename_i hk
           simp only [Option.some.injEq, Prod.mk.injEq] at h
           obtain ⟨rfl, rfl⟩ := h
           simp [Val.ids, key hk]
         · cases h)

/-- the stored value lives at new locations in `[lo, n2)` provided the source is new (`[lo, n)`),
or the copy is deep, or the source has no container to share -/
theorem storeVal_range {s : StoreKind} {lo n : Nat} {v w : Val} {n2 : Nat}
    (h : storeVal s n v = some (w, n2)) (hlo : lo ≤ n)
    (hsrc : deepEnough s v = true ∨ (∀ i ∈ v.ids, lo ≤ i ∧ i < n) ∨
      s = .npArray ∨ s = .deepcopy ∨ s = .deepcopyDict) :
    n ≤ n2 ∧ ∀ i ∈ w.ids, lo ≤ i ∧ i < n2 := by
  cases s with
  | alias =>
    simp only [storeVal, Option.some.injEq, Prod.mk.injEq] at h
    obtain ⟨rfl, rfl⟩ := h
    refine ⟨Nat.le_refl _, ?_⟩
    rcases hsrc with hd | hr | hx | hx | hx
    · simp only [deepEnough, List.isEmpty_iff] at hd
      simp [hd]
    · exact hr
    all_goals cases hx
  | copy =>
    cases v with
    | sc x =>
      simp only [storeVal, Option.some.injEq, Prod.mk.injEq] at h
      obtain ⟨rfl, rfl⟩ := h
      simp [Val.ids]
    | node j k cs =>
      simp only [storeVal, Option.some.injEq, Prod.mk.injEq] at h
      obtain ⟨rfl, rfl⟩ := h
      refine ⟨by omega, ?_⟩
      intro i hi
      simp only [Val.ids, List.mem_cons] at hi
      rcases hi with hi | hi
      · subst hi; omega
      · rcases hsrc with hd | hr | hx | hx | hx
        · simp only [deepEnough, List.isEmpty_iff] at hd
          simp [hd] at hi
        · have := hr i (by simp [Val.ids, hi]); omega
        all_goals cases hx
  | npArray =>
    simp only [storeVal] at h
    have := toArray_range h
    exact ⟨this.1, fun i hi => by have := this.2 i hi; omega⟩
  | deepcopy =>
    simp only [storeVal, Option.some.injEq] at h
    have hr := relabel_range n v
    rw [h] at hr
    exact ⟨hr.1, fun i hi => by have := hr.2 i hi; omega⟩
  | deepcopyDict =>
    simp only [storeVal] at h
    split at h
    · simp only [Option.some.injEq] at h
      rename_i j ks cs
      have hr := relabel_range n (Val.node j (.dict ks) cs)
      rw [h] at hr
      exact ⟨hr.1, fun i hi => by have := hr.2 i hi; omega⟩
    · cases h

def StoreKind.deep : StoreKind → Bool
  | .npArray | .deepcopy | .deepcopyDict => true
  | _ => false

theorem buildFields_range (σ : State) (c : Class) (args : List (String × Src)) (lo : Nat) :
    ∀ (ps : List Param) (n : Nat) {fs : List (String × Val)} {n' : Nat},
    lo ≤ n →
    (∀ p ∈ ps, ∀ v, σ.lookup 0 (gkey c p.name) = some v → deepEnough p.store v = true) →
    (∀ p ∈ ps, ∀ x, args.lookup p.name = some (.var x) → p.store.deep = true) →
    buildFields σ c args ps n = some (fs, n') →
    n ≤ n' ∧ ∀ i ∈ idsF fs, lo ≤ i ∧ i < n'
  | [], n, fs, n' => by
    intro _ _ _ h
    simp only [buildFields, Option.some.injEq, Prod.mk.injEq] at h
    obtain ⟨rfl, rfl⟩ := h
    simp [idsF]
  | p :: ps, n, fs, n' => by
    intro hlo hG hA h
    simp only [buildFields] at h
    split at h
    · cases h
    · rename_i v n1 hsrc
      split at h
      · cases h
      · rename_i w n2 hst
        split at h
        · cases h
        · rename_i rest n3 hrest
          simp only [Option.some.injEq, Prod.mk.injEq] at h
          obtain ⟨rfl, rfl⟩ := h
          -- the source value
          have hsv : n ≤ n1 ∧ (deepEnough p.store v = true ∨ (∀ i ∈ v.ids, lo ≤ i ∧ i < n1) ∨
              p.store = .npArray ∨ p.store = .deepcopy ∨ p.store = .deepcopyDict) := by
            cases hsrcv : (args.lookup p.name).getD .dflt with
            | dflt =>
              rw [hsrcv] at hsrc
              simp only [srcVal, Option.map_eq_some_iff, Prod.mk.injEq] at hsrc
              obtain ⟨v0, hv0, rfl, rfl⟩ := hsrc
              exact ⟨Nat.le_refl _, Or.inl (hG p List.mem_cons_self v0 hv0)⟩
            | lit v0 =>
              rw [hsrcv] at hsrc
              simp only [srcVal, Option.some.injEq] at hsrc
              have hr := relabel_range n v0
              rw [hsrc] at hr
              exact ⟨hr.1, Or.inr (Or.inl fun i hi => by have := hr.2 i hi; omega)⟩
            | var x =>
              rw [hsrcv] at hsrc
              simp only [srcVal, Option.map_eq_some_iff, Prod.mk.injEq] at hsrc
              obtain ⟨v0, _, rfl, rfl⟩ := hsrc
              have hx : args.lookup p.name = some (.var x) := by
                cases hl : args.lookup p.name with
                | none => rw [hl] at hsrcv; simp at hsrcv
                | some s => rw [hl] at hsrcv; simp only [Option.getD_some] at hsrcv; rw [hsrcv]
              have hd := hA p List.mem_cons_self x hx
              refine ⟨Nat.le_refl _, Or.inr (Or.inr ?_)⟩
              cases hs : p.store <;> simp_all [StoreKind.deep]
          have h2 := storeVal_range hst (Nat.le_trans hlo hsv.1) hsv.2
          have h3 := buildFields_range σ c args lo ps n2 (by omega)
            (fun q hq => hG q (List.mem_cons_of_mem _ hq))
            (fun q hq => hA q (List.mem_cons_of_mem _ hq)) hrest
          refine ⟨by omega, ?_⟩
          intro i hi
          simp only [idsF, List.mem_append] at hi
          rcases hi with hi | hi
          · have := h2.2 i hi; omega
          · exact h3.2 i hi

end HV.Settings
