import HvsrVerif.Model.Rec
import HvsrVerif.Proofs.RealInst
import Mathlib.Data.List.Nodup
import Mathlib.Tactic.Linarith
/-!
# helper lemmas for C18 (recording state machine, dict bookkeeping, nearest-sample search, heap)
-/
namespace HV.RecM
open HV HV.Split

/-! ## insertion-ordered dicts -/

theorem dictGet_cons {γ : Type} (k' k : String) (v : γ) (rest : List (String × γ)) :
    dictGet ((k', v) :: rest) k = if k' = k then some v else dictGet rest k := rfl

theorem keys_dictSet {γ : Type} (m : List (String × γ)) (k : String) (v : γ) :
    keys (dictSet m k v) = if k ∈ keys m then keys m else keys m ++ [k] := by
  induction m with
  | nil => simp [dictSet, keys]
  | cons p rest ih =>
    obtain ⟨k', v'⟩ := p
    unfold dictSet
    by_cases h : k' = k
    · subst h
      simp [keys]
    · rw [if_neg h]
      have hne : ¬ k = k' := fun e => h e.symm
      simp only [keys, List.map_cons, List.mem_cons, hne, false_or] at ih ⊢
      rw [ih]
      split <;> simp [*]

theorem nodup_dictSet {γ : Type} (m : List (String × γ)) (k : String) (v : γ)
    (h : (keys m).Nodup) : (keys (dictSet m k v)).Nodup := by
  rw [keys_dictSet]
  split
  · exact h
  · rename_i hk
    rw [List.nodup_append]
    refine ⟨h, List.nodup_singleton _, ?_⟩
    intro a ha b hb
    rw [List.mem_singleton] at hb
    subst hb
    intro e
    exact hk (e ▸ ha)

theorem dictSet_fresh {γ : Type} (m : List (String × γ)) (k : String) (v : γ)
    (h : k ∉ keys m) : dictSet m k v = m ++ [(k, v)] := by
  induction m with
  | nil => rfl
  | cons p rest ih =>
    obtain ⟨k', v'⟩ := p
    simp only [keys, List.map_cons, List.mem_cons, not_or] at h
    unfold dictSet
    rw [if_neg (fun e => h.1 e.symm)]
    rw [ih (by simpa [keys] using h.2)]
    rfl

theorem foldl_dictSet_fresh {γ : Type} (rest acc : List (String × γ))
    (h : (keys (acc ++ rest)).Nodup) :
    rest.foldl (fun m kv => dictSet m kv.1 kv.2) acc = acc ++ rest := by
  induction rest generalizing acc with
  | nil => simp
  | cons p tl ih =>
    obtain ⟨k, v⟩ := p
    rw [List.foldl_cons]
    have hk : k ∉ keys acc := by
      simp only [keys, List.map_append, List.map_cons] at h
      rw [List.nodup_append] at h
      intro hm
      exact h.2.2 k hm k (List.mem_cons_self) rfl
    rw [dictSet_fresh acc k v hk]
    have e : acc ++ [(k, v)] ++ tl = acc ++ (k, v) :: tl := by simp
    rw [ih (acc ++ [(k, v)]) (by rw [e]; exact h), e]

/-- a well-formed meta dict: the three default keys lead (in the constructor's order) and keys are unique -/
def MetaWF {α : Type} (m : Dict α) : Prop :=
  (∃ v1 v2 v3 rest, m = (kFile, v1) :: (kDeployed, v2) :: (kCurrent, v3) :: rest) ∧ (keys m).Nodup

theorem kFile_ne_kDeployed : kFile ≠ kDeployed := by unfold kFile kDeployed; simp
theorem kFile_ne_kCurrent : kFile ≠ kCurrent := by unfold kFile kCurrent; simp
theorem kDeployed_ne_kCurrent : kDeployed ≠ kCurrent := by unfold kDeployed kCurrent; simp

theorem metaWF_default {α : Type} (a b c : Json α) :
    MetaWF [(kFile, a), (kDeployed, b), (kCurrent, c)] := by
  refine ⟨⟨a, b, c, [], rfl⟩, ?_⟩
  simp [keys, kFile_ne_kDeployed, kFile_ne_kCurrent, kDeployed_ne_kCurrent]

theorem metaWF_dictSet {α : Type} (m : Dict α) (k : String) (v : Json α) (h : MetaWF m) :
    MetaWF (dictSet m k v) := by
  obtain ⟨⟨v1, v2, v3, rest, rfl⟩, hn⟩ := h
  refine ⟨?_, nodup_dictSet _ k v hn⟩
  simp only [dictSet]
  split
  · rename_i e; subst e; exact ⟨_, _, _, _, rfl⟩
  · split
    · rename_i e; subst e; exact ⟨_, _, _, _, rfl⟩
    · split
      · rename_i e; subst e; exact ⟨_, _, _, _, rfl⟩
      · exact ⟨_, _, _, _, rfl⟩

theorem metaWF_dictMerge {α : Type} (base upd : Dict α) (h : MetaWF base) :
    MetaWF (dictMerge base upd) := by
  unfold dictMerge
  induction upd generalizing base with
  | nil => exact h
  | cons p tl ih => exact ih _ (metaWF_dictSet base p.1 p.2 h)

/-- `{**defaults, **m} = m` for a well-formed `m` (this is why a loaded recording has the saved meta) -/
theorem dictMerge_default_id {α : Type} (a b c : Json α) (m : Dict α) (h : MetaWF m) :
    dictMerge [(kFile, a), (kDeployed, b), (kCurrent, c)] m = m := by
  obtain ⟨⟨v1, v2, v3, rest, rfl⟩, hn⟩ := h
  unfold dictMerge
  simp only [List.foldl_cons, dictSet, if_true, if_neg kFile_ne_kDeployed, if_neg kFile_ne_kCurrent,
    if_neg kDeployed_ne_kCurrent]
  have := foldl_dictSet_fresh rest [(kFile, v1), (kDeployed, v2), (kCurrent, v3)] (by simpa using hn)
  simpa using this

/-! ## JSON lists of numbers -/

theorem mapM_asNum {α : Type} (xs : List α) : (xs.map Json.num).mapM asNum = some xs := by
  induction xs with
  | nil => rfl
  | cons x xs ih => simp [List.mapM_cons, asNum, ih]

/-! ## degrees -/

theorem ofInt_real (i : Int) : (ofInt i : ℝ) = (i : ℝ) := by
  cases i with
  | ofNat n => simp [ofInt]
  | negSucc n => simp [ofInt, Int.negSucc_eq]

theorem degNorm_real (d : ℝ) : degNorm d = d - 360 * (⌊d / 360⌋ : ℝ) := by
  unfold degNorm
  simp only [ofNat_real, floor_real, ofInt_real]
  norm_num

theorem degNorm_range (d : ℝ) : 0 ≤ degNorm d ∧ degNorm d < 360 := by
  rw [degNorm_real]
  have h1 := Int.floor_le (d / 360)
  have h2 := Int.lt_floor_add_one (d / 360)
  constructor <;> linarith

theorem degNorm_id (d : ℝ) (h0 : 0 ≤ d) (h1 : d < 360) : degNorm d = d := by
  rw [degNorm_real]
  have : ⌊d / 360⌋ = 0 := by
    rw [Int.floor_eq_zero_iff]
    constructor
    · positivity
    · rw [div_lt_one (by norm_num)]; exact h1
  rw [this]
  simp

/-! ## nearest sample -/

/-- distance of sample `i` (time `i·dt`) from `t` -/
def sdist (dt t : ℝ) (i : Nat) : ℝ := |(i : ℝ) * dt - t|

theorem argminAbs_fold (dt t : ℝ) (m : Nat) :
    (argminAbs dt t m < m ∨ (m = 0 ∧ argminAbs dt t m = 0)) ∧
    (∀ j, j < m → sdist dt t (argminAbs dt t m) ≤ sdist dt t j) ∧
    (∀ j, j < argminAbs dt t m → sdist dt t (argminAbs dt t m) < sdist dt t j) := by
  induction m with
  | zero => simp [argminAbs]
  | succ m ih =>
    have hstep : argminAbs dt t (m + 1) =
        if sdist dt t m < sdist dt t (argminAbs dt t m) then m else argminAbs dt t m := by
      unfold argminAbs
      rw [List.range_succ, List.foldl_append, List.foldl_cons, List.foldl_nil]
      simp only [absA_real, timeAt, ofNat_real, sdist]
    obtain ⟨hb, hle, hfirst⟩ := ih
    rw [hstep]
    by_cases hlt : sdist dt t m < sdist dt t (argminAbs dt t m)
    · rw [if_pos hlt]
      refine ⟨Or.inl (by omega), ?_, ?_⟩
      · intro j hj
        rcases Nat.lt_succ_iff_lt_or_eq.mp hj with h | h
        · exact le_trans hlt.le (hle j h)
        · subst h; exact le_refl _
      · intro j hj
        exact lt_of_lt_of_le hlt (hle j hj)
    · rw [if_neg hlt]
      refine ⟨Or.inl ?_, ?_, hfirst⟩
      · rcases hb with h | ⟨h, h'⟩
        · omega
        · omega
      · intro j hj
        rcases Nat.lt_succ_iff_lt_or_eq.mp hj with h | h
        · exact hle j h
        · subst h; exact not_lt.mp hlt

/-! ## heap -/

theorem Heap.read_alloc_old {α : Type} (h : Heap α) (xs : List α) (a : Arr) (hv : h.valid a) :
    (h.alloc xs).1.read a = h.read a := by
  unfold Heap.alloc Heap.read
  simp only [List.getD_eq_getElem?_getD]
  rw [List.getElem?_append_left hv]

theorem Heap.read_alloc_new {α : Type} (h : Heap α) (xs : List α) :
    (h.alloc xs).1.read (h.alloc xs).2 = xs := by
  unfold Heap.alloc Heap.read
  simp [List.getD_eq_getElem?_getD]

theorem Heap.read_write_other {α : Type} (h : Heap α) (a c : Arr) (i : Nat) (v : α)
    (hne : a.base ≠ c.base) : (h.write c i v).read a = h.read a := by
  unfold Heap.write
  split
  · unfold Heap.read
    simp only [List.getD_eq_getElem?_getD, List.getElem?_modify]
    have : ¬ c.base = a.base := fun e => hne e.symm
    cases h.cells[a.base]? <;> simp [this]
  · rfl

theorem Heap.write_length {α : Type} (h : Heap α) (c : Arr) (i : Nat) (v : α) :
    (h.write c i v).cells.length = h.cells.length := by
  unfold Heap.write
  split
  · simp [List.length_modify]
  · rfl

end HV.RecM
