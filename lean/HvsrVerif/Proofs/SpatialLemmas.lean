import HvsrVerif.Proofs.ListLemmas
import HvsrVerif.Model.Spatial
import Mathlib.Algebra.BigOperators.Group.List.Basic
import Mathlib.Analysis.Convex.Hull
import Mathlib.Analysis.Convex.Segment
import Mathlib.Tactic.NormNum
import Mathlib.Tactic.Positivity
/-!
# Lemmas about `Model/Spatial.lean` over `ℝ` (C14)

* `_statistics` / `montecarlo_fn`: the folds are list sums; what `statistics = some _` entails.
* clipping: soundness, clipped vertices stay in the convex hull of the input vertices.
* `Sim φ k`: maps of the plane (translations, positive uniform scalings) under which every step of
  the weight computation is equivariant.
-/
namespace HV
open Classical

/-! ## statistics -/


theorem foldSum_real {β : Type} (f : β → ℝ) (l : List β) : foldSum f l = (l.map f).sum := by
  unfold foldSum
  simp only [ofNat_real, Nat.cast_zero]
  suffices h : ∀ acc : ℝ, l.foldl (fun acc x => acc + f x) acc = acc + (l.map f).sum by
    simpa using h 0
  induction l with
  | nil => intro acc; simp
  | cons a l ih => intro acc; simp only [List.foldl_cons, ih, List.map_cons, List.sum_cons]; ring

theorem sum_map_div {β : Type} (f : β → ℝ) (c : ℝ) (l : List β) :
    (l.map (fun a => f a / c)).sum = (l.map f).sum / c := by
  induction l with
  | nil => simp
  | cons a l ih => simp only [List.map_cons, List.sum_cons, ih]; ring

theorem sum_map_flatMap {β γ : Type} (g : β → List γ) (h : γ → ℝ) (l : List β) :
    ((l.flatMap g).map h).sum = (l.map (fun a => ((g a).map h).sum)).sum := by
  induction l with
  | nil => simp
  | cons a l ih => simp only [List.flatMap_cons, List.map_append, List.sum_append, ih, List.map_cons, List.sum_cons]

theorem normWeights_real (w : List ℝ) : normWeights w = w.map (fun x => x / w.sum) := by
  unfold normWeights; rw [sumA_real]

theorem eqA_zero_real (a : ℝ) : eqA a (Arith.ofNat 0) = decide (a = 0) := by
  rw [Bool.eq_iff_iff, eqA_real]; simp

/-- what `statisticsN` returns, over `ℝ`, with the guards spelled out -/
theorem statisticsN_some {values : List (List ℝ)} {nw : List ℝ} {m sd : ℝ}
    (h : statisticsN values nw = some (m, sd)) :
    ∃ z, (List.zip values nw).getLast? = some z ∧ (z.1.length : ℝ) ≠ 0 ∧
      m = ((List.zip values nw).map (fun z => z.2 * z.1.sum)).sum / z.1.length ∧
      1 - ((List.zip values nw).map (fun z => z.2 * z.2)).sum / z.1.length ≠ 0 ∧
      sd = Real.sqrt ((((List.zip values nw).map
              (fun z => z.2 * (z.1.map (fun x => (x - m) * (x - m))).sum)).sum / z.1.length) /
            (1 - ((List.zip values nw).map (fun z => z.2 * z.2)).sum / z.1.length)) := by
  unfold statisticsN at h
  simp only at h
  split at h
  · cases h
  · rename_i z hz
    simp only [eqA_zero_real, Bool.or_eq_true, decide_eq_true_eq] at h
    split at h
    · cases h
    · rename_i hg
      push Not at hg
      simp only [Option.some.injEq, Prod.mk.injEq] at h
      obtain ⟨hm, hsd⟩ := h
      have hmean : m = ((List.zip values nw).map (fun z => z.2 * z.1.sum)).sum / z.1.length := by
        rw [← hm]; unfold statMean; rw [foldSum_real]; simp only [sumA_real, ofNat_real]
      refine ⟨z, hz, ?_, hmean, ?_, ?_⟩
      · simpa using hg.1.1
      · have := hg.1.2
        unfold statW2 at this
        rw [foldSum_real] at this
        simpa using this
      · rw [← hsd, sqrt_real]
        unfold statNumerator statW2 sqDev
        rw [hm]
        simp only [foldSum_real, sumA_real, ofNat_real, Nat.cast_one]


theorem sum_map_const {β : Type} (r : List β) (c : ℝ) : (r.map (fun _ => c)).sum = r.length * c := by
  induction r with
  | nil => simp
  | cons a r ih => simp only [List.map_cons, List.sum_cons, ih, List.length_cons, Nat.cast_add, Nat.cast_one]; ring

theorem sum_map_mul_left' {β : Type} (f : β → ℝ) (c : ℝ) (l : List β) :
    (l.map (fun a => c * f a)).sum = c * (l.map f).sum := by
  induction l with
  | nil => simp
  | cons a l ih => simp only [List.map_cons, List.sum_cons, ih]; ring

theorem zip_normWeights (values : List (List ℝ)) (w : List ℝ) :
    List.zip values (normWeights w) = (List.zip values w).map (fun p => (p.1, p.2 / w.sum)) := by
  rw [normWeights_real, List.zip_map_right]
  rfl

noncomputable def samples (values : List (List ℝ)) (w : List ℝ) (N : ℕ) : List (ℝ × ℝ) :=
  (List.zip values w).flatMap (fun rw => rw.1.map (fun x => (rw.2 / w.sum / N, x)))

theorem statistics_some {values : List (List ℝ)} {w : List ℝ} {m sd : ℝ}
    (h : statistics values w = some (m, sd)) :
    w.sum ≠ 0 ∧ statisticsN values (normWeights w) = some (m, sd) := by
  unfold statistics at h
  rw [eqA_zero_real, sumA_real] at h
  split at h
  · cases h
  · rename_i hs
    exact ⟨by simpa using hs, h⟩

theorem getLast_rows {values : List (List ℝ)} {nw : List ℝ} {N : ℕ} (hrows : ∀ r ∈ values, r.length = N)
    {z : List ℝ × ℝ} (hz : (List.zip values nw).getLast? = some z) : z.1.length = N := by
  have hm : z ∈ List.zip values nw := List.mem_of_getLast? hz
  obtain ⟨r, x⟩ := z
  exact hrows r (List.of_mem_zip hm).1

theorem inner_mean (c : ℝ) (r : List ℝ) :
    ((r.map (fun x => (c, x))).map (fun s : ℝ × ℝ => s.1 * s.2)).sum = c * r.sum := by
  induction r with
  | nil => simp
  | cons a r ih => simp only [List.map_cons, List.sum_cons, ih]; ring

theorem inner_sq (c m : ℝ) (r : List ℝ) :
    ((r.map (fun x => (c, x))).map (fun s : ℝ × ℝ => s.1 * ((s.2 - m) * (s.2 - m)))).sum
      = c * (r.map (fun x => (x - m) * (x - m))).sum := by
  induction r with
  | nil => simp
  | cons a r ih => simp only [List.map_cons, List.sum_cons, ih]; ring

theorem inner_w2 (c : ℝ) (r : List ℝ) :
    ((r.map (fun x => (c, x))).map (fun s : ℝ × ℝ => s.1 * s.1)).sum = r.length * (c * c) := by
  induction r with
  | nil => simp
  | cons a r ih => simp only [List.map_cons, List.sum_cons, ih, List.length_cons, Nat.cast_add, Nat.cast_one]; ring

theorem statistics_mean_eq {values : List (List ℝ)} {w : List ℝ} {N : ℕ} {m sd : ℝ}
    (hrows : ∀ r ∈ values, r.length = N) (h : statistics values w = some (m, sd)) :
    m = ((samples values w N).map (fun s => s.1 * s.2)).sum := by
  obtain ⟨hS, hN⟩ := statistics_some h
  obtain ⟨z, hz, hn0, hm, -, -⟩ := statisticsN_some hN
  have hzN := getLast_rows hrows hz
  rw [hzN] at hm hn0
  rw [hm, zip_normWeights, List.map_map]
  unfold samples
  rw [sum_map_flatMap, ← sum_map_div]
  congr 1
  apply List.map_congr_left
  rintro ⟨r, x⟩ _
  simp only [Function.comp]
  rw [inner_mean]
  ring

theorem statistics_std_eq {values : List (List ℝ)} {w : List ℝ} {N : ℕ} {m sd : ℝ}
    (hrows : ∀ r ∈ values, r.length = N) (h : statistics values w = some (m, sd)) :
    sd = Real.sqrt (((samples values w N).map (fun s => s.1 * ((s.2 - m) * (s.2 - m)))).sum /
          (1 - ((samples values w N).map (fun s => s.1 * s.1)).sum)) := by
  obtain ⟨hS, hN⟩ := statistics_some h
  obtain ⟨z, hz, hn0, -, -, hsd⟩ := statisticsN_some hN
  have hzN := getLast_rows hrows hz
  rw [hzN] at hsd hn0
  have e1 : ((samples values w N).map (fun s => s.1 * ((s.2 - m) * (s.2 - m)))).sum =
      ((List.zip values (normWeights w)).map
        (fun z => z.2 * (z.1.map (fun x => (x - m) * (x - m))).sum)).sum / N := by
    unfold samples
    rw [sum_map_flatMap, zip_normWeights, List.map_map, ← sum_map_div]
    congr 1
    apply List.map_congr_left
    rintro ⟨r, x⟩ _
    simp only [Function.comp]
    rw [inner_sq]
    ring
  have e2 : ((samples values w N).map (fun s => s.1 * s.1)).sum =
      ((List.zip values (normWeights w)).map (fun z => z.2 * z.2)).sum / N := by
    unfold samples
    rw [sum_map_flatMap, zip_normWeights, List.map_map, ← sum_map_div]
    congr 1
    apply List.map_congr_left
    rintro ⟨r, x⟩ hmem
    simp only [Function.comp]
    rw [inner_w2, hrows r (List.of_mem_zip hmem).1]
    field_simp
  rw [hsd, e1, e2]


theorem sum_map_mul_c (w : List ℝ) (c : ℝ) : (w.map (fun x => c * x)).sum = c * w.sum := by
  induction w with
  | nil => simp
  | cons a w ih => simp only [List.map_cons, List.sum_cons, ih]; ring

theorem normWeights_scale (w : List ℝ) (c : ℝ) (hc : c ≠ 0) :
    normWeights (w.map (fun x => c * x)) = normWeights w := by
  rw [normWeights_real, normWeights_real, List.map_map, sum_map_mul_c]
  apply List.map_congr_left
  intro x _
  simp only [Function.comp]
  rw [mul_div_mul_left _ _ hc]

theorem statistics_scale (values : List (List ℝ)) (w : List ℝ) (c : ℝ) (hc : c ≠ 0) :
    statistics values (w.map (fun x => c * x)) = statistics values w := by
  unfold statistics
  rw [normWeights_scale w c hc]
  simp only [eqA_zero_real, sumA_real, sum_map_mul_c]
  have : (c * w.sum = 0) ↔ (w.sum = 0) := by
    constructor
    · intro h; rcases mul_eq_zero.mp h with h | h
      · exact absurd h hc
      · exact h
    · intro h; rw [h, mul_zero]
  simp only [this]

theorem samples_weights_sum {values : List (List ℝ)} {w : List ℝ} {N : ℕ} (hN : N ≠ 0)
    (hrows : ∀ r ∈ values, r.length = N) (hlen : w.length ≤ values.length) (hS : w.sum ≠ 0) :
    ((samples values w N).map (fun s => s.1)).sum = 1 := by
  unfold samples
  rw [sum_map_flatMap]
  have : ((List.zip values w).map (fun a => ((a.1.map (fun x => (a.2 / w.sum / (N:ℝ), x))).map (fun s : ℝ × ℝ => s.1)).sum))
      = (List.zip values w).map (fun a => (fun p : List ℝ × ℝ => p.2) a / w.sum) := by
    apply List.map_congr_left
    rintro ⟨r, x⟩ hmem
    simp only [List.map_map]
    have e : ((fun s : ℝ × ℝ => s.1) ∘ fun x_1 : ℝ => (x / w.sum / (N:ℝ), x_1)) = fun _ => x / w.sum / (N:ℝ) := rfl
    rw [e, sum_map_const, hrows r (List.of_mem_zip hmem).1]
    have : (N:ℝ) ≠ 0 := by exact_mod_cast hN
    field_simp
  rw [this, sum_map_div]
  have : (List.zip values w).map (fun p : List ℝ × ℝ => p.2) = w := List.map_snd_zip hlen
  rw [this]
  exact div_self hS


theorem montecarlo_some {g s : SpDist} {draws : List (List ℝ)} {w : List ℝ} {m sd : ℝ} {R : List (List ℝ)}
    (h : montecarlo g s draws w = some (m, sd, R)) :
    ∃ m', statistics (draws.map (fun row => row.map (mcPre g s))) w = some (m', sd) ∧
      ((s = .normal ∧ m = m' ∧ R = draws.map (fun row => row.map (mcPre g s))) ∨
       (s = .lognormal ∧ m = Real.exp m' ∧
          R = (draws.map (fun row => row.map (mcPre g s))).map (fun row => row.map Real.exp))) := by
  unfold montecarlo at h
  split at h
  · simp only at h
    split at h
    · cases h
    · rename_i m' sd' hst
      cases s with
      | normal =>
        simp only [Option.some.injEq, Prod.mk.injEq] at h
        obtain ⟨h1, h2, h3⟩ := h
        subst h1 h2 h3
        exact ⟨m', hst, Or.inl ⟨rfl, rfl, rfl⟩⟩
      | lognormal =>
        simp only [Option.some.injEq, Prod.mk.injEq, exp_real] at h
        obtain ⟨h1, h2, h3⟩ := h
        subst h1 h2 h3
        exact ⟨m', hst, Or.inr ⟨rfl, rfl, rfl⟩⟩
  · cases h

theorem mc_stats_of_realisations' {g s : SpDist} {draws : List (List ℝ)} {w : List ℝ} {m sd : ℝ}
    {R : List (List ℝ)} (h : montecarlo g s draws w = some (m, sd, R)) :
    spatialStats s R w = some (m, sd) := by
  obtain ⟨m', hst, hcase⟩ := montecarlo_some h
  rcases hcase with ⟨hs, hm, hR⟩ | ⟨hs, hm, hR⟩
  · subst hs hm hR
    unfold spatialStats
    exact hst
  · subst hs hm hR
    unfold spatialStats
    have : ((draws.map (fun row => row.map (mcPre g .lognormal))).map (fun row => row.map Real.exp)).map
        (fun row => row.map (Transc.log : ℝ → ℝ)) = draws.map (fun row => row.map (mcPre g .lognormal)) := by
      rw [List.map_map]
      conv_rhs => rw [← List.map_id (draws.map (fun row => row.map (mcPre g .lognormal)))]
      apply List.map_congr_left
      intro row _
      simp only [Function.comp, List.map_map, id]
      conv_rhs => rw [← List.map_id row]
      apply List.map_congr_left
      intro x _
      simp only [Function.comp, log_real, Real.log_exp, id]
    simp only [this, hst, exp_real]

theorem sum_replicate_real (n : ℕ) (x : ℝ) : (List.replicate n x).sum = n * x := by
  rw [List.sum_replicate, nsmul_eq_mul]

/-- `Σ wᵢ·vᵢ / Σ wᵢ` -/
noncomputable def wmean (vals w : List ℝ) : ℝ :=
  ((List.zip vals w).map (fun p : ℝ × ℝ => p.2 * p.1)).sum / w.sum

theorem mc_zero_sigma' {g s : SpDist} {means w : List ℝ} {n : ℕ} {m sd : ℝ} {R : List (List ℝ)}
    (h : montecarlo g s (means.map (fun μ => List.replicate n μ)) w = some (m, sd, R)) :
    (s = .normal ∧ m = wmean (means.map (mcPre g s)) w) ∨
    (s = .lognormal ∧ m = Real.exp (wmean (means.map (mcPre g s)) w)) := by
  obtain ⟨m', hst, hcase⟩ := montecarlo_some h
  obtain ⟨hS, hN⟩ := statistics_some hst
  obtain ⟨z, hz, hn0, hm, -, -⟩ := statisticsN_some hN
  have hr : (means.map (fun μ => List.replicate n μ)).map (fun row => row.map (mcPre g s))
      = (means.map (mcPre g s)).map (fun v => List.replicate n v) := by
    rw [List.map_map, List.map_map]; apply List.map_congr_left; intro μ _; simp [Function.comp]
  rw [hr] at hz hm
  have hzn : z.1.length = n := by
    have hmem : z ∈ List.zip ((means.map (mcPre g s)).map (fun v => List.replicate n v)) (normWeights w) :=
      List.mem_of_getLast? hz
    obtain ⟨r, x⟩ := z
    have := (List.of_mem_zip hmem).1
    rw [List.mem_map] at this
    obtain ⟨μ, -, rfl⟩ := this
    simp
  rw [hzn] at hm hn0
  have key : m' = wmean (means.map (mcPre g s)) w := by
    unfold wmean
    rw [hm, normWeights_real, List.zip_map, List.map_map, ← sum_map_div, ← sum_map_div]
    congr 1
    apply List.map_congr_left
    rintro ⟨v, x⟩ _
    simp only [Function.comp, Prod.map, sum_replicate_real]
    field_simp
  rcases hcase with ⟨hs, hm2, -⟩ | ⟨hs, hm2, -⟩
  · left; exact ⟨hs, by rw [hm2, key]⟩
  · right; exact ⟨hs, by rw [hm2, key]⟩


/-! ## clipping -/


/-- squared Euclidean distance -/
def dist2 (x p : Pt ℝ) : ℝ := (x.1 - p.1) ^ 2 + (x.2 - p.2) ^ 2

theorem hpVal_real (a b c : ℝ) (p : Pt ℝ) : hpVal a b c p = a * p.1 + b * p.2 - c := rfl

theorem closer_iff_halfplane' (pi pj x : Pt ℝ) :
    dist2 x pi ≤ dist2 x pj ↔
      hpVal (bisector pi pj).1 (bisector pi pj).2.1 (bisector pi pj).2.2 x ≤ 0 := by
  unfold dist2 bisector hpVal
  simp only [ofNat_real, Nat.cast_ofNat]
  constructor <;> intro h <;> nlinarith [h]

theorem interPt_val (a b c : ℝ) (p q : Pt ℝ) (hne : hpVal a b c p ≠ hpVal a b c q) :
    hpVal a b c (interPt p q (hpVal a b c p) (hpVal a b c q)) = 0 := by
  unfold interPt
  simp only [hpVal_real] at hne ⊢
  have h : a * p.1 + b * p.2 - c - (a * q.1 + b * q.2 - c) ≠ 0 := sub_ne_zero.mpr hne
  field_simp
  ring

theorem clipEdge_sound (a b c : ℝ) (e : Pt ℝ × Pt ℝ) :
    ∀ v ∈ clipEdge a b c e, hpVal a b c v ≤ 0 := by
  intro v hv
  unfold clipEdge at hv
  simp only [ofNat_real, Nat.cast_zero] at hv
  split at hv
  · rename_i hp
    split at hv
    · rename_i hq
      simp only [List.mem_cons, List.not_mem_nil, or_false] at hv
      rcases hv with rfl | rfl
      · exact hp
      · rw [interPt_val a b c e.1 e.2 (by intro h; rw [h] at hp; linarith)]
    · simp only [List.mem_cons, List.not_mem_nil, or_false] at hv
      subst hv; exact hp
  · rename_i hp
    split at hv
    · rename_i hq
      simp only [List.mem_cons, List.not_mem_nil, or_false] at hv
      subst hv
      rw [interPt_val a b c e.1 e.2 (by intro h; rw [h] at hp; exact hp hq)]
    · simp at hv

theorem clip_sound' (a b c : ℝ) (poly : List (Pt ℝ)) :
    ∀ v ∈ clipHalfPlane a b c poly, hpVal a b c v ≤ 0 := by
  intro v hv
  unfold clipHalfPlane at hv
  rw [List.mem_flatMap] at hv
  obtain ⟨e, -, he⟩ := hv
  exact clipEdge_sound a b c e v he


theorem edges_mem {poly : List (Pt ℝ)} {e : Pt ℝ × Pt ℝ} (he : e ∈ edges poly) :
    e.1 ∈ poly ∧ e.2 ∈ poly := by
  unfold edges at he
  obtain ⟨p, q⟩ := e
  have := List.of_mem_zip he
  refine ⟨this.1, ?_⟩
  rcases List.mem_append.mp this.2 with h | h
  · exact List.mem_of_mem_tail h
  · exact List.mem_of_mem_take h

theorem interPt_mem_segment (p q : Pt ℝ) (fp fq : ℝ)
    (h : (fp ≤ 0 ∧ 0 < fq) ∨ (0 < fp ∧ fq ≤ 0)) : interPt p q fp fq ∈ segment ℝ p q := by
  have hd : fp - fq ≠ 0 := by rcases h with ⟨h1, h2⟩ | ⟨h1, h2⟩ <;> intro h0 <;> linarith
  have ht0 : 0 ≤ fp / (fp - fq) := by
    rcases h with ⟨h1, h2⟩ | ⟨h1, h2⟩
    · exact div_nonneg_of_nonpos h1 (by linarith)
    · exact div_nonneg h1.le (by linarith)
  have ht1 : fp / (fp - fq) ≤ 1 := by
    rcases h with ⟨h1, h2⟩ | ⟨h1, h2⟩
    · rw [div_le_one_of_neg (by linarith)]; linarith
    · rw [div_le_one (by linarith)]; linarith
  refine ⟨1 - fp / (fp - fq), fp / (fp - fq), by linarith, ht0, by ring, ?_⟩
  unfold interPt
  ext
  · simp only [Prod.fst_add, Prod.smul_fst, smul_eq_mul]; ring
  · simp only [Prod.snd_add, Prod.smul_snd, smul_eq_mul]; ring

theorem clipEdge_mem_segment (a b c : ℝ) (e : Pt ℝ × Pt ℝ) :
    ∀ v ∈ clipEdge a b c e, v ∈ segment ℝ e.1 e.2 := by
  intro v hv
  unfold clipEdge at hv
  simp only [ofNat_real, Nat.cast_zero] at hv
  split at hv
  · rename_i hp
    split at hv
    · rename_i hq
      simp only [List.mem_cons, List.not_mem_nil, or_false] at hv
      rcases hv with rfl | rfl
      · exact left_mem_segment ℝ _ _
      · exact interPt_mem_segment _ _ _ _ (Or.inl ⟨hp, hq⟩)
    · simp only [List.mem_cons, List.not_mem_nil, or_false] at hv
      subst hv; exact left_mem_segment ℝ _ _
  · rename_i hp
    split at hv
    · rename_i hq
      simp only [List.mem_cons, List.not_mem_nil, or_false] at hv
      subst hv
      exact interPt_mem_segment _ _ _ _ (Or.inr ⟨not_le.mp hp, hq⟩)
    · simp at hv

/-- clipping never leaves the convex hull of the vertices it was given -/
theorem clip_subset_hull' (a b c : ℝ) (poly : List (Pt ℝ)) :
    ∀ v ∈ clipHalfPlane a b c poly, v ∈ _root_.convexHull ℝ {p | p ∈ poly} := by
  intro v hv
  unfold clipHalfPlane at hv
  rw [List.mem_flatMap] at hv
  obtain ⟨e, he, hve⟩ := hv
  obtain ⟨h1, h2⟩ := edges_mem he
  have h1' : e.1 ∈ ({p | p ∈ poly} : Set (Pt ℝ)) := h1
  have h2' : e.2 ∈ ({p | p ∈ poly} : Set (Pt ℝ)) := h2
  exact (convex_convexHull ℝ _).segment_subset (subset_convexHull ℝ _ h1') (subset_convexHull ℝ _ h2')
    (clipEdge_mem_segment a b c e v hve)

theorem convex_halfplane (a b c : ℝ) : Convex ℝ {x : Pt ℝ | hpVal a b c x ≤ 0} := by
  intro x hx y hy s t hs ht hst
  simp only [Set.mem_ofPred_eq, hpVal_real, Prod.fst_add, Prod.snd_add, Prod.smul_fst, Prod.smul_snd,
    smul_eq_mul] at hx hy ⊢
  have : a * (s * x.1 + t * y.1) + b * (s * x.2 + t * y.2) - c
      = s * (a * x.1 + b * x.2 - c) + t * (a * y.1 + b * y.2 - c) + (s + t - 1) * c := by ring
  rw [this, hst]
  nlinarith [mul_nonneg hs (neg_nonneg.mpr hx), mul_nonneg ht (neg_nonneg.mpr hy)]

/-- the model cell lies in the hull and in every half-plane "closer to `pi` than to `pj`" -/
theorem cell_subset' (hull : List (Pt ℝ)) (pi : Pt ℝ) (others : List (Pt ℝ)) :
    _root_.convexHull ℝ {v | v ∈ cell hull pi others} ⊆
      _root_.convexHull ℝ {h | h ∈ hull} ∩ {x | ∀ pj ∈ others, dist2 x pi ≤ dist2 x pj} := by
  unfold cell
  induction others generalizing hull with
  | nil =>
    simp only [List.foldl_nil, List.not_mem_nil, false_imp_iff, implies_true, Set.ofPred_true, Set.inter_univ]
    exact subset_rfl
  | cons pj rest ih =>
    simp only [List.foldl_cons]
    have h1 := ih (clipBisector pi hull pj)
    intro x hx
    obtain ⟨hxh, hxr⟩ := h1 hx
    have hsub : _root_.convexHull ℝ {h | h ∈ clipBisector pi hull pj} ⊆ _root_.convexHull ℝ {h | h ∈ hull} :=
      convexHull_min (fun v hv => clip_subset_hull' _ _ _ hull v hv) (convex_convexHull ℝ _)
    have hhp : _root_.convexHull ℝ {h | h ∈ clipBisector pi hull pj} ⊆
        {x | hpVal (bisector pi pj).1 (bisector pi pj).2.1 (bisector pi pj).2.2 x ≤ 0} :=
      convexHull_min (fun v hv => clip_sound' _ _ _ hull v hv) (convex_halfplane _ _ _)
    refine ⟨hsub hxh, ?_⟩
    intro p hp
    rcases List.mem_cons.mp hp with rfl | hp
    · exact (closer_iff_halfplane' pi p x).mpr (hhp hxh)
    · exact hxr p hp


/-! ## area, similarity maps -/


/-- translation by `t` -/
def trPt (t : Pt ℝ) (p : Pt ℝ) : Pt ℝ := (p.1 + t.1, p.2 + t.2)
/-- uniform scaling by `s` -/
def scPt (s : ℝ) (p : Pt ℝ) : Pt ℝ := (s * p.1, s * p.2)

theorem shoelaceAux_translate (t f p : Pt ℝ) (l : List (Pt ℝ)) :
    shoelaceAux (trPt t f) ((p :: l).map (trPt t)) =
      shoelaceAux f (p :: l) + t.1 * (f.2 - p.2) - t.2 * (f.1 - p.1) := by
  induction l generalizing p with
  | nil => simp only [List.map_cons, List.map_nil, shoelaceAux, trPt]; ring
  | cons q rest ih =>
    have := ih q
    simp only [List.map_cons] at this ⊢
    simp only [shoelaceAux] at this ⊢
    rw [this]
    simp only [trPt]
    ring

theorem area_translate' (t : Pt ℝ) (poly : List (Pt ℝ)) :
    shoelace (poly.map (trPt t)) = shoelace poly := by
  cases poly with
  | nil => rfl
  | cons p rest =>
    simp only [List.map_cons, shoelace]
    have := shoelaceAux_translate t p p rest
    simp only [List.map_cons] at this
    rw [this]
    ring

theorem shoelaceAux_scale (s : ℝ) (f p : Pt ℝ) (l : List (Pt ℝ)) :
    shoelaceAux (scPt s f) ((p :: l).map (scPt s)) = s ^ 2 * shoelaceAux f (p :: l) := by
  induction l generalizing p with
  | nil => simp only [List.map_cons, List.map_nil, shoelaceAux, scPt]; ring
  | cons q rest ih =>
    have := ih q
    simp only [List.map_cons] at this ⊢
    simp only [shoelaceAux] at this ⊢
    rw [this]
    simp only [scPt]
    ring

theorem area_scale' (s : ℝ) (poly : List (Pt ℝ)) :
    shoelace (poly.map (scPt s)) = s ^ 2 * shoelace poly := by
  cases poly with
  | nil => simp [shoelace]
  | cons p rest =>
    simp only [List.map_cons, shoelace]
    have := shoelaceAux_scale s p p rest
    simp only [List.map_cons] at this
    rw [this]
    ring



theorem edges_map (φ : Pt ℝ → Pt ℝ) (poly : List (Pt ℝ)) :
    edges (poly.map φ) = (edges poly).map (fun e => (φ e.1, φ e.2)) := by
  unfold edges
  rw [← List.map_tail, ← List.map_take, ← List.map_append, List.zip_map]
  rfl

/-- clipping commutes with a map `φ` of the plane that multiplies the half-plane functional by a
positive constant and maps division points of segments to division points -/
theorem clipEdge_map (φ : Pt ℝ → Pt ℝ) (a b c a' b' c' k : ℝ) (hk : 0 < k)
    (hval : ∀ p, hpVal a' b' c' (φ p) = k * hpVal a b c p)
    (hint : ∀ p q fp fq, interPt (φ p) (φ q) (k * fp) (k * fq) = φ (interPt p q fp fq))
    (e : Pt ℝ × Pt ℝ) :
    clipEdge a' b' c' (φ e.1, φ e.2) = (clipEdge a b c e).map φ := by
  unfold clipEdge
  simp only [hval, ofNat_real, Nat.cast_zero, hint]
  have h1 : ∀ x : ℝ, k * x ≤ 0 ↔ x ≤ 0 := fun x => by
    constructor
    · intro h; by_contra hx; push Not at hx; nlinarith [mul_pos hk hx]
    · intro h; nlinarith
  have h2 : ∀ x : ℝ, 0 < k * x ↔ 0 < x := fun x => by
    constructor
    · intro h; by_contra hx; push Not at hx; nlinarith
    · intro h; exact mul_pos hk h
  by_cases hp : hpVal a b c e.1 ≤ 0
  · have hp' := (h1 _).mpr hp
    rw [if_pos hp, if_pos hp']
    by_cases hq : 0 < hpVal a b c e.2
    · rw [if_pos hq, if_pos ((h2 _).mpr hq)]; rfl
    · rw [if_neg hq, if_neg (fun h => hq ((h2 _).mp h))]; rfl
  · have hp' : ¬ k * hpVal a b c e.1 ≤ 0 := fun h => hp ((h1 _).mp h)
    rw [if_neg hp, if_neg hp']
    by_cases hq : hpVal a b c e.2 ≤ 0
    · rw [if_pos hq, if_pos ((h1 _).mpr hq)]; rfl
    · rw [if_neg hq, if_neg (fun h => hq ((h1 _).mp h))]; rfl

theorem clipHalfPlane_map (φ : Pt ℝ → Pt ℝ) (a b c a' b' c' k : ℝ) (hk : 0 < k)
    (hval : ∀ p, hpVal a' b' c' (φ p) = k * hpVal a b c p)
    (hint : ∀ p q fp fq, interPt (φ p) (φ q) (k * fp) (k * fq) = φ (interPt p q fp fq))
    (poly : List (Pt ℝ)) :
    clipHalfPlane a' b' c' (poly.map φ) = (clipHalfPlane a b c poly).map φ := by
  unfold clipHalfPlane
  rw [edges_map, List.flatMap_map, List.map_flatMap]
  congr 1
  funext e
  exact clipEdge_map φ a b c a' b' c' k hk hval hint e

theorem interPt_translate (t p q : Pt ℝ) (fp fq : ℝ) :
    interPt (trPt t p) (trPt t q) (1 * fp) (1 * fq) = trPt t (interPt p q fp fq) := by
  unfold interPt trPt
  ext <;> simp only [one_mul] <;> ring

theorem interPt_scale (s : ℝ) (hs : s ≠ 0) (p q : Pt ℝ) (fp fq : ℝ) :
    interPt (scPt s p) (scPt s q) (s ^ 2 * fp) (s ^ 2 * fq) = scPt s (interPt p q fp fq) := by
  unfold interPt scPt
  have : s ^ 2 * fp / (s ^ 2 * fp - s ^ 2 * fq) = fp / (fp - fq) := by
    rw [← mul_sub, mul_div_mul_left _ _ (pow_ne_zero 2 hs)]
  ext <;> simp only [this] <;> ring


/-- a map of the plane under which the whole weight computation is equivariant: it preserves the
coordinate orders and multiplies cross products, bisector functionals and areas by `k > 0` -/
structure Sim (φ : Pt ℝ → Pt ℝ) (k : ℝ) : Prop where
  kpos : 0 < k
  lt1 : ∀ p q, (φ p).1 < (φ q).1 ↔ p.1 < q.1
  lt2 : ∀ p q, (φ p).2 < (φ q).2 ↔ p.2 < q.2
  crs : ∀ o a b, cross (φ o) (φ a) (φ b) = k * cross o a b
  bis : ∀ pi pj p, hpVal (bisector (φ pi) (φ pj)).1 (bisector (φ pi) (φ pj)).2.1 (bisector (φ pi) (φ pj)).2.2 (φ p)
          = k * hpVal (bisector pi pj).1 (bisector pi pj).2.1 (bisector pi pj).2.2 p
  inter : ∀ p q fp fq, interPt (φ p) (φ q) (k * fp) (k * fq) = φ (interPt p q fp fq)
  area : ∀ poly, shoelace (poly.map φ) = k * shoelace poly

theorem sim_translate (t : Pt ℝ) : Sim (trPt t) 1 where
  kpos := one_pos
  lt1 := fun p q => by simp [trPt]
  lt2 := fun p q => by simp [trPt]
  crs := fun o a b => by simp only [cross, trPt]; ring
  bis := fun pi pj p => by simp only [hpVal_real, bisector, trPt, ofNat_real, Nat.cast_ofNat]; ring
  inter := interPt_translate t
  area := fun poly => by rw [area_translate', one_mul]

theorem sim_scale (s : ℝ) (hs : 0 < s) : Sim (scPt s) (s ^ 2) where
  kpos := by positivity
  lt1 := fun p q => by simp only [scPt]; exact mul_lt_mul_iff_right₀ hs
  lt2 := fun p q => by simp only [scPt]; exact mul_lt_mul_iff_right₀ hs
  crs := fun o a b => by simp only [cross, scPt]; ring
  bis := fun pi pj p => by simp only [hpVal_real, bisector, scPt, ofNat_real, Nat.cast_ofNat]; ring
  inter := interPt_scale s hs.ne'
  area := area_scale' s

section
variable {φ : Pt ℝ → Pt ℝ} {k : ℝ} (S : Sim φ k)
include S

theorem Sim.mul_nonpos_iff (x : ℝ) : k * x ≤ 0 ↔ x ≤ 0 := by
  have hk := S.kpos
  constructor
  · intro h; by_contra hx; push Not at hx; nlinarith [mul_pos hk hx]
  · intro h; nlinarith

theorem Sim.mul_pos_iff (x : ℝ) : 0 < k * x ↔ 0 < x := by
  have hk := S.kpos
  constructor
  · intro h; by_contra hx; push Not at hx; nlinarith
  · intro h; exact mul_pos hk h

theorem Sim.clipBisector (pi pj : Pt ℝ) (poly : List (Pt ℝ)) :
    clipBisector (φ pi) (poly.map φ) (φ pj) = (clipBisector pi poly pj).map φ := by
  unfold HV.clipBisector
  exact clipHalfPlane_map φ _ _ _ _ _ _ k S.kpos (S.bis pi pj) S.inter poly

theorem Sim.cell (pi : Pt ℝ) (hull others : List (Pt ℝ)) :
    cell (hull.map φ) (φ pi) (others.map φ) = (cell hull pi others).map φ := by
  unfold HV.cell
  induction others generalizing hull with
  | nil => rfl
  | cons pj rest ih =>
    simp only [List.map_cons, List.foldl_cons]
    rw [S.clipBisector, ih]

theorem Sim.eqA1 (p q : Pt ℝ) : eqA (φ p).1 (φ q).1 = eqA p.1 q.1 := by
  unfold eqA
  rw [decide_eq_decide.mpr (S.lt1 p q), decide_eq_decide.mpr (S.lt1 q p)]

theorem Sim.eqA2 (p q : Pt ℝ) : eqA (φ p).2 (φ q).2 = eqA p.2 q.2 := by
  unfold eqA
  rw [decide_eq_decide.mpr (S.lt2 p q), decide_eq_decide.mpr (S.lt2 q p)]

theorem Sim.ptLt (p q : Pt ℝ) : ptLt (φ p) (φ q) = ptLt p q := by
  unfold HV.ptLt
  rw [S.eqA1, decide_eq_decide.mpr (S.lt1 p q), decide_eq_decide.mpr (S.lt2 p q)]

theorem Sim.ptEq (p q : Pt ℝ) : ptEq (φ p) (φ q) = ptEq p q := by
  unfold HV.ptEq
  rw [S.eqA1, S.eqA2]

theorem Sim.insertPt (p : Pt ℝ) (l : List (Pt ℝ)) : insertPt (φ p) (l.map φ) = (insertPt p l).map φ := by
  induction l with
  | nil => rfl
  | cons q qs ih =>
    simp only [List.map_cons, HV.insertPt, S.ptLt, S.ptEq, ih]
    split
    · rfl
    · split <;> rfl

theorem Sim.sortPts (l : List (Pt ℝ)) : sortPts (l.map φ) = (sortPts l).map φ := by
  unfold HV.sortPts
  induction l with
  | nil => rfl
  | cons p l ih => simp only [List.map_cons, List.foldr_cons, ih, S.insertPt]

theorem Sim.popWhile (p : Pt ℝ) (st : List (Pt ℝ)) : popWhile (φ p) (st.map φ) = (popWhile p st).map φ := by
  induction st with
  | nil => rfl
  | cons a st ih =>
    cases st with
    | nil => rfl
    | cons b rest =>
      simp only [List.map_cons, HV.popWhile, S.crs, ofNat_real, Nat.cast_zero] at ih ⊢
      by_cases h : cross b a p ≤ 0
      · rw [if_pos h, if_pos ((S.mul_nonpos_iff _).mpr h), ih]
      · rw [if_neg h, if_neg (fun h' => h ((S.mul_nonpos_iff _).mp h'))]
        rfl

theorem Sim.halfHull (l : List (Pt ℝ)) : halfHull (l.map φ) = (halfHull l).map φ := by
  unfold HV.halfHull
  suffices h : ∀ st : List (Pt ℝ), (l.map φ).foldl (fun st p => p :: HV.popWhile p st) (st.map φ)
      = (l.foldl (fun st p => p :: HV.popWhile p st) st).map φ from h []
  induction l with
  | nil => intro st; rfl
  | cons p l ih =>
    intro st
    simp only [List.map_cons, List.foldl_cons]
    rw [S.popWhile, ← List.map_cons, ih]

theorem Sim.convexHull (l : List (Pt ℝ)) : HV.convexHull (l.map φ) = (HV.convexHull l).map φ := by
  unfold HV.convexHull
  simp only [S.sortPts, ← List.map_reverse, S.halfHull, ← List.map_tail, List.map_append]

theorem Sim.insideStrict (hull : List (Pt ℝ)) (p : Pt ℝ) :
    insideStrict (hull.map φ) (φ p) = insideStrict hull p := by
  unfold HV.insideStrict
  rw [edges_map, List.all_map]
  congr 1
  funext e
  simp only [Function.comp, S.crs, ofNat_real, Nat.cast_zero]
  exact decide_eq_decide.mpr (S.mul_pos_iff _)

theorem Sim.cull (hull coords : List (Pt ℝ)) :
    cull (hull.map φ) (coords.map φ) = (cull hull coords).map (fun x => (φ x.1, x.2)) := by
  unfold HV.cull
  rw [List.zipIdx_map, List.filter_map]
  congr 1
  apply List.filter_congr
  intro x _
  simp only [Function.comp, Prod.map, id, S.insideStrict]

omit S in
theorem eraseIdx_map' {β γ : Type} (f : β → γ) (l : List β) (n : ℕ) :
    (l.map f).eraseIdx n = (l.eraseIdx n).map f := by
  induction l generalizing n with
  | nil => rfl
  | cons a l ih =>
    cases n with
    | zero => rfl
    | succ n => simp only [List.map_cons, List.eraseIdx_cons_succ, ih]

theorem Sim.boundedCells (hull pts : List (Pt ℝ)) :
    boundedCells (hull.map φ) (pts.map φ) = (boundedCells hull pts).map (fun c => c.map φ) := by
  unfold HV.boundedCells
  rw [List.zipIdx_map, List.map_map, List.map_map]
  apply List.map_congr_left
  intro x _
  simp only [Function.comp, Prod.map, id]
  rw [eraseIdx_map', S.cell]

/-- indices and weights returned by the model are invariant under `φ` -/
theorem Sim.voronoiWeights (coords boundary : List (Pt ℝ)) :
    (voronoiWeights (coords.map φ) (boundary.map φ)).map (fun o => (o.indices, o.weights)) =
    (voronoiWeights coords boundary).map (fun o => (o.indices, o.weights)) := by
  unfold HV.voronoiWeights
  simp only [S.convexHull, S.area, S.cull, List.length_map, List.map_map]
  have ep : (List.map ((fun x : Pt ℝ × ℕ => x.1) ∘ fun x => (φ x.1, x.2)) (HV.cull (HV.convexHull boundary) coords))
      = (List.map (fun x : Pt ℝ × ℕ => x.1) (HV.cull (HV.convexHull boundary) coords)).map φ := by
    rw [List.map_map]; rfl
  have ei : (List.map ((fun x : Pt ℝ × ℕ => x.2) ∘ fun x => (φ x.1, x.2)) (HV.cull (HV.convexHull boundary) coords))
      = List.map (fun x : Pt ℝ × ℕ => x.2) (HV.cull (HV.convexHull boundary) coords) := rfl
  rw [ep, ei, S.boundedCells]
  have hk := S.kpos
  have e0 : eqA (k * shoelace (HV.convexHull boundary)) (Arith.ofNat 0) =
      eqA (shoelace (HV.convexHull boundary)) (Arith.ofNat 0) := by
    rw [Bool.eq_iff_iff, eqA_real, eqA_real]
    simp only [ofNat_real, Nat.cast_zero, mul_eq_zero, hk.ne', false_or]
  rw [e0]
  split
  · rfl
  · split
    · rfl
    · simp only [Except.map, List.map_map]
      congr 2
      apply List.map_congr_left
      intro c _
      simp only [Function.comp, S.area]
      rw [mul_div_mul_left _ _ hk.ne']

end


/-! ## bookkeeping of `voronoiWeights` -/


theorem voronoiWeights_ok {coords boundary : List (Pt ℝ)} {o : VoronoiOut ℝ}
    (h : voronoiWeights coords boundary = .ok o) :
    o.hull = convexHull boundary ∧
    o.indices = (cull (convexHull boundary) coords).map (fun x => x.2) ∧
    o.cells = boundedCells (convexHull boundary) ((cull (convexHull boundary) coords).map (fun x => x.1)) ∧
    o.weights = o.cells.map (fun c => shoelace c / shoelace (convexHull boundary)) ∧
    3 ≤ (cull (convexHull boundary) coords).length ∧ shoelace (convexHull boundary) ≠ 0 := by
  unfold voronoiWeights at h
  simp only at h
  split at h
  · cases h
  · rename_i h1
    split at h
    · cases h
    · rename_i h2
      injection h with h
      subst h
      refine ⟨rfl, rfl, rfl, rfl, by omega, ?_⟩
      simp only [Bool.or_eq_true, not_or, Bool.not_eq_true] at h1
      intro h0
      have := h1.2
      rw [Bool.eq_false_iff] at this
      apply this
      rw [eqA_real, h0]; simp

theorem insideStrict_iff (hull : List (Pt ℝ)) (p : Pt ℝ) :
    insideStrict hull p = true ↔ ∀ e ∈ edges hull, 0 < cross e.1 e.2 p := by
  unfold insideStrict
  simp only [List.all_eq_true, decide_eq_true_eq, ofNat_real, Nat.cast_zero]

theorem mem_cull_iff (hull coords : List (Pt ℝ)) (p : Pt ℝ) (i : ℕ) :
    (p, i) ∈ cull hull coords ↔ coords[i]? = some p ∧ insideStrict hull p = true := by
  unfold cull
  rw [List.mem_filter, List.mk_mem_zipIdx_iff_getElem?]

theorem cull_indices_sorted (hull coords : List (Pt ℝ)) :
    ((cull hull coords).map (fun x => x.2)).Pairwise (· < ·) := by
  unfold cull
  have hsub : ((coords.zipIdx.filter (fun pi => insideStrict hull pi.1)).map (fun x => x.2)).Sublist
      (coords.zipIdx.map (fun x => x.2)) := (List.filter_sublist).map _
  refine List.Pairwise.sublist hsub ?_
  have : coords.zipIdx.map (fun x => x.2) = List.range' 0 coords.length := by
    exact List.zipIdx_map_snd 0 coords
  rw [this]
  exact List.pairwise_lt_range'


theorem boundedCells_getElem? (hull pts : List (Pt ℝ)) (k : ℕ) :
    (boundedCells hull pts)[k]? = (pts[k]?).map (fun p => cell hull p (pts.eraseIdx k)) := by
  unfold boundedCells
  rw [List.getElem?_map, List.getElem?_zipIdx]
  cases pts[k]? <;> simp

end HV
