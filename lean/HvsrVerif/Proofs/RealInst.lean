import HvsrVerif.Scalar
import Mathlib.Analysis.SpecialFunctions.Log.Basic
import Mathlib.Analysis.SpecialFunctions.Trigonometric.Basic
import Mathlib.Analysis.SpecialFunctions.Sqrt
import Mathlib.Algebra.Order.Floor.Ring
/-!
# The `ℝ` instance of the scalar classes and the simp lemmas that expose it
-/
noncomputable section

instance : Arith ℝ where
  ofNat := fun n => (n : ℝ)
  ofSci := fun m s e => if s then (m : ℝ) / 10 ^ e else (m : ℝ) * 10 ^ e
  floor := fun x => ⌊x⌋
  decLt := fun _ _ => Classical.propDecidable _
  decLe := fun _ _ => Classical.propDecidable _

instance : Transc ℝ where
  sqrt := Real.sqrt
  log := Real.log
  exp := Real.exp
  sin := Real.sin
  cos := Real.cos
  pi := Real.pi

end

namespace HV
open Classical

/- The lemmas below are deliberately *not* `rfl`-lemmas (`id rfl`): simp then rewrites with
   congruence and keeps `Decidable` instances of rewritten propositions in step. -/

@[simp] theorem ofNat_real (n : Nat) : (Arith.ofNat n : ℝ) = (n : ℝ) := id rfl
@[simp] theorem ofSci_real_neg (m e : Nat) : (Arith.ofSci m true e : ℝ) = (m : ℝ) / 10 ^ e := id rfl
@[simp] theorem ofSci_real_pos (m e : Nat) : (Arith.ofSci m false e : ℝ) = (m : ℝ) * 10 ^ e := id rfl
@[simp] theorem lit_real (p : Nat × Nat) : (lit p : ℝ) = (p.1 : ℝ) / 10 ^ p.2 := id rfl
@[simp] theorem floor_real (x : ℝ) : Arith.floor x = ⌊x⌋ := id rfl
@[simp] theorem sqrt_real (x : ℝ) : Transc.sqrt x = Real.sqrt x := id rfl
@[simp] theorem log_real (x : ℝ) : Transc.log x = Real.log x := id rfl
@[simp] theorem exp_real (x : ℝ) : Transc.exp x = Real.exp x := id rfl
@[simp] theorem sin_real (x : ℝ) : Transc.sin x = Real.sin x := id rfl
@[simp] theorem cos_real (x : ℝ) : Transc.cos x = Real.cos x := id rfl
@[simp] theorem pi_real : (Transc.pi : ℝ) = Real.pi := id rfl

theorem absA_real (x : ℝ) : absA x = |x| := by
  unfold absA
  simp only [ofNat_real, Nat.cast_zero]
  split
  · rename_i h; exact (abs_of_neg h).symm
  · rename_i h; exact (abs_of_nonneg (not_lt.mp h)).symm

theorem maxA_real (a b : ℝ) : maxA a b = max a b := by
  unfold maxA
  split
  · rename_i h; exact (max_eq_right h.le).symm
  · rename_i h; exact (max_eq_left (not_lt.mp h)).symm

theorem minA_real (a b : ℝ) : minA a b = min a b := by
  unfold minA
  split
  · rename_i h; exact (min_eq_right h.le).symm
  · rename_i h; exact (min_eq_left (not_lt.mp h)).symm

theorem eqA_real (a b : ℝ) : eqA a b = true ↔ a = b := by
  unfold eqA
  simp only [Bool.and_eq_true, Bool.not_eq_eq_eq_not, Bool.not_true, decide_eq_false_iff_not, not_lt]
  constructor
  · rintro ⟨h1, h2⟩; exact le_antisymm h2 h1
  · rintro rfl; exact ⟨le_refl _, le_refl _⟩

end HV
