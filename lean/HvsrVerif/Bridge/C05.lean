import HvsrVerif.Generated.Tables
import HvsrVerif.Model.Stats
/-! Bridge C05: `DISTRIBUTION_MAP` of constants.py (sorted by key) is the model's alias table -/
namespace HV.Bridge
theorem distribution_map :
    Generated.distributionMap = none ∨ Generated.distributionMap = some HV.distributionMap := by decide
end HV.Bridge
