import HvsrVerif.Generated.PyCombine
import HvsrVerif.Bridge.PyCommon
/-! Bridge: the functions of `COMBINE_HORIZONTAL_REGISTER` translated from processing.py = `Combine.apply` (see `Bridge/PyCommon.lean`) -/
set_option linter.unusedSimpArgs false
set_option linter.unusedTactic false
set_option linter.unreachableTactic false
namespace HV.Bridge
open HV HV.Generated Classical

theorem py_arithmetic_mean : Py.arithmetic_mean.ok = false ∨
    ∀ ns ew : ℝ, Py.arithmetic_mean ns ew = Combine.apply .arithmeticMean ns ew := by
  bridge_cases
    intro ns ew
    simp only [Py.arithmetic_mean, Combine.apply]
    py_arith

theorem py_squared_average : Py.squared_average.ok = false ∨
    ∀ ns ew : ℝ, Py.squared_average ns ew = Combine.apply .squaredAverage ns ew := by
  bridge_cases
    intro ns ew
    simp only [Py.squared_average, Combine.apply]
    py_arith

theorem py_geometric_mean : Py.geometric_mean.ok = false ∨
    ∀ ns ew : ℝ, Py.geometric_mean ns ew = Combine.apply .geometricMean ns ew := by
  bridge_cases
    intro ns ew
    simp only [Py.geometric_mean, Combine.apply]
    py_arith

theorem py_total_horizontal_energy : Py.total_horizontal_energy.ok = false ∨
    ∀ ns ew : ℝ, Py.total_horizontal_energy ns ew = Combine.apply .totalHorizontalEnergy ns ew := by
  bridge_cases
    intro ns ew
    simp only [Py.total_horizontal_energy, Combine.apply]
    py_arith

theorem py_maximum_horizontal_value : Py.maximum_horizontal_value.ok = false ∨
    ∀ ns ew : ℝ, Py.maximum_horizontal_value ns ew = Combine.apply .maximumHorizontalValue ns ew := by
  bridge_cases
    intro ns ew
    simp only [Py.maximum_horizontal_value, Combine.apply, pyMaximum]
    try (split_ifs <;> first | rfl | (exfalso; linarith) | linarith)

end HV.Bridge
