import HvsrVerif.Generated.PySpatial
import HvsrVerif.Bridge.PyCommon
import HvsrVerif.Model.Spatial
/-! Bridge: the two distribution conversions of `montecarlo_fn` translated from hvsr_spatial.py = the model's `mcPre` and
the back-transformation of `montecarlo` (see `Bridge/PyCommon.lean`). -/
set_option linter.unusedSimpArgs false
set_option linter.unusedTactic false
set_option linter.unreachableTactic false
namespace HV.Bridge
open HV HV.Generated Classical

/-- the two names `montecarlo_fn` accepts -/
def spDistName : SpDist → String
  | .normal => "normal"
  | .lognormal => "lognormal"

/-- draws → space of the spatial statistics: `exp` for lognormal generators with normal statistics, `log` for normal
generators with lognormal statistics, unchanged otherwise -/
theorem py_mc_to_spatial : Py.mc_to_spatial.ok = false ∨
    ∀ (g s : SpDist) (x : ℝ), Py.mc_to_spatial (spDistName g) (spDistName s) x = mcPre g s x := by
  bridge_cases
    intro g s x
    cases g <;> cases s <;> simp [Py.mc_to_spatial, spDistName, mcPre]

/-- results back: for lognormal statistics the mean and the realisations are exponentiated, the deviation is returned as is -/
theorem py_mc_from_spatial : Py.mc_from_spatial.ok = false ∨
    ∀ (s : SpDist) (m sd x : ℝ),
      Py.mc_from_spatial (spDistName s) m sd x =
        match s with
        | .lognormal => (Real.exp m, sd, Real.exp x)
        | .normal => (m, sd, x) := by
  bridge_cases
    intro s m sd x
    cases s <;> simp [Py.mc_from_spatial, spDistName]

end HV.Bridge
