import HvsrVerif.Generated.PyStats
import HvsrVerif.Bridge.PyCommon
import HvsrVerif.Model.Stats
/-! Bridge: distribution transforms and `_nth_std_factory` translated from statistics.py = `Dist.pre`/`Dist.postMean`/`nthStd` (see `Bridge/PyCommon.lean`) -/
set_option linter.unusedSimpArgs false
set_option linter.unusedTactic false
set_option linter.unreachableTactic false
namespace HV.Bridge
open HV HV.Generated Classical

/-! ## C05 / C11: distribution transforms and the n-th standard deviation -/

theorem py_pre_mean : (Py.pre_normal_mean.ok && Py.pre_lognormal_mean.ok && Py.pre_normal_std.ok && Py.pre_lognormal_std.ok) = false ∨
    ∀ x : ℝ, Py.pre_normal_mean x = Dist.pre .normal x ∧ Py.pre_lognormal_mean x = Dist.pre .lognormal x ∧
             Py.pre_normal_std x = Dist.pre .normal x ∧ Py.pre_lognormal_std x = Dist.pre .lognormal x := by
  bridge_cases
    intro x
    simp only [Py.pre_normal_mean, Py.pre_lognormal_mean, Py.pre_normal_std, Py.pre_lognormal_std, Dist.pre, log_real, and_self]

/-- the post-processing of the mean is `exp` for lognormal, the identity otherwise; the standard deviation is returned
as computed (log-standard deviation for lognormal) -/
theorem py_post : (Py.post_normal_mean.ok && Py.post_lognormal_mean.ok && Py.post_normal_std.ok && Py.post_lognormal_std.ok) = false ∨
    ∀ x : ℝ, Py.post_normal_mean x = Dist.postMean .normal x ∧ Py.post_lognormal_mean x = Dist.postMean .lognormal x ∧
             Py.post_normal_std x = x ∧ Py.post_lognormal_std x = x := by
  bridge_cases
    intro x
    simp only [Py.post_normal_mean, Py.post_lognormal_mean, Py.post_normal_std, Py.post_lognormal_std, Dist.postMean, exp_real, and_self]

theorem lookup_mem_values {k c : String} : ∀ {l : List (String × String)}, List.lookup k l = some c → c ∈ l.map Prod.snd
  | [], h => by simp at h
  | (a, b) :: l, h => by
    rw [List.lookup_cons] at h
    split at h
    · simp only [Option.some.injEq] at h; simp [h]
    · simpa using Or.inr (lookup_mem_values h)

/-- `_nth_std_factory` with the alias table of constants.py: for every name that the table maps to a distribution the
result is the model's `nthStd`; any other name raises -/
theorem py_nth_std_factory : Py.nth_std_factory.ok = false ∨
    ∀ (n mean std : ℝ) (name : String),
      Py.nth_std_factory distributionMap n name mean std = (Dist.ofString name).map (fun d => nthStd n d mean std) := by
  bridge_cases
    intro n mean std name
    unfold Py.nth_std_factory Dist.ofString
    cases h : List.lookup name distributionMap with
    | none => simp
    | some c =>
      have hc : c = "lognormal" ∨ c = "normal" := by
        have := lookup_mem_values h
        simpa [distributionMap] using this
      rcases hc with rfl | rfl <;> simp [nthStd]

end HV.Bridge
