import HvsrVerif.Generated.PyWindows
import HvsrVerif.Bridge.PyCommon
import HvsrVerif.Model.Smoothing
/-! Bridge: the window kernels translated from the loop bodies of smoothing.py = the model's weight functions (see `Bridge/PyCommon.lean`) -/
set_option linter.unusedSimpArgs false
set_option linter.unusedTactic false
set_option linter.unreachableTactic false
namespace HV.Bridge
open HV HV.Generated Classical

/-! ## C02: the kernels of the six window operators (inner loop body of each numba kernel; `none` = `continue`) -/

theorem py_pow10 (x : ℝ) : pyPow (10 : ℝ) x = pow10A x := by
  simp [pyPow, pow10A]
theorem py_log10 (x : ℝ) : pyLog10 x = log10A x := rfl
theorem guard_real : (guard : ℝ) = 1 / 10 ^ 6 := by simp [guard, smoothConsts]

/-- tactic for the window bridges: expose both sides over `ℝ`, split the guards, close each leaf -/
macro "window_bridge" defs:Lean.Parser.Tactic.simpLemma,* : tactic =>
  `(tactic| (
    simp only [$defs,*, guard_real, smoothConsts, py_log10, lit_real, ofNat_real, sqrt_real, sin_real, pi_real, absA_real,
      sinc4, parzenA, neg_div, Nat.cast_ofNat, Nat.cast_one, Nat.cast_zero]
    try norm_num [py_pow10, neg_div]
    try (split_ifs <;> first | rfl | (exfalso; tauto) | (simp only [Option.some.injEq]; ring_nf) | (simp; ring_nf))))

theorem py_konno_and_ohmachi_window : Py.konno_and_ohmachi_window.ok = false ∨
    ∀ bw f fc : ℝ, Py.konno_and_ohmachi_window bw f fc = koWeight bw f fc := by
  bridge_cases
    intro bw f fc
    window_bridge Py.konno_and_ohmachi_window, koWeight

theorem py_parzen_window : Py.parzen_window.ok = false ∨
    ∀ bw f fc : ℝ, Py.parzen_window bw f fc = parzenWeight bw f fc := by
  bridge_cases
    intro bw f fc
    window_bridge Py.parzen_window, parzenWeight

theorem py_linear_rectangular_window : Py.linear_rectangular_window.ok = false ∨
    ∀ bw f fc : ℝ, Py.linear_rectangular_window bw f fc = linRectWeight bw f fc := by
  bridge_cases
    intro bw f fc
    window_bridge Py.linear_rectangular_window, linRectWeight

theorem py_linear_triangular_window : Py.linear_triangular_window.ok = false ∨
    ∀ bw f fc : ℝ, Py.linear_triangular_window bw f fc = linTriWeight bw f fc := by
  bridge_cases
    intro bw f fc
    window_bridge Py.linear_triangular_window, linTriWeight

theorem py_log_rectangular_window : Py.log_rectangular_window.ok = false ∨
    ∀ bw f fc : ℝ, Py.log_rectangular_window bw f fc = logRectWeight bw f fc := by
  bridge_cases
    intro bw f fc
    window_bridge Py.log_rectangular_window, logRectWeight

theorem py_log_triangular_window : Py.log_triangular_window.ok = false ∨
    ∀ bw f fc : ℝ, Py.log_triangular_window bw f fc = logTriWeight bw f fc := by
  bridge_cases
    intro bw f fc
    window_bridge Py.log_triangular_window, logTriWeight

end HV.Bridge
