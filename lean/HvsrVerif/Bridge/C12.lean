import HvsrVerif.Generated.Tables
/-! Bridge C12: the azimuth label written to the header and the regular expression the reader uses to find it (two groups since the
repair of C12-d: the azimuth and the curve number, which `Model/ObjectIO.lean::groupNumbered` consumes). -/
namespace HV.Bridge
theorem azimuth_label_format :
    Generated.azimuthLabelFormat = none ∨ Generated.azimuthLabelFormat = some "azimuth {azimuth} deg | hvsr curve {curve_idx}" := by decide
theorem azimuth_regex :
    Generated.azimuthRegex = none ∨
    Generated.azimuthRegex = some "azimuth (\\d+\\.?\\d*(?:[eE][-+]?\\d+)?) deg \\| hvsr curve (\\d+)" := by decide
end HV.Bridge
