import HvsrVerif.Generated.Tables
import HvsrVerif.Model.Readers
/-!
# Bridge C07: the tables of the reader model are the tables of `hvsrpy/data_wrangler.py` / `regex.py`

`Generated.Tables` is rewritten from the working tree on every run. `none` means the extractor did not
recognise the source any more (no alarm; correspondence only).
-/
namespace HV.Bridge

/-- `READ_FUNCTION_DICT`: keys, reader functions and — the point — their order -/
theorem read_dispatch_table :
    Generated.readDispatch = none ∨ Generated.readDispatch = some HV.Rd.dispatchTable := by decide

/-- the reader whose exception `read_single` re-raises is the last one tried -/
theorem read_reraise :
    Generated.readReraise = none ∨ Generated.readReraise = some HV.Rd.reraiseName := by decide

theorem reraise_is_last : HV.Rd.dispatchOrder.getLast? = some HV.Rd.reraiseName := by decide

/-- constants of the NORTH_ROT rule, the PEER azimuth folding and the modulo-360 normalisation -/
theorem reader_consts :
    Generated.readerConsts = none ∨ Generated.readerConsts = some HV.Rd.readerConsts.toList := by decide

/-- source strings (and flags) of the SAF / MiniShark / PEER regular expressions -/
theorem reader_regex :
    Generated.readerRegex = none ∨ Generated.readerRegex = some HV.Rd.regexSources := by decide

end HV.Bridge
