import HvsrVerif.Generated.PyObjectIO
import HvsrVerif.Bridge.PyCommon
import HvsrVerif.Model.ObjectIO
/-! Bridge: the statement of the azimuthal reader that decides where a new azimuth block starts, translated from the loop of
`object_io.read_hvsr_object_from_file` on every run, = the criterion of the model's `groupNumbered` (repair of C12-d):
a column starts a new block iff its azimuth label differs from the previous column's or its curve number is one (and it is not the
first column). -/
set_option linter.unusedSimpArgs false
set_option linter.unusedTactic false
set_option linter.unreachableTactic false
namespace HV.Bridge
open HV HV.Generated Classical

/-- what the loop body does with `start_idx` and `prev_azimuth` for the column `idx` (label `cur`, curve number `k`) -/
theorem py_reader_block_start : Py.reader_block_start.ok = false ∨
    ∀ (cur prev : String) (k idx start : Int),
      Py.reader_block_start (α := ℝ) cur prev k idx start =
        if cur ≠ prev ∨ (k = 1 ∧ 1 < idx) then (idx, cur) else (start, prev) := by
  bridge_cases
    intro cur prev k idx start
    simp only [Py.reader_block_start]
    split_ifs <;> simp_all

/-- for every column after the first, a new block starts exactly where the model's `groupNumbered` does NOT merge the column into the
block of its left neighbour (`a = b ∧ j ≠ 1` is the merge condition there) -/
theorem py_reader_block_start_is_groupNumbered : Py.reader_block_start.ok = false ∨
    ∀ (cur prev : String) (k idx start : Int), 1 < idx →
      ((Py.reader_block_start (α := ℝ) cur prev k idx start = (idx, cur)) ↔ (¬ (prev = cur ∧ k ≠ 1) ∨ (start = idx ∧ prev = cur))) := by
  rcases py_reader_block_start with h | h
  · exact Or.inl h
  · right
    intro cur prev k idx start hidx
    rw [h]
    by_cases h1 : cur = prev <;> by_cases h2 : k = 1 <;> simp_all [eq_comm]
    all_goals (try omega)

end HV.Bridge
