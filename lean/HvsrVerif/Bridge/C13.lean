import HvsrVerif.Generated.Tables
/-! Bridge C13: comparison operators of the two time-domain criteria (codes: 0 `<`, 1 `<=`, 2 `>`, 3 `>=`):
reject when `max ratio > max_limit or min ratio < min_limit`; keep when `maximum < threshold`. -/
namespace HV.Bridge
theorem stalta_ops : Generated.staLtaOps = none ∨ Generated.staLtaOps = some (2, 0) := by decide
theorem maxvalue_op : Generated.maxValueOp = none ∨ Generated.maxValueOp = some 0 := by decide
end HV.Bridge
