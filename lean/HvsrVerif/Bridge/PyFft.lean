import HvsrVerif.Generated.PyFft
import HvsrVerif.Bridge.PyCommon
import HvsrVerif.Model.Process
import HvsrVerif.Model.Cli
import Mathlib.Tactic.Ring
import Mathlib.Tactic.Linarith
/-! Bridge (C01, C09, C19): the FFT-length rule translated from `processing.py` on every run.

* `nextpow2`: the `while True` loop becomes `Py.nextpow2.loop`, a recursion on fuel that returns `none` when the fuel runs out. `py_nextpow2_loop`
  proves that the loop TERMINATES (fuel `k + 1` suffices as soon as `n < p·2^k`) and returns the value of the model's loop; `py_nextpow2` that with fuel
  `n + 2` or more the translated function returns `HV.nextpow2 n min` (the model of `Props/C01.lean`), `py_nextpow2_cli` the same for the model of `Props/C19.lean`.
* `prepare_fft_settings`: what is stored back into `settings.fft_settings` as a function of its previous value equals `prepareFft` of both models. -/
set_option linter.unusedSimpArgs false
set_option linter.unusedTactic false
set_option linter.unreachableTactic false
set_option linter.unusedVariables false
namespace HV.Bridge
open HV HV.Generated

/-- termination and value of the translated loop: with `n < p·2^k`, fuel `k+1` reaches the `return`, and the value is the model's -/
theorem py_nextpow2_loop : Py.nextpow2.ok = false ∨
    ∀ (k n p m : ℕ), n < p * 2 ^ k →
      Py.nextpow2.loop (α := ℝ) (n : ℤ) (m : ℤ) (k + 1) (p : ℤ) = some ((nextpow2Aux k p n : ℕ) : ℤ) := by
  bridge_cases
    intro k
    induction k with
    | zero =>
      intro n p m h
      have h' : ((n : ℤ) < (p : ℤ)) := by exact_mod_cast (by simpa using h)
      simp [Py.nextpow2.loop, nextpow2Aux, h']
    | succ k ih =>
      intro n p m h
      unfold Py.nextpow2.loop nextpow2Aux
      by_cases hp : n < p
      · have h' : ((n : ℤ) < (p : ℤ)) := by exact_mod_cast hp
        simp [hp, h']
      · have h' : ¬ ((n : ℤ) < (p : ℤ)) := by exact_mod_cast hp
        simp only [hp, h', if_false]
        have h2 : n < (2 * p) * 2 ^ k := by rw [pow_succ] at h; linarith [h, Nat.mul_comm p 2, Nat.mul_assoc p (2 ^ k) 2, Nat.mul_assoc 2 p (2 ^ k), Nat.mul_comm 2 (p * 2 ^ k)]
        have e : ((p : ℤ) * (2 : ℤ)) = ((2 * p : ℕ) : ℤ) := by push_cast; ring
        rw [e]
        exact ih n (2 * p) m h2

/-- more fuel does not change a result that was reached -/
theorem py_nextpow2_fuel_mono : Py.nextpow2.ok = false ∨
    ∀ (f : ℕ) (n m p r : ℤ), Py.nextpow2.loop (α := ℝ) n m f p = some r → Py.nextpow2.loop (α := ℝ) n m (f + 1) p = some r := by
  bridge_cases
    intro f
    induction f with
    | zero => intro n m p r h; simp [Py.nextpow2.loop] at h
    | succ f ih =>
      intro n m p r h
      unfold Py.nextpow2.loop at h ⊢
      by_cases hp : n < p
      · simpa [hp] using h
      · simp only [hp, if_false] at h ⊢
        exact ih n m _ r h

theorem py_nextpow2_fuel_ge : Py.nextpow2.ok = false ∨
    ∀ (f g : ℕ) (n m p r : ℤ), f ≤ g → Py.nextpow2.loop (α := ℝ) n m f p = some r → Py.nextpow2.loop (α := ℝ) n m g p = some r := by
  rcases py_nextpow2_fuel_mono with h | h
  · exact Or.inl h
  · right
    intro f g n m p r hfg hr
    induction g, hfg using Nat.le_induction with
    | base => exact hr
    | succ g _ ih => exact h g n m p r ih

theorem lt_mul_two_pow (n min : ℕ) (hmin : 1 ≤ min) : n < min * 2 ^ (n + 1) := by
  have h1 : n < 2 ^ n := Nat.lt_two_pow_self
  have h2 : 2 ^ n ≤ 2 ^ (n + 1) := Nat.pow_le_pow_right (by norm_num) (Nat.le_succ n)
  calc n < 2 ^ (n + 1) := lt_of_lt_of_le h1 h2
    _ = 1 * 2 ^ (n + 1) := (Nat.one_mul _).symm
    _ ≤ min * 2 ^ (n + 1) := Nat.mul_le_mul_right _ hmin

/-- **`nextpow2` as translated terminates and equals the model** (`HV.nextpow2`, `Props/C01.lean::nextpow2_spec`): any fuel of at least `n + 2` iterations -/
theorem py_nextpow2 : Py.nextpow2.ok = false ∨
    ∀ (n min fuel : ℕ), 1 ≤ min → n + 2 ≤ fuel →
      Py.nextpow2 (α := ℝ) fuel (n : ℤ) (min : ℤ) = some ((HV.nextpow2 n min : ℕ) : ℤ) := by
  rcases py_nextpow2_loop with h | h
  · exact Or.inl h
  rcases py_nextpow2_fuel_ge with g | g
  · exact Or.inl g
  right
  intro n min fuel hmin hf
  unfold Py.nextpow2 HV.nextpow2
  exact g (n + 1 + 1) fuel _ _ _ _ hf (h (n + 1) n min min (lt_mul_two_pow n min hmin))

/-- the model's two loops (fuel in `Model/Process.lean`, well-founded in `Model/Cli.lean`) compute the same number -/
theorem nextpow2Aux_eq_loop (k n p : ℕ) (hp : 0 < p) (h : n < p * 2 ^ k) : nextpow2Aux k p n = Cli.nextpow2Loop n p hp := by
  induction k generalizing p with
  | zero =>
    have : n < p := by simpa using h
    rw [Cli.nextpow2Loop]; simp [nextpow2Aux, this]
  | succ k ih =>
    rw [Cli.nextpow2Loop]; unfold nextpow2Aux
    by_cases hlt : n < p
    · simp [hlt]
    · have hgt : ¬ p > n := hlt
      simp only [hlt, hgt, if_false]
      have h2 : n < (2 * p) * 2 ^ k := by rw [pow_succ] at h; linarith [h, Nat.mul_comm p 2, Nat.mul_assoc p (2 ^ k) 2, Nat.mul_assoc 2 p (2 ^ k), Nat.mul_comm 2 (p * 2 ^ k)]
      have := ih (2 * p) (by omega) h2
      rw [this]
      congr 1
      omega

theorem py_nextpow2_cli : Py.nextpow2.ok = false ∨
    ∀ (n min fuel : ℕ) (hmin : 0 < min), n + 2 ≤ fuel →
      Py.nextpow2 (α := ℝ) fuel (n : ℤ) (min : ℤ) = some ((Cli.nextpow2 n min hmin : ℕ) : ℤ) := by
  rcases py_nextpow2 with h | h
  · exact Or.inl h
  right
  intro n min fuel hmin hf
  rw [h n min fuel hmin hf]
  unfold HV.nextpow2 Cli.nextpow2
  rw [nextpow2Aux_eq_loop (n + 1) n min hmin (lt_mul_two_pow n min hmin)]

/-! ### `prepare_fft_settings` -/

/-- `settings.fft_settings` of the C19 model as the translated value: `None`, `{}` (no key `n`), `{"n": None}`, `{"n": k}` -/
def encFftCli : Cli.FftState → Option (Option (Option Int))
  | .unset => none
  | .noKey => some none
  | .nNone => some (some none)
  | .n k => some (some (some (k : ℤ)))

/-- the three states of the C01 model (a dict without the key is not distinguished there) -/
def encFft : HV.FftState → Option (Option (Option Int))
  | .unset => none
  | .nNone => some (some none)
  | .n k => some (some (some (k : ℤ)))

/-- **what `prepare_fft_settings` stores is `prepareFft`** (model of `Props/C19.lean`), for every previous state and every record length -/
theorem py_prepare_fft_store_cli : Py.prepare_fft_store.ok = false ∨
    ∀ (s : Cli.FftState) (maxN : ℕ),
      Py.prepare_fft_store (α := ℝ) ((Cli.goodN maxN : ℕ) : ℤ) (maxN : ℤ) (encFftCli s) = encFftCli (Cli.prepareFft s maxN) := by
  bridge_cases
    intro s maxN
    cases s with
    | unset => simp [Py.prepare_fft_store, encFftCli, Cli.prepareFft]
    | noKey =>
      simp only [Py.prepare_fft_store, encFftCli, Cli.prepareFft]
      by_cases h : Cli.goodN maxN > maxN
      · have h' : ((maxN : ℤ) < (Cli.goodN maxN : ℤ)) := by exact_mod_cast h
        simp [h, h']
      · have h' : ¬ ((maxN : ℤ) < (Cli.goodN maxN : ℤ)) := by exact_mod_cast h
        simp [h, h']
    | nNone => simp [Py.prepare_fft_store, encFftCli, Cli.prepareFft]
    | n k =>
      simp only [Py.prepare_fft_store, encFftCli, Cli.prepareFft]
      by_cases h : Cli.goodN maxN > k
      · have h' : ((k : ℤ) < (Cli.goodN maxN : ℤ)) := by exact_mod_cast h
        simp [h, h']
      · have h' : ¬ ((k : ℤ) < (Cli.goodN maxN : ℤ)) := by exact_mod_cast h
        simp [h, h']

/-- the same for the model of `Props/C01.lean` / `Props/C09.lean` -/
theorem py_prepare_fft_store : Py.prepare_fft_store.ok = false ∨
    ∀ (s : HV.FftState) (maxN : ℕ),
      Py.prepare_fft_store (α := ℝ) ((HV.nextpow2 maxN : ℕ) : ℤ) (maxN : ℤ) (encFft s) = encFft (HV.prepareFft s maxN) := by
  bridge_cases
    intro s maxN
    cases s with
    | unset => simp [Py.prepare_fft_store, encFft, HV.prepareFft]
    | nNone => simp [Py.prepare_fft_store, encFft, HV.prepareFft]
    | n k =>
      simp only [Py.prepare_fft_store, encFft, HV.prepareFft]
      by_cases h : k < HV.nextpow2 maxN
      · have h' : ((k : ℤ) < (HV.nextpow2 maxN : ℤ)) := by exact_mod_cast h
        simp [h, h']
      · have h' : ¬ ((k : ℤ) < (HV.nextpow2 maxN : ℤ)) := by exact_mod_cast h
        simp [h, h']

end HV.Bridge
