import HvsrVerif.Generated.PyTrim
import HvsrVerif.Bridge.PyCommon
import HvsrVerif.Model.Split
/-! Bridge: the refusals and the index selection of `TimeSeries.trim` translated from timeseries.py = the model's `trimIdx`
(the function `Props/C18.lean::trim_nearest`, `trim_refuses` are about). `np.argmin(np.absolute(current_time - t))` and `current_time[-1]`
are inputs of the translation (numpy's `argmin` is modelled by `argminAbs`: first index of the minimum). -/
set_option linter.unusedSimpArgs false
set_option linter.unusedTactic false
set_option linter.unreachableTactic false
namespace HV.Bridge
open HV HV.Generated HV.Split Classical

/-- the translated guards: refused exactly when the start is negative, the end is not after the start, or the end is after the last sample;
otherwise the two given nearest-sample indices, unchanged (the slice is `[start_index : end_index + 1]`) -/
theorem py_trim_indices : Py.trim_indices.ok = false ∨
    ∀ (t0 t1 tlast : ℝ) (s e : ℤ),
      Py.trim_indices t0 t1 tlast s e = if t0 < 0 ∨ t1 ≤ t0 ∨ tlast < t1 then none else some (s, e) := by
  bridge_cases
    intro t0 t1 tlast s e
    simp only [Py.trim_indices, ofNat_real, Nat.cast_zero]
    by_cases h0 : t0 < 0 <;> by_cases h1 : t1 ≤ t0 <;> by_cases h2 : tlast < t1 <;> simp [h0, h1, h2]

/-- for a non-empty record with time axis `i · dt` the translation, fed with the last time and the model's nearest-sample indices, is the
model's `trimIdx` -/
theorem py_trim_is_trimIdx : Py.trim_indices.ok = false ∨
    ∀ (n : ℕ) (dt t0 t1 : ℝ), 0 < n →
      (Py.trim_indices t0 t1 (timeAt dt (n - 1)) (argminAbs dt t0 n : ℤ) (argminAbs dt t1 n : ℤ)).map (fun p => (p.1.toNat, p.2.toNat))
        = (match trimIdx n dt t0 t1 with | .ok p => some p | .error _ => none) := by
  rcases py_trim_indices with h | h
  · exact Or.inl h
  · right
    intro n dt t0 t1 hn
    rw [h]
    unfold trimIdx
    have hn0 : ¬ n = 0 := Nat.pos_iff_ne_zero.mp hn
    simp only [hn0, if_false, ofNat_real, Nat.cast_zero]
    by_cases h0 : t0 < 0
    · simp [h0]
    · by_cases h1 : t1 ≤ t0
      · simp [h0, h1]
      · by_cases h2 : timeAt dt (n - 1) < t1
        · simp [h0, h1, h2]
        · simp [h0, h1, h2]

end HV.Bridge
