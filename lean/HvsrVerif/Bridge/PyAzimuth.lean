import HvsrVerif.Generated.PyAzimuth
import HvsrVerif.Bridge.PyCommon
/-! Bridge: `single_azimuth` translated from processing.py = `singleAzimuth` (see `Bridge/PyCommon.lean`) -/
set_option linter.unusedSimpArgs false
set_option linter.unusedTactic false
set_option linter.unreachableTactic false
namespace HV.Bridge
open HV HV.Generated Classical

theorem py_single_azimuth : Py.single_azimuth.ok = false ∨
    ∀ ns ew deg : ℝ, Py.single_azimuth ns ew deg = singleAzimuth deg ns ew := by
  bridge_cases
    intro ns ew deg
    simp only [Py.single_azimuth, singleAzimuth, py_radians, cos_real, sin_real]
    py_arith

end HV.Bridge
