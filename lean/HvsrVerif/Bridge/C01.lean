import HvsrVerif.Generated.Tables
import HvsrVerif.Model.Process
/-! Bridge C01: the three registers of processing.py (sorted by key): every alias is bound to the function the
model uses for it. -/
namespace HV.Bridge
theorem combine_register :
    Generated.combineRegister = none ∨ Generated.combineRegister = some HV.combineRegister := by decide
theorem traditional_register :
    Generated.traditionalRegister = none ∨ Generated.traditionalRegister = some HV.traditionalRegister := by decide
theorem processing_methods :
    Generated.processingMethods = none ∨ Generated.processingMethods = some HV.processingMethods := by decide
end HV.Bridge
