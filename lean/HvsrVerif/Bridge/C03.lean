import HvsrVerif.Generated.Tables
import HvsrVerif.Model.Process
/-! Bridge C03/C01: `nextpow2` default minimum `2**15`, the Nyquist factor `2` and the comparison operators of the guard
(`max(fcs) > fnyq`), `n_windows`-independent. Operator codes: 0 `<`, 1 `<=`, 2 `>`, 3 `>=`. -/
namespace HV.Bridge
theorem nextpow2_minimum : Generated.nextpow2Min = none ∨ Generated.nextpow2Min = some (2, 15) := by decide
theorem nextpow2_compare : Generated.nextpow2Cmp = none ∨ Generated.nextpow2Cmp = some 2 := by decide
theorem nyquist_guard_consts : Generated.nyquistGuard = none ∨ Generated.nyquistGuard = some ((2, 0), 2) := by decide
theorem policies :
    Generated.policyNames = none ∨ Generated.policyNames =
      some ["frequency_domain_resampling", "keeping_majority_time_step", "keeping_smallest_time_step"] := by decide
end HV.Bridge
