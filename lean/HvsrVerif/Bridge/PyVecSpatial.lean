import HvsrVerif.Generated.PyVec
import HvsrVerif.Bridge.PyCommon
import HvsrVerif.Model.Spatial
import HvsrVerif.Proofs.StatsLemmas
/-!
# Bridge: `hvsr_spatial._statistics` translated from the Python source = the model's `statistics` (C14)

`Generated/PyVec.lean::spatial_statistics` is the symbolic execution of the two `for ... in zip(values, norm_weights)` loops of `_statistics`
(left folds with the code's own accumulators, the loop variable that survives the loop, `np.sqrt` with NaN for a negative radicand). The theorem
says that for every matrix of realisations and every weight vector the pair it returns is defined exactly when the model's `statistics` is,
and then equal to it — `statistics` being the function the weighted-mean / weighted-standard-deviation / weight-scaling / zero-sigma theorems of
`Props/C14.lean` are about.
-/
set_option linter.unusedSimpArgs false
set_option linter.unusedTactic false
set_option linter.unreachableTactic false
set_option linter.unusedVariables false
set_option linter.unnecessarySimpa false
namespace HV.Bridge
open HV HV.Generated HV.PyV Classical

/-- both components defined -/
def bothDefined : Option ℝ × Option ℝ → Option (ℝ × ℝ)
  | (some m, some s) => some (m, s)
  | _ => none

theorem filterMap_id_map_some (r : List ℝ) : (r.map some).filterMap id = r := by
  induction r with
  | nil => rfl
  | cons x xs ih => simpa using ih

theorem all_isSome_map_some (r : List ℝ) : (r.map some).all Option.isSome = true := by
  induction r with
  | nil => rfl
  | cons x xs ih => simpa using ih

theorem vsum_somes (r : List ℝ) : vsum (r.map some) = some (sumA r) := by
  unfold vsum
  rw [all_isSome_map_some, filterMap_id_map_some]
  rfl

theorem zip_somes (values : List (List ℝ)) (nw : List ℝ) :
    List.zip (values.map (fun r => r.map some)) (nw.map some) = (List.zip values nw).map (fun z => (z.1.map some, some z.2)) := by
  induction values generalizing nw with
  | nil => rfl
  | cons v vs ih =>
    cases nw with
    | nil => rfl
    | cons x xs => simp [ih]

/-- a fold whose step keeps defined values defined is the fold of the underlying real step -/
theorem foldl_somes {σ τ : Type} (inj : σ → τ) (f : τ → (List (Option ℝ) × Option ℝ) → τ) (g : σ → (List ℝ × ℝ) → σ)
    (hf : ∀ a row w, f (inj a) (List.map some row, some w) = inj (g a (row, w))) (zs : List (List ℝ × ℝ)) (a : σ) :
    List.foldl f (inj a) (zs.map (fun z => (z.1.map some, some z.2))) = inj (List.foldl g a zs) := by
  induction zs generalizing a with
  | nil => rfl
  | cons z zs ih =>
    obtain ⟨row, w⟩ := z
    simp only [List.map_cons, List.foldl_cons]
    rw [hf, ih]

/-- a fold over a zip with undefined weights from a defined start: nothing can be said in general, but the generated code only uses the
result through divisions; for the all-undefined weights of a zero weight sum the first accumulator is undefined as soon as there is a row -/
theorem foldl_none_weights (f : Option ℝ → (List (Option ℝ) × Option ℝ) → Option ℝ)
    (hf : ∀ st row, f st (row, none) = none) (rows : List (List (Option ℝ))) (ws : List (Option ℝ)) (hws : ∀ w ∈ ws, w = none)
    (st : Option ℝ) (hne : List.zip rows ws ≠ []) :
    List.foldl f st (List.zip rows ws) = none := by
  induction rows generalizing ws st with
  | nil => simp at hne
  | cons r rs ih =>
    cases ws with
    | nil => simp at hne
    | cons w ws' =>
      have hw : w = none := hws w (by simp)
      subst hw
      simp only [List.zip_cons_cons, List.foldl_cons]
      rw [hf]
      by_cases h : List.zip rs ws' = []
      · rw [h]; rfl
      · exact ih ws' (fun w hw => hws w (by simp [hw])) none h

theorem foldSum_eq_foldl {β : Type} (f : β → ℝ) (l : List β) : foldSum f l = l.foldl (fun acc x => acc + f x) 0 := by
  unfold foldSum; simp only [ofNat_real, Nat.cast_zero]

theorem foldl_pair {β : Type} (f g : β → ℝ) (l : List β) (a b : ℝ) :
    l.foldl (fun (st : ℝ × ℝ) x => (st.1 + f x, st.2 + g x)) (a, b) = (l.foldl (fun acc x => acc + f x) a, l.foldl (fun acc x => acc + g x) b) := by
  induction l generalizing a b with
  | nil => rfl
  | cons x xs ih => simp only [List.foldl_cons]; rw [ih]

theorem sqDev_eq (m : ℝ) (row : List ℝ) :
    vsum (vv omul (vn osub (row.map some) (some m)) (vn osub (row.map some) (some m))) = some (sqDev m row) := by
  have h : vv omul (vn osub (row.map some) (some m)) (vn osub (row.map some) (some m)) = (row.map (fun x => (x - m) * (x - m))).map some := by
    unfold vv vn
    induction row with
    | nil => rfl
    | cons x xs ih => simpa [osub, omul, lift2] using ih
  rw [h, vsum_somes]; rfl

theorem odiv_ss (a b : ℝ) : odiv (some a) (some b) = (if eqA b (n# 0) then none else some (a / b)) := rfl

/-- the generated function as a function of the zipped (row, normalised weight) list -/
noncomputable def specStat (Z : List (List (Option ℝ) × Option ℝ)) : Option (Option ℝ × Option ℝ) :=
  match Z.getLast? with
  | none => none
  | some last =>
    let mean := odiv (List.foldl (fun st pr => oadd st (omul pr.2 (vsum pr.1))) (onat 0) Z) (olen last.1)
    let st2 := List.foldl (fun (st : Option ℝ × Option ℝ) (pr : List (Option ℝ) × Option ℝ) =>
      (oadd st.1 (omul pr.2 (vsum (vv omul (vn osub pr.1 mean) (vn osub pr.1 mean)))), oadd st.2 (omul pr.2 pr.2))) (onat 0, onat 0) Z
    some (mean, osqrt (odiv (odiv st2.1 (olen last.1)) (osub (onat 1) (odiv st2.2 (olen last.1)))))

theorem generated_eq_spec : PyVec.spatial_statistics.ok = false ∨ ∀ (V : List (List (Option ℝ))) (W : List (Option ℝ)),
    PyVec.spatial_statistics V W = specStat (List.zip V (vn odiv W (vsum W))) := by
  bridge_cases
    intro V W
    unfold PyVec.spatial_statistics specStat
    simp only []
    cases h : (List.zip V (vn odiv W (vsum W))).getLast? with
    | none => rfl
    | some last => obtain ⟨r, x⟩ := last; rfl

/-- zero weight sum: as soon as there is a row the mean is undefined -/
theorem specStat_none_weights (rows : List (List (Option ℝ))) (ws : List (Option ℝ)) (hws : ∀ w ∈ ws, w = none) :
    (specStat (List.zip rows ws)).bind bothDefined = none := by
  unfold specStat
  cases h : (List.zip rows ws).getLast? with
  | none => rfl
  | some last =>
    have hne : List.zip rows ws ≠ [] := by intro h0; rw [h0] at h; simp at h
    have hf : List.foldl (fun st pr => oadd st (omul pr.2 (vsum pr.1))) (onat 0) (List.zip rows ws) = (none : Option ℝ) :=
      foldl_none_weights _ (fun st row => by cases st <;> rfl) rows ws hws _ hne
    simp only [hf]
    rfl

/-- non-zero weight sum: all quantities are defined up to the two divisions and the square root, which are the model's guards -/
theorem specStat_somes (zs : List (List ℝ × ℝ)) :
    (specStat (zs.map (fun z => (z.1.map some, some z.2)))).bind bothDefined =
      (match zs.getLast? with
        | none => none
        | some z =>
          let n : ℝ := n# z.1.length
          let mean := statMean zs n
          let num := statNumerator zs n mean
          let w2 := statW2 zs n
          if eqA n (n# 0) || eqA ((n# 1) - w2) (n# 0) || decide (num / ((n# 1) - w2) < (n# 0)) then none
          else some (mean, Transc.sqrt (num / ((n# 1) - w2)))) := by
  unfold specStat
  rw [List.getLast?_map]
  cases h : zs.getLast? with
  | none => rfl
  | some z =>
    simp only [Option.map_some]
    -- first fold
    have f1 : List.foldl (fun st pr => oadd st (omul pr.2 (vsum pr.1))) (onat 0) (zs.map (fun z => (z.1.map some, some z.2)))
        = some (List.foldl (fun acc (z : List ℝ × ℝ) => acc + z.2 * sumA z.1) 0 zs) := by
      have := foldl_somes (σ := ℝ) (τ := Option ℝ) some (fun st pr => oadd st (omul pr.2 (vsum pr.1))) (fun acc z => acc + z.2 * sumA z.1)
        (fun a row w => by simp only [vsum_somes]; rfl) zs 0
      simpa [onat] using this
    rw [f1]
    by_cases hn : ((n# z.1.length : ℝ)) = 0
    · -- rows of length zero
      have e0 : eqA ((n# z.1.length : ℝ)) (n# 0) = true := by rw [eqA_real]; simpa using hn
      have hlen : (olen (z.1.map some) : Option ℝ) = some (n# z.1.length) := by unfold olen; simp
      simp only [hlen, odiv, e0, if_true, ite_true, Bool.true_or]
      rfl
    · have en : eqA ((n# z.1.length : ℝ)) (n# 0) = false := by
        rw [Bool.eq_false_iff]; intro h'; rw [eqA_real] at h'; exact hn (by simpa using h')
      have hlen : (olen (z.1.map some) : Option ℝ) = some (n# z.1.length) := by unfold olen; simp
      have hmean : odiv (some (List.foldl (fun acc (z : List ℝ × ℝ) => acc + z.2 * sumA z.1) 0 zs)) (olen (z.1.map some))
          = some (statMean zs (n# z.1.length)) := by
        rw [hlen, odiv_ss, en]; unfold statMean; rw [foldSum_eq_foldl]; rfl
      rw [hmean]
      generalize hm : statMean zs (n# z.1.length) = m
      -- second fold
      have f2 : List.foldl (fun (st : Option ℝ × Option ℝ) (pr : List (Option ℝ) × Option ℝ) =>
            (oadd st.1 (omul pr.2 (vsum (vv omul (vn osub pr.1 (some m)) (vn osub pr.1 (some m))))), oadd st.2 (omul pr.2 pr.2))) (onat 0, onat 0)
            (zs.map (fun z => (z.1.map some, some z.2)))
          = (some (foldSum (fun z => z.2 * sqDev m z.1) zs), some (foldSum (fun z => z.2 * z.2) zs)) := by
        have := foldl_somes (σ := ℝ × ℝ) (τ := Option ℝ × Option ℝ) (fun p => (some p.1, some p.2))
          (fun st pr => (oadd st.1 (omul pr.2 (vsum (vv omul (vn osub pr.1 (some m)) (vn osub pr.1 (some m))))), oadd st.2 (omul pr.2 pr.2)))
          (fun st z => (st.1 + z.2 * sqDev m z.1, st.2 + z.2 * z.2))
          (fun a row w => by simp only [sqDev_eq]; rfl) zs (0, 0)
        rw [foldl_pair] at this
        rw [foldSum_eq_foldl, foldSum_eq_foldl]
        simpa [onat] using this
      simp only [f2, hlen]
      unfold statNumerator statW2
      generalize foldSum (fun z => z.2 * sqDev m z.1) zs = N
      generalize foldSum (fun z => z.2 * z.2) zs = W
      simp only [odiv_ss, en, onat, osub, lift2, Bool.false_eq_true, if_false, ite_false, Bool.false_or]
      by_cases h1 : eqA ((n# 1 : ℝ) - W / (n# z.1.length)) (n# 0) = true
      · simp only [h1, if_true, ite_true, Bool.true_or, osqrt]; rfl
      · have h1' : eqA ((n# 1 : ℝ) - W / (n# z.1.length)) (n# 0) = false := by simpa using h1
        simp only [h1', Bool.false_eq_true, if_false, ite_false, Bool.false_or, osqrt]
        by_cases h2 : N / (n# z.1.length) / ((n# 1 : ℝ) - W / (n# z.1.length)) < (n# 0)
        · simp only [h2, if_true, ite_true, decide_true]; rfl
        · simp only [h2, if_false, ite_false, decide_false, Bool.false_eq_true]; rfl

/-- `_statistics(values, weights)` for every matrix of realisations and every weight vector: the pair returned by the translated code has both
components defined exactly when the model's `statistics` is defined, and then it is the model's pair -/
theorem py_spatial_statistics : PyVec.spatial_statistics.ok = false ∨
    ∀ (values : List (List ℝ)) (w : List ℝ),
      (PyVec.spatial_statistics (values.map (fun r => r.map some)) (w.map some)).bind bothDefined = statistics values w := by
  rcases generated_eq_spec with hok | hspec
  · exact Or.inl hok
  · right
    intro values w
    rw [hspec, vsum_somes]
    unfold statistics
    by_cases hS : sumA w = 0
    · -- zero weight sum: every normalised weight is undefined
      have e0 : eqA (sumA w) (n# 0) = true := by rw [eqA_real]; simpa using hS
      rw [e0]
      simp only [if_true, ite_true]
      have hw : ∀ x ∈ vn odiv (w.map some) (some (sumA w)), x = none := by
        intro x hx
        unfold vn at hx
        simp only [List.mem_map] at hx
        obtain ⟨y, hy, rfl⟩ := hx
        obtain ⟨r, _, rfl⟩ := hy
        rw [odiv_ss, e0]; rfl
      exact specStat_none_weights _ _ hw
    · have e0 : eqA (sumA w) (n# 0) = false := by
        rw [Bool.eq_false_iff]; intro h'; rw [eqA_real] at h'; exact hS (by simpa using h')
      rw [e0]
      simp only [Bool.false_eq_true, if_false, ite_false]
      have hnw : vn odiv (w.map some) (some (sumA w)) = (normWeights w).map some := by
        unfold vn normWeights
        simp only [List.map_map]
        apply List.map_congr_left
        intro x _
        simp only [Function.comp, odiv_ss, e0, Bool.false_eq_true, if_false, ite_false]
      rw [hnw, zip_somes, specStat_somes]
      unfold statisticsN
      simp only []
      cases h : (List.zip values (normWeights w)).getLast? with
      | none => rfl
      | some z => rfl

end HV.Bridge
