import HvsrVerif.Generated.PyPsd
import HvsrVerif.Bridge.PyCommon
import HvsrVerif.Model.Process
/-! Bridge: the normalisation chain of `_rpds_single_component` translated from processing.py = the factor the model's
`psdComponent` applies to every accumulated bin (see `Bridge/PyCommon.lean`). -/
set_option linter.unusedSimpArgs false
set_option linter.unusedTactic false
set_option linter.unreachableTactic false
namespace HV.Bridge
open HV HV.Generated Classical

/-- the per-bin scaling of `psdComponent`: taper power, number of samples, sampling rate, factor 2 (one-sided), number of windows -/
noncomputable def psdScale (p tp L fs k : ℝ) : ℝ := p / tp / L / fs * 2 / k

theorem py_psd_scaling : Py.psd_scaling.ok = false ∨
    ∀ p tp L fs k : ℝ, Py.psd_scaling p tp L fs k = psdScale p tp L fs k := by
  bridge_cases
    intro p tp L fs k
    simp only [Py.psd_scaling, psdScale]
    py_arith

/-- `psdScale` is literally what the model applies (definitional unfolding of `psdComponent`) -/
theorem psdComponent_uses_psdScale (width : ℝ) (n : Nat) (dt : ℝ) (wins : List (List ℝ)) :
    psdComponent width n dt wins =
      (wins.foldl (fun acc x => (List.zip acc (powSpec (taper width x) n)).map (fun p => p.1 + p.2))
        (List.replicate (n / 2 + 1) (0 : ℝ))).map
        (fun p => psdScale p (taperPower width (wins.getLastD []).length) ((wins.getLastD []).length : ℝ) (1 / dt) (wins.length : ℝ)) := by
  simp [psdComponent, psdScale]

end HV.Bridge
