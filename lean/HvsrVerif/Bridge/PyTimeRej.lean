import HvsrVerif.Generated.PyTimeRej
import HvsrVerif.Bridge.PyCommon
import HvsrVerif.Bridge.PySplit
import HvsrVerif.Model.TimeRej
import Mathlib.Algebra.Order.Floor.Ring
import Mathlib.Algebra.Order.Floor.Semifield
import Mathlib.Data.Rat.Floor
/-! Bridge (C13): the scalar decisions of the two time-domain rejection criteria, translated from `window_rejection.py` on every run,
equal the model's (`Model/TimeRej.lean`): points per STA / LTA (`int(seconds // dt)` = `nptsExact`), the three refusals of `staLtaRatios`
in the model's order, the number of STA chunks, the reject decision `ratiosOk`, and the three steps of the maximum-value criterion
(`windowMaxStep`, normalisation by the overall maximum, `m < threshold`). -/
set_option linter.unusedSimpArgs false
set_option linter.unusedTactic false
set_option linter.unreachableTactic false
set_option linter.unusedVariables false
namespace HV.Bridge
open HV HV.Generated HV.Split Classical

/-- `int(x)` of an integer-valued float is that integer -/
theorem truncInt_intCast (k : ℤ) : truncInt ((k : ℤ) : ℝ) = k := by
  unfold truncInt
  by_cases h : ((k : ℝ) < (Arith.ofNat 0 : ℝ))
  · simp only [h, if_true, floor_real]
    rw [← Int.cast_neg, Int.floor_intCast]; ring
  · simp only [h, if_false, floor_real, Int.floor_intCast]

/-- `int(seconds // dt)` is the floor of the exact quotient -/
theorem py_npts (s d : ℝ) : pyTruncInt (pyFloorDiv s d) = ⌊s / d⌋ := by
  rw [py_trunc_eq, py_floordiv, truncInt_intCast]

/-- ... which for (exactly represented, i.e. rational) doubles is the model's `nptsExact` -/
theorem py_npts_exact (s d : ℚ) : pyTruncInt (pyFloorDiv (s : ℝ) (d : ℝ)) = nptsExact s d := by
  rw [py_npts, nptsExact, ← Rat.cast_div, Rat.floor_cast]
  rfl

/-- body of the component loop of `sta_lta_window_rejection`, as translated: refusals in the order IndexError (STA), ZeroDivisionError,
IndexError (LTA); then `some false` is appended (and the loop left) exactly when an extreme ratio violates a limit -/
theorem py_sta_lta_step : Py.sta_lta_step.ok = false ∨
    ∀ (sta lta lo hi dt : ℝ) (N : ℤ) (rmax rmin : ℝ),
      Py.sta_lta_step sta lta lo hi dt N rmax rmin =
        (let nsta := ⌊sta / dt⌋
         let nlta := ⌊lta / dt⌋
         if N < nsta then none else if nsta = 0 then none else if N < nlta then none
         else some (nsta, Int.fdiv N nsta, nlta, if hi < rmax ∨ rmin < lo then some false else none)) := by
  bridge_cases
    intro sta lta lo hi dt N rmax rmin
    simp only [Py.sta_lta_step, py_npts]
    split_ifs <;> rfl

/-- the same decisions in the model's vocabulary: for a component of `x.length` samples whose ratios have the given extremes, the translated
step refuses exactly when `staLtaRatios` refuses, counts `x.length / nsta` chunks, and rejects exactly when `ratiosOk` is false -/
theorem py_sta_lta_model (sta lta lo hi dt : ℝ) (nsta nlta : ℕ) (x r : List ℝ) (rmax rmin : ℝ)
    (hs : ⌊sta / dt⌋ = (nsta : ℤ)) (hl : ⌊lta / dt⌋ = (nlta : ℤ)) (hmax : maxL' r = some rmax) (hmin : minL' r = some rmin) :
    (let nsta' := ⌊sta / dt⌋
     let nlta' := ⌊lta / dt⌋
     if (x.length : ℤ) < nsta' then (none : Option (ℤ × ℤ × ℤ × Option Bool)) else if nsta' = 0 then none else if (x.length : ℤ) < nlta' then none
     else some (nsta', Int.fdiv (x.length : ℤ) nsta', nlta', if hi < rmax ∨ rmin < lo then some false else none)) =
      (match staLtaRatios nsta nlta x with
       | .error _ => none
       | .ok _ => some ((nsta : ℤ), ((x.length / nsta : ℕ) : ℤ), (nlta : ℤ), if ratiosOk lo hi r then none else some false)) := by
  simp only [hs, hl, staLtaRatios, ratiosOk, hmax, hmin]
  have e1 : ((x.length : ℤ) < (nsta : ℤ)) ↔ x.length < nsta := by exact_mod_cast Iff.rfl
  have e2 : ((x.length : ℤ) < (nlta : ℤ)) ↔ x.length < nlta := by exact_mod_cast Iff.rfl
  have e3 : ((nsta : ℤ) = 0) ↔ nsta = 0 := by exact_mod_cast Iff.rfl
  simp only [e1, e2, e3]
  by_cases h1 : x.length < nsta
  · simp [h1]
  · by_cases h2 : nsta = 0
    · simp [h1, h2]
    · by_cases h3 : x.length < nlta
      · simp [h1, h2, h3]
      · simp only [h1, h2, h3, if_false]
        have hd : Int.fdiv (x.length : ℤ) (nsta : ℤ) = ((x.length / nsta : ℕ) : ℤ) := by
          rw [Int.fdiv_eq_ediv_of_nonneg _ (by positivity)]; norm_cast
        rw [hd]
        by_cases h4 : hi < rmax ∨ rmin < lo
        · simp [h4]
          intro h'
          rcases h4 with h | h
          · exact absurd h (not_lt.mpr h')
          · exact h
        · have : ¬ (hi < rmax) ∧ ¬ (rmin < lo) := not_or.mp h4
          simp [h4, this.1, this.2]

/-- running maximum over the components of one window = `windowMaxStep` -/
theorem py_maxvalue_update : Py.maxvalue_update.ok = false ∨
    ∀ (m cm : ℝ), Py.maxvalue_update m cm = if m < cm then cm else m := by
  bridge_cases
    intro m cm
    simp only [Py.maxvalue_update]

theorem py_maxvalue_update_model (m : ℝ) (c : List ℝ) (cm : ℝ) (h : maxL' (c.map absA) = some cm) :
    (if m < cm then cm else m) = windowMaxStep m c := by
  simp only [windowMaxStep, h]

/-- normalisation: every maximum is divided by the overall maximum iff `normalized` -/
theorem py_maxvalue_normalise : Py.maxvalue_normalise.ok = false ∨
    ∀ (m : ℝ) (normalized : Bool) (g : ℝ), Py.maxvalue_normalise m normalized g = if normalized then m / g else m := by
  bridge_cases
    intro m normalized g
    cases normalized <;> simp [Py.maxvalue_normalise]

/-- keep decision: `True` is appended iff the (normalised) maximum is strictly below the threshold; something is appended for every window -/
theorem py_maxvalue_keep : Py.maxvalue_keep.ok = false ∨
    ∀ (m thr : ℝ), Py.maxvalue_keep m thr = some (decide (m < thr)) := by
  bridge_cases
    intro m thr
    by_cases h : m < thr <;> simp [Py.maxvalue_keep, h]

/-- composition: the mask entry of the model's `maxValueMask` is the translated keep decision of the translated normalisation -/
theorem py_maxvalue_mask_entry (thr : ℝ) (normalized : Bool) (wins : List (List (List ℝ))) (g : ℝ)
    (hg : maxL' ((wins.map windowMax).map absA) = some g) :
    maxValueMask thr normalized wins = (wins.map windowMax).map (fun m => decide ((if normalized then m / g else m) < thr)) := by
  unfold maxValueMask
  simp only [List.map_map] at hg ⊢
  cases normalized <;> simp [hg]

end HV.Bridge
