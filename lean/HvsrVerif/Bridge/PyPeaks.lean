import HvsrVerif.Generated.PyPeaks
import HvsrVerif.Bridge.PyCommon
import HvsrVerif.Model.Peaks
/-! Bridge: `HvsrCurve._search_range_to_index_range` translated from hvsr_curve.py = the model's `rangeToIdx`
(see `Bridge/PyCommon.lean`): `None` is the only open end of a search range (a limit of `0` is a limit), a lower limit
selects the nearest sample, an upper limit the nearest sample inclusive. `nearest_*` stand for
`np.argmin(np.abs(frequency - limit))`. -/
set_option linter.unusedSimpArgs false
set_option linter.unusedTactic false
set_option linter.unreachableTactic false
namespace HV.Bridge
open HV HV.Generated Classical

theorem py_search_range_to_index_range : Py.search_range_to_index_range.ok = false ∨
    ∀ (freq : List ℝ) (r : Option ℝ × Option ℝ),
      Py.search_range_to_index_range r.1 r.2
          ((nearestIdx freq (r.1.getD 0) : ℕ) : ℤ) ((nearestIdx freq (r.2.getD 0) : ℕ) : ℤ) (freq.length : ℤ) =
        ((((rangeToIdx freq r).1 : ℕ) : ℤ), (((rangeToIdx freq r).2 : ℕ) : ℤ)) := by
  bridge_cases
    intro freq r
    obtain ⟨lo, hi⟩ := r
    cases lo <;> cases hi <;> simp [Py.search_range_to_index_range, rangeToIdx]

end HV.Bridge
