import HvsrVerif.Generated.PySplit
import HvsrVerif.Bridge.PyCommon
import HvsrVerif.Model.Split
import Mathlib.Algebra.Order.Floor.Ring
import Mathlib.Algebra.Order.Floor.Semifield
/-! Bridge: the window arithmetic of `TimeSeries.split` translated from timeseries.py = the model's `intervalsCode`,
`nWindows` and the `ValueError` guard of `Split.split` (see `Bridge/PyCommon.lean`). -/
set_option linter.unusedSimpArgs false
set_option linter.unusedTactic false
set_option linter.unreachableTactic false
namespace HV.Bridge
open HV HV.Generated HV.Split Classical

theorem py_round_eq (x : ℝ) : pyRoundHalfEven x = roundHalfEven x := rfl
theorem py_trunc_eq (x : ℝ) : pyTruncInt x = truncInt x := rfl

/-- `int(n / k)` of two naturals (as floats) is the natural-number quotient the model uses (`k ≥ 1`) -/
theorem truncInt_div_nat (N k : ℕ) (hk : 0 < k) : truncInt ((N : ℝ) / (k : ℝ)) = ((N / k : ℕ) : ℤ) := by
  unfold truncInt
  have hnn : ¬ ((N : ℝ) / (k : ℝ) < (Arith.ofNat 0 : ℝ)) := by
    simp only [ofNat_real, Nat.cast_zero, not_lt]
    positivity
  simp only [hnn, if_false, floor_real]
  rw [Int.floor_div_natCast, Int.floor_natCast]
  norm_cast

/-- `samples_per_window = int(n_intervals) + 1` with the model's recipe for the interval count, and
`n_windows = int(n_samples / (samples_per_window − 1))`, refused (`ValueError`) when it is below one -/
theorem py_split_counts : Py.split_counts.ok = false ∨
    ∀ (L dt : ℝ) (N : ℕ),
      Py.split_counts L dt (N : ℤ) =
        (let k := intervalsCode L dt
         let nw := truncInt ((N : ℝ) / (ofInt k : ℝ))
         if k = 0 then none                      -- n_samples / 0: ZeroDivisionError (the model's "zerodiv")
         else if nw < 1 then none else some (k + 1, nw)) := by
  bridge_cases
    intro L dt N
    simp only [Py.split_counts, intervalsCode, py_round_eq, py_trunc_eq, ofNat_real, Nat.cast_zero, zero_add, add_sub_cancel_right,
      ofInt_real', Int.cast_natCast]

/-- for a positive interval count the translated arithmetic is the model's: `k + 1` samples per window, `⌊N / k⌋` windows,
refusal exactly when `Split.split` refuses with "value" -/
theorem py_split_counts_model (L dt : ℝ) (N k : ℕ) (hk : 0 < k) (hcode : intervalsCode L dt = (k : ℤ)) :
    (let nw := truncInt ((N : ℝ) / (ofInt (intervalsCode L dt) : ℝ))
     if nw < 1 then (none : Option (ℤ × ℤ)) else some (intervalsCode L dt + 1, nw)) =
      if nWindows k N < 1 then none else some ((k : ℤ) + 1, (nWindows k N : ℤ)) := by
  simp only [hcode, ofInt_real', Int.cast_natCast, truncInt_div_nat N k hk, nWindows]
  norm_cast

end HV.Bridge
