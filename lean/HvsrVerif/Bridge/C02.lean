import HvsrVerif.Generated.Tables
import HvsrVerif.Model.Smoothing
/-! Bridge C02: numeric constants of the smoothing kernels and the operator registry
(`SMOOTHING_OPERATORS`: every key is bound to the function of the same name). -/
namespace HV.Bridge
theorem smooth_consts :
    Generated.smoothConsts = none ∨ Generated.smoothConsts = some HV.smoothConsts.toList := by decide
theorem smoothing_operators :
    Generated.smoothingOperators = none ∨
    Generated.smoothingOperators = some (HV.smoothingOperators.map (fun n => (n, n))) := by decide
end HV.Bridge
