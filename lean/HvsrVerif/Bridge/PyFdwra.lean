import HvsrVerif.Generated.PyFdwra
import HvsrVerif.Bridge.PyCommon
import HvsrVerif.Model.Fdwra
/-! Bridge: the accept decision and the stopping rule translated from the loop of
`window_rejection._frequency_domain_window_rejection` = the model's `fdwraKeep` / the stop condition of `fdwraIter`
(see `Bridge/PyCommon.lean`). The right-hand sides are the very conditions of `Props/C06.lean::iter_keeps_iff` and
`Props/C06Spec.lean::iter_stop_rule`. -/
set_option linter.unusedSimpArgs false
set_option linter.unusedTactic false
set_option linter.unreachableTactic false
namespace HV.Bridge
open HV HV.Generated Classical

/-- a window without a valid peak is skipped; otherwise both masks become "strictly inside the bounds" -/
theorem py_fdwra_keep : Py.fdwra_keep.ok = false ∨
    ∀ (valid : Bool) (f lo hi : ℝ),
      Py.fdwra_keep valid f lo hi =
        if valid then some (optLt (some lo) (some f) && optLt (some f) (some hi), optLt (some lo) (some f) && optLt (some f) (some hi))
        else none := by
  bridge_cases
    intro valid f lo hi
    cases valid <;> simp only [Py.fdwra_keep, optLt] <;> (try simp) <;>
      (try (split_ifs <;> simp_all <;> (first | linarith | (intro h; linarith) | (constructor <;> linarith))))

/-- the iteration returns iff a zero guard fires or both changes are below 0.01 — the condition of `iter_stop_rule`
with `diffB = |mean fn − f_mc|` before and `dA` after the removal; the value returned is the iteration counter -/
theorem py_fdwra_stop : Py.fdwra_stop.ok = false ∨
    ∀ diffB sB sA dA c : ℝ,
      Py.fdwra_stop diffB sB sA dA c =
        if diffB = 0 ∨ sB = 0 ∨ sA = 0 ∨ (|dA - diffB| / diffB < 0.01 ∧ |sA - sB| < 0.01) then some c else none := by
  bridge_cases
    intro diffB sB sA dA c
    have e : ∀ a : ℝ, (eqA a (Arith.ofNat 0) = true) ↔ a = 0 := by
      intro a; rw [eqA_real]; simp
    simp only [Py.fdwra_stop, e, absA_real, lit_real]
    norm_num
    split_ifs <;> py_logic

end HV.Bridge
