import HvsrVerif.Generated.PyOrient
import HvsrVerif.Bridge.PyCommon
/-! Bridge: `SeismicRecording3C.orient_sensor_to` translated from seismic_recording_3c.py = `orientSample`/`degNorm` (see `Bridge/PyCommon.lean`) -/
set_option linter.unusedSimpArgs false
set_option linter.unusedTactic false
set_option linter.unreachableTactic false
namespace HV.Bridge
open HV HV.Generated Classical

/-- `SeismicRecording3C.orient_sensor_to`: new samples are the model's rotation, the stored orientation is the
model's normalisation `degNorm` (with the repaired rounding case `360.0 ↦ 0`, which cannot occur over `ℝ`). -/
theorem py_orient_sensor_to : Py.orient_sensor_to.ok = false ∨
    ∀ new cur ns ew : ℝ,
      ((Py.orient_sensor_to new cur ns ew).1, (Py.orient_sensor_to new cur ns ew).2.1) = orientSample cur new (ns, ew) ∧
      (Py.orient_sensor_to new cur ns ew).2.2 = degNorm new := by
  bridge_cases
    intro new cur ns ew
    have hlt : ¬ ((360 : ℝ) ≤ new - 360 * (⌊new / 360⌋ : ℝ)) := by
      have := Int.lt_floor_add_one (new / 360)
      rw [div_lt_iff₀ (by norm_num : (0 : ℝ) < 360)] at this
      intro h; linarith
    simp only [Py.orient_sensor_to, orientSample, degNorm, py_radians, cos_real, sin_real, ofNat_real, py_floordiv, ofInt_real', floor_real, lit_real]
    try norm_num
    all_goals first
      | (intro h; exact absurd h hlt)
      | (split_ifs with h
         · exact absurd h hlt
         · refine ⟨?_, ?_⟩ <;> first | rfl | (simp <;> ring_nf))
      | (refine ⟨?_, ?_⟩ <;> first | rfl | (intro h; exact absurd h hlt) | (simp <;> ring_nf))

/-- `SeismicRecording3C.__init__` stores `degNorm` of the orientation it is given (the repaired `360.0 ↦ 0` case cannot occur over `ℝ`) -/
theorem py_init_orientation : Py.init_orientation.ok = false ∨
    ∀ d : ℝ, Py.init_orientation d = degNorm d := by
  bridge_cases
    intro d
    have hlt : ¬ ((360 : ℝ) ≤ d - 360 * (⌊d / 360⌋ : ℝ)) := by
      have := Int.lt_floor_add_one (d / 360)
      rw [div_lt_iff₀ (by norm_num : (0 : ℝ) < 360)] at this
      intro h; linarith
    simp only [Py.init_orientation, degNorm, ofNat_real, py_floordiv, ofInt_real', floor_real, lit_real]
    try norm_num
    all_goals first
      | (intro h; exact absurd h hlt)
      | (split_ifs with h
         · exact absurd h hlt
         · first | rfl | ring_nf)
      | rfl

end HV.Bridge
