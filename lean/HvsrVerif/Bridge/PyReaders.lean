import HvsrVerif.Generated.PyReaders
import HvsrVerif.Bridge.PyCommon
import HvsrVerif.Model.Readers
/-! Bridge: the MiniShark header scaling and the PEER orientation rule translated from data_wrangler.py = the reader
model's `msharkScale` and its orientation normalisation (see `Bridge/PyCommon.lean`). The reader model works in exact
rationals / integers; the statements cast them to `ℝ`. -/
set_option linter.unusedSimpArgs false
set_option linter.unusedTactic false
set_option linter.unreachableTactic false
namespace HV.Bridge
open HV HV.Generated HV.Rd Classical

/-- every stored integer sample is divided by the gain, then by the conversion factor -/
theorem py_minishark_scale : Py.minishark_scale.ok = false ∨
    ∀ (x : ℤ) (gain conv : ℕ),
      Py.minishark_scale (x : ℝ) (gain : ℝ) (conv : ℝ) = ((msharkScale gain conv x : ℚ) : ℝ) := by
  bridge_cases
    intro x gain conv
    simp only [Py.minishark_scale, msharkScale]
    push_cast
    first | rfl | ring_nf

/-- the orientation taken from a PEER azimuth code `a` (an integer number of degrees) is `a mod 360` in `[0, 360)` -/
theorem py_peer_orientation : Py.peer_orientation.ok = false ∨
    ∀ a : ℤ, Py.peer_orientation (a : ℝ) = ((a - (readerConsts.peerMod : ℤ) * (a / (readerConsts.peerModDiv : ℤ)) : ℤ) : ℝ) := by
  bridge_cases
    intro a
    simp only [Py.peer_orientation, py_floordiv, ofNat_real, readerConsts]
    have h : ⌊(a : ℝ) / ((360 : ℕ) : ℝ)⌋ = a / 360 := by
      have := Int.floor_div_natCast (a : ℝ) 360
      rw [this, Int.floor_intCast]; rfl
    push_cast at h ⊢
    rw [h]
    all_goals (try push_cast)
    all_goals (try ring_nf)

end HV.Bridge
