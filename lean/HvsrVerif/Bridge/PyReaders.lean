import HvsrVerif.Generated.PyReaders
import HvsrVerif.Bridge.PyCommon
import HvsrVerif.Model.Readers
/-! Bridge: the MiniShark header scaling and the PEER orientation rule translated from data_wrangler.py = the reader
model's `msharkScale` and its orientation normalisation (see `Bridge/PyCommon.lean`). The reader model works in exact
rationals / integers; the statements cast them to `ℝ`. -/
set_option linter.unusedSimpArgs false
set_option linter.unusedTactic false
set_option linter.unreachableTactic false
namespace HV.Bridge
open HV HV.Generated HV.Rd Classical

/-- every stored integer sample is divided by the gain, then by the conversion factor -/
theorem py_minishark_scale : Py.minishark_scale.ok = false ∨
    ∀ (x : ℤ) (gain conv : ℕ),
      Py.minishark_scale (x : ℝ) (gain : ℝ) (conv : ℝ) = ((msharkScale gain conv x : ℚ) : ℝ) := by
  bridge_cases
    intro x gain conv
    simp only [Py.minishark_scale, msharkScale]
    push_cast
    first | rfl | ring_nf

/-- the orientation taken from a PEER azimuth code `a` (an integer number of degrees) is `a mod 360` in `[0, 360)` -/
theorem py_peer_orientation : Py.peer_orientation.ok = false ∨
    ∀ a : ℤ, Py.peer_orientation (a : ℝ) = ((a - (readerConsts.peerMod : ℤ) * (a / (readerConsts.peerModDiv : ℤ)) : ℤ) : ℝ) := by
  bridge_cases
    intro a
    simp only [Py.peer_orientation, py_floordiv, ofNat_real, readerConsts]
    have h : ⌊(a : ℝ) / ((360 : ℕ) : ℝ)⌋ = a / 360 := by
      have := Int.floor_div_natCast (a : ℝ) 360
      rw [this, Int.floor_intCast]; rfl
    push_cast at h ⊢
    rw [h]
    all_goals (try push_cast)
    all_goals (try ring_nf)

/-! ## C07: `_arrange_traces` and `_check_npts` -/

theorem py_endswith1 (s : String) (c : Char) : pyEndsWith1 s c = endsWithC s c := rfl

/-- one pass of the loop of `_arrange_traces`, translated from the source: on every state of the three "found" flags and for every channel name it refuses
exactly when the model's `arrangeStep` refuses, and otherwise sets the flag of the slot `arrangeStep` fills -/
theorem py_arrange_step : Py.arrange_step.ok = false ∨
    ∀ (τ : Type) (ch : String) (x : τ) (st : ArrSt τ),
      Py.arrange_step (α := ℝ) ch st.ew.isSome st.ns.isSome st.vt.isSome =
        (match arrangeStep st (ch, x) with
         | Except.error _ => none
         | Except.ok st' => some (st'.ew.isSome, st'.ns.isSome, st'.vt.isSome)) := by
  bridge_cases
    intro τ ch x st
    rcases st with ⟨ns, ew, vt⟩
    simp only [Py.arrange_step, py_endswith1, arrangeStep]
    by_cases hE : endsWithC ch 'E' = true <;> by_cases hN : endsWithC ch 'N' = true <;> by_cases hZ : endsWithC ch 'Z' = true <;>
      cases ns <;> cases ew <;> cases vt <;> simp [hE, hN, hZ]

/-- `_check_npts` raises exactly when the two counts differ -/
theorem py_check_npts : Py.check_npts.ok = false ∨
    ∀ (hdr found : ℕ), (Py.check_npts (α := ℝ) (hdr : ℤ) (found : ℤ)).isSome = (match checkNpts hdr found with | Except.ok _ => true | Except.error _ => false) := by
  bridge_cases
    intro hdr found
    simp only [Py.check_npts, checkNpts]
    by_cases h : hdr = found
    · subst h; simp
    · have h' : ¬ ((hdr : ℤ) = (found : ℤ)) := by exact_mod_cast h
      simp [h, h']

end HV.Bridge
