import HvsrVerif.Generated.Tables
import HvsrVerif.Model.Sesame
/-!
# Bridge C16: the constants of the model are the constants of `hvsrpy/sesame.py`

`Generated.Tables` is rewritten from the working tree on every run. `none` means the
extractor did not recognise the source any more (no alarm; correspondence only).
-/
namespace HV.Bridge

theorem sesame_bands :
    Generated.sesameBands = none ∨ Generated.sesameBands = some HV.sesameBands := by decide

theorem sesame_last_band :
    Generated.sesameLastBand = none ∨ Generated.sesameLastBand = some HV.sesameLastBand := by decide

theorem sesame_consts :
    Generated.sesameConsts = none ∨ Generated.sesameConsts = some HV.sesameConsts.toList := by decide

end HV.Bridge
