import HvsrVerif.Generated.Tables
import HvsrVerif.Model.Fdwra
/-! Bridge C06: convergence limits and comparison operators of the FDWRA loop.
Operator codes: 0 `<`, 1 `<=`, 2 `>`, 3 `>=`. The model uses `d_diff < 0.01 ∧ s_diff < 0.01` and
`c_peak > lower ∧ c_peak < upper`. -/
namespace HV.Bridge
theorem fdwra_limits :
    Generated.fdwraLimits = none ∨
    Generated.fdwraLimits = some ((0, HV.fdwraLimits.1), (0, HV.fdwraLimits.2)) := by decide
theorem fdwra_accept_ops :
    Generated.fdwraAcceptOps = none ∨ Generated.fdwraAcceptOps = some (2, 0) := by decide
end HV.Bridge
