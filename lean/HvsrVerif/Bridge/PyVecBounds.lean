import HvsrVerif.Bridge.PyVec
import HvsrVerif.Props.C06Spec
/-!
# From the Python source to the published rejection bounds (C06)

`Bridge/PyVec.lean::py_trad_nth_state` says that the function translated from the source of `HvsrTraditional.nth_std_fn_frequency` is the model's
`nthStdFn`; `Props/C06Spec.lean::bounds_lognormal / bounds_normal` say that `nthStdFn` is the textbook expression. Composed: what the Python source
computes for `nth_std_fn_frequency(±n, distribution)` — the two bounds the frequency-domain algorithm rejects against — is
`exp(μ_ln ± n σ_ln)` resp. `μ ± n σ` of the currently valid peak frequencies (N − 1 estimator), for every state with at least two valid peaks.
-/
set_option linter.unusedSimpArgs false
set_option linter.unusedVariables false
namespace HV.Bridge
open HV HV.Generated HV.C06 Classical

theorem py_bounds_lognormal : (PyVec.trad_nth_std_fn_frequency.ok && PyVec.trad_nth_std_fn_amplitude.ok && PyVec.trad_mean_fn_frequency.ok &&
      PyVec.trad_mean_fn_amplitude.ok && PyVec.trad_std_fn_frequency.ok && PyVec.trad_std_fn_amplitude.ok && PyVec.nanmean_weighted.ok && PyVec.nanstd_weighted.ok) = false ∨
    ∀ (k : ℝ) (name : String) (s : HvTrad ℝ), Dist.ofString name = some .lognormal → 2 ≤ (validFreqs s).length →
      PyVec.trad_nth_std_fn_frequency distributionMap (some k) name (s.peaks.map (fun p => p.map (·.1))) s.vPeak =
        some (let L := (validFreqs s).map Real.log
              let μ := L.sum / (L.length : ℝ)
              let σ := Real.sqrt ((L.map (fun x => (x - μ) ^ 2)).sum / ((L.length : ℝ) - 1))
              some (Real.exp (μ + k * σ))) := by
  rcases py_trad_nth_state with h | h
  · exact Or.inl h
  · right
    intro k name s hd h2
    rw [(h k name .lognormal s hd).1, bounds_lognormal k s h2]

theorem py_bounds_normal : (PyVec.trad_nth_std_fn_frequency.ok && PyVec.trad_nth_std_fn_amplitude.ok && PyVec.trad_mean_fn_frequency.ok &&
      PyVec.trad_mean_fn_amplitude.ok && PyVec.trad_std_fn_frequency.ok && PyVec.trad_std_fn_amplitude.ok && PyVec.nanmean_weighted.ok && PyVec.nanstd_weighted.ok) = false ∨
    ∀ (k : ℝ) (name : String) (s : HvTrad ℝ), Dist.ofString name = some .normal → 2 ≤ (validFreqs s).length →
      PyVec.trad_nth_std_fn_frequency distributionMap (some k) name (s.peaks.map (fun p => p.map (·.1))) s.vPeak =
        some (let L := validFreqs s
              let μ := L.sum / (L.length : ℝ)
              let σ := Real.sqrt ((L.map (fun x => (x - μ) ^ 2)).sum / ((L.length : ℝ) - 1))
              some (μ + k * σ)) := by
  rcases py_trad_nth_state with h | h
  · exact Or.inl h
  · right
    intro k name s hd h2
    rw [(h k name .normal s hd).1, bounds_normal k s h2]

end HV.Bridge
