import HvsrVerif.Generated.Tables
import HvsrVerif.Model.Settings
/-!
# Bridge C15: the class table, the reader's dispatch chain and the method register of the model
are the ones of `hvsrpy/settings.py`, `hvsrpy/object_io.py`, `hvsrpy/processing.py`

`Generated.Tables` is rewritten from the working tree on every run (`tools/extract_tables.py`,
`extract_settings`). `none` = the extractor did not recognise the source any more (no alarm).
The last theorem decides the hypothesis of `HV.C15.noninterference` on the model's table.
-/
namespace HV.Bridge
open HV.Settings

/-- per class: `self.attrs`, kind of each default value, how each argument is stored -/
theorem settings_table :
    Generated.settingsTable = none ∨ Generated.settingsTable = some HV.Settings.settingsTable := by decide

set_option synthInstance.maxSize 1024 in
/-- the if/elif chain of `read_settings_object_from_file` -/
theorem settings_dispatch :
    Generated.settingsDispatch = none ∨ Generated.settingsDispatch = some HV.Settings.dispatchTable := by decide

/-- `TRADITIONAL_PROCESSING_REGISTER`: registered `method_to_combine_horizontals` ↦ processing function -/
theorem settings_traditional_register :
    Generated.settingsTraditionalRegister = none ∨
      Generated.settingsTraditionalRegister = some HV.Settings.traditionalRegister := by decide

/-- every parameter with a mutable default is stored by a copy deep enough for its kind -/
theorem settings_table_ok : tableOK settingsParams = true := by decide

end HV.Bridge
