import HvsrVerif.Generated.PyNyquist
import HvsrVerif.Bridge.PyCommon
import HvsrVerif.Model.Rows
/-! Bridge: `check_nyquist_frequency` translated from processing.py = the model's `nyquistRefuses`
(see `Bridge/PyCommon.lean`); `fmax` stands for `max(fcs)`. -/
set_option linter.unusedSimpArgs false
set_option linter.unusedTactic false
set_option linter.unreachableTactic false
namespace HV.Bridge
open HV HV.Generated Classical

theorem py_check_nyquist_frequency : Py.check_nyquist_frequency.ok = false ∨
    ∀ (dt f : ℝ) (fs : List ℝ),
      (Py.check_nyquist_frequency dt (fs.foldl maxA f)).isNone = nyquistRefuses dt (f :: fs) := by
  bridge_cases
    intro dt f fs
    simp only [Py.check_nyquist_frequency, nyquistRefuses, ofNat_real]
    split_ifs <;> simp_all

end HV.Bridge
