import HvsrVerif.Generated.PyWeights
import HvsrVerif.Bridge.PyCommon
import HvsrVerif.Model.HvAz
/-! Bridge (C11): the body of the loop of `HvsrAzimuthal._compute_statistical_weights`, translated from `hvsr_azimuthal.py` on every run, is the step of
the model's `chengWeightsFor`: an azimuth with `c` accepted entries contributes `c` copies of `1/(n_azimuths·c)`, and `c = 0` is the `ZeroDivisionError`. -/
set_option linter.unusedSimpArgs false
set_option linter.unusedTactic false
set_option linter.unreachableTactic false
set_option linter.unusedVariables false
namespace HV.Bridge
open HV HV.Generated

theorem py_cheng_weights_step : Py.cheng_weights_step.ok = false ∨
    ∀ (naz c : ℕ), Py.cheng_weights_step (α := ℝ) (naz : ℤ) (c : ℤ) =
      if naz * c = 0 then none else some ((1 : ℝ) / ((naz * c : ℕ) : ℝ), (c : ℤ)) := by
  bridge_cases
    intro naz c
    have e : ((naz : ℤ) * (c : ℤ) = 0) ↔ (naz * c = 0) := by exact_mod_cast Iff.rfl
    by_cases h : naz * c = 0
    · have h' := e.mpr h
      simp [Py.cheng_weights_step, h, h']
    · have h' : ¬ ((naz : ℤ) * (c : ℤ) = 0) := fun x => h (e.mp x)
      simp only [Py.cheng_weights_step, h, h', if_false, ofInt_real', ofNat_real]
      push_cast
      rfl

/-- one step of the model's fold in the same terms: for at least one azimuth, the model fails exactly when the translated step raises, and otherwise
prepends `count` copies of `value` -/
theorem cheng_step_model (naz c : ℕ) (hnaz : 0 < naz) (ws : List ℝ) :
    (if c = 0 then (Except.error "zerodiv" : Except String (List ℝ)) else .ok (List.replicate c ((n# 1) / (n# (naz * c))) ++ ws)) =
      (match (if naz * c = 0 then (none : Option (ℝ × ℤ)) else some ((1 : ℝ) / ((naz * c : ℕ) : ℝ), (c : ℤ))) with
       | none => .error "zerodiv"
       | some (v, k) => .ok (List.replicate k.toNat v ++ ws)) := by
  by_cases hc : c = 0
  · simp [hc]
  · have : naz * c ≠ 0 := Nat.mul_ne_zero (Nat.pos_iff_ne_zero.mp hnaz) hc
    simp [hc, this]

end HV.Bridge
