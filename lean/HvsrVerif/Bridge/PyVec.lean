import HvsrVerif.Generated.PyVec
import HvsrVerif.Bridge.PyStats
import HvsrVerif.Proofs.StatsLemmas
import HvsrVerif.Model.HvState
import HvsrVerif.Model.HvAz
/-!
# Bridge: the nan-aware weighted mean / standard deviation translated from `hvsrpy/statistics.py` = `nanmeanW` / `nanstdW`

`Generated/PyVec.lean` is rewritten by `tools/py2lean_vec.py` from the Python source of `_nanmean_weighted` and
`_nanstd_weighted` (with `_distribution_factory` and the two dicts of lambdas inlined) on every run. The theorems below say:
for every distribution name, every array of values (NaN = `none`) and every weights argument (`None` or an array), the
translated function raises exactly when the name is not an alias of the table, and otherwise returns the model's
`nanmeanW` / `nanstdW` — the functions every statistic theorem of C05 / C11 (and the FDWRA bounds of C06) is about.
-/
set_option linter.unusedSimpArgs false
set_option linter.unusedTactic false
set_option linter.unreachableTactic false
set_option linter.unusedVariables false
namespace HV.Bridge
open HV HV.Generated HV.PyV Classical

/-! ## the array primitives in terms of the model's list functions -/

theorem odiv_some (a b : ℝ) : odiv (some a) (some b) = divO a b := by
  unfold odiv divO; rfl

theorem default_weights_eq (v : List (Option ℝ)) :
    maskSet (fullLike v (onat 1)) (isnan v) none = defaultWeights v := by
  unfold maskSet fullLike isnan defaultWeights onat
  induction v with
  | nil => rfl
  | cons x xs ih =>
    cases x with
    | none => simpa using ih
    | some y => simpa using ih

theorem zipWith_filterMap_gen (g : Option ℝ → Option ℝ → Option ℝ) (f : ℝ → ℝ → ℝ)
    (hss : ∀ v w, g (some v) (some w) = some (f v w)) (hn1 : ∀ y, g none y = none) (hn2 : ∀ x, g x none = none)
    (a b : List (Option ℝ)) :
    sumA ((List.zipWith g a b).filterMap id) = nansumProd a b f := by
  unfold nansumProd
  congr 1
  induction a generalizing b with
  | nil => simp
  | cons x xs ih =>
    cases b with
    | nil => simp
    | cons y ys =>
      cases x <;> cases y <;> simpa [hss, hn1, hn2] using ih ys

theorem nansum_prod (a b : List (Option ℝ)) :
    nansum (vv omul a b) = some (nansumProd a b (fun v w => v * w)) := by
  unfold nansum vv
  rw [zipWith_filterMap_gen omul (fun v w => v * w) (fun _ _ => rfl) (fun y => by cases y <;> rfl) (fun x => by cases x <;> rfl)]

theorem nansum_w (ws : List (Option ℝ)) : nansum ws = some (nansumW ws) := rfl

theorem dev_list (ws pv : List (Option ℝ)) (m : ℝ) :
    vv omul ws (vsq (vn osub pv (some m))) = List.zipWith (fun x y => omul y (osq (osub x (some m)))) pv ws := by
  unfold vv vsq vn
  induction ws generalizing pv with
  | nil => cases pv <;> rfl
  | cons y ys ih =>
    cases pv with
    | nil => rfl
    | cons x xs => simp only [List.map_cons, List.zipWith_cons_cons]; rw [ih]

theorem nansum_dev (ws pv : List (Option ℝ)) (m : ℝ) :
    nansum (vv omul ws (vsq (vn osub pv (some m)))) = some (nansumProd pv ws (fun v w => w * ((v - m) * (v - m)))) := by
  rw [dev_list]
  unfold nansum
  rw [zipWith_filterMap_gen (fun x y => omul y (osq (osub x (some m)))) (fun v w => w * ((v - m) * (v - m)))
    (fun _ _ => rfl) (fun y => by cases y <;> rfl) (fun x => by cases x <;> rfl)]

theorem count_not_nan (ws : List (Option ℝ)) :
    (bcount (bnot (isnan ws)) : Option ℝ) = some (n# (ws.filterMap id).length) := by
  unfold bcount bnot isnan
  congr 2
  induction ws with
  | nil => rfl
  | cons x xs ih => cases x <;> simpa using ih

theorem filterMap_vsq (ws : List (Option ℝ)) : (vsq ws).filterMap id = (ws.filterMap id).map (fun w => w * w) := by
  induction ws with
  | nil => rfl
  | cons x xs ih =>
    cases x with
    | none => simpa [vsq, osq, omul, lift2] using ih
    | some y =>
      have : vsq (some y :: xs) = some (y * y) :: vsq xs := rfl
      rw [this]; simpa using ih

theorem nansum_sq (ws : List (Option ℝ)) : nansum (vsq ws) = some (sumA ((ws.filterMap id).map (fun w => w * w))) := by
  unfold nansum; rw [filterMap_vsq]

theorem vmap_eq (f : ℝ → ℝ) (v : List (Option ℝ)) : vmap f v = v.map (fun x => x.map f) := rfl

theorem map_id_opt (v : List (Option ℝ)) : v.map (fun x => x.map (fun y => y)) = v := by
  induction v with
  | nil => rfl
  | cons x xs ih => cases x <;> simp [ih]

theorem ofString_of_lookup {name c : String} (h : List.lookup name distributionMap = some c) :
    (c = "lognormal" ∧ Dist.ofString name = some .lognormal) ∨ (c = "normal" ∧ Dist.ofString name = some .normal) := by
  have hc : c = "lognormal" ∨ c = "normal" := by
    have := lookup_mem_values h
    simpa [distributionMap] using this
  unfold Dist.ofString
  rw [h]
  rcases hc with rfl | rfl
  · left; exact ⟨rfl, rfl⟩
  · right; exact ⟨rfl, rfl⟩

theorem ofString_none {name : String} (h : List.lookup name distributionMap = none) : Dist.ofString name = none := by
  unfold Dist.ofString; rw [h]

/-- the weights argument as the model sees it -/
def wArg (w : Option (List ℝ)) : Option (List (Option ℝ)) := w.map (fun l => l.map some)

/-! ## `_nanmean_weighted` -/

/-- `_nanmean_weighted(distribution, values, weights)`: raises for a name the alias table does not know; otherwise the model's
weighted mean (`none` = NaN). Holds for every array and every weights argument. -/
theorem py_nanmean_weighted : PyVec.nanmean_weighted.ok = false ∨
    ∀ (name : String) (vals : List (Option ℝ)) (w : Option (List ℝ)),
      PyVec.nanmean_weighted distributionMap name vals (wArg w)
        = (Dist.ofString (pyLower name)).map (fun d => nanmeanW d vals w) := by
  bridge_cases
    intro name vals w
    unfold PyVec.nanmean_weighted
    simp only []
    cases h : List.lookup (pyLower name) distributionMap with
    | none => simp [ofString_none h]
    | some c =>
      rcases ofString_of_lookup h with ⟨rfl, hd⟩ | ⟨rfl, hd⟩
      · rw [hd]
        simp only [Option.some.injEq, String.reduceEq, or_true, not_true_eq_false, ite_false, if_false, ite_true, if_true,
          Option.map_some, reduceCtorEq]
        cases w with
        | none =>
          simp only [wArg, Option.map_none]
          rw [default_weights_eq, nansum_prod, nansum_w, odiv_some]
          unfold nanmeanW nanmeanPre Dist.pre Dist.postMean
          simp only [vmap_eq, omap]
        | some l =>
          simp only [wArg, Option.map_some]
          rw [nansum_prod, nansum_w, odiv_some]
          unfold nanmeanW nanmeanPre Dist.pre Dist.postMean someWeights
          simp only [vmap_eq, omap]
      · rw [hd]
        simp only [Option.some.injEq, String.reduceEq, true_or, not_true_eq_false, ite_false, if_false, ite_true, if_true,
          Option.map_some, reduceCtorEq]
        cases w with
        | none =>
          simp only [wArg, Option.map_none]
          rw [default_weights_eq, nansum_prod, nansum_w, odiv_some]
          unfold nanmeanW nanmeanPre Dist.pre Dist.postMean
          simp only [map_id_opt, Option.map_id', List.map_id']
        | some l =>
          simp only [wArg, Option.map_some]
          rw [nansum_prod, nansum_w, odiv_some]
          unfold nanmeanW nanmeanPre Dist.pre Dist.postMean someWeights
          simp only [map_id_opt, Option.map_id', List.map_id']

/-! ## `_nanstd_weighted` -/

/-- the `denominator` argument -/
def denName : Denom → String
  | .nist => "nist"
  | .cheng => "cheng"

theorem count_real (ws : List (Option ℝ)) : (bcount (bnot (isnan ws)) : Option ℝ) = some (((ws.filterMap id).length : ℕ) : ℝ) := by
  rw [count_not_nan]; simp only [ofNat_real]

/-- the tail of `_nanstd_weighted` once the mean `m` (in the transformed space) is known -/
theorem std_tail (pv ws : List (Option ℝ)) (m : ℝ) (den : Denom) :
    (match den with
      | .nist => omap Transc.sqrt (odiv (nansum (vv omul ws (vsq (vn osub pv (some m)))))
          (omul (osub (onat 1) (odiv (onat 1) (bcount (bnot (isnan ws))))) (nansum ws)))
      | .cheng => omap Transc.sqrt (odiv (nansum (vv omul ws (vsq (vn osub pv (some m)))))
          (osub (onat 1) (nansum (vsq ws)))))
    = (match den, (ws.filterMap id).length with
        | .nist, 0 => none
        | _, _ => (divO (nansumProd pv ws (fun v w => w * ((v - m) * (v - m))))
            (match den with
              | .nist => ((n# 1) - (n# 1) / (n# (ws.filterMap id).length)) * nansumW ws
              | .cheng => (n# 1) - sumA ((ws.filterMap id).map (fun w => w * w)))).map Transc.sqrt) := by
  cases den with
  | nist =>
    rw [nansum_dev, count_not_nan, nansum_w]
    cases hc : (ws.filterMap id).length with
    | zero =>
      have e0 : eqA ((n# 0) : ℝ) (n# 0) = true := by rw [eqA_real]
      simp only [onat, odiv, e0, if_true, ite_true, osub, omul, lift2, omap, Option.map_none]
    | succ k =>
      have hk : eqA ((n# (k + 1)) : ℝ) (n# 0) = false := by
        rw [Bool.eq_false_iff]; intro h'; rw [eqA_real] at h'
        simp only [ofNat_real, Nat.cast_add, Nat.cast_one, Nat.cast_zero] at h'
        have : (0:ℝ) ≤ (k : ℝ) := Nat.cast_nonneg k
        linarith
      simp only [onat, odiv, hk, osub, omul, lift2, omap, Bool.false_eq_true, if_false, ite_false]
      unfold divO
      rfl
  | cheng =>
    simp only [nansum_dev, nansum_sq, onat, osub, lift2, odiv_some, omap]

/-- the generated tail of `_nanstd_weighted` as a function of the (possibly undefined) mean -/
noncomputable def pyTail (pv ws : List (Option ℝ)) (mean : Option ℝ) (den : Denom) : Option ℝ :=
  match den with
  | .nist => omap Transc.sqrt (odiv (nansum (vv omul ws (vsq (vn osub pv mean))))
      (omul (osub (onat 1) (odiv (onat 1) (bcount (bnot (isnan ws))))) (nansum ws)))
  | .cheng => omap Transc.sqrt (odiv (nansum (vv omul ws (vsq (vn osub pv mean))))
      (osub (onat 1) (nansum (vsq ws))))

/-- the model's tail of `nanstdW` for a defined mean `m` -/
noncomputable def modelTail (pv ws : List (Option ℝ)) (m : ℝ) : Denom → Option ℝ
  | .nist => if (ws.filterMap id).length = 0 then none else
      (divO (nansumProd pv ws (fun v w => w * ((v - m) * (v - m))))
        (((n# 1) - (n# 1) / (n# (ws.filterMap id).length)) * nansumW ws)).map Transc.sqrt
  | .cheng => (divO (nansumProd pv ws (fun v w => w * ((v - m) * (v - m))))
        ((n# 1) - sumA ((ws.filterMap id).map (fun w => w * w)))).map Transc.sqrt

theorem pyTail_some (pv ws : List (Option ℝ)) (m : ℝ) (den : Denom) : pyTail pv ws (some m) den = modelTail pv ws m den := by
  have := std_tail pv ws m den
  cases den with
  | nist =>
    unfold pyTail modelTail
    rw [this]
    generalize (List.filterMap id ws).length = L
    cases L <;> simp
  | cheng =>
    unfold pyTail modelTail
    rw [this]

/-- with an undefined mean the `nist` denominator is zero or undefined: the result is NaN -/
theorem pyTail_none_nist (pv ws : List (Option ℝ)) (h0 : nansumW ws = 0) : pyTail pv ws none .nist = none := by
  unfold pyTail
  simp only [nansum_w, h0, count_not_nan, onat]
  have e0 : eqA ((0 : ℝ)) (n# 0) = true := by rw [eqA_real]; simp
  cases hc : (ws.filterMap id).length with
  | zero =>
    have e00 : eqA ((n# 0) : ℝ) (n# 0) = true := by rw [eqA_real]
    simp only [odiv, e00, if_true, ite_true, osub, omul, lift2, omap, Option.map_none, nansum]
  | succ k =>
    have hk : eqA ((n# (k + 1)) : ℝ) (n# 0) = false := by
      rw [Bool.eq_false_iff]; intro h'; rw [eqA_real] at h'
      simp only [ofNat_real, Nat.cast_add, Nat.cast_one, Nat.cast_zero] at h'
      have : (0:ℝ) ≤ (k : ℝ) := Nat.cast_nonneg k
      linarith
    have ez : eqA ((((n# 1) : ℝ) - (n# 1) / (n# (k + 1))) * 0) (n# 0) = true := by rw [eqA_real]; simp
    simp only [odiv, hk, osub, omul, lift2, omap, Bool.false_eq_true, if_false, ite_false, nansum, ez, if_true, ite_true,
      Option.map_none]

theorem divO_none_iff (a b : ℝ) : divO a b = none ↔ b = 0 := by
  rw [divO_real]; by_cases h : b = 0 <;> simp [h]

/-- the mean as `_nanstd_weighted` uses it: `log(exp(m))` for the lognormal distribution -/
noncomputable def meanT (d : Dist) (x : Option ℝ) : Option ℝ :=
  match d with
  | .normal => x
  | .lognormal => omap Transc.log (omap Transc.exp x)

/-- the weights array the code works with -/
noncomputable def wsOf (pv : List (Option ℝ)) (w : Option (List ℝ)) : List (Option ℝ) :=
  match w with
  | none => defaultWeights pv
  | some w => someWeights w

theorem nanmeanPre_eq (d : Dist) (vals : List (Option ℝ)) (w : Option (List ℝ)) :
    nanmeanPre d vals w = divO (nansumProd (vals.map (fun v => v.map d.pre)) (wsOf (vals.map (fun v => v.map d.pre)) w) (fun v w => v * w))
      (nansumW (wsOf (vals.map (fun v => v.map d.pre)) w)) := by
  cases w <;> rfl

theorem nanstdW_some (d : Dist) (vals : List (Option ℝ)) (w : Option (List ℝ)) (den : Denom) (m : ℝ)
    (hm : nanmeanPre d vals w = some m) :
    nanstdW d vals w den = modelTail (vals.map (fun v => v.map d.pre)) (wsOf (vals.map (fun v => v.map d.pre)) w)
      (match d with | .normal => m | .lognormal => Transc.log (Transc.exp m)) den := by
  unfold nanstdW nanmeanW
  rw [hm]
  cases w <;> cases d <;> cases den <;> simp only [Option.map_some, Dist.postMean, modelTail, wsOf] <;>
    (first | rfl | (split <;> simp_all))

theorem tail_eq_model (d : Dist) (vals : List (Option ℝ)) (w : Option (List ℝ)) (den : Denom)
    (hyp : den = .nist ∨ nanmeanW d vals w ≠ none) :
    pyTail (vals.map (fun v => v.map d.pre)) (wsOf (vals.map (fun v => v.map d.pre)) w)
      (meanT d (nanmeanPre d vals w)) den = nanstdW d vals w den := by
  cases hm : nanmeanPre d vals w with
  | none =>
    have hmean : meanT d (none : Option ℝ) = none := by cases d <;> rfl
    rw [hmean]
    have hstd : nanstdW d vals w den = none := by
      unfold nanstdW nanmeanW; rw [hm]; rfl
    rw [hstd]
    rcases hyp with rfl | hyp
    · apply pyTail_none_nist
      rw [nanmeanPre_eq] at hm
      exact (divO_none_iff _ _).mp hm
    · exfalso; apply hyp; unfold nanmeanW; rw [hm]; rfl
  | some m =>
    rw [nanstdW_some d vals w den m hm]
    cases d with
    | normal => exact pyTail_some _ _ _ _
    | lognormal => exact pyTail_some _ _ _ _

/-- `_nanstd_weighted(distribution, values, weights, denominator=...)`: raises for an unknown distribution name; otherwise the
model's weighted standard deviation (`none` = NaN) — for the `nist` denominator always, for the `cheng` denominator whenever the
weighted mean is defined (with an undefined mean — all values NaN, or explicit weights summing to zero — numpy's `nansum` of an
all-NaN array is 0 and the code returns `sqrt(0 / (1 - Σw²))` where the model says "undefined"; hvsrpy never calls it so: Cheng
weights sum to one, `Props/C11.weights_sum_one`). -/
theorem py_nanstd_weighted : PyVec.nanstd_weighted.ok = false ∨
    ∀ (name : String) (vals : List (Option ℝ)) (w : Option (List ℝ)) (den : Denom),
      (den = .nist ∨ ∀ d, Dist.ofString (pyLower name) = some d → nanmeanW d vals w ≠ none) →
      PyVec.nanstd_weighted distributionMap name vals (wArg w) (denName den)
        = (Dist.ofString (pyLower name)).map (fun d => nanstdW d vals w den) := by
  bridge_cases
    intro name vals w den hyp
    unfold PyVec.nanstd_weighted
    simp only []
    cases h : List.lookup (pyLower name) distributionMap with
    | none => simp [ofString_none h]
    | some c =>
      rcases ofString_of_lookup h with ⟨rfl, hd⟩ | ⟨rfl, hd⟩
      · rw [hd] at hyp ⊢
        have hyp' : den = .nist ∨ nanmeanW .lognormal vals w ≠ none := hyp.imp id (fun hh => hh _ rfl)
        simp only [Option.some.injEq, String.reduceEq, or_true, not_true_eq_false, ite_false, if_false, ite_true, if_true,
          Option.map_some, reduceCtorEq]
        have key := tail_eq_model .lognormal vals w den hyp'
        have hp : (Dist.pre .lognormal : ℝ → ℝ) = Transc.log := by funext x; rfl
        rw [hp] at key
        cases w with
        | none =>
          simp only [wArg, Option.map_none]
          have e : odiv (nansum (vv omul (vmap Transc.log vals) (maskSet (fullLike (vmap Transc.log vals) (onat 1)) (isnan (vmap Transc.log vals)) none)))
              (nansum (maskSet (fullLike (vmap Transc.log vals) (onat 1)) (isnan (vmap Transc.log vals)) none))
              = nanmeanPre .lognormal vals none := by
            rw [default_weights_eq, nansum_prod, nansum_w, odiv_some]; rfl
          rw [e, default_weights_eq]
          cases den <;> simpa [denName, pyTail, wsOf, meanT, Dist.pre, vmap_eq, omap] using key
        | some l =>
          simp only [wArg, Option.map_some]
          have e : odiv (nansum (vv omul (vmap Transc.log vals) (l.map some))) (nansum (l.map some))
              = nanmeanPre .lognormal vals (some l) := by
            rw [nansum_prod, nansum_w, odiv_some]; rfl
          rw [e]
          cases den <;> simpa [denName, pyTail, wsOf, meanT, Dist.pre, vmap_eq, omap, someWeights] using key
      · rw [hd] at hyp ⊢
        have hyp' : den = .nist ∨ nanmeanW .normal vals w ≠ none := hyp.imp id (fun hh => hh _ rfl)
        simp only [Option.some.injEq, String.reduceEq, true_or, not_true_eq_false, ite_false, if_false, ite_true, if_true,
          Option.map_some, reduceCtorEq]
        have key := tail_eq_model .normal vals w den hyp'
        have hp : (Dist.pre .normal : ℝ → ℝ) = fun x => x := by funext x; rfl
        rw [hp] at key
        simp only [map_id_opt, Option.map_id', List.map_id'] at key
        cases w with
        | none =>
          simp only [wArg, Option.map_none]
          have e : odiv (nansum (vv omul vals (maskSet (fullLike vals (onat 1)) (isnan vals) none)))
              (nansum (maskSet (fullLike vals (onat 1)) (isnan vals) none))
              = nanmeanPre .normal vals none := by
            rw [default_weights_eq, nansum_prod, nansum_w, odiv_some]
            unfold nanmeanPre Dist.pre
            simp only [map_id_opt, Option.map_id', List.map_id']
          rw [e, default_weights_eq]
          cases den <;> simpa [denName, pyTail, wsOf, meanT] using key
        | some l =>
          simp only [wArg, Option.map_some]
          have e : odiv (nansum (vv omul vals (l.map some))) (nansum (l.map some))
              = nanmeanPre .normal vals (some l) := by
            rw [nansum_prod, nansum_w, odiv_some]
            unfold nanmeanPre Dist.pre someWeights
            simp only [map_id_opt, Option.map_id', List.map_id']
          rw [e]
          cases den <;> simpa [denName, pyTail, wsOf, meanT, someWeights] using key

/-- any other `denominator` string raises (after the distribution check) -/
theorem py_nanstd_weighted_bad_denominator : PyVec.nanstd_weighted.ok = false ∨
    ∀ (name : String) (vals : List (Option ℝ)) (w : Option (List ℝ)) (s : String), s ≠ "nist" → s ≠ "cheng" →
      PyVec.nanstd_weighted distributionMap name vals (wArg w) s = none := by
  bridge_cases
    intro name vals w s h1 h2
    unfold PyVec.nanstd_weighted
    simp only [h1, h2, if_false, ite_false]
    split <;> first | rfl | (split <;> rfl)

/-! ## the accessor layer of `HvsrTraditional`: which array and which mask feed the estimator -/

theorem select_eq_maskSel (a : List (Option ℝ)) (m : List Bool) : select a m = maskSel a m := rfl

/-- `HvsrTraditional.mean_fn_frequency` / `mean_fn_amplitude` (method body, the property `peak_frequencies` / `peak_amplitudes` and the imported
`_nanmean_weighted` inlined): the unweighted nan-aware mean of the stored peak values **at the positions of the valid-peak mask** -/
theorem py_trad_mean_fn : (PyVec.trad_mean_fn_frequency.ok && PyVec.trad_mean_fn_amplitude.ok && PyVec.nanmean_weighted.ok) = false ∨
    ∀ (name : String) (stored : List (Option ℝ)) (vPeak : List Bool),
      PyVec.trad_mean_fn_frequency distributionMap name stored vPeak = (Dist.ofString (pyLower name)).map (fun d => nanmeanW d (maskSel stored vPeak) none) ∧
      PyVec.trad_mean_fn_amplitude distributionMap name stored vPeak = (Dist.ofString (pyLower name)).map (fun d => nanmeanW d (maskSel stored vPeak) none) := by
  rcases py_nanmean_weighted with h | h
  · left; simp [h]
  · bridge_cases
      intro name stored vPeak
      have e1 : PyVec.trad_mean_fn_frequency distributionMap name stored vPeak = PyVec.nanmean_weighted distributionMap name (select stored vPeak) (wArg none) := by
        unfold PyVec.trad_mean_fn_frequency PyVec.nanmean_weighted; rfl
      have e2 : PyVec.trad_mean_fn_amplitude distributionMap name stored vPeak = PyVec.nanmean_weighted distributionMap name (select stored vPeak) (wArg none) := by
        unfold PyVec.trad_mean_fn_amplitude PyVec.nanmean_weighted; rfl
      rw [e1, e2, h, select_eq_maskSel]
      exact ⟨rfl, rfl⟩

/-- `HvsrTraditional.std_fn_frequency` / `std_fn_amplitude`: the sample standard deviation (NIST denominator = n−1) of the same selection -/
theorem py_trad_std_fn : (PyVec.trad_std_fn_frequency.ok && PyVec.trad_std_fn_amplitude.ok && PyVec.nanstd_weighted.ok) = false ∨
    ∀ (name : String) (stored : List (Option ℝ)) (vPeak : List Bool),
      PyVec.trad_std_fn_frequency distributionMap name stored vPeak = (Dist.ofString (pyLower name)).map (fun d => nanstdW d (maskSel stored vPeak) none .nist) ∧
      PyVec.trad_std_fn_amplitude distributionMap name stored vPeak = (Dist.ofString (pyLower name)).map (fun d => nanstdW d (maskSel stored vPeak) none .nist) := by
  rcases py_nanstd_weighted with h | h
  · left; simp [h]
  · bridge_cases
      intro name stored vPeak
      have e1 : PyVec.trad_std_fn_frequency distributionMap name stored vPeak = PyVec.nanstd_weighted distributionMap name (select stored vPeak) (wArg none) (denName .nist) := by
        unfold PyVec.trad_std_fn_frequency PyVec.nanstd_weighted; rfl
      have e2 : PyVec.trad_std_fn_amplitude distributionMap name stored vPeak = PyVec.nanstd_weighted distributionMap name (select stored vPeak) (wArg none) (denName .nist) := by
        unfold PyVec.trad_std_fn_amplitude PyVec.nanstd_weighted; rfl
      rw [e1, e2, h _ _ _ _ (Or.inl rfl), select_eq_maskSel]
      exact ⟨rfl, rfl⟩

/-- in terms of the object model (`Model/HvState.lean`): on every state `s` of a traditional result the four translated accessors, fed with the
stored peak arrays and the valid-peak mask of `s`, return the model's `meanFn` / `stdFn` / `meanAmp` / `stdAmp` — the functions the theorems of
`Props/C05.lean` (estimators, restriction to the accepted windows, reciprocity) are about -/
theorem py_trad_stats_state : (PyVec.trad_mean_fn_frequency.ok && PyVec.trad_mean_fn_amplitude.ok && PyVec.nanmean_weighted.ok &&
      PyVec.trad_std_fn_frequency.ok && PyVec.trad_std_fn_amplitude.ok && PyVec.nanstd_weighted.ok) = false ∨
    ∀ (name : String) (s : HvTrad ℝ),
      PyVec.trad_mean_fn_frequency distributionMap name (s.peaks.map (fun p => p.map (·.1))) s.vPeak = (Dist.ofString (pyLower name)).map (fun d => s.meanFn d) ∧
      PyVec.trad_mean_fn_amplitude distributionMap name (s.peaks.map (fun p => p.map (·.2))) s.vPeak = (Dist.ofString (pyLower name)).map (fun d => s.meanAmp d) ∧
      PyVec.trad_std_fn_frequency distributionMap name (s.peaks.map (fun p => p.map (·.1))) s.vPeak = (Dist.ofString (pyLower name)).map (fun d => s.stdFn d) ∧
      PyVec.trad_std_fn_amplitude distributionMap name (s.peaks.map (fun p => p.map (·.2))) s.vPeak = (Dist.ofString (pyLower name)).map (fun d => s.stdAmp d) := by
  rcases py_trad_mean_fn with hm | hm
  · left; revert hm; cases PyVec.trad_mean_fn_frequency.ok <;> cases PyVec.trad_mean_fn_amplitude.ok <;> cases PyVec.nanmean_weighted.ok <;> simp
  rcases py_trad_std_fn with hs | hs
  · left; revert hs; cases PyVec.trad_std_fn_frequency.ok <;> cases PyVec.trad_std_fn_amplitude.ok <;> cases PyVec.nanstd_weighted.ok <;> simp
  right
  intro name s
  exact ⟨(hm name _ _).1, (hm name _ _).2, (hs name _ _).1, (hs name _ _).2⟩

/-! ## the accessor layer of `HvsrAzimuthal` (Cheng et al. 2020): pooled values and weights are inputs -/

/-- `HvsrAzimuthal.mean_fn_frequency` / `mean_fn_amplitude`: the weighted nan-aware mean of the pooled peak values with the statistical weights -/
theorem py_az_mean_fn : (PyVec.az_mean_fn_frequency.ok && PyVec.az_mean_fn_amplitude.ok && PyVec.nanmean_weighted.ok) = false ∨
    ∀ (name : String) (vals : List (Option ℝ)) (w : List ℝ),
      PyVec.az_mean_fn_frequency distributionMap name vals (w.map some) = (Dist.ofString (pyLower name)).map (fun d => nanmeanW d vals (some w)) ∧
      PyVec.az_mean_fn_amplitude distributionMap name vals (w.map some) = (Dist.ofString (pyLower name)).map (fun d => nanmeanW d vals (some w)) := by
  rcases py_nanmean_weighted with h | h
  · left; simp [h]
  · bridge_cases
      intro name vals w
      have e1 : PyVec.az_mean_fn_frequency distributionMap name vals (w.map some) = PyVec.nanmean_weighted distributionMap name vals (wArg (some w)) := by
        unfold PyVec.az_mean_fn_frequency PyVec.nanmean_weighted; rfl
      have e2 : PyVec.az_mean_fn_amplitude distributionMap name vals (w.map some) = PyVec.nanmean_weighted distributionMap name vals (wArg (some w)) := by
        unfold PyVec.az_mean_fn_amplitude PyVec.nanmean_weighted; rfl
      rw [e1, e2, h]
      exact ⟨rfl, rfl⟩

/-- `HvsrAzimuthal.std_fn_frequency` / `std_fn_amplitude`: the weighted standard deviation with the **Cheng** denominator `1 − Σw²` (whenever the
weighted mean is defined, see `py_nanstd_weighted`) -/
theorem py_az_std_fn : (PyVec.az_std_fn_frequency.ok && PyVec.az_std_fn_amplitude.ok && PyVec.nanstd_weighted.ok) = false ∨
    ∀ (name : String) (vals : List (Option ℝ)) (w : List ℝ),
      (∀ d, Dist.ofString (pyLower name) = some d → nanmeanW d vals (some w) ≠ none) →
      PyVec.az_std_fn_frequency distributionMap name vals (w.map some) = (Dist.ofString (pyLower name)).map (fun d => nanstdW d vals (some w) .cheng) ∧
      PyVec.az_std_fn_amplitude distributionMap name vals (w.map some) = (Dist.ofString (pyLower name)).map (fun d => nanstdW d vals (some w) .cheng) := by
  rcases py_nanstd_weighted with h | h
  · left; simp [h]
  · bridge_cases
      intro name vals w hyp
      have e1 : PyVec.az_std_fn_frequency distributionMap name vals (w.map some) = PyVec.nanstd_weighted distributionMap name vals (wArg (some w)) (denName .cheng) := by
        unfold PyVec.az_std_fn_frequency PyVec.nanstd_weighted; rfl
      have e2 : PyVec.az_std_fn_amplitude distributionMap name vals (w.map some) = PyVec.nanstd_weighted distributionMap name vals (wArg (some w)) (denName .cheng) := by
        unfold PyVec.az_std_fn_amplitude PyVec.nanstd_weighted; rfl
      rw [e1, e2, h _ _ _ _ (Or.inr hyp)]
      exact ⟨rfl, rfl⟩

/-- in terms of the object model (`Model/HvAz.lean`): on every azimuthal state whose Cheng weights exist (`s.weights = .ok w`: no azimuth without a valid
peak), the translated mean accessors fed with the pooled peaks and those weights return the model's `HvAz.meanFn` / `meanAmp` -/
theorem py_az_mean_state : (PyVec.az_mean_fn_frequency.ok && PyVec.az_mean_fn_amplitude.ok && PyVec.nanmean_weighted.ok) = false ∨
    ∀ (name : String) (s : HvAz ℝ) (w : List ℝ) (d : Dist), s.weights = .ok w → Dist.ofString (pyLower name) = some d →
      (PyVec.az_mean_fn_frequency distributionMap name s.peakFreqs (w.map some)).map Except.ok = some (s.meanFn d) ∧
      (PyVec.az_mean_fn_amplitude distributionMap name s.peakAmps (w.map some)).map Except.ok = some (s.meanAmp d) := by
  rcases py_az_mean_fn with h | h
  · exact Or.inl h
  · right
    intro name s w d hw hd
    rw [(h name _ w).1, (h name _ w).2, hd]
    unfold HvAz.meanFn HvAz.meanAmp
    rw [hw]
    exact ⟨rfl, rfl⟩

/-! ## mean ± n standard deviations of a traditional result (the rejection bounds of the frequency-domain algorithm) -/

/-- the closing step `_nth_std_factory(n, distribution, mean, std)` on possibly-NaN scalars -/
noncomputable def factoryO (dm : List (String × String)) (n : Option ℝ) (name : String) (m s : Option ℝ) : Option (Option ℝ) :=
  if List.lookup name dm = some "normal" then some (oadd m (omul n s))
  else if List.lookup name dm = some "lognormal" then some (omap Transc.exp (oadd (omap Transc.log m) (omul n s)))
  else none

/-- `nth_std_fn_frequency(n, distribution)` is the composition the source shows: the mean accessor, the standard-deviation accessor (each may raise), then
the factory -/
theorem py_trad_nth_decomp : (PyVec.trad_nth_std_fn_frequency.ok && PyVec.trad_nth_std_fn_amplitude.ok && PyVec.trad_mean_fn_frequency.ok &&
      PyVec.trad_mean_fn_amplitude.ok && PyVec.trad_std_fn_frequency.ok && PyVec.trad_std_fn_amplitude.ok) = false ∨
    ∀ (n : Option ℝ) (name : String) (stored : List (Option ℝ)) (vPeak : List Bool),
      PyVec.trad_nth_std_fn_frequency distributionMap n name stored vPeak =
        (match PyVec.trad_mean_fn_frequency distributionMap name stored vPeak, PyVec.trad_std_fn_frequency distributionMap name stored vPeak with
          | some m, some s => factoryO distributionMap n name m s
          | _, _ => none) ∧
      PyVec.trad_nth_std_fn_amplitude distributionMap n name stored vPeak =
        (match PyVec.trad_mean_fn_amplitude distributionMap name stored vPeak, PyVec.trad_std_fn_amplitude distributionMap name stored vPeak with
          | some m, some s => factoryO distributionMap n name m s
          | _, _ => none) := by
  bridge_cases
    intro n name stored vPeak
    unfold PyVec.trad_nth_std_fn_frequency PyVec.trad_nth_std_fn_amplitude PyVec.trad_mean_fn_frequency PyVec.trad_mean_fn_amplitude
      PyVec.trad_std_fn_frequency PyVec.trad_std_fn_amplitude factoryO
    simp only []
    cases h : List.lookup (pyLower name) distributionMap with
    | none => simp
    | some c =>
      rcases ofString_of_lookup h with ⟨rfl, hd⟩ | ⟨rfl, hd⟩ <;> simp

theorem lookup_key_mem {k c : String} : ∀ {l : List (String × String)}, List.lookup k l = some c → k ∈ l.map Prod.fst
  | [], h => by simp at h
  | (a, b) :: l, h => by
    rw [List.lookup_cons] at h
    split at h
    · rename_i heq; simp only [beq_iff_eq] at heq; simp [heq]
    · simpa using Or.inr (lookup_key_mem h)

/-- every spelling the alias table knows is lower case already -/
theorem ofString_lower {name : String} {d : Dist} (h : Dist.ofString name = some d) : pyLower name = name := by
  unfold Dist.ofString at h
  cases hl : List.lookup name distributionMap with
  | none => rw [hl] at h; simp at h
  | some c =>
    have hk := lookup_key_mem hl
    simp only [distributionMap, List.map_cons, List.map_nil, List.mem_cons, List.not_mem_nil, or_false] at hk
    rcases hk with rfl | rfl | rfl <;> (unfold pyLower; apply String.toList_inj.mp; simp [String.toLower, String.toList_map])

theorem factoryO_eq (n : ℝ) (name : String) (d : Dist) (m s : Option ℝ) (h : Dist.ofString name = some d) :
    factoryO distributionMap (some n) name m s = some (nthStdO n d m s) := by
  unfold Dist.ofString at h
  unfold factoryO
  cases hl : List.lookup name distributionMap with
  | none => rw [hl] at h; simp at h
  | some c =>
    rw [hl] at h
    have hc : c = "lognormal" ∨ c = "normal" := by
      have := lookup_mem_values hl
      simpa [distributionMap] using this
    rcases hc with rfl | rfl
    · simp only [Option.some.injEq] at h; subst h
      cases m <;> cases s <;> simp [nthStdO, nthStd, oadd, omul, omap, lift2]
    · simp only [Option.some.injEq] at h; subst h
      cases m <;> cases s <;> simp [nthStdO, nthStd, oadd, omul, lift2]

/-- on every state of a traditional result and for every spelling `name` of a distribution `d` the alias table knows, the translated
`nth_std_fn_frequency(n, name)` / `nth_std_fn_amplitude(n, name)` return the model's `nthStdFn` / `nthStdAmp` — the values the rejection bounds of `Props/C06*.lean`
(`bounds_lognormal`, `bounds_normal`, `iter_keeps_iff`) and the ±n clauses of `Props/C05.lean` are about -/
theorem py_trad_nth_state : (PyVec.trad_nth_std_fn_frequency.ok && PyVec.trad_nth_std_fn_amplitude.ok && PyVec.trad_mean_fn_frequency.ok &&
      PyVec.trad_mean_fn_amplitude.ok && PyVec.trad_std_fn_frequency.ok && PyVec.trad_std_fn_amplitude.ok && PyVec.nanmean_weighted.ok && PyVec.nanstd_weighted.ok) = false ∨
    ∀ (n : ℝ) (name : String) (d : Dist) (s : HvTrad ℝ), Dist.ofString name = some d →
      PyVec.trad_nth_std_fn_frequency distributionMap (some n) name (s.peaks.map (fun p => p.map (·.1))) s.vPeak = some (s.nthStdFn n d) ∧
      PyVec.trad_nth_std_fn_amplitude distributionMap (some n) name (s.peaks.map (fun p => p.map (·.2))) s.vPeak = some (s.nthStdAmp n d) := by
  rcases py_trad_nth_decomp with h0 | hdec
  · left; revert h0
    cases PyVec.trad_nth_std_fn_frequency.ok <;> cases PyVec.trad_nth_std_fn_amplitude.ok <;> cases PyVec.trad_mean_fn_frequency.ok <;>
      cases PyVec.trad_mean_fn_amplitude.ok <;> cases PyVec.trad_std_fn_frequency.ok <;> cases PyVec.trad_std_fn_amplitude.ok <;> simp
  rcases py_trad_stats_state with h1 | hst
  · left; revert h1
    cases PyVec.trad_mean_fn_frequency.ok <;> cases PyVec.trad_mean_fn_amplitude.ok <;> cases PyVec.nanmean_weighted.ok <;>
      cases PyVec.trad_std_fn_frequency.ok <;> cases PyVec.trad_std_fn_amplitude.ok <;> cases PyVec.nanstd_weighted.ok <;> simp
  right
  intro n name d s hd
  have hlow : Dist.ofString (pyLower name) = some d := by rw [ofString_lower hd]; exact hd
  obtain ⟨hmf, hma, hsf, hsa⟩ := hst name s
  rw [hlow] at hmf hma hsf hsa
  simp only [Option.map_some] at hmf hma hsf hsa
  rw [(hdec (some n) name _ _).1, (hdec (some n) name _ _).2, hmf, hma, hsf, hsa]
  exact ⟨factoryO_eq n name d _ _ hd, factoryO_eq n name d _ _ hd⟩

end HV.Bridge
