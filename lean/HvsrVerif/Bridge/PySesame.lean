import HvsrVerif.Generated.PySesame
import HvsrVerif.Bridge.PyCommon
import HvsrVerif.Model.Sesame
/-! Bridge: the if/elif threshold chain of `sesame.clarity` = `thresholdBand` (see `Bridge/PyCommon.lean`) -/
set_option linter.unusedSimpArgs false
set_option linter.unusedTactic false
set_option linter.unreachableTactic false
namespace HV.Bridge
open HV HV.Generated Classical

/-! ## C16: the frequency-dependent thresholds of the SESAME table -/

theorem py_clarity_thresholds : Py.clarity_thresholds.ok = false ∨
    ∀ f0 : ℝ, Py.clarity_thresholds f0 = thresholdBand f0 := by
  bridge_cases
    intro f0
    simp only [Py.clarity_thresholds, thresholdBand, sesameBands, sesameLastBand, bandLookup, lit_real, ofNat_real]
    norm_num
    try (split_ifs <;> first | rfl | (exfalso; linarith) | (ext <;> norm_num))

end HV.Bridge
