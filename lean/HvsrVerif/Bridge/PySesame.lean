import HvsrVerif.Generated.PySesame
import HvsrVerif.Bridge.PyCommon
import HvsrVerif.Model.Sesame
/-! Bridge: the if/elif threshold chain of `sesame.clarity` = `thresholdBand` (see `Bridge/PyCommon.lean`) -/
set_option linter.unusedSimpArgs false
set_option linter.unusedTactic false
set_option linter.unreachableTactic false
namespace HV.Bridge
open HV HV.Generated Classical

/-! ## C16: the frequency-dependent thresholds of the SESAME table -/

theorem py_clarity_thresholds : Py.clarity_thresholds.ok = false ∨
    ∀ f0 : ℝ, Py.clarity_thresholds f0 = thresholdBand f0 := by
  bridge_cases
    intro f0
    simp only [Py.clarity_thresholds, thresholdBand, sesameBands, sesameLastBand, bandLookup, lit_real, ofNat_real]
    norm_num
    try (split_ifs <;> first | rfl | (exfalso; linarith) | (ext <;> norm_num))

/-- the numeric flag `criteria[k]` (0/1) that sesame.py fills in, as the model's Boolean verdict -/
def flag (b : Bool) : ℝ := if b then 1 else 0

/-- Reliability criteria i–iii as functions of the peak frequency `f0` of the mean curve and of the largest `σ_A` in the
band `(f0/2, 2·f0)`: exactly the three Booleans of the model's `reliability` (whose meaning is `RelSpec` in `Props/C16`). -/
theorem py_reliability_criteria : Py.reliability_criteria.ok = false ∨
    ∀ lw nw f0 smax : ℝ,
      Py.reliability_criteria lw nw f0 smax =
        (flag (decide (lit sesameConsts.relI / lw < f0)),
         flag (decide (lit sesameConsts.relII < lw * nw * f0)),
         flag (if lit sesameConsts.relIIIsplit < f0 then decide (smax < lit sesameConsts.relIIIa)
               else decide (smax < lit sesameConsts.relIIIb))) := by
  bridge_cases
    intro lw nw f0 smax
    simp only [Py.reliability_criteria, sesameConsts, flag, lit_real, ofNat_real]
    try norm_num
    all_goals (try simp only [Prod.mk.injEq])
    all_goals (repeat' constructor)
    all_goals (split_ifs <;> py_logic)

/-- Clarity criteria iii–vi as functions of the peak `(f0, a0)`, the peak frequencies of the ±σ curves, the standard
deviation of `fn` and `σ_A(f0)`: the Booleans `c3 … c6` of the model's `clarity`, thresholds from `thresholdBand`. -/
theorem py_clarity_criteria : Py.clarity_criteria.ok = false ∨
    ∀ f0 a0 fp fm fnStd sig : ℝ,
      Py.clarity_criteria f0 a0 fp fm fnStd sig =
        (flag (decide (lit sesameConsts.claIII < a0)),
         flag ((decide (f0 * lit sesameConsts.claIVlo < fp) && decide (fp < f0 * lit sesameConsts.claIVhi)) &&
               (decide (f0 * lit sesameConsts.claIVlo < fm) && decide (fm < f0 * lit sesameConsts.claIVhi))),
         flag (decide (fnStd < (thresholdBand f0).1 * f0)),
         flag (decide (sig < (thresholdBand f0).2))) := by
  bridge_cases
    intro f0 a0 fp fm fnStd sig
    simp only [Py.clarity_criteria, thresholdBand, sesameBands, sesameLastBand, bandLookup, sesameConsts, flag, lit_real, ofNat_real]
    try norm_num
    all_goals (try simp only [Prod.mk.injEq])
    all_goals (repeat' constructor)
    all_goals (split_ifs <;> py_logic)

/-! ## C16: trimming to the search range -/

/-- `trim_curve`, translated from the source: the limits are the minimum and the maximum of the pair (in either order), the distances are taken to those
limits, and the slice runs from the first sample nearest to the lower limit through (inclusive: `+ 1`) the first sample nearest to the upper limit --
`trimIdxs` of the model with `nearestIdx` for the two first-nearest samples -/
theorem py_trim_curve_indices : Py.trim_curve_indices.ok = false ∨
    ∀ (a b f : ℝ) (iLow iUpp : ℤ),
      Py.trim_curve_indices a b f iLow iUpp = (minA a b, maxA a b, |f - minA a b|, |f - maxA a b|, iLow, iUpp + 1) := by
  bridge_cases
    intro a b f iLow iUpp
    simp only [Py.trim_curve_indices, minA, maxA, absA_real]

theorem py_trim_curve_model (freq : List ℝ) (a b : ℝ) :
    trimIdxs freq a b = (nearestIdx freq (minA a b), nearestIdx freq (maxA a b) + 1) := rfl

end HV.Bridge
