import HvsrVerif.PyPrim
import HvsrVerif.Proofs.RealInst
import HvsrVerif.Model.Combine
import Mathlib.Tactic.Ring
import Mathlib.Tactic.FieldSimp
import Mathlib.Tactic.Linarith
/-!
# Bridge between the definitions translated from the Python source and the hand-written model (shared part)

`Generated/Py*.lean` are written by `tools/py2lean.py` from the *current* Python source on every run. Each theorem
of `Bridge/Py*.lean` says: either the translator could not handle the source any more (`NAME.ok = false`; then the
differential correspondence is the only tie for that function), or the translated function equals — for **all real
arguments** — the model function that the property theorems of `Props/` are about. A change of a formula in the Python
source therefore changes the statement that has to be proved; the proofs are written to survive algebraically
equivalent rewrites (`ring_nf`), not only textually identical ones.
-/
set_option linter.unusedSimpArgs false
set_option linter.unusedTactic false
set_option linter.unreachableTactic false
namespace HV.Bridge
open HV Classical

/-- closes `ok = false ∨ ∀ …` goals: try the trivial disjunct first -/
macro "bridge_cases" t:tacticSeq : tactic =>
  `(tactic| first | (left; rfl) | (right; ($t)))

/-- expose the real-number meaning of literals and primitives, then normalise both sides as ring expressions -/
macro "py_arith" : tactic =>
  `(tactic| (
    all_goals (try simp only [lit_real, ofNat_real, sqrt_real, log_real, exp_real, sin_real, cos_real, pi_real, pySquare, pyHypot,
      pyMaximum, pyMinimum, Nat.cast_ofNat, Nat.cast_one, Nat.cast_zero])
    all_goals (first | rfl | (ring_nf; done) | (norm_num; done) | (norm_num; ring_nf; done) | (congr 1; ring_nf; done))))

/-- leaf of a case split on comparisons: propositional reasoning after normalising the arithmetic atoms -/
macro "py_logic" : tactic =>
  `(tactic| first
    | rfl
    | (exfalso; linarith)
    | (exfalso; tauto)
    | (simp_all; done)
    | (ring_nf at *; tauto)
    | (ring_nf at *; simp_all; done)
    | (exfalso; simp_all; linarith)
    | (simp only [abs_sub_comm] at *; tauto)
    | (simp_all [abs_sub_comm]; done))

theorem py_radians (d : ℝ) : pyRadians d = radians d := rfl

theorem ofInt_real' (i : ℤ) : (ofInt i : ℝ) = (i : ℝ) := by
  unfold ofInt
  cases i with
  | ofNat n => simp
  | negSucc n => simp only [ofNat_real, Int.cast_negSucc]

theorem py_floordiv (x y : ℝ) : pyFloorDiv x y = ((⌊x / y⌋ : ℤ) : ℝ) := by
  unfold pyFloorDiv
  rw [ofInt_real', floor_real]

end HV.Bridge
